import Dasp.Model.Envelope
import Dasp.Lemmas.Rms
import Mathlib.Algebra.Order.Field.Basic
import Mathlib.Algebra.Order.AbsoluteValue.Basic
import Mathlib.Tactic.Linarith
import Mathlib.Tactic.Ring

/-!
# Exact-arithmetic facts about the rectifier and envelope models
(`Model/Peak.lean`, `Model/Envelope.lean`), at any linearly ordered field via `Dasp.Exact.fieldArith`
(gains and samples in the same field, `gain.to_sample()` = identity).
-/
set_option linter.unusedSectionVars false
set_option linter.dupNamespace false

namespace Dasp.Envelope
open Dasp Dasp.Exact

variable {K : Type} [Field K] [LinearOrder K] [IsStrictOrderedRing K]

/-- the gain `Detector::next` selects: attack when the previous envelope is below the detected value -/
def gainOf (attack release l d : K) : K := if l < d then attack else release

theorem envSample_eq (a r l d : K) : envSample id a r l d = d + gainOf a r l d * (l - d) := by
  simp only [envSample, gainOf, Arith.lt, Arith.add, Arith.neg, Arith.mul, id, decide_eq_true_eq]
  split <;> ring

theorem between_of_gain (g l d : K) (h0 : 0 ≤ g) (h1 : g ≤ 1) :
    min l d ≤ d + g * (l - d) ∧ d + g * (l - d) ≤ max l d := by
  rcases le_total l d with h | h
  · rw [min_eq_left h, max_eq_right h]
    constructor <;> nlinarith
  · rw [min_eq_right h, max_eq_left h]
    constructor <;> nlinarith

/-- the envelope after `k` frames whose detected value is the constant `d` -/
def iter (a r d : K) : Nat → K → K
  | 0, l => l
  | k + 1, l => envSample id a r (iter a r d k l) d

theorem iter_sub (a r d l : K) (ha : 0 ≤ a) (hr : 0 ≤ r) (k : Nat) :
    iter a r d k l - d = gainOf a r l d ^ k * (l - d) := by
  induction k with
  | zero => simp [iter]
  | succ k ih =>
    rw [iter, envSample_eq]
    have hstep : gainOf a r (iter a r d k l) d * (iter a r d k l - d) = gainOf a r l d * (iter a r d k l - d) := by
      unfold gainOf at ih ⊢
      by_cases h : l < d
      · -- below: the difference stays ≤ 0; if it reaches 0 the factor is irrelevant
        rw [if_pos h] at ih ⊢
        have hle : iter a r d k l - d ≤ 0 := by
          rw [ih]; exact mul_nonpos_of_nonneg_of_nonpos (pow_nonneg ha k) (by linarith)
        rcases lt_or_eq_of_le hle with hlt | heq
        · rw [if_pos (by linarith)]
        · rw [heq]; simp
      · rw [if_neg h] at ih ⊢
        have hge : 0 ≤ iter a r d k l - d := by
          rw [ih]; exact mul_nonneg (pow_nonneg hr k) (by linarith [not_lt.mp h])
        rw [if_neg (by linarith)]
    calc d + gainOf a r (iter a r d k l) d * (iter a r d k l - d) - d
        = gainOf a r (iter a r d k l) d * (iter a r d k l - d) := by ring
      _ = gainOf a r l d * (iter a r d k l - d) := hstep
      _ = gainOf a r l d ^ (k + 1) * (l - d) := by rw [ih]; ring

theorem calcGain_range (expO : K → K) (h : ∀ y, y < 0 → 0 ≤ expO y ∧ expO y < 1) (n : K) (hn : 0 ≤ n) :
    0 ≤ calcGain expO n ∧ calcGain expO n < 1 := by
  simp only [calcGain, Arith.beq, Arith.zero, Arith.div, Arith.neg, Arith.one, decide_eq_true_eq]
  split
  · exact ⟨le_refl 0, zero_lt_one⟩
  · rename_i hne
    have hpos : 0 < n := lt_of_le_of_ne hn (Ne.symm hne)
    exact h _ (div_neg_of_neg_of_pos (by linarith) hpos)

/-! ## the detector -/

variable {δ φ : Type}

theorem Detector.next_out (detect : δ → φ → δ × List K) (D : Detector K K δ) (f : φ) :
    (D.next id detect f).2 =
      List.zipWith (fun l d => d + gainOf D.attackGain D.releaseGain l d * (l - d)) D.lastEnv (detect D.det f).2 ∧
    (D.next id detect f).1.lastEnv = (D.next id detect f).2 ∧
    (D.next id detect f).1.attackGain = D.attackGain ∧ (D.next id detect f).1.releaseGain = D.releaseGain ∧
    (D.next id detect f).1.det = (detect D.det f).1 := by
  simp only [Detector.next, and_self, and_true]
  congr 1
  funext l d
  exact envSample_eq _ _ l d

/-- outputs of a history do not depend on what follows it (any arithmetic) -/
theorem Detector.run_append {γ α : Type} [Arith γ] [Arith α] (expO : γ → γ) (ofGain : γ → α)
    (detect : δ → φ → δ × List α) (ops1 ops2 : List (Op γ φ)) :
    ∀ D : Detector γ α δ,
      (D.run expO ofGain detect (ops1 ++ ops2)).2 =
        (D.run expO ofGain detect ops1).2 ++ ((D.run expO ofGain detect ops1).1.run expO ofGain detect ops2).2 := by
  induction ops1 with
  | nil => intro D; simp [Detector.run]
  | cons op ops ih => intro D; simp [Detector.run, ih]

theorem Detector.run_length {γ α : Type} [Arith γ] [Arith α] (expO : γ → γ) (ofGain : γ → α)
    (detect : δ → φ → δ × List α) (ops : List (Op γ φ)) :
    ∀ D : Detector γ α δ, (D.run expO ofGain detect ops).2.length = ops.length := by
  induction ops with
  | nil => intro D; simp [Detector.run]
  | cons op ops ih => intro D; simp [Detector.run, ih]

end Dasp.Envelope

namespace Dasp.Peak
open Dasp Dasp.Exact
variable {K : Type} [Field K] [LinearOrder K] [IsStrictOrderedRing K]

theorem fullWaveF_abs (s : K) : fullWaveF s = |s| := by
  simp only [fullWaveF, fullWave, Arith.lt, Arith.zero, Arith.neg, id, decide_eq_true_eq]
  split
  · rename_i h; simp [abs_of_neg h]
  · rename_i h; simp [abs_of_nonneg (not_lt.mp h)]

theorem positiveHalfWaveF_max (s : K) : positiveHalfWaveF s = max s 0 := by
  simp only [positiveHalfWaveF, positiveHalfWave, Arith.lt, Arith.zero, decide_eq_true_eq]
  split
  · rename_i h; rw [max_eq_right (le_of_lt h)]
  · rename_i h; rw [max_eq_left (not_lt.mp h)]

theorem negativeHalfWaveF_min (s : K) : negativeHalfWaveF s = min s 0 := by
  simp only [negativeHalfWaveF, negativeHalfWave, Arith.lt, Arith.zero, decide_eq_true_eq]
  split
  · rename_i h; rw [min_eq_right (le_of_lt h)]
  · rename_i h; rw [min_eq_left (not_lt.mp h)]

theorem fullWaveI_abs (f : IFmt) (checked : Bool) (s : Int) (h : s - f.eq ≠ f.smin) :
    fullWaveI f checked s = some |s - f.eq| := by
  simp only [fullWaveI, fullWave, IFmt.toSigned, IFmt.neg]
  by_cases hneg : s - f.eq < 0
  · simp [hneg, h, abs_of_neg hneg]
  · simp [hneg, abs_of_nonneg (not_lt.mp hneg)]

theorem positiveHalfWaveI_max (f : IFmt) (s : Int) : positiveHalfWaveI f s = max s f.eq := by
  simp only [positiveHalfWaveI, positiveHalfWave, decide_eq_true_eq]
  split <;> omega

theorem negativeHalfWaveI_min (f : IFmt) (s : Int) : negativeHalfWaveI f s = min s f.eq := by
  simp only [negativeHalfWaveI, negativeHalfWave, decide_eq_true_eq]
  split <;> omega

end Dasp.Peak
