import Dasp.Lemmas.ConvFloat
import Dasp.Machine.FConv
/-!
# Lemmas tying the executable soft-float operations used by the conversion shapes
(`ofInt`, `div`, `mul`, `toInt`, `cvt`) to the rounding function `rv`.
-/
namespace Dasp

/-! ## `round` in terms of `rv` -/

theorem round_zero (F : Fmt2) (neg : Bool) : round F neg 0 = .fin neg 0 := by
  simp [round, roundPos]

theorem round_of_pos (F : Fmt2) (neg : Bool) {q : ℚ} (hq : 0 < q) (hno : rv F q < pow2 (F.emax + 1)) :
    round F neg q = .fin false (rv F q) := by
  have h1 : ¬ q < 0 := not_lt.mpr (le_of_lt hq)
  have h2 : q ≠ 0 := ne_of_gt hq
  simp only [round, h1, if_false, roundPos_eq F q h2, ge_iff_le, not_le.mpr hno, h2]

theorem round_of_neg (F : Fmt2) (neg : Bool) {q : ℚ} (hq : q < 0) (hno : rv F (-q) < pow2 (F.emax + 1)) :
    round F neg q = .fin true (rv F (-q)) := by
  have h2 : -q ≠ 0 := by intro h; linarith [neg_eq_zero.mp h]
  simp only [round, hq, if_true, roundPos_eq F (-q) h2, ge_iff_le, not_le.mpr hno, if_false]

/-! ## helpers on `ilog2`, `gridExp`, `pow2` -/

theorem pow2_nat (k : ℕ) : pow2 (k : ℤ) = (2 : ℚ) ^ k := by rw [pow2_eq, zpow_natCast]

theorem pow2_zero : pow2 0 = 1 := by simp [pow2_eq]

theorem ilog2_le_of_le_pow2 {q : ℚ} (hq : 0 < q) {k : ℤ} (h : q ≤ pow2 k) : ilog2 q ≤ k := by
  apply Classical.byContradiction; intro hc
  have h1 : pow2 (k + 1) ≤ pow2 (ilog2 q) := pow2_mono (by omega)
  have h2 := (ilog2_spec q hq).1
  have h3 : pow2 k < pow2 (k + 1) := pow2_lt (by omega)
  linarith

theorem le_ilog2_of_pow2_le {q : ℚ} (hq : 0 < q) {k : ℤ} (h : pow2 k ≤ q) : k ≤ ilog2 q := by
  apply Classical.byContradiction; intro hc
  have h1 : pow2 (ilog2 q + 1) ≤ pow2 k := pow2_mono (by omega)
  have h2 := (ilog2_spec q hq).2
  linarith

theorem gridExp_le (F : Fmt2) {q : ℚ} (hq : 0 < q) {k : ℤ} (hk : F.emin ≤ k) (hp : 1 ≤ F.prec) (h : q ≤ pow2 k) :
    gridExp F q ≤ k := by
  have := ilog2_le_of_le_pow2 hq h
  unfold gridExp; omega

/-! ## integer → float: `(a as fN) / 2^k.0` is one correct rounding of `a / 2^k` -/

/-- the correctly rounded quotient `a / 2^k` as a float value (`+0.0` for `a = 0`) -/
def specI2F (F : Fmt2) (a : ℤ) (k : ℕ) : FP :=
  if a = 0 then .fin false 0 else .fin (decide (a < 0)) (rv F (|(a : ℚ)| / pow2 k))

theorem i2f_pos (F : Fmt2) (hp : 1 ≤ F.prec) {q : ℚ} (hq : 1 ≤ q) (k : ℕ)
    (hnorm : F.emin + k + F.prec ≤ 0) (hk : (k : ℤ) ≤ F.emax) (hb : q ≤ pow2 k) :
    rv F q < pow2 (F.emax + 1) ∧ 0 < rv F q / pow2 k ∧ rv F (rv F q / pow2 k) < pow2 (F.emax + 1) ∧
    rv F (rv F q / pow2 k) = rv F (q / pow2 k) := by
  have hq0 : 0 < q := by linarith
  have hemin : F.emin ≤ 0 := by omega
  have hge : gridExp F q ≤ k := gridExp_le F hq0 (by omega) hp hb
  have h1 : rv F q ≤ pow2 k := rv_le_pow2 F hge hb
  have hlt : pow2 (k : ℤ) < pow2 (F.emax + 1) := pow2_lt (by omega)
  have hl0 : 0 ≤ ilog2 q := le_ilog2_of_pow2_le hq0 (k := 0) (by rw [pow2_zero]; exact hq)
  have hy1 : 1 ≤ rv F q := by
    have h0 : gridExp F q ≤ ilog2 q := by unfold gridExp; omega
    have := pow2_le_rv F h0 (ilog2_spec q hq0).1
    have h2 : pow2 0 ≤ pow2 (ilog2 q) := pow2_mono hl0
    rw [pow2_zero] at h2; linarith
  have hk0 : (0 : ℚ) < pow2 k := pow2_pos _
  have hr : 0 < rv F q / pow2 k := div_pos (by linarith) hk0
  have hcorr : rv F (rv F q / pow2 k) = rv F (q / pow2 k) :=
    i2fPos_correct F hp hq (k : ℤ) (by omega) hnorm
  have hq1 : q / pow2 k ≤ pow2 0 := by
    rw [pow2_zero, div_le_one hk0]; exact hb
  have hq2 : 0 < q / pow2 k := div_pos hq0 hk0
  have h3 : rv F (q / pow2 k) ≤ pow2 0 := rv_le_pow2 F (gridExp_le F hq2 hemin hp hq1) hq1
  have hlt0 : pow2 (0 : ℤ) < pow2 (F.emax + 1) := pow2_lt (by omega)
  exact ⟨lt_of_le_of_lt h1 hlt, hr, by rw [hcorr]; exact lt_of_le_of_lt h3 hlt0, hcorr⟩

theorem i2f_shape (F : Fmt2) (hp : 1 ≤ F.prec) (a : ℤ) (k : ℕ)
    (hnorm : F.emin + k + F.prec ≤ 0) (hk : (k : ℤ) ≤ F.emax) (hb : |a| ≤ 2 ^ k) :
    div F (ofInt F a) (.fin false ((2 : ℚ) ^ k)) = specI2F F a k := by
  have h2k : ((2 : ℚ) ^ k) = pow2 k := (pow2_nat k).symm
  have h2k0 : ((2 : ℚ) ^ k) ≠ 0 := by positivity
  rcases lt_trichotomy a 0 with ha | ha | ha
  · have hq : ((a : ℤ) : ℚ) < 0 := by exact_mod_cast ha
    have habs : |(a : ℚ)| = -(a : ℚ) := abs_of_neg hq
    have hq1 : 1 ≤ -(a : ℚ) := by
      have h1 : a ≤ -1 := by omega
      have h2 : (a : ℚ) ≤ -1 := by exact_mod_cast h1
      linarith
    have hbq : -(a : ℚ) ≤ pow2 k := by
      rw [← h2k]
      have h1 : -a ≤ 2 ^ k := by rw [abs_of_neg ha] at hb; exact hb
      exact_mod_cast h1
    obtain ⟨n1, n2, n3, n4⟩ := i2f_pos F hp hq1 k hnorm hk hbq
    have hr : -(rv F (-(a : ℚ)) / 2 ^ k) < 0 := by rw [h2k]; linarith
    unfold ofInt specI2F
    rw [round_of_neg F false hq n1]
    simp only [div, h2k0, if_false, Bool.true_bne, Bool.not_false, if_true]
    rw [round_of_neg F true hr (by rw [neg_neg, h2k]; exact n3), neg_neg, h2k, n4, habs]
    simp [ne_of_lt ha, ha]
  · subst ha
    simp [ofInt, specI2F, round_zero, div, h2k0]
  · have hq : (0 : ℚ) < ((a : ℤ) : ℚ) := by exact_mod_cast ha
    have habs : |(a : ℚ)| = (a : ℚ) := abs_of_pos hq
    have hq1 : 1 ≤ (a : ℚ) := by
      have h1 : 1 ≤ a := by omega
      exact_mod_cast h1
    have hbq : (a : ℚ) ≤ pow2 k := by
      rw [← h2k]
      have h1 : a ≤ 2 ^ k := by rw [abs_of_pos ha] at hb; exact hb
      exact_mod_cast h1
    obtain ⟨n1, n2, n3, n4⟩ := i2f_pos F hp hq1 k hnorm hk hbq
    have hr : 0 < rv F (a : ℚ) / 2 ^ k := by rw [h2k]; exact n2
    unfold ofInt specI2F
    rw [round_of_pos F false hq n1]
    simp only [div, h2k0, if_false, Bool.false_bne, Bool.false_eq_true]
    rw [round_of_pos F false hr (by rw [h2k]; exact n3), h2k, n4, habs]
    simp [ne_of_gt ha, not_lt.mpr (le_of_lt ha)]

/-! ## float → integer: `(x * 2^k.0) as iN` is `trunc (x · 2^k)` on the documented domain -/

/-- a finite float value `(-1)^n · q` that is representable in `F` and lies in `[-1, 1)` -/
def InDomain (F : Fmt2) (n : Bool) (q : ℚ) : Prop :=
  (q = 0 ∨ (0 < q ∧ onGrid F q)) ∧ (if n then q ≤ 1 else q < 1)

/-- the rational value of a sign-magnitude pair -/
def sval (n : Bool) (q : ℚ) : ℚ := if n then -q else q

theorem truncQ_nonneg {x : ℚ} (h : 0 ≤ x) : truncQ x = ⌊x⌋ := by
  unfold truncQ; simp [h, rat_floor_eq]

theorem truncQ_neg {x : ℚ} (h : x < 0) : truncQ x = -⌊-x⌋ := by
  unfold truncQ; simp [not_le.mpr h, rat_floor_eq]

theorem toInt_fin_inrange (t : ITy) (n : Bool) (r : ℚ)
    (h1 : t.lo ≤ truncQ (sval n r)) (h2 : truncQ (sval n r) ≤ t.hi) :
    toInt t (.fin n r) = truncQ (sval n r) := by
  simp only [sval] at h1 h2
  simp only [toInt, sval]
  rw [if_neg (by omega), if_neg (by omega)]

/-- multiplying by the exact reciprocal of a positive constant is the same IEEE operation as dividing by it
    (the exact result is the same rational, rounded once) — for every operand, specials included -/
theorem mul_inv_eq_div (F : Fmt2) (x : FP) (c : ℚ) (hc : c ≠ 0) :
    mul F x (.fin false c⁻¹) = div F x (.fin false c) := by
  cases x with
  | nan => simp [mul, div]
  | inf a => simp [mul, div, hc]
  | fin na a => simp [mul, div, hc, div_eq_mul_inv]

/-- `i2f_shape` for the multiply-by-reciprocal spelling `(a as fN) * 2^-k` -/
theorem i2fm_shape (F : Fmt2) (hp : 1 ≤ F.prec) (a : ℤ) (k : ℕ)
    (hnorm : F.emin + k + F.prec ≤ 0) (hk : (k : ℤ) ≤ F.emax) (hb : |a| ≤ 2 ^ k) :
    mul F (ofInt F a) (.fin false (((2 : ℚ) ^ k)⁻¹)) = specI2F F a k := by
  rw [mul_inv_eq_div F _ _ (by positivity)]; exact i2f_shape F hp a k hnorm hk hb

theorem f2i_shape (F : Fmt2) (n : Bool) (q : ℚ) (k : ℕ) (t : ITy)
    (hd : InDomain F n q) (hk : (k : ℤ) ≤ F.emax) (hlo : t.lo ≤ -(2 : ℤ) ^ k) (hhi : (2 : ℤ) ^ k - 1 ≤ t.hi) :
    toInt t (mul F (.fin n q) (.fin false ((2 : ℚ) ^ k))) = truncQ (sval n q * 2 ^ k)
    ∧ -(2 : ℤ) ^ k ≤ truncQ (sval n q * 2 ^ k) ∧ truncQ (sval n q * 2 ^ k) ≤ (2 : ℤ) ^ k - 1 := by
  have h2k : ((2 : ℚ) ^ k) = pow2 k := (pow2_nat k).symm
  have hk0 : (0 : ℚ) < 2 ^ k := by positivity
  obtain ⟨hrep, hmag⟩ := hd
  have hlt : pow2 (k : ℤ) < pow2 (F.emax + 1) := pow2_lt (by omega)
  -- range of the truncated product
  have hrange : -(2 : ℤ) ^ k ≤ truncQ (sval n q * 2 ^ k) ∧ truncQ (sval n q * 2 ^ k) ≤ (2 : ℤ) ^ k - 1 := by
    have hq0 : 0 ≤ q := by
      rcases hrep with h | h
      · exact le_of_eq h.symm
      · exact le_of_lt h.1
    cases n with
    | false =>
      simp only [sval, Bool.false_eq_true, if_false] at hmag ⊢
      have h0 : 0 ≤ q * 2 ^ k := mul_nonneg hq0 (le_of_lt hk0)
      rw [truncQ_nonneg h0]
      constructor
      · have : (0 : ℤ) ≤ ⌊q * 2 ^ k⌋ := Int.floor_nonneg.mpr h0
        have : (0 : ℤ) ≤ 2 ^ k := by positivity
        omega
      · have h1 : q * 2 ^ k < (2 : ℚ) ^ k := by nlinarith
        have : ⌊q * 2 ^ k⌋ < (2 : ℤ) ^ k := by
          rw [Int.floor_lt]; push_cast; exact h1
        omega
    | true =>
      simp only [sval, if_true] at hmag ⊢
      rcases eq_or_lt_of_le hq0 with h | h
      · rw [← h]
        have hz : truncQ (-0 * 2 ^ k) = 0 := by simp [truncQ, rat_floor_eq]
        rw [hz]
        have : (0 : ℤ) < 2 ^ k := by positivity
        constructor <;> omega
      · have hneg : -q * 2 ^ k < 0 := by nlinarith
        rw [truncQ_neg hneg]
        have h1 : -(-q * 2 ^ k) = q * 2 ^ k := by ring
        rw [h1]
        have h2 : q * 2 ^ k ≤ (2 : ℚ) ^ k := by nlinarith
        have h3 : ⌊q * 2 ^ k⌋ ≤ (2 : ℤ) ^ k := by
          rw [Int.floor_le_iff]; push_cast; linarith
        have h4 : (0 : ℤ) ≤ ⌊q * 2 ^ k⌋ := Int.floor_nonneg.mpr (by nlinarith)
        have h5 : (0 : ℤ) < 2 ^ k := by positivity
        constructor <;> omega
  refine ⟨?_, hrange⟩
  -- the product is exact
  rcases hrep with h0 | ⟨hpos, hgrid⟩
  · subst h0
    have hs : sval n 0 * 2 ^ k = sval n 0 := by cases n <;> simp [sval]
    rw [hs] at hrange ⊢
    have hm : mul F (.fin n 0) (.fin false ((2 : ℚ) ^ k)) = .fin n 0 := by
      cases n <;> simp [mul, round_zero]
    rw [hm]; exact toInt_fin_inrange t n 0 (le_trans hlo hrange.1) (le_trans hrange.2 hhi)
  · have hex : rv F (q * 2 ^ k) = q * 2 ^ k := by rw [h2k]; exact mul_pow2_exact F hpos hgrid k (by omega)
    have hno : rv F (q * 2 ^ k) < pow2 (F.emax + 1) := by
      rw [hex]
      have : q * 2 ^ k ≤ pow2 k := by
        rw [← h2k]; cases n <;> simp at hmag <;> nlinarith
      linarith
    have hprod : 0 < q * 2 ^ k := mul_pos hpos hk0
    cases n with
    | false =>
      simp only [mul, Bool.false_bne, Bool.false_eq_true, if_false]
      rw [round_of_pos F false hprod hno, hex]
      have hs : sval false q * 2 ^ k = sval false (q * 2 ^ k) := by simp [sval]
      rw [hs] at hrange ⊢
      exact toInt_fin_inrange t false _ (le_trans hlo hrange.1) (le_trans hrange.2 hhi)
    | true =>
      simp only [mul, Bool.true_bne, Bool.not_false, if_true]
      have hn : -(q * 2 ^ k) < 0 := by linarith
      rw [round_of_neg F true hn (by rw [neg_neg]; exact hno), neg_neg, hex]
      have hs : sval true q * 2 ^ k = sval true (q * 2 ^ k) := by simp [sval]
      rw [hs] at hrange ⊢
      exact toInt_fin_inrange t true _ (le_trans hlo hrange.1) (le_trans hrange.2 hhi)

/-! ## consequences for the integer → float direction -/

/-- rational value of a finite float (0 for inf/NaN, which never occur in the statements below) -/
def fpVal : FP → ℚ
  | .fin n q => sval n q
  | _ => 0

theorem specI2F_val (F : Fmt2) (a : ℤ) (k : ℕ) :
    fpVal (specI2F F a k) = if a < 0 then -(rv F (|(a : ℚ)| / pow2 k)) else if a = 0 then 0 else rv F (|(a : ℚ)| / pow2 k) := by
  unfold specI2F
  by_cases h0 : a = 0
  · simp [h0, fpVal, sval]
  · by_cases hn : a < 0 <;> simp [h0, hn, fpVal, sval]

theorem rv_quot_le_one (F : Fmt2) (hp : 1 ≤ F.prec) (hemin : F.emin ≤ 0) {x : ℚ} (hx : 0 < x) (k : ℕ) (hb : x ≤ pow2 k) :
    rv F (x / pow2 k) ≤ 1 := by
  have hk0 : (0 : ℚ) < pow2 k := pow2_pos _
  have hq1 : x / pow2 k ≤ pow2 0 := by rw [pow2_zero, div_le_one hk0]; exact hb
  have hq2 : 0 < x / pow2 k := div_pos hx hk0
  have := rv_le_pow2 F (gridExp_le F hq2 hemin hp hq1) hq1
  rwa [pow2_zero] at this

theorem abs_cast_le_pow2 {a : ℤ} {k : ℕ} (hb : |a| ≤ 2 ^ k) : |(a : ℚ)| ≤ pow2 k := by
  rw [pow2_nat]
  have : ((|a| : ℤ) : ℚ) ≤ ((2 ^ k : ℤ) : ℚ) := by exact_mod_cast hb
  simpa using this

/-- int→float results lie in [-1, 1] -/
theorem specI2F_range (F : Fmt2) (hp : 1 ≤ F.prec) (hemin : F.emin ≤ 0) (a : ℤ) (k : ℕ) (hb : |a| ≤ 2 ^ k) :
    -1 ≤ fpVal (specI2F F a k) ∧ fpVal (specI2F F a k) ≤ 1 := by
  rw [specI2F_val]
  have hab := abs_cast_le_pow2 hb
  by_cases h0 : a = 0
  · simp [h0]
  have hpos : 0 < |(a : ℚ)| := abs_pos.mpr (by exact_mod_cast h0)
  have h1 := rv_quot_le_one F hp hemin hpos k hab
  have h2 : 0 ≤ rv F (|(a : ℚ)| / pow2 k) := rv_nonneg F (div_nonneg (le_of_lt hpos) (le_of_lt (pow2_pos _)))
  by_cases hn : a < 0 <;> simp [hn, h0] <;> constructor <;> linarith

/-- int→float is order preserving -/
theorem specI2F_mono (F : Fmt2) (hp : 1 ≤ F.prec) (a b : ℤ) (k : ℕ) (h : a ≤ b) :
    fpVal (specI2F F a k) ≤ fpVal (specI2F F b k) := by
  rw [specI2F_val, specI2F_val]
  have hk0 : (0 : ℚ) < pow2 k := pow2_pos _
  have nn : ∀ c : ℤ, 0 ≤ rv F (|(c : ℚ)| / pow2 k) := fun c => rv_nonneg F (div_nonneg (abs_nonneg _) (le_of_lt hk0))
  by_cases ha : a < 0
  · by_cases hb : b < 0
    · simp only [ha, hb, if_true]
      have h1 : |(b : ℚ)| ≤ |(a : ℚ)| := by
        rw [abs_of_neg (by exact_mod_cast hb), abs_of_neg (by exact_mod_cast ha)]
        have : (a : ℚ) ≤ b := by exact_mod_cast h
        linarith
      have hbpos : 0 < |(b : ℚ)| / pow2 k := div_pos (abs_pos.mpr (by exact_mod_cast (ne_of_lt hb))) hk0
      have := rv_mono F hp hbpos (div_le_div_of_nonneg_right h1 (le_of_lt hk0))
      linarith
    · simp only [ha, hb, if_true, if_false]
      split <;> linarith [nn a, nn b]
  · have hb : ¬ b < 0 := by omega
    simp only [ha, hb, if_false]
    by_cases ha0 : a = 0
    · simp only [ha0, if_true]; split <;> linarith [nn b]
    · have hb0 : b ≠ 0 := by omega
      simp only [ha0, hb0, if_false]
      have hapos : (0 : ℚ) < a := by exact_mod_cast (show 0 < a by omega)
      have hbpos : (0 : ℚ) < b := by exact_mod_cast (show 0 < b by omega)
      rw [abs_of_pos hapos, abs_of_pos hbpos]
      exact rv_mono F hp (div_pos hapos hk0) (div_le_div_of_nonneg_right (by exact_mod_cast h) (le_of_lt hk0))

/-- an integer of at most `prec` bits scaled by a power of two (not below the subnormal grid) is representable -/
theorem onGrid_int_scaled (F : Fmt2) (hp : 1 ≤ F.prec) {m : ℤ} (hm : 0 < m) (hmb : m ≤ 2 ^ (F.prec - 1)) (k : ℕ) (hk : F.emin ≤ -(k : ℤ)) :
    onGrid F ((m : ℚ) / pow2 k) := by
  have hk0 : (0 : ℚ) < pow2 k := pow2_pos _
  have hmq : (0 : ℚ) < m := by exact_mod_cast hm
  have hx : 0 < (m : ℚ) / pow2 k := div_pos hmq hk0
  have hdiv : (m : ℚ) / pow2 k = m * pow2 (-(k : ℤ)) := by
    rw [div_eq_mul_inv]; congr 1; rw [pow2_eq, pow2_eq, zpow_neg]
  -- m ≤ 2^(prec-1) gives ilog2 (m/2^k) ≤ prec - 1 - k
  have hle : (m : ℚ) / pow2 k ≤ pow2 ((F.prec : ℤ) - 1 - k) := by
    rw [hdiv]
    have h1 : (m : ℚ) ≤ pow2 ((F.prec - 1 : ℕ) : ℤ) := by
      rw [pow2_nat]; exact_mod_cast hmb
    have h2 : ((F.prec - 1 : ℕ) : ℤ) = (F.prec : ℤ) - 1 := by omega
    rw [h2] at h1
    calc (m : ℚ) * pow2 (-(k : ℤ)) ≤ pow2 ((F.prec : ℤ) - 1) * pow2 (-(k : ℤ)) :=
          mul_le_mul_of_nonneg_right h1 (le_of_lt (pow2_pos _))
      _ = pow2 ((F.prec : ℤ) - 1 - k) := by rw [← pow2_add]; congr 1
  have hlog := ilog2_le_of_le_pow2 hx hle
  have hg : gridExp F ((m : ℚ) / pow2 k) ≤ -(k : ℤ) := by unfold gridExp; omega
  obtain ⟨c, hc⟩ := pow2_int_of_nonneg (show 0 ≤ -(k : ℤ) - gridExp F ((m : ℚ) / pow2 k) by omega)
  refine ⟨m * c, ?_⟩
  calc (m : ℚ) / pow2 k = m * pow2 (-(k : ℤ)) := hdiv
    _ = m * pow2 ((-(k : ℤ) - gridExp F ((m : ℚ) / pow2 k)) + gridExp F ((m : ℚ) / pow2 k)) := by congr 2; ring
    _ = m * (pow2 (-(k : ℤ) - gridExp F ((m : ℚ) / pow2 k)) * pow2 (gridExp F ((m : ℚ) / pow2 k))) := by rw [pow2_add]
    _ = ((m * c : ℤ) : ℚ) * pow2 (gridExp F ((m : ℚ) / pow2 k)) := by rw [hc]; push_cast; ring

/-- int→float is exact whenever the integer width fits the mantissa (`k + 1 ≤ prec`) -/
theorem specI2F_exact (F : Fmt2) (hp : 1 ≤ F.prec) (a : ℤ) (k : ℕ) (hb : |a| ≤ 2 ^ k)
    (hfit : k + 1 ≤ F.prec) (hk : F.emin ≤ -(k : ℤ)) :
    specI2F F a k = if a = 0 then .fin false 0 else .fin (decide (a < 0)) (|(a : ℚ)| / pow2 k) := by
  unfold specI2F
  by_cases h0 : a = 0
  · simp [h0]
  simp only [h0, if_false]
  have hpos : 0 < |a| := abs_pos.mpr h0
  have hmb : |a| ≤ 2 ^ (F.prec - 1) := le_trans hb (by
    have : k ≤ F.prec - 1 := by omega
    exact_mod_cast Nat.pow_le_pow_right (by norm_num) this)
  have := onGrid_int_scaled F hp hpos hmb k hk
  have hc : ((|a| : ℤ) : ℚ) = |(a : ℚ)| := by simp
  rw [hc] at this
  rw [rv_id F this]

theorem specI2F_exact_val (F : Fmt2) (hp : 1 ≤ F.prec) (a : ℤ) (k : ℕ) (hb : |a| ≤ 2 ^ k)
    (hfit : k + 1 ≤ F.prec) (hk : F.emin ≤ -(k : ℤ)) :
    fpVal (specI2F F a k) = (a : ℚ) / 2 ^ k := by
  rw [specI2F_exact F hp a k hb hfit hk, ← pow2_nat]
  by_cases h0 : a = 0
  · simp [h0, fpVal, sval]
  · by_cases hn : a < 0
    · simp only [h0, if_false, hn, decide_true, fpVal, sval, if_true]
      rw [abs_of_neg (by exact_mod_cast hn)]; ring
    · simp only [h0, if_false, hn, decide_false, fpVal, sval, Bool.false_eq_true]
      rw [abs_of_nonneg (by exact_mod_cast (show 0 ≤ a by omega))]

/-! ## consequences for the float → integer direction -/

theorem truncQ_mono {x y : ℚ} (h : x ≤ y) : truncQ x ≤ truncQ y := by
  by_cases hx : 0 ≤ x
  · have hy : 0 ≤ y := le_trans hx h
    rw [truncQ_nonneg hx, truncQ_nonneg hy]; exact Int.floor_mono h
  · have hx' : x < 0 := not_le.mp hx
    rw [truncQ_neg hx']
    by_cases hy : 0 ≤ y
    · rw [truncQ_nonneg hy]
      have h1 : 0 ≤ ⌊-x⌋ := Int.floor_nonneg.mpr (by linarith)
      have h2 : 0 ≤ ⌊y⌋ := Int.floor_nonneg.mpr hy
      omega
    · have hy' : y < 0 := not_le.mp hy
      rw [truncQ_neg hy']
      have : ⌊-y⌋ ≤ ⌊-x⌋ := Int.floor_mono (by linarith)
      omega

theorem truncQ_int (z : ℤ) : truncQ (z : ℚ) = z := by
  by_cases h : 0 ≤ z
  · rw [truncQ_nonneg (by exact_mod_cast h)]; simp
  · have h' : z < 0 := by omega
    rw [truncQ_neg (by exact_mod_cast h')]
    have : -(z : ℚ) = ((-z : ℤ) : ℚ) := by push_cast; rfl
    rw [this, Int.floor_intCast]; omega

/-- float→int scaling-and-truncation is order preserving -/
theorem f2i_mono (k : ℕ) {x y : ℚ} (h : x ≤ y) : truncQ (x * 2 ^ k) ≤ truncQ (y * 2 ^ k) :=
  truncQ_mono (mul_le_mul_of_nonneg_right h (by positivity))

theorem f2i_zero (n : Bool) (k : ℕ) : truncQ (sval n 0 * 2 ^ k) = 0 := by
  cases n <;> simp [sval, truncQ, rat_floor_eq]

theorem f2i_neg_one (k : ℕ) : truncQ (sval true 1 * 2 ^ k) = -(2 : ℤ) ^ k := by
  have : sval true 1 * (2 : ℚ) ^ k = ((-(2 : ℤ) ^ k : ℤ) : ℚ) := by simp [sval]
  rw [this, truncQ_int]

/-- the float produced by an exact int→float conversion is in the float→int domain and is mapped back -/
theorem f2i_inverts_exact (F : Fmt2) (hp : 1 ≤ F.prec) (a : ℤ) (k : ℕ)
    (hlo : -(2 : ℤ) ^ k ≤ a) (hhi : a ≤ 2 ^ k - 1) (hfit : k + 1 ≤ F.prec) (hk : F.emin ≤ -(k : ℤ)) :
    ∃ n q, specI2F F a k = .fin n q ∧ InDomain F n q ∧ truncQ (sval n q * 2 ^ k) = a := by
  have h2pos : (0 : ℤ) < 2 ^ k := by positivity
  have hb : |a| ≤ 2 ^ k := abs_le.mpr ⟨by omega, by omega⟩
  have hk0 : (0 : ℚ) < pow2 k := pow2_pos _
  rw [specI2F_exact F hp a k hb hfit hk]
  by_cases h0 : a = 0
  · subst h0
    refine ⟨false, 0, by simp, ⟨Or.inl rfl, by simp⟩, ?_⟩
    simp [f2i_zero]
  simp only [h0, if_false]
  have hpos : 0 < |a| := abs_pos.mpr h0
  have hmb : |a| ≤ 2 ^ (F.prec - 1) := le_trans hb (by
    have : k ≤ F.prec - 1 := by omega
    exact_mod_cast Nat.pow_le_pow_right (by norm_num) this)
  have hgrid := onGrid_int_scaled F hp hpos hmb k hk
  have hc : ((|a| : ℤ) : ℚ) = |(a : ℚ)| := by simp
  rw [hc] at hgrid
  have hqpos : 0 < |(a : ℚ)| / pow2 k := div_pos (abs_pos.mpr (by exact_mod_cast h0)) hk0
  refine ⟨decide (a < 0), |(a : ℚ)| / pow2 k, rfl, ⟨Or.inr ⟨hqpos, hgrid⟩, ?_⟩, ?_⟩
  · by_cases hn : a < 0
    · simp only [hn, decide_true, if_true]
      rw [div_le_one hk0]; exact abs_cast_le_pow2 hb
    · simp only [hn, decide_false, Bool.false_eq_true, if_false]
      rw [div_lt_one hk0, pow2_nat, abs_of_nonneg (by exact_mod_cast (show 0 ≤ a by omega))]
      have : a < 2 ^ k := by omega
      exact_mod_cast this
  · have h2k : ((2 : ℚ) ^ k) = pow2 k := (pow2_nat k).symm
    have hval : sval (decide (a < 0)) (|(a : ℚ)| / pow2 k) * 2 ^ k = (a : ℚ) := by
      rw [h2k]
      by_cases hn : a < 0
      · simp only [hn, decide_true, sval, if_true]
        rw [abs_of_neg (by exact_mod_cast hn)]; field_simp
      · simp only [hn, decide_false, sval, Bool.false_eq_true, if_false]
        rw [abs_of_nonneg (by exact_mod_cast (show 0 ≤ a by omega))]; field_simp
    rw [hval, truncQ_int]

/-! ## float ↔ float -/

theorem gridExp_finer (F G : Fmt2) (hprec : F.prec ≤ G.prec) (hemin : G.emin ≤ F.emin) (q : ℚ) :
    gridExp G q ≤ gridExp F q := by unfold gridExp; omega

/-- a value representable in the narrower format is representable in the wider one -/
theorem onGrid_finer (F G : Fmt2) (hprec : F.prec ≤ G.prec) (hemin : G.emin ≤ F.emin) {q : ℚ} (h : onGrid F q) :
    onGrid G q := by
  obtain ⟨m, hm⟩ := h
  have hg := gridExp_finer F G hprec hemin q
  obtain ⟨c, hc⟩ := pow2_int_of_nonneg (show 0 ≤ gridExp F q - gridExp G q by omega)
  refine ⟨m * c, ?_⟩
  calc q = (m : ℚ) * pow2 (gridExp F q) := hm
    _ = m * pow2 ((gridExp F q - gridExp G q) + gridExp G q) := by congr 2; ring
    _ = m * (pow2 (gridExp F q - gridExp G q) * pow2 (gridExp G q)) := by rw [pow2_add]
    _ = ((m * c : ℤ) : ℚ) * pow2 (gridExp G q) := by rw [hc]; push_cast; ring

/-- f32 → f64 is exact on every finite f32 value -/
theorem cvt_f64_exact (n : Bool) (q : ℚ) (hq : q = 0 ∨ (0 < q ∧ onGrid Dasp.f32 q ∧ q < pow2 128)) :
    cvt .f64 (.fin n q) = .fin n q := by
  rcases hq with h0 | ⟨hpos, hgrid, hlt⟩
  · simp [cvt, h0]
  have hne : q ≠ 0 := ne_of_gt hpos
  have hg64 : onGrid Dasp.f64 q := onGrid_finer Dasp.f32 Dasp.f64 (by norm_num [Dasp.f32, Dasp.f64]) (by norm_num [Dasp.f32, Dasp.f64]) hgrid
  have hid := rv_id Dasp.f64 hg64
  have hno : rv Dasp.f64 q < pow2 (Dasp.f64.emax + 1) := by
    rw [hid]; exact lt_trans hlt (pow2_lt (by norm_num [Dasp.f64]))
  cases n with
  | false => simp only [cvt, hne, if_false, Bool.false_eq_true, FFmt.fmt]; rw [round_of_pos _ _ hpos hno, hid]
  | true =>
    simp only [cvt, hne, if_false, if_true, FFmt.fmt]
    rw [round_of_neg _ _ (by linarith) (by rw [neg_neg]; exact hno), neg_neg, hid]

/-- rounding error of `rv` is at most half a unit in the last place of the operand's grid -/
theorem rv_err (F : Fmt2) (q : ℚ) : |rv F q - q| ≤ pow2 (gridExp F q) / 2 := by
  unfold rv
  set e := gridExp F q
  have he : (0 : ℚ) < pow2 e := pow2_pos e
  obtain ⟨⟨h1, h2⟩, _⟩ := rne_spec (q / pow2 e)
  have hq : q = q / pow2 e * pow2 e := by field_simp
  have : (rne (q / pow2 e) : ℚ) * pow2 e - q = ((rne (q / pow2 e) : ℚ) - q / pow2 e) * pow2 e := by
    rw [sub_mul]; congr 1
  rw [this, abs_mul, abs_of_pos he]
  have h3 : |(rne (q / pow2 e) : ℚ) - q / pow2 e| ≤ 1 / 2 := by
    rw [abs_le]; constructor <;> linarith
  calc |(rne (q / pow2 e) : ℚ) - q / pow2 e| * pow2 e ≤ 1 / 2 * pow2 e := mul_le_mul_of_nonneg_right h3 (le_of_lt he)
    _ = pow2 e / 2 := by ring

/-- f64 → f32 is the round-to-nearest-even value: representable in f32 and within half an
    f32 ulp of the operand (overflow to ±inf when the rounded magnitude reaches 2^128) -/
theorem cvt_f32_spec (n : Bool) (q : ℚ) (hpos : 0 < q) :
    cvt .f32 (.fin n q) = (if rv Dasp.f32 q < pow2 128 then .fin n (rv Dasp.f32 q) else .inf n)
    ∧ onGrid Dasp.f32 (rv Dasp.f32 q) ∧ |rv Dasp.f32 q - q| ≤ pow2 (gridExp Dasp.f32 q) / 2 := by
  refine ⟨?_, rv_onGrid _ (by norm_num [Dasp.f32]) hpos, rv_err _ q⟩
  have hne : q ≠ 0 := ne_of_gt hpos
  have hem : Dasp.f32.emax + 1 = 128 := by norm_num [Dasp.f32]
  have hn : -q < 0 := by linarith
  have hne' : - -q ≠ 0 := by simpa using hne
  by_cases hov : rv Dasp.f32 q < pow2 128
  · have hno : rv Dasp.f32 q < pow2 (Dasp.f32.emax + 1) := by rw [hem]; exact hov
    cases n with
    | false =>
      simp only [cvt, hne, if_false, Bool.false_eq_true, FFmt.fmt, hov, if_true]
      rw [round_of_pos _ _ hpos hno]
    | true =>
      simp only [cvt, hne, if_false, if_true, FFmt.fmt, hov]
      rw [round_of_neg _ _ hn (by rw [neg_neg]; exact hno), neg_neg]
  · have hge : rv Dasp.f32 q ≥ pow2 (Dasp.f32.emax + 1) := by rw [hem]; exact not_lt.mp hov
    cases n with
    | false =>
      simp only [cvt, hne, if_false, Bool.false_eq_true, FFmt.fmt, hov, round, not_lt.mpr (le_of_lt hpos),
        roundPos_eq _ q hne, hge, if_true]
    | true =>
      have hge' : rv Dasp.f32 (- -q) ≥ pow2 (Dasp.f32.emax + 1) := by rw [neg_neg]; exact hge
      simp only [cvt, hne, if_false, if_true, FFmt.fmt, hov, round, hn, roundPos_eq _ (- -q) hne', hge']

/-! ## `mul_amp(1.0)` when the integer format is wider than the mantissa -/

/-- multiplying a representable value by 1.0 is exact -/
theorem mul_one_rep (F : Fmt2) (n : Bool) (q : ℚ) (hq : q = 0 ∨ (0 < q ∧ onGrid F q ∧ q < pow2 (F.emax + 1))) :
    mul F (.fin n q) (.fin false 1) = .fin n q := by
  rcases hq with h0 | ⟨hpos, hg, hlt⟩
  · subst h0; cases n <;> simp [mul, round_zero]
  · have hid := rv_id F hg
    cases n with
    | false =>
      simp only [mul, mul_one, Bool.false_bne, Bool.false_eq_true, if_false]
      rw [round_of_pos F false hpos (by rw [hid]; exact hlt), hid]
    | true =>
      simp only [mul, mul_one, Bool.true_bne, Bool.not_false, if_true]
      rw [round_of_neg F true (by linarith) (by rw [neg_neg, hid]; exact hlt), neg_neg, hid]



theorem truncQ_err (z : ℚ) : |((truncQ z : ℤ) : ℚ) - z| ≤ 1 := by
  by_cases h : 0 ≤ z
  · rw [truncQ_nonneg h, abs_le]
    constructor <;> linarith [Int.floor_le z, Int.lt_floor_add_one z]
  · have h' : z < 0 := not_le.mp h
    rw [truncQ_neg h', abs_le]; push_cast
    constructor <;> linarith [Int.floor_le (-z), Int.lt_floor_add_one (-z)]

/-- clamping into a range that contains `a` never moves a value away from `a` -/
theorem clamp_near (lo hi v a : ℤ) (h1 : lo ≤ a) (h2 : a ≤ hi) :
    |(if v < lo then lo else if v > hi then hi else v) - a| ≤ |v - a| := by
  split
  · rw [abs_of_nonpos (by omega), abs_of_nonpos (by omega)]; omega
  · split
    · rw [abs_of_nonneg (by omega), abs_of_nonneg (by omega)]; omega
    · exact le_refl _

theorem rv_pos (F : Fmt2) (hp : 1 ≤ F.prec) {q : ℚ} (hq : 0 < q) (he : F.emin ≤ ilog2 q) : 0 < rv F q := by
  have h0 : gridExp F q ≤ ilog2 q := by unfold gridExp; omega
  exact lt_of_lt_of_le (pow2_pos _) (pow2_le_rv F h0 (ilog2_spec q hq).1)

/-- value → float → ×1.0 → ×2^k → integer: within `2^(k+1−prec)` of the value, and in range -/
theorem i2f_mul1_f2i_near (F : Fmt2) (hp : 1 ≤ F.prec) (a : ℤ) (k : ℕ) (t : ITy)
    (hk : (k : ℤ) ≤ F.emax) (hemin : F.emin ≤ -(k : ℤ)) (hemin2 : F.emin ≤ 1 - (F.prec : ℤ)) (hpk : F.prec ≤ k)
    (hlo : t.lo = -(2 : ℤ) ^ k) (hhi : t.hi = 2 ^ k - 1) (ha1 : -(2 : ℤ) ^ k ≤ a) (ha2 : a ≤ 2 ^ k - 1) :
    ∃ r : ℤ, toInt t (mul F (mul F (specI2F F a k) (.fin false 1)) (.fin false ((2 : ℚ) ^ k))) = r ∧
      t.lo ≤ r ∧ r ≤ t.hi ∧ |r - a| ≤ 2 ^ (k + 1 - F.prec) := by
  have h2pos : (0 : ℤ) < 2 ^ k := by positivity
  have hk0 : (0 : ℚ) < pow2 k := pow2_pos _
  have h2k : ((2 : ℚ) ^ k) = pow2 k := (pow2_nat k).symm
  have hE : (1 : ℤ) ≤ 2 ^ (k + 1 - F.prec) := by exact_mod_cast Nat.one_le_two_pow
  by_cases h0 : a = 0
  · subst h0
    refine ⟨0, ?_, by rw [hlo]; omega, by rw [hhi]; omega, by simpa using le_trans (by norm_num) hE⟩
    have h1 : mul F (specI2F F 0 k) (.fin false 1) = .fin false 0 := by simp [specI2F, mul, round_zero]
    rw [h1]
    have h2 : mul F (.fin false 0) (.fin false ((2 : ℚ) ^ k)) = .fin false 0 := by simp [mul, round_zero]
    rw [h2]
    have hz : truncQ (sval false 0) = 0 := by simp [sval, truncQ, rat_floor_eq]
    have := toInt_fin_inrange t false 0 (by rw [hz, hlo]; omega) (by rw [hz, hhi]; omega)
    rw [this, hz]
  -- a ≠ 0
  have hb : |a| ≤ 2 ^ k := abs_le.mpr ⟨by omega, by omega⟩
  have hab := abs_cast_le_pow2 hb
  have hapos : 0 < |(a : ℚ)| := abs_pos.mpr (by exact_mod_cast h0)
  set q := |(a : ℚ)| / pow2 k with hq
  have hqpos : 0 < q := div_pos hapos hk0
  have hq1 : q ≤ 1 := by rw [hq, div_le_one hk0]; exact hab
  have hqlo : pow2 (-(k : ℤ)) ≤ q := by
    have h1 : (1 : ℚ) ≤ |(a : ℚ)| := by
      have : (1 : ℤ) ≤ |a| := Int.one_le_abs h0
      have h2 : ((1 : ℤ) : ℚ) ≤ ((|a| : ℤ) : ℚ) := by exact_mod_cast this
      simpa using h2
    rw [hq, le_div_iff₀ hk0, ← pow2_add]; simpa [pow2_zero] using h1
  have hlq : -(k : ℤ) ≤ ilog2 q := le_ilog2_of_pow2_le hqpos hqlo
  have hlq0 : ilog2 q ≤ 0 := ilog2_le_of_le_pow2 hqpos (by rw [pow2_zero]; exact hq1)
  set y := rv F q with hy
  have hypos : 0 < y := rv_pos F hp hqpos (by omega)
  have hy1 : y ≤ 1 := rv_quot_le_one F hp (by omega) hapos k hab
  have hyg : onGrid F y := rv_onGrid F hp hqpos
  have hylt : y < pow2 (F.emax + 1) := lt_of_le_of_lt hy1 (by rw [← pow2_zero]; exact pow2_lt (by omega))
  -- the float after ×1.0 is unchanged
  have hs : specI2F F a k = .fin (decide (a < 0)) y := by simp [specI2F, h0, hy, hq]
  rw [hs, mul_one_rep F _ y (Or.inr ⟨hypos, hyg, hylt⟩)]
  -- ×2^k is exact
  set n := decide (a < 0) with hn
  have hex : rv F (y * 2 ^ k) = y * 2 ^ k := by rw [h2k]; exact mul_pow2_exact F hypos hyg k (by omega)
  have hprod : 0 < y * 2 ^ k := mul_pos hypos (by positivity)
  have hno : rv F (y * 2 ^ k) < pow2 (F.emax + 1) := by
    rw [hex, h2k]
    have : y * pow2 k ≤ pow2 k := by nlinarith
    exact lt_of_le_of_lt this (pow2_lt (by omega))
  have hmul : mul F (.fin n y) (.fin false ((2 : ℚ) ^ k)) = .fin n (y * 2 ^ k) := by
    cases n with
    | false => simp only [mul, Bool.false_bne, Bool.false_eq_true, if_false]; rw [round_of_pos F false hprod hno, hex]
    | true =>
      simp only [mul, Bool.true_bne, Bool.not_false, if_true]
      rw [round_of_neg F true (by linarith) (by rw [neg_neg]; exact hno), neg_neg, hex]
  rw [hmul]
  -- error of the scaled rounded value
  have herr : |sval n (y * 2 ^ k) - (a : ℚ)| ≤ (2 : ℚ) ^ (k + 1 - F.prec) - 1 := by
    have hge : gridExp F q ≤ 1 - (F.prec : ℤ) := by unfold gridExp; omega
    have h1 : |y - q| ≤ pow2 (1 - (F.prec : ℤ)) / 2 := le_trans (rv_err F q) (by
      have := pow2_mono hge; linarith)
    have hsv : sval n (y * 2 ^ k) - (a : ℚ) = (if n then -1 else 1) * ((y - q) * pow2 k) := by
      have haq : (a : ℚ) = (if n then -1 else 1) * (q * pow2 k) := by
        rw [hq, div_mul_cancel₀ _ (ne_of_gt hk0)]
        by_cases hneg : a < 0
        · simp [hn, hneg, abs_of_neg (show (a : ℚ) < 0 by exact_mod_cast hneg)]
        · simp [hn, hneg, abs_of_nonneg (show (0 : ℚ) ≤ a by exact_mod_cast (not_lt.mp hneg))]
      rw [haq, h2k]; cases n <;> simp [sval] <;> ring
    rw [hsv, abs_mul, abs_mul, abs_of_pos hk0]
    have hsgn : |(if n then (-1 : ℚ) else 1)| = 1 := by cases n <;> simp
    rw [hsgn, one_mul]
    have h2 : |y - q| * pow2 k ≤ pow2 (1 - (F.prec : ℤ)) / 2 * pow2 k := mul_le_mul_of_nonneg_right h1 (le_of_lt hk0)
    have h3 : pow2 (1 - (F.prec : ℤ)) / 2 * pow2 k = pow2 ((k : ℤ) - F.prec) := by
      have : pow2 (1 - (F.prec : ℤ)) = 2 * pow2 (-(F.prec : ℤ)) := by
        rw [show (1 - (F.prec : ℤ)) = -(F.prec : ℤ) + 1 by ring, pow2_succ]
      rw [this, show (k : ℤ) - F.prec = -(F.prec : ℤ) + k by ring, pow2_add]; ring
    have h4 : pow2 ((k : ℤ) - F.prec) ≤ (2 : ℚ) ^ (k + 1 - F.prec) - 1 := by
      have e : ((k + 1 - F.prec : ℕ) : ℤ) = ((k : ℤ) - F.prec) + 1 := by omega
      rw [← pow2_nat, e, pow2_succ]
      have : (1 : ℚ) ≤ pow2 ((k : ℤ) - F.prec) := by
        rw [← pow2_zero]; exact pow2_mono (by omega)
      linarith
    linarith
  -- truncate, clamp
  set z := sval n (y * 2 ^ k) with hz
  have hT : |((truncQ z : ℤ) : ℚ) - (a : ℚ)| ≤ (2 : ℚ) ^ (k + 1 - F.prec) := by
    have h1 := truncQ_err z
    have h2 : ((truncQ z : ℤ) : ℚ) - (a : ℚ) = (((truncQ z : ℤ) : ℚ) - z) + (z - a) := by ring
    rw [h2]; exact le_trans (abs_add_le _ _) (by linarith)
  have hTz : |truncQ z - a| ≤ 2 ^ (k + 1 - F.prec) := by
    have : ((|truncQ z - a| : ℤ) : ℚ) ≤ (((2 : ℤ) ^ (k + 1 - F.prec) : ℤ) : ℚ) := by push_cast; exact hT
    exact_mod_cast this
  have htoInt : toInt t (.fin n (y * 2 ^ k)) = (if truncQ z < t.lo then t.lo else if truncQ z > t.hi then t.hi else truncQ z) := by
    simp only [toInt, hz, sval]
  have hlh : t.lo ≤ t.hi := by rw [hlo, hhi]; omega
  refine ⟨toInt t (.fin n (y * 2 ^ k)), rfl, ?_, ?_, ?_⟩
  · rw [htoInt]; split
    · exact le_refl _
    · split <;> omega
  · rw [htoInt]; split
    · exact hlh
    · split <;> omega
  · have hc := clamp_near t.lo t.hi (truncQ z) a (by rw [hlo]; exact ha1) (by rw [hhi]; exact ha2)
    rw [htoInt]; exact le_trans hc hTz

end Dasp
