import Dasp.Lemmas.Round

namespace Dasp

theorem rne_nonneg {x : ℚ} (h : 0 ≤ x) : 0 ≤ rne x := by
  have := rne_mono h; rw [show ((0:ℚ)) = ((0:ℤ):ℚ) by simp, rne_int] at this; exact this

theorem rv_nonneg (F : Fmt2) {q : ℚ} (h : 0 ≤ q) : 0 ≤ rv F q := by
  unfold rv
  have h1 : 0 ≤ q / pow2 (gridExp F q) := div_nonneg h (le_of_lt (pow2_pos _))
  have h2 : (0:ℚ) ≤ rne (q / pow2 (gridExp F q)) := by exact_mod_cast rne_nonneg h1
  exact mul_nonneg h2 (le_of_lt (pow2_pos _))

theorem rv_zero (F : Fmt2) : rv F 0 = 0 := by
  unfold rv; simp [show rne (0:ℚ) = 0 from by have := rne_int 0; simpa using this]

theorem rne_small {x : ℚ} (h0 : 0 ≤ x) (h1 : x < 1/2) : rne x = 0 := by
  obtain ⟨⟨a, b⟩, _⟩ := rne_spec x
  have hl : (-1 : ℚ) < rne x := by linarith
  have hu : (rne x : ℚ) < 1 := by linarith
  have hl' : (-1 : ℤ) < rne x := by exact_mod_cast hl
  have hu' : rne x < (1 : ℤ) := by exact_mod_cast hu
  omega

/-- rounded values are representable (on their own grid) -/
theorem rv_onGrid (F : Fmt2) (hp : 1 ≤ F.prec) {q : ℚ} (hq : 0 < q) : onGrid F (rv F q) := by
  by_cases hy0 : rv F q = 0
  · exact ⟨0, by rw [hy0]; simp⟩
  have hy : 0 < rv F q := lt_of_le_of_ne (rv_nonneg F (le_of_lt hq)) (Ne.symm hy0)
  set l := ilog2 q with hl
  set e := gridExp F q with he
  have hbq := ilog2_spec q hq
  have hby := ilog2_spec (rv F q) hy
  set e' := gridExp F (rv F q) with he'
  by_cases hee : e' ≤ e
  · -- finer or equal grid: scale the integer mantissa
    obtain ⟨m, hm⟩ := pow2_int_of_nonneg (show 0 ≤ e - e' by omega)
    refine ⟨rne (q / pow2 e) * m, ?_⟩
    have : pow2 e = pow2 (e - e') * pow2 e' := by rw [← pow2_add]; congr 1; ring
    show (rne (q / pow2 e) : ℚ) * pow2 e = _
    rw [this, hm]; push_cast; ring
  · -- coarser grid: only possible when rounding carried into the next binade
    have hlt : e < e' := by omega
    have he_le : e ≤ l + 1 := by
      apply Classical.byContradiction; intro hc
      have hgt : l + 1 < e := by omega
      -- then q / 2^e < 1/2 and the rounded value is 0
      have h1 : q < pow2 (e - 1) := lt_of_lt_of_le hbq.2 (pow2_mono (by omega))
      have h2 : q / pow2 e < 1/2 := by
        rw [div_lt_iff₀ (pow2_pos e)]
        have : pow2 e = 2 * pow2 (e - 1) := by rw [← pow2_succ]; congr 1; ring
        rw [this]; linarith
      have := rne_small (div_nonneg (le_of_lt hq) (le_of_lt (pow2_pos e))) h2
      apply hy0; show (rne (q / pow2 e) : ℚ) * pow2 e = 0; rw [this]; simp
    have hyle : rv F q ≤ pow2 (l + 1) := rv_le_pow2 F he_le (le_of_lt hbq.2)
    have hl' : l < ilog2 (rv F q) := by
      have h1 : e' = max F.emin (ilog2 (rv F q) - (F.prec:Int) + 1) := rfl
      have h2 : e = max F.emin (l - (F.prec:Int) + 1) := rfl
      omega
    have hyge : pow2 (l + 1) ≤ rv F q := le_trans (pow2_mono (by omega)) hby.1
    have hyeq : rv F q = pow2 (l + 1) := le_antisymm hyle hyge
    have hlog : ilog2 (rv F q) = l + 1 := by
      apply binade_unique hby
      rw [hyeq]; exact ⟨le_refl _, pow2_lt (by omega)⟩
    have he'le : e' ≤ l + 1 := by
      have h1 : e' = max F.emin (ilog2 (rv F q) - (F.prec:Int) + 1) := rfl
      have h2 : e = max F.emin (l - (F.prec:Int) + 1) := rfl
      rw [hlog] at h1; omega
    obtain ⟨m, hm⟩ := pow2_int_of_nonneg (show 0 ≤ l + 1 - e' by omega)
    refine ⟨m, ?_⟩
    show rv F q = (m : ℚ) * pow2 e'
    calc rv F q = pow2 (l + 1) := hyeq
      _ = pow2 ((l + 1 - e') + e') := by congr 1; ring
      _ = pow2 (l + 1 - e') * pow2 e' := pow2_add _ _
      _ = (m : ℚ) * pow2 e' := by rw [hm]

theorem rv_idem (F : Fmt2) (hp : 1 ≤ F.prec) {q : ℚ} (hq : 0 < q) : rv F (rv F q) = rv F q :=
  rv_id F (rv_onGrid F hp hq)

/-- model of `(a as fN) / 2^k` for a positive integer a: two roundings -/
def i2fPos (F : Fmt2) (a : ℚ) (k : Int) : ℚ := rv F (rv F a / pow2 k)

/-- ... equals the correctly rounded quotient when nothing is near the subnormal range -/
theorem i2fPos_correct (F : Fmt2) (hp : 1 ≤ F.prec) {a : ℚ} (ha : 1 ≤ a) (k : Int) (hk : 0 ≤ k)
    (hnorm : F.emin + k + (F.prec : Int) ≤ 0) :
    i2fPos F a k = rv F (a / pow2 k) := by
  have ha0 : 0 < a := by linarith
  have hla : 0 ≤ ilog2 a := by
    have := ilog2_spec a ha0
    apply Classical.byContradiction; intro hc
    have : pow2 (ilog2 a + 1) ≤ pow2 0 := pow2_mono (by omega)
    have h1 : pow2 0 = 1 := by simp [pow2_eq]
    linarith [(ilog2_spec a ha0).2]
  have hdiv : ∀ x : ℚ, x / pow2 k = x * pow2 (-k) := by
    intro x; rw [div_eq_mul_inv]; congr 1
    rw [pow2_eq, pow2_eq, zpow_neg]
  have hy0 : 0 < rv F a := lt_of_lt_of_le (pow2_pos _) (pow2_le_rv F (by unfold gridExp; omega) (ilog2_spec a ha0).1)
  have hly : ilog2 a ≤ ilog2 (rv F a) := by
    have h1 := pow2_le_rv F (k := ilog2 a) (by unfold gridExp; omega) (ilog2_spec a ha0).1
    exact binade_mono ⟨le_refl _, pow2_lt (by omega)⟩ (ilog2_spec _ hy0) h1
  unfold i2fPos
  rw [hdiv, hdiv]
  rw [rv_scale F hy0 (-k) (by omega) (by omega), rv_idem F hp ha0]
  rw [rv_scale F ha0 (-k) (by omega) (by omega)]

#print axioms i2fPos_correct

/-- scaling a representable value up by a power of two keeps it representable (subnormals included),
    so `s * 2^k.0` in the float→int conversions is exact -/
theorem onGrid_scale_up (F : Fmt2) {x : ℚ} (hx : 0 < x) (h : onGrid F x) (k : Int) (hk : 0 ≤ k) :
    onGrid F (x * pow2 k) := by
  obtain ⟨m, hm⟩ := h
  have hxk : 0 < x * pow2 k := mul_pos hx (pow2_pos k)
  have hlog : ilog2 (x * pow2 k) = ilog2 x + k := by
    apply binade_unique (ilog2_spec _ hxk)
    obtain ⟨a, b⟩ := ilog2_spec x hx
    constructor
    · rw [pow2_add]; exact mul_le_mul_of_nonneg_right a (le_of_lt (pow2_pos k))
    · have : ilog2 x + k + 1 = (ilog2 x + 1) + k := by ring
      rw [this, pow2_add]; exact mul_lt_mul_of_pos_right b (pow2_pos k)
  have hle : gridExp F (x * pow2 k) ≤ gridExp F x + k := by unfold gridExp; rw [hlog]; omega
  obtain ⟨c, hc⟩ := pow2_int_of_nonneg (show 0 ≤ gridExp F x + k - gridExp F (x * pow2 k) by omega)
  refine ⟨m * c, ?_⟩
  calc x * pow2 k = (m : ℚ) * pow2 (gridExp F x) * pow2 k := by rw [← hm]
    _ = (m : ℚ) * pow2 (gridExp F x + k) := by rw [pow2_add]; ring
    _ = (m : ℚ) * pow2 ((gridExp F x + k - gridExp F (x * pow2 k)) + gridExp F (x * pow2 k)) := by congr 2; ring
    _ = (m : ℚ) * (pow2 (gridExp F x + k - gridExp F (x * pow2 k)) * pow2 (gridExp F (x * pow2 k))) := by rw [pow2_add]
    _ = ((m * c : ℤ) : ℚ) * pow2 (gridExp F (x * pow2 k)) := by rw [hc]; push_cast; ring

theorem mul_pow2_exact (F : Fmt2) {x : ℚ} (hx : 0 < x) (h : onGrid F x) (k : Int) (hk : 0 ≤ k) :
    rv F (x * pow2 k) = x * pow2 k := rv_id F (onGrid_scale_up F hx h k hk)

#print axioms mul_pow2_exact
end Dasp
