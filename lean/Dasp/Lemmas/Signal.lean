import Dasp.Model.Signal
/-!
# Lemmas about the signal model: state-level denotation and the step lemmas

`St.den` / `St.len` give the *future* of an arbitrary run-time state (what the next calls will
yield, how many meaningful frames are left); every step lemma is a structural induction over the
state, so the results hold for adaptor trees of any depth.  `Props/C04.lean` and `Props/C05.lean`
specialise them to the initial state of a signal expression.
-/
namespace Dasp.Signal
variable {α : Type}

/-! ### specification-level functions on states -/

/-- the `i`-th frame a state will yield -/
def St.den (o : Ops α) : St α → Nat → List α
  | .fromIter slot rest _ _, i =>
    match slot with
    | none => o.eq
    | some f => (f :: rest).getD i o.eq
  | .fromSamples n slot rest _ _, i =>
    match slot with
    | none => o.eq
    | some f => (f :: chunks n rest).getD i o.eq
  | .equilibrium _, _ => o.eq
  | .gen f p, i => f (p + i)
  | .un u s, i => u.apply o (s.den o i)
  | .bin b a c, i => b.apply o (a.den o i) (c.den o i)
  | .inspect _ s, i => s.den o i
  | .delay k s, i => if i < k then o.eq else s.den o (i - k)
  | .byRef s, i => s.den o i

/-- meaningful frames left (`none` = infinite) -/
def St.len : St α → Option Nat
  | .fromIter slot rest _ _ =>
    match slot with
    | none => some 0
    | some _ => some (rest.length + 1)
  | .fromSamples n slot rest _ _ =>
    match slot with
    | none => some 0
    | some _ => some (rest.length / n + 1)
  | .equilibrium _ => none
  | .gen _ _ => none
  | .un _ s => s.len
  | .bin _ a c => minLen a.len c.len
  | .inspect _ s => s.len
  | .delay k s => s.len.map (· + k)
  | .byRef s => s.len

/-- expected pull counters after `j` more calls of `next` on the root: each own source once per
    call, except that a `delay k` passes on only the calls after its first `k` -/
def St.pullsAfter : St α → Nat → List Nat
  | .fromIter _ _ _ p, j => [p + j]
  | .fromSamples _ _ _ _ p, j => [p + j]
  | .equilibrium p, j => [p + j]
  | .gen _ p, j => [p + j]
  | .un _ s, j => s.pullsAfter j
  | .bin _ a c, j => a.pullsAfter j ++ c.pullsAfter j
  | .inspect _ s, j => s.pullsAfter j
  | .delay k s, j => s.pullsAfter (j - k)
  | .byRef _, _ => []

/-- expected state of every borrowed signal after `j` calls on the root: advanced by exactly the
    calls that reached it -/
def St.borrowsAfter (o : Ops α) : St α → Nat → List (St α)
  | .fromIter .., _ => []
  | .fromSamples .., _ => []
  | .equilibrium _, _ => []
  | .gen _ _, _ => []
  | .un _ s, j => s.borrowsAfter o j
  | .bin _ a c, j => a.borrowsAfter o j ++ c.borrowsAfter o j
  | .inspect _ s, j => s.borrowsAfter o j
  | .delay k s, j => s.borrowsAfter o (j - k)
  | .byRef s, j => [(run o j s).2]

/-- expected inspect logs after `j` calls on the root: each closure has seen exactly the frames its
    source yielded -/
def St.logsAfter (o : Ops α) : St α → Nat → List (List (List α))
  | .fromIter .., _ => []
  | .fromSamples .., _ => []
  | .equilibrium _, _ => []
  | .gen _ _, _ => []
  | .un _ s, j => s.logsAfter o j
  | .bin _ a c, j => a.logsAfter o j ++ c.logsAfter o j
  | .inspect log s, j => (log ++ (List.range j).map (s.den o)) :: s.logsAfter o j
  | .delay k s, j => s.logsAfter o (j - k)
  | .byRef _, _ => []

/-- `Iterator::next` calls each iterator-backed source will have made by the time it is exhausted -/
def St.callCap : St α → List Nat
  | .fromIter slot rest c _ => [c + (match slot with | none => 0 | some _ => rest.length + 1)]
  | .fromSamples _ slot rest c _ => [c + (match slot with | none => 0 | some _ => rest.length + 1)]
  | .equilibrium _ => []
  | .gen _ _ => []
  | .un _ s => s.callCap
  | .bin _ a c => a.callCap ++ c.callCap
  | .inspect _ s => s.callCap
  | .delay _ s => s.callCap
  | .byRef _ => []

/-! ### `chunks` / `takeFrame` -/

theorem chunksAux_fuel (n : Nat) : ∀ (f1 f2 : Nat) (ss : List α), ss.length ≤ f1 → ss.length ≤ f2 →
    chunksAux n f1 ss = chunksAux n f2 ss := by
  intro f1
  induction f1 with
  | zero =>
    intro f2 ss h1 _
    cases f2 with
    | zero => rfl
    | succ f2 => simp only [chunksAux]; rw [if_neg (by omega)]
  | succ f1 ih =>
    intro f2 ss h1 h2
    cases f2 with
    | zero => simp only [chunksAux]; rw [if_neg (by omega)]
    | succ f2 =>
      simp only [chunksAux]
      by_cases h : 0 < n ∧ n ≤ ss.length
      · rw [if_pos h, if_pos h, ih f2 (ss.drop n) (by rw [List.length_drop]; omega) (by rw [List.length_drop]; omega)]
      · rw [if_neg h, if_neg h]

theorem chunks_eq (n : Nat) (ss : List α) :
    chunks n ss = if 0 < n ∧ n ≤ ss.length then ss.take n :: chunks n (ss.drop n) else [] := by
  unfold chunks
  cases hl : ss.length with
  | zero => simp only [chunksAux]; rw [if_neg (by omega)]
  | succ l =>
    simp only [chunksAux, hl]
    by_cases h : 0 < n ∧ n ≤ l + 1
    · rw [if_pos h, if_pos h, chunksAux_fuel n l (ss.drop n).length (ss.drop n) (by rw [List.length_drop]; omega) (Nat.le_refl _)]
    · rw [if_neg h, if_neg h]

/-- induction along the recursion of `chunks` -/
theorem chunks_induct {P : List α → Prop} (n : Nat)
    (step : ∀ ss, (0 < n ∧ n ≤ ss.length) → P (ss.drop n) → P ss)
    (stop : ∀ ss, ¬ (0 < n ∧ n ≤ ss.length) → P ss) : ∀ ss, P ss := by
  intro ss
  induction hl : ss.length using Nat.strongRecOn generalizing ss with
  | _ l ih =>
    by_cases h : 0 < n ∧ n ≤ ss.length
    · exact step ss h (ih (ss.drop n).length (by rw [List.length_drop]; omega) _ rfl)
    · exact stop ss h

theorem chunks_length (n : Nat) (ss : List α) : (chunks n ss).length = ss.length / n := by
  induction ss using chunks_induct n with
  | step ss h ih =>
    rw [chunks_eq, if_pos h, List.length_cons, ih, List.length_drop, Nat.div_eq ss.length n, if_pos h]
  | stop ss h =>
    rw [chunks_eq, if_neg h, Nat.div_eq ss.length n, if_neg h]; rfl

/-- every frame cut from the sample stream is complete -/
theorem chunks_mem_length (n : Nat) (ss : List α) : ∀ f ∈ chunks n ss, f.length = n := by
  induction ss using chunks_induct n with
  | step ss h ih =>
    intro f hf
    rw [chunks_eq, if_pos h] at hf
    rcases List.mem_cons.mp hf with rfl | hf
    · simp [List.length_take]; omega
    · exact ih f hf
  | stop ss h => intro f hf; rw [chunks_eq, if_neg h] at hf; cases hf

/-- the frames are the samples in order; only a trailing incomplete frame is dropped -/
theorem chunks_flatten (n : Nat) (ss : List α) :
    (chunks n ss).flatten = ss.take (ss.length / n * n) := by
  induction ss using chunks_induct n with
  | step ss h ih =>
    rw [chunks_eq, if_pos h, List.flatten_cons, ih, List.length_drop, Nat.div_eq ss.length n, if_pos h, Nat.add_mul,
      Nat.one_mul, Nat.add_comm, List.take_add]
  | stop ss h =>
    rw [chunks_eq, if_neg h, Nat.div_eq ss.length n, if_neg h]; simp

theorem takeFrame_fst (n : Nat) (rest : List α) :
    (takeFrame n rest).1 = (chunks n rest).head? := by
  rw [chunks_eq]; unfold takeFrame; split <;> rfl

/-! ### one step -/

theorem next_fst (o : Ops α) (s : St α) : (next o s).1 = s.den o 0 := by
  induction s with
  | fromIter slot rest c p => cases slot <;> simp [next, St.den]
  | fromSamples n slot rest c p => cases slot <;> simp [next, St.den]
  | equilibrium p => simp [next, St.den]
  | gen f p => simp [next, St.den]
  | un u s ih => simp [next, St.den, ih]
  | bin b a c iha ihc => simp [next, St.den, iha, ihc]
  | inspect log s ih => simp [next, St.den, ih]
  | delay k s ih => cases k <;> simp [next, St.den, ih]
  | byRef s ih => simp [next, St.den, ih]

theorem next_den (o : Ops α) (s : St α) (i : Nat) : (next o s).2.den o i = s.den o (i + 1) := by
  induction s generalizing i with
  | fromIter slot rest c p =>
    cases slot with
    | none => simp [next, St.den]
    | some f => cases rest <;> simp [next, St.den]
  | fromSamples n slot rest c p =>
    cases slot with
    | none => simp [next, St.den]
    | some f =>
      simp only [next, St.den, List.getD_cons_succ]
      rw [chunks_eq n rest]
      by_cases h : 0 < n ∧ n ≤ rest.length <;> simp [takeFrame, h]
  | equilibrium p => simp [next, St.den]
  | gen f p => simp only [next, St.den]; congr 1; omega
  | un u s ih => simp [next, St.den, ih]
  | bin b a c iha ihc => simp [next, St.den, iha, ihc]
  | inspect log s ih => simp [next, St.den, ih]
  | delay k s ih =>
    cases k with
    | zero => simp [next, St.den, ih]
    | succ k =>
      simp only [next, St.den]
      by_cases h : i < k
      · simp [h]
      · simp [h]
  | byRef s ih => simp [next, St.den, ih]

theorem minLen_zero (x y : Option Nat) : minLen x y = some 0 ↔ x = some 0 ∨ y = some 0 := by
  cases x <;> cases y <;> simp [minLen] <;> omega

theorem exhausted_iff (s : St α) : isExhausted s = true ↔ s.len = some 0 := by
  induction s with
  | fromIter slot rest c p => cases slot <;> simp [isExhausted, St.len]
  | fromSamples n slot rest c p => cases slot <;> simp [isExhausted, St.len]
  | equilibrium p => simp [isExhausted, St.len]
  | gen f p => simp [isExhausted, St.len]
  | un u s ih => simpa [isExhausted, St.len] using ih
  | bin b a c iha ihc => simp only [isExhausted, St.len, Bool.or_eq_true, iha, ihc, minLen_zero]
  | inspect log s ih => simpa [isExhausted, St.len] using ih
  | delay k s ih =>
    simp only [isExhausted, St.len, Bool.and_eq_true, beq_iff_eq, ih]
    cases s.len <;> simp <;> omega
  | byRef s ih => simpa [isExhausted, St.len] using ih

theorem minLen_pred (x y : Option Nat) :
    minLen (x.map (· - 1)) (y.map (· - 1)) = (minLen x y).map (· - 1) := by
  cases x <;> cases y <;> simp [minLen] <;> omega

theorem next_len (o : Ops α) (s : St α) : (next o s).2.len = s.len.map (· - 1) := by
  induction s with
  | fromIter slot rest c p =>
    cases slot with
    | none => simp [next, St.len]
    | some f => cases rest <;> simp [next, St.len]
  | fromSamples n slot rest c p =>
    cases slot with
    | none => simp [next, St.len]
    | some f =>
      simp only [next, St.len, Option.map_some, Nat.add_sub_cancel]
      rw [Nat.div_eq rest.length n]
      by_cases h : 0 < n ∧ n ≤ rest.length <;> simp [takeFrame, h]
  | equilibrium p => simp [next, St.len]
  | gen f p => simp [next, St.len]
  | un u s ih => simpa [next, St.len] using ih
  | bin b a c iha ihc => simp only [next, St.len, iha, ihc, minLen_pred]
  | inspect log s ih => simpa [next, St.len] using ih
  | delay k s ih =>
    cases k with
    | zero => simp only [next, St.len, ih]; cases s.len <;> simp
    | succ k => simp only [next, St.len]; cases s.len <;> simp
  | byRef s ih => simpa [next, St.len] using ih

theorem pullsAfter_zero (s : St α) : s.pullsAfter 0 = s.pulls := by
  induction s with
  | un u s ih => simpa [St.pullsAfter, St.pulls] using ih
  | bin b a c iha ihc => simp [St.pullsAfter, St.pulls, iha, ihc]
  | inspect log s ih => simpa [St.pullsAfter, St.pulls] using ih
  | delay k s ih => simpa [St.pullsAfter, St.pulls] using ih
  | _ => simp [St.pullsAfter, St.pulls]

theorem next_pullsAfter (o : Ops α) (s : St α) (j : Nat) :
    (next o s).2.pullsAfter j = s.pullsAfter (j + 1) := by
  induction s generalizing j with
  | fromIter slot rest c p => cases slot <;> simp [next, St.pullsAfter] <;> omega
  | fromSamples n slot rest c p => cases slot <;> simp [next, St.pullsAfter] <;> omega
  | equilibrium p => simp [next, St.pullsAfter]; omega
  | gen f p => simp [next, St.pullsAfter]; omega
  | un u s ih => simp [next, St.pullsAfter, ih]
  | bin b a c iha ihc => simp [next, St.pullsAfter, iha, ihc]
  | inspect log s ih => simp [next, St.pullsAfter, ih]
  | delay k s ih =>
    cases k with
    | zero => simp [next, St.pullsAfter, ih]
    | succ k => simp [next, St.pullsAfter]
  | byRef s ih => simp [next, St.pullsAfter]

theorem next_callCap (o : Ops α) (s : St α) : (next o s).2.callCap = s.callCap := by
  induction s with
  | fromIter slot rest c p =>
    cases slot with
    | none => simp [next, St.callCap]
    | some f => cases rest <;> simp [next, St.callCap] <;> omega
  | fromSamples n slot rest c p =>
    cases slot with
    | none => simp [next, St.callCap]
    | some f =>
      simp only [next, St.callCap]
      by_cases h : 0 < n ∧ n ≤ rest.length <;> simp [takeFrame, h] <;> omega
  | equilibrium p => simp [next, St.callCap]
  | gen f p => simp [next, St.callCap]
  | un u s ih => simpa [next, St.callCap] using ih
  | bin b a c iha ihc => simp [next, St.callCap, iha, ihc]
  | inspect log s ih => simpa [next, St.callCap] using ih
  | delay k s ih => cases k <;> simp [next, St.callCap, ih]
  | byRef s ih => simp [next, St.callCap]

/-! ### `j` steps -/

theorem run_succ (o : Ops α) (j : Nat) (s : St α) :
    run o (j + 1) s = ((next o s).1 :: (run o j (next o s).2).1, (run o j (next o s).2).2) := rfl

theorem run_outputs (o : Ops α) (j : Nat) (s : St α) : (run o j s).1 = (List.range j).map (s.den o) := by
  induction j generalizing s with
  | zero => simp [run]
  | succ j ih =>
    rw [run_succ, ih, next_fst, List.range_succ_eq_map]
    simp [next_den, Function.comp_def]

theorem run_den (o : Ops α) (j : Nat) (s : St α) (i : Nat) : (run o j s).2.den o i = s.den o (j + i) := by
  induction j generalizing s with
  | zero => simp [run]
  | succ j ih => rw [run_succ, ih, next_den]; congr 1; omega

theorem run_len (o : Ops α) (j : Nat) (s : St α) : (run o j s).2.len = s.len.map (· - j) := by
  induction j generalizing s with
  | zero => simp [run]
  | succ j ih => rw [run_succ, ih, next_len]; cases s.len <;> simp; omega

theorem run_exhausted (o : Ops α) (j : Nat) (s : St α) :
    isExhausted (run o j s).2 = true ↔ ∃ l, s.len = some l ∧ l ≤ j := by
  rw [exhausted_iff, run_len]; cases s.len <;> simp; omega

theorem run_pulls (o : Ops α) (j : Nat) (s : St α) : (run o j s).2.pulls = s.pullsAfter j := by
  induction j generalizing s with
  | zero => simp [run, pullsAfter_zero]
  | succ j ih => rw [run_succ, ih, next_pullsAfter]

theorem run_callCap (o : Ops α) (j : Nat) (s : St α) : (run o j s).2.callCap = s.callCap := by
  induction j generalizing s with
  | zero => simp [run]
  | succ j ih => rw [run_succ, ih, next_callCap]

theorem run_add (o : Ops α) (i j : Nat) (s : St α) :
    (run o (i + j) s).2 = (run o j (run o i s).2).2 := by
  induction i generalizing s with
  | zero => simp [run]
  | succ i ih => rw [Nat.add_right_comm, run_succ, run_succ]; exact ih _

theorem run_succ_snd (o : Ops α) (j : Nat) (s : St α) : (run o (j + 1) s).2 = (next o (run o j s).2).2 := by
  rw [run_add o j 1 s]; rfl

theorem borrowsAfter_zero (o : Ops α) (s : St α) : s.borrowsAfter o 0 = s.borrows := by
  induction s with
  | un u s ih => simpa [St.borrowsAfter, St.borrows] using ih
  | bin b a c iha ihc => simp [St.borrowsAfter, St.borrows, iha, ihc]
  | inspect log s ih => simpa [St.borrowsAfter, St.borrows] using ih
  | delay k s ih => simpa [St.borrowsAfter, St.borrows] using ih
  | byRef s => simp [St.borrowsAfter, St.borrows, run]
  | _ => simp [St.borrowsAfter, St.borrows]

theorem borrowsAfter_nil (o : Ops α) (s : St α) (h : s.borrows = []) (j : Nat) : s.borrowsAfter o j = [] := by
  induction s generalizing j with
  | bin b a c iha ihc =>
    simp only [St.borrows, List.append_eq_nil_iff] at h
    simp [St.borrowsAfter, iha h.1, ihc h.2]
  | byRef s => simp [St.borrows] at h
  | un u s ih => exact ih h j
  | inspect log s ih => exact ih h j
  | delay k s ih => exact ih h (j - k)
  | _ => rfl

theorem next_borrowsAfter (o : Ops α) (s : St α) (j : Nat) :
    (next o s).2.borrowsAfter o j = s.borrowsAfter o (j + 1) := by
  induction s generalizing j with
  | fromIter slot rest c p => cases slot <;> simp [next, St.borrowsAfter]
  | fromSamples n slot rest c p => cases slot <;> simp [next, St.borrowsAfter]
  | equilibrium p => simp [next, St.borrowsAfter]
  | gen f p => simp [next, St.borrowsAfter]
  | un u s ih => simp [next, St.borrowsAfter, ih]
  | bin b a c iha ihc => simp [next, St.borrowsAfter, iha, ihc]
  | inspect log s ih => simp [next, St.borrowsAfter, ih]
  | delay k s ih =>
    cases k with
    | zero => simp [next, St.borrowsAfter, ih]
    | succ k => simp [next, St.borrowsAfter]
  | byRef s ih => simp [next, St.borrowsAfter, run_succ]

theorem run_borrows (o : Ops α) (j : Nat) (s : St α) : (run o j s).2.borrows = s.borrowsAfter o j := by
  induction j generalizing s with
  | zero => simp [run, borrowsAfter_zero]
  | succ j ih => rw [run_succ, ih, next_borrowsAfter]

theorem logsAfter_zero (o : Ops α) (s : St α) : s.logsAfter o 0 = s.logs := by
  induction s with
  | un u s ih => simpa [St.logsAfter, St.logs] using ih
  | bin b a c iha ihc => simp [St.logsAfter, St.logs, iha, ihc]
  | inspect log s ih => simp [St.logsAfter, St.logs, ih]
  | delay k s ih => simpa [St.logsAfter, St.logs] using ih
  | _ => simp [St.logsAfter, St.logs]

theorem next_logsAfter (o : Ops α) (s : St α) (j : Nat) :
    (next o s).2.logsAfter o j = s.logsAfter o (j + 1) := by
  induction s generalizing j with
  | fromIter slot rest c p => cases slot <;> simp [next, St.logsAfter]
  | fromSamples n slot rest c p => cases slot <;> simp [next, St.logsAfter]
  | equilibrium p => simp [next, St.logsAfter]
  | gen f p => simp [next, St.logsAfter]
  | un u s ih => simp [next, St.logsAfter, ih]
  | bin b a c iha ihc => simp [next, St.logsAfter, iha, ihc]
  | inspect log s ih =>
    simp only [next, St.logsAfter, ih, next_fst, List.range_succ_eq_map, List.map_cons, List.map_map]
    simp [next_den, Function.comp_def]
  | delay k s ih =>
    cases k with
    | zero => simp [next, St.logsAfter, ih]
    | succ k => simp [next, St.logsAfter]
  | byRef s ih => simp [next, St.logsAfter]

theorem run_logs (o : Ops α) (j : Nat) (s : St α) : (run o j s).2.logs = s.logsAfter o j := by
  induction j generalizing s with
  | zero => simp [run, logsAfter_zero]
  | succ j ih => rw [run_succ, ih, next_logsAfter]

/-! ### signal expressions: the initial state has the expression's denotation -/

/-- expected pull counters of the expression's own sources after `j` calls on the root -/
def Sig.pullsAfter : Sig α → Nat → List Nat
  | .fromIter _, j => [j]
  | .fromSamples _ _, j => [j]
  | .equilibrium, j => [j]
  | .gen _, j => [j]
  | .map _ s, j => s.pullsAfter j
  | .zipMap _ a b, j => a.pullsAfter j ++ b.pullsAfter j
  | .addAmp a b, j => a.pullsAfter j ++ b.pullsAfter j
  | .mulAmp a b, j => a.pullsAfter j ++ b.pullsAfter j
  | .scaleAmp _ s, j => s.pullsAfter j
  | .offsetAmp _ s, j => s.pullsAfter j
  | .scaleAmpPerChannel _ s, j => s.pullsAfter j
  | .offsetAmpPerChannel _ s, j => s.pullsAfter j
  | .clipAmp _ s, j => s.pullsAfter j
  | .inspect s, j => s.pullsAfter j
  | .delay k s, j => s.pullsAfter (j - k)
  | .byRef _, _ => []

theorem ofSamples_den (o : Ops α) (n : Nat) (ss : List α) (i : Nat) :
    (St.ofSamples n ss).den o i = (chunks n ss).getD i o.eq := by
  rw [chunks_eq n ss]
  by_cases h : 0 < n ∧ n ≤ ss.length <;> simp [St.ofSamples, St.den, takeFrame, h]

theorem ofSamples_len (n : Nat) (ss : List α) : (St.ofSamples n ss).len = some (ss.length / n) := by
  rw [Nat.div_eq ss.length n]
  by_cases h : 0 < n ∧ n ≤ ss.length <;> simp [St.ofSamples, St.len, takeFrame, h]

theorem ofIter_den (o : Ops α) (fs : List (List α)) (i : Nat) : (St.ofIter fs).den o i = fs.getD i o.eq := by
  cases fs <;> simp [St.ofIter, St.den]

theorem ofIter_len (fs : List (List α)) : (St.ofIter fs : St α).len = some fs.length := by
  cases fs <;> simp [St.ofIter, St.len]

theorem init_den (o : Ops α) (s : Sig α) (i : Nat) : s.init.den o i = s.den o i := by
  induction s generalizing i with
  | fromIter fs => exact ofIter_den o fs i
  | fromSamples n ss => exact ofSamples_den o n ss i
  | equilibrium => rfl
  | gen f => simp [Sig.init, St.den, Sig.den]
  | delay k s ih => simp [Sig.init, St.den, Sig.den, ih]
  | zipMap m a b iha ihb => simp [Sig.init, St.den, Sig.den, Bin.apply, iha, ihb]
  | addAmp a b iha ihb => simp [Sig.init, St.den, Sig.den, Bin.apply, iha, ihb]
  | mulAmp a b iha ihb => simp [Sig.init, St.den, Sig.den, Bin.apply, iha, ihb]
  | _ => simp_all [Sig.init, St.den, Sig.den, Un.apply]

theorem init_len (s : Sig α) : s.init.len = s.len := by
  induction s with
  | fromIter fs => exact ofIter_len fs
  | fromSamples n ss => exact ofSamples_len n ss
  | _ => simp_all [Sig.init, St.len, Sig.len]

theorem init_pullsAfter (s : Sig α) (j : Nat) : s.init.pullsAfter j = s.pullsAfter j := by
  induction s generalizing j with
  | fromIter fs => simp [Sig.init, St.ofIter, St.pullsAfter, Sig.pullsAfter]
  | fromSamples n ss => simp [Sig.init, St.ofSamples, St.pullsAfter, Sig.pullsAfter]
  | _ => simp_all [Sig.init, St.pullsAfter, Sig.pullsAfter]

theorem ofIter_callCap (fs : List (List α)) : (St.ofIter fs : St α).callCap = [fs.length + 1] := by
  cases fs <;> simp [St.ofIter, St.callCap]; omega

theorem ofSamples_callCap (n : Nat) (ss : List α) : (St.ofSamples n ss).callCap = [ss.length + 1] := by
  by_cases h : 0 < n ∧ n ≤ ss.length <;> simp [St.ofSamples, St.callCap, takeFrame, h]; omega

/-- (calls made, cap) per iterator-backed source -/
def St.callInfo : St α → List (Nat × Nat)
  | .fromIter slot rest c _ => [(c, c + (match slot with | none => 0 | some _ => rest.length + 1))]
  | .fromSamples _ slot rest c _ => [(c, c + (match slot with | none => 0 | some _ => rest.length + 1))]
  | .equilibrium _ => []
  | .gen _ _ => []
  | .un _ s => s.callInfo
  | .bin _ a c => a.callInfo ++ c.callInfo
  | .inspect _ s => s.callInfo
  | .delay _ s => s.callInfo
  | .byRef _ => []

theorem callInfo_fst (s : St α) : s.callInfo.map Prod.fst = s.calls := by
  induction s with
  | bin b a c iha ihc => simp [St.callInfo, St.calls, iha, ihc]
  | _ => simp_all [St.callInfo, St.calls]

theorem callInfo_snd (s : St α) : s.callInfo.map Prod.snd = s.callCap := by
  induction s with
  | bin b a c iha ihc => simp [St.callInfo, St.callCap, iha, ihc]
  | _ => simp_all [St.callInfo, St.callCap]

/-- no iterator-backed source has made more `Iterator::next` calls than its cap -/
theorem callInfo_le (s : St α) : ∀ x ∈ s.callInfo, x.1 ≤ x.2 := by
  induction s with
  | bin b a c iha ihc =>
    intro x hx
    rcases List.mem_append.mp hx with h | h
    · exact iha x h
    · exact ihc x h
  | fromIter slot rest c p => intro x hx; simp [St.callInfo] at hx; subst hx; simp
  | fromSamples n slot rest c p => intro x hx; simp [St.callInfo] at hx; subst hx; simp
  | un u s ih => exact ih
  | inspect log s ih => exact ih
  | delay k s ih => exact ih
  | _ => intro x hx; simp [St.callInfo] at hx

/-- a single iterator-backed source never calls its iterator more often than the cap -/
theorem single_calls_le (s : St α) (c cap : Nat) (h1 : s.calls = [c]) (h2 : s.callCap = [cap]) : c ≤ cap := by
  rw [← callInfo_fst] at h1; rw [← callInfo_snd] at h2
  match h : s.callInfo, h1, h2 with
  | [x], h1, h2 =>
    simp at h1 h2
    have := callInfo_le s x (by rw [h]; simp)
    omega

/-! ### consumers -/

theorem runOpt_succ {σ β : Type} (step : σ → Option β × σ) (j : Nat) (s : σ) :
    runOpt step (j + 1) s = ((step s).1 :: (runOpt step j (step s).2).1, (runOpt step j (step s).2).2) := rfl

/-- is index `i` still inside a signal of length `len`? -/
def live : Option Nat → Nat → Bool
  | none, _ => true
  | some l, i => decide (i < l)

theorem take_run (o : Ops α) (m n : Nat) (s : St α) :
    (runOpt (TakeSt.next o) m ⟨n, s⟩).1 = (List.range m).map (fun i => if i < n then some (s.den o i) else none)
    ∧ (runOpt (TakeSt.next o) m ⟨n, s⟩).2 = ⟨n - m, (run o (min n m) s).2⟩ := by
  induction m generalizing n s with
  | zero => simp [runOpt, run]
  | succ m ih =>
    cases n with
    | zero =>
      have h := ih 0 s
      rw [runOpt_succ]
      simp only [TakeSt.next]
      refine ⟨?_, ?_⟩
      · rw [h.1, List.range_succ_eq_map]; simp
      · rw [h.2]; simp [run]
    | succ n =>
      have h := ih n (next o s).2
      rw [runOpt_succ]
      simp only [TakeSt.next]
      refine ⟨?_, ?_⟩
      · rw [h.1, List.range_succ_eq_map]
        simp [next_fst, next_den, Function.comp_def]
      · rw [h.2, Nat.succ_min_succ, run_succ]; simp

theorem until_run (o : Ops α) (m : Nat) (s : St α) :
    (runOpt (untilNext o) m s).1 = (List.range m).map (fun i => if live s.len i then some (s.den o i) else none)
    ∧ (runOpt (untilNext o) m s).2 = (run o (match s.len with | none => m | some l => min l m) s).2 := by
  induction m generalizing s with
  | zero => cases s.len <;> simp [runOpt, run]
  | succ m ih =>
    rw [runOpt_succ]
    by_cases hx : isExhausted s = true
    · have hl := (exhausted_iff s).mp hx
      have h := ih s
      simp only [untilNext, hx, if_true]
      refine ⟨?_, ?_⟩
      · rw [h.1, List.range_succ_eq_map]; simp [hl, live]
      · rw [h.2]; simp [hl, run]
    · have hl : s.len ≠ some 0 := fun h => hx ((exhausted_iff s).mpr h)
      have h := ih (next o s).2
      have hx' : isExhausted s = false := by simpa using hx
      simp only [untilNext, hx', Bool.false_eq_true, if_false]
      refine ⟨?_, ?_⟩
      · rw [h.1, List.range_succ_eq_map, next_len]
        simp only [List.map_cons, List.map_map, next_fst, Function.comp_def, next_den]
        congr 1
        · cases hs : s.len with
          | none => simp [live]
          | some l => simp [live]; intro h0; exact absurd (h0 ▸ hs) hl
        · apply List.map_congr_left; intro i _
          cases hs : s.len with
          | none => simp [live]
          | some l =>
            have : l ≠ 0 := fun h0 => hl (h0 ▸ hs)
            by_cases h1 : i + 1 < l
            · have h2 : i < l - 1 := by omega
              simp [live, h1, h2]
            · have h2 : ¬ i < l - 1 := by omega
              simp [live, h1, h2]
      · rw [h.2, next_len]
        cases hs : s.len with
        | none => simp [run_succ]
        | some l =>
          have : l ≠ 0 := fun h0 => hl (h0 ▸ hs)
          simp only [Option.map_some]
          have e : min l (m + 1) = min (l - 1) m + 1 := by omega
          rw [e, run_succ]

/-- what an `IntoInterleavedSamples` still has to yield: the rest of the current frame, then every
    remaining frame of the signal, flattened -/
def ILSt.flat (o : Ops α) (t : ILSt α) (L : Nat) : List α :=
  t.cur.getD [] ++ ((List.range L).map (t.sig.den o)).flatten

theorem il_fresh (o : Ops α) (c : Option (List α)) (hc : c = none ∨ c = some []) (s : St α) (L : Nat)
    (hlen : s.len = some L) (hne : ∀ i, i < L → s.den o i ≠ []) :
    ∃ L', ((ILSt.nextSample o ⟨c, s⟩).2.sig.len = some L') ∧
      (∀ i, i < L' → (ILSt.nextSample o ⟨c, s⟩).2.sig.den o i ≠ []) ∧
      (ILSt.nextSample o ⟨c, s⟩).1 = (ILSt.flat o ⟨c, s⟩ L).head? ∧
      (ILSt.nextSample o ⟨c, s⟩).2.flat o L' = (ILSt.flat o ⟨c, s⟩ L).tail := by
  cases L with
  | zero =>
    have hx : isExhausted s = true := (exhausted_iff s).mpr hlen
    rcases hc with rfl | rfl <;>
      (refine ⟨0, ?_, ?_, ?_, ?_⟩ <;> simp [ILSt.nextSample, ILSt.refill, hx, hlen, ILSt.flat])
  | succ L =>
    have hx : isExhausted s = false := by
      cases h : isExhausted s with
      | false => rfl
      | true => have := (exhausted_iff s).mp h; rw [hlen] at this; simp at this
    have h0 := hne 0 (Nat.succ_pos L)
    have hl' : (next o s).2.len = some L := by rw [next_len, hlen]; simp
    have e : St.den o (next o s).2 = fun i => s.den o (i + 1) := funext (next_den o s)
    rcases hc with rfl | rfl <;> refine ⟨L, ?_, ?_, ?_, ?_⟩
    all_goals
      simp only [ILSt.nextSample, ILSt.refill, hx, Option.isNone_none, Option.isNone_some, Bool.not_false, Bool.and_self,
        Bool.false_and, Bool.false_eq_true, if_true, if_false, next_fst]
      cases hd : s.den o 0 with
      | nil => exact absurd hd h0
      | cons x r => ?_
    · simpa using hl'
    · intro i hi; simp only [next_den]; exact hne (i + 1) (by omega)
    · simp [ILSt.flat, List.range_succ_eq_map, hd]
    · simp [ILSt.flat, List.range_succ_eq_map, hd, e, Function.comp_def]
    · simpa using hl'
    · intro i hi; simp only [next_den]; exact hne (i + 1) (by omega)
    · simp [ILSt.flat, List.range_succ_eq_map, hd]
    · simp [ILSt.flat, List.range_succ_eq_map, hd, e, Function.comp_def]

/-- one `next_sample` call yields the head of what is left and leaves the tail -/
theorem il_step (o : Ops α) (t : ILSt α) (L : Nat) (hlen : t.sig.len = some L)
    (hne : ∀ i, i < L → t.sig.den o i ≠ []) :
    ∃ L', ((t.nextSample o).2.sig.len = some L') ∧
      (∀ i, i < L' → (t.nextSample o).2.sig.den o i ≠ []) ∧
      (t.nextSample o).1 = (t.flat o L).head? ∧
      (t.nextSample o).2.flat o L' = (t.flat o L).tail := by
  obtain ⟨cur, s⟩ := t
  match cur with
  | none => exact il_fresh o none (Or.inl rfl) s L hlen hne
  | some [] => exact il_fresh o (some []) (Or.inr rfl) s L hlen hne
  | some (x :: r) =>
    refine ⟨L, ?_, ?_, ?_, ?_⟩ <;> simp [ILSt.nextSample, ILSt.refill, ILSt.flat]
    · exact hlen
    · exact hne

/-- `m` calls of `next_sample` yield the first `m` entries of the flattened remaining frames, `None`
    beyond them (for good) -/
theorem il_run (o : Ops α) (m : Nat) (t : ILSt α) (L : Nat) (hlen : t.sig.len = some L)
    (hne : ∀ i, i < L → t.sig.den o i ≠ []) :
    (runOpt (ILSt.nextSample o) m t).1 = (List.range m).map fun i => (t.flat o L)[i]? := by
  induction m generalizing t L with
  | zero => simp [runOpt]
  | succ m ih =>
    obtain ⟨L', h1, h2, h3, h4⟩ := il_step o t L hlen hne
    rw [runOpt_succ, ih _ L' h1 h2, h3, h4, List.range_succ_eq_map]
    simp [Function.comp_def, List.head?_eq_getElem?]

/-! ### stacks of one-source adaptors -/

theorem stack_len (us : List (Un α)) (t : St α) : (us.foldr St.un t).len = t.len := by
  induction us with
  | nil => rfl
  | cons u us ih => simpa [St.len] using ih

theorem stack_den (o : Ops α) (us : List (Un α)) (t : St α) (i : Nat) :
    (us.foldr St.un t).den o i = us.foldr (fun u f => u.apply o f) (t.den o i) := by
  induction us with
  | nil => rfl
  | cons u us ih => simp [St.den, ih]

end Dasp.Signal
