import Dasp.Lemmas.Round
/-!
# L5: the relative / absolute error of one rounding (`rv`, the value `Machine/FP.round` returns when
it does not overflow), and the signed rounding function `rs` used by the error analysis of C11.
-/
namespace Dasp

/-- half a unit in the last place of the grid `q` is rounded on -/
theorem rv_abs_err (F : Fmt2) (q : Rat) : |rv F q - q| ≤ pow2 (gridExp F q) / 2 := by
  unfold rv
  set e := gridExp F q
  have he : 0 < pow2 e := pow2_pos e
  obtain ⟨⟨h1, h2⟩, _⟩ := rne_spec (q / pow2 e)
  have hq : q = q / pow2 e * pow2 e := (div_mul_cancel₀ _ (ne_of_gt he)).symm
  rw [abs_le]
  constructor
  · have : (q / pow2 e - 1 / 2) * pow2 e ≤ (rne (q / pow2 e) : ℚ) * pow2 e :=
      mul_le_mul_of_nonneg_right h1 (le_of_lt he)
    nlinarith
  · have : (rne (q / pow2 e) : ℚ) * pow2 e ≤ (q / pow2 e + 1 / 2) * pow2 e :=
      mul_le_mul_of_nonneg_right h2 (le_of_lt he)
    nlinarith

/-- **L5**: for `q > 0`, `|round q − q| ≤ 2^(−prec)·q + 2^(emin−1)` (the first term in the normal
    range, the second in the subnormal range) -/
theorem rv_rel_err (F : Fmt2) {q : Rat} (hq : 0 < q) :
    |rv F q - q| ≤ pow2 (-(F.prec : Int)) * q + pow2 (F.emin - 1) := by
  refine le_trans (rv_abs_err F q) ?_
  have hb := ilog2_spec q hq
  have h0 : 0 < pow2 (-(F.prec : Int)) * q := mul_pos (pow2_pos _) hq
  have h1 : 0 < pow2 (F.emin - 1) := pow2_pos _
  unfold gridExp
  rcases le_total F.emin (ilog2 q - (F.prec : Int) + 1) with h | h
  · rw [max_eq_right h]
    have : pow2 (ilog2 q - (F.prec : Int) + 1) / 2 = pow2 (-(F.prec : Int)) * pow2 (ilog2 q) := by
      rw [show ilog2 q - (F.prec : Int) + 1 = (-(F.prec : Int) + ilog2 q) + 1 by ring, pow2_succ, pow2_add]; ring
    rw [this]
    have : pow2 (-(F.prec : Int)) * pow2 (ilog2 q) ≤ pow2 (-(F.prec : Int)) * q :=
      mul_le_mul_of_nonneg_left hb.1 (le_of_lt (pow2_pos _))
    linarith
  · rw [max_eq_left h]
    have : pow2 F.emin / 2 = pow2 (F.emin - 1) := by
      rw [show F.emin = (F.emin - 1) + 1 by ring, pow2_succ]; ring_nf
    rw [this]; linarith

/-- rounding of a signed rational (sign-symmetric, `0 ↦ 0`): what `Machine/FP.round` yields as a
    value when it does not overflow -/
def rs (F : Fmt2) (x : Rat) : Rat := if x < 0 then -(rv F (-x)) else if x = 0 then 0 else rv F x

theorem rs_err (F : Fmt2) (x : Rat) :
    |rs F x - x| ≤ pow2 (-(F.prec : Int)) * |x| + pow2 (F.emin - 1) := by
  unfold rs
  split_ifs with h1 h2
  · have := rv_rel_err F (q := -x) (by linarith)
    rw [abs_of_neg h1]
    have e : -(rv F (-x)) - x = -(rv F (-x) - -x) := by ring
    rw [e, abs_neg]; exact this
  · subst h2; simp; exact le_of_lt (pow2_pos _)
  · have hx : 0 < x := lt_of_le_of_ne (not_lt.mp h1) (Ne.symm h2)
    rw [abs_of_pos hx]; exact rv_rel_err F hx

theorem rv_nonneg (F : Fmt2) {q : Rat} (hq : 0 ≤ q) : 0 ≤ rv F q := by
  unfold rv
  have he : 0 < pow2 (gridExp F q) := pow2_pos _
  have : (0 : Int) ≤ rne (q / pow2 (gridExp F q)) := by
    have := rne_mono (show (0 : ℚ) ≤ q / pow2 (gridExp F q) from div_nonneg hq (le_of_lt he))
    have h0 : rne (0 : ℚ) = 0 := by simpa using rne_int 0
    rw [h0] at this; exact this
  have : (0 : ℚ) ≤ (rne (q / pow2 (gridExp F q)) : ℚ) := by exact_mod_cast this
  exact mul_nonneg this (le_of_lt he)

theorem rs_nonneg (F : Fmt2) {x : Rat} (hx : 0 ≤ x) : 0 ≤ rs F x := by
  unfold rs
  split_ifs with h1 h2
  · linarith
  · exact le_refl _
  · exact rv_nonneg F hx

/-- the link to the executable soft-float: whenever `Machine/FP.round` returns a finite value, that
    value is `rs` of the exact argument -/
theorem round_toRat_eq_rs (F : Fmt2) (neg : Bool) (x : Rat) (v : Rat)
    (h : (round F neg x).toRat? = some v) : v = rs F x := by
  unfold round at h
  unfold rs
  split_ifs at h ⊢ with h1 h2
  · rw [roundPos_eq F (-x) (by linarith)] at h
    split_ifs at h with h3
    · simp [FP.toRat?] at h
    · simp [FP.toRat?] at h; linarith
  · subst h2; simp [roundPos, FP.toRat?] at h; exact h.symm
  · rw [roundPos_eq F x h2] at h
    split_ifs at h with h3
    · simp [FP.toRat?] at h
    · simp [FP.toRat?] at h; linarith

end Dasp
