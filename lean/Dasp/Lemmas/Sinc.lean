import Dasp.Model.Sinc
import Dasp.Lemmas.Converter
/-!
# Sinc interpolator: index safety, linearity, on-grid transparency (helper lemmas for C18)

All statements are about the definitions of `Dasp/Model/Sinc.lean` at the exact-arithmetic instance
`ratArith sn cs pi` with ARBITRARY `sn cs : ℚ → ℚ` and `pi : ℚ`; what a theorem needs about them is an
explicit hypothesis.
-/
namespace Dasp.Sinc
open Dasp.Conv

/-- the invariant of reachable states: even non-zero ring length, `first` inside the ring (the
    invariant of `Fixed`, lib.rs:331), read index at most `depth` -/
def Inv {F : Type} (s : St F) : Prop :=
  s.ring.len % 2 = 0 ∧ 0 < s.ring.len ∧ s.ring.first < s.ring.len ∧ s.idx ≤ depth s

section generic
variable {F : Type}

@[simp] theorem push_len (r : Ring F) (x : List F) : (r.push x).len = r.len := by
  simp [Ring.push, Ring.len]

theorem inv_new (ring : Ring F) (s : St F) (h : new ring = some s) (hf : ring.first < ring.len) : Inv s := by
  unfold new at h
  split at h
  · cases h
    exact ⟨by assumption, Nat.lt_of_le_of_lt (Nat.zero_le _) hf, hf, Nat.zero_le _⟩
  · cases h

theorem inv_push (s : St F) (f : List F) (h : Inv s) : Inv (nextSourceFrame s f) := by
  obtain ⟨h1, h2, h3, h4⟩ := h
  unfold Inv nextSourceFrame depth at *
  simp only [push_len]
  refine ⟨h1, h2, ?_, ?_⟩
  · simp only [Ring.push]; split <;> omega
  · split <;> omega

theorem inv_reset (eq : List F) (s : St F) (h : Inv s) : Inv (reset eq s) := by
  obtain ⟨h1, h2, _, _⟩ := h
  unfold Inv reset depth Ring.len at *
  simp only [List.length_map]
  exact ⟨h1, h2, Nat.mod_lt _ h2, Nat.zero_le _⟩

/-- every state reachable by pushes, interpolations and resets satisfies the invariant -/
theorem inv_run (eq : List F) (ops : List (Op F)) (s : St F) (h : Inv s) : Inv (ops.foldl (step eq) s) := by
  induction ops generalizing s with
  | nil => exact h
  | cons op ops ih =>
    apply ih
    cases op with
    | push f => exact inv_push s f h
    | interp x => exact h
    | reset => exact inv_reset eq s h

/-- INDEX SAFETY (sinc/mod.rs:76-89, 96, 108). In a state satisfying the invariant:
    the `usize` subtraction `len - depth` does not underflow; the `isize` value cast by `as usize` is
    non-negative; `max_depth = min(idx + 1, depth) ≥ 1`; for every tap `n < max_depth` the `usize`
    subtraction `nl - n` does not underflow (`n ≤ idx`); and every slice index `(first + i) % len` the
    ring computes is in range. -/
theorem index_safe (s : St F) (h : Inv s) :
    (depth s : Int) ≤ s.ring.len ∧
    (0 : Int) ≤ (depth s : Int) + ((s.idx : Int) + 1 - depth s) ∧
    maxDepthI s = min ((s.idx : Int) + 1) (depth s) ∧ 1 ≤ maxDepthI s ∧
    maxDepth s = min (s.idx + 1) (depth s) ∧
    (∀ n, n < maxDepth s → n ≤ s.idx) ∧
    (∀ i, (s.ring.first + i) % s.ring.len < s.ring.len) := by
  obtain ⟨h1, h2, h3, h4⟩ := h
  have hI : maxDepthI s = min ((s.idx : Int) + 1) (depth s) := by
    unfold maxDepthI depth at *
    simp only
    split
    · omega
    · split <;> omega
  have hN : maxDepth s = min (s.idx + 1) (depth s) := by
    unfold maxDepth; rw [hI]; omega
  refine ⟨by unfold depth; omega, by omega, hI, ?_, hN, ?_, fun i => Nat.mod_lt _ h2⟩
  · rw [hI]; unfold depth at *; omega
  · intro n hn; rw [hN] at hn; omega

/-- the observation recorded in DESIGN §7 C18: once primed (`idx = depth`), the last right tap
    `nr + (max_depth - 1)` has index `len` and therefore wraps to index 0 — the OLDEST frame -/
theorem rightmost_tap_wraps (eq : List F) (s : St F) (h : Inv s) (hp : s.idx = depth s) :
    s.idx + 1 + (maxDepth s - 1) = s.ring.len ∧
    s.ring.get eq (s.idx + 1 + (maxDepth s - 1)) = s.ring.get eq 0 := by
  obtain ⟨_, _, _, _, hN, _, _⟩ := index_safe s h
  obtain ⟨h1, h2, _, _⟩ := h
  have hlen : s.idx + 1 + (maxDepth s - 1) = s.ring.len := by
    rw [hN, hp]; unfold depth; omega
  refine ⟨hlen, ?_⟩
  rw [hlen]; unfold Ring.get; simp

end generic

section exact
variable (sn cs : Rat → Rat) (pi : Rat)

local notation "AR" => ratArith sn cs pi

@[simp] theorem rat_ofNat (n : Nat) : (AR).ofNat n = (n : Rat) := rfl
@[simp] theorem rat_half : (AR).half = 1 / 2 := rfl
@[simp] theorem rat_pi : (AR).pi = pi := rfl
@[simp] theorem rat_sin (a : Rat) : (AR).sin a = sn a := rfl
@[simp] theorem rat_cos (a : Rat) : (AR).cos a = cs a := rfl
@[simp] theorem rat_isZero (a : Rat) : (AR).isZero a = decide (a = 0) := rfl

theorem accum_eq (w : Rat) (v r : List Rat) :
    accum AR w v r = List.zipWith (fun vs x => vs + w * x) v r := rfl

/-! ### linearity -/

theorem zipWith_accum_add (w : Rat) (a1 a2 r1 r2 : List Rat) :
    List.zipWith (fun vs x => vs + w * x) (List.zipWith (· + ·) a1 a2) (List.zipWith (· + ·) r1 r2) =
      List.zipWith (· + ·) (List.zipWith (fun vs x => vs + w * x) a1 r1)
        (List.zipWith (fun vs x => vs + w * x) a2 r2) := by
  induction a1 generalizing a2 r1 r2 with
  | nil => simp
  | cons x a1 ih =>
    cases a2 with
    | nil => simp
    | cons y a2 =>
      cases r1 with
      | nil => simp
      | cons p r1 =>
        cases r2 with
        | nil => simp
        | cons q r2 =>
          simp only [List.zipWith_cons_cons, ih]
          congr 1; ring

theorem zipWith_accum_smul (w c : Rat) (a r : List Rat) :
    List.zipWith (fun vs x => vs + w * x) (a.map (c * ·)) (r.map (c * ·)) =
      (List.zipWith (fun vs x => vs + w * x) a r).map (c * ·) := by
  induction a generalizing r with
  | nil => simp
  | cons x a ih =>
    cases r with
    | nil => simp
    | cons p r =>
      simp only [List.map_cons, List.zipWith_cons_cons, ih]
      congr 1; ring

/-- ADDITIVITY for fixed `x`, read index and ring geometry, ANY kernel (`sn`, `cs`, `pi` arbitrary):
    if every buffered frame of `s12` is the channel-wise sum of the corresponding frames of `s1` and
    `s2`, the interpolated frame is the sum of the two interpolated frames -/
theorem interpolate_add (eq : List Rat) (heq : List.zipWith (· + ·) eq eq = eq) (s1 s2 s12 : St Rat) (x : Rat)
    (hi1 : s12.idx = s1.idx) (hi2 : s12.idx = s2.idx) (hl1 : s12.ring.len = s1.ring.len)
    (hl2 : s12.ring.len = s2.ring.len)
    (hget : ∀ i, s12.ring.get eq i = List.zipWith (· + ·) (s1.ring.get eq i) (s2.ring.get eq i)) :
    interpolate AR eq s12 x = List.zipWith (· + ·) (interpolate AR eq s1 x) (interpolate AR eq s2 x) := by
  have hd1 : depth s12 = depth s1 := by unfold depth; rw [hl1]
  have hd2 : depth s12 = depth s2 := by unfold depth; rw [hl2]
  have hm1 : maxDepth s12 = maxDepth s1 := by unfold maxDepth maxDepthI; rw [hd1, hi1, hl1]
  have hm2 : maxDepth s12 = maxDepth s2 := by unfold maxDepth maxDepthI; rw [hd2, hi2, hl2]
  unfold interpolate
  rw [← hm1, ← hm2]
  have key : ∀ (ns : List Nat) (v1 v2 : List Rat),
      ns.foldl (tapStep AR eq s12 x) (List.zipWith (· + ·) v1 v2) =
        List.zipWith (· + ·) (ns.foldl (tapStep AR eq s1 x) v1) (ns.foldl (tapStep AR eq s2 x) v2) := by
    intro ns
    induction ns with
    | nil => intro v1 v2; rfl
    | cons n ns ih =>
      intro v1 v2
      simp only [List.foldl_cons]
      rw [← ih]
      congr 1
      simp only [tapStep, accum_eq, hget, ← hd1, ← hd2, ← hi1, ← hi2, zipWith_accum_add]
  have := key (List.range (maxDepth s12)) eq eq
  rw [heq] at this
  exact this

/-- HOMOGENEITY: scaling every buffered frame by `c` scales the interpolated frame by `c` -/
theorem interpolate_smul (eq : List Rat) (c : Rat) (heq : eq.map (c * ·) = eq) (s sc : St Rat) (x : Rat)
    (hi : sc.idx = s.idx) (hl : sc.ring.len = s.ring.len)
    (hget : ∀ i, sc.ring.get eq i = (s.ring.get eq i).map (c * ·)) :
    interpolate AR eq sc x = (interpolate AR eq s x).map (c * ·) := by
  have hd : depth sc = depth s := by unfold depth; rw [hl]
  have hm : maxDepth sc = maxDepth s := by unfold maxDepth maxDepthI; rw [hd, hi, hl]
  unfold interpolate
  rw [← hm]
  have key : ∀ (ns : List Nat) (v : List Rat),
      ns.foldl (tapStep AR eq sc x) (v.map (c * ·)) = (ns.foldl (tapStep AR eq s x) v).map (c * ·) := by
    intro ns
    induction ns with
    | nil => intro v; rfl
    | cons n ns ih =>
      intro v
      simp only [List.foldl_cons]
      rw [← ih]
      congr 1
      simp only [tapStep, accum_eq, hget, ← hd, ← hi, zipWith_accum_smul]
  have := key (List.range (maxDepth sc)) eq
  rw [heq] at this
  exact this

/-! ### on the sample grid -/

/-- frames of `ch` channels everywhere, equilibrium = `ch` zeros -/
def WF (ch : Nat) (eq : List Rat) (s : St Rat) : Prop :=
  eq = List.replicate ch 0 ∧ ∀ f ∈ s.ring.data, f.length = ch

theorem get_length (ch : Nat) (eq : List Rat) (s : St Rat) (h : WF ch eq s) (i : Nat) :
    (s.ring.get eq i).length = ch := by
  unfold Ring.get
  rw [List.getD_eq_getElem?_getD]
  cases hj : s.ring.data[(s.ring.first + i) % s.ring.len]? with
  | none => simp [h.1]
  | some f => simpa using h.2 f (List.mem_of_getElem? hj)

theorem zipWith_accum_zero (v r : List Rat) (h : v.length ≤ r.length) :
    List.zipWith (fun vs x => vs + 0 * x) v r = v := by
  induction v generalizing r with
  | nil => simp
  | cons a v ih =>
    cases r with
    | nil => simp at h
    | cons b r => simp only [List.zipWith_cons_cons]; rw [ih r (by simpa using h)]; simp

theorem zipWith_accum_one_zeros (ch : Nat) (z r : List Rat) (hz : z = List.replicate ch 0) (h : r.length = ch) :
    List.zipWith (fun vs x => vs + 1 * x) z r = r := by
  subst hz
  induction ch generalizing r with
  | zero => simp at h; simp [h]
  | succ ch ih =>
    cases r with
    | nil => simp at h
    | cons b r =>
      simp only [List.replicate_succ, List.zipWith_cons_cons]
      rw [ih r (by simpa using h)]; simp

/-- the ideal-kernel facts, derived from what is assumed about the oracles: `π ≠ 0`,
    `sin(π·k) = 0` for every integer `k ≥ 1`, `cos 0 = 1`. (The code avoids the `0/0` at `a = 0` by the
    explicit branch `if a == 0.0 { 1.0 }`, sinc/mod.rs:94.) -/
theorem kernel_grid (hpi : pi ≠ 0) (hsin : ∀ k : Nat, 1 ≤ k → sn (pi * (k : Rat)) = 0) (hcos : cs 0 = 1)
    (d : Nat) :
    kernel AR d 0 0 = 1 ∧ (∀ n, 1 ≤ n → kernel AR d 0 n = 0) ∧ (∀ n, kernel AR d (1 - 0) n = 0) := by
  refine ⟨?_, ?_, ?_⟩
  · simp [kernel, hcos]; norm_num
  · intro n hn
    have hne : pi * (n : Rat) ≠ 0 := mul_ne_zero hpi (by exact_mod_cast (by omega : n ≠ 0))
    simp [kernel, hne, hsin n hn]
  · intro n
    have e : pi * ((1 : Rat) - 0 + (n : Rat)) = pi * ((n + 1 : Nat) : Rat) := by push_cast; ring
    have hne : pi * ((n + 1 : Nat) : Rat) ≠ 0 := mul_ne_zero hpi (by exact_mod_cast (by omega : n + 1 ≠ 0))
    simp only [kernel, rat_mul, rat_add, rat_one, rat_ofNat, rat_pi, rat_isZero, rat_sin, rat_div, e,
      hne, decide_false, hsin (n + 1) (by omega)]
    simp

/-- ON THE GRID (`x = 0`), under the ideal-kernel facts, the interpolated frame is exactly the frame at
    the read index: weight 1 on the left tap 0, weight 0 on every other tap -/
theorem interpolate_grid (hpi : pi ≠ 0) (hsin : ∀ k : Nat, 1 ≤ k → sn (pi * (k : Rat)) = 0) (hcos : cs 0 = 1)
    (ch : Nat) (eq : List Rat) (s : St Rat) (hinv : Inv s) (hwf : WF ch eq s) :
    interpolate AR eq s 0 = s.ring.get eq s.idx := by
  obtain ⟨k0, kl, kr⟩ := kernel_grid sn cs pi hpi hsin hcos (depth s)
  obtain ⟨_, _, _, _, hN, _, _⟩ := index_safe s hinv
  have hd : 1 ≤ depth s := by obtain ⟨h1, h2, _, _⟩ := hinv; unfold depth; omega
  obtain ⟨m, hm⟩ : ∃ m, maxDepth s = m + 1 := ⟨maxDepth s - 1, by rw [hN]; omega⟩
  have hlen := get_length ch eq s hwf
  have hone : (AR).sub (AR).one 0 = 1 - 0 := rfl
  have step0 : tapStep AR eq s 0 eq 0 = s.ring.get eq s.idx := by
    simp only [tapStep, hone, k0, kr 0, accum_eq, Nat.sub_zero]
    rw [zipWith_accum_one_zeros ch eq _ hwf.1 (hlen _), zipWith_accum_zero _ _ (by rw [hlen, hlen])]
  have stepn : ∀ (ns : List Nat), (∀ n ∈ ns, 1 ≤ n) → ∀ v : List Rat, v.length = ch →
      ns.foldl (tapStep AR eq s 0) v = v := by
    intro ns
    induction ns with
    | nil => intro _ v _; rfl
    | cons n ns ih =>
      intro hns v hv
      have h1 : tapStep AR eq s 0 v n = v := by
        simp only [tapStep, hone, kl n (hns n (by simp)), kr n, accum_eq]
        rw [zipWith_accum_zero v (s.ring.get eq (s.idx - n)) (by rw [hv, hlen]),
          zipWith_accum_zero v _ (by rw [hv, hlen])]
      simp only [List.foldl_cons, h1]
      exact ih (fun n hn => hns n (by simp [hn])) v hv
  unfold interpolate
  rw [hm, List.range_succ_eq_map, List.foldl_cons, step0]
  exact stepn _ (by intro n hn; simp at hn; obtain ⟨a, _, rfl⟩ := hn; omega) _ (hlen _)

/-! ### what the ring holds after pushes -/

theorem mod_two_range (a N : Nat) (h : a < 2 * N) : a % N = if a < N then a else a - N := by
  split
  · exact Nat.mod_eq_of_lt (by assumption)
  · rw [Nat.mod_eq_sub_mod (by omega)]; exact Nat.mod_eq_of_lt (by omega)

/-- `Fixed::push` shifts the oldest-first order by one: index `len-1` is the pushed frame, index `i` is
    what index `i+1` was -/
theorem push_get (eq : List Rat) (r : Ring Rat) (x : List Rat) (hf : r.first < r.len) (i : Nat) (hi : i < r.len) :
    (r.push x).get eq i = if i + 1 = r.len then x else r.get eq (i + 1) := by
  unfold Ring.get
  simp only [push_len]
  unfold Ring.push Ring.len at *
  simp only
  rw [List.getD_eq_getElem?_getD, List.getD_eq_getElem?_getD]
  have e1 : (r.first + (i + 1)) % r.data.length =
      if r.first + (i + 1) < r.data.length then r.first + (i + 1) else r.first + (i + 1) - r.data.length :=
    mod_two_range _ _ (by omega)
  by_cases hw : r.first + 1 = r.data.length
  · simp only [hw, if_true]
    have e2 : (0 + i) % r.data.length = i := by rw [Nat.zero_add]; exact Nat.mod_eq_of_lt hi
    rw [e2, e1, List.getElem?_set]
    by_cases hl : i + 1 = r.data.length
    · have : r.first = i := by omega
      simp [hl, this, hi]
    · have h1 : ¬ r.first = i := by omega
      have h2 : ¬ r.first + (i + 1) < r.data.length := by omega
      simp only [h1, hl, h2, if_false]
      congr 2; omega
  · simp only [hw, if_false]
    have e2 : (r.first + 1 + i) % r.data.length = (r.first + (i + 1)) % r.data.length := by
      congr 1; omega
    rw [e2, e1, List.getElem?_set]
    by_cases hl : i + 1 = r.data.length
    · have h2 : ¬ r.first + (i + 1) < r.data.length := by omega
      have h3 : r.first + (i + 1) - r.data.length = r.first := by omega
      simp [hl, hf]
    · simp only [hl, if_false]
      split
      · simp
      · have : ¬ r.first = r.first + (i + 1) - r.data.length := by omega
        simp [this]

theorem push_first_lt (r : Ring Rat) (x : List Rat) (hf : r.first < r.len) : (r.push x).first < (r.push x).len := by
  rw [push_len]; unfold Ring.push; simp only; split <;> omega

/-- after pushing `xs` (oldest first): index `i` holds what index `i + |xs|` held, or — once that runs
    past the end — the pushed frame number `i + |xs| − len` -/
theorem pushes_get (eq : List Rat) (xs : List (List Rat)) (r : Ring Rat) (hf : r.first < r.len) (i : Nat)
    (hi : i < r.len) :
    (xs.foldl Ring.push r).len = r.len ∧ (xs.foldl Ring.push r).first < r.len ∧
    (xs.foldl Ring.push r).get eq i =
      if i + xs.length < r.len then r.get eq (i + xs.length) else xs.getD (i + xs.length - r.len) eq := by
  induction xs generalizing r i with
  | nil => simp [hf, hi]
  | cons x xs ih =>
    have hf' := push_first_lt r x hf
    obtain ⟨a, b, c⟩ := ih (r.push x) hf' i (by rw [push_len]; exact hi)
    rw [push_len] at a b c
    simp only [List.foldl_cons, List.length_cons]
    refine ⟨a, by rw [push_len] at hf'; exact b, ?_⟩
    rw [c]
    by_cases h1 : i + xs.length < r.len
    · simp only [h1, if_true]
      rw [push_get eq r x hf _ h1]
      by_cases h2 : i + xs.length + 1 = r.len
      · have : ¬ i + (xs.length + 1) < r.len := by omega
        have e : i + (xs.length + 1) - r.len = 0 := by omega
        simp [h2, this, e]
      · have : i + (xs.length + 1) < r.len := by omega
        simp only [h2, this, if_false, if_true]
        congr 1
    · have : ¬ i + (xs.length + 1) < r.len := by omega
      have e : i + (xs.length + 1) - r.len = (i + xs.length - r.len) + 1 := by omega
      simp [h1, this, e]

theorem wf_push (ch : Nat) (eq : List Rat) (s : St Rat) (f : List Rat) (h : WF ch eq s) (hf : f.length = ch) :
    WF ch eq (nextSourceFrame s f) := by
  refine ⟨h.1, ?_⟩
  intro g hg
  simp only [nextSourceFrame, Ring.push] at hg
  rcases List.mem_or_eq_of_mem_set hg with h1 | h1
  · exact h.2 g h1
  · rw [h1]; exact hf

/-- the interpolator state after `next_source_frame` has been called with `xs` in turn -/
theorem feed_sinc (ch : Nat) (eq : List Rat) (xs : List (List Rat)) (hxs : ∀ f ∈ xs, f.length = ch)
    (s : St Rat) (hinv : Inv s) (hwf : WF ch eq s) :
    (feed (sincInterp AR eq) s xs).ring = xs.foldl Ring.push s.ring ∧
    (feed (sincInterp AR eq) s xs).idx = min (s.idx + xs.length) (depth s) ∧
    Inv (feed (sincInterp AR eq) s xs) ∧ WF ch eq (feed (sincInterp AR eq) s xs) := by
  induction xs generalizing s with
  | nil =>
    refine ⟨rfl, ?_, hinv, hwf⟩
    have := hinv.2.2.2
    simp only [feed, List.foldl_nil, List.length_nil, Nat.add_zero]; omega
  | cons x xs ih =>
    have hi' := inv_push s x hinv
    have hw' := wf_push ch eq s x hwf (hxs x (by simp))
    obtain ⟨a, b, c, d⟩ := ih (fun f hf => hxs f (by simp [hf])) (nextSourceFrame s x) hi' hw'
    have e : feed (sincInterp AR eq) s (x :: xs) = feed (sincInterp AR eq) (nextSourceFrame s x) xs := rfl
    rw [e]
    refine ⟨a, ?_, c, d⟩
    rw [b]
    have hdep : depth (nextSourceFrame s x) = depth s := by simp [depth, nextSourceFrame]
    have hle := hinv.2.2.2
    rw [hdep]
    simp only [nextSourceFrame, List.length_cons]
    split <;> omega

/-- `reset` produces exactly the state `Sinc::new` builds from a ring of `len` equilibrium frames -/
theorem reset_eq_new (eq : List Rat) (s : St Rat) (h : Inv s) :
    reset eq s = ⟨⟨List.replicate s.ring.len eq, 0⟩, 0⟩ ∧
    new (⟨List.replicate s.ring.len eq, 0⟩ : Ring Rat) = some (reset eq s) := by
  have e : reset eq s = ⟨⟨List.replicate s.ring.len eq, 0⟩, 0⟩ := by
    unfold reset Ring.len
    simp [List.map_const']
  refine ⟨e, ?_⟩
  rw [e]
  unfold new Ring.len
  simp only [List.length_replicate]
  have := h.1
  unfold Ring.len at this
  rw [if_pos this]

/-- a ring holding only equilibrium frames is silent at every position, for ANY kernel -/
theorem interpolate_silent (ch : Nat) (eq : List Rat) (heq : eq = List.replicate ch 0) (s : St Rat)
    (hall : ∀ i, s.ring.get eq i = eq) (x : Rat) : interpolate AR eq s x = eq := by
  have stepn : ∀ (ns : List Nat), ns.foldl (tapStep AR eq s x) eq = eq := by
    intro ns
    induction ns with
    | nil => rfl
    | cons n ns ih =>
      have hz : ∀ w : Rat, List.zipWith (fun vs r => vs + w * r) eq eq = eq := by
        intro w; rw [heq]; simp
      have h1 : tapStep AR eq s x eq n = eq := by
        simp only [tapStep, accum_eq, hall, hz]
      simp only [List.foldl_cons, h1, ih]
  exact stepn _

theorem srcAt_length (ch : Nat) (eq : List Rat) (heq : eq.length = ch) (frames : List (List Rat))
    (hfr : ∀ f ∈ frames, f.length = ch) (i : Nat) : (srcAt eq frames i).length = ch := by
  unfold srcAt
  rw [List.getD_eq_getElem?_getD]
  cases hj : frames[i]? with
  | none => simpa using heq
  | some f => simpa using hfr f (List.mem_of_getElem? hj)

theorem pulled_mem_length (ch : Nat) (eq : List Rat) (heq : eq.length = ch) (frames : List (List Rat))
    (hfr : ∀ f ∈ frames, f.length = ch) (start m : Nat) : ∀ f ∈ pulled eq frames start m, f.length = ch := by
  induction m generalizing start with
  | zero => intro f hf; simp [pulled] at hf
  | succ m ih =>
    intro f hf
    simp only [pulled, List.mem_cons] at hf
    rcases hf with h | h
    · rw [h]; exact srcAt_length ch eq heq frames hfr start
    · exact ih (start + 1) f h

theorem pulled_getD (eq : List Rat) (frames : List (List Rat)) (start m j : Nat) (h : j < m) (d : List Rat) :
    (pulled eq frames start m).getD j d = srcAt eq frames (start + j) := by
  have hl : j < (pulled eq frames start m).length := by rw [pulled_length]; exact h
  rw [List.getD_eq_getElem?_getD, List.getElem?_eq_getElem hl, Option.getD_some]
  exact pulled_getElem eq frames start m j h

/-- ratio-1 conversion from zero padding, state side: after `n` source frames have been fed to a
    freshly constructed interpolator of depth `d ≥ 1`, the frame at the read index is source frame
    `n − d` (equilibrium while `n < d`) -/
theorem fed_read_frame (ch d : Nat) (hd : 1 ≤ d) (eq : List Rat) (heq : eq = List.replicate ch 0)
    (frames : List (List Rat)) (hfr : ∀ f ∈ frames, f.length = ch) (n : Nat) :
    let s0 : St Rat := ⟨⟨List.replicate (2 * d) eq, 0⟩, 0⟩
    let s := feed (sincInterp AR eq) s0 (pulled eq frames 0 n)
    Inv s ∧ WF ch eq s ∧ s.ring.get eq s.idx = if n < d then eq else srcAt eq frames (n - d) := by
  intro s0 s
  have hlen0 : s0.ring.len = 2 * d := by simp [s0, Ring.len]
  have hdep0 : depth s0 = d := by unfold depth; rw [hlen0]; omega
  have hinv0 : Inv s0 := ⟨by rw [hlen0]; omega, by rw [hlen0]; omega, by rw [hlen0]; simp [s0]; omega,
    by simp [s0]⟩
  have hwf0 : WF ch eq s0 := ⟨heq, by intro f hf; simp [s0] at hf; rw [hf.2, heq]; simp⟩
  have heql : eq.length = ch := by rw [heq]; simp
  obtain ⟨a, b, c, e⟩ := feed_sinc sn cs pi ch eq (pulled eq frames 0 n)
    (pulled_mem_length ch eq heql frames hfr 0 n) s0 hinv0 hwf0
  refine ⟨c, e, ?_⟩
  have hidx : s.idx = min n d := by
    show (feed (sincInterp AR eq) s0 (pulled eq frames 0 n)).idx = _
    rw [b, pulled_length, hdep0]; simp [s0]
  have hring : s.ring = (pulled eq frames 0 n).foldl Ring.push s0.ring := a
  have hf0 : s0.ring.first < s0.ring.len := by rw [hlen0]; simp [s0]; omega
  obtain ⟨_, _, g⟩ := pushes_get eq (pulled eq frames 0 n) s0.ring hf0 (min n d) (by rw [hlen0]; omega)
  rw [hring, hidx, g, pulled_length, hlen0]
  have hpad : ∀ i, s0.ring.get eq i = eq := by
    intro i
    simp only [Ring.get, s0, List.getD_eq_getElem?_getD]
    cases hj : (List.replicate (2 * d) eq)[(0 + i) % (⟨List.replicate (2 * d) eq, 0⟩ : Ring Rat).len]? with
    | none => rfl
    | some f =>
      have := List.mem_of_getElem? hj
      simp at this
      simp [this.2]
  by_cases hnd : n < d
  · have h1 : min n d + n < 2 * d := by omega
    simp only [hnd, h1, if_true, hpad]
  · have h1 : ¬ min n d + n < 2 * d := by omega
    simp only [hnd, h1, if_false]
    rw [pulled_getD eq frames 0 n _ (by omega)]
    congr 1; omega

end exact


end Dasp.Sinc
