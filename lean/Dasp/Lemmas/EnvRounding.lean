import Dasp.Model.Envelope
import Dasp.Lemmas.RmsRounding
import Dasp.Lemmas.RoundRel
import Dasp.Lemmas.ConvFloat
/-!
# The envelope step in ROUNDED arithmetic (C19, "hence it always lies between the previous envelope and
the detected value")

`Rounding.rndArith rnd` (Lemmas/RmsRounding.lean): every operation is the exact one followed by `rnd`.
Here `rnd` is only assumed monotone, to fix 0 and to be idempotent (`RndMono`) — three facts proved
below of the rounding of the executable soft-float (`rs F`, any format).  For the SAME `envSample` the
driver runs at binary32/binary64: the new envelope never passes the detected value, and on the other
side never passes `e* = fl(d + fl(l − d))`, the float recomputation of the previous envelope `l`
itself (`e*` differs from `l` by at most the two roundings in it; `overshoot_bound`).
-/
set_option linter.unusedSectionVars false

namespace Dasp.Envelope.Rounding
open Dasp Dasp.Envelope Dasp.Rms.Rounding

variable {K : Type} [Field K] [LinearOrder K] [IsStrictOrderedRing K]

structure RndMono (rnd : K → K) : Prop where
  mono : ∀ x y, x ≤ y → rnd x ≤ rnd y
  zero : rnd 0 = 0
  idem : ∀ x, rnd (rnd x) = rnd x

/-- `envSample` in rounded arithmetic (gains in the same field; `gain.to_sample()` exact) -/
def envR (rnd : K → K) (attack release l d : K) : K :=
  @envSample K K (rndArith rnd) id attack release l d

theorem envR_eq (rnd : K → K) (a r l d : K) :
    envR rnd a r l d = rnd (d + rnd (rnd (l + -d) * (if l < d then a else r))) := by
  simp only [envR, envSample, Arith.lt, Arith.add, Arith.neg, Arith.mul, id, decide_eq_true_eq]

/-- the float recomputation of the previous envelope from the detected value: `fl(d + fl(l − d))` -/
def eStar (rnd : K → K) (l d : K) : K := rnd (d + rnd (l + -d))

/-- **betweenness in rounded arithmetic**: for representable `l` (previous envelope) and `d` (detected
    value) and gains in `[0, 1]`, the new envelope lies between `d` and `e*` -/
theorem envR_between {rnd : K → K} (ok : RndMono rnd) (a r l d : K) (hd : rnd d = d)
    (ha : 0 ≤ a ∧ a ≤ 1) (hr : 0 ≤ r ∧ r ≤ 1) :
    (d ≤ l → d ≤ envR rnd a r l d ∧ envR rnd a r l d ≤ eStar rnd l d) ∧
    (l ≤ d → eStar rnd l d ≤ envR rnd a r l d ∧ envR rnd a r l d ≤ d) := by
  rw [envR_eq]
  set g := (if l < d then a else r) with hg
  have hg0 : 0 ≤ g ∧ g ≤ 1 := by rw [hg]; split <;> assumption
  set t1 := rnd (l + -d) with ht1
  have hid : rnd t1 = t1 := ok.idem _
  constructor
  · intro hle
    have h1 : 0 ≤ t1 := by rw [ht1, ← ok.zero]; exact ok.mono _ _ (by linarith)
    have h2 : 0 ≤ rnd (t1 * g) := by rw [← ok.zero]; exact ok.mono _ _ (mul_nonneg h1 hg0.1)
    have h3 : rnd (t1 * g) ≤ t1 := by
      rw [← hid]; exact ok.mono _ _ (by nlinarith [hg0.2])
    constructor
    · rw [← hd]; exact ok.mono _ _ (by rw [hd]; linarith)
    · exact ok.mono _ _ (by linarith)
  · intro hle
    have h1 : t1 ≤ 0 := by rw [ht1, ← ok.zero]; exact ok.mono _ _ (by linarith)
    have h2 : rnd (t1 * g) ≤ 0 := by
      rw [← ok.zero]; exact ok.mono _ _ (mul_nonpos_of_nonpos_of_nonneg h1 hg0.1)
    have h3 : t1 ≤ rnd (t1 * g) := by
      rw [← hid]; exact ok.mono _ _ (by nlinarith [hg0.2])
    constructor
    · exact ok.mono _ _ (by linarith)
    · rw [← hd]; exact ok.mono _ _ (by rw [hd]; linarith)

/-- *"equals the detected value when the time is 0"*, exactly, also in rounded arithmetic -/
theorem envR_zero_gain {rnd : K → K} (ok : RndMono rnd) (l d : K) (hd : rnd d = d) (other : K) :
    (l < d → envR rnd 0 other l d = d) ∧ (¬ l < d → envR rnd other 0 l d = d) := by
  constructor <;> intro h <;> rw [envR_eq] <;> simp [h, ok.zero, hd]

/-- how far `e*` can be from the previous envelope: the two roundings in it -/
theorem overshoot_bound {rnd : K → K} {u η : K} (ok : RndOK rnd u η) (l d : K) :
    |eStar rnd l d - l| ≤ (1 + u) * (u * |l - d| + η) + u * |l| + η := by
  unfold eStar
  have e1 := ok.err (l + -d)
  have e2 := ok.err (d + rnd (l + -d))
  have hu := ok.u0
  set t := rnd (l + -d)
  have ht : |d + t - l| ≤ u * |l - d| + η := by
    have : d + t - l = t - (l + -d) := by ring
    rw [this]; simpa [sub_eq_add_neg] using e1
  have habs : |d + t| ≤ |l| + (u * |l - d| + η) := by
    have : d + t = l + (d + t - l) := by ring
    rw [this]; exact le_trans (abs_add_le _ _) (by linarith)
  have h3 : u * |d + t| ≤ u * (|l| + (u * |l - d| + η)) := mul_le_mul_of_nonneg_left habs hu
  have : rnd (d + t) - l = (rnd (d + t) - (d + t)) + (d + t - l) := by ring
  rw [this]
  refine le_trans (abs_add_le _ _) ?_
  have : (1 + u) * (u * |l - d| + η) + u * |l| + η
      = (u * (|l| + (u * |l - d| + η)) + η) + (u * |l - d| + η) := by ring
  rw [this]; linarith

end Dasp.Envelope.Rounding

/-! ## the soft-float's rounding is monotone, fixes 0 and is idempotent -/
namespace Dasp

theorem rs_neg (F : Fmt2) (x : Rat) : rs F (-x) = - rs F x := by
  unfold rs
  rcases lt_trichotomy x 0 with h | h | h
  · have h1 : ¬ (-x < 0) := by linarith
    have h2 : ¬ (-x = 0) := by intro e; linarith
    simp [h, h1, h2]
  · subst h; simp
  · have h1 : -x < 0 := by linarith
    have h2 : ¬ (x < 0) := by linarith
    have h3 : ¬ (x = 0) := by intro e; linarith
    simp [h1, h2, h3]

theorem rs_mono_nonneg (F : Fmt2) (hp : 1 ≤ F.prec) {x y : Rat} (hx : 0 ≤ x) (h : x ≤ y) : rs F x ≤ rs F y := by
  rcases eq_or_lt_of_le hx with h0 | h0
  · rw [← h0]; simp only [rs, lt_irrefl, if_false, if_true]; exact rs_nonneg F (le_trans hx h)
  · have hy : 0 < y := lt_of_lt_of_le h0 h
    have e1 : rs F x = rv F x := by simp [rs, not_lt.mpr hx, ne_of_gt h0]
    have e2 : rs F y = rv F y := by simp [rs, not_lt.mpr (le_of_lt hy), ne_of_gt hy]
    rw [e1, e2]; exact rv_mono F hp h0 h

theorem rs_mono (F : Fmt2) (hp : 1 ≤ F.prec) {x y : Rat} (h : x ≤ y) : rs F x ≤ rs F y := by
  rcases le_total 0 x with hx | hx
  · exact rs_mono_nonneg F hp hx h
  · rcases le_total 0 y with hy | hy
    · have h1 : rs F x ≤ 0 := by
        have := rs_nonneg F (x := -x) (by linarith); rw [rs_neg] at this; linarith
      exact le_trans h1 (rs_nonneg F hy)
    · have := rs_mono_nonneg F hp (x := -y) (y := -x) (by linarith) (by linarith)
      rw [rs_neg, rs_neg] at this; linarith

theorem rs_zero (F : Fmt2) : rs F 0 = 0 := by simp [rs]

theorem rs_idem (F : Fmt2) (hp : 1 ≤ F.prec) (x : Rat) : rs F (rs F x) = rs F x := by
  have pos : ∀ q : Rat, 0 < q → rs F (rs F q) = rs F q := by
    intro q hq
    have e1 : rs F q = rv F q := by simp [rs, not_lt.mpr (le_of_lt hq), ne_of_gt hq]
    rw [e1]
    have h0 := rv_nonneg F (le_of_lt hq)
    rcases eq_or_lt_of_le h0 with hz | hpos
    · rw [← hz, rs_zero]
    · have : rs F (rv F q) = rv F (rv F q) := by simp [rs, not_lt.mpr h0, ne_of_gt hpos]
      rw [this, rv_id F (rv_onGrid F hp hq)]
  rcases lt_trichotomy x 0 with h | h | h
  · have := pos (-x) (by linarith)
    rw [rs_neg, rs_neg] at this
    linarith [this]
  · subst h; rw [rs_zero, rs_zero]
  · exact pos x h

theorem softfloat_rounding_mono (F : Fmt2) (hp : 1 ≤ F.prec) : Dasp.Envelope.Rounding.RndMono (rs F) where
  mono := fun _ _ h => rs_mono F hp h
  zero := rs_zero F
  idem := rs_idem F hp

end Dasp
