import Dasp.Model.Rms
import Mathlib.Algebra.Order.Field.Basic
import Mathlib.Algebra.BigOperators.Group.List.Basic
import Mathlib.Algebra.Order.BigOperators.Group.List
import Mathlib.Tactic.Linarith
import Mathlib.Tactic.Ring
import Mathlib.Tactic.FieldSimp

/-!
# Exact-arithmetic facts about the RMS model (`Model/Rms.lean`)

`Dasp.Exact.fieldArith` instantiates the arithmetic class of the models at any linearly ordered
field (`ℚ`, `ℝ`): the operations are the field operations, `ofLen n = n`.
-/
namespace Dasp.Exact

/-- exact arithmetic: every linearly ordered field is an `Arith` (`usize as f32` is exact: `N ≤ 2^24`) -/
scoped instance fieldArith {K : Type} [Field K] [LinearOrder K] [IsStrictOrderedRing K] : Dasp.Arith K where
  zero := 0
  one := 1
  add a b := a + b
  sub a b := a - b
  mul a b := a * b
  div a b := a / b
  neg a := -a
  lt a b := decide (a < b)
  beq a b := decide (a = b)
  ofLen n := (n : K)

end Dasp.Exact

set_option linter.unusedSectionVars false
set_option linter.dupNamespace false

namespace Dasp.Rms
open Dasp Dasp.Exact

variable {K : Type} [Field K] [LinearOrder K] [IsStrictOrderedRing K]

/-- the last `n` elements of a list -/
def lastN {β : Type} (n : Nat) (l : List β) : List β := l.drop (l.length - n)

/-- the squares a window of `n` frames holds after the inputs `live` (oldest first) went into a
    zero-initialised window: the zero window counts as preceding silence -/
def specWindow (n : Nat) (live : List K) : List K :=
  lastN n (List.replicate n 0 ++ live.map fun x => x * x)

/-- the mean of the squares of the most recent `n` inputs (silence before the first) -/
def meanSq (n : Nat) (live : List K) : K := (specWindow n live).sum / n

/-- the channel state the specification prescribes after the inputs `live` -/
def Chan.spec (n : Nat) (live : List K) : Chan K := ⟨specWindow n live, (specWindow n live).sum⟩

theorem specWindow_nil (n : Nat) : specWindow n ([] : List K) = List.replicate n 0 := by
  simp [specWindow, lastN]

theorem specWindow_length (n : Nat) (live : List K) : (specWindow n live).length = n := by
  simp [specWindow, lastN]

theorem specWindow_snoc {n : Nat} (hn : 1 ≤ n) (live : List K) (x : K) :
    specWindow n (live ++ [x]) = (specWindow n live).drop 1 ++ [x * x] := by
  unfold specWindow lastN
  simp only [List.map_append, List.map_cons, List.map_nil, List.length_append, List.length_replicate,
    List.length_map, List.length_cons, List.length_nil, List.drop_drop]
  rw [← List.append_assoc]
  rw [List.drop_append_of_le_length (by simp; omega)]
  congr 2
  omega

theorem specWindow_nonneg (n : Nat) (live : List K) : ∀ y ∈ specWindow n live, 0 ≤ y := by
  intro y hy
  have hy' := List.mem_of_mem_drop hy
  rcases List.mem_append.mp hy' with h | h
  · rw [List.eq_of_mem_replicate h]
  · rcases List.mem_map.mp h with ⟨x, _, rfl⟩
    exact mul_self_nonneg x

/-- the padding is silent: the window sum is the sum of the squares of the last `min n len` inputs -/
theorem specWindow_sum (n : Nat) (live : List K) :
    (specWindow n live).sum = ((lastN n live).map fun x => x * x).sum := by
  unfold specWindow lastN
  simp only [List.length_append, List.length_replicate, List.length_map]
  by_cases h : n ≤ live.length
  · rw [show n + live.length - n = n + (live.length - n) by omega, ← List.drop_drop]
    simp [List.map_drop]
  · have h' : live.length - n = 0 := by omega
    rw [show n + live.length - n = live.length by omega, h', List.drop_zero,
      List.drop_append_of_le_length (by simp; omega)]
    simp

theorem headD_add_sum_drop (w : List K) (h : 1 ≤ w.length) : w.headD 0 + (w.drop 1).sum = w.sum := by
  cases w with
  | nil => simp at h
  | cons a t => simp

theorem Chan.init_eq (n : Nat) : (Chan.init n : Chan K) = Chan.spec n [] := by
  simp [Chan.init, Chan.new, Chan.spec, specWindow_nil, Arith.zero]

/-- **refinement step**: on the specified state `next_squared` never clamps, moves to the specified
    state of the extended history and returns the mean of the squares of the last `n` inputs -/
theorem Chan.nextSquared_spec {n : Nat} (hn : 1 ≤ n) (live : List K) (x : K) :
    (Chan.spec n live).nextSquared x = (Chan.spec n (live ++ [x]), meanSq n (live ++ [x])) := by
  have hlen := specWindow_length n live
  have hsum : (specWindow n live).sum + x * x - (specWindow n live).headD 0 = (specWindow n (live ++ [x])).sum := by
    rw [specWindow_snoc hn, List.sum_append]
    have := headD_add_sum_drop (specWindow n live) (by omega)
    simp only [List.sum_cons, List.sum_nil, add_zero]
    linarith
  have hnn : ¬ (specWindow n (live ++ [x])).sum < 0 :=
    not_lt.mpr (List.sum_nonneg (specWindow_nonneg n _))
  simp only [Chan.nextSquared, Chan.spec, Chan.calcSquared, meanSq, Arith.mul, Arith.add, Arith.sub,
    Arith.zero, Arith.lt, Arith.div, Arith.ofLen, hsum, decide_eq_true_eq, if_neg hnn]
  rw [← specWindow_snoc hn, specWindow_length]

theorem Chan.next_spec {n : Nat} (hn : 1 ≤ n) (sqrt : K → K) (live : List K) (x : K) :
    (Chan.spec n live).next sqrt x = (Chan.spec n (live ++ [x]), sqrt (meanSq n (live ++ [x]))) := by
  simp [Chan.next, Chan.nextSquared_spec hn]

theorem Chan.reset_spec (n : Nat) (live : List K) : (Chan.spec n live).reset = Chan.spec n [] := by
  simp only [Chan.reset, Chan.spec, specWindow_nil, Arith.zero]
  have : (specWindow n live).map (fun _ => (0 : K)) = List.replicate n 0 := by
    rw [List.map_const', specWindow_length]
  simp [this]

theorem Chan.current_spec (n : Nat) (sqrt : K → K) (live : List K) :
    (Chan.spec n live).current sqrt = sqrt (meanSq n live) := by
  simp [Chan.current, Chan.calcSquared, Chan.spec, meanSq, Arith.div, Arith.ofLen, specWindow_length]

theorem Chan.windowFrames_spec (n : Nat) (live : List K) : (Chan.spec n live).windowFrames = n := by
  simp [Chan.windowFrames, Chan.spec, specWindow_length]

/-! ## frames -/

/-- the specified detector state after the per-channel input histories `lives` -/
def Rms.spec (n : Nat) (lives : List (List K)) : Rms K := ⟨lives.map (Chan.spec n)⟩

/-- append one frame to the per-channel histories -/
def pushFrame (lives : List (List K)) (f : List K) : List (List K) :=
  List.zipWith (fun l x => l ++ [x]) lives f

theorem Rms.init_eq (ch n : Nat) : (Rms.init ch n : Rms K) = Rms.spec n (List.replicate ch []) := by
  simp [Rms.init, Rms.spec, Chan.init_eq]

private theorem zipWith_spec {β : Type} {n : Nat} (g : Chan K → K → Chan K × β) (h : List K → K → β)
    (hg : ∀ l x, g (Chan.spec n l) x = (Chan.spec n (l ++ [x]), h l x)) :
    ∀ (lives : List (List K)) (f : List K),
      (List.zipWith g (lives.map (Chan.spec n)) f).map Prod.fst = (pushFrame lives f).map (Chan.spec n) ∧
      (List.zipWith g (lives.map (Chan.spec n)) f).map Prod.snd = List.zipWith h lives f := by
  intro lives
  induction lives with
  | nil => intro f; simp [pushFrame]
  | cons l ls ih =>
    intro f
    cases f with
    | nil => simp [pushFrame]
    | cons x xs =>
      have := ih xs
      simp only [pushFrame] at this ⊢
      simp [hg, this.1, this.2]

theorem Rms.nextSquared_spec {n : Nat} (hn : 1 ≤ n) (lives : List (List K)) (f : List K) :
    (Rms.spec n lives).nextSquared f =
      (Rms.spec n (pushFrame lives f), List.zipWith (fun l x => meanSq n (l ++ [x])) lives f) := by
  have := zipWith_spec (n := n) Chan.nextSquared (fun l x => meanSq n (l ++ [x])) (Chan.nextSquared_spec hn) lives f
  simp only [Rms.nextSquared, Rms.spec, this.1, this.2]

theorem Rms.next_spec {n : Nat} (hn : 1 ≤ n) (sqrt : K → K) (lives : List (List K)) (f : List K) :
    (Rms.spec n lives).next sqrt f =
      (Rms.spec n (pushFrame lives f), List.zipWith (fun l x => sqrt (meanSq n (l ++ [x]))) lives f) := by
  have := zipWith_spec (n := n) (Chan.next sqrt) (fun l x => sqrt (meanSq n (l ++ [x]))) (Chan.next_spec hn sqrt) lives f
  simp only [Rms.next, Rms.spec, this.1, this.2]

theorem Rms.reset_spec (n : Nat) (lives : List (List K)) :
    (Rms.spec n lives).reset = Rms.spec n (lives.map fun _ => []) := by
  simp [Rms.reset, Rms.spec, Chan.reset_spec, Function.comp_def]

theorem Rms.current_spec (n : Nat) (sqrt : K → K) (lives : List (List K)) :
    (Rms.spec n lives).current sqrt = lives.map fun l => sqrt (meanSq n l) := by
  simp [Rms.current, Rms.spec, Chan.current_spec, Function.comp_def]

/-- what a history does to the per-channel input histories since the last reset -/
def histStep (lives : List (List K)) : Op K → List (List K)
  | .next f => pushFrame lives f
  | .nextSquared f => pushFrame lives f
  | .reset => lives.map fun _ => []
  | .current => lives
  | .windowFrames => lives
  | .parts => lives

/-- the per-channel inputs since the last reset (or the start), after the history `ops` -/
def hist (ch : Nat) (ops : List (Op K)) : List (List K) := ops.foldl histStep (List.replicate ch [])

theorem Rms.step_spec {n : Nat} (hn : 1 ≤ n) (sqrt : K → K) (lives : List (List K)) (op : Op K) :
    ((Rms.spec n lives).step sqrt op).1 = Rms.spec n (histStep lives op) := by
  cases op <;> simp [Rms.step, histStep, Rms.next_spec hn, Rms.nextSquared_spec hn, Rms.reset_spec]

theorem Rms.run_spec {n : Nat} (hn : 1 ≤ n) (sqrt : K → K) (ops : List (Op K)) :
    ∀ lives : List (List K), ((Rms.spec n lives).run sqrt ops).1 = Rms.spec n (ops.foldl histStep lives) := by
  induction ops with
  | nil => intro lives; simp [Rms.run]
  | cons op ops ih =>
    intro lives
    have h1 := Rms.step_spec hn sqrt lives op
    simp only [Rms.run, List.foldl_cons]
    rw [← ih, ← h1]

/-- frames of the right channel count -/
def Op.WF (ch : Nat) : Op K → Prop
  | .next f => f.length = ch
  | .nextSquared f => f.length = ch
  | _ => True

theorem histStep_length {ch : Nat} (lives : List (List K)) (op : Op K) (h : lives.length = ch) (hw : op.WF ch) :
    (histStep lives op).length = ch := by
  cases op <;> simp_all [histStep, pushFrame, Op.WF]

theorem hist_length {ch : Nat} (ops : List (Op K)) (hw : ∀ op ∈ ops, op.WF ch) :
    ∀ lives : List (List K), lives.length = ch → (ops.foldl histStep lives).length = ch := by
  induction ops with
  | nil => intro lives h; simpa using h
  | cons op ops ih =>
    intro lives h
    simp only [List.foldl_cons]
    exact ih (fun o ho => hw o (List.mem_cons_of_mem _ ho)) _ (histStep_length lives op h (hw op (List.mem_cons_self)))

/-! ## the float-side fact that needs no arithmetic laws: the clamp -/

/-- whatever the arithmetic (binary32 / binary64 included): after `next_squared` the running sum is
    not `< 0` — provided only that `0 < 0` is false in the format -/
theorem Chan.sum_not_neg {α : Type} [Arith α] (h0 : Arith.lt (Arith.zero : α) Arith.zero = false)
    (c : Chan α) (s : α) : Arith.lt (c.nextSquared s).1.sum Arith.zero = false := by
  simp only [Chan.nextSquared]
  split
  · exact h0
  · simp_all

/-! ## the signal adaptor -/

theorem Adaptor.next_eq {α : Type} [Arith α] (sqrt : α → α) (a : Adaptor α) (f : List α) (rest : List (List α))
    (h : a.src = f :: rest) :
    (a.next sqrt).2 = (a.rms.next sqrt f).2 ∧ (a.next sqrt).1.rms = (a.rms.next sqrt f).1 ∧
    (a.next sqrt).1.src = rest ∧ (a.next sqrt).1.pulls = a.pulls + 1 ∧ (a.next sqrt).1.ch = a.ch := by
  simp [Adaptor.next, Adaptor.pull, h]

/-- outputs of the detector fed the frames `fs` one by one -/
def Rms.feed {α : Type} [Arith α] (sqrt : α → α) : Rms α → List (List α) → Rms α × List (List α)
  | r, [] => (r, [])
  | r, f :: fs =>
    let (r', o) := r.next sqrt f
    let (r'', os) := Rms.feed sqrt r' fs
    (r'', o :: os)

/-- **through the signal adaptor**: `k` outputs of `signal.rms(ring)` over a source holding at least
    `k` frames are exactly the detector's outputs on the first `k` source frames, and exactly `k`
    frames were pulled from the source (one per output) -/
theorem Adaptor.take_eq_feed {α : Type} [Arith α] (sqrt : α → α) :
    ∀ (k : Nat) (a : Adaptor α), k ≤ a.src.length →
      (Adaptor.take sqrt k a).2 = (Rms.feed sqrt a.rms (a.src.take k)).2 ∧
      (Adaptor.take sqrt k a).1.rms = (Rms.feed sqrt a.rms (a.src.take k)).1 ∧
      (Adaptor.take sqrt k a).1.pulls = a.pulls + k ∧
      (Adaptor.take sqrt k a).1.src = a.src.drop k := by
  intro k
  induction k with
  | zero => intro a _; simp [Adaptor.take, Rms.feed]
  | succ k ih =>
    intro a hk
    match hsrc : a.src with
    | [] => simp [hsrc] at hk
    | f :: rest =>
      obtain ⟨h1, h2, h3, h4, _⟩ := Adaptor.next_eq sqrt a f rest hsrc
      have hk' : k ≤ (a.next sqrt).1.src.length := by rw [h3]; simp [hsrc] at hk; omega
      obtain ⟨i1, i2, i3, i4⟩ := ih (a.next sqrt).1 hk'
      simp only [Adaptor.take, Rms.feed, List.take_succ_cons, List.drop_succ_cons]
      rw [h3] at i1 i2 i4
      rw [h2] at i1 i2
      refine ⟨?_, ?_, ?_, ?_⟩
      · rw [i1, h1]
      · rw [i2]
      · rw [i3, h4]; omega
      · rw [i4]

end Dasp.Rms
