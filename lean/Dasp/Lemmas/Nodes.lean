import Dasp.Model.Nodes
/-! # Lemmas about the built-in node models (`Dasp.Nodes`). Core Lean only. -/
namespace Dasp.Nodes

variable {α : Type}

/-! ### mixing -/

/-- the buffers of channel `c` of those inputs that have a channel `c`, in input order -/
def chan (c : Nat) (inputs : List (Bufs α)) : List (Buf α) := inputs.filterMap (·[c]?)

/-- sample `i` of the mix of `bs`: `((0 + b₁[i]) + b₂[i]) + …` in list order -/
def mixAt [Add α] [Zero α] (i : Nat) (bs : List (Buf α)) : α := (bs.filterMap (·[i]?)).foldl (· + ·) 0

theorem silent_length [Zero α] : (silent : Buf α).length = LEN := by simp [silent]

theorem silent_get [Zero α] (i : Nat) (hi : i < LEN) : (silent : Buf α)[i]? = some 0 := by
  simp [silent, List.getElem?_replicate, hi]

theorem foldl_addInPlace [Add α] (bs : List (Buf α)) :
    ∀ (acc : Buf α), acc.length = LEN → (∀ b ∈ bs, b.length = LEN) →
      (bs.foldl addInPlace acc).length = LEN ∧
      ∀ i a, i < LEN → acc[i]? = some a →
        (bs.foldl addInPlace acc)[i]? = some ((bs.filterMap (·[i]?)).foldl (· + ·) a) := by
  induction bs with
  | nil => intro acc hl _; exact ⟨hl, fun i a _ h => by simpa using h⟩
  | cons b bs ih =>
    intro acc hl hb
    have hbl : b.length = LEN := hb b (by simp)
    have hl' : (addInPlace acc b).length = LEN := by simp [addInPlace, hl, hbl]
    obtain ⟨h1, h2⟩ := ih (addInPlace acc b) hl' (fun x hx => hb x (by simp [hx]))
    refine ⟨by simpa using h1, ?_⟩
    intro i a hi ha
    have hbi : ∃ bi, b[i]? = some bi := ⟨b[i]'(by omega), by simp [List.getElem?_eq_getElem, hbl, hi]⟩
    obtain ⟨bi, hbi⟩ := hbi
    have hz : (addInPlace acc b)[i]? = some (a + bi) := by
      simp [addInPlace, List.getElem?_zipWith, ha, hbi]
    have := h2 i (a + bi) hi hz
    simpa [List.filterMap_cons, hbi] using this

theorem foldl_chan [Add α] (c : Nat) (inputs : List (Bufs α)) (acc : Buf α) :
    inputs.foldl (fun out inp => match inp[c]? with
      | some inBuf => addInPlace out inBuf
      | none => out) acc = (chan c inputs).foldl addInPlace acc := by
  induction inputs generalizing acc with
  | nil => rfl
  | cons inp rest ih =>
    simp only [List.foldl_cons, chan, List.filterMap_cons]
    cases h : inp[c]? with
    | none => simpa [chan] using ih acc
    | some b => simpa [chan] using ih (addInPlace acc b)

theorem chan_ok (c : Nat) (inputs : List (Bufs α)) (hin : ∀ inp ∈ inputs, BufsOk inp) :
    ∀ b ∈ chan c inputs, b.length = LEN := by
  intro b hb
  simp only [chan, List.mem_filterMap] at hb
  obtain ⟨inp, hinp, hb⟩ := hb
  exact hin inp hinp b (List.mem_of_getElem? hb)

/-! ### `zipCopy` -/

theorem zipCopy_length (out inp : Bufs α) : (zipCopy out inp).length = out.length := by
  fun_induction zipCopy out inp <;> simp_all

theorem zipCopy_lt (out inp : Bufs α) (c : Nat) (h1 : c < out.length) (h2 : c < inp.length) :
    (zipCopy out inp)[c]? = inp[c]? := by
  fun_induction zipCopy out inp generalizing c with
  | case1 o os b bs ih =>
    cases c with
    | zero => simp
    | succ c => simp at h1 h2 ⊢; exact ih c h1 h2
  | case2 os => simp at h2
  | case3 => simp at h1

theorem zipCopy_ge (out inp : Bufs α) (c : Nat) (h2 : inp.length ≤ c) :
    (zipCopy out inp)[c]? = out[c]? := by
  fun_induction zipCopy out inp generalizing c with
  | case1 o os b bs ih =>
    cases c with
    | zero => simp at h2
    | succ c => simp at h2 ⊢; exact ih c h2
  | case2 os => rfl
  | case3 => simp

/-! ### the ring as an ideal fixed-length queue -/

/-- `first < len` (what `Fixed::from` / `from_raw_parts` assert; implies `len > 0`) -/
def Ring.Ok (r : Ring α) : Prop := r.first < r.data.length

/-- logical content, oldest element first -/
def Ring.content (r : Ring α) : List α := r.data.drop r.first ++ r.data.take r.first

theorem content_length (r : Ring α) (h : r.Ok) : r.content.length = r.data.length := by
  unfold Ring.Ok at h; simp [Ring.content]; omega

theorem set_at (l1 l2 : List α) (a x : α) : (l1 ++ a :: l2).set l1.length x = l1 ++ x :: l2 := by
  induction l1 with
  | nil => rfl
  | cons y l1 ih => simp [ih]

theorem drop_at (l1 l2 : List α) : (l1 ++ l2).drop l1.length = l2 := by
  induction l1 with
  | nil => rfl
  | cons y l1 ih => simpa using ih

theorem take_at (l1 l2 : List α) : (l1 ++ l2).take l1.length = l1 := by
  induction l1 with
  | nil => simp
  | cons y l1 ih => simpa using ih

theorem drop_at_succ (l1 l2 : List α) (a : α) : (l1 ++ a :: l2).drop (l1.length + 1) = l2 := by
  induction l1 with
  | nil => rfl
  | cons y l1 ih => simpa using ih

theorem take_at_succ (l1 l2 : List α) (a : α) : (l1 ++ a :: l2).take (l1.length + 1) = l1 ++ [a] := by
  induction l1 with
  | nil => simp
  | cons y l1 ih => simpa using ih

theorem split_at (l : List α) (i : Nat) (a : α) (h : l[i]? = some a) :
    ∃ l1 l2, l = l1 ++ a :: l2 ∧ l1.length = i := by
  induction l generalizing i with
  | nil => simp at h
  | cons y l ih =>
    cases i with
    | zero => simp at h; subst h; exact ⟨[], l, rfl, rfl⟩
    | succ i =>
      simp at h
      obtain ⟨l1, l2, e, hl⟩ := ih i h
      exact ⟨y :: l1, l2, by simp [e], by simp [hl]⟩

/-- **one push on the ideal queue**: the oldest element comes out, the new one goes to the back -/
theorem push_spec (r : Ring α) (h : r.Ok) (x : α) :
    ∃ r' old c', r.push x = some (r', old) ∧ r'.Ok ∧ r'.data.length = r.data.length ∧
      r.content = old :: c' ∧ r'.content = c' ++ [x] := by
  unfold Ring.Ok at h
  have hget : r.data[r.first]? = some (r.data[r.first]'h) := by simp
  obtain ⟨l1, l2, e, hl⟩ := split_at r.data r.first _ hget
  generalize r.data[r.first]'h = old at hget e
  by_cases hw : r.first + 1 = r.data.length
  · have hl2 : l2 = [] := by
      have : r.data.length = l1.length + 1 + l2.length := by rw [e]; simp; omega
      have : l2.length = 0 := by omega
      exact List.eq_nil_of_length_eq_zero this
    subst hl2
    refine ⟨⟨0, r.data.set r.first x⟩, old, l1, ?_, ?_, by simp, ?_, ?_⟩
    · simp [Ring.push, hget, hw]
    · simp [Ring.Ok]; omega
    · simp only [Ring.content]; rw [← hl, e, drop_at, take_at]; simp
    · simp only [Ring.content]; rw [e, ← hl, set_at]; simp
  · refine ⟨⟨r.first + 1, r.data.set r.first x⟩, old, l2 ++ l1, ?_, ?_, by simp, ?_, ?_⟩
    · simp [Ring.push, hget, hw]
    · simp [Ring.Ok]; omega
    · simp only [Ring.content]; rw [← hl, e, drop_at, take_at]; simp
    · simp only [Ring.content]; rw [e, ← hl, set_at, drop_at_succ, take_at_succ]; simp

/-- **pushing a block**: the outputs are the first `|xs|` elements of `content ++ xs`, the new content is
    the rest — an exact delay of `content.length = ring length` samples -/
theorem pushAll_spec (xs : Buf α) : ∀ (r : Ring α), r.Ok →
    ∃ r' outs, pushAll r xs = some (r', outs) ∧ r'.Ok ∧ r'.data.length = r.data.length ∧
      outs = (r.content ++ xs).take xs.length ∧ r'.content = (r.content ++ xs).drop xs.length := by
  induction xs with
  | nil => intro r h; exact ⟨r, [], rfl, h, rfl, by simp, by simp⟩
  | cons x xs ih =>
    intro r h
    obtain ⟨r1, old, c', hp, hok1, hlen1, hc, hc1⟩ := push_spec r h x
    obtain ⟨r2, outs, hp2, hok2, hlen2, ho, hc2⟩ := ih r1 hok1
    refine ⟨r2, old :: outs, ?_, hok2, by omega, ?_, ?_⟩
    · simp [pushAll, hp, hp2]
    · rw [ho, hc, hc1]; simp
    · rw [hc2, hc, hc1]; simp

theorem take_add_append (l1 l2 : List α) (m : Nat) : (l1 ++ l2).take (l1.length + m) = l1 ++ l2.take m := by
  induction l1 with
  | nil => simp
  | cons y l1 ih => simp [Nat.succ_add, ih]

theorem drop_add_append (l1 l2 : List α) (m : Nat) : (l1 ++ l2).drop (l1.length + m) = l2.drop m := by
  induction l1 with
  | nil => simp
  | cons y l1 ih => simp [Nat.succ_add, ih]

end Dasp.Nodes
