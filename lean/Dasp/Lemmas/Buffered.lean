import Dasp.Model.Buffered
/-!
# Buffered: every operation delivers the next frames of `future` (helper lemmas for C14)

`future s i` is the `i`-th frame the buffered signal still owes in state `s`: the buffered
frames, then the source from its current position (equilibrium past its end).
`Delivers s out s'` says that going from `s` to `s'` handed out exactly the next
`out.length` frames of `future s`, left `future` shifted by that many, pulled the source in
whole buffers only, and lost nothing (delivered + still buffered = was buffered + pulled).
It is reflexive and transitive, every primitive of the model satisfies it, hence every
operation sequence does.
-/
namespace Dasp.Buffered
open Dasp.SrcQueue

variable {α : Type}

/-- the `i`-th frame still to be delivered in state `s` -/
def future (s : St α) (i : Nat) : α :=
  if i < s.q.length then s.q.getD i s.src.eq else s.src.at (s.src.pos + (i - s.q.length))

structure Delivers (s : St α) (out : List α) (s' : St α) : Prop where
  out_eq : out = (List.range out.length).map (future s)
  fut : ∀ i, future s' i = future s (i + out.length)
  cap_eq : s'.cap = s.cap
  frames_eq : s'.src.frames = s.src.frames
  eq_eq : s'.src.eq = s.src.eq
  mono : s.src.pos ≤ s'.src.pos
  bursts : ∃ k, s'.src.pos = s.src.pos + k * s.cap
  conserve : out.length + s'.q.length = s.q.length + (s'.src.pos - s.src.pos)

theorem Delivers.refl (s : St α) : Delivers s [] s :=
  ⟨rfl, fun _ => rfl, rfl, rfl, rfl, Nat.le_refl _, ⟨0, by simp⟩, by simp⟩

theorem Delivers.trans {s s' s'' : St α} {o1 o2 : List α}
    (h1 : Delivers s o1 s') (h2 : Delivers s' o2 s'') : Delivers s (o1 ++ o2) s'' := by
  refine ⟨?_, ?_, by rw [h2.cap_eq, h1.cap_eq], by rw [h2.frames_eq, h1.frames_eq],
    by rw [h2.eq_eq, h1.eq_eq], Nat.le_trans h1.mono h2.mono, ?_, ?_⟩
  · rw [List.length_append, List.range_add, List.map_append, List.map_map]
    conv => lhs; rw [h1.out_eq, h2.out_eq]
    congr 1
    apply List.map_congr_left
    intro i _
    show future s' i = future s (o1.length + i)
    rw [h1.fut, Nat.add_comm]
  · intro i
    rw [h2.fut, h1.fut, List.length_append]; congr 1; omega
  · obtain ⟨k1, hk1⟩ := h1.bursts
    obtain ⟨k2, hk2⟩ := h2.bursts
    exact ⟨k1 + k2, by rw [hk2, hk1, h1.cap_eq, Nat.add_mul, Nat.add_assoc]⟩
  · have c1 := h1.conserve; have c2 := h2.conserve
    have m1 := h1.mono; have m2 := h2.mono
    rw [List.length_append]; omega

/-! ### the primitives -/

theorem pop_delivers (s : St α) (x : α) (r : List α) (hq : s.q = x :: r) :
    Delivers s [x] { s with q := r } := by
  refine ⟨?_, ?_, rfl, rfl, rfl, Nat.le_refl _, ⟨0, by simp⟩, by simp [hq]; omega⟩
  · simp [future, hq, List.range_succ]
  · intro i
    show future { s with q := r } i = future s (i + 1)
    simp only [future, hq, List.length_cons]
    by_cases hi : i < r.length
    · rw [if_pos hi, if_pos (by omega)]; simp
    · rw [if_neg hi, if_neg (by omega)]; congr 2; omega

theorem pullPush_spec (s : St α) (h : s.q.length ≠ s.cap) :
    pullPush s = { src := { s.src with pos := s.src.pos + 1 }, q := s.q ++ [s.src.at s.src.pos], cap := s.cap } := by
  simp [pullPush, Src.next, push, h]

theorem fill_spec (n : Nat) : ∀ s : St α, s.q.length + n ≤ s.cap →
    fill n s = { src := { s.src with pos := s.src.pos + n },
                 q := s.q ++ (List.range' s.src.pos n).map s.src.at, cap := s.cap } := by
  induction n with
  | zero => intro s _; cases s; simp [fill]
  | succ n ih =>
    intro s h
    rw [fill, pullPush_spec s (by omega), ih _ (by simp; omega)]
    simp only [List.range'_succ, List.map_cons, List.append_assoc, List.singleton_append]
    congr 2
    omega

theorem refill_spec (s : St α) (hq : s.q = []) :
    refill s = { src := { s.src with pos := s.src.pos + s.cap },
                 q := (List.range' s.src.pos s.cap).map s.src.at, cap := s.cap } := by
  rw [refill, fill_spec s.cap s (by simp [hq]), hq]; simp

/-- found empty: exactly one buffer's worth is pulled, nothing is delivered, nothing changes
    about what is owed -/
theorem refill_delivers (s : St α) (hq : s.q = []) : Delivers s [] (refill s) := by
  rw [refill_spec s hq]
  refine ⟨rfl, ?_, rfl, rfl, rfl, Nat.le_add_right _ _, ⟨1, by simp⟩, by simp [hq]⟩
  intro i
  simp only [future, hq, List.length_map, List.length_range', List.length_nil, Nat.not_lt_zero,
    if_false, Nat.sub_zero, List.length_nil, Nat.add_zero]
  by_cases hi : i < s.cap
  · rw [if_pos hi]
    simp [List.getD_eq_getElem?_getD, hi, Src.at]
  · rw [if_neg hi]
    show s.src.frames.getD (s.src.pos + s.cap + (i - s.cap)) s.src.eq = s.src.frames.getD (s.src.pos + i) s.src.eq
    congr 1; omega

/-- after a refill with `cap ≥ 1` the pop in `Buffered::next`'s loop succeeds -/
theorem refill_nonempty (s : St α) (hq : s.q = []) (hc : 1 ≤ s.cap) : (refill s).q ≠ [] := by
  rw [refill_spec s hq]
  obtain ⟨k, hk⟩ : ∃ k, s.cap = k + 1 := ⟨s.cap - 1, by omega⟩
  simp [hk, List.range'_succ]

theorem next_cons (s : St α) (x : α) (r : List α) (hq : s.q = x :: r) :
    next s = (x, { s with q := r }) := by
  unfold next; simp only [hq]

theorem next_nil (s : St α) (x : α) (r : List α) (hq : s.q = []) (hq' : (refill s).q = x :: r) :
    next s = (x, { refill s with q := r }) := by
  unfold next; simp only [hq, hq']

theorem next_delivers (s : St α) (hc : 1 ≤ s.cap) : Delivers s [(next s).1] (next s).2 := by
  cases hq : s.q with
  | cons x r => rw [next_cons s x r hq]; exact pop_delivers s x r hq
  | nil =>
    have hne := refill_nonempty s hq hc
    cases hq' : (refill s).q with
    | nil => exact absurd hq' hne
    | cons x r =>
      rw [next_nil s x r hq hq']
      have h1 := refill_delivers s hq
      have h2 := pop_delivers (refill s) x r hq'
      simpa using h1.trans h2

/-- `Buffered::next` pulls exactly one buffer's worth when it finds the buffer empty, nothing otherwise -/
theorem next_pulls (s : St α) :
    (next s).2.src.pos = if s.q = [] then s.src.pos + s.cap else s.src.pos := by
  cases hq : s.q with
  | cons x r => rw [next_cons s x r hq]; simp
  | nil =>
    have hr := refill_spec s hq
    cases hq' : (refill s).q with
    | nil =>
      have : next s = (s.src.eq, refill s) := by unfold next; simp only [hq, hq']
      rw [this, hr]; simp
    | cons x r => rw [next_nil s x r hq hq', hr]; simp

theorem beginFrames_delivers (s : St α) : Delivers s [] (beginFrames s) := by
  unfold beginFrames
  by_cases h : s.q.length = 0
  · rw [if_pos h]; exact refill_delivers s (List.eq_nil_of_length_eq_zero h)
  · rw [if_neg h]; exact Delivers.refl s

/-- `next_frames()` pulls exactly one buffer's worth when it finds the buffer empty, nothing otherwise -/
theorem beginFrames_pulls (s : St α) :
    (beginFrames s).src.pos = if s.q = [] then s.src.pos + s.cap else s.src.pos := by
  unfold beginFrames
  by_cases h : s.q.length = 0
  · have hq := List.eq_nil_of_length_eq_zero h
    rw [if_pos h, if_pos hq, refill_spec s hq]
  · have hq : s.q ≠ [] := by intro h'; rw [h'] at h; simp at h
    rw [if_neg h, if_neg hq]

/-- the draining iterator: `k` steps yield the first `k` buffered frames, then `None`s; it never
    pulls the source and what it did not yield stays buffered -/
theorem iterN_spec (k : Nat) : ∀ s : St α,
    iterN k s = ((s.q.take k).map some ++ List.replicate (k - s.q.length) none, { s with q := s.q.drop k }) := by
  induction k with
  | zero => intro s; cases s; simp [iterN]
  | succ k ih =>
    intro s
    cases hq : s.q with
    | nil =>
      have h1 : iterNext s = (none, s) := by simp [iterNext, hq]
      rw [iterN, h1, ih s, hq]
      simp [List.replicate_succ]
    | cons x r =>
      have h1 : iterNext s = (some x, { s with q := r }) := by simp [iterNext, hq]
      rw [iterN, h1, ih]
      simp

theorem popN_delivers (k : Nat) : ∀ s : St α, Delivers s (s.q.take k) { s with q := s.q.drop k } := by
  induction k with
  | zero => intro s; cases s; exact Delivers.refl _
  | succ k ih =>
    intro s
    cases hq : s.q with
    | nil =>
      have : ({ s with q := [] } : St α) = s := by cases s; simp_all
      simp only [List.take_nil, List.drop_nil]; rw [this]; exact Delivers.refl s
    | cons x r =>
      have h1 := pop_delivers s x r hq
      have h2 := ih { s with q := r }
      simpa using h1.trans h2

theorem iterN_delivers (k : Nat) (s : St α) :
    Delivers s ((iterN k s).1.filterMap id) (iterN k s).2 := by
  rw [iterN_spec]
  have : ((s.q.take k).map some ++ List.replicate (k - s.q.length) none).filterMap id = s.q.take k := by
    rw [List.filterMap_append, List.filterMap_map]
    simp
  simp only [this]
  exact popN_delivers k s

theorem untilExhausted_delivers (fuel : Nat) : ∀ s : St α, 1 ≤ s.cap →
    Delivers s (untilExhausted fuel s).1 (untilExhausted fuel s).2 := by
  induction fuel with
  | zero => intro s _; exact Delivers.refl s
  | succ fuel ih =>
    intro s hc
    unfold untilExhausted
    by_cases he : isExhausted s = true
    · rw [if_pos he]; exact Delivers.refl s
    · rw [if_neg he]
      have h1 := next_delivers s hc
      have h2 := ih (next s).2 (by rw [h1.cap_eq]; exact hc)
      exact h1.trans h2

/-- the frames an operation's calls yielded -/
def yielded (out : List (Option α)) : List α := out.filterMap id

theorem exec_delivers (s : St α) (hc : 1 ≤ s.cap) (o : Op) :
    Delivers s (yielded (exec s o).1) (exec s o).2 := by
  cases o with
  | next => simpa [exec, yielded] using next_delivers s hc
  | frames k =>
    have h1 := beginFrames_delivers s
    have h2 := iterN_delivers k (beginFrames s)
    simpa [exec, yielded] using h1.trans h2
  | drain =>
    have h1 := beginFrames_delivers s
    have h2 := iterN_delivers (beginFrames s).q.length (beginFrames s)
    simpa [exec, yielded] using h1.trans h2
  | untilExhausted =>
    have h := untilExhausted_delivers (ueFuel s) s hc
    have : yielded ((untilExhausted (ueFuel s) s).1.map some) = (untilExhausted (ueFuel s) s).1 := by
      simp [yielded, List.filterMap_map]
    simpa [exec, this] using h
  | look => exact Delivers.refl s

/-- all frames yielded over a whole trace, in order -/
def delivered (t : List (Obs α)) : List α := t.flatMap fun o => yielded o.out

theorem trace_delivers (ops : List Op) : ∀ s : St α, 1 ≤ s.cap →
    Delivers s (delivered (trace s ops)) (run s ops) := by
  induction ops with
  | nil => intro s _; exact Delivers.refl s
  | cons o r ih =>
    intro s hc
    have h1 := exec_delivers s hc o
    have h2 := ih (exec s o).2 (by rw [h1.cap_eq]; exact hc)
    exact h1.trans h2

/-! ### exhaustion -/

theorem isExhausted_iff (s : St α) :
    isExhausted s = true ↔ s.q = [] ∧ s.src.frames.length ≤ s.src.pos := by
  simp [isExhausted, Src.isExhausted, List.length_eq_zero_iff]

/-- once exhaustion is reported, only equilibrium remains -/
theorem exhausted_future (s : St α) (h : isExhausted s = true) (i : Nat) : future s i = s.src.eq := by
  obtain ⟨hq, hn⟩ := (isExhausted_iff s).1 h
  simp only [future, hq, List.length_nil, Nat.not_lt_zero, if_false, Src.at]
  rw [List.getD_eq_getElem?_getD, List.getElem?_eq_none (by omega)]; rfl

/-- smallest multiple of `c` that is `≥ r` -/
def roundUp (r c : Nat) : Nat := if r = 0 then 0 else ((r - 1) / c + 1) * c

/-- frames `until_exhausted` will still yield: what is buffered plus the remaining source
    rounded up to whole buffers -/
def need (s : St α) : Nat := s.q.length + roundUp (s.src.frames.length - s.src.pos) s.cap

theorem need_zero_iff (s : St α) (hc : 1 ≤ s.cap) : need s = 0 ↔ isExhausted s = true := by
  rw [isExhausted_iff]
  unfold need roundUp
  constructor
  · intro h
    by_cases hr : s.src.frames.length - s.src.pos = 0
    · rw [if_pos hr] at h
      exact ⟨List.eq_nil_of_length_eq_zero (by omega), by omega⟩
    · rw [if_neg hr] at h
      have : 0 < ((s.src.frames.length - s.src.pos - 1) / s.cap + 1) * s.cap := Nat.mul_pos (Nat.succ_pos _) hc
      generalize ((s.src.frames.length - s.src.pos - 1) / s.cap + 1) * s.cap = P at h this
      omega
  · rintro ⟨hq, hn⟩
    rw [if_pos (by omega), hq]; rfl

theorem need_next (s : St α) (hc : 1 ≤ s.cap) (hne : ¬ isExhausted s = true) :
    need (next s).2 + 1 = need s := by
  cases hq : s.q with
  | cons x r => rw [next_cons s x r hq]; simp [need, hq]; omega
  | nil =>
    have hrem : s.src.frames.length - s.src.pos ≠ 0 := by
      intro h; apply hne; rw [isExhausted_iff]; exact ⟨hq, by omega⟩
    have hr := refill_spec s hq
    obtain ⟨k, hk⟩ : ∃ k, s.cap = k + 1 := ⟨s.cap - 1, by omega⟩
    cases hq' : (refill s).q with
    | nil => exact absurd hq' (refill_nonempty s hq hc)
    | cons x r =>
      have hlen : r.length = k := by
        have : (refill s).q.length = s.cap := by rw [hr]; simp
        rw [hq'] at this; simp at this; omega
      rw [next_nil s x r hq hq']
      have e1 : need ({ refill s with q := r } : St α) =
          k + roundUp (s.src.frames.length - (s.src.pos + s.cap)) s.cap := by
        simp only [need, hlen, hr]
      have e2 : need s = roundUp (s.src.frames.length - s.src.pos) s.cap := by
        simp [need, hq]
      rw [e1, e2]
      generalize hR : s.src.frames.length - s.src.pos = R at hrem
      have hR' : s.src.frames.length - (s.src.pos + s.cap) = R - s.cap := by omega
      rw [hR']
      unfold roundUp
      rw [if_neg hrem]
      by_cases hlt : R ≤ s.cap
      · have h0 : R - s.cap = 0 := by omega
        rw [if_pos h0, Nat.div_eq_of_lt (by omega)]; simp; omega
      · have h0 : R - s.cap ≠ 0 := by omega
        rw [if_neg h0]
        have hd : (R - 1) / s.cap = (R - s.cap - 1) / s.cap + 1 := by
          have : R - 1 = (R - s.cap - 1) + s.cap := by omega
          rw [this, Nat.add_div_right _ (by omega)]
        rw [hd, Nat.add_mul ((R - s.cap - 1) / s.cap + 1) 1 s.cap]
        generalize ((R - s.cap - 1) / s.cap + 1) * s.cap = P
        omega

/-- with enough fuel `until_exhausted` yields exactly `need s` frames and stops exhausted -/
theorem untilExhausted_count (fuel : Nat) : ∀ s : St α, 1 ≤ s.cap → need s ≤ fuel →
    (untilExhausted fuel s).1.length = need s ∧ isExhausted (untilExhausted fuel s).2 = true := by
  induction fuel with
  | zero =>
    intro s hc h
    have h0 : need s = 0 := by omega
    exact ⟨by simp [untilExhausted, h0], (need_zero_iff s hc).1 h0⟩
  | succ fuel ih =>
    intro s hc h
    unfold untilExhausted
    by_cases he : isExhausted s = true
    · rw [if_pos he]; exact ⟨by simp [(need_zero_iff s hc).2 he], he⟩
    · rw [if_neg he]
      have hn := need_next s hc he
      have hcap : (next s).2.cap = s.cap := (next_delivers s hc).cap_eq
      obtain ⟨h1, h2⟩ := ih (next s).2 (by rw [hcap]; exact hc) (by omega)
      exact ⟨by simp [h1]; omega, h2⟩

theorem roundUp_props (r c : Nat) (hc : 1 ≤ c) :
    r ≤ roundUp r c ∧ roundUp r c < r + c ∧ c ∣ roundUp r c := by
  unfold roundUp
  by_cases h : r = 0
  · rw [if_pos h]; exact ⟨by omega, by omega, Nat.dvd_zero c⟩
  · rw [if_neg h]
    have hdm := Nat.div_add_mod (r - 1) c
    have hm := Nat.mod_lt (r - 1) (by omega : c > 0)
    have e : ((r - 1) / c + 1) * c = c * ((r - 1) / c) + c := by
      rw [Nat.add_mul, Nat.one_mul, Nat.mul_comm]
    refine ⟨by omega, by omega, ⟨(r - 1) / c + 1, by rw [Nat.mul_comm]⟩⟩

theorem ueFuel_enough (s : St α) (hc : 1 ≤ s.cap) : need s ≤ ueFuel s := by
  have := (roundUp_props (s.src.frames.length - s.src.pos) s.cap hc).2.1
  unfold need ueFuel; omega

/-- the padding is determined by "fewer than one buffer" and "whole buffers": it is
    `(cap - r % cap) % cap` -/
theorem pad_formula (r c p : Nat) (hc : 1 ≤ c) (hp : p < c) (hd : c ∣ r + p) : p = (c - r % c) % c := by
  have hm := Nat.mod_lt r (by omega : c > 0)
  have h0 : (r % c + p) % c = 0 := by
    have := Nat.mod_eq_zero_of_dvd hd
    rwa [Nat.add_mod, Nat.mod_eq_of_lt hp] at this
  by_cases hlt : r % c + p < c
  · rw [Nat.mod_eq_of_lt hlt] at h0
    have hr : r % c = 0 := by omega
    have hp0 : p = 0 := by omega
    rw [hr, hp0]; simp
  · have : (r % c + p) % c = r % c + p - c := by
      rw [Nat.mod_eq_sub_mod (by omega), Nat.mod_eq_of_lt (by omega)]
    rw [this] at h0
    have : c - r % c = p := by omega
    rw [this, Nat.mod_eq_of_lt hp]

/-! ### `future` of a freshly built buffered signal in list form -/

theorem future_init (src : Src α) (prefill : List α) (cap : Nat) (h0 : src.pos = 0) (i : Nat) :
    future (init src prefill cap) i = (prefill ++ src.frames).getD i src.eq := by
  simp only [future, init, h0, Nat.zero_add, Src.at]
  by_cases hi : i < prefill.length
  · rw [if_pos hi]; simp [List.getD_eq_getElem?_getD, List.getElem?_append_left hi]
  · rw [if_neg hi]; simp [List.getD_eq_getElem?_getD, List.getElem?_append_right (Nat.le_of_not_lt hi)]

theorem map_getD_range (l : List α) (d : α) (pad : Nat) :
    (List.range (l.length + pad)).map (fun i => l.getD i d) = l ++ List.replicate pad d := by
  apply List.ext_getElem
  · simp
  · intro i h1 h2
    simp only [List.getElem_map, List.getElem_range]
    by_cases hi : i < l.length
    · rw [List.getElem_append_left hi]; simp [List.getD_eq_getElem?_getD, hi]
    · rw [List.getElem_append_right (by omega)]
      simp [List.getD_eq_getElem?_getD, List.getElem?_eq_none (Nat.le_of_not_lt hi)]

end Dasp.Buffered
