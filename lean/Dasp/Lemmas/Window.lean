import Dasp.Model.Window
import Mathlib.Algebra.Order.Floor.Ring
import Mathlib.Data.Rat.Floor
import Mathlib.Tactic.Linarith
import Mathlib.Tactic.Ring
import Mathlib.Tactic.FieldSimp
/-! Helper lemmas for C20: the windower schedule (adapted from the round-0 prototype
    `Proto/Windower.lean`, now over the actual remaining slice instead of an (offset, length) pair)
    and the exact-arithmetic phase recurrence of `Window`. -/
namespace Dasp.Window

variable {α : Type}

/-- the number of chunks a windower over `len` remaining frames still yields (for bin, hop ≥ 1) -/
def count (bin hop len : Nat) : Nat := if bin ≤ len then (len - bin) / hop + 1 else 0

theorem next_cases (w : Windower α) :
    (w.frames.length < w.bin ∧ next w = none) ∨
    (w.bin ≤ w.frames.length ∧ w.hop < w.frames.length ∧
      next w = some (w.frames.take w.bin, ⟨w.bin, w.hop, w.frames.drop w.hop⟩)) ∨
    (w.bin ≤ w.frames.length ∧ w.frames.length ≤ w.hop ∧
      next w = some (w.frames.take w.bin, ⟨w.bin, w.hop, []⟩)) := by
  unfold next
  by_cases h1 : w.bin ≤ w.frames.length
  · by_cases h2 : w.hop < w.frames.length
    · right; left; simp [h1, h2]
    · right; right; simp [h1, h2]; omega
  · left; simp [h1]; omega

theorem chunksFuel_spec (fuel : Nat) (w : Windower α) (hh : 1 ≤ w.hop) (hb : 1 ≤ w.bin)
    (hf : w.frames.length < fuel) :
    chunksFuel fuel w =
      (List.range (count w.bin w.hop w.frames.length)).map (fun k => (w.frames.drop (k * w.hop)).take w.bin) := by
  induction fuel generalizing w with
  | zero => omega
  | succ fuel ih =>
    rcases next_cases w with ⟨h1, hn⟩ | ⟨h1, h2, hn⟩ | ⟨h1, h2, hn⟩
    · simp [chunksFuel, hn, count, show ¬ w.bin ≤ w.frames.length by omega]
    · simp only [chunksFuel, hn]
      rw [ih ⟨w.bin, w.hop, w.frames.drop w.hop⟩ hh hb (by simp; omega)]
      simp only [count, h1, if_true, List.length_drop]
      by_cases h3 : w.bin ≤ w.frames.length - w.hop
      · have hdiv : (w.frames.length - w.bin) / w.hop = (w.frames.length - w.hop - w.bin) / w.hop + 1 := by
          have : w.frames.length - w.bin = (w.frames.length - w.hop - w.bin) + w.hop := by omega
          rw [this, Nat.add_div_right _ (by omega)]
        simp only [h3, if_true, hdiv]
        rw [List.range_succ_eq_map (n := (w.frames.length - w.hop - w.bin) / w.hop + 1)]
        simp only [List.map_cons, List.map_map, Nat.zero_mul, List.drop_zero]
        congr 1
        apply List.map_congr_left; intro k _
        simp only [Function.comp, List.drop_drop]
        congr 2; rw [Nat.succ_mul]; omega
      · have hdiv : (w.frames.length - w.bin) / w.hop = 0 := by apply Nat.div_eq_of_lt; omega
        simp [h3, hdiv]
    · simp only [chunksFuel, hn]
      rw [ih ⟨w.bin, w.hop, []⟩ hh hb (by simp; omega)]
      have hdiv : (w.frames.length - w.bin) / w.hop = 0 := by apply Nat.div_eq_of_lt; omega
      simp [count, h1, hdiv, show ¬ w.bin ≤ 0 by omega]

theorem count_mul_le {bin hop len k : Nat} (hk : k < count bin hop len) :
    k * hop + bin ≤ len := by
  unfold count at hk
  split at hk
  · have h1 : k ≤ (len - bin) / hop := by omega
    have h2 : k * hop ≤ (len - bin) / hop * hop := Nat.mul_le_mul_right _ h1
    have h3 := Nat.div_mul_le_self (len - bin) hop
    omega
  · omega

theorem iterate_chunks (cap : Nat) (w : Windower α) :
    (iterate cap w).filterMap (·.2) = chunksFuel cap w := by
  induction cap generalizing w with
  | zero => rfl
  | succ cap ih =>
    simp only [iterate, chunksFuel]
    cases h : next w with
    | none => simp
    | some r => obtain ⟨c, w'⟩ := r; simp [ih]

/-! ### exact arithmetic: the phase recurrence -/

@[simp] theorem rat_zero (t : Rat) (c : Rat → Rat) : (ratArith t c).zero = 0 := rfl
@[simp] theorem rat_one (t : Rat) (c : Rat → Rat) : (ratArith t c).one = 1 := rfl
@[simp] theorem rat_half (t : Rat) (c : Rat → Rat) : (ratArith t c).half = 1 / 2 := rfl
@[simp] theorem rat_twoPi (t : Rat) (c : Rat → Rat) : (ratArith t c).twoPi = t := rfl
@[simp] theorem rat_cos (t : Rat) (c : Rat → Rat) : (ratArith t c).cos = c := rfl
@[simp] theorem rat_ofNat (t : Rat) (c : Rat → Rat) (n : Nat) : (ratArith t c).ofNat n = (n : Rat) := rfl
@[simp] theorem rat_add (t : Rat) (c : Rat → Rat) (a b : Rat) : (ratArith t c).add a b = a + b := rfl
@[simp] theorem rat_sub (t : Rat) (c : Rat → Rat) (a b : Rat) : (ratArith t c).sub a b = a - b := rfl
@[simp] theorem rat_mul (t : Rat) (c : Rat → Rat) (a b : Rat) : (ratArith t c).mul a b = a * b := rfl
@[simp] theorem rat_div (t : Rat) (c : Rat → Rat) (a b : Rat) : (ratArith t c).div a b = a / b := rfl
@[simp] theorem rat_wrap1 (t : Rat) (c : Rat → Rat) (a : Rat) : (ratArith t c).wrap1 a = a - (a.floor : Rat) := rfl

/-- one wrapped step of `1/d` from `m/d` (`m < d`) lands on `((m+1) mod d)/d` -/
theorem wrap_step (d m : Nat) (hd : 1 ≤ d) (hm : m < d) :
    ((m : Rat) / d + 1 / d) - (((m : Rat) / d + 1 / d).floor : Rat) = (((m + 1) % d : Nat) : Rat) / d := by
  have hd0 : (0 : Rat) < d := by exact_mod_cast hd
  have hx : (m : Rat) / d + 1 / d = ((m + 1 : Nat) : Rat) / d := by push_cast; ring
  rw [hx]
  by_cases h : m + 1 < d
  · have hfl : (((m + 1 : Nat) : Rat) / d).floor = 0 := by
      show ⌊((m + 1 : Nat) : Rat) / d⌋ = 0
      rw [Int.floor_eq_iff]
      constructor
      · simp only [Int.cast_zero]; positivity
      · simp only [Int.cast_zero, zero_add]
        rw [div_lt_one hd0]; exact_mod_cast h
    rw [hfl, Nat.mod_eq_of_lt h]; simp
  · have e : m + 1 = d := by omega
    have hfl : (((m + 1 : Nat) : Rat) / d).floor = 1 := by
      show ⌊((m + 1 : Nat) : Rat) / d⌋ = 1
      rw [e, div_self (ne_of_gt hd0)]; simp
    rw [hfl, e, Nat.mod_self, div_self (ne_of_gt hd0)]; simp

theorem phasesFrom_rat (t : Rat) (c : Rat → Rat) (d : Nat) (hd : 1 ≤ d) (cnt : Nat) :
    ∀ m, m < d →
    phasesFrom (ratArith t c) cnt ⟨1 / (d : Rat), (m : Rat) / d⟩ =
      (List.range cnt).map (fun i => (((m + i) % d : Nat) : Rat) / d) := by
  induction cnt with
  | zero => intro m _; rfl
  | succ cnt ih =>
    intro m hm
    simp only [phasesFrom, nextPhase, rat_add, rat_wrap1]
    rw [wrap_step d m hd hm, ih ((m + 1) % d) (Nat.mod_lt _ (by omega))]
    rw [List.range_succ_eq_map]
    simp only [List.map_cons, List.map_map, Nat.add_zero, Nat.mod_eq_of_lt hm]
    congr 1
    apply List.map_congr_left; intro i _
    simp only [Function.comp]
    congr 2
    rw [Nat.add_mod, Nat.mod_mod, ← Nat.add_mod]
    congr 1; omega

end Dasp.Window
