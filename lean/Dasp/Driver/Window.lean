import Dasp.Model.Window
/-! Driver streams for C20 — executes the definitions of `Dasp/Model/Window.lean` at the native-`Float`
    instance `floatArith` (window values; see the model header: bit-exactness with Rust's f64 incl.
    libm `cos` is measured by this very comparison) and the exact list code of `Windower`.
    Sample arithmetic (`mul_amp`, f64→f32, i16↔f32) is NOT part of the C20 model; the driver supplies it
    natively (`Float32`/`Int16` of the Lean runtime = the CPU's IEEE operations).

    `fn <hann|rect> <f64|f32> <phase bits>…`        → `W::window(phase)` per phase (bits of the same type)
    `win <hann|rect> <len> <count>`                → `<phase bits>:<value bits>` for the first `count` items of `Window::new(len)`
    `wdr <i16|f32|f64> <hann|rect> <channels> <bin> <hop> <cap> <L> <L*channels samples>`
          → for each `next()` (at most `cap`): `H<lo>:<hi|inf>` (size_hint before it) then
            `C<first bin frames, channels flattened, comma separated>` or `N` for `None`.
    floats are hex bit patterns, i16 decimal. -/
namespace Dasp.Driver.Win
open Dasp.Window

def hexDigit (c : Char) : Option Nat :=
  if '0' ≤ c ∧ c ≤ '9' then some (c.toNat - '0'.toNat)
  else if 'a' ≤ c ∧ c ≤ 'f' then some (c.toNat - 'a'.toNat + 10)
  else none

def parseHex (s : String) (digits : Nat) : Option Nat :=
  if s.length ≠ digits then none
  else s.toList.foldl (fun acc c => match acc, hexDigit c with
    | some a, some d => some (a * 16 + d)
    | _, _ => none) (some 0)

def hexChar (d : Nat) : Char := if d < 10 then Char.ofNat (48 + d) else Char.ofNat (87 + d)

def toHex (digits : Nat) (n : Nat) : String :=
  String.ofList ((List.range digits).reverse.map fun i => hexChar ((n / 16 ^ i) % 16))

def showF64 (x : Float) : String := toHex 16 x.toBits.toNat
def showF32 (x : Float32) : String := toHex 8 x.toBits.toNat
def parseF64 (s : String) : Option Float := (parseHex s 16).map fun n => Float.ofBits n.toUInt64
def parseF32 (s : String) : Option Float32 := (parseHex s 8).map fun n => Float32.ofBits n.toUInt32
def parseI16 (s : String) : Option Int16 :=
  match s.toInt? with
  | some v => if -32768 ≤ v ∧ v ≤ 32767 then some (Int16.ofInt v) else none
  | none => none

def parseKind : String → Option Kind
  | "hann" => some .hann
  | "rect" => some .rectangle
  | _ => none

def parseAll {β : Type} (f : String → Option β) : List String → Option (List β)
  | [] => some []
  | t :: ts => match f t, parseAll f ts with
    | some x, some xs => some (x :: xs)
    | _, _ => none

/-- `W::window` at S = f32 (hann/mod.rs:25-29): f32 → f64 exactly, f64 result rounded to f32 -/
def window32 (k : Kind) (p : Float32) : Float32 := (window floatArith k p.toFloat).toFloat32

def fnLine : List String → String
  | k :: ty :: ps =>
    match parseKind k, ty with
    | some kind, "f64" => match parseAll parseF64 ps with
      | some xs => " ".intercalate (xs.map fun p => showF64 (window floatArith kind p))
      | none => "bad-op"
    | some kind, "f32" => match parseAll parseF32 ps with
      | some xs => " ".intercalate (xs.map fun p => showF32 (window32 kind p))
      | none => "bad-op"
    | _, _ => "bad-op"
  | _ => "bad-op"

def winLine : List String → String
  | [k, len, count] =>
    match parseKind k, len.toNat?, count.toNat? with
    | some kind, some n, some c =>
      let ps := windowPhases floatArith n c
      " ".intercalate (ps.map fun p => s!"{showF64 p}:{showF64 (window floatArith kind p)}")
    | _, _, _ => "bad-op"
  | _ => "bad-op"

def groups {β : Type} (ch : Nat) : Nat → List β → List (List β)
  | 0, _ => []
  | n + 1, l => l.take ch :: groups ch n (l.drop ch)

def showHint (h : Nat × Option Nat) : String :=
  match h.2 with
  | some u => s!"H{h.1}:{u}"
  | none => s!"H{h.1}:inf"

def runWdr {S Amp : Type} (parse : String → Option S) (shw : S → String)
    (toAmp : Float → Amp) (mulAmp : S → Amp → S)
    (kind : Kind) (ch bin hop cap L : Nat) (rebin : Option (Nat × Nat × Nat)) (vals : List String) : String :=
  if ch = 0 ∨ vals.length ≠ L * ch then "bad-op" else
  match parseAll parse vals with
  | none => "bad-op"
  | some xs =>
    let w : Windower (List S) := ⟨bin, hop, groups ch L xs⟩
    let obs := match rebin with
      | none => iterate cap w
      | some (k, b2, h2) => iterateRebin cap k b2 h2 w
    -- the number of frames left in the public `frames` slice after every chunk
    let left := (match rebin with
      | none => trail cap w
      | some (k, b2, h2) => trailRebin cap k b2 h2 w).map fun (s : Windower (List S)) => s.frames.length
    " ".intercalate ((List.zip obs (left.map some ++ List.replicate obs.length none)).map fun (o, l) =>
      match o.2 with
      | none => s!"{showHint o.1} N"
      | some chunk =>
        let out := windowed floatArith kind toAmp mulAmp chunk
        s!"{showHint o.1} C{",".intercalate (out.flatten.map shw)} R{l.getD 0}")

/-- `Sample::mul_amp` for i16 (dasp_sample lib.rs:236-239 with conv.rs `i16::to_f32`, `f32::to_i16`) -/
def mulAmpI16 (s : Int16) (a : Float32) : Int16 :=
  (((s.toFloat32 / 32768.0) * a) * 32768.0).toInt16

/-- `<bin>` or `<bin>@<k>:<bin2>:<hop2>` (the public fields reassigned after `k` chunks) -/
def parseBin (t : String) : Option (Nat × Option (Nat × Nat × Nat)) :=
  match t.splitOn "@" with
  | [b] => b.toNat?.map fun b => (b, none)
  | [b, r] => match b.toNat?, (r.splitOn ":").mapM String.toNat? with
    | some b, some [k, b2, h2] => some (b, some (k, b2, h2))
    | _, _ => none
  | _ => none

def wdrLine : List String → String
  | fmt :: k :: ch :: bin :: hop :: cap :: len :: vals =>
    match parseKind k, ch.toNat?, parseBin bin, hop.toNat?, cap.toNat?, len.toNat? with
    | some kind, some ch, some (bin, rebin), some hop, some cap, some L =>
      match fmt with
      | "i16" => runWdr parseI16 (fun (v : Int16) => toString v.toInt) Float.toFloat32 mulAmpI16 kind ch bin hop cap L rebin vals
      | "f32" => runWdr parseF32 showF32 Float.toFloat32 (fun (s a : Float32) => s * a) kind ch bin hop cap L rebin vals
      | "f64" => runWdr parseF64 showF64 id (fun (s a : Float) => s * a) kind ch bin hop cap L rebin vals
      | _ => "bad-op"
    | _, _, _, _, _, _ => "bad-op"
  | _ => "bad-op"

end Dasp.Driver.Win
