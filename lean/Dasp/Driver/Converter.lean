import Dasp.Model.Converter
/-! Driver stream `conv` (C08): executes the definitions of `Dasp/Model/Converter.lean` — the ones the
    theorems of `Dasp/Props/C08.lean` are about — at the native-`Float` instance `floatArith`.
    Core Lean only.

    request  `conv <floor|linear> <f64|i16|i32|u32|i64> <channels> <ctor> <L> <L*channels samples> <op>…`
      the source holds the L frames, then equilibrium; the interpolator is primed the way the crate's
      examples do it: `Floor::new(source.next())`, `Linear::new(source.next(), source.next())`.
      `<ctor>`: `p<scale>` scale_playback_hz | `s<scale>` scale_sample_hz | `h<src>:<dst>` from_hz_to_hz
                | `m` (`Signal::mul_hz`: scale_playback_hz(1.0))
      `<op>`:   `o` one output | `m<mul>` one `MulHz` output (set ratio, then output)
                | `p<scale>` set_playback_hz_scale | `s<scale>` set_sample_hz_scale | `h<src>:<dst>` set_hz_to_hz
                | `u<cap>` `until_exhausted().count()` over at most cap outputs
    reply    `panic` when the constructor's assertion fails; otherwise one token per op:
             `<is_exhausted before 0|1>/<frame channels, comma separated>/<source pulls so far>` for an output
             (`diverge` when the advance loop ran out of fuel), `-` for a setter, `c<count>/<source pulls so far>` for `u`.
    f64 values are 16-digit hex bit patterns, integer samples decimal. -/
namespace Dasp.Driver.Cv
open Dasp.Conv

def hexDigit (c : Char) : Option Nat :=
  if '0' ≤ c ∧ c ≤ '9' then some (c.toNat - '0'.toNat)
  else if 'a' ≤ c ∧ c ≤ 'f' then some (c.toNat - 'a'.toNat + 10)
  else none

def parseHex (s : String) (digits : Nat) : Option Nat :=
  if s.length ≠ digits then none
  else s.toList.foldl (fun acc c => match acc, hexDigit c with
    | some a, some d => some (a * 16 + d)
    | _, _ => none) (some 0)

def hexChar (d : Nat) : Char := if d < 10 then Char.ofNat (48 + d) else Char.ofNat (87 + d)

def toHex (digits : Nat) (n : Nat) : String :=
  String.ofList ((List.range digits).reverse.map fun i => hexChar ((n / 16 ^ i) % 16))

def showF64 (x : Float) : String := toHex 16 x.toBits.toNat
def parseF64 (s : String) : Option Float := (parseHex s 16).map fun n => Float.ofBits n.toUInt64
def parseIntIn (lo hi : Int) (s : String) : Option Int :=
  match s.toInt? with
  | some v => if lo ≤ v ∧ v ≤ hi then some v else none
  | none => none
def parseI16 : String → Option Int := parseIntIn (-32768) 32767
def parseI32 : String → Option Int := parseIntIn (-2147483648) 2147483647
def parseU32 : String → Option Int := parseIntIn 0 4294967295
def parseI64 : String → Option Int := parseIntIn (-9223372036854775808) 9223372036854775807

def parseAll {β : Type} (f : String → Option β) : List String → Option (List β)
  | [] => some []
  | t :: ts => match f t, parseAll f ts with
    | some x, some xs => some (x :: xs)
    | _, _ => none

/-- split a flat sample list into frames of `ch` channels -/
def chunk {β : Type} (ch : Nat) : Nat → List β → List (List β)
  | 0, _ => []
  | n + 1, xs => xs.take ch :: chunk ch n (xs.drop ch)

/-- `a:b` -/
def parsePair (s : String) : Option (Float × Float) :=
  match s.splitOn ":" with
  | [a, b] => match parseF64 a, parseF64 b with
    | some x, some y => some (x, y)
    | _, _ => none
  | _ => none

inductive Op where
  | out
  | mul (m : Float)
  | setP (s : Float)
  | setS (s : Float)
  | setH (a b : Float)
  | until (cap : Nat)
  | src

def parseOp (t : String) : Option Op :=
  match t.toList with
  | ['o'] => some .out
  | ['z'] => some .src
  | 'm' :: r => (parseF64 (String.ofList r)).map .mul
  | 'p' :: r => (parseF64 (String.ofList r)).map .setP
  | 's' :: r => (parseF64 (String.ofList r)).map .setS
  | 'h' :: r => (parsePair (String.ofList r)).map fun p => .setH p.1 p.2
  | 'u' :: r => (String.ofList r).toNat?.map .until
  | _ => none

section
variable {S I : Type}

def showObs (showS : S → String) (o : Obs S) : String :=
  if o.diverged then "diverge"
  else s!"{if o.exhBefore then 1 else 0}/{",".intercalate (o.frame.map showS)}/{o.pulls}"

def runOps (ip : Interp Float S I) (eq : List S) (showS : S → String) :
    List Op → St Float S I → List String
  | [], _ => []
  | .out :: ops, c =>
    let r := stepObs floatArith ip eq c
    showObs showS r.1 :: runOps ip eq showS ops r.2
  | .mul m :: ops, c =>
    let r := stepObs floatArith ip eq (setPlaybackHzScale c m)
    showObs showS r.1 :: runOps ip eq showS ops r.2
  | .setP s :: ops, c => let c' := setPlaybackHzScale c s; s!"-/{c'.src.pos}" :: runOps ip eq showS ops c'
  | .setS s :: ops, c => let c' := setSampleHzScale floatArith c s; s!"-/{c'.src.pos}" :: runOps ip eq showS ops c'
  | .setH a b :: ops, c => let c' := setHzToHz floatArith c a b; s!"-/{c'.src.pos}" :: runOps ip eq showS ops c'
  | .until cap :: ops, c =>
    let n := countUntil floatArith ip eq cap c
    let c' := iter floatArith ip eq n c
    s!"c{n}/{c'.src.pos}" :: runOps ip eq showS ops c'
  | .src :: _, c =>
    -- `into_source()`: the source handed back continues right after the frames pulled so far
    let a := c.src.next eq
    let b := a.2.next eq
    [s!"z{",".intercalate (a.1.map showS)};{",".intercalate (b.1.map showS)}/{b.2.pos}"]

def construct (ctor : String) (src : Src S) (ist : I) : Option (Option (St Float S I)) :=
  match ctor.toList with
  | ['m'] => some (scalePlaybackHz floatArith src ist 1.0)
  | 'p' :: r => (parseF64 (String.ofList r)).map fun s => scalePlaybackHz floatArith src ist s
  | 's' :: r => (parseF64 (String.ofList r)).map fun s => scaleSampleHz floatArith src ist s
  | 'h' :: r => (parsePair (String.ofList r)).map fun p => fromHzToHz floatArith src ist p.1 p.2
  | _ => none

def go (ip : Interp Float S I) (eq : List S) (showS : S → String) (ctor : String)
    (src : Src S) (ist : I) (ops : List Op) : String :=
  match construct ctor src ist with
  | none => "bad-op"
  | some none => "panic"
  | some (some c) => " ".intercalate (runOps ip eq showS ops c)

/-- prime and run, for a sample type given by its codec, equilibrium and printer -/
def withFormat (C : Codec Float S) (eqS : S) (showS : S → String) (kind : String) (ch : Nat)
    (ctor : String) (frames : List (List S)) (ops : List Op) : String :=
  let eq := List.replicate ch eqS
  let s0 : Src S := ⟨frames, 0⟩
  match kind with
  | "floor" =>
    let a := s0.next eq
    go (floorInterp Float S) eq showS ctor a.2 a.1 ops
  | "linear" =>
    let a := s0.next eq
    let b := a.2.next eq
    go (linearInterp floatArith C) eq showS ctor b.2 (a.1, b.1) ops
  | _ => "bad-op"

end

def convLine : List String → String
  | kind :: fmt :: chs :: ctor :: ls :: rest =>
    match chs.toNat?, ls.toNat? with
    | some ch, some l =>
      if ch = 0 ∨ ch > 8 ∨ rest.length < l * ch then "bad-op"
      else
        let samp := rest.take (l * ch)
        match parseAll parseOp (rest.drop (l * ch)) with
        | none => "bad-op"
        | some ops =>
          match fmt with
          | "f64" => match parseAll parseF64 samp with
            | some xs => withFormat (idCodec Float) 0.0 showF64 kind ch ctor (chunk ch l xs) ops
            | none => "bad-op"
          | "i16" => match parseAll parseI16 samp with
            | some xs => withFormat i16CodecFloat (0 : Int) toString kind ch ctor (chunk ch l xs) ops
            | none => "bad-op"
          | "i32" => match parseAll parseI32 samp with
            | some xs => withFormat i32CodecFloat (0 : Int) toString kind ch ctor (chunk ch l xs) ops
            | none => "bad-op"
          | "u32" => match parseAll parseU32 samp with
            | some xs => withFormat u32CodecFloat (2147483648 : Int) toString kind ch ctor (chunk ch l xs) ops
            | none => "bad-op"
          | "i64" => match parseAll parseI64 samp with
            | some xs => withFormat i64CodecFloat (0 : Int) toString kind ch ctor (chunk ch l xs) ops
            | none => "bad-op"
          | _ => "bad-op"
    | _, _ => "bad-op"
  | _ => "bad-op"

end Dasp.Driver.Cv
