import Dasp.Driver.Loop
import Dasp.Model.Rms
import Dasp.Model.SqrtTrick
/-! Driver streams of C11: `rms`, `sig` (the signal adaptor), `sqrt` — the definitions of
    `Model/Rms.lean` / `Model/SqrtTrick.lean` instantiated at the native `Float32` / `Float`.
    Floats travel as decimal bit patterns; every NaN is printed `nan`. Core Lean only. -/
namespace Dasp.Driver
open Dasp Dasp.Rms

/-- how one float format is read and printed -/
structure FloatIO (α : Type) where
  parse : String → Option α
  print : α → String
  sqrtStd : α → α
  sqrtNoStd : α → α

def io32 : FloatIO Float32 where
  parse s := match s.toNat? with
    | some b => if b < 4294967296 then some (Float32.ofBits b.toUInt32) else none
    | none => none
  print x := if x.isNaN then "nan" else toString x.toBits.toNat
  sqrtStd := Float32.sqrt
  sqrtNoStd := SqrtTrick.sqrtNoStd32

def io64 : FloatIO Float where
  parse s := match s.toNat? with
    | some b => if b < 18446744073709551616 then some (Float.ofBits b.toUInt64) else none
    | none => none
  print x := if x.isNaN then "nan" else toString x.toBits.toNat
  sqrtStd := Float.sqrt
  sqrtNoStd := SqrtTrick.sqrtNoStd64

def parseFrame {α : Type} (io : FloatIO α) (ch : Nat) (s : String) : Option (List α) :=
  let parts := s.splitOn ","
  if parts.length ≠ ch then none else parts.mapM io.parse

def printFrame {α : Type} (io : FloatIO α) (f : List α) : String := ",".intercalate (f.map io.print)

def parseOp {α : Type} (io : FloatIO α) (ch : Nat) (t : String) : Option (Op α) :=
  if t = "r" then some .reset
  else if t = "c" then some .current
  else if t = "w" then some .windowFrames
  else if t = "p" then some .parts
  else if t.startsWith "n:" then (parseFrame io ch (t.drop 2).toString).map .next
  else if t.startsWith "q:" then (parseFrame io ch (t.drop 2).toString).map .nextSquared
  else none

def printObs {α : Type} (io : FloatIO α) : Obs α → String
  | .frame f => printFrame io f
  | .unit => "-"
  | .len n => "w" ++ toString n
  | .parts w s => "P" ++ ";".intercalate (w.map (printFrame io)) ++ "|" ++ printFrame io s

def sqrtOf {α : Type} (io : FloatIO α) : String → Option (α → α)
  | "std" => some io.sqrtStd
  | "nostd" => some io.sqrtNoStd
  | _ => none

/-- `rms <mode> <ch> <N> op…` in one format -/
def rmsWith {α : Type} [Arith α] (io : FloatIO α) (args : List String) : String :=
  match args with
  | mode :: ch :: n :: ops =>
    match sqrtOf io mode, ch.toNat?, n.toNat? with
    | some sq, some ch, some n =>
      if ch = 0 ∨ n = 0 then "bad-op" else
      match ops.mapM (parseOp io ch) with
      | none => "bad-op"
      | some ops => " ".intercalate (((Rms.init ch n : Rms α).run sq ops).2.map (printObs io))
    | _, _, _ => "bad-op"
  | _ => "bad-op"

/-- `rms <f32|f64> <std|nostd> <ch> <N> op…` -/
def rmsLine : List String → String
  | "f32" :: rest => rmsWith io32 rest
  | "f64" :: rest => rmsWith io64 rest
  | _ => "bad-op"

/-- `k` calls of `next_squared` on the adaptor -/
def takeSquared {α : Type} [Arith α] : Nat → Adaptor α → List (List α)
  | 0, _ => []
  | k + 1, a => let (a', o) := a.nextSquared; o :: takeSquared k a'

/-- `sig <mode> <n|q> <ch> <N> <k> frame…`: `k` outputs of `from_iter(frames).rms(ring)`, then the pull count -/
def sigWith {α : Type} [Arith α] (io : FloatIO α) (args : List String) : String :=
  match args with
  | mode :: kind :: ch :: n :: k :: frames =>
    match sqrtOf io mode, ch.toNat?, n.toNat?, k.toNat? with
    | some sq, some ch, some n, some k =>
      if ch = 0 ∨ n = 0 then "bad-op" else
      match frames.mapM (parseFrame io ch) with
      | none => "bad-op"
      | some fs =>
        let a : Adaptor α := ⟨fs, ch, Rms.init ch n, 0⟩
        if kind = "n" then
          let (a', os) := Adaptor.take sq k a
          " ".intercalate (os.map (printFrame io) ++ ["p" ++ toString a'.pulls])
        else if kind = "q" then
          " ".intercalate ((takeSquared k a).map (printFrame io) ++ ["p" ++ toString k])
        else "bad-op"
    | _, _, _, _ => "bad-op"
  | _ => "bad-op"

def sigLine : List String → String
  | "f32" :: rest => sigWith io32 rest
  | "f64" :: rest => sigWith io64 rest
  | _ => "bad-op"

/-- `sqrt <f32|f64> <std|nostd> bits…` -/
def sqrtLine : List String → String
  | "f32" :: mode :: vs =>
    match sqrtOf io32 mode with
    | some sq => " ".intercalate (vs.map fun t => match io32.parse t with | some x => io32.print (sq x) | none => "bad-bits")
    | none => "bad-op"
  | "f64" :: mode :: vs =>
    match sqrtOf io64 mode with
    | some sq => " ".intercalate (vs.map fun t => match io64.parse t with | some x => io64.print (sq x) | none => "bad-bits")
    | none => "bad-op"
  | _ => "bad-op"

end Dasp.Driver
