import Dasp.Model.Fork
/-! Driver stream `fork`: executes `Dasp.Fork.trace` (the definitions `Props/C12.lean` is about)
    on integer-valued frames. Core Lean only.

    `fork <cap> <n> <v_1 … v_n> <ops>` — source = the `n` frames then equilibrium (0) forever;
    `ops` is one token over `A` (branch A `next`), `B`, `r` (drop handles, `by_ref` again),
    `c` (drop handles, `by_rc`), `a` / `b` (drop the handle of branch A / B only; a later split
    hands out both again).  Reply: one `<frame|->:<pending_A|->:<pending_B|->:<pulls>` per op;
    `pending_frames` of a dropped handle cannot be observed and is masked with `-` here (the
    liveness bookkeeping is the driver's, the shared state and every number come from
    `Dasp.Fork.trace`); a pull on a dropped handle is a malformed request. -/
namespace Dasp.Driver
open Dasp.Fork Dasp.SrcQueue

def forkOp? : Char → Option Op
  | 'A' => some (.pull true)
  | 'B' => some (.pull false)
  | 'r' => some .resplitRef
  | 'c' => some .resplitRc
  | 'a' => some (.drop true)
  | 'b' => some (.drop false)
  | _ => none

def showForkObs (o : Obs Int) (liveA liveB : Bool) : String :=
  let f := match o.frame with | some v => toString v | none => "-"
  let pa := if liveA then toString o.pendA else "-"
  let pb := if liveB then toString o.pendB else "-"
  s!"{f}:{pa}:{pb}:{o.pulls}"

/-- which handles exist after each op; `none` if the schedule uses a handle that is gone, drops
    one twice, or splits again after `by_rc` consumed the fork -/
def forkLiveness : List Op → Bool → Bool → Bool → Option (List (Bool × Bool))
  | [], _, _, _ => some []
  | o :: r, la, lb, rc =>
    let nxt : Option (Bool × Bool × Bool) := match o with
      | .pull true => if la then some (la, lb, rc) else none
      | .pull false => if lb then some (la, lb, rc) else none
      | .resplitRef => if rc then none else some (true, true, false)
      | .resplitRc => if rc then none else some (true, true, true)
      | .drop true => if la then some (false, lb, rc) else none
      | .drop false => if lb then some (la, false, rc) else none
    match nxt with
    | none => none
    | some (la', lb', rc') => (forkLiveness r la' lb' rc').map ((la', lb') :: ·)

def forkLine (args : List String) : String :=
  match args with
  | capS :: nS :: rest =>
    match capS.toNat?, nS.toNat? with
    | some cap, some n =>
      if cap = 0 ∨ rest.length ≠ n + 1 then "bad-op" else
      match (rest.take n).mapM String.toInt?, (rest.getD n "").toList.mapM forkOp? with
      | some frames, some ops =>
        match forkLiveness ops false false false with
        | none => "bad-op"
        | some live =>
          let s := init { frames := frames, eq := (0 : Int), pos := 0 } cap
          " ".intercalate (((trace s ops).zip live).map fun (o, l) => showForkObs o l.1 l.2)
      | _, _ => "bad-op"
    | _, _ => "bad-op"
  | _ => "bad-op"

end Dasp.Driver
