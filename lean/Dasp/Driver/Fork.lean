import Dasp.Model.Fork
/-! Driver stream `fork`: executes `Dasp.Fork.trace` (the definitions `Props/C12.lean` is about)
    on integer-valued frames. Core Lean only.

    `fork <cap> <n> <v_1 … v_n> <ops>` — source = the `n` frames then equilibrium (0) forever;
    `ops` is one token over `A` (branch A `next`), `B`, `r` (drop handles, `by_ref` again),
    `c` (drop handles, `by_rc`).  Reply: one `<frame|->:<pending_A>:<pending_B>:<pulls>` per op. -/
namespace Dasp.Driver
open Dasp.Fork Dasp.SrcQueue

def forkOp? : Char → Option Op
  | 'A' => some (.pull true)
  | 'B' => some (.pull false)
  | 'r' => some .resplitRef
  | 'c' => some .resplitRc
  | _ => none

def showForkObs (o : Obs Int) : String :=
  let f := match o.frame with | some v => toString v | none => "-"
  s!"{f}:{o.pendA}:{o.pendB}:{o.pulls}"

def forkLine (args : List String) : String :=
  match args with
  | capS :: nS :: rest =>
    match capS.toNat?, nS.toNat? with
    | some cap, some n =>
      if cap = 0 ∨ rest.length ≠ n + 1 then "bad-op" else
      match (rest.take n).mapM String.toInt?, (rest.getD n "").toList.mapM forkOp? with
      | some frames, some ops =>
        let s := init { frames := frames, eq := (0 : Int), pos := 0 } cap
        " ".intercalate ((trace s ops).map showForkObs)
      | _, _ => "bad-op"
    | _, _ => "bad-op"
  | _ => "bad-op"

end Dasp.Driver
