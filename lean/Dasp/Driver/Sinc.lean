import Dasp.Model.Sinc
import Dasp.Driver.Converter
/-! Driver streams for C18 — execute the definitions of `Dasp/Model/Sinc.lean` (and, for `sconv`, of
    `Dasp/Model/Converter.lean`) at the native-`Float` instance `floatArith`; these are the definitions the
    theorems of `Dasp/Props/C18.lean` are about (there at the exact-arithmetic instance). Core Lean only.

    `sinc <channels> <N> <N*channels ring samples> <op>…`
        `Sinc::new(Fixed::from(ring))` then `<op>`: `p<frame>` next_source_frame | `i<x>` interpolate(x) | `r` reset
        reply: `panic` when `N` is odd (the assertion of `Sinc::new`), else per op `-` (push, reset) or the frame
    `sconv <channels> <N> <N*channels ring samples> <ctor> <L> <L*channels samples> <op>…`
        the same interpolator (NOT primed from the source) inside a `Converter`; `<ctor>`, `<op>` and the reply
        as in stream `conv` (Driver/Converter.lean)
    frames: channels comma separated, f64 as 16-digit hex bit patterns. -/
namespace Dasp.Driver.Sn
open Dasp.Conv Dasp.Sinc Dasp.Driver.Cv

def parseFrame (ch : Nat) (s : String) : Option (List Float) :=
  match parseAll parseF64 (s.splitOn ",") with
  | some xs => if xs.length = ch then some xs else none
  | none => none

def showFrame (f : List Float) : String := ",".intercalate (f.map showF64)

def parseSincOp (ch : Nat) (t : String) : Option (Op Float) :=
  match t.toList with
  | ['r'] => some .reset
  | 'p' :: r => (parseFrame ch (String.ofList r)).map .push
  | 'i' :: r => (parseF64 (String.ofList r)).map .interp
  | _ => none

def runSinc (eq : List Float) : List (Op Float) → St Float → List String
  | [], _ => []
  | op :: ops, s =>
    (match op with
     | .interp x => showFrame (interpolate floatArith eq s x)
     | _ => "-") :: runSinc eq ops (step eq s op)

def sincLine : List String → String
  | chs :: ns :: rest =>
    match chs.toNat?, ns.toNat? with
    | some ch, some n =>
      if ch = 0 ∨ ch > 8 ∨ n = 0 ∨ rest.length < n * ch then "bad-op"
      else match parseAll parseF64 (rest.take (n * ch)), parseAll (parseSincOp ch) (rest.drop (n * ch)) with
        | some xs, some ops =>
          let eq := List.replicate ch (0.0 : Float)
          match new (⟨chunk ch n xs, 0⟩ : Ring Float) with
          | none => "panic"
          | some s => " ".intercalate (runSinc eq ops s)
        | _, _ => "bad-op"
    | _, _ => "bad-op"
  | _ => "bad-op"

def sconvLine : List String → String
  | chs :: ns :: rest =>
    match chs.toNat?, ns.toNat? with
    | some ch, some n =>
      if ch = 0 ∨ ch > 8 ∨ n = 0 ∨ rest.length < n * ch + 2 then "bad-op"
      else
        let rest2 := rest.drop (n * ch)
        match parseAll parseF64 (rest.take (n * ch)), rest2 with
        | some xs, ctor :: ls :: rest3 =>
          match ls.toNat? with
          | some l =>
            if rest3.length < l * ch then "bad-op"
            else match parseAll parseF64 (rest3.take (l * ch)), parseAll parseOp (rest3.drop (l * ch)) with
              | some fs, some ops =>
                let eq := List.replicate ch (0.0 : Float)
                match new (⟨chunk ch n xs, 0⟩ : Ring Float) with
                | none => "panic"
                | some s => go (sincInterp floatArith eq) eq showF64 ctor ⟨chunk ch l fs, 0⟩ s ops
              | _, _ => "bad-op"
          | none => "bad-op"
        | _, _ => "bad-op"
    | _, _ => "bad-op"
  | _ => "bad-op"

end Dasp.Driver.Sn
