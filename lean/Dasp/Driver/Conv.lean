import Dasp.Gen.Conv
/-! Driver stream `conv`: executes the regenerated conversion ASTs. Core Lean only. -/
namespace Dasp.Driver
open Dasp Dasp.Gen

/-- `conv <src> <dst> <rel|dbg> v…` → one result per value (`panic` when a checked build
    would panic, `invalid:<v>` when an unchecked constructor receives an out-of-range value) -/
def convLine (args : List String) : String :=
  match args with
  | src :: dst :: mode :: vs =>
    match Fmt.ofString? src, Fmt.ofString? dst with
    | some s, some d =>
      let e := table s d
      let outs := vs.map fun t =>
        match t.toInt? with
        | none => "bad-int"
        | some v =>
          let r := val v e
          if mode == "dbg" && !okb v e then "panic"
          else if !validb v e then s!"invalid:{r}"
          else toString r
      " ".intercalate outs
    | _, _ => "bad-op"
  | _ => "bad-op"

end Dasp.Driver
