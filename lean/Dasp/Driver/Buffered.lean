import Dasp.Model.Buffered
/-! Driver stream `buf`: executes `Dasp.Buffered.trace` (the definitions `Props/C14.lean` is
    about) on integer-valued frames. Core Lean only.

    `buf <cap> <start> <p> <prefill_1 … prefill_p> <n> <v_1 … v_n> <op …>` — ring buffer of `cap`
    slots holding the `p` pre-filled frames (oldest first) beginning at slot `start` (the ideal
    queue does not depend on `start`; it is validated `< cap` and otherwise ignored, cf. C06),
    source = the `n` frames then equilibrium (0) forever.  Ops: `N` = `next()`, `F<k>` =
    `next_frames()` then `k` iterator steps, `D` = `next_frames().collect()`, `U` =
    `by_ref().until_exhausted().collect()`, `E` = observe only.
    Reply: one `<yielded,…|->:<pulls>:<is_exhausted>` per op, then `rest=<ring buffer content>`. -/
namespace Dasp.Driver
open Dasp.Buffered Dasp.SrcQueue

/-- the flag marks `T<k>` = `next_frames().nth(k)`: `Iterator::nth(k)` is `k+1` calls of `next` of which
    only the last result is handed out (`Dasp.Buffered.nthView`, Props/C14 `nth_is_last_of_frames`) -/
def bufOp? (t : String) : Option (Op × Bool) :=
  match t.toList with
  | ['N'] => some (.next, false)
  | ['D'] => some (.drain, false)
  | ['U'] => some (.untilExhausted, false)
  | ['E'] => some (.look, false)
  | 'F' :: ds => (String.ofList ds).toNat?.map fun k => (Op.frames k, false)
  -- the batch iterator leaked (`mem::forget`) after `k` steps: the frames it handed out are consumed all the same
  | 'L' :: ds => (String.ofList ds).toNat?.map fun k => (Op.frames k, false)
  | 'T' :: ds => (String.ofList ds).toNat?.map fun k => (Op.frames (k + 1), true)
  | _ => none

def showOpt : Option Int → String
  | some v => toString v
  | none => "none"

def showList (l : List String) : String := if l.isEmpty then "-" else ",".intercalate l

def showBufObs (o : Obs Int) : String :=
  s!"{showList (o.out.map showOpt)}:{o.pulls}:{if o.exhausted then 1 else 0}"

def bufLine (args : List String) : String :=
  match args with
  | capS :: startS :: pS :: rest =>
    match capS.toNat?, startS.toNat?, pS.toNat? with
    | some cap, some start, some p =>
      if cap = 0 ∨ cap ≤ start ∨ cap < p ∨ rest.length < p + 1 then "bad-op" else
      match (rest.take p).mapM String.toInt?, (rest.getD p "").toNat? with
      | some prefill, some n =>
        let rest2 := rest.drop (p + 1)
        if rest2.length < n then "bad-op" else
        match (rest2.take n).mapM String.toInt?, (rest2.drop n).mapM bufOp? with
        | some frames, some fops =>
          let ops := fops.map Prod.fst
          let s := init { frames := frames, eq := (0 : Int), pos := 0 } prefill cap
          let obs := (List.zipWith (fun o (f : Op × Bool) => if f.2 then nthView o else o) (trace s ops) fops).map showBufObs
          let fin := run s ops
          " ".intercalate (obs ++ ["rest=" ++ showList (fin.q.map toString)])
        | _, _ => "bad-op"
      | _, _ => "bad-op"
    | _, _, _ => "bad-op"
  | _ => "bad-op"

end Dasp.Driver
