import Dasp.Gen.Types
/-! Driver stream `ty`: executes the regenerated `new_sample_type!` bodies. Core Lean only. -/
namespace Dasp.Driver
open Dasp Dasp.Types Dasp.Gen.Types

private def showO : Option Int → String
  | some v => toString v
  | none => "panic"

private def itys : List (String × ITy) :=
  [("i8", .i8), ("i16", .i16), ("i32", .i32), ("i64", .i64), ("u8", .u8), ("u16", .u16), ("u32", .u32), ("u64", .u64)]

private def ityName (t : ITy) : String := ((itys.find? (·.2 == t)).map (·.1)).getD "?"

private def ints? (vs : List String) : Option (List Int) := vs.mapM String.toInt?

private def pairs : List Int → Option (List (Int × Int))
  | [] => some []
  | a :: b :: r => (pairs r).map ((a, b) :: ·)
  | _ => none

private def ordStr : Ordering → String
  | .lt => "lt" | .eq => "eq" | .gt => "gt"

private def binBody (op : String) : Option Body :=
  match op with
  | "add" => some macroDef.add | "sub" => some macroDef.sub | "mul" => some macroDef.mul | _ => none

/-- backing-type values only: the real functions take a `$Rep` -/
private def allRep (ts : TypeSpec) (vs : List Int) : Bool := vs.all (inR ts.rep)

/-- `ty <T> <rel|dbg> <op> args…`:
    `new v…` → `none|v`;  `from v…`;  `wfrom <src> v…` (src a primitive or custom type named in
    the `from:` list, values of the source type);  `add|sub|mul a b a b…`;  `neg a…`;
    `cmp a b…` → `lt0|eq1|gt0`;  `row <add|sub|mul> a b0 b1` → results for b = b0..b1.
    Operands of the operators must be backing-type values; results are `panic` or the value. -/
def tyLine (args : List String) : String :=
  match args with
  | tn :: mode :: op :: rest =>
    match all.find? (·.name == tn), (if mode == "rel" then some false else if mode == "dbg" then some true else none) with
    | some ts, some dbg =>
      let out (l : List String) := " ".intercalate l
      match op, rest with
      | "new", vs => match ints? vs with
        | some vs => if !allRep ts vs then "bad-op" else
            out (vs.map fun v => match newRun ts macroDef v with | some r => toString r | none => "none")
        | none => "bad-op"
      | "from", vs => match ints? vs with
        | some vs => if !allRep ts vs then "bad-op" else out (vs.map fun v => showO (fromRun ts macroDef dbg v))
        | none => "bad-op"
      | "wfrom", src :: vs => match ints? vs with
        | some vs =>
          -- the source must be in this type's `from:` list; its values must be values of the source type
          match itys.find? (·.1 == src) with
          | some (_, p) =>
            if !ts.fromPrims.contains p || !vs.all (inR p) then "bad-op" else
            out (vs.map fun v => showO (opRun ts macroDef dbg ⟨0, v, 0⟩ macroDef.fromPrim))
          | none =>
            match ts.fromCustom.find? (fun (i, _) => (all[i]?.map (·.name)) == some src) with
            | some (i, urep) =>
              match all[i]? with
              | some s =>
                if s.rep != urep || !vs.all (fun v => decide (s.inRange v)) then "bad-op" else
                out (vs.map fun v => showO (opRun ts macroDef dbg ⟨0, v, 0⟩ macroDef.fromCustom))
              | none => "bad-op"
            | none => "bad-op"
        | none => "bad-op"
      | "neg", vs => match ints? vs with
        | some vs => if !ts.hasNeg || !allRep ts vs then "bad-op" else
            out (vs.map fun v => showO (opRun ts macroDef dbg ⟨v, 0, 0⟩ macroDef.neg))
        | none => "bad-op"
      | "cmp", vs => match (ints? vs).bind pairs with
        | some ps => if !ts.ordDerived || !ps.all (fun (a, b) => inR ts.rep a && inR ts.rep b) then "bad-op" else
            out (ps.map fun (a, b) => ordStr (cmpT a b) ++ (if eqT a b then "1" else "0"))
        | none => "bad-op"
      | "row", [bop, a, b0, b1] =>
        match binBody bop, a.toInt?, b0.toInt?, b1.toInt? with
        | some body, some a, some b0, some b1 =>
          if !inR ts.rep a || !inR ts.rep b0 || !inR ts.rep b1 || b1 < b0 then "bad-op" else
          out ((List.range (b1 - b0 + 1).toNat).map fun (k : Nat) => showO (opRun ts macroDef dbg ⟨a, b0 + (k : Int), 0⟩ body))
        | _, _, _, _ => "bad-op"
      | bop, vs =>
        match binBody bop, (ints? vs).bind pairs with
        | some body, some ps => if !ps.all (fun (a, b) => inR ts.rep a && inR ts.rep b) then "bad-op" else
            out (ps.map fun (a, b) => showO (opRun ts macroDef dbg ⟨a, b, 0⟩ body))
        | _, _ => "bad-op"
    | _, _ => "bad-op"
  | _ => "bad-op"

end Dasp.Driver
