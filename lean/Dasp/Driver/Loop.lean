/-! Generic line-protocol loop: one request per line on stdin, one reply per line on stdout. -/
namespace Dasp.Driver

/-- split a request line into its non-empty space-separated tokens -/
def tokens (line : String) : List String :=
  (line.trimAscii.toString.splitOn " ").filter (· ≠ "")

partial def loop (dispatch : List String → String) (inp out : IO.FS.Stream) : IO Unit := do
  let line ← inp.getLine
  if line.isEmpty then return ()
  out.putStrLn (dispatch (tokens line))
  loop dispatch inp out

def runDriver (dispatch : List String → String) : IO Unit := do
  let inp ← IO.getStdin
  let out ← IO.getStdout
  loop dispatch inp out

def natOf (s : String) : Nat := s.toNat?.getD 0
def intOf (s : String) : Int := s.toInt?.getD 0

end Dasp.Driver
