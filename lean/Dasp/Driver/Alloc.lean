import Dasp.Model.Alloc
namespace Dasp.Driver
open Dasp.Model.Alloc

/-- `alloc <family> <calls>` → modelled `allocs reallocs frees` (independent of the number of calls) -/
def allocLine (args : List String) : String :=
  match args with
  | [family, calls] =>
    match calls.toNat?, effectOf family with
    | some _, some e => s!"{e.allocs} {e.reallocs} {e.frees}"
    | _, _ => "bad-op"
  | _ => "bad-op"
end Dasp.Driver
