import Dasp.Model.Ring
/-! Driver streams `bounded` and `fixed`: execute `Dasp.Ring.Bounded.step` / `Fixed.step` (the
    definitions `Props/C06.lean` is about) on one whole case per line. Core Lean only.

    bounded <arr|vec|box|mut> raw <start> <len> <cap> d0 … d(cap-1) | op …
    bounded <kind> full <cap> d… | op …          bounded <kind> empty <cap> d… | op …
    fixed   <kind> raw <first> <n> d0 … d(n-1) | op …      fixed <kind> from <n> d… | op …
    (fixed also accepts the kinds tarr|tvec|tbox|tmut: the same storage holding owned non-Copy elements)

    reply: `panic` if the constructor panics, else one token per op. A token `OOB` is appended
    to an op's reply if the model's recorded accesses of that call leave the backing slice. -/
namespace Dasp.Driver
open Dasp.Ring

private def showList (l : List Int) : String := "[" ++ ",".intercalate (l.map toString) ++ "]"

private def showObs : Obs Int → String
  | .unit => "u"
  | .opt none => "none"
  | .opt (some v) => toString v
  | .nat n => toString n
  | .bool b => if b then "t" else "f"
  | .list l => showList l
  | .pair a b => showList a ++ "+" ++ showList b
  | .raw s l => s!"@{s}/{l}"
  | .panic => "panic"

private def ints? (s : String) : Option (List Int) :=
  if s == "" then some [] else (s.splitOn ",").mapM String.toInt?

/-- split at the first `|` token -/
private def splitBar : List String → Option (List String × List String)
  | [] => none
  | "|" :: rest => some ([], rest)
  | t :: rest => (splitBar rest).map fun (a, b) => (t :: a, b)

private def kindOk (k : String) : Bool := k == "arr" || k == "vec" || k == "box" || k == "mut"
/-- `Fixed` is also run with owned, drop-tracked (non-Copy) elements: kinds `tarr`, `tvec`, `tbox`, `tmut`;
    the element type does not change what the model returns -/
private def fixedKindOk (k : String) : Bool :=
  kindOk k || k == "tarr" || k == "tvec" || k == "tbox" || k == "tmut"

/-- `<n> d0 … d(n-1)` -/
private def dataOf? (ts : List String) : Option (List Int) :=
  match ts with
  | n :: ds =>
    match n.toNat?, ds.mapM String.toInt? with
    | some n, some ds => if ds.length == n then some ds else none
    | _, _ => none
  | [] => none

/-- a request token → the op plus whether the backing data is printed as well -/
private def bop? (t : String) : Option (BOp Int × Nat) :=
  match t.splitOn ":" with
  | ["push", x] => x.toInt?.map fun x => (.push x, 0)
  | ["pop"] => some (.pop, 0)
  | ["get", i] => i.toNat?.map fun i => (.get i, 0)
  | ["gm", i, x] => do let i ← i.toNat?; let x ← x.toInt?; pure (.getMut i x, 0)
  | ["ix", i] => i.toNat?.map fun i => (.index i, 0)
  | ["ixm", i, x] => do let i ← i.toNat?; let x ← x.toInt?; pure (.indexMut i x, 0)
  | ["len"] => some (.len, 0)
  | ["empty"] => some (.isEmpty, 0)
  | ["full"] => some (.isFull, 0)
  | ["max"] => some (.maxLen, 0)
  | ["iter"] => some (.iter, 0)
  | ["slices"] => some (.slices, 0)
  | ["im", xs] => (ints? xs).map fun xs => (.iterMut xs, 0)
  | ["sm", xs] => (ints? xs).map fun xs => (.slicesMut xs, 0)
  | ["drain", k] => k.toNat?.map fun k => (.drain k, 0)
  -- the draining iterator leaked (`mem::forget`) after `k` items: what it handed out is gone all the same
  | ["dleak", k] => k.toNat?.map fun k => (.drain k, 0)
  -- `rb.drain().nth(k)`: `k+1` steps of the draining iterator of which the client sees the last
  -- (Props/C06 `drain_nth_refines`)
  | ["dnth", k] => k.toNat?.map fun k => (.drain (k + 1), 2)
  | ["ext", xs] => (ints? xs).map fun xs => (.extend xs, 0)
  | ["raw"] => some (.reparts, 0)
  | ["data"] => some (.reparts, 1)
  | _ => none

private def runBounded (b : Bounded Int) (ops : List (BOp Int × Nat)) : String :=
  let (_, out) := ops.foldl (fun (acc : Bounded Int × List String) (op, flag) =>
    let withData := flag == 1
    let b := acc.1
    let r := b.step op
    let oob := (b.stepAcc op).any (fun i => decide (i ≥ b.data.length)) ||
               (b.stepChecks op).any (fun p => decide (p.1 > p.2))
    let shown : Obs Int := match flag, op, r.2 with
      | 2, .drain k1, .list l => .opt l[k1 - 1]?
      | _, _, o => o
    let s := showObs shown ++ (if withData then "{" ++ ",".intercalate (r.1.data.map toString) ++ "}" else "")
               ++ (if oob then " OOB" else "")
    (r.1, s :: acc.2)) (b, [])
  " ".intercalate out.reverse

def boundedLine (args : List String) : String :=
  match args with
  | kind :: ctor :: rest =>
    if !kindOk kind then "bad-op" else
    match splitBar rest with
    | none => "bad-op"
    | some (hd, opToks) =>
      match opToks.mapM bop? with
      | none => "bad-op"
      | some ops =>
        let mk : Option (Option (Bounded Int)) :=
          match ctor, hd with
          | "raw", s :: l :: ds =>
            match s.toNat?, l.toNat?, dataOf? ds with
            | some s, some l, some d => some (Bounded.fromRawParts s l d)
            | _, _, _ => none
          | "full", ds => (dataOf? ds).map Bounded.fromFull
          | "empty", ds => (dataOf? ds).map Bounded.fromEmpty
          | _, _ => none
        match mk with
        | none => "bad-op"
        | some none => "panic"
        | some (some b) => runBounded b ops
  | _ => "bad-op"

private def fop? (t : String) : Option (FOp Int × Bool) :=
  match t.splitOn ":" with
  | ["push", x] => x.toInt?.map fun x => (.push x, false)
  | ["get", i] => i.toNat?.map fun i => (.get i, false)
  | ["gm", i, x] => do let i ← i.toNat?; let x ← x.toInt?; pure (.getMut i x, false)
  | ["first", i] => i.toNat?.map fun i => (.setFirst i, false)
  | ["len"] => some (.len, false)
  | ["iter"] => some (.iter, false)
  | ["loop", n] => n.toNat?.map fun n => (.iterLoop n, false)
  | ["im", xs] => (ints? xs).map fun xs => (.iterMut xs, false)
  | ["slices"] => some (.slices, false)
  | ["sm", xs] => (ints? xs).map fun xs => (.slicesMut xs, false)
  | ["ext", xs] => (ints? xs).map fun xs => (.extend xs, false)
  | ["raw"] => some (.reparts, false)
  | ["data"] => some (.reparts, true)
  | _ => none

private def runFixed (f : Fixed Int) (ops : List (FOp Int × Bool)) : String :=
  let (_, out) := ops.foldl (fun (acc : Fixed Int × List String) (op, withData) =>
    let f := acc.1
    let r := f.step op
    let oob := (f.stepAcc op).any (fun i => decide (i ≥ f.data.length)) ||
               (f.stepChecks op).any (fun p => decide (p.1 > p.2))
    let s := showObs r.2 ++ (if withData then "{" ++ ",".intercalate (r.1.data.map toString) ++ "}" else "")
               ++ (if oob then " OOB" else "")
    (r.1, s :: acc.2)) (f, [])
  " ".intercalate out.reverse

def fixedLine (args : List String) : String :=
  match args with
  | kind :: ctor :: rest =>
    if !fixedKindOk kind then "bad-op" else
    match splitBar rest with
    | none => "bad-op"
    | some (hd, opToks) =>
      match opToks.mapM fop? with
      | none => "bad-op"
      | some ops =>
        let mk : Option (Option (Fixed Int)) :=
          match ctor, hd with
          | "raw", s :: ds =>
            match s.toNat?, dataOf? ds with
            | some s, some d => some (Fixed.fromRawParts s d)
            | _, _ => none
          | "from", ds => (dataOf? ds).map Fixed.fromData
          | _, _ => none
        match mk with
        | none => "bad-op"
        | some none => "panic"
        | some (some f) => runFixed f ops
  | _ => "bad-op"

end Dasp.Driver
