import Dasp.Model.Nodes
import Dasp.Driver.Graph
/-! Driver stream `node` (C16): executes the `Dasp.Nodes` definitions on native `Float32`
    (samples travel as 8-hex-digit bit patterns, a buffer = 64 of them concatenated). Core Lean only. -/
namespace Dasp.Driver
open Dasp.Graph Dasp.Nodes

instance : Zero Float32 := ⟨Float32.ofBits 0⟩

def hexDigit? (c : Char) : Option Nat :=
  if '0' ≤ c ∧ c ≤ '9' then some (c.toNat - '0'.toNat)
  else if 'a' ≤ c ∧ c ≤ 'f' then some (c.toNat - 'a'.toNat + 10)
  else none

/-- a run of 8-hex-digit words -/
def hexWords? (cs : List Char) : Option (List Float32) :=
  let rec go (cs : List Char) (fuel : Nat) (acc : List Float32) : Option (List Float32) :=
    match fuel with
    | 0 => none
    | fuel + 1 =>
      match cs with
      | [] => some acc.reverse
      | a :: b :: c :: d :: e :: f :: g :: h :: rest =>
        match [a, b, c, d, e, f, g, h].mapM hexDigit? with
        | none => none
        | some ds => go rest fuel (Float32.ofBits (ds.foldl (fun n d => n * 16 + d) 0).toUInt32 :: acc)
      | _ => none
  go cs (cs.length + 1) []

/-- bit pattern; every NaN prints as the canonical quiet NaN (sign/payload of an invalid-operation NaN is
    not part of the property; the harness does the same) -/
def hexOf (x : Float32) : String :=
  let ds := Nat.toDigits 16 (if x.isNaN then 0x7fc00000 else x.toBits.toNat)
  String.mk (List.replicate (8 - ds.length) '0' ++ ds)

def buf? (s : String) : Option (Buf Float32) :=
  match hexWords? s.toList with
  | some l => if l.length = LEN then some l else none
  | none => none

/-- `-` = no buffers, else buffers joined by `,` -/
def bufs? (s : String) : Option (Bufs Float32) :=
  if s == "-" then some [] else (s.splitOn ",").mapM buf?

/-- `I:none` = no inputs, else `I:` + inputs (each a `bufs` token) joined by `;` -/
def inputs? (s : String) : Option (List (Bufs Float32)) :=
  if s == "I:none" then some []
  else if s.startsWith "I:" then ((s.drop 2).toString.splitOn ";").mapM bufs? else none

def showBuf (b : Buf Float32) : String := String.join (b.map hexOf)
def showBufs (b : Bufs Float32) : String := if b.isEmpty then "-" else ",".intercalate (b.map showBuf)

def wrappers : List String :=
  ["plain", "mutref", "box", "boxednode", "boxednodesend", "dynfn", "dynfnmut", "fnptr", "boxdynsignal"]

/-- run a stateful node over consecutive calls; the node's own output buffers persist between calls -/
def runCalls {σ : Type} (f : σ → List (Bufs Float32) → Bufs Float32 → Option (σ × Bufs Float32))
    (st : σ) (out : Bufs Float32) (calls : List (List (Bufs Float32))) (acc : List String) : List String :=
  match calls with
  | [] => acc.reverse
  | c :: cs =>
    match f st c out with
    | none => ("panic" :: acc).reverse
    | some (st', out') => runCalls f st' out' cs (showBufs out' :: acc)

def ring? (s : String) : Option (Ring Float32) :=
  match s.splitOn ":" with
  | [f, d] => do
    let first ← f.toNat?
    let data ← hexWords? d.toList
    if first < data.length then some ⟨first, data⟩ else none
  | _ => none

def rings? (s : String) : Option (List (Ring Float32)) :=
  if s == "-" then some [] else (s.splitOn ";").mapM ring?

inductive Kind | pass | sum | sumBuffers

def kindOf? (c : Char) : Option Kind :=
  if c == 'p' then some .pass else if c == 's' then some .sum else if c == 'b' then some .sumBuffers else none

def kindFn (k : Kind) (ins : List (Bufs Float32)) (own : Bufs Float32) : Bufs Float32 :=
  match k with
  | .pass => pass ins own
  | .sum => sum ins own
  | .sumBuffers => sumBuffers ins own

/-- `node <kind> <wrapper> …` -/
def nodeLine (args : List String) : String :=
  match args with
  | kind :: wrapper :: rest =>
    if !wrappers.contains wrapper then "bad-op" else
    match kind, rest with
    | "signal", [ch, frames, out, ncalls] =>
      match ch.toNat?, hexWords? frames.toList, bufs? out, ncalls.toNat? with
      | some channels, some fr, some out, some n =>
        if channels = 0 ∨ fr.length ≠ n * LEN * channels then "bad-op" else
        let frA := fr.toArray
        let sig : Sig Float32 :=
          { channels := channels, pos := 0,
            frame := fun k => (List.range channels).map fun c => frA.getD (k * channels + c) 0 }
        " ".intercalate (runCalls (fun s _ o => some (signalNode s o)) sig out (List.replicate n []) [])
      | _, _, _, _ => "bad-op"
    | "delay", rg :: out :: calls =>
      match rings? rg, bufs? out, calls.mapM inputs? with
      | some rings, some out, some calls => " ".intercalate (runCalls delay rings out calls [])
      | _, _, _ => "bad-op"
    | "graph", b :: kinds :: rest1 =>
      match b.toNat? with
      | none => "bad-op"
      | some bound =>
        match kinds.toList.mapM kindOf?, takeLists? bound rest1 with
        | some ks, some (inc, chans :: inNodes :: outNode :: out :: calls) =>
          match natList? chans, natList? inNodes, outNode.toNat?, bufs? out, calls.mapM inputs? with
          | some chans, some inNodes, some outNode, some out, some calls =>
            if ks.length ≠ bound ∨ chans.length ≠ bound then "bad-op" else
            let g := pgOf bound (List.replicate bound true) inc (List.replicate bound [])
            let ksA := ks.toArray
            let chA := chans.toArray
            let buf0 : Array (Bufs Float32) := (List.range bound).map (fun n => List.replicate (chA.getD n 0) silent) |>.toArray
            let step (st : Proc × Array (Bufs Float32)) (ins : List (Bufs Float32)) (o : Bufs Float32) :=
              match graphNode (fun n => kindFn (ksA.getD n .pass)) g st.1 (fun n => st.2.getD n []) inNodes outNode ins o with
              | none => none
              | some r => some ((r.proc, ((List.range bound).map r.buf).toArray), r.output)
            " ".intercalate (runCalls step (Proc.empty, buf0) out calls [])
          | _, _, _, _, _ => "bad-op"
        | _, _ => "bad-op"
    | k, out :: calls =>
      let f? : Option (List (Bufs Float32) → Bufs Float32 → Bufs Float32) :=
        if k == "sum" then some sum else if k == "sumbuffers" then some sumBuffers
        else if k == "pass" then some pass else none
      match f?, bufs? out, calls.mapM inputs? with
      | some f, some out, some calls =>
        " ".intercalate (runCalls (fun (_ : Unit) i o => some ((), f i o)) () out calls [])
      | _, _, _ => "bad-op"
    | _, _ => "bad-op"
  | _ => "bad-op"

end Dasp.Driver
