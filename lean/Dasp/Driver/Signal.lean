import Dasp.Model.Signal
/-! Driver streams `adapt` (C04) and `exhaust` (C05): execute `Dasp.Signal.next`, `isExhausted`,
    `St.ofIter`, `St.ofSamples`, `TakeSt.next`, `untilNext`, `lift`, `ILSt.nextSample` (the
    definitions `Props/C04.lean` / `Props/C05.lean` are about) on one whole case per line.
    Core Lean only.

    <stream> <kind> <tree> | op …          kind: d1 = f64 mono, g2 = [f32;2], i2 = [i32;2], i3 = [i32;3], s2 = [i16;2], w2 = [u16;2], x2 = [u32;2], l2 = [i64;2], y2 = [u64;2]

    tree (prefix notation; F = frame `a,b`; integer kinds: samples/offsets/thresholds decimal,
    amplitudes as numerators p of p/4; d1 / g2: everything as 16- / 8-digit hex `to_bits`):
      fi <L> F…   fs <M> s…   eq   gc F   gm F F (frame i = A + i·B)
      ma K T (+K per sample)  mr T (reverse channels)  mn T (negate)          -- map closures
      zs A B (sum)  zd A B (difference)  zl A B (left)  zr A B (right)        -- zip_map closures
      add A B  mul A B  sc K T  of K T  scp F T  ofp F T  cl K T  ins T  dl <k> T   _ (the borrowed base)
    ops: n (next)  e (is_exhausted)  r <j> <ctx> / R <j> <ctx> (adaptor stack over `&mut base`,
      j × next resp. j × (is_exhausted, next) + is_exhausted, then dropped)  t <n> <m> (by_ref().take(n),
      m calls)  u <m> (by_ref().until_exhausted())  i <m> (by_ref().into_interleaved_samples())
      l <m> <L> F… <ctx> (signal::lift, hole = the FromIterator)
    reply: one token per observation, then `| pulls | iterator calls | inspect logs` of the base. -/
namespace Dasp.Driver

/-- `tn` / `un` / `in`: the iterator advanced with ONE `Iterator::nth(m-1)` = `m` calls of `next` of which
    the client sees the last (these iterators yield `None` without side effects once they have ended) -/
def lastIf (b : Bool) (l : List String) : List String := if b then l.getLast?.toList else l
open Dasp.Signal

/-- what the driver needs to know about one frame type -/
structure Kind (α : Type) where
  ops : Ops α
  parse : String → Option α
  shw : α → String
  add : α → α → α        -- closure of `zs`: sum of the amplitudes
  sub : α → α → α        -- closure of `zd`
  neg : α → α            -- closure of `mn`
  shift : α → α → α      -- closure of `ma`: sample + signed amount
  lin : α → Nat → α → α  -- closure of `gm`: a + i·b

/-! #### integer kinds -/

def clampI (lo hi v : Int) : Int := if v < lo then lo else if v > hi then hi else v

/-- `Sample::mul_amp` on i16/i32 for an amplitude p/4 and |s| < 2^24: `((s as f32 / 2^(b-1)) * (p/4) * 2^(b-1)) as iN`
    — every float step is exact, the final cast truncates toward zero and saturates -/
def scaleQ (lo hi s p : Int) : Int := clampI lo hi (Int.tdiv (s * p) 4)

def intOps (n : Nat) (lo hi : Int) : Ops Int where
  eq := List.replicate n 0
  addAmp := List.zipWith (· + ·)
  mulAmp := List.zipWith (scaleQ lo hi)
  scaleAmp f k := f.map (scaleQ lo hi · k)
  offsetAmp f k := f.map (· + k)
  clipSample := clipInt

def intKind (n : Nat) (lo hi : Int) : Kind Int where
  ops := intOps n lo hi
  parse := String.toInt?
  shw := toString
  add := (· + ·)
  sub := (· - ·)
  neg := (- ·)
  shift := (· + ·)
  lin a i b := a + Int.ofNat i * b

/-! #### [u16;2]: unsigned samples, `Signed = i16`, `Float = f32`, equilibrium 32768.  The code goes
    through the signed twin (`conv::u16::to_i16` = v − 32768 and back), so offsets/thresholds are
    i16 amounts and every operation acts on the amplitude v − 32768 -/

/-- unsigned kind with equilibrium `e` (= 2^(bits-1)); `lo`/`hi` = range of the signed twin -/
def uOps (e lo hi : Int) : Ops Int where
  eq := [e, e]
  addAmp := List.zipWith (· + ·)                                   -- sample + signed amount
  mulAmp := List.zipWith fun v p => e + scaleQ lo hi (v - e) p
  scaleAmp f k := f.map fun v => e + scaleQ lo hi (v - e) k
  offsetAmp f k := f.map (· + k)
  clipSample t v := e + clipInt t (v - e)

def uKind (e lo hi : Int) : Kind Int where
  ops := uOps e lo hi
  parse := String.toInt?
  shw := toString
  add x y := x + y - e
  sub x y := x - y + e
  neg x := 2 * e - x
  shift := (· + ·)
  lin a i b := a + Int.ofNat i * b

/-! #### f64 mono: native `Float` (IEEE double, the same hardware operations as the Rust side) -/

def hexDigit (c : Char) : Option Nat :=
  if '0' ≤ c ∧ c ≤ '9' then some (c.toNat - '0'.toNat)
  else if 'a' ≤ c ∧ c ≤ 'f' then some (c.toNat - 'a'.toNat + 10)
  else none

def parseHex (w : Nat) (s : String) : Option Nat :=
  if s.length != w then none
  else s.toList.foldlM (fun acc c => (hexDigit c).map (acc * 16 + ·)) 0

def showHex (w : Nat) (v : Nat) : String :=
  let ds := (List.range w).map fun i => (v / 16 ^ (w - 1 - i)) % 16
  String.ofList (ds.map fun d => if d < 10 then Char.ofNat (d + 48) else Char.ofNat (d + 87))

def f64Ops : Ops Float where
  eq := [0.0]
  addAmp := List.zipWith (· + ·)
  mulAmp := List.zipWith (· * ·)
  scaleAmp f k := f.map (· * k)
  offsetAmp f k := f.map (· + k)
  clipSample t s := if s > t then t else if s < -t then -t else s

def f64Kind : Kind Float where
  ops := f64Ops
  parse s := (parseHex 16 s).map fun v => Float.ofBits (UInt64.ofNat v)
  shw x := showHex 16 x.toBits.toNat
  add := (· + ·)
  sub := (· - ·)
  neg := (- ·)
  shift := (· + ·)
  lin a i b := a + Float.ofNat i * b

/-! #### [f32;2]: native `Float32` (IEEE single) -/

def f32Ops : Ops Float32 where
  eq := [0.0, 0.0]
  addAmp := List.zipWith (· + ·)
  mulAmp := List.zipWith (· * ·)
  scaleAmp f k := f.map (· * k)
  offsetAmp f k := f.map (· + k)
  clipSample t s := if s > t then t else if s < -t then -t else s

def f32Kind : Kind Float32 where
  ops := f32Ops
  parse s := (parseHex 8 s).map fun v => Float32.ofBits (UInt32.ofNat v)
  shw x := showHex 8 x.toBits.toNat
  add := (· + ·)
  sub := (· - ·)
  neg := (- ·)
  shift := (· + ·)
  lin a i b := a + Float32.ofNat i * b

/-! #### parsing and running a case -/
section
variable {α : Type} (K : Kind α)

def parseFrame (t : String) : Option (List α) := (t.splitOn ",").mapM K.parse
def showFrame (f : List α) : String := ",".intercalate (f.map K.shw)
def showBool (b : Bool) : String := if b then "T" else "F"
def showNats (l : List Nat) : String := " ".intercalate (l.map toString)
def showLogs (l : List (List (List α))) : String :=
  " ".intercalate (l.map fun g => "L:" ++ ";".intercalate (g.map (showFrame K)))
def showOptFrame : Option (List α) → String
  | none => "none"
  | some f => showFrame K f

/-- `<L> F…` -/
def parseFrames (ts : List String) : Option (List (List α) × List String) :=
  match ts with
  | l :: rest =>
    match l.toNat? with
    | some l =>
      if rest.length < l then none
      else ((rest.take l).mapM (parseFrame K)).map fun fs => (fs, rest.drop l)
    | none => none
  | [] => none

/-- a tree in prefix notation; `hole` is what `_` stands for (`none`: no hole allowed);
    returns the state, the unread tokens and the number of holes used -/
def parseTree (nch : Nat) (hole : Option (St α)) : Nat → List String → Option (St α × List String × Nat)
  | 0, _ => none
  | fuel + 1, ts =>
    let un (u : Un α) (rest : List String) :=
      (parseTree nch hole fuel rest).map fun (s, r, h) => (St.un u s, r, h)
    let bin (b : Bin α) (rest : List String) :=
      match parseTree nch hole fuel rest with
      | some (a, r, h) => (parseTree nch hole fuel r).map fun (c, r', h') => (St.bin b a c, r', h + h')
      | none => none
    match ts with
    | "fi" :: rest => (parseFrames K rest).map fun (fs, r) => (St.ofIter fs, r, 0)
    | "fs" :: m :: rest =>
      match m.toNat? with
      | some m =>
        if rest.length < m then none
        else ((rest.take m).mapM K.parse).map fun ss => (St.ofSamples nch ss, rest.drop m, 0)
      | none => none
    | "eq" :: rest => some (.equilibrium 0, rest, 0)
    | "gc" :: f :: rest => (parseFrame K f).map fun f => (.gen (fun _ => f) 0, rest, 0)
    | "gm" :: a :: b :: rest =>
      match parseFrame K a, parseFrame K b with
      | some a, some b => some (.gen (fun i => List.zipWith (fun x y => K.lin x i y) a b) 0, rest, 0)
      | _, _ => none
    | "ma" :: k :: rest => match K.parse k with
      | some k => un (.map fun f => f.map (K.shift · k)) rest
      | none => none
    | "mr" :: rest => un (.map List.reverse) rest
    | "mn" :: rest => un (.map fun f => f.map K.neg) rest
    | "zs" :: rest => bin (.zipMap (List.zipWith K.add)) rest
    | "zd" :: rest => bin (.zipMap (List.zipWith K.sub)) rest
    | "zl" :: rest => bin (.zipMap fun x _ => x) rest
    | "zr" :: rest => bin (.zipMap fun _ y => y) rest
    | "add" :: rest => bin .addAmp rest
    | "mul" :: rest => bin .mulAmp rest
    | "sc" :: k :: rest => match K.parse k with
      | some k => un (.scaleAmp k) rest
      | none => none
    | "of" :: k :: rest => match K.parse k with
      | some k => un (.offsetAmp k) rest
      | none => none
    | "scp" :: f :: rest => match parseFrame K f with
      | some f => un (.scaleAmpPerChannel f) rest
      | none => none
    | "ofp" :: f :: rest => match parseFrame K f with
      | some f => un (.offsetAmpPerChannel f) rest
      | none => none
    | "cl" :: k :: rest => match K.parse k with
      | some k => un (.clipAmp k) rest
      | none => none
    | "ins" :: rest => (parseTree nch hole fuel rest).map fun (s, r, h) => (St.inspect [] s, r, h)
    | "dl" :: k :: rest => match k.toNat? with
      | some k => (parseTree nch hole fuel rest).map fun (s, r, h) => (St.delay k s, r, h)
      | none => none
    | "_" :: rest => hole.map fun b => (.byRef b, rest, 1)
    | _ => none

/-- `j × next` (with `is_exhausted` before each and once after when `withE`) -/
def stepCtx (withE : Bool) : Nat → St α → List String → List String × St α
  | 0, s, acc => ((if withE then showBool (isExhausted s) :: acc else acc).reverse, s)
  | j + 1, s, acc =>
    let acc := if withE then showBool (isExhausted s) :: acc else acc
    let r := next K.ops s
    stepCtx withE j r.2 (showFrame K r.1 :: acc)

/-- run the op script; `acc` is the reversed reply -/
def runOps (nch : Nat) : Nat → St α → List String → List String → Option (List String × St α)
  | 0, _, _, _ => none
  | _ + 1, base, [], acc => some (acc.reverse, base)
  | fuel + 1, base, "n" :: rest, acc =>
    let r := next K.ops base
    runOps nch fuel r.2 rest (showFrame K r.1 :: acc)
  | fuel + 1, base, "e" :: rest, acc => runOps nch fuel base rest (showBool (isExhausted base) :: acc)
  | fuel + 1, base, op :: j :: rest, acc =>
    if op == "r" || op == "R" then
      match j.toNat?, parseTree K nch (some base) (rest.length + 1) rest with
      | some j, some (ctx, rest', 1) =>
        let (obs, ctx') := stepCtx K (op == "R") j ctx []
        match ctx'.borrows with
        | [base'] =>
          let tail := ["p"] ++ ctx'.pulls.map toString ++ ["c"] ++ ctx'.calls.map toString ++ ["g"] ++
            (if ctx'.logs.isEmpty then [] else [showLogs K ctx'.logs]) ++ ["]"]
          runOps nch fuel base' rest' ((["["] ++ obs ++ tail).reverse ++ acc)
        | _ => none
      | _, _ => none
    else if op == "t" || op == "tn" then
      match j.toNat?, rest with
      | some n, m :: rest' =>
        match m.toNat? with
        | some m =>
          let (obs, t) := runOpt (TakeSt.next K.ops) m ⟨n, .byRef base⟩
          match t.sig.borrows with
          | [base'] => runOps nch fuel base' rest' ((["["] ++ lastIf (op == "tn") (obs.map (showOptFrame K)) ++ ["]"]).reverse ++ acc)
          | _ => none
        | none => none
      | _, _ => none
    else if op == "u" || op == "un" then
      match j.toNat? with
      | some m =>
        let (obs, s) := runOpt (untilNext K.ops) m (.byRef base)
        match s.borrows with
        | [base'] => runOps nch fuel base' rest ((["["] ++ lastIf (op == "un") (obs.map (showOptFrame K)) ++ ["]"]).reverse ++ acc)
        | _ => none
      | none => none
    else if op == "i" || op == "in" then
      match j.toNat? with
      | some m =>
        let (obs, t) := runOpt (ILSt.nextSample K.ops) m ⟨none, .byRef base⟩
        let shw : Option α → String := fun | none => "none" | some x => K.shw x
        match t.sig.borrows with
        | [base'] => runOps nch fuel base' rest ((["["] ++ lastIf (op == "in") (obs.map shw) ++ ["]"]).reverse ++ acc)
        | _ => none
      | none => none
    else if op == "l" then
      match j.toNat?, parseFrames K rest with
      | some m, some (fs, rest') =>
        -- the hole of the context is the fresh `FromIterator`; it is owned, not borrowed
        match parseTree K nch (some (.equilibrium 0)) (rest'.length + 1) rest' with
        | some (_, rest'', 1) =>
          let build : St α → St α := fun src =>
            match parseTree K nch (some src) (rest'.length + 1) rest' with
            | some (s, _, _) => s
            | none => src
          -- `parseTree` wraps the hole in `byRef`; read the iterator's call count off the borrow
          let (obs, s) := runOpt (untilNext K.ops) m (lift fs build)
          let calls := (s.borrows.map St.calls).flatten
          runOps nch fuel base rest'' ((["["] ++ obs.map (showOptFrame K) ++ ["c"] ++ calls.map toString ++ ["]"]).reverse ++ acc)
        | _ => none
      | _, _ => none
    else none
  | _, _, _, _ => none

/-- split at the first `|` token -/
def splitBar : List String → Option (List String × List String)
  | [] => none
  | "|" :: rest => some ([], rest)
  | t :: rest => (splitBar rest).map fun (a, b) => (t :: a, b)

def runCase (nch : Nat) (ts : List String) : String :=
  match splitBar ts with
  | some (tree, ops) =>
    match parseTree K nch none (tree.length + 1) tree with
    | some (base, [], _) =>
      match runOps K nch (ops.length + 1) base ops [] with
      | some (obs, b) =>
        " ".intercalate ((obs ++ ["|", showNats b.pulls, "|", showNats b.calls, "|", showLogs K b.logs]).filter (· ≠ ""))
      | none => "bad-op"
    | _ => "bad-op"
  | none => "bad-op"
end

def i32lo : Int := -2147483648
def i32hi : Int := 2147483647

/-- both streams share the case syntax -/
def sigLine (args : List String) : String :=
  match args with
  | "d1" :: rest => runCase f64Kind 1 rest
  | "i2" :: rest => runCase (intKind 2 i32lo i32hi) 2 rest
  | "i3" :: rest => runCase (intKind 3 i32lo i32hi) 3 rest
  | "s2" :: rest => runCase (intKind 2 (-32768) 32767) 2 rest
  | "w2" :: rest => runCase (uKind 32768 (-32768) 32767) 2 rest
  | "x2" :: rest => runCase (uKind 2147483648 i32lo i32hi) 2 rest
  | "l2" :: rest => runCase (intKind 2 (-9223372036854775808) 9223372036854775807) 2 rest
  | "y2" :: rest => runCase (uKind 9223372036854775808 (-9223372036854775808) 9223372036854775807) 2 rest
  | "g2" :: rest => runCase f32Kind 2 rest
  | _ => "bad-op"

end Dasp.Driver
