import Dasp.Driver.Loop
import Dasp.Driver.Rms
import Dasp.Model.Envelope
/-! Driver streams of C19: `rect` (the three rectifiers, float and integer formats), `env`
    (`Detector` histories), `envsig` (through `detect_envelope`) — the definitions of
    `Model/Peak.lean` / `Model/Envelope.lean` at the native `Float32` / `Float`; gains are `Float32`,
    `powf32(E, y)` is `Float32.pow` of the same libm. Floats travel as decimal bit patterns. -/
namespace Dasp.Driver
open Dasp Dasp.Envelope Dasp.Peak

/-- `powf32(core::f32::consts::E, y)` -/
def expF32 (y : Float32) : Float32 := Float32.pow (Float32.ofBits 0x402df854) y

def chunksAux {β : Type} (n : Nat) : Nat → List β → List (List β)
  | 0, _ => []
  | _, [] => []
  | fuel + 1, l => l.take n :: chunksAux n fuel (l.drop n)

/-- consecutive frames of `n` samples -/
def chunks {β : Type} (n : Nat) (l : List β) : List (List β) := if n = 0 then [] else chunksAux n l.length l

def rectFloat {α : Type} [Arith α] (io : FloatIO α) (kind : String) (ch : Nat) (vs : List String) : String :=
  match vs.mapM io.parse with
  | none => "bad-op"
  | some xs =>
    let f? : Option (α → α) := match kind with
      | "fw" => some fullWaveF | "ph" => some positiveHalfWaveF | "nh" => some negativeHalfWaveF | _ => none
    match f? with
    | none => "bad-op"
    | some f => " ".intercalate ((chunks ch xs).map fun fr => printFrame io (fr.map f))

def rectInt (fmt : IFmt) (kind : String) (checked : Bool) (ch : Nat) (vs : List String) : String :=
  match vs.mapM String.toInt? with
  | none => "bad-op"
  | some xs =>
    let f? : Option (Int → Option Int) := match kind with
      | "fw" => some (fullWaveI fmt checked)
      | "ph" => some (fun s => some (positiveHalfWaveI fmt s))
      | "nh" => some (fun s => some (negativeHalfWaveI fmt s))
      | _ => none
    match f? with
    | none => "bad-op"
    | some f => " ".intercalate ((chunks ch xs).map fun fr =>
        match fr.mapM f with
        | none => "panic"
        | some ys => ",".intercalate (ys.map toString))

/-- `rect <fmt> <fw|ph|nh> <checked 0|1> <ch> v…` -/
def rectLine : List String → String
  | fmt :: kind :: chk :: ch :: vs =>
    match ch.toNat? with
    | none => "bad-op"
    | some ch =>
      if ch = 0 ∨ (chk ≠ "0" ∧ chk ≠ "1") then "bad-op" else
      match fmt with
      | "f32" => rectFloat io32 kind ch vs
      | "f64" => rectFloat io64 kind ch vs
      | "i16" => rectInt .i16 kind (chk = "1") ch vs
      | "u8" => rectInt .u8 kind (chk = "1") ch vs
      | "i8" => rectInt .i8 kind (chk = "1") ch vs
      | "u16" => rectInt .u16 kind (chk = "1") ch vs
      | _ => "bad-op"
  | _ => "bad-op"

def parseGain (s : String) : Option Float32 := io32.parse s

def parseEnvOp {α : Type} (io : FloatIO α) (ch : Nat) (t : String) : Option (Op Float32 (List α)) :=
  if t.startsWith "n:" then (parseFrame io ch (t.drop 2).toString).map .next
  else if t.startsWith "a:" then (parseGain (t.drop 2).toString).map .setAttack
  else if t.startsWith "r:" then (parseGain (t.drop 2).toString).map .setRelease
  else none

def printEnvObs {α : Type} (io : FloatIO α) : Option (List α) → String
  | some f => printFrame io f
  | none => "-"

/-- the detector named on the request line, with its initial state, packed existentially by running it -/
def envRun {α : Type} [Arith α] (io : FloatIO α) (ofGain : Float32 → α) (det : String) (ch : Nat)
    (a r : Float32) (ops : List (Op Float32 (List α))) (adaptor : Bool) : Option (List String) :=
  let go {δ : Type} (d0 : δ) (detect : δ → List α → δ × List α) : List String :=
    let D : Detector Float32 α δ := Detector.new expF32 ch d0 a r
    if adaptor then
      let frames := ops.filterMap fun | .next f => some f | _ => none
      let ops' : List (Op Float32 Unit) := ops.map fun
        | .next _ => .next () | .setAttack x => .setAttack x | .setRelease x => .setRelease x
      let A : Adaptor Float32 α δ (List α) := ⟨frames, List.replicate ch Arith.zero, D, 0⟩
      let (A', os) := A.run expF32 ofGain detect ops'
      os.map (printEnvObs io) ++ ["p" ++ toString A'.pulls]
    else (D.run expF32 ofGain detect ops).2.map (printEnvObs io)
  match det with
  | "fw" => some (go () (detectPeak fullWaveF))
  | "ph" => some (go () (detectPeak positiveHalfWaveF))
  | "nh" => some (go () (detectPeak negativeHalfWaveF))
  | _ =>
    if det.startsWith "rms" then
      match (det.drop 3).toString.toNat? with
      | some n => if n = 0 then none else some (go (Rms.Rms.init ch n : Rms.Rms α) (detectRms io.sqrtStd))
      | none => none
    else none

/-- `<fw|ph|nh|rmsN> <ch> <attack f32 bits> <release f32 bits> op…` in one format -/
def envWith {α : Type} [Arith α] (io : FloatIO α) (ofGain : Float32 → α) (adaptor : Bool) (args : List String) : String :=
  match args with
  | det :: ch :: a :: r :: ops =>
    match ch.toNat?, parseGain a, parseGain r with
    | some ch, some a, some r =>
      if ch = 0 then "bad-op" else
      -- `x` = one more `next()` on the adaptor after the source ran dry (silence)
      let ops := ops.map fun t => if t = "x" then "n:" ++ ",".intercalate (List.replicate ch "0") else t
      match ops.mapM (parseEnvOp io ch) with
      | none => "bad-op"
      | some ops => match envRun io ofGain det ch a r ops adaptor with
        | some out => " ".intercalate out
        | none => "bad-op"
    | _, _, _ => "bad-op"
  | _ => "bad-op"

def envLine (adaptor : Bool) : List String → String
  | "f32" :: rest => envWith io32 id adaptor rest
  | "f64" :: rest => envWith io64 Float32.toFloat adaptor rest
  | _ => "bad-op"

end Dasp.Driver
