import Dasp.Gen.Conv
/-! Driver streams `i2f`, `f2i`, `f2f`: execute the regenerated float conversion shapes on the
    soft-float of `Machine/FP.lean`.  Floats travel as decimal bit patterns. Core Lean only. -/
namespace Dasp.Driver
open Dasp Dasp.Gen

def ffmtOf? : String → Option FFmt
  | "f32" => some .f32 | "f64" => some .f64 | _ => none

/-- `i2f <src> <f32|f64> v…` → bit pattern of the converted float per value -/
def i2fLine (args : List String) : String :=
  match args with
  | src :: dst :: vs =>
    match Fmt.ofString? src, ffmtOf? dst with
    | some s, some p =>
      let c := i2fTable s p
      " ".intercalate (vs.map fun t => match t.toInt? with
        | none => "bad-int"
        | some v => toString (p.toBits (c.i2fVal v)))
    | _, _ => "bad-op"
  | _ => "bad-op"

/-- `f2i <f32|f64> <dst> bits…` → converted integer per float bit pattern -/
def f2iLine (args : List String) : String :=
  match args with
  | src :: dst :: vs =>
    match ffmtOf? src, Fmt.ofString? dst with
    | some p, some d =>
      let c := f2iTable p d
      " ".intercalate (vs.map fun t => match t.toNat? with
        | none => "bad-bits"
        | some b => toString (c.f2iVal (p.ofBits b)))
    | _, _ => "bad-op"
  | _ => "bad-op"

/-- `f2f <src> <dst> bits…` -/
def f2fLine (args : List String) : String :=
  match args with
  | src :: dst :: vs =>
    match ffmtOf? src, ffmtOf? dst with
    | some a, some b =>
      let c := f2fTable a b
      " ".intercalate (vs.map fun t => match t.toNat? with
        | none => "bad-bits"
        | some x => toString (b.toBits (c.f2fVal (a.ofBits x))))
    | _, _ => "bad-op"
  | _ => "bad-op"

end Dasp.Driver
