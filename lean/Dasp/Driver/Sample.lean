import Dasp.Model.Sample
import Dasp.Driver.Loop
/-! Driver streams for C03: sample amplitude arithmetic and frame operations. Core Lean only.
    Integers travel in decimal, floats as decimal bit patterns of their format. -/
namespace Dasp.Driver
open Dasp Dasp.Gen Dasp.Model

def ffmtOf2? : String → Option FFmt
  | "f32" => some .f32 | "f64" => some .f64 | _ => none

/-- a sample value of any of the 14 formats -/
inductive SV | i (v : Int) | f (x : FP)

inductive SF | int (f : Fmt) | flt (p : FFmt)
def sfOf? (s : String) : Option SF :=
  match Fmt.ofString? s with
  | some f => some (.int f)
  | none => (ffmtOf2? s).map .flt

def SF.floatFmt : SF → FFmt | .int f => floatOf f | .flt p => p
def SF.parse (t : SF) (s : String) : SV :=
  match t with
  | .int _ => .i (intOf s)
  | .flt p => .f (p.ofBits (natOf s))
def SF.show (t : SF) : SV → String
  | .i v => toString v
  | .f x => match t with
    | .flt p => toString (p.toBits x)
    | .int f => toString ((floatOf f).toBits x)
/-- amplitude argument of `add_amp`: a value of the Signed format -/
def SF.parseSigned (t : SF) (s : String) : SV := match t with
  | .int _ => .i (intOf s) | .flt p => .f (p.ofBits (natOf s))
def SF.parseFloat (t : SF) (s : String) : FP := t.floatFmt.ofBits (natOf s)

def sAddAmp (t : SF) (v a : SV) : SV :=
  match t, v, a with
  | .int f, .i x, .i y => .i (addAmpI f x y)
  | .flt p, .f x, .f y => .f (addAmpF p x y)
  | _, v, _ => v
def sMulAmp (t : SF) (v : SV) (a : FP) : SV :=
  match t, v with
  | .int f, .i x => .i (mulAmpI f x a)
  | .flt p, .f x => .f (mulAmpF p x a)
  | _, v => v
def sToSigned (t : SF) (v : SV) : SV := match t, v with
  | .int f, .i x => .i (convI f (signedOf f) x) | _, v => v
def sToFloat (t : SF) (v : SV) : SV := match t, v with
  | .int f, .i x => .f (toFloatI f x) | _, v => v
def sEq (t : SF) : SV := match t with | .int f => .i (equilibrium f) | .flt _ => .f (.fin false 0)
def SF.signedFmt : SF → SF | .int f => .int (signedOf f) | .flt p => .flt p
def SF.floatSF : SF → SF | .int f => .flt (floatOf f) | .flt p => .flt p

def pairs : List String → List (String × String)
  | a :: b :: rest => (a, b) :: pairs rest
  | _ => []

/-- `addamp <fmt> v a v a …` / `mulamp <fmt> v abits v abits …` -/
def sampleLine (op : String) (args : List String) : String :=
  match args with
  | fmt :: rest =>
    match sfOf? fmt with
    | some t =>
      if op == "addamp" then
        " ".intercalate ((pairs rest).map fun (v, a) => t.show (sAddAmp t (t.parse v) (t.parseSigned a)))
      else if op == "mulamp" then
        " ".intercalate ((pairs rest).map fun (v, a) => t.show (sMulAmp t (t.parse v) (t.parseFloat a)))
      else "bad-op"
    | none => "bad-op"
  | _ => "bad-op"

def showFrame (t : SF) (fr : List SV) : String := " ".intercalate (fr.map t.show)

/-- `fr <op> <fmt> <n> …` -/
def frameLine (args : List String) : String :=
  match args with
  | op :: fmt :: ns :: rest =>
    match sfOf? fmt with
    | none => "bad-op"
    | some t =>
      let n := natOf ns
      let d : SV := sEq t
      match op with
      | "offset" => match rest with
        | a :: vs => if vs.length ≠ n then "bad-op" else
          showFrame t (offsetAmp d n (vs.map t.parse) (sAddAmp t) (t.parseSigned a))
        | _ => "bad-op"
      | "scale" => match rest with
        | a :: vs => if vs.length ≠ n then "bad-op" else
          showFrame t (scaleAmp d n (vs.map t.parse) (sMulAmp t) (t.parseFloat a))
        | _ => "bad-op"
      | "add" => if rest.length ≠ 2 * n then "bad-op" else
          showFrame t (addAmpFr d (sEq t.signedFmt) n ((rest.take n).map t.parse) ((rest.drop n).map t.parseSigned) (sAddAmp t))
      | "mul" => if rest.length ≠ 2 * n then "bad-op" else
          showFrame t (mulAmpFr d (FP.fin false 0) n ((rest.take n).map t.parse) ((rest.drop n).map t.parseFloat) (sMulAmp t))
      | "signed" => if rest.length ≠ n then "bad-op" else
          showFrame t.signedFmt (convFrame d n (rest.map t.parse) (sToSigned t))
      | "float" => if rest.length ≠ n then "bad-op" else
          showFrame t.floatSF (convFrame d n (rest.map t.parse) (sToFloat t))
      | "eq" => showFrame t (equilibriumFrame n (sEq t))
      | "channels" => if rest.length ≠ n then "bad-op" else showFrame t (channels (rest.map t.parse))
      | "channel" => match rest with
        | i :: vs => if vs.length ≠ n then "bad-op" else
          match channel (vs.map t.parse) (natOf i) with
          | some v => t.show v | none => "none"
        | _ => "bad-op"
      | _ => "bad-op"
  | _ => "bad-op"

/-- `fromfn <n>`: `from_fn(|i| 3*i+1)`;  `fromsamples <n> <len>`: iterator yielding 1..len;
    `zipmap <n> a… b…`: `zip_map(|a,b| 2*a+b)`; `map <n> a…`: `map(|a| a*a - 1)` (on i64 frames, no overflow) -/
def genericFrameLine (op : String) (args : List String) : String :=
  match op, args with
  | "fromfn", [ns] => " ".intercalate ((fromFn (natOf ns) fun i => 3 * i + 1).map toString)
  | "fromsamples", [ns, ls] =>
    let xs := (List.range (natOf ls)).map (· + 1)
    match fromSamples (natOf ns) xs with
    | (some fr, rest) => "some " ++ " ".intercalate (fr.map toString) ++ " rest " ++ toString rest.length
    | (none, rest) => "none rest " ++ toString rest.length
  | "zipmap", ns :: rest =>
    let n := natOf ns
    if rest.length ≠ 2 * n then "bad-op" else
    " ".intercalate ((fzipMap (0 : Int) (0 : Int) n ((rest.take n).map intOf) ((rest.drop n).map intOf) fun a b => 2 * a + b).map toString)
  | "map", ns :: rest =>
    let n := natOf ns
    if rest.length ≠ n then "bad-op" else
    " ".intercalate ((fmap (0 : Int) n (rest.map intOf) fun a => a * a - 1).map toString)
  | _, _ => "bad-op"

end Dasp.Driver
