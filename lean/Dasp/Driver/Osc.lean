import Dasp.Model.Osc
import Dasp.Model.OscFP
/-! Driver streams `osc`, `noise`, `simplex` of property C17: execute the oscillator model of
    `Model/Osc.lean` at its native-f64 instance `floatArith`.  Floats travel as 16-digit hex bit
    patterns (NaN canonicalised to 7ff8000000000000), integers in decimal.  Core Lean only. -/
namespace Dasp.Driver
open Dasp Dasp.Osc

def hexDigit? (c : Char) : Option Nat :=
  if '0' ≤ c ∧ c ≤ '9' then some (c.toNat - '0'.toNat)
  else if 'a' ≤ c ∧ c ≤ 'f' then some (c.toNat - 'a'.toNat + 10)
  else none

/-- exactly 16 lowercase hex digits -/
def hex64? (s : String) : Option Nat :=
  if s.length != 16 then none else
  s.toList.foldl (fun acc c => match acc, hexDigit? c with
    | some a, some d => some (a * 16 + d) | _, _ => none) (some 0)

def f64Of? (s : String) : Option Float := (hex64? s).map fun n => Float.ofBits (UInt64.ofNat n)

def hexOfNat (n : Nat) : String :=
  let ds := (List.range 16).map fun i => Nat.digitChar ((n >>> (4 * (15 - i))) % 16)
  String.ofList ds

def f64Hex (x : Float) : String :=
  if x.isNaN then "7ff8000000000000" else hexOfNat x.toBits.toNat

def allSome {β : Type} : List (Option β) → Option (List β)
  | [] => some []
  | none :: _ => none
  | some x :: r => (allSome r).map (x :: ·)

/-- an executable instance: arithmetic + codec of values to/from hex bit patterns -/
structure Inst (α : Type) where
  A : Arith α
  dec : String → Option α
  enc : α → String

def floatInst : Inst Float := ⟨floatArith, f64Of?, f64Hex⟩
/-- the soft-float instance (stream `fp`) -/
def fpInst : Inst FP :=
  ⟨fpArith fpSinNative, fun s => (hex64? s).map fun n => ofBits64 (UInt64.ofNat n), fun x => hexOfNat (toBits64 x).toNat⟩

variable {α : Type}

/-- interleave the four oscillator runs frame by frame: `phase sine saw square` per frame -/
def zip4 (I : Inst α) : List α → List α → List α → List α → List String
  | a :: as, b :: bs, c :: cs, d :: ds => I.enc a :: I.enc b :: I.enc c :: I.enc d :: zip4 I as bs cs ds
  | _, _, _, _ => []

def oscRun (I : Inst α) (src : StepSrc α) (n : Nat) : String :=
  let p0 := phase I.A src
  let ph := run (nextPhase I.A) n p0
  let si := run (sineNext I.A) n p0
  let sa := run (sawNext I.A) n p0
  let sq := run (squareNext I.A) n p0
  " ".intercalate (zip4 I ph.1 si.1 sa.1 sq.1) ++
    s!" pulls {ph.2.src.pulled} {si.2.src.pulled} {sa.2.src.pulled} {sq.2.src.pulled}"

/-- `osc const <rate> <hz> <n>` | `osc var <rate> <hz…>` (one output frame per hz frame) -/
def oscLine (I : Inst α) (args : List String) : String :=
  match args with
  | ["const", r, h, n] =>
    match I.dec r, I.dec h, n.toNat? with
    | some r, some h, some n => oscRun I (constHz I.A r h) n
    | _, _, _ => "bad-op"
  | "var" :: r :: hs =>
    match I.dec r, allSome (hs.map I.dec) with
    | some r, some hs => oscRun I (varHz r hs) hs.length
    | _, _ => "bad-op"
  | _ => "bad-op"

def simplexRun (I : Inst α) (src : StepSrc α) (n : Nat) : String :=
  let r := run (simplexNext I.A) n (phase I.A src)
  " ".intercalate (r.1.map I.enc) ++ s!" pulls {r.2.src.pulled}"

/-- `simplex const <rate> <hz> <n>` | `simplex var <rate> <hz…>` -/
def simplexLine (I : Inst α) (args : List String) : String :=
  match args with
  | ["const", r, h, n] =>
    match I.dec r, I.dec h, n.toNat? with
    | some r, some h, some n => simplexRun I (constHz I.A r h) n
    | _, _, _ => "bad-op"
  | "var" :: r :: hs =>
    match I.dec r, allSome (hs.map I.dec) with
    | some r, some hs => simplexRun I (varHz r hs) hs.length
    | _, _ => "bad-op"
  | _ => "bad-op"

/-- `noise <seed> <n>` → n frames of `signal::noise(seed)` -/
def noiseLine (I : Inst α) (args : List String) : String :=
  match args with
  | [s, n] =>
    match s.toNat?, n.toNat? with
    | some s, some n =>
      if s ≥ M64 then "bad-op" else
      " ".intercalate ((run (noiseNext I.A) n (noise s)).1.map I.enc)
    | _, _ => "bad-op"
  | _ => "bad-op"

/-- `fp osc …` | `fp simplex …` | `fp noise …`: the same requests at the soft-float instance -/
def fpLine (args : List String) : String :=
  match args with
  | "osc" :: rest => oscLine fpInst rest
  | "simplex" :: rest => simplexLine fpInst rest
  | "noise" :: rest => noiseLine fpInst rest
  | _ => "bad-op"

end Dasp.Driver
