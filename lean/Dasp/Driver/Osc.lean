import Dasp.Model.Osc
/-! Driver streams `osc`, `noise`, `simplex` of property C17: execute the oscillator model of
    `Model/Osc.lean` at its native-f64 instance `floatArith`.  Floats travel as 16-digit hex bit
    patterns (NaN canonicalised to 7ff8000000000000), integers in decimal.  Core Lean only. -/
namespace Dasp.Driver
open Dasp Dasp.Osc

def hexDigit? (c : Char) : Option Nat :=
  if '0' ≤ c ∧ c ≤ '9' then some (c.toNat - '0'.toNat)
  else if 'a' ≤ c ∧ c ≤ 'f' then some (c.toNat - 'a'.toNat + 10)
  else none

/-- exactly 16 lowercase hex digits -/
def hex64? (s : String) : Option Nat :=
  if s.length != 16 then none else
  s.toList.foldl (fun acc c => match acc, hexDigit? c with
    | some a, some d => some (a * 16 + d) | _, _ => none) (some 0)

def f64Of? (s : String) : Option Float := (hex64? s).map fun n => Float.ofBits (UInt64.ofNat n)

def hexOfNat (n : Nat) : String :=
  let ds := (List.range 16).map fun i => Nat.digitChar ((n >>> (4 * (15 - i))) % 16)
  String.ofList ds

def f64Hex (x : Float) : String :=
  if x.isNaN then "7ff8000000000000" else hexOfNat x.toBits.toNat

def allSome {β : Type} : List (Option β) → Option (List β)
  | [] => some []
  | none :: _ => none
  | some x :: r => (allSome r).map (x :: ·)

def FA := floatArith

/-- interleave the four oscillator runs frame by frame: `phase sine saw square` per frame -/
def zip4 : List Float → List Float → List Float → List Float → List String
  | a :: as, b :: bs, c :: cs, d :: ds => f64Hex a :: f64Hex b :: f64Hex c :: f64Hex d :: zip4 as bs cs ds
  | _, _, _, _ => []

def oscRun (src : StepSrc Float) (n : Nat) : String :=
  let p0 := phase FA src
  let ph := run (nextPhase FA) n p0
  let si := run (sineNext FA) n p0
  let sa := run (sawNext FA) n p0
  let sq := run (squareNext FA) n p0
  " ".intercalate (zip4 ph.1 si.1 sa.1 sq.1) ++
    s!" pulls {ph.2.src.pulled} {si.2.src.pulled} {sa.2.src.pulled} {sq.2.src.pulled}"

/-- `osc const <rate> <hz> <n>` | `osc var <rate> <hz…>` (one output frame per hz frame) -/
def oscLine (args : List String) : String :=
  match args with
  | ["const", r, h, n] =>
    match f64Of? r, f64Of? h, n.toNat? with
    | some r, some h, some n => oscRun (constHz FA r h) n
    | _, _, _ => "bad-op"
  | "var" :: r :: hs =>
    match f64Of? r, allSome (hs.map f64Of?) with
    | some r, some hs => oscRun (varHz r hs) hs.length
    | _, _ => "bad-op"
  | _ => "bad-op"

def simplexRun (src : StepSrc Float) (n : Nat) : String :=
  let r := run (simplexNext FA) n (phase FA src)
  " ".intercalate (r.1.map f64Hex) ++ s!" pulls {r.2.src.pulled}"

/-- `simplex const <rate> <hz> <n>` | `simplex var <rate> <hz…>` -/
def simplexLine (args : List String) : String :=
  match args with
  | ["const", r, h, n] =>
    match f64Of? r, f64Of? h, n.toNat? with
    | some r, some h, some n => simplexRun (constHz FA r h) n
    | _, _, _ => "bad-op"
  | "var" :: r :: hs =>
    match f64Of? r, allSome (hs.map f64Of?) with
    | some r, some hs => simplexRun (varHz r hs) hs.length
    | _, _ => "bad-op"
  | _ => "bad-op"

/-- `noise <seed> <n>` → n frames of `signal::noise(seed)` -/
def noiseLine (args : List String) : String :=
  match args with
  | [s, n] =>
    match s.toNat?, n.toNat? with
    | some s, some n =>
      if s ≥ M64 then "bad-op" else
      " ".intercalate ((run (noiseNext FA) n (noise s)).1.map f64Hex)
    | _, _ => "bad-op"
  | _ => "bad-op"

end Dasp.Driver
