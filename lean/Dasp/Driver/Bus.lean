import Dasp.Model.Bus
/-! Driver stream `bus` (C13): executes `Dasp.Bus.run` — the definitions the theorems of
    `Dasp/Props/C13.lean` are about. Core Lean only.

    request  `bus <salt> <op>…`   with `<op>` ∈ `s` | `n<key>` | `d<key>`; the source's i-th frame is
             the integer `salt + i` (the harness's instrumented source yields the same).
    reply    one token per op: `<ret>/P<pulls>/B<backlog length>/<key>:<pending>,…` where `<ret>` is
             `k<key>` (send), `f<frame>` (next), `d` (drop) and the pending list covers every live
             output in ascending key order (`-` when none is live). -/
namespace Dasp.Driver
open Dasp.Bus

def parseBusOp (t : String) : Option Op :=
  if t == "s" then some .send
  else match t.toList with
    | 'n' :: r => (String.ofList r).toNat?.map .next
    | 'd' :: r => (String.ofList r).toNat?.map .drop
    | _ => none

def parseAll {β : Type} (f : String → Option β) : List String → Option (List β)
  | [] => some []
  | t :: ts => match f t, parseAll f ts with
    | some x, some xs => some (x :: xs)
    | _, _ => none

def showRet : Ret Int → String
  | .key k => s!"k{k}"
  | .frame f => s!"f{f}"
  | .unit => "d"

def showBusObs (r : Ret Int × St Int) : String :=
  let pend := allPending r.2
  let ps := if pend.isEmpty then "-" else ",".intercalate (pend.map fun p => s!"{p.1}:{p.2}")
  s!"{showRet r.1}/P{r.2.pos}/B{backlogLen r.2}/{ps}"

def busLine (args : List String) : String :=
  match args with
  | salt :: ops =>
    match salt.toInt?, parseAll parseBusOp ops with
    | some sv, some os =>
      match run (fun i => sv + (i : Int)) (init : St Int) os with
      | some obs => " ".intercalate (obs.map showBusObs)
      | none => "bad-op"
    | _, _ => "bad-op"
  | _ => "bad-op"

end Dasp.Driver
