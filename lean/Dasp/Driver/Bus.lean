import Dasp.Model.Bus
/-! Driver stream `bus` (C13): executes `Dasp.Bus.runX` (= `Dasp.Bus.step` per operation, the definitions
    the theorems of `Dasp/Props/C13.lean` are about, plus the composite `untilExhausted`). Core Lean only.

    request  `bus <salt> <len|inf> <op>…`   with `<op>` ∈ `s` (send) | `n<key>` (next) | `d<key>` (drop output)
             | `b` (drop the Bus handle) | `u<key>` (`until_exhausted()` over the output, at most 200 frames,
             then the output is dropped). The source's i-th frame is `salt + i` for `i < len` and the
             equilibrium 0 afterwards; it reports exhaustion once `len` frames were pulled (`inf`: never).
    reply    one token per op: `<ret>/P<pulls>/B<backlog length>/<key>:<pending>[x],…` where `<ret>` is
             `k<key>` (send), `f<frame>` (next), `d` (drop / handle drop), `u<f>_<f>…` (until_exhausted);
             `B-` once the handle is gone (the hook lives on `Bus`); the list covers every live output in
             ascending key order (`-` when none), `x` marks `is_exhausted()`. -/
namespace Dasp.Driver
open Dasp.Bus

def parseBusOp (t : String) : Option XOp :=
  if t == "s" then some (.op .send)
  else if t == "b" then some (.op .dropBus)
  else match t.toList with
    | 'n' :: r => (String.ofList r).toNat?.map fun k => .op (.next k)
    | 'd' :: r => (String.ofList r).toNat?.map fun k => .op (.drop k)
    | 'u' :: r => (String.ofList r).toNat?.map .untilEx
    | _ => none

/-- bound on the frames one `until_exhausted` may yield in a request (the harness uses the same) -/
def untilCap : Nat := 200

def parseAll {β : Type} (f : String → Option β) : List String → Option (List β)
  | [] => some []
  | t :: ts => match f t, parseAll f ts with
    | some x, some xs => some (x :: xs)
    | _, _ => none

def showRet : XRet Int → String
  | .ret (.key k) => s!"k{k}"
  | .ret (.frame f) => s!"f{f}"
  | .ret .unit => "d"
  | .frames l => "u" ++ "_".intercalate (l.map toString)

def showBusObs (srcDone : Nat → Bool) (r : XRet Int × St Int) : String :=
  let pend := allPending r.2
  let ps := if pend.isEmpty then "-" else ",".intercalate (pend.map fun p =>
    let x := if isExhausted srcDone r.2 p.1 == some true then "x" else ""
    s!"{p.1}:{p.2}{x}")
  let b := if r.2.handle then toString (backlogLen r.2) else "-"
  s!"{showRet r.1}/P{r.2.pos}/B{b}/{ps}"

def busLine (args : List String) : String :=
  match args with
  | salt :: len :: ops =>
    let lenv : Option (Option Nat) := if len == "inf" then some none else len.toNat?.map some
    match salt.toInt?, lenv, parseAll parseBusOp ops with
    | some sv, some ln, some os =>
      let src : Nat → Int := fun i => match ln with
        | none => sv + (i : Int)
        | some n => if i < n then sv + (i : Int) else 0
      let srcDone : Nat → Bool := fun p => match ln with
        | none => false
        | some n => decide (n ≤ p)
      match runX src srcDone (untilCap + 1) (init : St Int) os with
      | some obs => " ".intercalate (obs.map (showBusObs srcDone))
      | none => "bad-op"
    | _, _, _ => "bad-op"
  | _ => "bad-op"

end Dasp.Driver
