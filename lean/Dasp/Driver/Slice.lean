import Dasp.Model.Slice
/-! Driver streams `view`, `boxed`, `ops` of C10: executes `Dasp/Model/Slice.lean`. Core Lean only.
    Samples travel as integer labels (the harness maps every sample format to small integers on
    which the frame operations used here are exact). -/
namespace Dasp.Driver
open Dasp.Slice

private def splitBar (ts : List String) : List (List String) :=
  let r := ts.foldl (fun (acc : List (List String) × List String) t =>
    if t == "|" then (acc.2.reverse :: acc.1, []) else (acc.1, t :: acc.2)) ([], [])
  (r.2.reverse :: r.1).reverse

private def ints? (vs : List String) : Option (List Int) := vs.mapM String.toInt?
private def nat? (s : String) : Option Nat := s.toNat?

private def showOpt : Option Int → String
  | some v => toString v
  | none => "oob"

private def showFrame (f : List (Option Int)) : String := ",".intercalate (f.map showOpt)
private def showFrames (fs : List (List (Option Int))) : String :=
  if fs.isEmpty then "-" else ";".intercalate (fs.map showFrame)
private def showList (l : List Int) : String := if l.isEmpty then "-" else ",".intercalate (l.map toString)
private def showOptList (l : List (Option Int)) : String := if l.isEmpty then "-" else ",".intercalate (l.map showOpt)

private def triples : List Int → Option (List (Nat × Nat × Int))
  | [] => some []
  | i :: c :: v :: r => if i < 0 || c < 0 then none else (triples r).map ((i.toNat, c.toNat, v) :: ·)
  | _ => none

private def okN (n : Nat) : Bool := 1 ≤ n && n ≤ 32

/-- `view <shared|mut> <N> <base> <L> | buffer… | i ch v …` -/
def viewLine (args : List String) : String :=
  match splitBar args with
  | [[kind, n, base, len], buf, ws] =>
    match nat? n, nat? base, nat? len, ints? buf, (ints? ws).bind triples with
    | some n, some base, some len, some mem, some ws =>
      if !okN n || base + len > mem.length || (kind != "shared" && kind != "mut") || (kind == "shared" && !ws.isEmpty) then "bad-op" else
      let s : SView := ⟨base, len⟩
      match toFrameSlice n s with
      | none => "none"
      | some fv =>
        let mem' := ws.foldl (fun m (i, c, v) => fv.set m i c v) mem
        let back := toSampleSlice fv
        s!"some {fv.frames} @{fv.base} | {showFrames (fv.toList mem)} | back @{back.base} {back.len} | {showList mem'}"
    | _, _, _, _, _ => "bad-op"
  | _ => "bad-op"

/-- `fview <shared|mut> <N> <baseFrame> <F> | buffer (a multiple of N labels)`:
    a slice of frames viewed as samples, and back -/
def fviewLine (args : List String) : String :=
  match splitBar args with
  | [[kind, n, bf, f], buf] =>
    match nat? n, nat? bf, nat? f, ints? buf with
    | some n, some bf, some f, some mem =>
      if !okN n || mem.length % n != 0 || (bf + f) * n > mem.length || (kind != "shared" && kind != "mut") then "bad-op" else
      let fv : FView := ⟨bf * n, f, n⟩
      let s := toSampleSlice fv
      let back := match toFrameSlice n s with
        | some b => s!"some {b.frames} @{b.base}"
        | none => "none"
      s!"@{s.base} {s.len} | {showOptList (s.toList mem)} | back {back}"
    | _, _, _, _ => "bad-op"
  | _ => "bad-op"

/-- bytes still live after every remaining box value has been dropped: leaked memory -/
private def leaked (h : Heap) : Nat := (h.owned.foldl Heap.drop h).liveBytes

/-- `box <N> <L> <elemsize> | labels`: `Box<[S]>` → `Option<Box<[[S;N]]>>` → back -/
def boxLine (args : List String) : String :=
  match splitBar args with
  | [[n, len, size], buf] =>
    match nat? n, nat? len, nat? size, ints? buf with
    | some n, some len, some size, some mem =>
      if !okN n || mem.length != len || size == 0 then "bad-op" else
      let (h0, id) := Heap.empty.alloc (len * size)
      let b : SBox := ⟨id, ⟨0, len⟩⟩
      let (h1, r) := fromBoxedSampleSlice n h0 b
      let d1 : Int := (h1.liveBytes : Int) - h0.liveBytes
      match r with
      | none => s!"none allocs={h1.next - h0.next} dlive={d1} leaked={leaked h1}"
      | some fb =>
        let (h2, sb) := fromBoxedFrameSlice h1 fb
        let d2 : Int := (h2.liveBytes : Int) - h1.liveBytes
        s!"some {fb.view.frames} @{fb.view.base} allocs={h1.next - h0.next} dlive={d1} | {showFrames (fb.view.toList mem)} | back @{sb.view.base} {sb.view.len} allocs={h2.next - h1.next} dlive={d2} leaked={leaked h2} | {showOptList (sb.view.toList mem)}"
    | _, _, _, _ => "bad-op"
  | _ => "bad-op"

/-- `fbox <N> <F> <elemsize> | labels`: `Box<[[S;N]]>` → `Box<[S]>` → back -/
def fboxLine (args : List String) : String :=
  match splitBar args with
  | [[n, f, size], buf] =>
    match nat? n, nat? f, nat? size, ints? buf with
    | some n, some f, some size, some mem =>
      if !okN n || mem.length != f * n || size == 0 then "bad-op" else
      let (h0, id) := Heap.empty.alloc (f * n * size)
      let fb : FBox := ⟨id, ⟨0, f, n⟩⟩
      let (h1, sb) := fromBoxedFrameSlice h0 fb
      let d1 : Int := (h1.liveBytes : Int) - h0.liveBytes
      let (h2, r) := fromBoxedSampleSlice n h1 sb
      let d2 : Int := (h2.liveBytes : Int) - h1.liveBytes
      let back := match r with
        | some b => s!"some {b.view.frames} @{b.view.base} allocs={h2.next - h1.next} dlive={d2} leaked={leaked h2}"
        | none => s!"none allocs={h2.next - h1.next} dlive={d2} leaked={leaked h2}"
      s!"@{sb.view.base} {sb.view.len} allocs={h1.next - h0.next} dlive={d1} | {showOptList (sb.view.toList mem)} | back {back}"
    | _, _, _, _ => "bad-op"
  | _ => "bad-op"

/-- split a flat label list into frames of `n` channels -/
private def chunk (n : Nat) : Nat → List Int → List (List Int)
  | 0, _ => []
  | k + 1, l => l.take n :: chunk n k (l.drop n)

private def showF (fs : List (List Int)) : String :=
  if fs.isEmpty then "-" else ";".intercalate (fs.map fun f => ",".intercalate (f.map toString))

private def showRes : Res (List (List Int)) → String
  | .ok a => s!"ok | {showF a}"
  | .panic a => s!"panic | {showF a}"
  | .ub => "ub"

/-- equilibrium label of a sample format: half range for the unsigned formats, 0 otherwise -/
private def eqLabel : String → Option Int
  | "u8" => some 128 | "i16" => some 0 | "i24" => some 0 | "f32" => some 0 | "f64" => some 0 | "i64" => some 0
  | _ => none

/-- `ops <name> <fmt> <N> <la> <lb> | a labels | b labels | amp labels`.
    The frame operations on labels (exact on the harness's small-integer domain):
    `map`: channel-wise `2x+1`; `zipmap`: channel-wise `3x+y`; `add`: `x+y`; `addamp`: `x + y*amp[ch]`. -/
def opsLine (args : List String) : String :=
  match splitBar args with
  | [[name, fmt, n, la, lb], as, bs, amps] =>
    match eqLabel fmt, nat? n, nat? la, nat? lb, ints? as, ints? bs, ints? amps with
    | some eq, some n, some la, some lb, some as, some bs, some amp =>
      if !okN n || as.length != la * n || bs.length != lb * n then "bad-op" else
      let a := chunk n la as
      let b := chunk n lb bs
      let zipw (f : Int → Int → Int) (x y : List Int) : List Int := List.zipWith f x y
      match name with
      | "equilibrium" => if lb != 0 || !amp.isEmpty then "bad-op" else showRes (.ok (equilibrium a (List.replicate n eq)))
      | "map" => if lb != 0 || !amp.isEmpty then "bad-op" else
          s!"{showRes (.ok (mapInPlace a (fun f => f.map (fun x => 2 * x + 1))))} | calls {showF a}"
      | "zipmap" => if !amp.isEmpty then "bad-op" else
          let r := zipMapInPlace a b (zipw (fun x y => 3 * x + y))
          let calls := match r with | .ok _ => showF (List.zipWith (· ++ ·) a b) | _ => "-"
          s!"{showRes r} | calls {calls}"
      | "write" => if !amp.isEmpty then "bad-op" else showRes (write a b)
      | "add" => if !amp.isEmpty then "bad-op" else showRes (addInPlace (zipw (· + ·)) a b)
      | "addamp" => if amp.length != n then "bad-op" else
          showRes (addInPlaceWithAmpPerChannel (zipw (· + ·)) (fun (bf : List Int) (am : List Int) => zipw (· * ·) bf am) a b amp)
      | _ => "bad-op"
    | _, _, _, _, _, _, _ => "bad-op"
  | _ => "bad-op"

end Dasp.Driver
