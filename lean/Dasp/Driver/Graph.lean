import Dasp.Model.Graph
/-! Driver stream `proc` (C09): executes `Dasp.Graph.process`, `sources`, `sinks`. Core Lean only. -/
namespace Dasp.Driver
open Dasp.Graph

/-- `-` = empty list, else comma-separated naturals -/
def natList? (s : String) : Option (List Nat) :=
  if s == "-" then some [] else (s.splitOn ",").mapM String.toNat?

def showList (l : List Nat) : String :=
  if l.isEmpty then "-" else ",".intercalate (l.map toString)

/-- the stateless node function the instrumented harness nodes compute (integers < 4093, exact in f32):
    depends on the node, on every input value and on the input order -/
def hashNode (n : Nat) (ins : List Nat) : Nat :=
  let rec go (k : Nat) (l : List Nat) (acc : Nat) : Nat :=
    match l with
    | [] => acc
    | x :: t => go (k + 1) t (acc + (2 * k + 3) * x)
  (go 0 ins (31 * (n + 1))) % 4093

def bitsOf? (s : String) (n : Nat) : Option (List Bool) :=
  if s == "-" then (if n = 0 then some [] else none)
  else
    let cs := s.toList
    if cs.length = n ∧ cs.all (fun c => c == '0' || c == '1') then some (cs.map (· == '1')) else none

def takeLists? (k : Nat) (toks : List String) : Option (List (List Nat) × List String) :=
  match k with
  | 0 => some ([], toks)
  | k + 1 =>
    match toks with
    | [] => none
    | t :: rest => do
      let l ← natList? t
      let (ls, rest') ← takeLists? k rest
      pure (l :: ls, rest')

/-- roots of one line: `-` or comma-separated `r` / `r!k` (call on output node `r` during which the
    user node `k` panics) -/
def rootList? (s : String) : Option (List (Nat × Option Nat)) :=
  if s == "-" then some [] else
    (s.splitOn ",").mapM fun t =>
      match t.splitOn "!" with
      | [r] => r.toNat?.map fun r => (r, none)
      | [r, k] => match r.toNat?, k.toNat? with
        | some r, some k => some (r, some k)
        | _, _ => none
      | _ => none

def pgOf (bound : Nat) (live : List Bool) (inc outg : List (List Nat)) : PG :=
  let liveA := live.toArray; let incA := inc.toArray; let outA := outg.toArray
  { bound := bound, live := fun n => liveA.getD n false, inc := fun n => incA.getD n [], outg := fun n => outA.getD n [] }

/-- `proc <bound> <live bits> <inc_0> … <inc_{bound-1}> <out_0> … <out_{bound-1}> <initial values> <roots>`
    → per root `n<inputs|n<inputs|…=<values after the call>` (or `panic`), then `src:` and `snk:` lists.
    One `Proc` is threaded through all calls of the line. -/
def procLine (args : List String) : String :=
  match args with
  | b :: lv :: rest =>
    match b.toNat? with
    | none => "bad-op"
    | some bound =>
      match bitsOf? lv bound, takeLists? bound rest with
      | some live, some (inc, rest1) =>
        match takeLists? bound rest1 with
        | some (outg, [iv, rs]) =>
          match natList? iv, rootList? rs with
          | some init, some roots =>
            if init.length ≠ bound then "bad-op" else
            let g := pgOf bound live inc outg
            let initA := init.toArray
            let buf0 : Nat → Nat := fun n => initA.getD n 0
            let rec calls (rs : List (Nat × Option Nat)) (p : Proc) (buf : Array Nat) (acc : List String) : List String :=
              match rs with
              | [] => acc.reverse
              | (r, none) :: rs' =>
                match process hashNode g p (fun n => buf.getD n 0) r with
                | none => calls rs' p buf ("panic" :: acc)
                | some res =>
                  let buf' := (List.range bound).map res.buf |>.toArray   -- memoise the buffer function
                  let lg := "|".intercalate (res.log.map fun (n, ins) => s!"{n}<{showList ins}")
                  calls rs' res.proc buf' (s!"{if lg.isEmpty then "-" else lg}={showList buf'.toList}" :: acc)
              | (r, some k) :: rs' =>
                match processAbort hashNode g p (fun n => buf.getD n 0) r k with
                | none => calls rs' p buf ("panic" :: acc)
                | some (res, unwound) =>
                  let buf' := (List.range bound).map res.buf |>.toArray
                  let lg := "|".intercalate (res.log.map fun (n, ins) => s!"{n}<{showList ins}")
                  calls rs' res.proc buf' (s!"{if unwound then "unwound:" else ""}{if lg.isEmpty then "-" else lg}={showList buf'.toList}" :: acc)
            let cs := calls roots Proc.empty ((List.range bound).map buf0 |>.toArray) []
            " ".intercalate (cs ++ [s!"src:{showList (sources g)}", s!"snk:{showList (sinks g)}"])
          | _, _ => "bad-op"
        | _ => "bad-op"
      | _, _ => "bad-op"
  | _ => "bad-op"

end Dasp.Driver
