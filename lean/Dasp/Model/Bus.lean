/-! # Model of `dasp_signal::bus` (dasp_signal/src/bus.rs) — property C13. Core Lean only.

`SharedNode` = source + `VecDeque` backlog + `BTreeMap<key, frames_read>` + `next_key`
(bus.rs:74-85). The source is a parameter `src : Nat → α` (the frame the source yields on its
`i`-th pull, `i` from 0); `pos` counts the pulls made so far, so "the source is pulled" is
`pos := pos + 1` together with the only use of `src pos`. The `BTreeMap` is an association list
(the code only uses `insert` of an absent key, `remove`, `values().any`, `values().fold(min)`,
`values_mut()`, all independent of the iteration order). `usize` is taken as 64 bit for the
`wrapping_add` of `next_key` (bus.rs:143).

`Output::next`/`pending_frames` on a key that is not registered cannot be written against
the real API (the `Output` owns its key and unregisters it in `Drop`); the model answers `none`
(the code would panic at bus.rs:182 / 218), the driver prints `bad-op`. -/
namespace Dasp.Bus

/-- 2^64: modulus of `usize::wrapping_add` (bus.rs:143) on the 64-bit target of the harness -/
def usizeMod : Nat := 18446744073709551616

structure St (α : Type) where
  pos : Nat                    -- frames pulled from the source so far (P)
  buf : List α                 -- `buffer` (bus.rs:80), oldest first
  reads : List (Nat × Nat)     -- `frames_read` (bus.rs:82): key ↦ backlog frames already consumed
  nextKey : Nat                -- `next_key` (bus.rs:84)
  handle : Bool                -- is the `Bus` handle (bus.rs:93-98) still alive? Not part of `SharedNode`:
                               -- the node is shared through `Rc`, dropping the handle changes nothing in it;
                               -- it only ends the possibility to `send` (and to read the backlog hook)

/-- `Bus::new` (bus.rs:120-129) with the empty map of `SignalBus::bus` (bus.rs:69) -/
def init {α : Type} : St α := ⟨0, [], [], 0, true⟩

def lookup (k : Nat) : List (Nat × Nat) → Option Nat
  | [] => none
  | (k', v) :: r => if k' = k then some v else lookup k r

/-- the map without key `k` (`BTreeMap::remove`) -/
def others (k : Nat) (l : List (Nat × Nat)) : List (Nat × Nat) := l.filter (fun p => p.1 != k)

/-- `Bus::send` (bus.rs:138-153): returns the new output's key -/
def send {α : Type} (s : St α) : Nat × St α :=
  (s.nextKey,
   { s with nextKey := (s.nextKey + 1) % usizeMod,
            reads := others s.nextKey s.reads ++ [(s.nextKey, s.buf.length)] })

/-- `SharedNode::next_frame` (bus.rs:177-214); `none` where the real code panics (unknown key) -/
def nextFrame {α : Type} (src : Nat → α) (s : St α) (key : Nat) : Option (α × St α) :=
  match lookup key s.reads with
  | none => none                                       -- bus.rs:182 `.expect(..)`
  | some fr =>
    let oth := others key s.reads                      -- bus.rs:181 `remove(&key)`
    -- bus.rs:184-190: read from the backlog, or pull the source and append
    let frame := if fr < s.buf.length then s.buf.getD fr (src s.pos) else src s.pos
    let buf1 := if fr < s.buf.length then s.buf else s.buf ++ [src s.pos]
    let pos1 := if fr < s.buf.length then s.pos else s.pos + 1
    -- bus.rs:194-197
    let least := !(oth.any (fun p => p.2 ≤ fr))
    if least then                                      -- bus.rs:201-206
      some (frame, { s with pos := pos1, buf := buf1.tail,
                            reads := oth.map (fun p => (p.1, p.2 - 1)) ++ [(key, fr)] })
    else                                               -- bus.rs:207-209
      some (frame, { s with pos := pos1, buf := buf1, reads := oth ++ [(key, fr + 1)] })

/-- `SharedNode::pending_frames` (bus.rs:217-219) -/
def pendingFrames {α : Type} (s : St α) (key : Nat) : Option Nat :=
  (lookup key s.reads).map (fun fr => s.buf.length - fr)

/-- `values().fold(buffer.len(), min)` (bus.rs:226-229) -/
def leastRead (len : Nat) (l : List (Nat × Nat)) : Nat := l.foldl (fun a p => min a p.2) len

/-- `SharedNode::drop_output` (bus.rs:224-238), reached only through `Drop for Output`
    (bus.rs:299-306), i.e. for a registered key; `none` otherwise -/
def dropOutput {α : Type} (s : St α) (key : Nat) : Option (St α) :=
  match lookup key s.reads with
  | none => none
  | some _ =>
    let oth := others key s.reads
    let least := leastRead s.buf.length oth
    if least > 0 then
      some { s with reads := oth.map (fun p => (p.1, p.2 - least)), buf := s.buf.drop least }
    else
      some { s with reads := oth }

/-- `Bus::verif_backlog_len` (bus.rs:164-166, verification hook) -/
def backlogLen {α : Type} (s : St α) : Nat := s.buf.length

/-- `Output::is_exhausted` (bus.rs:293-296): nothing pending and the source reports exhaustion;
    `srcDone p` = what `signal.is_exhausted()` answers after `p` pulls (observation only, for the driver) -/
def isExhausted {α : Type} (srcDone : Nat → Bool) (s : St α) (key : Nat) : Option Bool :=
  (pendingFrames s key).map (fun p => p == 0 && srcDone s.pos)

/-- dropping the `Bus` handle (it has no `Drop` impl; the `Rc` keeps the shared node alive for the
    outputs): the shared node is untouched -/
def dropBus {α : Type} (s : St α) : St α := { s with handle := false }

/-! ## Operation sequences (what the correspondence driver executes and the theorems quantify over) -/

inductive Op where
  | send
  | next (key : Nat)
  | drop (key : Nat)
  | dropBus                    -- the `Bus` handle goes out of scope while outputs may live on
  deriving Repr, DecidableEq

/-- what an operation returns -/
inductive Ret (α : Type) where
  | key (k : Nat)      -- `send` returned the output with this key
  | frame (f : α)      -- `next` returned this frame
  | unit               -- `drop`
  deriving Repr, DecidableEq

def step {α : Type} (src : Nat → α) (s : St α) : Op → Option (Ret α × St α)
  | .send => if s.handle then some (.key (send s).1, (send s).2) else none   -- `send` needs the handle
  | .next k => (nextFrame src s k).map fun r => (.frame r.1, r.2)
  | .drop k => (dropOutput s k).map fun s' => (.unit, s')
  | .dropBus => if s.handle then some (.unit, dropBus s) else none

/-- run a whole sequence, collecting the return values and every intermediate state -/
def run {α : Type} (src : Nat → α) (s : St α) : List Op → Option (List (Ret α × St α))
  | [] => some []
  | op :: ops =>
    match step src s op with
    | none => none
    | some (r, s') =>
      match run src s' ops with
      | none => none
      | some rest => some ((r, s') :: rest)

/-! ### Extension beyond C13's literal statement: exhaustion of bus outputs (C05's notion on the bus)

`Signal::until_exhausted` over an `Output` (signal lib.rs:724-729, 2328-2340): while
`!is_exhausted()` yield `next()`; the iterator owns the output, which is dropped with it. -/

/-- frames yielded by `output.until_exhausted()` followed by the drop of the output; `fuel` bounds
    the loop (`none` when it does not end within `fuel` steps or the key is not live) -/
def untilExhausted {α : Type} (src : Nat → α) (srcDone : Nat → Bool) : Nat → St α → Nat → Option (List α × St α)
  | 0, _, _ => none
  | fuel + 1, s, key =>
    match isExhausted srcDone s key with
    | none => none
    | some true => (dropOutput s key).map fun s' => ([], s')
    | some false =>
      match nextFrame src s key with
      | none => none
      | some (f, s') => (untilExhausted src srcDone fuel s' key).map fun r => (f :: r.1, r.2)

/-- the driver's alphabet: the operations of `Op` plus `until_exhausted` on an output -/
inductive XOp where
  | op (o : Op)
  | untilEx (key : Nat)
  deriving Repr, DecidableEq

inductive XRet (α : Type) where
  | ret (r : Ret α)
  | frames (l : List α)
  deriving Repr

def stepX {α : Type} (src : Nat → α) (srcDone : Nat → Bool) (fuel : Nat) (s : St α) : XOp → Option (XRet α × St α)
  | .op o => (step src s o).map fun r => (.ret r.1, r.2)
  | .untilEx k => (untilExhausted src srcDone fuel s k).map fun r => (.frames r.1, r.2)

def runX {α : Type} (src : Nat → α) (srcDone : Nat → Bool) (fuel : Nat) (s : St α) : List XOp → Option (List (XRet α × St α))
  | [] => some []
  | op :: ops =>
    match stepX src srcDone fuel s op with
    | none => none
    | some (r, s') =>
      match runX src srcDone fuel s' ops with
      | none => none
      | some rest => some ((r, s') :: rest)

/-- pending counts of all registered outputs, ascending key order (for the driver) -/
def insertSorted (p : Nat × Nat) : List (Nat × Nat) → List (Nat × Nat)
  | [] => [p]
  | q :: r => if p.1 ≤ q.1 then p :: q :: r else q :: insertSorted p r

def allPending {α : Type} (s : St α) : List (Nat × Nat) :=
  (s.reads.map (fun p => (p.1, s.buf.length - p.2))).foldr insertSorted []

/-! ## The abstract specification: one absolute cursor per live output

`cur k = some c`: output `k` is live and the next frame it receives is `src c`. -/

structure Abs where
  P : Nat                      -- frames pulled from the source so far
  cur : Nat → Option Nat       -- live outputs and their absolute cursors
  nextKey : Nat
  handle : Bool                -- the `Bus` handle is alive (only `send` needs it)

def Abs.init : Abs := ⟨0, fun _ => none, 0, true⟩

def Abs.step {α : Type} (src : Nat → α) (a : Abs) : Op → Option (Ret α × Abs)
  | .send =>                   -- a new output starts at the first frame nobody has pulled
    if a.handle then
      some (.key a.nextKey,
            { a with cur := fun k => if k = a.nextKey then some a.P else a.cur k,
                     nextKey := (a.nextKey + 1) % usizeMod })
    else none
  | .next k =>                 -- receives `src c`, advances only its own cursor; pulls iff `c = P`
    match a.cur k with
    | none => none
    | some c =>
      some (.frame (src c),
            { a with cur := fun k' => if k' = k then some (c + 1) else a.cur k',
                     P := max a.P (c + 1) })
  | .drop k =>
    match a.cur k with
    | none => none
    | some _ => some (.unit, { a with cur := fun k' => if k' = k then none else a.cur k' })
  | .dropBus =>                -- no effect on any output
    if a.handle then some (.unit, { a with handle := false }) else none

def Abs.run {α : Type} (src : Nat → α) (a : Abs) : List Op → Option (List (Ret α × Abs))
  | [] => some []
  | op :: ops =>
    match Abs.step src a op with
    | none => none
    | some (r, a') =>
      match Abs.run src a' ops with
      | none => none
      | some rest => some ((r, a') :: rest)

/-- absolute source position of the oldest backlog frame -/
def base {α : Type} (s : St α) : Nat := s.pos - s.buf.length

/-- absolute cursor of an output: index of the next source frame it will receive -/
def cursor {α : Type} (s : St α) (k : Nat) : Option Nat := (lookup k s.reads).map (fun fr => base s + fr)

end Dasp.Bus
