import Dasp.Model.Arith
import Dasp.Model.Peak
import Dasp.Model.Rms
/-!
# Model of `dasp_envelope::Detector` (dasp_envelope/src/detect/mod.rs) and of the
  `detect_envelope` signal adaptor (dasp_signal/src/envelope.rs) — core Lean only

Generic over the arithmetic `α` of the detected frames' (float) sample format and the arithmetic `γ`
of the gains (always `f32` in the code), with `ofGain : γ → α` = `gain.to_sample()`.
`expO y` stands for `powf32(core::f32::consts::E, y)` (libm; an opaque parameter — the theorems
assume only its range, the driver plugs in the same libm function).  The detector (`Detect::detect`)
is a parameter with its own state `δ`: the three peak rectifiers are stateless, the RMS detector is
`Model/Rms.lean`.
-/
namespace Dasp.Envelope
open Dasp Dasp.Arith

variable {γ α δ : Type} [Arith γ] [Arith α]

/-- `calc_gain` (mod.rs:38-44): `if n_frames == 0.0 { 0.0 } else { powf32(E, -1.0 / n_frames) }`.
    `==` is the equality of the float format (`Arith.beq`): `-0.0 == 0.0`, so a time of `-0.0` takes the
    guard like `+0.0` and never reaches `-1.0 / -0.0 = +inf`. -/
def calcGain (expO : γ → γ) (nFrames : γ) : γ :=
  if beq nFrames zero then zero else expO (div (neg one) nFrames)

/-- the closure of `Detector::next` (mod.rs:82-86) on one channel of float format:
    `gain = if l < d { attack } else { release }`;
    `diff = l.add_amp(-d.to_signed_sample())`            = `l + (-d)`;
    `d.add_amp(diff.mul_amp(gain.to_sample()).to_sample())` = `d + (diff * gain)` -/
def envSample (ofGain : γ → α) (attack release : γ) (l d : α) : α :=
  let gain := if lt l d then attack else release
  let diff := add l (neg d)
  add d (mul diff (ofGain gain))

/-- `Detector` (mod.rs:15-25) -/
structure Detector (γ α δ : Type) where
  lastEnv : List α
  attackGain : γ
  releaseGain : γ
  det : δ

/-- `Detector::new` (mod.rs:51-58) for frames of `ch` channels -/
def Detector.new (expO : γ → γ) (ch : Nat) (det : δ) (attackFrames releaseFrames : γ) : Detector γ α δ :=
  ⟨List.replicate ch zero, calcGain expO attackFrames, calcGain expO releaseFrames, det⟩

/-- `set_attack_frames` (mod.rs:61-63) -/
def Detector.setAttack (expO : γ → γ) (D : Detector γ α δ) (frames : γ) : Detector γ α δ :=
  { D with attackGain := calcGain expO frames }

/-- `set_release_frames` (mod.rs:66-68) -/
def Detector.setRelease (expO : γ → γ) (D : Detector γ α δ) (frames : γ) : Detector γ α δ :=
  { D with releaseGain := calcGain expO frames }

/-- `Detector::next` (mod.rs:72-89); `detect` = `Detect::detect` of the detector in use -/
def Detector.next {φ : Type} (ofGain : γ → α) (detect : δ → φ → δ × List α) (D : Detector γ α δ) (frame : φ) :
    Detector γ α δ × List α :=
  let (det', detected) := detect D.det frame                                         -- 80
  let newEnv := List.zipWith (envSample ofGain D.attackGain D.releaseGain) D.lastEnv detected   -- 81-86
  ({ D with lastEnv := newEnv, det := det' }, newEnv)                                -- 87-88

/-! ## the detectors (`Detect` impls: detect/peak.rs:89-98, detect/rms.rs:6-15) -/

/-- `Peak<FullWave>` / `Peak<PositiveHalfWave>` / `Peak<NegativeHalfWave>` on float frames -/
def detectPeak (rect : α → α) (_ : Unit) (frame : List α) : Unit × List α := ((), frame.map rect)

/-- `rms::Rms` as a detector: `self.next(frame)` -/
def detectRms (sqrt : α → α) (r : Rms.Rms α) (frame : List α) : Rms.Rms α × List α := r.next sqrt frame

/-! ## histories -/

inductive Op (γ φ : Type) where
  | next (frame : φ)
  | setAttack (frames : γ)
  | setRelease (frames : γ)

def Detector.step {φ : Type} (expO : γ → γ) (ofGain : γ → α) (detect : δ → φ → δ × List α)
    (D : Detector γ α δ) : Op γ φ → Detector γ α δ × Option (List α)
  | .next f => let (D', o) := D.next ofGain detect f; (D', some o)
  | .setAttack x => (D.setAttack expO x, none)
  | .setRelease x => (D.setRelease expO x, none)

def Detector.run {φ : Type} (expO : γ → γ) (ofGain : γ → α) (detect : δ → φ → δ × List α) :
    Detector γ α δ → List (Op γ φ) → Detector γ α δ × List (Option (List α))
  | D, [] => (D, [])
  | D, op :: ops =>
    let (D', o) := D.step expO ofGain detect op
    let (D'', os) := Detector.run expO ofGain detect D' ops
    (D'', o :: os)

/-! ## `signal.detect_envelope(detector)` (dasp_signal/src/envelope.rs:116-127)

`next` is `self.detector.next(self.signal.next())`; `set_attack_frames` / `set_release_frames`
(envelope.rs:82-96) forward to the detector.  The source yields its frames, then `silence`. -/
structure Adaptor (γ α δ φ : Type) where
  src : List φ
  silence : φ
  detector : Detector γ α δ
  pulls : Nat

def Adaptor.step {φ : Type} (expO : γ → γ) (ofGain : γ → α) (detect : δ → φ → δ × List α)
    (a : Adaptor γ α δ φ) : Op γ Unit → Adaptor γ α δ φ × Option (List α)
  | .next () =>
    let (f, rest) := match a.src with | f :: rest => (f, rest) | [] => (a.silence, [])
    let (D', o) := a.detector.next ofGain detect f
    ({ a with src := rest, detector := D', pulls := a.pulls + 1 }, some o)
  | .setAttack x => ({ a with detector := a.detector.setAttack expO x }, none)
  | .setRelease x => ({ a with detector := a.detector.setRelease expO x }, none)

def Adaptor.run {φ : Type} (expO : γ → γ) (ofGain : γ → α) (detect : δ → φ → δ × List α) :
    Adaptor γ α δ φ → List (Op γ Unit) → Adaptor γ α δ φ × List (Option (List α))
  | a, [] => (a, [])
  | a, op :: ops =>
    let (a', o) := a.step expO ofGain detect op
    let (a'', os) := Adaptor.run expO ofGain detect a' ops
    (a'', o :: os)

end Dasp.Envelope
