/-!
# Shared pieces of the Fork (C12) and Buffered (C14) models — core Lean only

* `Src`  — the instrumented source signal: a finite list of frames followed by the
  equilibrium frame forever, plus a pull counter `pos` (= number of `Signal::next` calls so
  far).  This is `signal::from_iter(frames)` (dasp_signal/src/lib.rs:1373-1384, 1590-1602):
  `next()` yields the stored frame or `Frame::EQUILIBRIUM` once the iterator has run out,
  `is_exhausted()` is `self.next.is_none()`, i.e. all `frames.length` frames were yielded.
* `push` — `ring_buffer::Bounded::push` (dasp_ring_buffer/src/lib.rs:683-711) on the
  **ideal capacity-bounded FIFO queue**: the content is a `List` oldest-first, and a push
  into a full queue (`len == max_len`) evicts the oldest element.  `Bounded::pop`
  (lib.rs:729-749) is "take the head", `Bounded::len` is `List.length`,
  `Bounded::max_len` is the capacity.  That `Bounded` (start/len/data index arithmetic)
  refines this queue for every valid `(start, len)` is property C06's theorem
  (`Dasp/Props/C06.lean`); Fork and Buffered only use push/pop/len/max_len/is_empty.
-/
namespace Dasp.SrcQueue

/-- the source signal with its pull counter -/
structure Src (α : Type) where
  frames : List α
  eq : α                -- `Frame::EQUILIBRIUM`
  pos : Nat             -- frames pulled so far

variable {α : Type}

/-- the `i`-th frame of the source stream (equilibrium past the end) -/
def Src.at (s : Src α) (i : Nat) : α := s.frames.getD i s.eq

/-- `signal.next()` (lib.rs:1590-1598) -/
def Src.next (s : Src α) : α × Src α := (s.at s.pos, { s with pos := s.pos + 1 })

/-- `signal.is_exhausted()` (lib.rs:1600-1602) -/
def Src.isExhausted (s : Src α) : Bool := decide (s.frames.length ≤ s.pos)

/-- `Bounded::push` on the ideal queue (dasp_ring_buffer/src/lib.rs:688-710): overwrite the
    front (evict the oldest) exactly when `len == max_len`, else append -/
def push (q : List α) (cap : Nat) (x : α) : List α :=
  if q.length = cap then q.drop 1 ++ [x] else q ++ [x]

end Dasp.SrcQueue
