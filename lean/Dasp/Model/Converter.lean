/-! # Model of the rate converter (dasp_signal/src/interpolate.rs, `MulHz` of dasp_signal/src/lib.rs,
dasp_interpolate/src/{floor,linear}.rs) — property C08. Core Lean only.

Everything numeric is written ONCE, generically over an arithmetic structure `Arith F`, and instantiated
* at `Rat` (`ratArith`, exact arithmetic; `sin`, `cos`, `π` are parameters, used only by the sinc
  interpolator of `Model/Sinc.lean`) — the instance the theorems of `Dasp/Props/C08.lean` are about;
* at the native binary64 `Float` (`floatArith`; used by the drivers only, never in a theorem): `+ - * /`
  and the comparisons are the IEEE operations of the CPU, exactly what the Rust code executes on `f64`.

What "position" means for the two instances: over `Rat` the accumulator `interpolation_value` follows the
recurrence of interpolate.rs:131-137 in exact arithmetic and the theorems identify it with
`P_n − ⌊P_n⌋`, `P_n = r_0 + … + r_(n−1)`. Over `Float` the SAME recurrence runs with one rounding per
`+=`/`-=`; it coincides with the exact one whenever every partial sum is representable (dyadic ratios,
which is what the harness's exact-integer oracle uses) and is otherwise the accumulator the code
actually computes — agreement of that with the real code is measured bit for bit by the
correspondence run, it is not a theorem.

Domain limit (DESIGN §7 C08, recorded, not alarmed): for `interpolation_value ≥ 2^53` the statement
`*interpolation_value -= 1.0` no longer changes the f64 value, so the `while` loop of the real code does
not terminate (the nominal behaviour, 2^53 pulls for one output, is equally unobservable). The model's
loop takes fuel `Arith.fuel iv`; the `Float` instance caps it at 2^53 and the driver reports `diverge`
when the loop condition still holds after the fuel is spent. Over `Rat` the fuel `⌊iv⌋` is proved
sufficient (`Dasp.Conv.advance_spec`). -/
namespace Dasp.Conv

/-- the arithmetic the converter and the interpolators use on `f64` -/
structure Arith (F : Type) where
  zero : F
  one : F
  half : F                 -- the literal `0.5` (sinc/mod.rs:95)
  pi : F                   -- `core::f64::consts::PI` (sinc/mod.rs:9)
  ofNat : Nat → F          -- `n as f64`, `depth as f64`
  add : F → F → F
  sub : F → F → F
  mul : F → F → F
  div : F → F → F
  ge : F → F → Bool        -- `a >= b`
  gt : F → F → Bool        -- `a > b`
  isZero : F → Bool        -- `a == 0.0`
  sin : F → F              -- `ops::f64::sin` (libm; an oracle)
  cos : F → F              -- `ops::f64::cos` (libm; an oracle)
  fuel : F → Nat           -- enough iterations for `while iv >= 1.0 { iv -= 1.0 }` (see header)

/-- exact arithmetic; `sin`, `cos`, `π` are parameters -/
def ratArith (sin cos : Rat → Rat) (pi : Rat) : Arith Rat where
  zero := 0
  one := 1
  half := 1 / 2
  pi := pi
  ofNat := fun n => (n : Rat)
  add := (· + ·)
  sub := (· - ·)
  mul := (· * ·)
  div := (· / ·)
  ge := fun a b => decide (b ≤ a)
  gt := fun a b => decide (b < a)
  isZero := fun a => decide (a = 0)
  sin := sin
  cos := cos
  fuel := fun a => a.floor.toNat

/-- native binary64; drivers only (see the header) -/
def floatArith : Arith Float where
  zero := 0.0
  one := 1.0
  half := 0.5
  pi := Float.ofBits 0x400921FB54442D18     -- 3.141592653589793 = `core::f64::consts::PI`
  ofNat := Float.ofNat
  add := (· + ·)
  sub := (· - ·)
  mul := (· * ·)
  div := (· / ·)
  ge := fun a b => decide (a ≥ b)
  gt := fun a b => decide (a > b)
  isZero := fun a => a == 0.0
  sin := Float.sin
  cos := Float.cos
  fuel := fun a => min a.toUInt64.toNat (2 ^ 53)

/-! ## Sample codecs: `to_sample::<f64>()` and `to_sample::<S>()` of the frame's sample format -/

/-- conversion of a sample format `S` to and from the converter's `f64` -/
structure Codec (F S : Type) where
  toF : S → F
  ofF : F → S

/-- `f64` frames: both conversions are the identity (conv.rs: `impl_from_sample!` reflexive case) -/
def idCodec (F : Type) : Codec F F := ⟨id, id⟩

/-- truncation toward zero, the value part of `as i16` -/
def truncRat (q : Rat) : Int := if 0 ≤ q then q.floor else -((-q).floor)

/-- `i16` samples in exact arithmetic: `s as f64 / 32_768.0` (conv.rs:232-234) and
    `(s * 32_768.0) as i16` (conv.rs:553; the cast truncates and saturates) -/
def i16CodecRat : Codec Rat Int where
  toF := fun v => (v : Rat) / 32768
  ofF := fun q => max (-32768) (min 32767 (truncRat (q * 32768)))

/-- `i16` samples on the native `f64`: `Float.toInt16` truncates and saturates like Rust's `as i16`
    (NaN ↦ 0) -/
def i16CodecFloat : Codec Float Int where
  toF := fun v => Float.ofInt v / 32768.0
  ofF := fun q => (q * 32768.0).toInt16.toInt

/-- `i32` samples on the native `f64`: `s as f64 / 2_147_483_648.0` (conv.rs:304-306, exact) and
    `(s * 2_147_483_648.0) as i32` (conv.rs:555, truncating saturating cast). Driver only. -/
def i32CodecFloat : Codec Float Int where
  toF := fun v => (Int32.ofInt v).toFloat / 2147483648.0
  ofF := fun q => (q * 2147483648.0).toInt32.toInt

/-- `u32` samples: through `i32` both ways (conv.rs:467-473, 486: `to_f64(to_i32(s))`, `to_i32` subtracts 2^31;
    conv.rs:561 `i32::to_u32(to_i32(s))`, conv.rs:284-290 adds 2^31). Driver only. -/
def u32CodecFloat : Codec Float Int where
  toF := fun v => (Int32.ofInt (v - 2147483648)).toFloat / 2147483648.0
  ofF := fun q => (q * 2147483648.0).toInt32.toInt + 2147483648

/-- `i64` samples: `s as f64 / 9_223_372_036_854_775_808.0` (conv.rs:372-374; the cast rounds to nearest
    even, which is what `Int64.toFloat` does) and `(s * 9_223_372_036_854_775_808.0) as i64` (conv.rs:557).
    Driver only. -/
def i64CodecFloat : Codec Float Int where
  toF := fun v => (Int64.ofInt v).toFloat / 9223372036854775808.0
  ofF := fun q => (q * 9223372036854775808.0).toInt64.toInt

/-! ## The source: a finite list of frames, then equilibrium forever (`signal::from_iter`,
signal lib.rs:1580-1602), with the pull counter the harness's instrumented source exposes.
A frame is the list of its channels. -/

structure Src (S : Type) where
  frames : List (List S)
  pos : Nat                      -- number of `next` calls so far
  deriving Repr

/-- the frame at absolute source position `i`: equilibrium beyond the end -/
def srcAt {S : Type} (eq : List S) (frames : List (List S)) (i : Nat) : List S := frames.getD i eq

/-- `Signal::next` of the source -/
def Src.next {S : Type} (eq : List S) (s : Src S) : List S × Src S :=
  (srcAt eq s.frames s.pos, { s with pos := s.pos + 1 })

/-- `Signal::is_exhausted` of the source: every frame has been yielded -/
def Src.exhausted {S : Type} (s : Src S) : Bool := decide (s.frames.length ≤ s.pos)

/-! ## Interpolators (dasp_interpolate/src/lib.rs:49-66: `interpolate`, `next_source_frame`) -/

/-- an interpolator with state `I` over frames of `S` samples -/
structure Interp (F S I : Type) where
  push : I → List S → I          -- `next_source_frame`
  eval : I → F → List S          -- `interpolate`

/-- `Floor` (floor.rs:16-18, 41-51): holds one frame (`left`); `interpolate` returns it whatever `x` is,
    `next_source_frame` replaces it -/
def floorInterp (F S : Type) : Interp F S (List S) where
  push := fun _ f => f
  eval := fun l _ => l

/-- `Linear` (linear.rs:16-19, 49-66): holds `left`, `right`;
    `interpolate(x)` = per channel `((r_f - l_f) * x + l_f).to_sample()` with `l_f = l.to_sample::<f64>()`;
    `next_source_frame(f)`: `left = right; right = f` -/
def linearInterp {F S : Type} (A : Arith F) (C : Codec F S) : Interp F S (List S × List S) where
  push := fun st f => (st.2, f)
  eval := fun st x =>
    List.zipWith (fun l r =>
      let lf := C.toF l
      let rf := C.toF r
      let diff := A.sub rf lf
      C.ofF (A.add (A.mul diff x) lf)) st.1 st.2

/-! ## The converter (interpolate.rs:16-25) -/

structure St (F S I : Type) where
  src : Src S
  ist : I                        -- `interpolator`
  iv : F                         -- `interpolation_value`
  ratio : F                      -- `source_to_target_ratio`

section
variable {F S I : Type}

/-- `Converter::scale_playback_hz` (interpolate.rs:46-57): panics (`none`) unless `scale > 0.0` -/
def scalePlaybackHz (A : Arith F) (src : Src S) (ist : I) (scale : F) : Option (St F S I) :=
  if A.gt scale A.zero then some { src := src, ist := ist, iv := A.zero, ratio := scale } else none

/-- `Converter::from_hz_to_hz` (interpolate.rs:35-37) -/
def fromHzToHz (A : Arith F) (src : Src S) (ist : I) (sourceHz targetHz : F) : Option (St F S I) :=
  scalePlaybackHz A src ist (A.div sourceHz targetHz)

/-- `Converter::scale_sample_hz` (interpolate.rs:68-70) -/
def scaleSampleHz (A : Arith F) (src : Src S) (ist : I) (scale : F) : Option (St F S I) :=
  scalePlaybackHz A src ist (A.div A.one scale)

/-- `Converter::set_playback_hz_scale` (interpolate.rs:84-86): no check -/
def setPlaybackHzScale (c : St F S I) (scale : F) : St F S I := { c with ratio := scale }

/-- `Converter::set_hz_to_hz` (interpolate.rs:76-78) -/
def setHzToHz (A : Arith F) (c : St F S I) (sourceHz targetHz : F) : St F S I :=
  setPlaybackHzScale c (A.div sourceHz targetHz)

/-- `Converter::set_sample_hz_scale` (interpolate.rs:92-94) -/
def setSampleHzScale (A : Arith F) (c : St F S I) (scale : F) : St F S I :=
  setPlaybackHzScale c (A.div A.one scale)

/-- the loop of interpolate.rs:131-134
    `while *interpolation_value >= 1.0 { interpolator.next_source_frame(source.next()); *interpolation_value -= 1.0; }`
    with fuel -/
def advance (A : Arith F) (ip : Interp F S I) (eq : List S) : Nat → St F S I → St F S I
  | 0, c => c
  | k + 1, c =>
    if A.ge c.iv A.one then
      advance A ip eq k
        { c with src := (c.src.next eq).2, ist := ip.push c.ist (c.src.next eq).1, iv := A.sub c.iv A.one }
    else c

/-- `Converter::next` (interpolate.rs:122-139): advance, `out = interpolate(iv)`, THEN `iv += ratio` -/
def next (A : Arith F) (ip : Interp F S I) (eq : List S) (c : St F S I) : List S × St F S I :=
  let c1 := advance A ip eq (A.fuel c.iv) c
  (ip.eval c1.ist c1.iv, { c1 with iv := A.add c1.iv c1.ratio })

/-- `Converter::is_exhausted` (interpolate.rs:141-143) -/
def isExhausted (A : Arith F) (c : St F S I) : Bool := c.src.exhausted && A.ge c.iv A.one

/-- `MulHz::next` (signal lib.rs:2228-2232): `set_playback_hz_scale(mul)` and then `Converter::next` -/
def mulHzNext (A : Arith F) (ip : Interp F S I) (eq : List S) (c : St F S I) (mul : F) : List S × St F S I :=
  next A ip eq (setPlaybackHzScale c mul)

/-- what is observed around one output: `is_exhausted()` before it, the frame, the source's pull
    counter after it, and whether the advance loop ran out of fuel (never over `Rat`) -/
structure Obs (S : Type) where
  exhBefore : Bool
  frame : List S
  pulls : Nat
  diverged : Bool

/-- one observed output of the converter at its current ratio -/
def stepObs (A : Arith F) (ip : Interp F S I) (eq : List S) (c : St F S I) : Obs S × St F S I :=
  let r := next A ip eq c
  let c1 := advance A ip eq (A.fuel c.iv) c
  (⟨isExhausted A c, r.1, r.2.src.pos, A.ge c1.iv A.one⟩, r.2)

/-- outputs produced with the ratios `rs` in turn: ratio `rs[k]` is set just before output `k` (what
    `mul_hz` does with its control signal; a constant ratio is the list `replicate n r`) -/
def run (A : Arith F) (ip : Interp F S I) (eq : List S) : List F → St F S I → List (Obs S) × St F S I
  | [], c => ([], c)
  | r :: rs, c =>
    let o := stepObs A ip eq (setPlaybackHzScale c r)
    let rest := run A ip eq rs o.2
    (o.1 :: rest.1, rest.2)

/-- the state after `n` outputs at the converter's own (constant) ratio -/
def iter (A : Arith F) (ip : Interp F S I) (eq : List S) : Nat → St F S I → St F S I
  | 0, c => c
  | n + 1, c => iter A ip eq n (next A ip eq c).2

/-- `until_exhausted().count()` (signal lib.rs:2334-2339: `if is_exhausted() { None } else { Some(next()) }`),
    at most `fuel` outputs -/
def countUntil (A : Arith F) (ip : Interp F S I) (eq : List S) : Nat → St F S I → Nat
  | 0, _ => 0
  | k + 1, c => if isExhausted A c then 0 else 1 + countUntil A ip eq k (next A ip eq c).2

end

end Dasp.Conv
