import Dasp.Machine.FP
import Dasp.Model.Osc
/-! # Third instance of the oscillator arithmetic: the executable soft-float `FP` at f64

`fpArith sinO : Arith FP` gives every f64 operation of `Model/Osc.lean` its IEEE meaning over exact
rationals (`Machine/FP.lean`: one round-to-nearest-even per `+ * /`; `%`, `floor`, casts and comparisons
are exact).  The float-level theorems of `Props/C17.lean` (`fp_…`) are about the model at THIS instance;
the driver stream `fp` executes it (with libm's `sin` plugged in through the bit patterns) against the
compiled code, so the instance itself is validated bit-for-bit on every run.  Core Lean only. -/
namespace Dasp.Osc
open Dasp Dasp.Gen

def fpNeg : FP → FP
  | .nan => .nan
  | .inf n => .inf (!n)
  | .fin n q => .fin (!n) q

/-- C `fmod`: exact; the result has the sign of the dividend -/
def fpRem : FP → FP → FP
  | .nan, _ => .nan
  | _, .nan => .nan
  | .inf _, _ => .nan
  | .fin n x, .inf _ => .fin n x
  | .fin n x, .fin _ r => if r = 0 then .nan else .fin n (ratRem x r)

def fpFloor : FP → FP
  | .fin false q => .fin false (q.floor : Rat)
  | .fin true q => .fin true ((-((-q).floor) : Int) : Rat)
  | x => x

/-- `x as i64` -/
def fpToI64 : FP → Int
  | .nan => 0
  | .inf n => if n then -9223372036854775808 else 9223372036854775807
  | .fin n q => clampI64 (if n then -(q.floor) else q.floor)

def fpSigned : Bool → Rat → Rat := fun n q => if n then -q else q

def fpLt : FP → FP → Bool
  | .nan, _ => false
  | _, .nan => false
  | .inf a, .inf b => a && !b
  | .inf a, .fin _ _ => a
  | .fin _ _, .inf b => !b
  | .fin na a, .fin nb b => decide (fpSigned na a < fpSigned nb b)

def fpArith (sinO : FP → FP) : Arith FP where
  ofNat n := round f64 false (n : Rat)
  ofInt i := round f64 false (i : Rat)
  ofDec m e := round f64 false ((m : Rat) / ((10 ^ e : Nat) : Rat))
  add := add f64
  sub := fun a b => add f64 a (fpNeg b)
  mul := mul f64
  div := div f64
  rem := fpRem
  neg := fpNeg
  floor := fpFloor
  toI64 := fpToI64
  lt := fpLt
  sin := sinO
  twoPi := ofBits64 (UInt64.ofNat Osc.twoPiBits)

/-- libm `sin` through the bit patterns (driver only; the theorems keep `sinO` arbitrary) -/
def fpSinNative (x : FP) : FP := ofBits64 (Float.sin (Float.ofBits (toBits64 x))).toBits

end Dasp.Osc
