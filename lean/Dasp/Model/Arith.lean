/-!
# The arithmetic of one float sample format, as the RMS / envelope models see it (core Lean only)

`Model/Rms.lean`, `Model/Peak.lean` and `Model/Envelope.lean` are written ONCE over this class and
instantiated

* at the native `Float32` / `Float` (IEEE binary32 / binary64 of this machine) by the drivers
  `Driver/Rms.lean`, `Driver/Envelope.lean` — bit-exact with the compiled Rust code, including
  `sqrt` (IEEE, correctly rounded) and `powf` (the same libm), which the models take as explicit
  function parameters;
* at every linearly ordered field (`ℚ`, `ℝ`) by `Lemmas/Rms.lean` (`Dasp.fieldArith`), where the
  property theorems are proved in exact arithmetic.
-/
namespace Dasp

class Arith (α : Type) where
  /-- `Sample::EQUILIBRIUM` of a float format: `0.0` -/
  zero : α
  /-- `FloatSample::IDENTITY`: `1.0` -/
  one : α
  add : α → α → α
  sub : α → α → α
  mul : α → α → α
  div : α → α → α
  neg : α → α
  /-- `a < b` of the format (false when either side is NaN) -/
  lt : α → α → Bool
  /-- `a == b` of the format (`-0.0 == 0.0`, NaN ≠ NaN) -/
  beq : α → α → Bool
  /-- `Sample::from_sample(n as f32)`: a `usize` cast to f32, then converted to the format
      (dasp_rms/src/lib.rs:192) -/
  ofLen : Nat → α

instance : Arith Float32 where
  zero := 0
  one := 1
  add := Float32.add
  sub := Float32.sub
  mul := Float32.mul
  div := Float32.div
  neg := Float32.neg
  lt := Float32.lt
  beq := Float32.beq
  ofLen n := Float32.ofNat n

instance : Arith Float where
  zero := 0
  one := 1
  add := Float.add
  sub := Float.sub
  mul := Float.mul
  div := Float.div
  neg := Float.neg
  lt := Float.lt
  beq := Float.beq
  ofLen n := (Float32.ofNat n).toFloat

end Dasp
