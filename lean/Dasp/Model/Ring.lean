/-!
# Model of `dasp_ring_buffer/src/lib.rs` — `Bounded` and `Fixed` ring buffers (core Lean only)

Hand transcription of every public operation with the code's own index arithmetic and
branch order (`file:line` = /repo/dasp_ring_buffer/src/lib.rs).  The backing slice is a
`List α`; `get_unchecked(i)` / checked `[i]` reads are the totalised `data[i]!`, writes are
`List.set`.  Every index the code dereferences is *also* recorded (`…Acc`, `stepAcc`,
`sliceChecks`) so that `Props/C06.lean` can state that each one is `< data.length` (resp.
that each checked range is inside its slice) in every state satisfying the invariant.
The driver (`Driver/Ring.lean`) executes exactly these definitions.
-/
namespace Dasp.Ring

/-- what a caller can see of one public call -/
inductive Obs (α : Type) where
  | unit
  | opt (o : Option α)            -- `Option<T>` results; plain `T` results are `some`
  | nat (n : Nat)
  | bool (b : Bool)
  | list (l : List α)
  | pair (a b : List α)           -- the two slices
  | raw (start len : Nat)         -- `into_raw_parts` (the data is compared separately)
  | panic
  deriving DecidableEq, Repr

/-- the `len` items `data[(s+0) % cap], data[(s+1) % cap], …` — the live window of a ring -/
def window {α : Type} [Inhabited α] (data : List α) (s n : Nat) : List α :=
  (List.range n).map fun i => data[(s + i) % data.length]!

/-- successive writes through a list of `&mut` positions (`for (r, x) in refs.zip(xs) { *r = x }`) -/
def writeAt {α : Type} (d : List α) : List Nat → List α → List α
  | p :: ps, x :: xs => writeAt (d.set p x) ps xs
  | _, _ => d

/-! ## Bounded (lib.rs:449-905) -/

/-- lib.rs:450-454 -/
structure Bounded (α : Type) where
  data : List α
  start : Nat
  len : Nat
  deriving Repr

/-- the operations of `Bounded` a caller can perform (one constructor per public method/trait impl) -/
inductive BOp (α : Type) where
  | push (x : α)                    -- lib.rs:683
  | pop                             -- lib.rs:729
  | get (i : Nat)                   -- lib.rs:640
  | getMut (i : Nat) (x : α)        -- lib.rs:652: `get_mut(i).map(|r| mem::replace(r, x))`
  | index (i : Nat)                 -- lib.rs:853: `rb[i]`
  | indexMut (i : Nat) (x : α)      -- lib.rs:864: `mem::replace(&mut rb[i], x)`
  | len | isEmpty | isFull | maxLen -- lib.rs:510, 526, 544, 497
  | iter                            -- lib.rs:609
  | slices                          -- lib.rs:570
  | iterMut (xs : List α)           -- lib.rs:618: observe every item, overwrite the first |xs| with xs
  | slicesMut (xs : List α)         -- lib.rs:582: observe both slices, overwrite the first |xs| items of the chain
  | drain (k : Nat)                 -- lib.rs:765, 888: `rb.drain().take(k).collect()`
  | extend (xs : List α)            -- lib.rs:874
  | reparts                         -- lib.rs:811 then 785: `into_raw_parts` and `from_raw_parts` again
  deriving Repr

namespace Bounded
variable {α : Type} [Inhabited α]

/-- lib.rs:497 `max_len`: `self.data.slice().len()` -/
def maxLen (b : Bounded α) : Nat := b.data.length

/-- what `from_raw_parts` asserts (lib.rs:786-787); the invariant every unchecked access relies on -/
def Inv (b : Bounded α) : Prop := b.start < b.maxLen ∧ b.len ≤ b.maxLen

instance (b : Bounded α) : Decidable b.Inv := inferInstanceAs (Decidable (_ ∧ _))

/-- abstraction: the live elements, oldest first -/
def abs (b : Bounded α) : List α := window b.data b.start b.len

/-- lib.rs:785-789; `none` = the assertion panics -/
def fromRawParts (start len : Nat) (data : List α) : Option (Bounded α) :=
  if start < data.length then
    if len ≤ data.length then some ⟨data, start, len⟩ else none
  else none

/-- lib.rs:483-485 `from_full` -/
def fromFull (data : List α) : Option (Bounded α) := fromRawParts 0 data.length data

/-- lib.rs:826-828 `From<S>` -/
def fromEmpty (data : List α) : Option (Bounded α) := fromRawParts 0 0 data

/-- lib.rs:811-814 -/
def intoRawParts (b : Bounded α) : Nat × Nat × List α := (b.start, b.len, b.data)

/-- lib.rs:510 -/
def length (b : Bounded α) : Nat := b.len
/-- lib.rs:526-528 -/
def isEmpty (b : Bounded α) : Bool := b.len == 0
/-- lib.rs:544-546 -/
def isFull (b : Bounded α) : Bool := b.len == b.maxLen

/-- lib.rs:689-694 and 737-742: `next_start = start + 1; if next_start >= max_len { next_start = 0 }` -/
def nextStart (b : Bounded α) : Nat := if b.start + 1 ≥ b.maxLen then 0 else b.start + 1

/-- lib.rs:683-711 -/
def push (b : Bounded α) (x : α) : Bounded α × Option α :=
  if b.len = b.maxLen then
    ({ b with data := b.data.set b.start x, start := b.nextStart }, some b.data[b.start]!)
  else
    let idx := (b.start + b.len) % b.maxLen
    ({ b with data := b.data.set idx x, len := b.len + 1 }, none)

/-- unchecked index dereferenced by `push` (lib.rs:698, 707) -/
def pushAcc (b : Bounded α) : List Nat :=
  if b.len = b.maxLen then [b.start] else [(b.start + b.len) % b.maxLen]

/-- lib.rs:729-749 -/
def pop (b : Bounded α) : Bounded α × Option α :=
  if b.len = 0 then (b, none)
  else ({ b with start := b.nextStart, len := b.len - 1 }, some b.data[b.start]!)

/-- unchecked index dereferenced by `pop` (lib.rs:744) -/
def popAcc (b : Bounded α) : List Nat := if b.len = 0 then [] else [b.start]

/-- lib.rs:640-646 -/
def get (b : Bounded α) (i : Nat) : Option α :=
  if i ≥ b.len then none else some b.data[(b.start + i) % b.maxLen]!

/-- the index expression `get`/`get_mut` used BEFORE the fix commit 8b21f98 (`index % max_len`);
    kept only for the counter-witness theorem in Props/C06.lean -/
def getOld (b : Bounded α) (i : Nat) : Option α :=
  if i ≥ b.len then none else some b.data[i % b.maxLen]!

/-- unchecked index dereferenced by `get`/`get_mut` (lib.rs:645, 660) -/
def getAcc (b : Bounded α) (i : Nat) : List Nat :=
  if i ≥ b.len then [] else [(b.start + i) % b.maxLen]

/-- lib.rs:652-661 followed by a write through the returned reference; returns the old value -/
def getMutSet (b : Bounded α) (i : Nat) (x : α) : Bounded α × Option α :=
  if i ≥ b.len then (b, none)
  else
    let w := (b.start + i) % b.maxLen
    ({ b with data := b.data.set w x }, some b.data[w]!)

/-- lib.rs:570-578: `split_at(start)` then trim to `len` -/
def slices (b : Bounded α) : List α × List α :=
  let endS := b.data.take b.start
  let startS := b.data.drop b.start
  if startS.length ≤ b.len then
    (startS, endS.take (b.len - startS.length))
  else
    (startS.take b.len, endS.take 0)

/-- the range checks Rust performs inside `slices`/`slices_mut` as pairs `(i, n)` requiring `i ≤ n`
    (`split_at(start)`: start ≤ data.len; `&end[..end_len]`: end_len ≤ end.len() = start;
    `&start[..len]`: len ≤ start.len()) -/
def sliceChecks (b : Bounded α) : List (Nat × Nat) :=
  let startLen := b.data.length - b.start
  (b.start, b.data.length) ::
    (if startLen ≤ b.len then [(b.len - startLen, b.start)] else [(b.len, startLen), (0, b.start)])

/-- backing-slice positions of the two mutable slices of `slices_mut` (lib.rs:582-593), in order -/
def mutPos (b : Bounded α) : List Nat × List Nat :=
  let startLen := b.data.length - b.start
  if startLen ≤ b.len then (List.range' b.start startLen, List.range' 0 (b.len - startLen))
  else (List.range' b.start b.len, [])

/-- lib.rs:609-612: `start.iter().chain(end.iter())` -/
def iter (b : Bounded α) : List α := b.slices.1 ++ b.slices.2

/-- lib.rs:618-624 / 582-593 with writes: overwrite the first |xs| items of the chained mutable slices -/
def mutWrite (b : Bounded α) (xs : List α) : Bounded α :=
  { b with data := writeAt b.data (b.mutPos.1 ++ b.mutPos.2) xs }

/-- lib.rs:765-767, 888-890 under `.take(k)`: pop until `k` items were yielded or `None` -/
def drainTake : Nat → Bounded α → Bounded α × List α
  | 0, b => (b, [])
  | k + 1, b =>
    match b.pop with
    | (b', some v) => let r := drainTake k b'; (r.1, v :: r.2)
    | (b', none) => (b', [])

def drainAcc : Nat → Bounded α → List Nat
  | 0, _ => []
  | k + 1, b =>
    match b.pop with
    | (b', some _) => b.popAcc ++ drainAcc k b'
    | (_, none) => b.popAcc

/-- lib.rs:874-878 -/
def extend (b : Bounded α) (xs : List α) : Bounded α := xs.foldl (fun b x => (b.push x).1) b

def extendAcc (b : Bounded α) : List α → List Nat
  | [] => []
  | x :: xs => b.pushAcc ++ extendAcc (b.push x).1 xs

/-- one public call: new state and what the caller sees -/
def step (b : Bounded α) : BOp α → Bounded α × Obs α
  | .push x => let r := b.push x; (r.1, .opt r.2)
  | .pop => let r := b.pop; (r.1, .opt r.2)
  | .get i => (b, .opt (b.get i))
  | .getMut i x => let r := b.getMutSet i x; (r.1, .opt r.2)
  | .index i => (b, match b.get i with | some v => .opt (some v) | none => .panic)          -- lib.rs:854 `.expect`
  | .indexMut i x =>
    match b.getMutSet i x with
    | (b', some v) => (b', .opt (some v))
    | (_, none) => (b, .panic)                                                              -- lib.rs:865 `.expect`
  | .len => (b, .nat b.length)
  | .isEmpty => (b, .bool b.isEmpty)
  | .isFull => (b, .bool b.isFull)
  | .maxLen => (b, .nat b.maxLen)
  | .iter => (b, .list b.iter)
  | .slices => (b, .pair b.slices.1 b.slices.2)
  | .iterMut xs => (b.mutWrite xs, .list b.iter)
  | .slicesMut xs => (b.mutWrite xs, .pair b.slices.1 b.slices.2)
  | .drain k => let r := drainTake k b; (r.1, .list r.2)
  | .extend xs => (b.extend xs, .unit)
  | .reparts =>
    match fromRawParts b.start b.len b.data with
    | some b' => (b', .raw b.start b.len)
    | none => (b, .panic)

/-- every slot index dereferenced without a bounds check while performing the call -/
def stepAcc (b : Bounded α) : BOp α → List Nat
  | .push _ => b.pushAcc
  | .pop => b.popAcc
  | .get i | .getMut i _ | .index i | .indexMut i _ => b.getAcc i
  | .drain k => drainAcc k b
  | .extend xs => b.extendAcc xs
  | _ => []

/-- the checked slice ranges of the call (`slices`, `slices_mut`, `iter`, `iter_mut`) -/
def stepChecks (b : Bounded α) : BOp α → List (Nat × Nat)
  | .iter | .slices | .iterMut _ | .slicesMut _ => b.sliceChecks
  | _ => []

/-- a whole history: final state and the observations, oldest first -/
def run (b : Bounded α) (ops : List (BOp α)) : Bounded α × List (Obs α) :=
  ops.foldl (fun acc op => let r := acc.1.step op; (r.1, acc.2 ++ [r.2])) (b, [])

end Bounded

/-! ## Fixed (lib.rs:162-411) -/

/-- lib.rs:163-166 -/
structure Fixed (α : Type) where
  data : List α
  first : Nat
  deriving Repr

inductive FOp (α : Type) where
  | push (x : α)                   -- lib.rs:199
  | get (i : Nat)                  -- lib.rs:230 (and `Index`, lib.rs:387)
  | getMut (i : Nat) (x : α)       -- lib.rs:239 (and `IndexMut`, lib.rs:397): `mem::replace(rb.get_mut(i), x)`
  | setFirst (i : Nat)             -- lib.rs:262
  | len                            -- lib.rs:181
  | iter                           -- lib.rs:308
  | iterLoop (n : Nat)             -- lib.rs:302: `iter_loop().take(n)`
  | iterMut (xs : List α)          -- lib.rs:314: observe every item, overwrite the first |xs|
  | slices                         -- lib.rs:285
  | slicesMut (xs : List α)        -- lib.rs:292
  | extend (xs : List α)           -- lib.rs:406
  | reparts                        -- lib.rs:348 then 330
  deriving Repr

namespace Fixed
variable {α : Type} [Inhabited α]

/-- lib.rs:181-183 -/
def len (f : Fixed α) : Nat := f.data.length

/-- what `from_raw_parts` asserts (lib.rs:331); implies `len ≥ 1` -/
def Inv (f : Fixed α) : Prop := f.first < f.len

instance (f : Fixed α) : Decidable f.Inv := inferInstanceAs (Decidable (_ < _))

/-- abstraction: all `len` elements, oldest first -/
def abs (f : Fixed α) : List α := window f.data f.first f.len

/-- lib.rs:330-333 -/
def fromRawParts (first : Nat) (data : List α) : Option (Fixed α) :=
  if first < data.length then some ⟨data, first⟩ else none

/-- lib.rs:362-364 `From<S>` -/
def fromData (data : List α) : Option (Fixed α) := fromRawParts 0 data

/-- lib.rs:199-212 -/
def push (f : Fixed α) (x : α) : Fixed α × α :=
  let next := if f.first + 1 = f.len then 0 else f.first + 1
  ({ data := f.data.set f.first x, first := next }, f.data[f.first]!)

/-- lib.rs:231, 243 (since fix commit 5f913b5): `(self.first + index % self.len()) % self.len()` —
    the index is reduced before the offset is added, so the usize sum stays below `2 * len` -/
def wrapped (f : Fixed α) (i : Nat) : Nat := (f.first + i % f.len) % f.len

/-- the expression used BEFORE fix commit 5f913b5, `(self.first + index) % self.len()`, evaluated the
    way a build without overflow checks evaluates it on a 64-bit target (the sum wraps modulo 2^64);
    kept only for the historical counter-witness in Props/C06.lean -/
def wrappedOld64 (f : Fixed α) (i : Nat) : Nat := ((f.first + i) % 2 ^ 64) % f.len

/-- lib.rs:230-233 (checked index) -/
def get (f : Fixed α) (i : Nat) : α := f.data[f.wrapped i]!

/-- lib.rs:239-245 followed by a write through the reference; returns the old value -/
def getMutSet (f : Fixed α) (i : Nat) (x : α) : Fixed α × α :=
  ({ f with data := f.data.set (f.wrapped i) x }, f.data[f.wrapped i]!)

/-- lib.rs:262-264 -/
def setFirst (f : Fixed α) (i : Nat) : Fixed α := { f with first := i % f.len }

/-- lib.rs:285-288: `split_at(first)`, swapped -/
def slices (f : Fixed α) : List α × List α := (f.data.drop f.first, f.data.take f.first)

/-- backing positions of the two mutable slices (lib.rs:292-298) -/
def mutPos (f : Fixed α) : List Nat × List Nat :=
  (List.range' f.first (f.len - f.first), List.range' 0 f.first)

/-- lib.rs:302-304 under `.take(n)`: `data.iter().cycle().skip(first)`; item `k` is
    `data[(first + k) % len]` (an empty slice cycles to nothing) -/
def iterLoop (f : Fixed α) (n : Nat) : List α :=
  if f.len = 0 then [] else (List.range n).map fun k => f.data[(f.first + k) % f.len]!

/-- lib.rs:308-310 -/
def iter (f : Fixed α) : List α := f.iterLoop f.len

/-- lib.rs:314-320 (chain of the mutable slices), plain read -/
def iterChain (f : Fixed α) : List α := f.slices.1 ++ f.slices.2

def mutWrite (f : Fixed α) (xs : List α) : Fixed α :=
  { f with data := writeAt f.data (f.mutPos.1 ++ f.mutPos.2) xs }

/-- lib.rs:406-410 -/
def extend (f : Fixed α) (xs : List α) : Fixed α := xs.foldl (fun f x => (f.push x).1) f

def extendAcc (f : Fixed α) : List α → List Nat
  | [] => []
  | x :: xs => f.first :: extendAcc (f.push x).1 xs

def step (f : Fixed α) : FOp α → Fixed α × Obs α
  | .push x => let r := f.push x; (r.1, .opt (some r.2))
  | .get i => (f, .opt (some (f.get i)))
  | .getMut i x => let r := f.getMutSet i x; (r.1, .opt (some r.2))
  | .setFirst i => (f.setFirst i, .unit)
  | .len => (f, .nat f.len)
  | .iter => (f, .list f.iter)
  | .iterLoop n => (f, .list (f.iterLoop n))
  | .iterMut xs => (f.mutWrite xs, .list f.iterChain)
  | .slices => (f, .pair f.slices.1 f.slices.2)
  | .slicesMut xs => (f.mutWrite xs, .pair f.slices.1 f.slices.2)
  | .extend xs => (f.extend xs, .unit)
  | .reparts =>
    match fromRawParts f.first f.data with
    | some f' => (f', .nat f.first)
    | none => (f, .panic)

/-- every slot index dereferenced by the call (unchecked in `push`, lib.rs:209; checked in `get`/`get_mut`) -/
def stepAcc (f : Fixed α) : FOp α → List Nat
  | .push _ => [f.first]
  | .get i | .getMut i _ => [f.wrapped i]
  | .extend xs => f.extendAcc xs
  | _ => []

/-- checked ranges `(i, n)`, `i ≤ n`: `split_at(first)` needs `first ≤ len` -/
def stepChecks (f : Fixed α) : FOp α → List (Nat × Nat)
  | .slices | .slicesMut _ | .iterMut _ => [(f.first, f.len)]
  | _ => []

def run (f : Fixed α) (ops : List (FOp α)) : Fixed α × List (Obs α) :=
  ops.foldl (fun acc op => let r := acc.1.step op; (r.1, acc.2 ++ [r.2])) (f, [])

end Fixed

end Dasp.Ring
