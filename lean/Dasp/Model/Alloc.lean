/-!
# Modelled heap-allocation effect of steady-state operations (C07)

A theorem cannot observe an allocator.  What the model says is: every operation family of
the allocation-free API surface has allocation effect `(allocs, reallocs, frees) = (0, 0, 0)`
once its objects are constructed; the catalogue below names the families the harness drives,
with the two documented owning cases spelled out (a boxed-slice round trip reuses the
allocation: `(0,0,0)`; a failed boxed conversion releases it: `(0,0,1)`).  The driver answers
`alloc <family> <calls>` with the modelled effect; the harness measures the real one with a
counting global allocator.  Core Lean only.
-/
namespace Dasp.Model.Alloc

structure Effect where
  allocs : Nat
  reallocs : Nat
  frees : Nat
deriving DecidableEq, Repr

def Effect.none : Effect := ⟨0, 0, 0⟩

/-- operation families of the allocation-free API surface, as named by the harness catalogue -/
def steadyFamilies : List String := [
  "sample.conversions_all_formats", "sample.add_amp_mul_amp",
  "frame.ops_n2_i16", "frame.ops_n32_f32", "frame.mono",
  "slice.borrowed_views", "slice.in_place_ops", "slice.boxed_roundtrip_reuses_allocation",
  "ring.bounded_array", "ring.bounded_heap_storage_never_resized", "ring.fixed",
  "peak.rectifiers", "rms.next_reset", "envelope.detectors", "interpolate.floor_linear_sinc", "window.functions",
  "signal.from_iter_past_exhaustion", "signal.from_interleaved_samples_iter", "signal.equilibrium", "signal.gen_gen_mut",
  "signal.oscillators_const_hz", "signal.oscillators_hz_signal", "signal.noise",
  "signal.map", "signal.zip_map", "signal.add_amp_mul_amp", "signal.scale_offset_per_channel", "signal.clip_amp",
  "signal.inspect", "signal.delay", "signal.take_until_exhausted_lift", "signal.into_interleaved_samples", "signal.by_ref",
  "signal.buffered_next_and_next_frames", "signal.fork_by_ref", "signal.fork_by_rc_branches_after_creation",
  "signal.converter_floor_linear_sinc_mul_hz", "signal.rms_and_detect_envelope", "signal.windower_hann_rectangle",
  "signal.composition_fork_add_delay_clip_buffered",
  "bus.lockstep_three_outputs_after_warmup",
  "bus.single_output_only_ever", "bus.one_output_left_after_the_others_were_dropped",
  "bus.output_attached_late_then_lockstep_two_outputs",
  "graph.process_again_same_size_stock_nodes",
  "graph.wide_mixer_hundreds_of_inputs_again", "graph.dense_dag_96_nodes_again",
  "graph.nested_graph_node_with_wired_inputs_again",
  "graph.repatched_between_calls_same_size_again", "graph.repatched_back_to_mono_same_size_again",
  "graph.moved_to_another_thread_after_priming_again",
  "graph.process_again_after_a_call_unwound_by_a_failing_user_node",
  "graph.process_again_after_the_missing_node_panic",
  "traits.ring_buffers_debug_clone_eq_while_rotating",
  "traits.rms_and_envelope_detectors_debug_clone_while_running",
  "traits.custom_width_samples_debug_cmp",
  "traits.signal_adaptors_clone_mid_stream",
  "formats.custom_width_operators_add_sub_mul_neg",
  "formats.packed_and_wide_frames_through_frame_slice_signal_dsp",
  "formats.packed_frames_slice_in_place_and_signal_adaptors"]

/-- modelled steady-state allocation effect of a catalogue family; `none` = not in the catalogue -/
def effectOf (family : String) : Option Effect :=
  if family == "slice.boxed_failed_conversion_releases" then some ⟨0, 0, 1⟩
  else if steadyFamilies.contains family then some Effect.none
  else Option.none

end Dasp.Model.Alloc
