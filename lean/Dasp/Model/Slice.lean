/-!
# Model of `dasp_slice`: sample<->frame slice views, boxed conversions, in-place slice ops

Memory is a flat `List α` of samples; a slice is a window into it given by a base offset
(`as_ptr()` as an offset from the start of the buffer, never an address) and a length.
The conversions are transcribed from `dasp_slice/src/frame/fixed_size_array.rs` (one macro
body instantiated for N = 1..32), the boxed ones over a tiny heap/ownership model
(`Heap`: live allocations, which of them are owned by a `Box` value, a fresh-id counter),
the in-place operations from `dasp_slice/src/lib.rs:276-361`.

Core Lean only: this file is linked into the natively compiled driver, which executes these
very definitions; `Props/C10.lean` proves the property about them.
-/
namespace Dasp.Slice

/-- `&[S]` / `&mut [S]` / the payload of `Box<[S]>`: data pointer (offset) and length -/
structure SView where
  base : Nat
  len : Nat
deriving DecidableEq, Repr

/-- `&[[S; N]]`: data pointer (offset, in samples), number of frames, channels per frame -/
structure FView where
  base : Nat
  frames : Nat
  n : Nat
deriving DecidableEq, Repr

/-- fixed_size_array.rs:24-36 (`from_sample_slice`), :45-57 (`from_sample_slice_mut`),
    reached from `to_frame_slice[_mut]` (:114-116, :125-127):
    `let len = slice.len(); if len % N == 0 { let new_len = len / N; let ptr = slice.as_ptr() as _;
     Some(from_raw_parts(ptr, new_len)) } else { None }` -/
def toFrameSlice (n : Nat) (s : SView) : Option FView :=
  let len := s.len
  if len % n = 0 then
    let newLen := len / n
    let ptr := s.base
    some ⟨ptr, newLen, n⟩
  else
    none

/-- fixed_size_array.rs:65-71 (`from_frame_slice`), :79-85 (`_mut`), reached from
    `to_sample_slice[_mut]` (:93-95, :103-105):
    `let new_len = slice.len() * N; let ptr = slice.as_ptr() as _; from_raw_parts(ptr, new_len)` -/
def toSampleSlice (f : FView) : SView :=
  let newLen := f.frames * f.n
  let ptr := f.base
  ⟨ptr, newLen⟩

/-- sample `j` of a sample slice -/
def SView.get {α} (mem : List α) (s : SView) (j : Nat) : Option α :=
  if j < s.len then mem[s.base + j]? else none

/-- channel `ch` of frame `i` of a frame slice: element `i` of a `[[S; N]]` starts `i * N` samples
    after the data pointer (array layout), channel `ch` is `ch` samples further -/
def FView.get {α} (mem : List α) (f : FView) (i ch : Nat) : Option α :=
  if i < f.frames ∧ ch < f.n then mem[f.base + i * f.n + ch]? else none

/-- write through a mutable frame slice -/
def FView.set {α} (mem : List α) (f : FView) (i ch : Nat) (v : α) : List α :=
  if i < f.frames ∧ ch < f.n then mem.set (f.base + i * f.n + ch) v else mem

/-- all frames of a view, for printing -/
def FView.toList {α} (mem : List α) (f : FView) : List (List (Option α)) :=
  (List.range f.frames).map fun i => (List.range f.n).map fun ch => f.get mem i ch

def SView.toList {α} (mem : List α) (s : SView) : List (Option α) :=
  (List.range s.len).map fun j => s.get mem j

/-! ### heap / ownership model for the boxed conversions -/

/-- `live`: (allocation id, size in bytes) of every allocation not yet freed; `owned`: ids
    owned by some `Box` value (they will be freed when that value is dropped); `next`: fresh id -/
structure Heap where
  live : List (Nat × Nat)
  owned : List Nat
  next : Nat
deriving Repr

def Heap.empty : Heap := ⟨[], [], 0⟩

/-- `Box::new` / `vec.into_boxed_slice()`: a new allocation owned by the returned box -/
def Heap.alloc (h : Heap) (bytes : Nat) : Heap × Nat :=
  (⟨(h.next, bytes) :: h.live, h.next :: h.owned, h.next + 1⟩, h.next)

/-- `core::mem::forget(box)`: the value disappears without running `Drop`; the allocation stays live -/
def Heap.forget (h : Heap) (id : Nat) : Heap := { h with owned := h.owned.erase id }

/-- `Box::from_raw(ptr)`: a box value owning the allocation again -/
def Heap.fromRaw (h : Heap) (id : Nat) : Heap := { h with owned := id :: h.owned }

/-- dropping a box: the allocation is freed -/
def Heap.drop (h : Heap) (id : Nat) : Heap :=
  { h with owned := h.owned.erase id, live := h.live.filter (fun p => p.1 != id) }

def Heap.liveIds (h : Heap) : List Nat := h.live.map (·.1)
def Heap.liveBytes (h : Heap) : Nat := (h.live.map (·.2)).foldl (· + ·) 0
/-- live allocations nobody owns: leaked memory -/
def Heap.orphans (h : Heap) : List Nat := h.liveIds.filter (fun i => !h.owned.contains i)

/-- a `Box<[S]>`: allocation id + the slice it points to -/
structure SBox where
  id : Nat
  view : SView
deriving Repr

structure FBox where
  id : Nat
  view : FView
deriving Repr

/-- fixed_size_array.rs:137-165 `from_boxed_sample_slice` (reached from `to_boxed_frame_slice`, :205-207),
    step by step as the code is now:

    ```
    let len = slice.len();
    if len % N != 0 { return None; }                 // `slice` (the Box) is dropped here
    let slice_ptr = &mut slice as &mut [S] as *mut [S];
    core::mem::forget(slice);
    let sample_slice = from_raw_parts_mut((*slice_ptr).as_mut_ptr(), len);
    let frame_slice = match <&mut [[S; N]]>::from_sample_slice_mut(sample_slice) {
        Some(slice) => slice, None => return None };  // nothing owns the allocation on this path
    let ptr = frame_slice as *mut [[S; N]];
    let new_slice = Box::from_raw(ptr);
    Some(new_slice)
    ``` -/
def fromBoxedSampleSlice (n : Nat) (h : Heap) (b : SBox) : Heap × Option FBox :=
  let len := b.view.len
  if len % n != 0 then
    (h.drop b.id, none)
  else
    let h1 := h.forget b.id
    let sampleSlice : SView := ⟨b.view.base, len⟩
    match toFrameSlice n sampleSlice with
    | some frameSlice =>
      let h2 := h1.fromRaw b.id
      (h2, some ⟨b.id, frameSlice⟩)
    | none => (h1, none)

/-- HISTORICAL (before fix commit 335aea4): the box was forgotten *before* the divisibility test,
    and the `None` arm returned without re-owning it -/
def fromBoxedSampleSliceOld (n : Nat) (h : Heap) (b : SBox) : Heap × Option FBox :=
  let len := b.view.len
  let h1 := h.forget b.id
  let sampleSlice : SView := ⟨b.view.base, len⟩
  match toFrameSlice n sampleSlice with
  | some frameSlice =>
    let h2 := h1.fromRaw b.id
    (h2, some ⟨b.id, frameSlice⟩)
  | none => (h1, none)

/-- fixed_size_array.rs:174-184 `from_boxed_frame_slice` (reached from `to_boxed_sample_slice`, :193-195):
    `let new_len = slice.len() * N; let p = &mut slice as .. as *mut [[S; N]]; mem::forget(slice);
     let sample_slice = from_raw_parts_mut((*p as *mut [S]).as_mut_ptr(), new_len); Box::from_raw(sample_slice)` -/
def fromBoxedFrameSlice (h : Heap) (b : FBox) : Heap × SBox :=
  let newLen := b.view.frames * b.view.n
  let h1 := h.forget b.id
  let sampleSlice : SView := ⟨b.view.base, newLen⟩
  let h2 := h1.fromRaw b.id
  (h2, ⟨b.id, sampleSlice⟩)

/-! ### in-place operations on slices of frames (lib.rs:276-361)

A frame slice is a `List F` here (the view theorems above say which samples a frame is). -/

/-- what a call does: returns normally with the new contents of `a`, panics (contents of `a` at
    that moment), or performs an out-of-bounds unchecked access (undefined behaviour) -/
inductive Res (α : Type)
  | ok (a : α)
  | panic (a : α)
  | ub
deriving Repr

/-- lib.rs:276-284 `map_in_place`: `for f in a { *f = map(*f); }` -/
def mapInPlace {F} (a : List F) (map : F → F) : List F := a.map map

/-- lib.rs:288-293 `equilibrium`: `map_in_place(a, |_| F::EQUILIBRIUM)` -/
def equilibrium {F} (a : List F) (eq : F) : List F := mapInPlace a (fun _ => eq)

/-- lib.rs:352-361 `zip_map_in_place_unchecked`:
    `for i in 0..a.len() { *a.get_unchecked_mut(i) = zip_map(*a.get_unchecked(i), *b.get_unchecked(i)); }`
    (`k` iterations left, at index `i`); an index outside either slice is undefined behaviour -/
def zipLoop {FA FB} (f : FA → FB → FA) (b : List FB) : Nat → Nat → List FA → Option (List FA)
  | 0, _, a => some a
  | k + 1, i, a =>
    match a[i]?, b[i]? with
    | some x, some y => zipLoop f b k (i + 1) (a.set i (f x y))
    | _, _ => none

def zipMapInPlaceUnchecked {FA FB} (a : List FA) (b : List FB) (f : FA → FB → FA) : Res (List FA) :=
  match zipLoop f b a.length 0 a with
  | some r => .ok r
  | none => .ub

/-- lib.rs:300-312 `zip_map_in_place`: `assert_eq!(a.len(), b.len());` first, then the unchecked loop -/
def zipMapInPlace {FA FB} (a : List FA) (b : List FB) (f : FA → FB → FA) : Res (List FA) :=
  if a.length != b.length then .panic a
  else zipMapInPlaceUnchecked a b f

/-- lib.rs:318-323 `write`: `zip_map_in_place(a, b, |_, b| b)` -/
def write {F} (a b : List F) : Res (List F) := zipMapInPlace a b (fun _ y => y)

/-- lib.rs:327-333 `add_in_place`: `zip_map_in_place(a, b, |a, b| a.add_amp(b))` -/
def addInPlace {FA FB} (addAmp : FA → FB → FA) (a : List FA) (b : List FB) : Res (List FA) :=
  zipMapInPlace a b (fun x y => addAmp x y)

/-- lib.rs:337-344 `add_in_place_with_amp_per_channel`:
    `zip_map_in_place(a, b, |af, bf| af.add_amp(bf.mul_amp(amp_per_channel)))` -/
def addInPlaceWithAmpPerChannel {FA FB A} (addAmp : FA → FB → FA) (mulAmp : FB → A → FB)
    (a : List FA) (b : List FB) (amp : A) : Res (List FA) :=
  zipMapInPlace a b (fun af bf => addAmp af (mulAmp bf amp))

end Dasp.Slice
