import Dasp.Gen.Osc
/-! # Oscillators and noise sources of `dasp_signal` (property C17) — executable model, core Lean only.

Transcribes `dasp_signal/src/lib.rs`: `Phase` (1918-1935), `ConstHz`/`Hz`/`Step` (1786-1817,
1893-1916), `Sine`/`Saw`/`Square` (1742-1784), `Noise` (1962-1998), `NoiseSimplex` (2000-2098) and the
constructors `rate`, `phase`, `sine`, `saw`, `square`, `noise`, `noise_simplex` (1443-1560).

The model is written ONCE over an arithmetic structure `Arith α` (the f64 operations the code
uses) and instantiated

* at native `Float` (`floatArith`, bit-exact with Rust's f64 on this machine, `sin` = the same libm) —
  this is what the driver `driver_c17` executes against the compiled code, and
* at `Rat` (`ratArith sinO`, exact arithmetic, `sin` an opaque parameter) — this is what the
  theorems of `Props/C17.lean` are about.

All literal data (hash primes, shift, mask, divisor, PERM table, gradient masks, 0.395, 2^16, 2π)
comes from `Dasp.Gen.Osc`, regenerated from the source on every run. -/
namespace Dasp.Osc
open Dasp.Gen

/-- the f64 operations used by the oscillator code -/
structure Arith (α : Type) where
  /-- integer-valued literal `n.0` / `n as f64` for small n (exact) -/
  ofNat : Nat → α
  /-- `i as f64` for an i64 -/
  ofInt : Int → α
  /-- decimal literal `m·10^(-e)` -/
  ofDec : Nat → Nat → α
  add : α → α → α
  sub : α → α → α
  mul : α → α → α
  div : α → α → α
  /-- Rust `%` on f64 = C `fmod`: result has the sign of the dividend, |result| < |divisor| -/
  rem : α → α → α
  neg : α → α
  floor : α → α
  /-- `x as i64`: truncation toward zero, saturating, NaN ↦ 0 -/
  toI64 : α → Int
  lt : α → α → Bool
  /-- `f64::sin` (libm; not correctly rounded, so it stays opaque) -/
  sin : α → α
  /-- the constant `core::f64::consts::PI * 2.0` -/
  twoPi : α

variable {α : Type}

/-! ## Step sources: `ConstHz` and `Hz<S>` -/

/-- `ConstHz { step }` or `Hz { hz, rate }`; the frequency signal `hz` is the list of frames it will
    yield (then 0.0 forever, as `signal::from_iter`/the harness' generator do), `pulled` counts
    `hz.next()` calls. -/
inductive StepSrc (α : Type) where
  | const (step : α)
  | hz (rate : α) (frames : List α) (pulled : Nat)

/-- `Rate::const_hz` (lib.rs:1788): `ConstHz { step: hz / self.hz }` -/
def constHz (A : Arith α) (rate hz : α) : StepSrc α := .const (A.div hz rate)
/-- `Rate::hz` (lib.rs:1810): `Hz { hz, rate }` -/
def varHz (rate : α) (frames : List α) : StepSrc α := .hz rate frames 0

/-- `Step::step` (lib.rs:1900-1916): ConstHz yields its stored step; Hz pulls ONE frame `hz` and
    yields `hz / rate`. -/
def StepSrc.step (A : Arith α) : StepSrc α → α × StepSrc α
  | .const s => (s, .const s)
  | .hz rate [] n => (A.div (A.ofNat 0) rate, .hz rate [] (n + 1))
  | .hz rate (f :: fs) n => (A.div f rate, .hz rate fs (n + 1))

def StepSrc.pulled : StepSrc α → Nat
  | .const _ => 0
  | .hz _ _ n => n

/-! ## Phase -/

/-- `Phase { step, next }` -/
structure Phase (α : Type) where
  next : α
  src : StepSrc α

/-- `signal::phase(step)` (lib.rs:1443): `Phase { step, next: 0.0 }` -/
def phase (A : Arith α) (src : StepSrc α) : Phase α := ⟨A.ofNat 0, src⟩

/-- `Phase::next_phase_wrapped_to` (lib.rs:1924-1928):
    `let phase = self.next; self.next = (self.next + self.step.step()) % rem; phase` -/
def nextPhaseWrappedTo (A : Arith α) (p : Phase α) (rem : α) : α × Phase α :=
  let r := p.src.step A
  (p.next, ⟨A.rem (A.add p.next r.1) rem, r.2⟩)

/-- `Phase::next_phase` (lib.rs:1932): `self.next_phase_wrapped_to(1.0)` -/
def nextPhase (A : Arith α) (p : Phase α) : α × Phase α :=
  nextPhaseWrappedTo A p (A.ofNat Osc.phaseWrap)

/-! ## Waveforms (lib.rs:1742-1784) -/

/-- `ops::f64::sin(PI_2 * phase)` -/
def sineWave (A : Arith α) (ph : α) : α := A.sin (A.mul A.twoPi ph)
/-- `phase * -2.0 + 1.0` -/
def sawWave (A : Arith α) (ph : α) : α := A.add (A.mul ph (A.neg (A.ofNat Osc.sawMul))) (A.ofNat Osc.sawAdd)
/-- `if phase < 0.5 { 1.0 } else { -1.0 }` -/
def squareWave (A : Arith α) (ph : α) : α :=
  if A.lt ph (A.ofDec Osc.squareThrNum Osc.squareThrExp) then A.ofNat 1 else A.neg (A.ofNat 1)

/-- `Sine::next`: `let phase = self.phase.next_phase(); sin(PI_2 * phase)` -/
def sineNext (A : Arith α) (p : Phase α) : α × Phase α :=
  let r := nextPhase A p; (sineWave A r.1, r.2)
/-- `Saw::next` -/
def sawNext (A : Arith α) (p : Phase α) : α × Phase α :=
  let r := nextPhase A p; (sawWave A r.1, r.2)
/-- `Square::next` -/
def squareNext (A : Arith α) (p : Phase α) : α × Phase α :=
  let r := nextPhase A p; (squareWave A r.1, r.2)

/-! ## Noise (lib.rs:1962-1998) -/

/-- 2^64 -/
def M64 : Nat := 18446744073709551616

/-- the integer part of `noise_1`: `x = (seed << 13) ^ seed` (the shift drops the high bits),
    `(x *w (x *w x *w PRIME_1 +w PRIME_2) +w PRIME_3) & 0x7fffffff`, all u64-wrapping -/
def noiseHash (seed : Nat) : Nat :=
  let x := ((seed <<< Osc.seedShift) % M64) ^^^ seed
  ((x * ((x * x % M64 * Osc.prime1 % M64 + Osc.prime2) % M64) % M64 + Osc.prime3) % M64) &&& Osc.noiseMask

/-- `noise_1(seed) = 1.0 - (hash as f64) / 1_073_741_824.0` -/
def noise1 (A : Arith α) (seed : Nat) : α :=
  A.sub (A.ofNat 1) (A.div (A.ofNat (noiseHash seed)) (A.ofNat Osc.noiseDiv))

/-- `Noise { seed }`, seed < 2^64 -/
structure Noise where
  seed : Nat

/-- `signal::noise(seed)` -/
def noise (seed : Nat) : Noise := ⟨seed % M64⟩

/-- `Noise::next_sample`: `let noise = noise_1(self.seed); self.seed = self.seed.wrapping_add(1); noise` -/
def noiseNext (A : Arith α) (n : Noise) : α × Noise :=
  (noise1 A n.seed, ⟨(n.seed + Osc.seedInc) % M64⟩)

/-! ## NoiseSimplex (lib.rs:2000-2098) -/

/-- `fn hash(i: i64) -> u8 { PERM[(i as u8) as usize] }` -/
def permHash (i : Int) : Nat := Osc.perm.getD (i % 256).toNat 0

/-- `fn grad(hash: i64, x: f64) -> f64` -/
def grad (A : Arith α) (hash : Nat) (x : α) : α :=
  let h := hash &&& Osc.gradMask
  let g := A.add (A.ofNat 1) (A.ofInt ((h &&& Osc.gradMag : Nat) : Int))
  let g := if (h &&& Osc.gradSign) != 0 then A.neg g else g
  A.mul g x

/-- `fn simplex_noise_1d(x: f64) -> f64` (i1 = i0 + 1 cannot overflow: |i0| ≤ 2^16 for the phases
    that reach it, and `NaN as i64 = 0`) -/
def simplexNoise1d (A : Arith α) (x : α) : α :=
  let i0 : Int := A.toI64 (A.floor x)
  let i1 : Int := i0 + 1
  let x0 := A.sub x (A.ofInt i0)
  let x1 := A.sub x0 (A.ofNat 1)
  let t0 := A.sub (A.ofNat 1) (A.mul x0 x0)
  let t0 := A.mul t0 t0
  let n0 := A.mul (A.mul t0 t0) (grad A (permHash i0) x0)
  let t1 := A.sub (A.ofNat 1) (A.mul x1 x1)
  let t1 := A.mul t1 t1
  let n1 := A.mul (A.mul t1 t1) (grad A (permHash i1) x1)
  A.mul (A.ofDec Osc.scaleNum Osc.scaleExp) (A.add n0 n1)

/-- `NoiseSimplex::next_sample`: phase wrapped at 2^16, then `simplex_noise_1d(phase)` -/
def simplexNext (A : Arith α) (p : Phase α) : α × Phase α :=
  let r := nextPhaseWrappedTo A p (A.ofNat Osc.simplexWrap); (simplexNoise1d A r.1, r.2)

/-! ## Runs -/

/-- `n` successive `next()` calls: the yielded frames and the final state -/
def run {σ : Type} (f : σ → α × σ) : Nat → σ → List α × σ
  | 0, s => ([], s)
  | n + 1, s => let r := f s; let t := run f n r.2; (r.1 :: t.1, t.2)

/-! ## Instance 1: exact rational arithmetic (`sin` opaque) -/

/-- truncation toward zero -/
def ratTrunc (q : Rat) : Int := if 0 ≤ q then q.floor else -((-q).floor)

/-- C `fmod` in exact arithmetic: `x − r·trunc(x/r)` (r = 0 gives x − 0; the float code gives NaN there) -/
def ratRem (x r : Rat) : Rat := x - r * (ratTrunc (x / r) : Int)

def clampI64 (i : Int) : Int :=
  if i < -9223372036854775808 then -9223372036854775808
  else if 9223372036854775807 < i then 9223372036854775807 else i

def ratArith (sinO : Rat → Rat) : Arith Rat where
  ofNat n := (n : Rat)
  ofInt i := (i : Rat)
  ofDec m e := (m : Rat) / ((10 ^ e : Nat) : Rat)
  add := (· + ·)
  sub := (· - ·)
  mul := (· * ·)
  div := (· / ·)
  rem := ratRem
  neg := fun x => -x
  floor := fun x => (x.floor : Rat)
  toI64 := fun x => clampI64 (ratTrunc x)
  lt := fun a b => decide (a < b)
  sin := sinO
  twoPi := (884279719003555 : Rat) / 140737488355328   -- the f64 nearest 2π, exactly

/-! ## Instance 2: native f64 -/

/-- (mantissa, exponent) of a finite non-NaN float: |x| = m·2^e -/
def decodeF (x : Float) : Nat × Int :=
  let b := x.toBits
  let e := ((b >>> 52) &&& 0x7ff).toNat
  let m := (b &&& 0xfffffffffffff).toNat
  if e == 0 then (m, -1074) else (m + 4503599627370496, (e : Int) - 1075)

/-- C `fmod` on f64, computed exactly on the binary expansions (the result of fmod is always
    representable): sign of the dividend, NaN for x = ±inf, r = 0 or NaN operands, x for r = ±inf. -/
def fmodF (x r : Float) : Float :=
  if x.isNaN || r.isNaN || x.isInf || r == 0.0 then Float.ofBits 0x7ff8000000000000
  else if r.isInf then x
  else
    let (mx, ex) := decodeF x
    let (mr, er) := decodeF r
    let e := min ex er
    let a := mx <<< (ex - e).toNat
    let b := mr <<< (er - e).toNat
    let q := (Float.ofNat (a % b)).scaleB e
    if (x.toBits >>> 63) == 1 then -q else q

def floatArith : Arith Float where
  ofNat := Float.ofNat
  ofInt := Float.ofInt
  ofDec m e := Float.ofScientific m true e
  add := (· + ·)
  sub := (· - ·)
  mul := (· * ·)
  div := (· / ·)
  rem := fmodF
  neg := fun x => -x
  floor := Float.floor
  toI64 := fun x => x.toInt64.toInt
  lt := fun a b => decide (a < b)
  sin := Float.sin
  twoPi := Float.ofBits (UInt64.ofNat Osc.twoPiBits)

end Dasp.Osc
