import Dasp.Model.SrcQueue
/-!
# Model of `Buffered` / `BufferedFrames` (dasp_signal/src/lib.rs:775-784, 1244-1262, 2426-2515)
and of `UntilExhausted` over it (lib.rs:724-729, 2328-2340) — core Lean only

`Buffered { signal, ring_buffer }` is `St`: the instrumented source (`SrcQueue.Src`) and the
ring buffer **as the ideal capacity-bounded FIFO queue** (`q` oldest first + `cap` =
`max_len()`; `SrcQueue.push` evicts the oldest when full exactly as `Bounded::push` does;
`Bounded::pop` takes the head).  That `Bounded` refines this queue for every valid
`(start, len)` — in particular that the start offset of a pre-filled buffer is unobservable
— is property C06; the harness nevertheless varies `start` on the real code.
`signal.buffered(rb)` (lib.rs:775-784) stores the given ring buffer as is: `q` = pre-fill.
-/
namespace Dasp.Buffered
open Dasp.SrcQueue

structure St (α : Type) where
  src : Src α
  q : List α           -- ring buffer content, oldest first
  cap : Nat            -- ring_buffer.max_len()

variable {α : Type}

/-- `signal.buffered(ring_buffer)` (lib.rs:775-784) -/
def init (src : Src α) (prefill : List α) (cap : Nat) : St α := { src := src, q := prefill, cap := cap }

/-- the loop body `ring_buffer.push(signal.next())` (lib.rs:2459, 2494) -/
def pullPush (s : St α) : St α :=
  let r := s.src.next
  { s with src := r.2, q := push s.q s.cap r.1 }

/-- `n` iterations of the loop body -/
def fill : Nat → St α → St α
  | 0, s => s
  | n + 1, s => fill n (pullPush s)

/-- `for _ in 0..ring_buffer.max_len() { ring_buffer.push(signal.next()); }` (lib.rs:2458-2460, 2493-2495) -/
def refill (s : St α) : St α := fill s.cap s

/-- `Buffered::next` (lib.rs:2484-2499): `loop { match pop() { Some(f) => return f, None => refill } }`.
    After a refill with `cap ≥ 1` the second pop succeeds (`Props/C14: refill_nonempty`); a
    `Bounded` with `max_len() = 0` cannot be built through the safe API (`from_raw_parts`
    asserts `start < len(data)`), where the real loop would spin forever — the last arm is that
    unreachable case. -/
def next (s : St α) : α × St α :=
  match s.q with
  | x :: r => (x, { s with q := r })
  | [] =>
    let s' := refill s
    match s'.q with
    | x :: r => (x, { s' with q := r })
    | [] => (s.src.eq, s')

/-- `Buffered::next_frames` (lib.rs:2452-2465): refill only if `len() == 0`, then hand out the
    draining iterator (a `&mut` to the ring buffer: the state itself) -/
def beginFrames (s : St α) : St α := if s.q.length = 0 then refill s else s

/-- `BufferedFrames::next` (lib.rs:2512-2514): `self.ring_buffer.pop()` -/
def iterNext (s : St α) : Option α × St α :=
  match s.q with
  | x :: r => (some x, { s with q := r })
  | [] => (none, s)

/-- `k` calls of the iterator's `next`, then the iterator is dropped (whatever was not
    yielded stays in the ring buffer) -/
def iterN : Nat → St α → List (Option α) × St α
  | 0, s => ([], s)
  | k + 1, s =>
    let r := iterNext s
    let t := iterN k r.2
    (r.1 :: t.1, t.2)

/-- `Buffered::is_exhausted` (lib.rs:2501-2503) -/
def isExhausted (s : St α) : Bool := s.q.length == 0 && s.src.isExhausted

/-- `UntilExhausted::next` repeated (lib.rs:2334-2339): `if signal.is_exhausted() { None } else
    { Some(signal.next()) }`, collected; `fuel` bounds the number of frames (see `ueFuel`) -/
def untilExhausted : Nat → St α → List α × St α
  | 0, s => ([], s)
  | fuel + 1, s =>
    if isExhausted s then ([], s)
    else
      let r := next s
      let t := untilExhausted fuel r.2
      (r.1 :: t.1, t.2)

/-- enough fuel for `untilExhausted` to reach exhaustion (`Props/C14: untilExhausted_spec`):
    buffered frames + remaining source frames + one buffer of padding -/
def ueFuel (s : St α) : Nat := s.q.length + (s.src.frames.length - s.src.pos) + s.cap

inductive Op where
  | next                    -- `buffered.next()`
  | frames (k : Nat)        -- `let mut it = buffered.next_frames();` then `k` × `it.next()`, drop `it`
  | drain                   -- `buffered.next_frames().collect()`
  | untilExhausted          -- `buffered.by_ref().until_exhausted().collect()`
  | look                    -- no call; just observe
  deriving DecidableEq

/-- what the harness observes after every operation -/
structure Obs (α : Type) where
  out : List (Option α)     -- what the calls of this op yielded (`none` = the iterator's `None`)
  pulls : Nat               -- source pull counter
  exhausted : Bool          -- `buffered.is_exhausted()`

def look (s : St α) (out : List (Option α)) : Obs α :=
  { out := out, pulls := s.src.pos, exhausted := isExhausted s }

def exec (s : St α) : Op → List (Option α) × St α
  | .next => let r := next s; ([some r.1], r.2)
  | .frames k => iterN k (beginFrames s)
  | .drain => let s' := beginFrames s; iterN s'.q.length s'
  | .untilExhausted => let r := untilExhausted (ueFuel s) s; (r.1.map some, r.2)
  | .look => ([], s)

/-- what a client of `next_frames().nth(k)` sees of the `k+1` iterator steps that `Iterator::nth`
    stands for (std: `advance_by(k)` then `next()`; popping an empty ring buffer has no effect, so the
    steps after the first `None` change nothing): only the last result -/
def nthView (o : Obs α) : Obs α := { o with out := [o.out.getLast?.join] }

def step (s : St α) (o : Op) : Obs α × St α :=
  let r := exec s o
  (look r.2 r.1, r.2)

def trace (s : St α) : List Op → List (Obs α)
  | [] => []
  | o :: r => (step s o).1 :: trace (step s o).2 r

def run (s : St α) (ops : List Op) : St α := ops.foldl (fun s o => (step s o).2) s

end Dasp.Buffered
