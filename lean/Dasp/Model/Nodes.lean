import Dasp.Model.Graph
/-!
# Model of the built-in `dasp_graph` nodes (dasp_graph/src/node/*.rs, buffer.rs)

Core Lean only (linked into `driver_c16`).  Generic over the sample type `α` with `+` and `0`
as parameters: the driver runs these definitions on native `Float32`, the theorems hold for any
`α` (sums are stated as left folds in input order, exactly the order of the `f32` additions).

A `Buffer` (`buffer.rs`: `[f32; Buffer::LEN]`, `LEN = 64`) is a `List α` of length `LEN`; a node's
buffers / an `Input`'s `buffers()` are a `List (List α)`; `Node::process(inputs, output)` is a function
from the input list and the current output buffers to the new output buffers (plus node state).
-/
namespace Dasp.Nodes
open Dasp.Graph

/-- `Buffer::LEN` (buffer.rs:16) -/
def LEN : Nat := 64

abbrev Buf (α : Type) := List α
abbrev Bufs (α : Type) := List (Buf α)

/-- well-formed buffers: every buffer has `LEN` samples (the Rust type guarantees it) -/
def BufsOk {α : Type} (b : Bufs α) : Prop := ∀ x ∈ b, x.length = LEN

/-- `Buffer::SILENT` -/
def silent {α : Type} [Zero α] : Buf α := List.replicate LEN 0

/-- `dasp_slice::add_in_place(a, b)`: `a[i] = a[i] + b[i]` (dasp_slice-0.11.0 lib.rs:327, 358-360) -/
def addInPlace {α : Type} [Add α] (a b : Buf α) : Buf α := List.zipWith (· + ·) a b

/-! ### `Sum` / `SumBuffers` (node/sum.rs) -/

/-- node/sum.rs:25-40: silence every output, then for each output channel add, input by input, the
    input's buffer of that channel if it has one -/
def sum {α : Type} [Add α] [Zero α] (inputs : List (Bufs α)) (output : Bufs α) : Bufs α :=
  (List.range output.length).map fun channel =>
    inputs.foldl (fun out inp => match inp[channel]? with
      | some inBuf => addInPlace out inBuf
      | none => out) silent

/-- node/sum.rs:45-66: no output → return; silence the first output, add every buffer of every input
    onto it, copy it to the remaining outputs -/
def sumBuffers {α : Type} [Add α] [Zero α] (inputs : List (Bufs α)) (output : Bufs α) : Bufs α :=
  match output with
  | [] => []
  | _ :: rest =>
    let first := inputs.foldl (fun out inp => inp.foldl addInPlace out) silent
    first :: rest.map (fun _ => first)

/-! ### `Pass` (node/pass.rs) -/

/-- `for (out_buf, in_buf) in output.iter_mut().zip(src) { out_buf.copy_from_slice(in_buf) }` -/
def zipCopy {α : Type} : Bufs α → Bufs α → Bufs α
  | _ :: os, b :: bs => b :: zipCopy os bs
  | os, [] => os
  | [], _ :: _ => []

/-- node/pass.rs:13-23: no input → return; else copy the FIRST input's buffers over the outputs -/
def pass {α : Type} (inputs : List (Bufs α)) (output : Bufs α) : Bufs α :=
  match inputs with
  | [] => output
  | input :: _ => zipCopy output input

/-! ### `Delay` (node/delay.rs over dasp_ring_buffer-0.11.0 `Fixed`) -/

/-- `ring_buffer::Fixed { first, data }` -/
structure Ring (α : Type) where
  first : Nat
  data : List α

/-- `Fixed::push` (dasp_ring_buffer-0.11.0 lib.rs:210-223): replace `data[first]`, advance `first`
    with wrap-around, return the replaced element.  (`none` only for an out-of-range `first`, which
    `Fixed::from`/`from_raw_parts` exclude: `first < len`, `len > 0`.) -/
def Ring.push {α : Type} (r : Ring α) (item : α) : Option (Ring α × α) :=
  match r.data[r.first]? with
  | none => none
  | some old =>
    let next := if r.first + 1 = r.data.length then 0 else r.first + 1
    some ({ first := next, data := r.data.set r.first item }, old)

/-- `for (i, out) in out_buf.iter_mut().enumerate() { *out = ring_buf.push(in_buf[i]); }` -/
def pushAll {α : Type} (r : Ring α) : Buf α → Option (Ring α × Buf α)
  | [] => some (r, [])
  | x :: xs =>
    match r.push x with
    | none => none
    | some (r', old) =>
      match pushAll r' xs with
      | none => none
      | some (r'', outs) => some (r'', old :: outs)

/-- `self.0.iter_mut().zip(input.buffers()).zip(output)`: channel-wise, as far as all three reach -/
def delayChans {α : Type} : List (Ring α) → Bufs α → Bufs α → Option (List (Ring α) × Bufs α)
  | r :: rs, b :: bs, _ :: os =>
    match pushAll r b with
    | none => none
    | some (r', o') =>
      match delayChans rs bs os with
      | none => none
      | some (rs', os') => some (r' :: rs', o' :: os')
  | rs, _, os => some (rs, os)

/-- node/delay.rs:13-30: no input → return; only the first input is used -/
def delay {α : Type} (rings : List (Ring α)) (inputs : List (Bufs α)) (output : Bufs α) :
    Option (List (Ring α) × Bufs α) :=
  match inputs with
  | [] => some (rings, output)
  | input :: _ => delayChans rings input output

/-! ### `dyn Signal<Frame = F>` (node/signal.rs) -/

/-- the frames a signal yields, as a function of how many were pulled before: `frame k` is a list of
    `F::CHANNELS` samples -/
structure Sig (α : Type) where
  channels : Nat
  frame : Nat → List α
  pos : Nat

/-- node/signal.rs:10-19: pull `LEN` frames, write channel `ch < min(CHANNELS, output.len())` of frame
    `ix` to `output[ch][ix]`; surplus outputs untouched; the signal advances by `LEN` frames always -/
def signalNode {α : Type} [Zero α] (s : Sig α) (output : Bufs α) : Sig α × Bufs α :=
  let channels := min s.channels output.length
  let written := (List.range channels).map fun ch =>
    (List.range LEN).map fun ix => (s.frame (s.pos + ix)).getD ch 0
  ({ s with pos := s.pos + LEN }, written ++ output.drop channels)

/-! ### `GraphNode` (node/graph.rs) -/

/-- node/graph.rs:37-45: copy each input's buffers into the buffers of the designated inner node -/
def copyIn {α : Type} (inputs : List (Bufs α)) (inputNodes : List Nat) (buf : Nat → Bufs α) : Nat → Bufs α :=
  (inputs.zip inputNodes).foldl (fun b (e : Bufs α × Nat) =>
    let v := zipCopy (b e.2) e.1
    fun m => if m = e.2 then v else b m) buf

structure GraphNodeResult (α : Type) where
  proc : Proc
  buf : Nat → Bufs α
  output : Bufs α

/-- node/graph.rs:26-58 = copy-in ∘ `Processor::process` ∘ copy-out.  `nodeFn n inputs own` is the inner
    node `n`'s function of its inputs and its own buffers; `process` invokes every node at most once
    (C09), so "its own buffers at invocation time" are its buffers when `process` starts.
    `none` = panic (an input node or the output node does not exist). -/
def graphNode {α : Type} (nodeFn : Nat → List (Bufs α) → Bufs α → Bufs α) (g : PG) (p : Proc)
    (buf : Nat → Bufs α) (inputNodes : List Nat) (outputNode : Nat) (inputs : List (Bufs α)) (output : Bufs α) :
    Option (GraphNodeResult α) :=
  if ((inputs.zip inputNodes).all fun e => decide (e.2 < g.bound) && g.live e.2) then
    let buf1 := copyIn inputs inputNodes buf
    match process (fun n ins => nodeFn n ins (buf1 n)) g p buf1 outputNode with
    | none => none
    | some r => some { proc := r.proc, buf := r.buf, output := zipCopy output (r.buf outputNode) }
  else none

end Dasp.Nodes
