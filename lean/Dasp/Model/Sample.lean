import Dasp.Gen.Conv
import Dasp.Gen.SampleTable
/-!
# Sample amplitude arithmetic (`dasp_sample/src/lib.rs:169-239`) and frames (`dasp_frame/src/lib.rs`)

`add_amp` converts to the associated `Signed` format, adds natively, converts back;
`mul_amp` converts to the associated `Float` format, multiplies natively, converts back.
The conversions are the bodies regenerated from `conv.rs` (`Gen.table`, `Gen.i2fTable`,
`Gen.f2iTable`), the associated formats come from the regenerated `impl_sample!` table
(`Gen.signedOf`, `Gen.floatOf`), float arithmetic is the soft-float of `Machine/FP.lean`.
Integer addition is modelled without wrap-around: the property (and the driver) only
consider offsets for which the mathematical result stays in range.  Core Lean only.
-/
namespace Dasp.Model
open Dasp Dasp.Gen

/-- `Sample::to_sample` between integer formats (`FromSample<T> for T` is the identity) -/
def convI (s d : Fmt) (v : Int) : Int := if s = d then v else val v (table s d)

/-- `Sample::add_amp` for an integer format (lib.rs:207-210) -/
def addAmpI (s : Fmt) (v amp : Int) : Int :=
  convI (signedOf s) s (convI s (signedOf s) v + amp)

/-- `Sample::to_float_sample` for an integer format -/
def toFloatI (s : Fmt) (v : Int) : FP := (i2fTable s (floatOf s)).i2fVal v

/-- `Sample::mul_amp` for an integer format (lib.rs:235-238) -/
def mulAmpI (s : Fmt) (v : Int) (amp : FP) : Int :=
  (f2iTable (floatOf s) s).f2iVal (mul (floatOf s).fmt (toFloatI s v) amp)

/-- `add_amp` / `mul_amp` for the float formats: `Signed = Float = Self`, conversions are identities -/
def addAmpF (p : FFmt) (x a : FP) : FP := add p.fmt x a
def mulAmpF (p : FFmt) (x a : FP) : FP := mul p.fmt x a

/-! ## Frames: `[S; N]` as a list of `N` channels -/

/-- `Frame::from_fn` (`core::array::from_fn`): channel `i` is `f i`, for `i = 0 .. n-1` in order -/
def fromFn {α} (n : Nat) (f : Nat → α) : List α := (List.range n).map f

/-- unchecked channel access; `d` is never observed when `i < length` (see `Props/C03`) -/
def chan {α} (d : α) (fr : List α) (i : Nat) : α := fr.getD i d

/-- `Frame::map` (lib.rs:379-392): `from_fn (|i| map(*self.channel_unchecked(i)))` -/
def fmap {α β} (d : α) (n : Nat) (fr : List α) (f : α → β) : List β := fromFn n fun i => f (chan d fr i)

/-- `Frame::zip_map` (lib.rs:395-416) -/
def fzipMap {α β γ} (da : α) (db : β) (n : Nat) (a : List α) (b : List β) (f : α → β → γ) : List γ :=
  fromFn n fun i => f (chan da a i) (chan db b i)

/-- `array_from_iter` (lib.rs:653-672): pull up to `n` items; `none` if the iterator runs short
    (everything pulled so far is dropped, and the iterator has been consumed to its end);
    returns the frame and what remains of the iterator -/
def fromSamples {α} : Nat → List α → Option (List α) × List α
  | 0, rest => (some [], rest)
  | _ + 1, [] => (none, [])
  | n + 1, x :: xs =>
    match fromSamples n xs with
    | (some fr, rest) => (some (x :: fr), rest)
    | (none, rest) => (none, rest)

/-- `Frame::channel(idx)` -/
def channel {α} (fr : List α) (i : Nat) : Option α := fr[i]?

/-- `Frame::channels()`: the `Channels` iterator yields `channel(0)`, `channel(1)`, … until `None` (lib.rs:573-585) -/
def channelsFrom {α} (fr : List α) : Nat → Nat → List α
  | 0, _ => []
  | fuel + 1, i => match channel fr i with
    | some s => s :: channelsFrom fr fuel (i + 1)
    | none => []
def channels {α} (fr : List α) : List α := channelsFrom fr (fr.length + 1) 0

end Dasp.Model

namespace Dasp.Model
/-! ## frame-level amplitude operations (dasp_frame/src/lib.rs:201-270), generic in the sample operation -/

/-- `Frame::offset_amp`: `self.map(|s| s.add_amp(offset))` -/
def offsetAmp {α σ} (d : α) (n : Nat) (fr : List α) (addAmp : α → σ → α) (a : σ) : List α := fmap d n fr fun s => addAmp s a
/-- `Frame::scale_amp`: `self.map(|s| s.mul_amp(amp))` -/
def scaleAmp {α φ} (d : α) (n : Nat) (fr : List α) (mulAmp : α → φ → α) (a : φ) : List α := fmap d n fr fun s => mulAmp s a
/-- `Frame::add_amp`: `self.zip_map(other, Sample::add_amp)` -/
def addAmpFr {α σ} (d : α) (ds : σ) (n : Nat) (fr : List α) (o : List σ) (addAmp : α → σ → α) : List α := fzipMap d ds n fr o addAmp
/-- `Frame::mul_amp`: `self.zip_map(other, Sample::mul_amp)` -/
def mulAmpFr {α φ} (d : α) (df : φ) (n : Nat) (fr : List α) (o : List φ) (mulAmp : α → φ → α) : List α := fzipMap d df n fr o mulAmp
/-- `Frame::to_signed_frame` / `to_float_frame`: `self.map(|s| s.to_sample())` -/
def convFrame {α β} (d : α) (n : Nat) (fr : List α) (conv : α → β) : List β := fmap d n fr conv
/-- `Frame::EQUILIBRIUM = [S::EQUILIBRIUM; N]` -/
def equilibriumFrame {α} (n : Nat) (eq : α) : List α := List.replicate n eq
end Dasp.Model
