import Dasp.Gen.Sqrt
/-!
# The no_std square root of `dasp_sample/src/ops.rs` (lines 5-12 and 23-30) — core Lean only

    if x >= 0.0 { fN::from_bits((x.to_bits() + BIAS) >> SHIFT) } else { fN::NAN }

`BIAS`, `SHIFT` are read from the source on every run (`Gen/Sqrt.lean`).  `approxBits` is the
integer part on the bit pattern, in `Nat` arithmetic exactly as the code has it (`+` wraps at the
width of the unsigned type in a release build; `Lemmas/SqrtTrick.lean` shows it never does for
`x ≥ 0`).  `Props/C11.lean` proves the 7 % bound about `approx32` / `approx64`.
-/
namespace Dasp.SqrtTrick
open Dasp.Gen.Sqrt

/-- `(bits + bias) >> shift` in `u<width>` -/
def approxBits (width bias shift : Nat) (b : Nat) : Nat := ((b + bias) % 2 ^ width) >>> shift

/-- the integer part of `ops::f32::sqrt` (no_std) -/
def approx32 (b : Nat) : Nat := approxBits 32 bias32 shift32 b
/-- the integer part of `ops::f64::sqrt` (no_std) -/
def approx64 (b : Nat) : Nat := approxBits 64 bias64 shift64 b

/-- `ops::f32::sqrt` of the no_std build on the machine's binary32 -/
def sqrtNoStd32 (x : Float32) : Float32 :=
  if x ≥ 0 then Float32.ofBits (approx32 x.toBits.toNat).toUInt32 else Float32.ofBits 0x7fc00000

/-- `ops::f64::sqrt` of the no_std build on the machine's binary64 -/
def sqrtNoStd64 (x : Float) : Float :=
  if x ≥ 0 then Float.ofBits (approx64 x.toBits.toNat).toUInt64 else Float.ofBits 0x7ff8000000000000

end Dasp.SqrtTrick
