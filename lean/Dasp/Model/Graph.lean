/-!
# Model of `dasp_graph::process`, `sources`, `sinks` (dasp_graph/src/lib.rs) over petgraph 0.5.1

Core Lean only (linked into `driver_c09` / `driver_c16`).

* `step` transcribes one iteration of the `while let Some(&nx) = self.stack.last()` loop of
  petgraph 0.5.1 `DfsPostOrder::next` (visit/traversal.rs:199-220) over `List Bool` visit
  maps (the shape of `FixedBitSet`); `run` iterates it to completion and logs the emitted
  nodes (= the nodes `process` invokes, in order).
* The adjacency lists are an INPUT of the model: `inc n` is what
  `(&graph).neighbors_directed(n, Incoming)` yields, in petgraph's iteration order (one entry
  per parallel edge, self-loops included); `process` walks `Reversed(&graph)`, whose
  `neighbors(n)` is exactly that list (visit/reversed.rs).
-/
namespace Dasp.Graph

/-! ### visit maps (`FixedBitSet`) -/

abbrev VMap := List Bool
/-- `is_visited`.  Totalised: out of range counts as visited.  (petgraph would answer `false` and then
    panic in `put`; `Dasp.Graph.Inv.stk_lt` proves every stack entry is below the map length whenever the
    adjacency lists stay below the node bound, so the out-of-range branch is never taken.) -/
def vis (m : VMap) (i : Nat) : Bool := m.getD i true
/-- `put(i)` -/
def mark (m : VMap) (i : Nat) : VMap := m.set i true
/-- `Visitable::reset_map` = `map.clear(); map.grow(bound)` (visit/mod.rs:652-655 for `Graph`,
    677-680 for `StableGraph`; fixedbitset-0.2.0 lib.rs:71-78): all bits cleared, the map grows to `bound` but never shrinks -/
def resetMap (bound : Nat) (m : VMap) : VMap := List.replicate (max m.length bound) false

/-! ### the traversal -/

/-- neighbour lists walked by the DFS (for `process`: the incoming neighbours) -/
structure G where
  adj : Nat → List Nat

structure St where
  stack : List Nat              -- head = top of petgraph's Vec
  disc : VMap                   -- `discovered`
  fin : VMap                    -- `finished`
  out : List Nat                -- nodes returned by `next` so far, in order

/-- the neighbours that get pushed: those not yet discovered (traversal.rs:206-210) -/
def pushList (adj : List Nat) (disc : VMap) : List Nat := adj.filter (fun m => !vis disc m)

/-- one iteration of the `while let Some(&nx) = self.stack.last()` loop (traversal.rs:203-218);
    `discovered.visit(nx)` marks BEFORE the neighbour filter, which keeps self-loops off the stack -/
def step (g : G) (s : St) : Option St :=
  match s.stack with
  | [] => none
  | nx :: rest =>
    if vis s.disc nx then
      if vis s.fin nx then some { s with stack := rest }
      else some { s with stack := rest, fin := mark s.fin nx, out := s.out ++ [nx] }
    else
      some { s with stack := (pushList (g.adj nx) (mark s.disc nx)).reverse ++ s.stack, disc := mark s.disc nx }

def measure (s : St) : Nat × Nat := (s.disc.count false, s.stack.length)

theorem count_mark_lt (m : List Bool) (i : Nat) (h : vis m i = false) : (mark m i).count false < m.count false := by
  unfold vis mark at *
  induction m generalizing i with
  | nil => simp at h
  | cons b m ih =>
    cases i with
    | zero => simp at h; subst h; simp
    | succ i =>
      have := ih i (by simpa using h)
      cases b <;> simp <;> omega

theorem step_lt (g : G) (s s' : St) (h : step g s = some s') :
    Prod.Lex (· < ·) (· < ·) (measure s') (measure s) := by
  unfold step at h
  split at h
  · simp at h
  · rename_i nx rest hs
    split at h
    · split at h <;> (simp at h; subst h; apply Prod.Lex.right' <;> simp [measure, hs])
    · rename_i hd
      simp at h; subst h
      apply Prod.Lex.left
      exact count_mark_lt _ _ (by simpa using hd)

/-- run the loop until the stack is empty (all `next` calls of one `process` call) -/
def run (g : G) (s : St) : St :=
  match h : step g s with
  | none => s
  | some s' => run g s'
termination_by measure s
decreasing_by exact step_lt g s s' h

/-- fresh traversal state over maps of length `len` -/
def start (len root : Nat) : St :=
  { stack := [root], disc := List.replicate len false, fin := List.replicate len false, out := [] }

/-! ### graph container and processor -/

/-- a petgraph container as `process`/`sources`/`sinks` see it -/
structure PG where
  /-- `node_bound()`: node_count for `Graph`, highest index + 1 for `StableGraph` -/
  bound : Nat
  /-- slot holds a node (`node_weight(n).is_some()`); always true below `bound` for `Graph` -/
  live : Nat → Bool
  /-- `neighbors_directed(n, Incoming)` in petgraph's order -/
  inc : Nat → List Nat
  /-- `neighbors_directed(n, Outgoing)` in petgraph's order -/
  outg : Nat → List Nat

/-- the part of `Processor` that survives between calls (`inputs` is cleared per node) -/
structure Proc where
  stack : List Nat
  disc : VMap
  fin : VMap

def Proc.empty : Proc := ⟨[], [], []⟩

/-- `dfs_post_order.reset(Reversed(&*graph)); dfs_post_order.move_to(node)` (lib.rs:319-320) -/
def resetMoveTo (g : PG) (p : Proc) (root : Nat) : St :=
  { stack := [root], disc := resetMap g.bound p.disc, fin := resetMap g.bound p.fin, out := [] }

/-- the inputs handed to node `n`: incoming neighbours, `n == in_n` skipped (lib.rs:325-333) -/
def inputsOf (g : PG) (n : Nat) : List Nat := (g.inc n).filter (fun m => m != n)

/-- `(*data).node.process(&processor.inputs, &mut (*data).buffers)` with a stateless node
    function `F`: node `n` overwrites its own buffers with `F n (current buffers of its inputs)`.
    (`v` is bound outside the closure so that the compiled driver evaluates it once.) -/
def invoke {β : Type} (F : Nat → List β → β) (g : PG) (buf : Nat → β) (n : Nat) : Nat → β :=
  let v := F n ((inputsOf g n).map buf)
  fun m => if m = n then v else buf m

/-- buffer map as a structure, so that the compiled `invokeM` has arity 4 and evaluates `v` ONCE per
    invocation (a definition whose result type is a function is eta-expanded by the compiler and would
    re-evaluate `v` on every lookup: exponential on dense graphs).  `invokeM F g ⟨buf⟩ n = ⟨invoke F g buf n⟩`
    by `rfl` (`Dasp.Graph.foldl_invokeM`). -/
structure Mem (β : Type) where
  get : Nat → β

def invokeM {β : Type} (F : Nat → List β → β) (g : PG) (mem : Mem β) (n : Nat) : Mem β :=
  let v := F n ((inputsOf g n).map mem.get)
  ⟨fun m => if m = n then v else mem.get m⟩

structure Result (β : Type) where
  proc : Proc
  /-- (node, inputs) per `Node::process` invocation, in order -/
  log : List (Nat × List Nat)
  buf : Nat → β

/-- the order in which one `process` call invokes nodes -/
def order (g : PG) (p : Proc) (root : Nat) : List Nat := (run ⟨g.inc⟩ (resetMoveTo g p root)).out

/-- `dasp_graph::process` (lib.rs:311-346); `none` = panic (no node for the index) -/
def process {β : Type} (F : Nat → List β → β) (g : PG) (p : Proc) (buf : Nat → β) (root : Nat) : Option (Result β) :=
  if root < g.bound && g.live root then
    let s := run ⟨g.inc⟩ (resetMoveTo g p root)
    some { proc := ⟨s.stack, s.disc, s.fin⟩
           log := s.out.map (fun n => (n, inputsOf g n))
           buf := (s.out.foldl (invokeM F g) ⟨buf⟩).get }
  else none

/-- a `process` call that UNWINDS: the user node `k` panics inside `Node::process` (after its inputs
    were collected, before it writes its buffers) and the caller catches the unwind and keeps the
    processor.  The nodes before `k` in the traversal order ran normally, `k` was invoked (it is in the
    log) and its buffers are unchanged.  If `k` is not invoked by this call, the call is an ordinary one.
    The state the processor is left in is NOT modelled in detail (the traversal was abandoned half-way;
    both visit maps were sized by `reset`, so they have equal lengths): `Props/C09` proves that every
    later call is independent of it (`process_independent_of_processor`), so any state with equal-length
    visit maps may stand for it; the completed traversal's is used.  `processor.inputs` needs no
    modelling: it is cleared before the inputs of every node are collected (lib.rs:324). -/
def processAbort {β : Type} (F : Nat → List β → β) (g : PG) (p : Proc) (buf : Nat → β) (root k : Nat) :
    Option (Result β × Bool) :=
  if root < g.bound && g.live root then
    let s := run ⟨g.inc⟩ (resetMoveTo g p root)
    let pre := s.out.takeWhile (fun n => n != k)
    if pre.length < s.out.length then
      some ({ proc := ⟨s.stack, s.disc, s.fin⟩
              log := (pre ++ [k]).map (fun n => (n, inputsOf g n))
              buf := (pre.foldl (invokeM F g) ⟨buf⟩).get }, true)
    else
      some ({ proc := ⟨s.stack, s.disc, s.fin⟩
              log := s.out.map (fun n => (n, inputsOf g n))
              buf := (s.out.foldl (invokeM F g) ⟨buf⟩).get }, false)
  else none

/-! ### `sources` / `sinks` (lib.rs:352-376) -/

/-- `node_identifiers()`: `0..node_count` for `Graph`, the occupied slots in index order for `StableGraph` -/
def nodeIdentifiers (g : PG) : List Nat := (List.range g.bound).filter g.live

def sources (g : PG) : List Nat := (nodeIdentifiers g).filter (fun n => (g.inc n).isEmpty)
def sinks (g : PG) : List Nat := (nodeIdentifiers g).filter (fun n => (g.outg n).isEmpty)

/-- the scan as it was before commit 7d0940f (`(0..g.node_count()).map(from_index)`): kept only
    for the counter-witness theorem in Props/C09 -/
def sourcesOldIndexScan (g : PG) : List Nat :=
  (List.range ((List.range g.bound).filter g.live).length).filter (fun n => (g.inc n).isEmpty)
def sinksOldIndexScan (g : PG) : List Nat :=
  (List.range ((List.range g.bound).filter g.live).length).filter (fun n => (g.outg n).isEmpty)

end Dasp.Graph
