import Dasp.Model.Arith
/-!
# Model of the rectifiers of `dasp_peak/src/lib.rs` (lines 60-100) — core Lean only

Each rectifier is `frame.map(|s| …)`; the closure is transcribed once, over the operations of the
sample format it uses, and instantiated at the float formats (via `Dasp.Arith`) and at the integer
formats (samples as `Int`).  A frame is the `List` of its channel values.
-/
namespace Dasp.Peak

/-- `full_wave` closure (lib.rs:64-71):
    `let signed = s.to_signed_sample(); if signed < EQUILIBRIUM { -signed } else { signed }`.
    The negation is in the *signed* format and may fail (`none` = the overflow panic of a build with
    overflow checks; a wrapping build returns `some MIN`). -/
def fullWave {α σ : Type} (toSigned : α → σ) (ltS : σ → σ → Bool) (eqS : σ) (negS : σ → Option σ) (s : α) : Option σ :=
  let signed := toSigned s
  if ltS signed eqS then negS signed else some signed

/-- `positive_half_wave` closure (lib.rs:77-83): `if s < EQUILIBRIUM { EQUILIBRIUM } else { s }`, native format -/
def positiveHalfWave {α : Type} (lt : α → α → Bool) (eq : α) (s : α) : α :=
  if lt s eq then eq else s

/-- `negative_half_wave` closure (lib.rs:90-96): `if s > EQUILIBRIUM { EQUILIBRIUM } else { s }`, native format -/
def negativeHalfWave {α : Type} (lt : α → α → Bool) (eq : α) (s : α) : α :=
  if lt eq s then eq else s

/-! ## float formats (`Signed = Self`, `to_signed_sample` = identity, `EQUILIBRIUM = 0.0`) -/
section
variable {α : Type} [Arith α]
open Dasp.Arith

def fullWaveF (s : α) : α := (fullWave id lt zero (fun x => some (neg x)) s).getD s
def positiveHalfWaveF (s : α) : α := positiveHalfWave lt zero s
def negativeHalfWaveF (s : α) : α := negativeHalfWave lt zero s
end

/-! ## integer formats: a sample is an `Int` in the range of its format -/

/-- an integer sample format as the rectifiers see it: width of the *signed* companion format,
    native `EQUILIBRIUM` (0 for signed formats, `2^(bits-1)` for unsigned ones) -/
structure IFmt where
  bits : Nat
  eq : Int

def IFmt.i16 : IFmt := ⟨16, 0⟩
def IFmt.u8 : IFmt := ⟨8, 128⟩
def IFmt.i8 : IFmt := ⟨8, 0⟩
def IFmt.u16 : IFmt := ⟨16, 32768⟩

/-- most negative value of the signed companion format -/
def IFmt.smin (f : IFmt) : Int := -(2 ^ (f.bits - 1) : Int)

/-- `to_signed_sample` (dasp_sample/src/conv.rs, C01: exact re-offsetting): `s − EQUILIBRIUM` -/
def IFmt.toSigned (f : IFmt) (s : Int) : Int := s - f.eq

/-- `-signed` in the signed machine format: `MIN` has no negation — panic when overflow checks are
    on (`checked`), `MIN` again when arithmetic wraps -/
def IFmt.neg (f : IFmt) (checked : Bool) (v : Int) : Option Int :=
  if v = f.smin then (if checked then none else some v) else some (-v)

def fullWaveI (f : IFmt) (checked : Bool) (s : Int) : Option Int :=
  fullWave f.toSigned (fun a b => decide (a < b)) 0 (f.neg checked) s
def positiveHalfWaveI (f : IFmt) (s : Int) : Int := positiveHalfWave (fun a b => decide (a < b)) f.eq s
def negativeHalfWaveI (f : IFmt) (s : Int) : Int := negativeHalfWave (fun a b => decide (a < b)) f.eq s

end Dasp.Peak
