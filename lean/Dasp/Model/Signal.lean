/-!
# Model of the `Signal` sources, adaptors and consumers of `dasp_signal/src/lib.rs` (core Lean only)

Hand transcription (`file:line` = /repo/dasp_signal/src/lib.rs) of

* the sources `FromIterator` (1373-1384, 1580-1602), `FromInterleavedSamplesIterator`
  (1408-1422, 1604-1627), `Equilibrium` (1629-1639), `Gen`/`GenMut` (1641-1665);
* the adaptors `Map`, `ZipMap` (1667-1702), `AddAmp`, `MulAmp`, `ScaleAmp`,
  `ScaleAmpPerChannel`, `OffsetAmp`, `OffsetAmpPerChannel` (2100-2218), `Delay` (2242-2262),
  `Inspect` (2264-2282), `ClipAmp` (2369-2395), `impl Signal for &mut S` (1563-1578);
* the consumers `Take` (2397-2414), `UntilExhausted` (2328-2340), `lift` (831-842),
  `IntoInterleavedSamples::next_sample` (2284-2314).

A frame is a `List α` of the frame type's channel count.  The frame-level functions of
`dasp_frame` / `dasp_sample` (`EQUILIBRIUM`, `add_amp`, `mul_amp`, `scale_amp`, `offset_amp`,
the per-sample clip of `ClipAmp`) are *parameters* (`Ops`); sample arithmetic is C03's
subject.  User closures (`map`, `zip_map`, `gen`) are function-valued constructor arguments.

Every source carries the number of `Signal::next` calls it has received (`pulls`) and the
iterator-backed ones also the number of `Iterator::next` calls they have made (`calls`);
`Inspect` carries the log its closure has written.  `Driver/Signal.lean` executes exactly
these definitions.
-/
namespace Dasp.Signal

/-- frame-level operations of `dasp_frame`, parameters of the model -/
structure Ops (α : Type) where
  /-- `Frame::EQUILIBRIUM` -/
  eq : List α
  /-- `Frame::add_amp(self, other)` (dasp_frame/src/lib.rs:240) -/
  addAmp : List α → List α → List α
  /-- `Frame::mul_amp(self, other)` (dasp_frame/src/lib.rs:263) -/
  mulAmp : List α → List α → List α
  /-- `Frame::scale_amp(self, amp)` (dasp_frame/src/lib.rs:223) -/
  scaleAmp : List α → α → List α
  /-- `Frame::offset_amp(self, offset)` (dasp_frame/src/lib.rs:201) -/
  offsetAmp : List α → α → List α
  /-- the closure of `ClipAmp::next` (2378-2388): to the signed format, clamp to ±thresh, back -/
  clipSample : α → α → α

/-- the closure of `ClipAmp::next` (2378-2388) on a signed integer format, where both `to_sample`
    conversions are the identity: `if s > thresh { thresh } else if s < -thresh { -thresh } else { s }` -/
def clipInt (t s : Int) : Int := if s > t then t else if s < -t then -t else s

/-- the one-source adaptors that apply a frame function to the frame they pull -/
inductive Un (α : Type) where
  | map (m : List α → List α)
  | scaleAmp (k : α)
  | offsetAmp (k : α)
  | scaleAmpPerChannel (fr : List α)
  | offsetAmpPerChannel (fr : List α)
  | clipAmp (t : α)

/-- the frame function each one-source adaptor applies in its `next` -/
def Un.apply {α : Type} (o : Ops α) : Un α → List α → List α
  | .map m, f => m f                               -- 1677 `(self.map)(self.signal.next())`
  | .scaleAmp k, f => o.scaleAmp f k               -- 2152 `self.signal.next().scale_amp(self.amp)`
  | .offsetAmp k, f => o.offsetAmp f k             -- 2190 `self.signal.next().offset_amp(self.offset)`
  | .scaleAmpPerChannel fr, f => o.mulAmp f fr     -- 2173 `self.signal.next().mul_amp(self.amp_frame)`
  | .offsetAmpPerChannel fr, f => o.addAmp f fr    -- 2211 `self.signal.next().add_amp(self.amp_frame)`
  | .clipAmp t, f => f.map (o.clipSample t)        -- 2377-2389 `f.map(|s| …)`

/-- the two-source adaptors -/
inductive Bin (α : Type) where
  | zipMap (m : List α → List α → List α)
  | addAmp
  | mulAmp

def Bin.apply {α : Type} (o : Ops α) : Bin α → List α → List α → List α
  | .zipMap m, x, y => m x y                       -- 1696 `(self.map)(self.this.next(), self.other.next())`
  | .addAmp, x, y => o.addAmp x y                  -- 2113 `self.a.next().add_amp(self.b.next())`
  | .mulAmp, x, y => o.mulAmp x y                  -- 2135 `self.a.next().mul_amp(self.b.next())`

/-- `Frame::from_samples(&mut samples)` on an iterator over `rest` (dasp_frame/src/lib.rs:653-672,
    mono: 477-482): a full frame of `n` samples, or `None` after having drained a short rest.
    Returns the frame, the remaining samples and the number of `Iterator::next` calls made.
    (`n = 0` has no Rust counterpart — frames have 1..32 channels — and is treated as "no frame".) -/
def takeFrame {α : Type} (n : Nat) (rest : List α) : Option (List α) × List α × Nat :=
  if 0 < n ∧ n ≤ rest.length then (some (rest.take n), rest.drop n, n)
  else (none, [], rest.length + 1)

/-- run-time state of a signal expression -/
inductive St (α : Type) where
  /-- `FromIterator { iter, next }`: `slot` is the look-ahead `next`, `rest` what `iter` still holds -/
  | fromIter (slot : Option (List α)) (rest : List (List α)) (calls pulls : Nat)
  /-- `FromInterleavedSamplesIterator { samples, next }` for frames of `n` channels -/
  | fromSamples (n : Nat) (slot : Option (List α)) (rest : List α) (calls pulls : Nat)
  | equilibrium (pulls : Nat)
  /-- `Gen`/`GenMut`: the closure's result as a function of the call index -/
  | gen (f : Nat → List α) (pulls : Nat)
  | un (u : Un α) (s : St α)
  | bin (b : Bin α) (a c : St α)
  | inspect (log : List (List α)) (s : St α)
  /-- `Delay { signal, n_frames }` -/
  | delay (k : Nat) (s : St α)
  /-- `&mut S` -/
  | byRef (s : St α)

variable {α : Type}

/-- `signal::from_iter` (1373-1384): the constructor already pulls the first item into the slot -/
def St.ofIter (fs : List (List α)) : St α := .fromIter fs.head? fs.tail 1 0

/-- `signal::from_interleaved_samples_iter` (1408-1422) -/
def St.ofSamples (n : Nat) (ss : List α) : St α :=
  let r := takeFrame n ss
  .fromSamples n r.1 r.2.1 r.2.2 0

/-- `Signal::next` -/
def next (o : Ops α) : St α → List α × St α
  | .fromIter slot rest c p =>
    match slot with                                  -- 1589 `match self.next.take()`
    | some f => (f, .fromIter rest.head? rest.tail (c + 1) (p + 1))   -- 1591 `self.next = self.iter.next()`
    | none => (o.eq, .fromIter none rest c (p + 1))                   -- 1594 `None => Frame::EQUILIBRIUM`
  | .fromSamples n slot rest c p =>
    match slot with                                  -- 1614
    | some f =>
      let r := takeFrame n rest                      -- 1616 `self.next = F::from_samples(&mut self.samples)`
      (f, .fromSamples n r.1 r.2.1 (c + r.2.2) (p + 1))
    | none => (o.eq, .fromSamples n none rest c (p + 1))              -- 1619
  | .equilibrium p => (o.eq, .equilibrium (p + 1))   -- 1637
  | .gen f p => (f p, .gen f (p + 1))                -- 1650, 1663
  | .un u s =>
    let r := next o s
    (u.apply o r.1, .un u r.2)
  | .bin b a c =>
    let ra := next o a                               -- first operand is pulled first
    let rc := next o c
    (b.apply o ra.1 rc.1, .bin b ra.2 rc.2)
  | .inspect log s =>
    let r := next o s                                -- 2273 `let out = self.signal.next();`
    (r.1, .inspect (log ++ [r.1]) r.2)               -- 2274 `(self.inspect)(&out);`
  | .delay k s =>
    match k with
    | k' + 1 => (o.eq, .delay k' s)                  -- 2250-2252 `if self.n_frames > 0 { self.n_frames -= 1; EQUILIBRIUM }`
    | 0 =>
      let r := next o s                              -- 2254
      (r.1, .delay 0 r.2)
  | .byRef s =>
    let r := next o s                                -- 1571 `(**self).next()`
    (r.1, .byRef r.2)

/-- `Signal::is_exhausted` -/
def isExhausted : St α → Bool
  | .fromIter slot _ _ _ => slot.isNone              -- 1600 `self.next.is_none()`
  | .fromSamples _ slot _ _ _ => slot.isNone         -- 1625
  | .equilibrium _ => false                          -- default method, 168-170
  | .gen _ _ => false                                -- default method
  | .un _ s => isExhausted s                         -- 1681, 2157, 2178, 2195, 2216, 2393
  | .bin _ a c => isExhausted a || isExhausted c     -- 1700, 2118, 2140
  | .inspect _ s => isExhausted s                    -- 2280
  | .delay k s => k == 0 && isExhausted s            -- 2260 `self.n_frames == 0 && self.signal.is_exhausted()`
  | .byRef s => isExhausted s                        -- 1576

/-- `j` successive `next` calls: the frames returned and the final state -/
def run (o : Ops α) : Nat → St α → List (List α) × St α
  | 0, s => ([], s)
  | j + 1, s =>
    let r := next o s
    let q := run o j r.2
    (r.1 :: q.1, q.2)

/-! ### instrumentation read-outs (left-to-right) -/

/-- `Signal::next` calls received by each source owned by the expression (not through a borrow) -/
def St.pulls : St α → List Nat
  | .fromIter _ _ _ p => [p]
  | .fromSamples _ _ _ _ p => [p]
  | .equilibrium p => [p]
  | .gen _ p => [p]
  | .un _ s => s.pulls
  | .bin _ a c => a.pulls ++ c.pulls
  | .inspect _ s => s.pulls
  | .delay _ s => s.pulls
  | .byRef _ => []

/-- `Iterator::next` calls made by each iterator-backed source (constructor's look-ahead included) -/
def St.calls : St α → List Nat
  | .fromIter _ _ c _ => [c]
  | .fromSamples _ _ _ c _ => [c]
  | .equilibrium _ => []
  | .gen _ _ => []
  | .un _ s => s.calls
  | .bin _ a c => a.calls ++ c.calls
  | .inspect _ s => s.calls
  | .delay _ s => s.calls
  | .byRef _ => []

/-- what each `inspect` closure has seen -/
def St.logs : St α → List (List (List α))
  | .fromIter .. => []
  | .fromSamples .. => []
  | .equilibrium _ => []
  | .gen _ _ => []
  | .un _ s => s.logs
  | .bin _ a c => a.logs ++ c.logs
  | .inspect log s => log :: s.logs
  | .delay _ s => s.logs
  | .byRef _ => []

/-- the signals borrowed (`&mut`) by the expression, i.e. what the owner gets back -/
def St.borrows : St α → List (St α)
  | .fromIter .. => []
  | .fromSamples .. => []
  | .equilibrium _ => []
  | .gen _ _ => []
  | .un _ s => s.borrows
  | .bin _ a c => a.borrows ++ c.borrows
  | .inspect _ s => s.borrows
  | .delay _ s => s.borrows
  | .byRef s => [s]

/-! ### consumers -/

/-- `Take { signal, n }` -/
structure TakeSt (α : Type) where
  n : Nat
  sig : St α

/-- `Take::next` (2404-2410) -/
def TakeSt.next (o : Ops α) (t : TakeSt α) : Option (List α) × TakeSt α :=
  match t.n with
  | 0 => (none, t)                                   -- `if self.n == 0 { return None; }`
  | n' + 1 =>
    let r := Signal.next o t.sig                     -- `self.n -= 1; Some(self.signal.next())`
    (some r.1, ⟨n', r.2⟩)

/-- `UntilExhausted::next` (2334-2339) on `UntilExhausted { signal }` -/
def untilNext (o : Ops α) (s : St α) : Option (List α) × St α :=
  if isExhausted s then (none, s)                    -- `if self.signal.is_exhausted() { return None; }`
  else
    let r := next o s
    (some r.1, r.2)

/-- `signal::lift(iter, f)` (831-842): `f(from_iter(iter)).until_exhausted()`; `f` builds the
    adaptor state around the fresh `FromIterator` -/
def lift (fs : List (List α)) (f : St α → St α) : St α := f (St.ofIter fs)

/-- `IntoInterleavedSamples { signal, current_frame }`; `cur` = what `Channels` has not yielded yet -/
structure ILSt (α : Type) where
  cur : Option (List α)
  sig : St α

/-- 2293-2295 `if self.current_frame.is_none() && !self.signal.is_exhausted() { current_frame = Some(next().channels()) }` -/
def ILSt.refill (o : Ops α) (t : ILSt α) : ILSt α :=
  if t.cur.isNone && !isExhausted t.sig then
    let r := Signal.next o t.sig
    ⟨some r.1, r.2⟩
  else t

/-- `IntoInterleavedSamples::next_sample` (2292-2308).  The code recurses when the current frame
    has run out; a fresh frame has ≥ 1 channel, so one unrolling is the whole recursion (a
    0-channel frame type, on which the code would recurse forever, does not exist). -/
def ILSt.nextSample (o : Ops α) (t : ILSt α) : Option α × ILSt α :=
  let t := t.refill o
  match t.cur with
  | some (x :: r) => (some x, ⟨some r, t.sig⟩)        -- 2298-2299
  | some [] =>
    let t := ILSt.refill o ⟨none, t.sig⟩              -- 2301-2302 `self.current_frame = None; self.next_sample()`
    match t.cur with
    | some (x :: r) => (some x, ⟨some r, t.sig⟩)
    | some [] => (none, ⟨none, t.sig⟩)
    | none => (none, t)                               -- 2305
  | none => (none, t)                                 -- 2305

/-- iterate an `Option`-yielding consumer step `j` times -/
def runOpt {σ β : Type} (step : σ → Option β × σ) : Nat → σ → List (Option β) × σ
  | 0, s => ([], s)
  | j + 1, s =>
    let r := step s
    let q := runOpt step j r.2
    (r.1 :: q.1, q.2)

/-! ### signal expressions (syntax), their initial state and their denotation -/

/-- deep embedding of signal expressions as the user writes them -/
inductive Sig (α : Type) where
  | fromIter (fs : List (List α))
  | fromSamples (n : Nat) (ss : List α)
  | equilibrium
  | gen (f : Nat → List α)
  | map (m : List α → List α) (s : Sig α)
  | zipMap (m : List α → List α → List α) (a b : Sig α)
  | addAmp (a b : Sig α)
  | mulAmp (a b : Sig α)
  | scaleAmp (k : α) (s : Sig α)
  | offsetAmp (k : α) (s : Sig α)
  | scaleAmpPerChannel (fr : List α) (s : Sig α)
  | offsetAmpPerChannel (fr : List α) (s : Sig α)
  | clipAmp (t : α) (s : Sig α)
  | inspect (s : Sig α)
  | delay (k : Nat) (s : Sig α)
  | byRef (s : Sig α)

/-- the state right after construction -/
def Sig.init : Sig α → St α
  | .fromIter fs => St.ofIter fs
  | .fromSamples n ss => St.ofSamples n ss
  | .equilibrium => .equilibrium 0
  | .gen f => .gen f 0
  | .map m s => .un (.map m) s.init
  | .zipMap m a b => .bin (.zipMap m) a.init b.init
  | .addAmp a b => .bin .addAmp a.init b.init
  | .mulAmp a b => .bin .mulAmp a.init b.init
  | .scaleAmp k s => .un (.scaleAmp k) s.init
  | .offsetAmp k s => .un (.offsetAmp k) s.init
  | .scaleAmpPerChannel fr s => .un (.scaleAmpPerChannel fr) s.init
  | .offsetAmpPerChannel fr s => .un (.offsetAmpPerChannel fr) s.init
  | .clipAmp t s => .un (.clipAmp t) s.init
  | .inspect s => .inspect [] s.init
  | .delay k s => .delay k s.init
  | .byRef s => .byRef s.init

/-- `chunks` with explicit fuel (structural recursion, so that it evaluates in the kernel) -/
def chunksAux (n : Nat) : Nat → List α → List (List α)
  | 0, _ => []
  | fuel + 1, ss => if 0 < n ∧ n ≤ ss.length then ss.take n :: chunksAux n fuel (ss.drop n) else []

/-- the complete frames of `n` samples each at the front of `ss` (a trailing incomplete frame is
    dropped); characterised by `chunks_eq`, `chunks_flatten`, `chunks_length` in `Lemmas/Signal.lean` -/
def chunks (n : Nat) (ss : List α) : List (List α) := chunksAux n ss.length ss

/-- min on lengths where `none` = infinite -/
def minLen : Option Nat → Option Nat → Option Nat
  | some x, some y => some (min x y)
  | some x, none => some x
  | none, some y => some y
  | none, none => none

/-- denotation: the `i`-th frame the expression yields -/
def Sig.den (o : Ops α) : Sig α → Nat → List α
  | .fromIter fs, i => fs.getD i o.eq
  | .fromSamples n ss, i => (chunks n ss).getD i o.eq
  | .equilibrium, _ => o.eq
  | .gen f, i => f i
  | .map m s, i => m (s.den o i)
  | .zipMap m a b, i => m (a.den o i) (b.den o i)
  | .addAmp a b, i => o.addAmp (a.den o i) (b.den o i)
  | .mulAmp a b, i => o.mulAmp (a.den o i) (b.den o i)
  | .scaleAmp k s, i => o.scaleAmp (s.den o i) k
  | .offsetAmp k s, i => o.offsetAmp (s.den o i) k
  | .scaleAmpPerChannel fr s, i => o.mulAmp (s.den o i) fr
  | .offsetAmpPerChannel fr s, i => o.addAmp (s.den o i) fr
  | .clipAmp t s, i => (s.den o i).map (o.clipSample t)
  | .inspect s, i => s.den o i
  | .delay k s, i => if i < k then o.eq else s.den o (i - k)
  | .byRef s, i => s.den o i

/-- number of meaningful frames (`none` = infinite) -/
def Sig.len : Sig α → Option Nat
  | .fromIter fs => some fs.length
  | .fromSamples n ss => some (ss.length / n)
  | .equilibrium => none
  | .gen _ => none
  | .map _ s => s.len
  | .zipMap _ a b => minLen a.len b.len
  | .addAmp a b => minLen a.len b.len
  | .mulAmp a b => minLen a.len b.len
  | .scaleAmp _ s => s.len
  | .offsetAmp _ s => s.len
  | .scaleAmpPerChannel _ s => s.len
  | .offsetAmpPerChannel _ s => s.len
  | .clipAmp _ s => s.len
  | .inspect s => s.len
  | .delay k s => s.len.map (· + k)
  | .byRef s => s.len

end Dasp.Signal
