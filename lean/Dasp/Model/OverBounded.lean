import Dasp.Model.Ring
import Dasp.Model.Fork
import Dasp.Model.Buffered
/-!
# Fork and Buffered over the `Bounded` transcription (concrete ring buffer state)

`Model/Fork.lean` and `Model/Buffered.lean` keep the ring buffer as its abstract content
(`q : List α`, `cap`).  Here the same two transcriptions run over `Dasp.Ring.Bounded` — the
`(data, start, len)` state with the index arithmetic of `dasp_ring_buffer/src/lib.rs` — calling
`push`/`pop`/`length`/`maxLen` exactly where the Rust code calls them.  `Props/LinkFork.lean`
proves that abstraction (`Bounded.abs`) commutes with every operation, so every theorem of C12
and C14 holds verbatim for any backing slice, any `start` offset and any pre-filled content.
Core Lean only.
-/
namespace Dasp.OverBounded
open Dasp.Ring Dasp.SrcQueue

variable {α : Type} [Inhabited α]

/-! ## Fork -/

structure ForkB (α : Type) where
  src : Src α
  b : Bounded α
  pending : Bool

def ForkB.abs (s : ForkB α) : Dasp.Fork.St α := ⟨s.src, s.b.abs, s.b.maxLen, s.pending⟩

/-- lib.rs:1171-1173: `let frame = fork.signal.next(); fork.ring_buffer.push(frame); frame` -/
def ForkB.pull (s : ForkB α) : α × ForkB α :=
  let r := s.src.next
  (r.1, { s with src := r.2, b := (s.b.push r.1).1 })

/-- lib.rs:1163-1174 / 1183-1194 -/
def ForkB.next (s : ForkB α) (me : Bool) : α × ForkB α :=
  if s.pending = me then
    match s.b.pop with
    | (b', some x) => (x, { s with b := b' })
    | (_, none) => ForkB.pull { s with pending := !me }
  else ForkB.pull s

/-- lib.rs:1203-1210: `if fork.pending == $SELF { fork.ring_buffer.len() } else { 0 }` -/
def ForkB.pendingFrames (s : ForkB α) (me : Bool) : Nat := if s.pending = me then s.b.length else 0

def ForkB.step (s : ForkB α) : Dasp.Fork.Op → Dasp.Fork.Obs α × ForkB α
  | .pull me =>
    let r := ForkB.next s me
    (⟨some r.1, r.2.pendingFrames true, r.2.pendingFrames false, r.2.src.pos⟩, r.2)
  | _ => (⟨none, s.pendingFrames true, s.pendingFrames false, s.src.pos⟩, s)

def ForkB.trace (s : ForkB α) : List Dasp.Fork.Op → List (Dasp.Fork.Obs α)
  | [] => []
  | o :: r => (ForkB.step s o).1 :: ForkB.trace (ForkB.step s o).2 r

/-! ## Buffered -/

structure BufB (α : Type) where
  src : Src α
  b : Bounded α

def BufB.abs (s : BufB α) : Dasp.Buffered.St α := ⟨s.src, s.b.abs, s.b.maxLen⟩

def BufB.pullPush (s : BufB α) : BufB α :=
  let r := s.src.next
  { src := r.2, b := (s.b.push r.1).1 }

def BufB.fill : Nat → BufB α → BufB α
  | 0, s => s
  | n + 1, s => BufB.fill n (BufB.pullPush s)

/-- `for _ in 0..ring_buffer.max_len() { ring_buffer.push(signal.next()); }` -/
def BufB.refill (s : BufB α) : BufB α := BufB.fill s.b.maxLen s

/-- `Buffered::next` (lib.rs:2484-2499) -/
def BufB.next (s : BufB α) : α × BufB α :=
  match s.b.pop with
  | (b', some x) => (x, { s with b := b' })
  | (_, none) =>
    let s' := BufB.refill s
    match s'.b.pop with
    | (b', some x) => (x, { s' with b := b' })
    | (_, none) => (s.src.eq, s')

/-- `Buffered::next_frames` (lib.rs:2452-2465) -/
def BufB.beginFrames (s : BufB α) : BufB α := if s.b.length = 0 then BufB.refill s else s

/-- `BufferedFrames::next`: `self.ring_buffer.pop()` -/
def BufB.iterNext (s : BufB α) : Option α × BufB α :=
  match s.b.pop with
  | (b', some x) => (some x, { s with b := b' })
  | (_, none) => (none, s)

def BufB.isExhausted (s : BufB α) : Bool := s.b.length == 0 && s.src.isExhausted

def BufB.iterN : Nat → BufB α → List (Option α) × BufB α
  | 0, s => ([], s)
  | k + 1, s =>
    let r := BufB.iterNext s
    let t := BufB.iterN k r.2
    (r.1 :: t.1, t.2)

def BufB.untilExhausted : Nat → BufB α → List α × BufB α
  | 0, s => ([], s)
  | fuel + 1, s =>
    if BufB.isExhausted s then ([], s)
    else
      let r := BufB.next s
      let t := BufB.untilExhausted fuel r.2
      (r.1 :: t.1, t.2)

def BufB.ueFuel (s : BufB α) : Nat := s.b.length + (s.src.frames.length - s.src.pos) + s.b.maxLen

def BufB.exec (s : BufB α) : Dasp.Buffered.Op → List (Option α) × BufB α
  | .next => let r := BufB.next s; ([some r.1], r.2)
  | .frames k => BufB.iterN k (BufB.beginFrames s)
  | .drain => let s' := BufB.beginFrames s; BufB.iterN s'.b.length s'
  | .untilExhausted => let r := BufB.untilExhausted (BufB.ueFuel s) s; (r.1.map some, r.2)
  | .look => ([], s)

def BufB.step (s : BufB α) (o : Dasp.Buffered.Op) : Dasp.Buffered.Obs α × BufB α :=
  let r := BufB.exec s o
  (⟨r.1, r.2.src.pos, BufB.isExhausted r.2⟩, r.2)

def BufB.trace (s : BufB α) : List Dasp.Buffered.Op → List (Dasp.Buffered.Obs α)
  | [] => []
  | o :: r => (BufB.step s o).1 :: BufB.trace (BufB.step s o).2 r

end Dasp.OverBounded
