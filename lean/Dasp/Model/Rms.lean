import Dasp.Model.Arith
/-!
# Model of `dasp_rms::Rms` (dasp_rms/src/lib.rs) and of the `rms` signal adaptor
  (dasp_signal/src/rms.rs) — core Lean only, generic over `Dasp.Arith`

Layout.  The Rust state is a `ring_buffer::Fixed` of *frames* of squares plus a *frame*
`square_sum`; every operation on it is `Frame::map` / `Frame::zip_map` / `Frame::add_amp`, i.e.
acts on each channel separately.  The model stores the transposed layout: one `Chan` (window of
squares of that channel, oldest first, and that channel's running sum) per channel; a frame is the
`List` of its channel values.  The `Fixed` ring buffer is modelled as the ideal delay line of its
length (C06 proves `Fixed::push` refines exactly this: the pushed item goes to the back, the
oldest item is returned): `push w x = (w.drop 1 ++ [x], w.head)`.

The frames handed to the model are the *float* frames `new_frame.to_float_frame()` (lib.rs:143);
for integer frame formats the conversion is the subject of C02 and is applied by the harness.
-/
namespace Dasp.Rms
open Dasp Dasp.Arith

/-- one channel of the detector: `window` = the squares in the ring buffer (oldest first),
    `sum` = that channel of `square_sum` (lib.rs:28-30) -/
structure Chan (α : Type) where
  window : List α
  sum : α
deriving Repr

variable {α : Type} [Arith α]

/-- `Rms::new(ring_buffer)` (lib.rs:52-58): the given buffer becomes the window, `square_sum = EQUILIBRIUM` -/
def Chan.new (ring : List α) : Chan α := ⟨ring, zero⟩

/-- the state the property speaks about: a zero-initialised window of `n` frames -/
def Chan.init (n : Nat) : Chan α := Chan.new (List.replicate n zero)

/-- `Rms::reset` (lib.rs:76-84): every slot of the window and the sum become `EQUILIBRIUM` -/
def Chan.reset (c : Chan α) : Chan α := ⟨c.window.map fun _ => zero, zero⟩

/-- `Rms::window_frames` (lib.rs:101-103) -/
def Chan.windowFrames (c : Chan α) : Nat := c.window.length

/-- `calc_rms_squared` (lib.rs:191-194): `square_sum / from_sample(window.len() as f32)` -/
def Chan.calcSquared (c : Chan α) : α := div c.sum (ofLen c.window.length)

/-- `Rms::next_squared` (lib.rs:137-158), one channel:
    `sq = s * s`; `removed = window.push(sq)`; `diff = (square_sum + sq) - removed`;
    `square_sum = if diff < 0 { 0 } else { diff }`; result `calc_rms_squared()`.
    (`Fixed::push` needs a non-empty buffer; `headD` totalises, `Lemmas/Rms.lean` proves the
    window keeps its length `N ≥ 1`.) -/
def Chan.nextSquared (c : Chan α) (s : α) : Chan α × α :=
  let sq := mul s s                                   -- 143
  let removed := c.window.headD zero                  -- 145 (oldest element)
  let window := c.window.drop 1 ++ [sq]               -- 145
  let diff := sub (add c.sum sq) removed              -- 148-151: `square_sum.add_amp(sq)` then `s - r`
  let sum := if lt diff zero then zero else diff      -- 153-157
  let c' : Chan α := ⟨window, sum⟩
  (c', c'.calcSquared)                                -- 159

/-- `Rms::next` (lib.rs:127-133): `next_squared` then `sample_sqrt` (the square root is a parameter:
    IEEE `sqrt` in the std build, the exponent-halving bit trick in the no_std build) -/
def Chan.next (sqrt : α → α) (c : Chan α) (s : α) : Chan α × α :=
  let (c', m) := c.nextSquared s
  (c', sqrt m)

/-- `Rms::current` (lib.rs:187-189) -/
def Chan.current (sqrt : α → α) (c : Chan α) : α := sqrt c.calcSquared

/-! ## frames: one `Chan` per channel -/

/-- the detector over frames of `chans.length` channels -/
structure Rms (α : Type) where
  chans : List (Chan α)
deriving Repr

/-- `Rms::new(Fixed::from([[0.0; ch]; n]))` -/
def Rms.init (ch n : Nat) : Rms α := ⟨List.replicate ch (Chan.init n)⟩

def Rms.reset (r : Rms α) : Rms α := ⟨r.chans.map Chan.reset⟩

/-- `window.len()`: all channels share the one ring buffer of frames -/
def Rms.windowFrames (r : Rms α) : Nat := (r.chans.headD (Chan.init 0)).windowFrames

def Rms.nextSquared (r : Rms α) (frame : List α) : Rms α × List α :=
  let rs := List.zipWith Chan.nextSquared r.chans frame
  (⟨rs.map Prod.fst⟩, rs.map Prod.snd)

def Rms.next (sqrt : α → α) (r : Rms α) (frame : List α) : Rms α × List α :=
  let rs := List.zipWith (Chan.next sqrt) r.chans frame
  (⟨rs.map Prod.fst⟩, rs.map Prod.snd)

def Rms.current (sqrt : α → α) (r : Rms α) : List α := r.chans.map (Chan.current sqrt)

/-! ## histories -/

/-- what a client can do to a detector -/
inductive Op (α : Type) where
  | next (frame : List α)
  | nextSquared (frame : List α)
  | reset
  | current
  | windowFrames
  /-- `rms.clone().into_parts()`: what the detector holds — the window (oldest frame first, as
      `Fixed::iter` presents it) and `square_sum` -/
  | parts
deriving Repr

/-- what it observes -/
inductive Obs (α : Type) where
  | frame (f : List α)
  | unit
  | len (n : Nat)
  | parts (window : List (List α)) (sum : List α)
deriving Repr

def Rms.step (sqrt : α → α) (r : Rms α) : Op α → Rms α × Obs α
  | .next f => let (r', o) := r.next sqrt f; (r', .frame o)
  | .nextSquared f => let (r', o) := r.nextSquared f; (r', .frame o)
  | .reset => (r.reset, .unit)
  | .current => (r, .frame (r.current sqrt))
  | .windowFrames => (r, .len r.windowFrames)
  | .parts => (r, .parts ((List.range r.windowFrames).map fun i => r.chans.map fun c => c.window.getD i zero) (r.chans.map Chan.sum))

/-- run a whole history, collecting every observation -/
def Rms.run (sqrt : α → α) : Rms α → List (Op α) → Rms α × List (Obs α)
  | r, [] => (r, [])
  | r, op :: ops =>
    let (r', o) := r.step sqrt op
    let (r'', os) := Rms.run sqrt r' ops
    (r'', o :: os)

/-! ## the signal adaptor `signal.rms(ring_buffer)` (dasp_signal/src/rms.rs)

`Signal::next` (rms.rs:115-117) is `self.rms.next(self.signal.next())`, `next_squared`
(rms.rs:89-91) is `self.rms.next_squared(self.signal.next())`.  The source is a
`signal::from_iter` over the remaining frames, yielding `EQUILIBRIUM` once they are used up. -/
structure Adaptor (α : Type) where
  src : List (List α)
  ch : Nat
  rms : Rms α
  /-- number of `Signal::next` calls made on the source -/
  pulls : Nat

/-- `self.signal.next()` -/
def Adaptor.pull (a : Adaptor α) : List α × Adaptor α :=
  match a.src with
  | f :: rest => (f, { a with src := rest, pulls := a.pulls + 1 })
  | [] => (List.replicate a.ch zero, { a with pulls := a.pulls + 1 })

def Adaptor.next (sqrt : α → α) (a : Adaptor α) : Adaptor α × List α :=
  let (f, a') := a.pull
  let (r', o) := a'.rms.next sqrt f
  ({ a' with rms := r' }, o)

def Adaptor.nextSquared (a : Adaptor α) : Adaptor α × List α :=
  let (f, a') := a.pull
  let (r', o) := a'.rms.nextSquared f
  ({ a' with rms := r' }, o)

/-- `k` calls of `Signal::next` on the adaptor -/
def Adaptor.take (sqrt : α → α) : Nat → Adaptor α → Adaptor α × List (List α)
  | 0, a => (a, [])
  | k + 1, a =>
    let (a', o) := a.next sqrt
    let (a'', os) := Adaptor.take sqrt k a'
    (a'', o :: os)

end Dasp.Rms
