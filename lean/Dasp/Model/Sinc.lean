import Dasp.Model.Converter
/-! # Model of the sinc interpolator (dasp_interpolate/src/sinc/mod.rs over `ring_buffer::Fixed`) —
property C18. Core Lean only.

Written once over the arithmetic structure `Dasp.Conv.Arith` of `Model/Converter.lean`:
* at `Rat` (`ratArith sin cos π`: exact arithmetic, `sin`/`cos`/`π` arbitrary parameters — the theorems of
  `Dasp/Props/C18.lean` state as hypotheses exactly what they need about them);
* at native binary64 `Float` (`floatArith`, drivers only): IEEE `+ - * /`, `Float.sin`/`Float.cos` are the
  same libm functions Rust's `f64::sin`/`f64::cos` call on this machine — that the two agree bit for bit
  is *measured* by the correspondence run, not proved.

Frames are `f64` frames (a frame = the list of its channels; `to_sample::<f64>()`, `to_sample::<S>()` and
`to_signed_sample()` are identities and `add_amp` is `+`, sample lib.rs:207-210). Integer sample formats
are not modelled here.

The ring is the ideal `Fixed` ring buffer: a list of `len` frames plus `first`, indexed exactly like
ring_buffer lib.rs:230-233 (`(first + index) % len`, then a checked slice index) and pushed exactly like
lib.rs:199-212. `usize`/`isize` arithmetic of `interpolate` is carried out in `Int`
(`maxDepthI`); `Dasp.Sinc.index_safe` proves that in every reachable state no subtraction underflows, the
`as usize` cast is of a non-negative number and every slice index is in range. -/
namespace Dasp.Sinc
open Dasp.Conv

/-- `ring_buffer::Fixed<[F; N]>` of frames -/
structure Ring (F : Type) where
  data : List (List F)
  first : Nat
  deriving Repr

variable {F : Type}

/-- lib.rs:181-183 -/
def Ring.len (r : Ring F) : Nat := r.data.length

/-- `Fixed::push` (lib.rs:199-212): overwrite slot `first`, advance `first` with wrap (the returned old
    item is discarded by the caller, sinc/mod.rs:119) -/
def Ring.push (r : Ring F) (x : List F) : Ring F :=
  { data := r.data.set r.first x, first := if r.first + 1 = r.len then 0 else r.first + 1 }

/-- `Index<usize>` / `Fixed::get` (lib.rs:230-233, 387-392): `&data[(first + index) % len]`;
    `eq` is returned only for an out-of-range slice index, which `index_safe` excludes -/
def Ring.get (eq : List F) (r : Ring F) (i : Nat) : List F := r.data.getD ((r.first + i) % r.len) eq

/-- `Sinc` (sinc/mod.rs:26-29) -/
structure St (F : Type) where
  ring : Ring F
  idx : Nat
  deriving Repr

/-- `Sinc::new` (sinc/mod.rs:45-55): panics (`none`) unless the ring's length is even; `idx = 0` -/
def new (ring : Ring F) : Option (St F) := if ring.len % 2 = 0 then some ⟨ring, 0⟩ else none

/-- `Sinc::depth` (sinc/mod.rs:57-62) -/
def depth (s : St F) : Nat := s.ring.len / 2

/-- sinc/mod.rs:76-89 with the `usize`/`isize` arithmetic carried out in `Int`:
    `nl = idx; nr = idx + 1; rightmost = nl + depth; leftmost = nr as isize - depth as isize;`
    `max_depth = if rightmost >= len { len - depth } else if leftmost < 0 { (depth as isize + leftmost) as usize } else { depth }` -/
def maxDepthI (s : St F) : Int :=
  let nl : Int := s.idx
  let nr : Int := s.idx + 1
  let dep : Int := depth s
  let rightmost := nl + dep
  let leftmost := nr - dep
  if rightmost ≥ (s.ring.len : Int) then (s.ring.len : Int) - dep
  else if leftmost < 0 then dep + leftmost
  else dep

def maxDepth (s : St F) : Nat := (maxDepthI s).toNat

/-- one kernel weight (sinc/mod.rs:93-95 with `phi = phil`, 105-107 with `phi = phir`):
    `a = PI * (phi + n as f64); first = if a == 0.0 { 1.0 } else { sin(a) / a };`
    `second = 0.5 + 0.5 * cos(a / depth as f64);` the tap is scaled by `first * second` -/
def kernel (A : Arith F) (dep : Nat) (phi : F) (n : Nat) : F :=
  let a := A.mul A.pi (A.add phi (A.ofNat n))
  let first := if A.isZero a then A.one else A.div (A.sin a) a
  let second := A.add A.half (A.mul A.half (A.cos (A.div a (A.ofNat dep))))
  A.mul first second

/-- `v.zip_map(frame, |vs, r_lag| vs.add_amp((first * second * r_lag.to_sample::<f64>()).to_sample().to_signed_sample()))`
    at `f64` frames (sinc/mod.rs:96-102, 108-114) -/
def accum (A : Arith F) (w : F) (v frame : List F) : List F :=
  List.zipWith (fun vs r => A.add vs (A.mul w r)) v frame

/-- the body of the fold for tap pair `n` (sinc/mod.rs:91-115): left tap `frames[nl - n]` weighted with
    the kernel at `phil + n`, then right tap `frames[nr + n]` weighted with the kernel at `phir + n` -/
def tapStep (A : Arith F) (eq : List F) (s : St F) (x : F) (v : List F) (n : Nat) : List F :=
  let phil := x
  let phir := A.sub A.one x
  let v1 := accum A (kernel A (depth s) phil n) v (s.ring.get eq (s.idx - n))
  accum A (kernel A (depth s) phir n) v1 (s.ring.get eq (s.idx + 1 + n))

/-- `Sinc::interpolate` (sinc/mod.rs:74-116): `(0..max_depth).fold(EQUILIBRIUM, …)` -/
def interpolate (A : Arith F) (eq : List F) (s : St F) (x : F) : List F :=
  (List.range (maxDepth s)).foldl (tapStep A eq s x) eq

/-- `Sinc::next_source_frame` (sinc/mod.rs:118-123): push, `if idx < depth { idx += 1 }` -/
def nextSourceFrame (s : St F) (frame : List F) : St F :=
  { ring := s.ring.push frame, idx := if s.idx < depth s then s.idx + 1 else s.idx }

/-- `Sinc::reset` (sinc/mod.rs:125-131): `idx = 0; frames.set_first(0)` (lib.rs:262-264: `0 % len`);
    every frame := EQUILIBRIUM -/
def reset (eq : List F) (s : St F) : St F :=
  { ring := { data := s.ring.data.map fun _ => eq, first := 0 % s.ring.len }, idx := 0 }

/-- the sinc interpolator as an `Interpolator` for the converter model -/
def sincInterp (A : Arith F) (eq : List F) : Interp F F (St F) where
  push := nextSourceFrame
  eval := interpolate A eq

/-- operations of a direct history -/
inductive Op (F : Type) where
  | push (frame : List F)
  | interp (x : F)
  | reset

/-- state after an operation (`interp` does not change it) -/
def step (eq : List F) (s : St F) : Op F → St F
  | .push f => nextSourceFrame s f
  | .interp _ => s
  | .reset => reset eq s

end Dasp.Sinc
