/-! # Model of windowing (dasp_window/src/**, dasp_signal/src/window/**) — property C20. Core Lean only.

The numeric part is written ONCE, generically over an arithmetic structure `Arith F`, and instantiated
* at `Rat` (`ratArith`, exact arithmetic; `cos` and `2π` are parameters — the theorems of
  `Dasp/Props/C20.lean` assume only what they state about them), and
* at the native binary64 `Float` (`floatArith`; used by the driver `driver_c20` only, never in a
  theorem): `+ - * /` are the IEEE operations of the CPU, `cos` is libm's (`Float.cos` and Rust's
  `f64::cos` call the same `cos` of this machine's libm — agreement is *measured* bit for bit by the
  correspondence run, it is not a theorem), `x % 1.0` is computed as `x − ⌊x⌋` with the sign rule of
  `fmod` (exact in binary64, so bit-identical to Rust's `%`).

The chunk schedule (`Windower`) is integer/list code and is modelled exactly. -/
namespace Dasp.Window

/-- the arithmetic the window code uses -/
structure Arith (F : Type) where
  zero : F
  one : F
  half : F                 -- the literal `0.5`
  twoPi : F                -- `core::f64::consts::PI * 2.0` (hann/mod.rs:24)
  ofNat : Nat → F          -- `len as f64`
  add : F → F → F
  sub : F → F → F
  mul : F → F → F
  div : F → F → F
  wrap1 : F → F            -- `x % 1.0` (signal lib.rs:1927 with `rem = 1.0`)
  cos : F → F              -- `ops::f64::cos` (hann/ops.rs): libm, an oracle

/-! ## Window functions (dasp_window) -/

/-- `Hann::window` at `S = f64` (hann/mod.rs:19-30): `0.5 * (1.0 - cos(phase * PI_2))`
    (the `to_float_sample`/`to_sample` calls are identities at f64) -/
def hann {F : Type} (A : Arith F) (phase : F) : F :=
  A.mul A.half (A.sub A.one (A.cos (A.mul phase A.twoPi)))

/-- `Rectangle::window` (rectangle.rs:15-23): `S::IDENTITY` whatever the phase -/
def rectangle {F : Type} (A : Arith F) (_phase : F) : F := A.one

inductive Kind where
  | hann
  | rectangle
  deriving Repr, DecidableEq

def window {F : Type} (A : Arith F) : Kind → F → F
  | .hann => hann A
  | .rectangle => rectangle A

/-! ## `Window` iterator: a `Phase<ConstHz>` stepped by `1/(len-1)` (window/mod.rs:87-93, 121-129) -/

/-- `Phase<ConstHz>` (signal lib.rs:1443-1451, 1788-1790) -/
structure Phase (F : Type) where
  step : F
  next : F

/-- `Window::new(len)`: `rate(len as f64 - 1.0).const_hz(1.0)` = step `1.0 / (len - 1.0)`, phase 0 -/
def newWindow {F : Type} (A : Arith F) (len : Nat) : Phase F :=
  ⟨A.div A.one (A.sub (A.ofNat len) A.one), A.zero⟩

/-- `Phase::next_phase` (signal lib.rs:1925-1935): yield the current phase, advance modulo 1 -/
def nextPhase {F : Type} (A : Arith F) (p : Phase F) : F × Phase F :=
  (p.next, { p with next := A.wrap1 (A.add p.next p.step) })

/-- the first `count` phases a `Phase` yields -/
def phasesFrom {F : Type} (A : Arith F) : Nat → Phase F → List F
  | 0, _ => []
  | count + 1, p => (nextPhase A p).1 :: phasesFrom A count (nextPhase A p).2

/-- the first `count` phases of `Window::new(len)` -/
def windowPhases {F : Type} (A : Arith F) (len count : Nat) : List F := phasesFrom A count (newWindow A len)

/-- the first `count` values (as f64, before the conversion to the frame's float type) that
    `Window<_, W>::new(len)` yields: `W::window(phase.next_phase())` (window/mod.rs:124-125) -/
def windowValues {F : Type} (A : Arith F) (k : Kind) (len count : Nat) : List F :=
  (windowPhases A len count).map (window A k)

/-! ## `Windowed` (window/mod.rs:175-187): source frame × window frame, channel by channel

`toAmp` is the conversion of the f64 window value to the sample format's float type
(`v.to_sample()`, window/mod.rs:126-127) and `mulAmp` is `Sample::mul_amp`; both are parameters here
(sample arithmetic is modelled under C02/C03). A frame is the list of its channels; the window frame
carries the same value in every channel (`F::from_fn(|_| v_f…)`, mod.rs:127). -/
def windowed {F S Amp : Type} (A : Arith F) (k : Kind) (toAmp : F → Amp) (mulAmp : S → Amp → S)
    (chunk : List (List S)) : List (List S) :=
  List.zipWith (fun frame v => frame.map (fun s => mulAmp s (toAmp v)))
    chunk (windowValues A k chunk.length chunk.length)

/-! ## `Windower` (window/mod.rs:107-115, 131-173): the chunk schedule -/

structure Windower (α : Type) where
  bin : Nat
  hop : Nat
  frames : List α          -- the remaining slice

/-- `Windower::next` (window/mod.rs:138-155): the yielded chunk is the slice `frames[..bin]`
    (its `Window::new(bin)` is applied by `windowed`) -/
def next {α : Type} (w : Windower α) : Option (List α × Windower α) :=
  if w.bin ≤ w.frames.length then
    some (w.frames.take w.bin,
          { w with frames := if w.hop < w.frames.length then w.frames.drop w.hop else [] })
  else none

/-- `usize::MAX` on the 64-bit harness target (window/mod.rs:163) -/
def usizeMax : Nat := 18446744073709551615

/-- `Windower::size_hint` as the code is now (window/mod.rs:157-172, after the fix commit 0af427c:
    `bin <= num_frames` and `/ hop + 1`) -/
def sizeHint {α : Type} (w : Windower α) : Nat × Option Nat :=
  if w.bin ≤ w.frames.length then
    if w.hop = 0 then (usizeMax, none)
    else
      let remaining := (w.frames.length - w.bin) / w.hop + 1
      (remaining, some remaining)
  else (0, some 0)

/-- HISTORICAL (before fix commit 0af427c): the size hint the code used to compute, `bin < num_frames`
    and no `+ 1`. Kept only for the counter-witness theorem `old_sizeHint_one_short`; nothing else
    uses it and the driver never runs it. -/
def sizeHintOld {α : Type} (w : Windower α) : Nat × Option Nat :=
  if w.bin < w.frames.length then
    if w.hop = 0 then (usizeMax, none)
    else
      let remaining := (w.frames.length - w.bin) / w.hop
      (remaining, some remaining)
  else (0, some 0)

/-- all chunks the iterator still yields, at most `fuel` of them -/
def chunksFuel {α : Type} : Nat → Windower α → List (List α)
  | 0, _ => []
  | fuel + 1, w => match next w with
    | none => []
    | some (c, w') => c :: chunksFuel fuel w'

/-- all chunks (for `hop ≥ 1`, `bin ≥ 1` the iterator ends within `length + 1` steps; see
    `Props/C20.lean` for what happens otherwise) -/
def chunks {α : Type} (w : Windower α) : List (List α) := chunksFuel (w.frames.length + 1) w

/-- what iterating does, observation by observation (for the driver): before every `next` the size
    hint, then the chunk; stops after `cap` chunks or at `None` (then the final hint and `none`) -/
def iterate {α : Type} : Nat → Windower α → List ((Nat × Option Nat) × Option (List α))
  | 0, _ => []
  | cap + 1, w => match next w with
    | none => [(sizeHint w, none)]
    | some (c, w') => (sizeHint w, some c) :: iterate cap w'

/-- the windower after `n` chunks were taken (or fewer, if it ended) -/
def advance {α : Type} : Nat → Windower α → Windower α
  | 0, w => w
  | n + 1, w => match next w with
    | none => w
    | some (_, w') => advance n w'

/-- the windower states after each of the first `n` successful `next()` calls (stops when it ends): what is LEFT —
    `windower.frames` is public — after every chunk -/
def trail {α : Type} : Nat → Windower α → List (Windower α)
  | 0, _ => []
  | n + 1, w => match next w with
    | none => []
    | some (_, w') => w' :: trail n w'

/-- iterating with the public fields `bin` / `hop` reassigned after `k` chunks (`windower.bin = b2; windower.hop = h2`
    between two `next()` calls: the fields are `pub`, window/mod.rs:108-113): the first `k` observations, then — if the
    windower has not ended — the observations of the windower over the same remaining frames with the new fields -/
def iterateRebin {α : Type} (cap k b2 h2 : Nat) (w : Windower α) : List ((Nat × Option Nat) × Option (List α)) :=
  let first := iterate (min k cap) w
  if first.length = k ∧ (first.getLast?.map (fun o => o.2.isSome)).getD true ∧ k ≤ cap then
    first ++ iterate (cap - k) { advance k w with bin := b2, hop := h2 }
  else first

/-- `trail` for `iterateRebin` -/
def trailRebin {α : Type} (cap k b2 h2 : Nat) (w : Windower α) : List (Windower α) :=
  let first := trail (min k cap) w
  if first.length = k ∧ k ≤ cap then first ++ trail (cap - k) { advance k w with bin := b2, hop := h2 } else first

/-! ## Instances -/

/-- exact arithmetic; `wrap1 x = x − ⌊x⌋` (equal to `fmod(x, 1)` for `x ≥ 0`, which is all that occurs
    for `len ≥ 2`); `twoPi` and `cos` stay parameters -/
def ratArith (twoPi : Rat) (cos : Rat → Rat) : Arith Rat where
  zero := 0
  one := 1
  half := 1 / 2
  twoPi := twoPi
  ofNat := fun n => (n : Rat)
  add := (· + ·)
  sub := (· - ·)
  mul := (· * ·)
  div := (· / ·)
  wrap1 := fun x => x - (x.floor : Rat)
  cos := cos

/-- `x % 1.0` of Rust/C (`fmod`): truncated remainder with the sign of `x`; `x − ⌊x⌋` is exact -/
def floatFmod1 (x : Float) : Float :=
  if x < 0.0 then -((-x) - Float.floor (-x)) else x - Float.floor x

/-- native binary64; driver only (see the header) -/
def floatArith : Arith Float where
  zero := 0.0
  one := 1.0
  half := 0.5
  twoPi := Float.ofBits 0x401921FB54442D18   -- `core::f64::consts::PI * 2.0` = 6.283185307179586
  ofNat := Float.ofNat
  add := (· + ·)
  sub := (· - ·)
  mul := (· * ·)
  div := (· / ·)
  wrap1 := floatFmod1
  cos := Float.cos

end Dasp.Window
