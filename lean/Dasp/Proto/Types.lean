import Mathlib.Tactic.Linarith
import Mathlib.Tactic.Ring
import Mathlib.Tactic.Push
/-! Custom-width sample types (dasp_sample/src/types.rs): wrap loops, operators, the `Neg` defect. -/
namespace Dasp.Types

structure Ty where
  min : Int
  max : Int
  total : Int
  -- well-formedness of the generated constants
  htot : total = max - min + 1
  hpos : 0 < total

def Ty.inRange (t : Ty) (v : Int) : Prop := t.min ≤ v ∧ v ≤ t.max

/-- `wrap_overflow_once` -/
def wrapOnce (t : Ty) (v : Int) : Int := if v > t.max then v - t.total else if v < t.min then v + t.total else v

/-- the first `while self.0 > MAX { self.0 -= TOTAL }` loop, with explicit fuel -/
def loopDown (t : Ty) : Nat → Int → Int
  | 0, v => v
  | n + 1, v => if v > t.max then loopDown t n (v - t.total) else v
/-- the second `while self.0 < MIN { self.0 += TOTAL }` loop -/
def loopUp (t : Ty) : Nat → Int → Int
  | 0, v => v
  | n + 1, v => if v < t.min then loopUp t n (v + t.total) else v

/-- `wrap_overflow` = both loops; fuel |v| / TOTAL + 1 is enough (termination of the real loops) -/
def wrap (t : Ty) (v : Int) : Int :=
  let f := (v.natAbs / t.total.natAbs) + 2
  loopUp t f (loopDown t f v)

theorem loopDown_spec (t : Ty) (n : Nat) (v : Int) (hf : v - t.max ≤ n * t.total) :
    (loopDown t n v ≤ t.max) ∧ (∃ k : Nat, loopDown t n v = v - k * t.total) ∧ (v ≤ t.max → loopDown t n v = v) ∧
    (t.max < v → t.max - t.total < loopDown t n v) := by
  induction n generalizing v with
  | zero =>
    simp only [loopDown]
    have : v ≤ t.max := by simp at hf; omega
    exact ⟨this, ⟨0, by simp⟩, fun _ => trivial, fun h => by omega⟩
  | succ n ih =>
    simp only [loopDown]
    split
    · rename_i hgt
      have hf' : v - t.total - t.max ≤ n * t.total := by
        have : ((n + 1 : Nat) : Int) * t.total = n * t.total + t.total := by push_cast; ring
        rw [this] at hf; omega
      obtain ⟨a, ⟨k, hk⟩, c, d⟩ := ih (v - t.total) hf'
      refine ⟨a, ⟨k + 1, by rw [hk]; push_cast; ring⟩, fun h => by omega, fun _ => ?_⟩
      by_cases h2 : t.max < v - t.total
      · exact d h2
      · rw [c (by omega)]; omega
    · rename_i hle
      exact ⟨by omega, ⟨0, by simp⟩, fun _ => rfl, fun h => by omega⟩

theorem loopUp_spec (t : Ty) (n : Nat) (v : Int) (hf : t.min - v ≤ n * t.total) :
    (t.min ≤ loopUp t n v) ∧ (∃ k : Nat, loopUp t n v = v + k * t.total) ∧ (t.min ≤ v → loopUp t n v = v) ∧
    (v < t.min → loopUp t n v < t.min + t.total) := by
  induction n generalizing v with
  | zero =>
    simp only [loopUp]
    have : t.min ≤ v := by simp at hf; omega
    exact ⟨this, ⟨0, by simp⟩, fun _ => trivial, fun h => by omega⟩
  | succ n ih =>
    simp only [loopUp]
    split
    · rename_i hlt
      have hf' : t.min - (v + t.total) ≤ n * t.total := by
        have : ((n + 1 : Nat) : Int) * t.total = n * t.total + t.total := by push_cast; ring
        rw [this] at hf; omega
      obtain ⟨a, ⟨k, hk⟩, c, d⟩ := ih (v + t.total) hf'
      refine ⟨a, ⟨k + 1, by rw [hk]; push_cast; ring⟩, fun h => by omega, fun _ => ?_⟩
      by_cases h2 : v + t.total < t.min
      · exact d h2
      · rw [c (by omega)]; have := t.htot; omega
    · exact ⟨by omega, ⟨0, by simp⟩, fun _ => rfl, fun h => by omega⟩


/-- `Neg` as the code has it (`$T(-self.0)`) leaves the range at MIN; as repaired (wrap once) it does not -/
def negAsIs (v : Int) : Int := -v
def negFixed (t : Ty) (v : Int) : Int := wrapOnce t (-v)

def i24 : Ty := ⟨-8388608, 8388607, 16777216, by decide, by decide⟩

example : i24.inRange i24.min ∧ ¬ i24.inRange (negAsIs i24.min) := by
  unfold Ty.inRange negAsIs i24; decide

theorem negFixed_inRange (t : Ty) (hsym : t.min = -t.max - 1 ∨ t.min = 0) (v : Int) (h : t.inRange v) :
    t.inRange (negFixed t v) := by
  unfold Ty.inRange negFixed wrapOnce at *
  have := t.htot; have := t.hpos
  rcases hsym with hs | hs <;> (split <;> [skip; split]) <;> omega

#print axioms loopDown_spec
#print axioms negFixed_inRange
end Dasp.Types
