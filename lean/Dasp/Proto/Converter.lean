import Mathlib.Algebra.Order.Floor.Ring
import Mathlib.Algebra.Order.Floor.Semiring
import Mathlib.Data.Rat.Floor
import Mathlib.Tactic.Linarith
import Mathlib.Tactic.Ring
import Mathlib.Tactic.Positivity
import Mathlib.Tactic.FieldSimp

/-! Rate converter in exact arithmetic (dasp_signal/src/interpolate.rs:122-143). -/
namespace Dasp.Converter

/-- `is_exhausted()` evaluated just before output number m (m outputs already produced), constant ratio r,
    source holding R frames after priming: source exhausted (R frames pulled) and accumulator ≥ 1. -/
def Exh (r : ℚ) (R : ℕ) (m : ℕ) : Prop :=
  1 ≤ m ∧ (R : ℤ) ≤ ⌊((m : ℚ) - 1) * r⌋ ∧ ⌊((m : ℚ) - 1) * r⌋ < ⌊(m : ℚ) * r⌋

/-- number of outputs `until_exhausted` yields = least m with Exh; it is ⌈(R+1)/r⌉ or one more -/
theorem count_bounds (r : ℚ) (hr : 0 < r) (R : ℕ) :
    let c := ⌈((R : ℚ) + 1) / r⌉₊
    (∀ m, m < c → ¬ Exh r R m) ∧ (Exh r R c ∨ Exh r R (c + 1)) := by
  intro c
  have hc1 : ((R : ℚ) + 1) / r ≤ c := Nat.le_ceil _
  have hc1' : (R : ℚ) + 1 ≤ c * r := by rwa [div_le_iff₀ hr] at hc1
  have hcpos : 1 ≤ c := by
    apply Nat.one_le_iff_ne_zero.mpr; intro h0
    rw [h0] at hc1'; simp at hc1'; have : (0:ℚ) ≤ R := Nat.cast_nonneg R; linarith
  have hc2 : ((c : ℚ) - 1) * r < R + 1 := by
    have : ((c - 1 : ℕ) : ℚ) < ((R : ℚ) + 1) / r := by
      have := Nat.ceil_lt_add_one (show (0:ℚ) ≤ ((R : ℚ) + 1) / r by positivity)
      have h1 : ((c - 1 : ℕ) : ℚ) = (c : ℚ) - 1 := by rw [Nat.cast_sub hcpos]; simp
      rw [h1]; linarith
    rw [lt_div_iff₀ hr] at this
    have h1 : ((c - 1 : ℕ) : ℚ) = (c : ℚ) - 1 := by rw [Nat.cast_sub hcpos]; simp
    rwa [h1] at this
  constructor
  · -- no earlier m can be exhausted: ⌊m r⌋ ≤ R for m < c
    intro m hm ⟨h1, h2, h3⟩
    have hmr : (m : ℚ) * r < R + 1 := by
      have : (m : ℚ) ≤ (c : ℚ) - 1 := by
        have : m + 1 ≤ c := hm
        have : ((m + 1 : ℕ) : ℚ) ≤ c := by exact_mod_cast this
        push_cast at this; linarith
      calc (m : ℚ) * r ≤ ((c : ℚ) - 1) * r := mul_le_mul_of_nonneg_right this (le_of_lt hr)
        _ < R + 1 := hc2
    have : ⌊(m : ℚ) * r⌋ < (R : ℤ) + 1 := by
      apply Int.floor_lt.mpr; push_cast; exact hmr
    omega
  · -- at c the source position has reached R+1
    have hfc : (R : ℤ) + 1 ≤ ⌊(c : ℚ) * r⌋ := by
      apply Int.le_floor.mpr; push_cast; exact hc1'
    have hfc1 : ⌊((c : ℚ) - 1) * r⌋ < (R : ℤ) + 1 := by
      apply Int.floor_lt.mpr; push_cast; exact hc2
    by_cases hge : (R : ℤ) ≤ ⌊((c : ℚ) - 1) * r⌋
    · left; exact ⟨hcpos, hge, by omega⟩
    · right
      refine ⟨by omega, ?_, ?_⟩
      · have : (((c + 1 : ℕ) : ℚ) - 1) = (c : ℚ) := by push_cast; ring
        rw [this]; omega
      · have e1 : (((c + 1 : ℕ) : ℚ) - 1) = (c : ℚ) := by push_cast; ring
        rw [e1]
        -- the last step jumped by at least 2, so r > 1 and the next step advances too
        have hjump : ⌊((c : ℚ) - 1) * r⌋ + 2 ≤ ⌊(c : ℚ) * r⌋ := by omega
        have hr1 : 1 ≤ r := by
          apply Classical.byContradiction; intro hlt
          have hlt' : r < 1 := not_le.mp hlt
          have : (c : ℚ) * r = ((c : ℚ) - 1) * r + r := by ring
          have h1 : ⌊(c : ℚ) * r⌋ ≤ ⌊((c : ℚ) - 1) * r + 1⌋ := by
            apply Int.floor_le_floor; rw [this]; linarith
          rw [Int.floor_add_one] at h1; omega
        have : ⌊(c : ℚ) * r + 1⌋ ≤ ⌊((c + 1 : ℕ) : ℚ) * r⌋ := by
          apply Int.floor_le_floor; push_cast; nlinarith
        rw [Int.floor_add_one] at this; omega

#print axioms count_bounds
end Dasp.Converter
