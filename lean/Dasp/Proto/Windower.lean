/-! Windower chunk schedule (dasp_signal/src/window/mod.rs:133-176). The remaining slice is (off, len). -/
namespace Dasp.Windower

structure W where
  bin : Nat
  hop : Nat
  off : Nat
  len : Nat

/-- `Windower::next`: yields the offset of the chunk (its first `bin` frames are data[off .. off+bin)) -/
def next (w : W) : Option (Nat × W) :=
  if w.bin ≤ w.len then
    if w.hop < w.len then some (w.off, ⟨w.bin, w.hop, w.off + w.hop, w.len - w.hop⟩)
    else some (w.off, ⟨w.bin, w.hop, w.off, 0⟩)
  else none

/-- `size_hint` as the code has it (lower = upper) and as repaired -/
def sizeHintAsIs (w : W) : Nat := if w.bin < w.len then (w.len - w.bin) / w.hop else 0
def sizeHintFixed (w : W) : Nat := if w.bin ≤ w.len then (w.len - w.bin) / w.hop + 1 else 0

theorem next_cases (w : W) :
    (w.len < w.bin ∧ next w = none) ∨
    (w.bin ≤ w.len ∧ w.hop < w.len ∧ next w = some (w.off, ⟨w.bin, w.hop, w.off + w.hop, w.len - w.hop⟩)) ∨
    (w.bin ≤ w.len ∧ w.len ≤ w.hop ∧ next w = some (w.off, ⟨w.bin, w.hop, w.off, 0⟩)) := by
  unfold next
  by_cases h1 : w.bin ≤ w.len
  · by_cases h2 : w.hop < w.len
    · right; left; simp [h1, h2]
    · right; right; simp [h1, h2]; omega
  · left; simp [h1]; omega

/-- all chunk offsets the iterator will still yield (fuel = len + 1 suffices since hop ≥ 1) -/
def chunksFuel : Nat → W → List Nat
  | 0, _ => []
  | fuel + 1, w => match next w with
    | none => []
    | some (o, w') => o :: chunksFuel fuel w'

def chunks (w : W) : List Nat := chunksFuel (w.len + 1) w

theorem chunksFuel_spec (fuel : Nat) (w : W) (hh : 1 ≤ w.hop) (hb : 1 ≤ w.bin) (hf : w.len < fuel) :
    chunksFuel fuel w = (List.range (sizeHintFixed w)).map (fun k => w.off + k * w.hop) := by
  induction fuel generalizing w with
  | zero => omega
  | succ fuel ih =>
    rcases next_cases w with ⟨h1, hn⟩ | ⟨h1, h2, hn⟩ | ⟨h1, h2, hn⟩
    · simp [chunksFuel, hn, sizeHintFixed, show ¬ w.bin ≤ w.len by omega]
    · simp only [chunksFuel, hn]
      rw [ih ⟨w.bin, w.hop, w.off + w.hop, w.len - w.hop⟩ hh hb (by simp; omega)]
      simp only [sizeHintFixed, h1, if_true]
      by_cases h3 : w.bin ≤ w.len - w.hop
      · have hdiv : (w.len - w.bin) / w.hop = (w.len - w.hop - w.bin) / w.hop + 1 := by
          have : w.len - w.bin = (w.len - w.hop - w.bin) + w.hop := by omega
          rw [this, Nat.add_div_right _ (by omega)]
        simp only [h3, if_true, hdiv]
        rw [List.range_succ_eq_map (n := (w.len - w.hop - w.bin) / w.hop + 1)]
        simp only [List.map_cons, List.map_map, Nat.zero_mul, Nat.add_zero]
        congr 1
        apply List.map_congr_left; intro k _
        simp only [Function.comp]; rw [Nat.succ_mul]; omega
      · have hdiv : (w.len - w.bin) / w.hop = 0 := by apply Nat.div_eq_of_lt; omega
        simp [h3, hdiv]
    · simp only [chunksFuel, hn]
      rw [ih ⟨w.bin, w.hop, w.off, 0⟩ hh hb (by simp; omega)]
      have hdiv : (w.len - w.bin) / w.hop = 0 := by apply Nat.div_eq_of_lt; omega
      simp [sizeHintFixed, h1, hdiv, show ¬ w.bin ≤ 0 by omega]

/-- number and position of the chunks: ⌊(L − b)/h⌋ + 1 chunks at offsets off + k·hop when L ≥ b, none otherwise -/
theorem chunks_spec (w : W) (hh : 1 ≤ w.hop) (hb : 1 ≤ w.bin) :
    chunks w = (List.range (sizeHintFixed w)).map (fun k => w.off + k * w.hop) :=
  chunksFuel_spec _ w hh hb (by omega)

/-- the repaired size hint is exact; the as-is hint is one short whenever any chunk remains -/
theorem sizeHint_exact (w : W) (hh : 1 ≤ w.hop) (hb : 1 ≤ w.bin) : (chunks w).length = sizeHintFixed w := by
  rw [chunks_spec w hh hb]; simp

theorem sizeHintAsIs_short (w : W) (hh : 1 ≤ w.hop) (hb : 1 ≤ w.bin) (hle : w.bin ≤ w.len) :
    sizeHintAsIs w < (chunks w).length := by
  rw [sizeHint_exact w hh hb]; unfold sizeHintAsIs sizeHintFixed
  simp only [hle, if_true]; split
  · exact Nat.lt_succ_self _
  · exact Nat.succ_pos _

-- the witness replayed on the real code in round 0: L = 8, bin = 2, hop = 1 → 7 chunks, as-is hint 6
example : (chunks ⟨2, 1, 0, 8⟩).length = 7 ∧ sizeHintAsIs ⟨2, 1, 0, 8⟩ = 6 := by decide

#print axioms chunks_spec
end Dasp.Windower
