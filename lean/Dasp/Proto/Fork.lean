/-! Fork (dasp_signal/src/lib.rs:1145-1232): two branches sharing a source through a bounded queue.
    Frames are identified with their index in the source stream (the code only moves frames). -/
namespace Dasp.Fork

structure St where
  pos : Nat            -- frames pulled from the source so far
  q : List Nat         -- Bounded ring buffer content, oldest first (abstract view proved in Ring.lean)
  cap : Nat
  pending : Bool       -- Fork::A = true, Fork::B = false

/-- `Bounded::push` on the abstract queue: evict the oldest only when full -/
def pushB (q : List Nat) (cap x : Nat) : List Nat := if q.length = cap then q.tail ++ [x] else q ++ [x]

def pull (s : St) : Nat × St := (s.pos, { s with pos := s.pos + 1, q := pushB s.q s.cap s.pos })

/-- `next()` of the branch named `me` -/
def next (s : St) (me : Bool) : Nat × St :=
  if s.pending = me then
    match s.q with
    | x :: r => (x, { s with q := r })
    | [] => pull { s with pending := !me }
  else pull s

def pendingFrames (s : St) (me : Bool) : Nat := if s.pending = me then s.q.length else 0

def init (cap : Nat) : St := { pos := 0, q := [], cap := cap, pending := false }

/-- abstract spec: cursor of branch A and of branch B -/
structure Inv (s : St) (a b : Nat) : Prop where
  pos_eq : s.pos = max a b
  lead : max a b - min a b ≤ s.cap
  q_eq : s.q = List.range' (min a b) (max a b - min a b)
  pend : (b < a → s.pending = false) ∧ (a < b → s.pending = true)

theorem inv_init (cap : Nat) : Inv (init cap) 0 0 := ⟨rfl, by simp, by simp [init], by simp⟩

theorem range'_snoc (lo n : Nat) : List.range' lo (n + 1) = List.range' lo n ++ [lo + n] := by
  simpa using (List.range'_concat (s := lo) (n := n) (step := 1))

/-- one `next` on branch A under the schedule side condition (A may lead by at most cap) -/
theorem next_A (s : St) (a b : Nat) (hi : Inv s a b) (hlead : a + 1 - b ≤ s.cap) :
    (next s true).1 = a ∧ Inv (next s true).2 (a + 1) b ∧ (next s true).2.cap = s.cap := by
  obtain ⟨hpos, hl, hq, hp1, hp2⟩ := hi
  by_cases hab : a < b
  · -- A lags: queue is for A, non-empty, head = a
    have hpend := hp2 hab
    have hmin : min a b = a := by omega
    have hmax : max a b = b := by omega
    rw [hmin, hmax] at hq hl
    obtain ⟨k, hk⟩ : ∃ k, b - a = k + 1 := ⟨b - a - 1, by omega⟩
    rw [hk, List.range'_succ] at hq
    have key : next s true = (a, { s with q := List.range' (a + 1) k }) := by
      unfold next; rw [if_pos hpend, hq]
    rw [key]
    have hmin' : min (a + 1) b = a + 1 := by omega
    have hmax' : max (a + 1) b = b := by omega
    refine ⟨rfl, ⟨?_, ?_, ?_, ?_⟩, rfl⟩
    · show s.pos = max (a + 1) b; rw [hmax', hpos, hmax]
    · show max (a + 1) b - min (a + 1) b ≤ s.cap; rw [hmin', hmax']; omega
    · show List.range' (a + 1) k = List.range' (min (a + 1) b) (max (a + 1) b - min (a + 1) b)
      rw [hmin', hmax']; congr 1; omega
    · show (b < a + 1 → s.pending = false) ∧ (a + 1 < b → s.pending = true)
      exact ⟨fun h => by omega, fun _ => hpend⟩
  · -- A level or ahead: pulls a fresh frame and queues it for B
    have hge : b ≤ a := by omega
    have hmin : min a b = b := by omega
    have hmax : max a b = a := by omega
    rw [hmin, hmax] at hq hl
    rw [hmax] at hpos
    have hlen : s.q.length = a - b := by rw [hq]; simp
    have key : next s true = pull { s with pending := false } := by
      unfold next
      by_cases hpd : s.pending = true
      · have hab' : a = b := by
          apply Classical.byContradiction; intro hne
          have := hp1 (by omega); rw [this] at hpd; simp at hpd
        have hqnil : s.q = [] := by rw [hq, hab']; simp
        rw [if_pos hpd, hqnil]; simp
      · have hpd' : s.pending = false := by simpa using hpd
        rw [if_neg (by rw [hpd']; simp)]
        congr 1; cases s; simp_all
    rw [key]
    have hpush : pushB s.q s.cap s.pos = List.range' b (a + 1 - b) := by
      unfold pushB
      rw [if_neg (by omega), hq, hpos]
      have : a + 1 - b = (a - b) + 1 := by omega
      rw [this, range'_snoc]; congr 2; omega
    have hmin' : min (a + 1) b = b := by omega
    have hmax' : max (a + 1) b = a + 1 := by omega
    refine ⟨hpos, ⟨?_, ?_, ?_, ?_⟩, rfl⟩
    · show s.pos + 1 = max (a + 1) b; rw [hmax', hpos]
    · show max (a + 1) b - min (a + 1) b ≤ s.cap; rw [hmin', hmax']; exact hlead
    · show pushB s.q s.cap s.pos = List.range' (min (a + 1) b) (max (a + 1) b - min (a + 1) b)
      rw [hmin', hmax']; exact hpush
    · show (b < a + 1 → false = false) ∧ (a + 1 < b → false = true)
      exact ⟨fun _ => rfl, fun h => by omega⟩

theorem pending_A (s : St) (a b : Nat) (hi : Inv s a b) : pendingFrames s true = b - a := by
  obtain ⟨hpos, hl, hq, hp1, hp2⟩ := hi
  unfold pendingFrames
  by_cases hab : a < b
  · rw [if_pos (hp2 hab), hq]; simp; omega
  · by_cases hba : b < a
    · rw [if_neg (by rw [hp1 hba]; simp)]; omega
    · have : a = b := by omega
      subst this; split <;> simp [hq]

#print axioms next_A
end Dasp.Fork
