/-! Bus (dasp_signal/src/bus.rs): shared backlog + per-output read offsets.
    Frames are identified with their index in the source stream. -/
namespace Dasp.Bus

structure St where
  pos : Nat                    -- frames pulled from the source so far
  buf : List Nat               -- VecDeque backlog, oldest first
  reads : List (Nat × Nat)     -- BTreeMap<key, frames_read> as an association list

def lookup (k : Nat) : List (Nat × Nat) → Option Nat
  | [] => none
  | (k', v) :: r => if k' = k then some v else lookup k r

def others (k : Nat) (l : List (Nat × Nat)) : List (Nat × Nat) := l.filter (fun p => p.1 != k)

/-- `SharedNode::next_frame` (returns none where the real code panics: unknown key) -/
def nextFrame (s : St) (key : Nat) : Option (Nat × St) :=
  match lookup key s.reads with
  | none => none
  | some fr =>
    let oth := others key s.reads
    let frame := if fr < s.buf.length then s.buf.getD fr 0 else s.pos
    let buf1 := if fr < s.buf.length then s.buf else s.buf ++ [s.pos]
    let pos1 := if fr < s.buf.length then s.pos else s.pos + 1
    let least := !(oth.any (fun p => p.2 ≤ fr))
    if least then
      some (frame, { pos := pos1, buf := buf1.tail, reads := oth.map (fun p => (p.1, p.2 - 1)) ++ [(key, fr)] })
    else
      some (frame, { pos := pos1, buf := buf1, reads := oth ++ [(key, fr + 1)] })

def pendingFrames (s : St) (key : Nat) : Option Nat := (lookup key s.reads).map (fun fr => s.buf.length - fr)

/-- absolute source position of the oldest backlog frame -/
def base (s : St) : Nat := s.pos - s.buf.length
/-- absolute cursor of an output: index of the next source frame it will receive -/
def cursor (s : St) (k : Nat) : Option Nat := (lookup k s.reads).map (fun fr => base s + fr)

structure Inv (s : St) : Prop where
  len_le : s.buf.length ≤ s.pos
  buf_eq : s.buf = List.range' (s.pos - s.buf.length) s.buf.length
  fr_le : ∀ p ∈ s.reads, p.2 ≤ s.buf.length
  nodup : (s.reads.map (·.1)).Nodup
  minimal : s.buf = [] ∨ ∃ p ∈ s.reads, p.2 = 0

theorem lookup_mem {k v : Nat} {l : List (Nat × Nat)} (h : lookup k l = some v) : (k, v) ∈ l := by
  induction l with
  | nil => simp [lookup] at h
  | cons p r ih =>
    obtain ⟨k', v'⟩ := p
    simp only [lookup] at h
    split at h
    · rename_i e; simp at h; subst e; subst h; simp
    · exact List.mem_cons_of_mem _ (ih h)

theorem lookup_others_ne {k k' : Nat} (l : List (Nat × Nat)) (h : k' ≠ k) : lookup k' (others k l) = lookup k' l := by
  induction l with
  | nil => rfl
  | cons p r ih =>
    obtain ⟨a, b⟩ := p
    by_cases ha : a = k
    · subst ha
      have : others a ((a, b) :: r) = others a r := by simp [others, List.filter]
      rw [this, ih]; simp [lookup, Ne.symm h]
    · have hb : (a != k) = true := by simp [ha]
      have : others k ((a, b) :: r) = (a, b) :: others k r := by simp [others, List.filter, hb]
      rw [this]; simp only [lookup]; rw [ih]

theorem lookup_append_single {k k' v : Nat} (l : List (Nat × Nat)) :
    lookup k' (l ++ [(k, v)]) = match lookup k' l with | some x => some x | none => if k = k' then some v else none := by
  induction l with
  | nil => simp [lookup]
  | cons p r ih =>
    obtain ⟨a, b⟩ := p
    simp only [List.cons_append, lookup]
    split
    · rfl
    · exact ih

theorem lookup_map_pred {k' : Nat} (l : List (Nat × Nat)) :
    lookup k' (l.map (fun p => (p.1, p.2 - 1))) = (lookup k' l).map (· - 1) := by
  induction l with
  | nil => rfl
  | cons p r ih =>
    obtain ⟨a, b⟩ := p
    simp only [List.map, lookup]
    split
    · rfl
    · exact ih

theorem lookup_others_self (k : Nat) (l : List (Nat × Nat)) : lookup k (others k l) = none := by
  induction l with
  | nil => rfl
  | cons p r ih =>
    obtain ⟨a, b⟩ := p
    by_cases ha : a = k
    · subst ha; have : others a ((a, b) :: r) = others a r := by simp [others, List.filter]
      rw [this]; exact ih
    · have hb : (a != k) = true := by simp [ha]
      have : others k ((a, b) :: r) = (a, b) :: others k r := by simp [others, List.filter, hb]
      rw [this]; simp [lookup, ha, ih]

theorem mem_others {k : Nat} {l : List (Nat × Nat)} {p : Nat × Nat} : p ∈ others k l ↔ p ∈ l ∧ p.1 ≠ k := by
  simp [others, List.mem_filter]


theorem keys_others_sub {k : Nat} {l : List (Nat × Nat)} : ∀ x ∈ (others k l).map (·.1), x ∈ l.map (·.1) ∧ x ≠ k := by
  intro x hx
  obtain ⟨p, hp, rfl⟩ := List.mem_map.mp hx
  obtain ⟨h1, h2⟩ := mem_others.mp hp
  exact ⟨List.mem_map.mpr ⟨p, h1, rfl⟩, h2⟩

theorem nodup_others {k : Nat} {l : List (Nat × Nat)} (h : (l.map (·.1)).Nodup) : ((others k l).map (·.1)).Nodup := by
  unfold others
  induction l with
  | nil => simp
  | cons p r ih =>
    simp only [List.map_cons, List.nodup_cons] at h
    by_cases hb : (p.1 != k) = true
    · simp only [List.filter, hb, List.map_cons, List.nodup_cons]
      refine ⟨?_, ih h.2⟩
      intro hm
      obtain ⟨q, hq, e⟩ := List.mem_map.mp hm
      exact h.1 (List.mem_map.mpr ⟨q, (List.mem_filter.mp hq).1, e⟩)
    · simp only [List.filter, hb]; exact ih h.2

theorem lookup_of_mem_nodup {k v : Nat} {l : List (Nat × Nat)} (hn : (l.map (·.1)).Nodup) (hm : (k, v) ∈ l) : lookup k l = some v := by
  induction l with
  | nil => simp at hm
  | cons p r ih =>
    obtain ⟨a, b⟩ := p
    simp only [List.map_cons, List.nodup_cons] at hn
    rcases List.mem_cons.mp hm with e | hm'
    · cases e; simp [lookup]
    · have hne : a ≠ k := by
        intro e; subst e
        exact hn.1 (List.mem_map.mpr ⟨(a, v), hm', rfl⟩)
      simp [lookup, hne, ih hn.2 hm']

theorem range'_getD (b n i : Nat) (h : i < n) : (List.range' b n).getD i 0 = b + i := by
  simp [List.getD, List.getElem?_range' h]

theorem range'_tail (b n : Nat) : (List.range' b n).tail = List.range' (b + 1) (n - 1) := by
  cases n with
  | zero => simp
  | succ n => simp [List.range'_succ]

theorem range'_snoc (lo n : Nat) : List.range' lo n ++ [lo + n] = List.range' lo (n + 1) := by
  simpa using (List.range'_concat (s := lo) (n := n) (step := 1)).symm

/-- what one `next()` on output `key` does, in terms of absolute cursors -/
theorem nextFrame_spec (s : St) (key fr : Nat) (hi : Inv s) (hk : lookup key s.reads = some fr) :
    ∃ frame s', nextFrame s key = some (frame, s') ∧
      frame = base s + fr ∧
      cursor s' key = some (base s + fr + 1) ∧
      (∀ k', k' ≠ key → cursor s' k' = cursor s k') ∧
      s'.pos = max s.pos (base s + fr + 1) ∧
      Inv s' := by
  obtain ⟨hlen, hbuf, hfr, hnd, hmin⟩ := hi
  have hkm : (key, fr) ∈ s.reads := lookup_mem hk
  have hfrle : fr ≤ s.buf.length := hfr _ hkm
  have hbase : base s + s.buf.length = s.pos := by unfold base; omega
  -- facts about the other outputs
  have hoth_le : ∀ p ∈ others key s.reads, p.2 ≤ s.buf.length := fun p hp => hfr p (mem_others.mp hp).1
  have hoth_lookup : ∀ k', k' ≠ key → lookup k' (others key s.reads) = lookup k' s.reads :=
    fun k' h => lookup_others_ne s.reads h
  have hnd_oth := nodup_others (k := key) hnd
  have hkey_notin : key ∉ (others key s.reads).map (·.1) := fun h => (keys_others_sub _ h).2 rfl
  -- a zero reader: either key itself (fr = 0) or one of the others
  have hzero : s.buf = [] ∨ fr = 0 ∨ ∃ p ∈ others key s.reads, p.2 = 0 := by
    rcases hmin with h | ⟨p, hp, hp0⟩
    · exact Or.inl h
    · by_cases hpk : p.1 = key
      · right; left
        have : lookup key s.reads = some p.2 := lookup_of_mem_nodup hnd (by rw [← hpk]; exact hp)
        rw [hk] at this; simp at this; omega
      · exact Or.inr (Or.inr ⟨p, mem_others.mpr ⟨hp, hpk⟩, hp0⟩)
  unfold nextFrame
  rw [hk]
  simp only
  by_cases hlt : fr < s.buf.length
  · -- the frame is already in the backlog
    have hframe : s.buf.getD fr 0 = base s + fr := by
      rw [hbuf, range'_getD _ _ _ (by simpa using hlt)]; simp [base]
    simp only [hlt, if_true]
    by_cases hleast : (others key s.reads).any (fun p => decide (p.2 ≤ fr)) = true
    · -- someone else still needs the front frame
      simp only [hleast, Bool.not_true, Bool.false_eq_true, if_false]
      refine ⟨_, _, rfl, hframe, ?_, ?_, ?_, ?_⟩
      · simp [cursor, base, lookup_append_single, lookup_others_self]; omega
      · intro k' hne
        simp only [cursor, base]
        rw [lookup_append_single, hoth_lookup k' hne]
        cases lookup k' s.reads <;> simp [Ne.symm hne]
      · simp only; unfold base; omega
      · obtain ⟨q, hq, hq2⟩ := List.any_eq_true.mp hleast
        have hq2' : q.2 ≤ fr := by simpa using hq2
        refine ⟨hlen, hbuf, ?_, ?_, ?_⟩
        · intro p hp
          rcases List.mem_append.mp hp with h | h
          · exact hoth_le p h
          · simp at h; subst h; simp; omega
        · rw [List.map_append]; simp only [List.map_cons, List.map_nil]
          exact List.nodup_append.mpr ⟨hnd_oth, by simp, by
            intro a ha b hb; simp at hb; subst hb; intro e; subst e; exact hkey_notin ha⟩
        · right
          rcases hzero with h | h | ⟨p, hp, hp0⟩
          · rw [h] at hlt; simp at hlt
          · exact ⟨q, List.mem_append_left _ hq, by omega⟩
          · exact ⟨p, List.mem_append_left _ hp, hp0⟩
    · -- this output was the only one still needing the front frame: pop it
      have hleast' : ∀ p ∈ others key s.reads, fr < p.2 := by
        intro p hp
        apply Classical.byContradiction; intro hc
        exact hleast (List.any_eq_true.mpr ⟨p, hp, by simpa using Nat.le_of_not_lt hc⟩)
      have hfr0 : fr = 0 := by
        rcases hzero with h | h | ⟨p, hp, hp0⟩
        · rw [h] at hlt; simp at hlt
        · exact h
        · have := hleast' p hp; omega
      simp only [hleast, Bool.not_false, if_true]
      have hlen1 : 1 ≤ s.buf.length := by omega
      have hbase' : s.pos - s.buf.tail.length = base s + 1 := by simp [List.length_tail]; unfold base; omega
      refine ⟨_, _, rfl, hframe, ?_, ?_, ?_, ?_⟩
      · simp only [cursor, base]; rw [hbase', lookup_append_single, lookup_map_pred, lookup_others_self]; simp [base]; omega
      · intro k' hne
        simp only [cursor, base]; rw [hbase', lookup_append_single, lookup_map_pred, hoth_lookup k' hne]
        cases hl : lookup k' s.reads with
        | none => simp [Ne.symm hne]
        | some v =>
          have hv : fr < v := hleast' (k', v) (mem_others.mpr ⟨lookup_mem hl, hne⟩)
          simp; unfold base; omega
      · simp only; unfold base; omega
      · refine ⟨by simp [List.length_tail]; omega, ?_, ?_, ?_, ?_⟩
        · simp only [List.length_tail]
          have : s.pos - (s.buf.length - 1) = (s.pos - s.buf.length) + 1 := by omega
          rw [this]; conv => lhs; rw [hbuf]
          rw [range'_tail]
        · intro p hp
          rcases List.mem_append.mp hp with h | h
          · obtain ⟨q, hq, rfl⟩ := List.mem_map.mp h
            have := hoth_le q hq; simp [List.length_tail]; omega
          · simp at h; subst h; simp [List.length_tail]; omega
        · rw [List.map_append, List.map_map]; simp only [List.map_cons, List.map_nil]
          have : ((fun p : Nat × Nat => p.1) ∘ fun p : Nat × Nat => (p.1, p.2 - 1)) = (fun p => p.1) := by funext p; rfl
          rw [this]
          exact List.nodup_append.mpr ⟨hnd_oth, by simp, by
            intro a ha b hb; simp at hb; subst hb; intro e; subst e; exact hkey_notin ha⟩
        · right; exact ⟨(key, fr), by simp, hfr0⟩
  · -- caught up with the source: pull a fresh frame and append it
    have hfeq : fr = s.buf.length := by omega
    simp only [hlt, if_false]
    have hbuf1 : s.buf ++ [s.pos] = List.range' (base s) (s.buf.length + 1) := by
      conv => lhs; rw [hbuf]
      have : s.pos = (s.pos - s.buf.length) + s.buf.length := by omega
      conv => lhs; rhs; rw [this]
      rw [range'_snoc]; rfl
    by_cases hleast : (others key s.reads).any (fun p => decide (p.2 ≤ fr)) = true
    · simp only [hleast, Bool.not_true, Bool.false_eq_true, if_false]
      refine ⟨_, _, rfl, by unfold base; omega, ?_, ?_, ?_, ?_⟩
      · simp only [cursor, base, List.length_append, List.length_singleton]
        rw [lookup_append_single, lookup_others_self]; simp; omega
      · intro k' hne
        simp only [cursor, base, List.length_append, List.length_singleton]
        rw [lookup_append_single, hoth_lookup k' hne]
        cases lookup k' s.reads <;> simp [Ne.symm hne]
      · simp only; unfold base; omega
      · obtain ⟨q, hq, hq2⟩ := List.any_eq_true.mp hleast
        have hq2' : q.2 ≤ fr := by simpa using hq2
        refine ⟨by simp; omega, ?_, ?_, ?_, ?_⟩
        · simp only [List.length_append, List.length_singleton]
          have : s.pos + 1 - (s.buf.length + 1) = base s := by unfold base; omega
          rw [this]; exact hbuf1
        · intro p hp
          rcases List.mem_append.mp hp with h | h
          · have := hoth_le p h; simp; omega
          · simp at h; subst h; simp; omega
        · rw [List.map_append]; simp only [List.map_cons, List.map_nil]
          exact List.nodup_append.mpr ⟨hnd_oth, by simp, by
            intro a ha b hb; simp at hb; subst hb; intro e; subst e; exact hkey_notin ha⟩
        · right
          rcases hzero with h | h | ⟨p, hp, hp0⟩
          · have : s.buf.length = 0 := by rw [h]; rfl
            exact ⟨q, List.mem_append_left _ hq, by omega⟩
          · exact ⟨q, List.mem_append_left _ hq, by omega⟩
          · exact ⟨p, List.mem_append_left _ hp, hp0⟩
    · -- nobody else is attached behind us: the fresh frame is popped at once
      have hleast' : ∀ p ∈ others key s.reads, fr < p.2 := by
        intro p hp
        apply Classical.byContradiction; intro hc
        exact hleast (List.any_eq_true.mpr ⟨p, hp, by simpa using Nat.le_of_not_lt hc⟩)
      have hnone : others key s.reads = [] := by
        cases h : others key s.reads with
        | nil => rfl
        | cons p r =>
          have hp : p ∈ others key s.reads := by rw [h]; simp
          have h1 := hleast' p hp; have h2 := hoth_le p hp; omega
      have hlen0 : s.buf.length = 0 := by
        rcases hzero with h | h | ⟨p, hp, _⟩
        · rw [h]; rfl
        · omega
        · rw [hnone] at hp; simp at hp
      have hbnil : s.buf = [] := List.eq_nil_of_length_eq_zero hlen0
      simp only [hleast, Bool.not_false, if_true, hnone, List.map_nil, List.nil_append]
      refine ⟨_, _, rfl, by unfold base; omega, ?_, ?_, ?_, ?_⟩
      · simp [cursor, base, lookup, hbnil]; omega
      · intro k' hne
        have : lookup k' s.reads = none := by
          rw [← hoth_lookup k' hne, hnone]; rfl
        simp [cursor, lookup, this, Ne.symm hne]
      · simp only; unfold base; omega
      · refine ⟨by simp [hbnil], by simp [hbnil], ?_, by simp, Or.inl (by simp [hbnil])⟩
        intro p hp; simp at hp; subst hp; simp [hbnil]; omega

#print axioms nextFrame_spec
end Dasp.Bus
