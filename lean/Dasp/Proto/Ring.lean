namespace Dasp.Ring

structure Bounded (α : Type) where
  data : List α
  start : Nat
  len : Nat

variable {α : Type} [Inhabited α]

def Bounded.cap (b : Bounded α) : Nat := b.data.length
def Bounded.Inv (b : Bounded α) : Prop := b.start < b.cap ∧ b.len ≤ b.cap

/-- abstraction: live elements oldest first -/
def Bounded.abs (b : Bounded α) : List α := (List.range b.len).map (fun i => b.data[(b.start + i) % b.cap]!)

/-- transcription of `Bounded::push` -/
def Bounded.push (b : Bounded α) (x : α) : Bounded α × Option α :=
  if b.len = b.cap then
    let nextStart := if b.start + 1 ≥ b.cap then 0 else b.start + 1
    ({ b with data := b.data.set b.start x, start := nextStart }, some b.data[b.start]!)
  else
    let idx := (b.start + b.len) % b.cap
    ({ b with data := b.data.set idx x, len := b.len + 1 }, none)

/-- transcription of `Bounded::pop` -/
def Bounded.pop (b : Bounded α) : Bounded α × Option α :=
  if b.len = 0 then (b, none) else
    let nextStart := if b.start + 1 ≥ b.cap then 0 else b.start + 1
    ({ b with start := nextStart, len := b.len - 1 }, some b.data[b.start]!)

/-- transcription of `Bounded::get` AS THE CODE IS (ignores start) and as fixed -/
def Bounded.getAsIs (b : Bounded α) (i : Nat) : Option α := if i ≥ b.len then none else some b.data[i % b.cap]!
def Bounded.getFixed (b : Bounded α) (i : Nat) : Option α := if i ≥ b.len then none else some b.data[(b.start + i) % b.cap]!

theorem pop_inv (b : Bounded α) (h : b.Inv) : (b.pop).1.Inv := by
  unfold Bounded.pop Bounded.Inv Bounded.cap at *
  split <;> simp_all <;> (try split) <;> omega

theorem push_inv (b : Bounded α) (x : α) (h : b.Inv) : (b.push x).1.Inv := by
  unfold Bounded.push Bounded.Inv Bounded.cap at *
  split <;> simp_all <;> (try split) <;> omega

theorem getFixed_abs (b : Bounded α) (i : Nat) : b.getFixed i = b.abs[i]? := by
  unfold Bounded.getFixed Bounded.abs
  by_cases h : i ≥ b.len
  · simp [h]
  · have h' : i < b.len := by omega
    simp [h, h']

/-- pop returns the head of the abstract queue and leaves the tail -/
theorem pop_abs (b : Bounded α) (h : b.Inv) : (b.pop).2 = b.abs.head? ∧ (b.pop).1.abs = b.abs.tail := by
  unfold Bounded.Inv Bounded.cap at h
  unfold Bounded.pop
  by_cases h0 : b.len = 0
  · simp [h0, Bounded.abs]
  · simp only [h0, if_false]
    constructor
    · unfold Bounded.abs
      cases hl : b.len with
      | zero => omega
      | succ n => simp [List.range_succ_eq_map, Bounded.cap, Nat.mod_eq_of_lt h.1]
    · unfold Bounded.abs Bounded.cap
      simp only
      apply List.ext_getElem
      · simp
      · intro i h1 h2
        simp only [List.length_map, List.length_range] at h1
        simp only [List.getElem_map, List.getElem_range, List.getElem_tail]
        congr 1
        split
        · -- wrapped: start + 1 = cap
          have : b.start + 1 = b.data.length := by omega
          rw [Nat.zero_add]
          have e : b.start + (i + 1) = b.data.length + i := by omega
          rw [e, Nat.add_mod_left]
        · congr 1; omega

-- the code as it is violates the refinement: concrete witness
example : (⟨[4, 2, 3], 1, 3⟩ : Bounded Nat).Inv ∧ (⟨[4, 2, 3], 1, 3⟩ : Bounded Nat).abs = [2, 3, 4] ∧
    (⟨[4, 2, 3], 1, 3⟩ : Bounded Nat).getAsIs 0 = some 4 ∧ (⟨[4, 2, 3], 1, 3⟩ : Bounded Nat).getAsIs 0 ≠ (⟨[4, 2, 3], 1, 3⟩ : Bounded Nat).abs[0]? := by
  simp [Bounded.Inv, Bounded.cap, Bounded.abs, Bounded.getAsIs, List.range, List.range.loop]

#print axioms pop_abs
end Dasp.Ring
