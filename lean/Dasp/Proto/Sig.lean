namespace Dasp.Sig

variable {F : Type}

/-- signal expressions double as their own run-time state -/
inductive Sig (F : Type) where
  | fromIter (rest : List F) (pulls : Nat)          -- look-ahead slot = rest.head?
  | gen (f : Nat → F) (i : Nat)                     -- infinite source, i = frames produced
  | map (m : F → F) (s : Sig F)
  | zip (m : F → F → F) (a b : Sig F)
  | delay (k : Nat) (s : Sig F)

open Sig

/-- `Signal::next` -/
def next (eq : F) : Sig F → F × Sig F
  | fromIter [] p => (eq, fromIter [] p)
  | fromIter (x :: r) p => (x, fromIter r (p + 1))
  | gen f i => (f i, gen f (i + 1))
  | map m s => let (x, s') := next eq s; (m x, map m s')
  | zip m a b => let (x, a') := next eq a; let (y, b') := next eq b; (m x y, zip m a' b')
  | delay 0 s => let (x, s') := next eq s; (x, delay 0 s')
  | delay (k+1) s => (eq, delay k s)

/-- `Signal::is_exhausted` -/
def isExhausted : Sig F → Bool
  | fromIter r _ => r.isEmpty
  | gen _ _ => false
  | map _ s => isExhausted s
  | zip _ a b => isExhausted a || isExhausted b
  | delay k s => k == 0 && isExhausted s

/-- denotation: the i-th frame the signal will yield -/
def den (eq : F) : Sig F → Nat → F
  | fromIter r _, i => r.getD i eq
  | gen f j, i => f (j + i)
  | map m s, i => m (den eq s i)
  | zip m a b, i => m (den eq a i) (den eq b i)
  | delay k s, i => if i < k then eq else den eq s (i - k)

/-- number of meaningful frames left (none = infinite) -/
def len : Sig F → Option Nat
  | fromIter r _ => some r.length
  | gen _ _ => none
  | map _ s => len s
  | zip _ a b => match len a, len b with
      | some x, some y => some (min x y) | some x, none => some x | none, some y => some y | none, none => none
  | delay k s => (len s).map (· + k)

theorem next_fst (eq : F) (s : Sig F) : (next eq s).1 = den eq s 0 := by
  induction s with
  | fromIter r p => cases r <;> simp [next, den]
  | gen f i => simp [next, den]
  | map m s ih => simp [next, den, ih]
  | zip m a b iha ihb => simp [next, den, iha, ihb]
  | delay k s ih => cases k <;> simp [next, den, ih]

theorem next_den (eq : F) (s : Sig F) (i : Nat) : den eq (next eq s).2 i = den eq s (i + 1) := by
  induction s generalizing i with
  | fromIter r p => cases r <;> simp [next, den]
  | gen f i' => simp [next, den]; congr 1; omega
  | map m s ih => simp [next, den, ih]
  | zip m a b iha ihb => simp [next, den, iha, ihb]
  | delay k s ih =>
    cases k with
    | zero => simp [next, den, ih]
    | succ k =>
      simp only [next, den]
      by_cases h : i < k
      · simp [h, Nat.succ_lt_succ h]
      · simp [h, show ¬ (i + 1 < k + 1) by omega]

theorem exhausted_iff (s : Sig F) : isExhausted s = true ↔ len s = some 0 := by
  induction s with
  | fromIter r p => cases r <;> simp [isExhausted, len]
  | gen f i => simp [isExhausted, len]
  | map m s ih => simpa [isExhausted, len] using ih
  | zip m a b iha ihb =>
    simp only [isExhausted, len, Bool.or_eq_true, iha, ihb]
    cases len a <;> cases len b <;> simp <;> omega
  | delay k s ih =>
    simp only [isExhausted, len, Bool.and_eq_true, beq_iff_eq, ih]
    cases len s <;> simp <;> omega

theorem next_len (eq : F) (s : Sig F) : len (next eq s).2 = (len s).map (· - 1) := by
  induction s with
  | fromIter r p => cases r <;> simp [next, len]
  | gen f i => simp [next, len]
  | map m s ih => simpa [next, len] using ih
  | zip m a b iha ihb =>
    simp only [next, len, iha, ihb]
    cases len a <;> cases len b <;> simp <;> omega
  | delay k s ih =>
    cases k with
    | zero => simp only [next, len, ih]; cases len s <;> simp
    | succ k => simp only [next, len]; cases len s <;> simp <;> omega

/-- run j steps -/
def run (eq : F) : Nat → Sig F → List F × Sig F
  | 0, s => ([], s)
  | j+1, s => let (x, s') := next eq s; let (xs, s'') := run eq j s'; (x :: xs, s'')

theorem run_den (eq : F) (j : Nat) (s : Sig F) : (run eq j s).1 = (List.range j).map (den eq s) := by
  induction j generalizing s with
  | zero => simp [run]
  | succ j ih =>
    simp only [run, ih, next_fst]
    rw [List.range_succ_eq_map]
    simp [next_den]

#print axioms run_den
#print axioms exhausted_iff
end Dasp.Sig
