import Dasp.Lemmas.Graph
/-!
# C09 — graph processing runs exactly the upstream subgraph, once each, inputs first

Property text (properties.jsonl, C09): For any directed graph (cycles, self-loops and parallel edges
included; plain and stable graph types, the latter also after node removals) and any chosen output
node, one process call invokes every node that has a directed path to the output node, and the output
node itself, exactly once and invokes no other node; each invocation is given exactly one input per
incoming edge from a different node, each referring to that neighbour's current output buffers, and a
node's own buffers are never presented to it as an input.  Whenever the upstream subgraph is acyclic
every node is processed after all nodes that feed it, so the output buffers equal the functional
evaluation of the graph.  The source/sink enumeration helpers return exactly the existing nodes that
have no incoming / no outgoing edges.

Model (`Dasp/Model/Graph.lean`): a container is `PG = (bound, live, inc, outg)`; `inc n` is the list
`neighbors_directed(n, Incoming)` yields, in petgraph's order, one entry per parallel edge, self-loops
included (dumped by the harness for every case, never guessed).  `process` = reset of the visit maps,
`move_to`, petgraph's `DfsPostOrder` loop over the incoming lists, and per returned node the input
collection `inc n` minus `n` and the invocation.  `PG.WF` (neighbours are below the node bound) and
`Proc.Ok` (the processor's two visit maps have one length) are the only hypotheses besides "the output
node exists"; both hold for every petgraph container / every `Processor` (`Proc.empty` is `Ok`, and
`process_spec` shows `process` preserves it).
-/
namespace Dasp.Props.C09
open Dasp.Graph

/-- "the upstream subgraph is acyclic": no node that has a path to the output node lies on a cycle
    (`v → b ⇝ v`; a self-loop is a cycle) -/
def UpstreamAcyclic (g : PG) (root : Nat) : Prop :=
  ∀ v, PathTo g root v → ¬ ∃ b, v ∈ g.inc b ∧ PathTo g v b

theorem reachPlus_iff (g : G) (a c : Nat) : ReachPlus g a c ↔ ∃ b, Reach g a b ∧ c ∈ g.adj b := by
  constructor
  · intro h
    cases h with
    | edge hb => exact ⟨a, Or.inl rfl, hb⟩
    | trans h hc => exact ⟨_, Or.inr h, hc⟩
  · rintro ⟨b, (rfl | h), hc⟩
    · exact .edge hc
    · exact .trans h hc

theorem upstreamAcyclic_iff (g : PG) (root : Nat) : UpstreamAcyclic g root ↔ AcyclicFrom ⟨g.inc⟩ root := by
  unfold UpstreamAcyclic AcyclicFrom
  constructor
  · intro h v hv hc
    obtain ⟨b, hb, hvb⟩ := (reachPlus_iff _ v v).mp hc
    exact h v ((pathTo_iff_reach g root v).mpr hv) ⟨b, hvb, (pathTo_iff_reach g v b).mpr hb⟩
  · rintro h v hv ⟨b, hvb, hb⟩
    exact h v ((pathTo_iff_reach g root v).mp hv) ((reachPlus_iff _ v v).mpr ⟨b, (pathTo_iff_reach g v b).mp hb, hvb⟩)

/-- what `process` returns when the output node exists -/
theorem process_eq {β : Type} (F : Nat → List β → β) (g : PG) (p : Proc) (buf : Nat → β) (root : Nat)
    (hr : root < g.bound) (hl : g.live root = true) :
    process F g p buf root = some
      { proc := ⟨(run ⟨g.inc⟩ (resetMoveTo g p root)).stack, (run ⟨g.inc⟩ (resetMoveTo g p root)).disc,
                 (run ⟨g.inc⟩ (resetMoveTo g p root)).fin⟩
        log := (order g p root).map (fun n => (n, inputsOf g n))
        buf := (order g p root).foldl (invoke F g) buf } := by
  simp [process, hr, hl, order, foldl_invokeM]

/-- nodes invoked by a call, in order -/
def invoked {β : Type} (r : Result β) : List Nat := r.log.map Prod.fst

/-- **C09, coverage.** "one process call invokes every node that has a directed path to the output
    node, and the output node itself, exactly once and invokes no other node" — for every graph
    (cycles, self-loops, parallel edges, vacant slots), every existing output node, every processor state. -/
theorem process_spec {β : Type} (F : Nat → List β → β) (g : PG) (hwf : g.WF) (p : Proc) (hp : p.Ok)
    (buf : Nat → β) (root : Nat) (hr : root < g.bound) (hl : g.live root = true) :
    ∃ r, process F g p buf root = some r ∧
      (∀ n, n ∈ invoked r ↔ PathTo g root n) ∧ (invoked r).Nodup ∧ r.proc.Ok ∧
      invoked r = order g p root := by
  refine ⟨_, process_eq F g p buf root hr hl, ?_, ?_, ?_, ?_⟩
  · intro n; simp only [invoked, List.map_map]
    have : (Prod.fst ∘ fun n => (n, inputsOf g n)) = id := rfl
    rw [this, List.map_id]; exact order_mem g hwf p hp root hr n
  · simp only [invoked, List.map_map]
    have : (Prod.fst ∘ fun n => (n, inputsOf g n)) = id := rfl
    rw [this, List.map_id]; exact order_nodup g hwf p hp root hr
  · exact run_proc_ok g hwf p hp root hr
  · simp only [invoked, List.map_map]
    have : (Prod.fst ∘ fun n => (n, inputsOf g n)) = id := rfl
    rw [this, List.map_id]

/-- **C09, inputs.** "each invocation is given exactly one input per incoming edge from a different
    node … and a node's own buffers are never presented to it as an input": the input list of an
    invocation of `n` is the incoming list of `n`, in petgraph's order, with the entries equal to `n`
    dropped — every other neighbour keeps its multiplicity (one input per parallel edge). -/
theorem process_inputs {β : Type} (F : Nat → List β → β) (g : PG) (p : Proc) (buf : Nat → β) (root : Nat)
    (r : Result β) (h : process F g p buf root = some r) :
    ∀ e ∈ r.log, e.2 = (g.inc e.1).filter (· != e.1) ∧ e.1 ∉ e.2 ∧ e.2.Sublist (g.inc e.1) ∧
      ∀ m, m ≠ e.1 → e.2.count m = (g.inc e.1).count m := by
  intro e he
  unfold process at h
  split at h
  · simp only [Option.some.injEq] at h
    subst h
    simp only [List.mem_map] at he
    obtain ⟨n, _, rfl⟩ := he
    exact ⟨rfl, inputsOf_not_self g n, inputsOf_sublist g n, fun m hm => inputsOf_count g n m hm⟩
  · simp at h

/-- **C09, "each referring to that neighbour's current output buffers".** The buffers after the call
    are obtained by running the invocations in order, each node function applied to the buffers its
    inputs hold at that moment (`invoke`), every other node untouched. -/
theorem process_buffers {β : Type} (F : Nat → List β → β) (g : PG) (p : Proc) (buf : Nat → β) (root : Nat)
    (r : Result β) (h : process F g p buf root = some r) :
    r.buf = (invoked r).foldl (invoke F g) buf ∧ ∀ v, v ∉ invoked r → r.buf v = buf v := by
  unfold process at h
  split at h
  · simp only [Option.some.injEq] at h
    subst h
    have : (Prod.fst ∘ fun n => (n, inputsOf g n)) = id := rfl
    refine ⟨?_, ?_⟩
    · simp only [invoked, List.map_map, this, List.map_id, foldl_invokeM]
    · intro v hv
      simp only [invoked, List.map_map, this, List.map_id] at hv
      simp only [foldl_invokeM]
      exact foldl_invoke_not_mem F g _ buf v hv
  · simp at h

/-- **C09, order.** "Whenever the upstream subgraph is acyclic every node is processed after all nodes
    that feed it": whatever precedes `v` in the invocation order contains every input of `v`
    (indeed every incoming neighbour). -/
theorem process_inputs_first {β : Type} (F : Nat → List β → β) (g : PG) (hwf : g.WF) (p : Proc) (hp : p.Ok)
    (buf : Nat → β) (root : Nat) (hr : root < g.bound) (hac : UpstreamAcyclic g root)
    (r : Result β) (h : process F g p buf root = some r)
    (pre post : List Nat) (v : Nat) (hsplit : invoked r = pre ++ v :: post) :
    ∀ w ∈ g.inc v, w ∈ pre := by
  have hl : g.live root = true := by
    unfold process at h; split at h
    · rename_i hc; simp at hc; exact hc.2
    · simp at h
  obtain ⟨r', hr', _, hnd, _, hord⟩ := process_spec F g hwf p hp buf root hr hl
  rw [h] at hr'; cases hr'
  rw [hord, order_eq_canonical g hwf p hp root hr] at hsplit
  rw [hord, order_eq_canonical g hwf p hp root hr] at hnd
  exact ordered_prefix (g := ⟨g.inc⟩)
    (run_postorder ⟨g.inc⟩ g.bound root hr hwf ((upstreamAcyclic_iff g root).mp hac)) hnd hsplit

/-- **C09, functional evaluation.** "… so the output buffers equal the functional evaluation of the
    graph": for stateless node functions `F`, after the call every invoked node holds `F` of the final
    buffers of its inputs (in input order), and every other node's buffers are unchanged. -/
theorem process_functional {β : Type} (F : Nat → List β → β) (g : PG) (hwf : g.WF) (p : Proc) (hp : p.Ok)
    (buf : Nat → β) (root : Nat) (hr : root < g.bound) (hac : UpstreamAcyclic g root)
    (r : Result β) (h : process F g p buf root = some r) :
    (∀ v, PathTo g root v → r.buf v = F v ((inputsOf g v).map r.buf)) ∧
    (∀ v, ¬ PathTo g root v → r.buf v = buf v) := by
  have hl : g.live root = true := by
    unfold process at h; split at h
    · rename_i hc; simp at hc; exact hc.2
    · simp at h
  obtain ⟨r', hr', hmem, hnd, _, _⟩ := process_spec F g hwf p hp buf root hr hl
  rw [h] at hr'; cases hr'
  obtain ⟨hbuf, hrest⟩ := process_buffers F g p buf root r h
  constructor
  · intro v hv
    rw [hbuf]
    apply foldl_invoke_functional F g (invoked r) [] buf (by simpa using hnd) ?_ (by simp) v (by simpa using (hmem v).mpr hv)
    intro pre u post hsplit w hw
    exact process_inputs_first F g hwf p hp buf root hr hac r h pre post u (by simpa using hsplit) w (mem_inputsOf.mp hw).1
  · intro v hv
    exact hrest v (fun hin => hv ((hmem v).mp hin))

/-- **C09, repeated calls / processor reuse.** The visit maps are reset per call, so the invocation
    log and the resulting buffers do not depend on what the processor was used for before (any two
    processor states, e.g. fresh vs. left over from a differently shaped graph). -/
theorem process_independent_of_processor {β : Type} (F : Nat → List β → β) (g : PG) (hwf : g.WF)
    (p p' : Proc) (hp : p.Ok) (hp' : p'.Ok) (buf : Nat → β) (root : Nat) (hr : root < g.bound)
    (r r' : Result β) (h : process F g p buf root = some r) (h' : process F g p' buf root = some r') :
    r.log = r'.log ∧ r.buf = r'.buf := by
  have hl : g.live root = true := by
    unfold process at h; split at h
    · rename_i hc; simp at hc; exact hc.2
    · simp at h
  rw [process_eq F g p buf root hr hl] at h
  rw [process_eq F g p' buf root hr hl] at h'
  cases h; cases h'
  simp only [order_eq_canonical g hwf p hp root hr, order_eq_canonical g hwf p' hp' root hr, and_self]

/-- **C09, second call on the same processor.** For any graph the second call invokes the same nodes
    with the same inputs in the same order; when the upstream subgraph is acyclic it also leaves every
    buffer exactly as the first call did. -/
theorem process_twice {β : Type} (F : Nat → List β → β) (g : PG) (hwf : g.WF) (p : Proc) (hp : p.Ok)
    (buf : Nat → β) (root : Nat) (hr : root < g.bound) (hl : g.live root = true) :
    ∃ r r2, process F g p buf root = some r ∧ process F g r.proc r.buf root = some r2 ∧
      r2.log = r.log ∧ (UpstreamAcyclic g root → r2.buf = r.buf) := by
  obtain ⟨r, hr1, hmem, _, hok, hord⟩ := process_spec F g hwf p hp buf root hr hl
  obtain ⟨r2, hr2, _, _, _, hord2⟩ := process_spec F g hwf r.proc hok r.buf root hr hl
  refine ⟨r, r2, hr1, hr2, ?_, ?_⟩
  · have e1 := hr1; have e2 := hr2
    rw [process_eq F g p buf root hr hl] at e1
    rw [process_eq F g r.proc r.buf root hr hl] at e2
    cases e1; cases e2
    simp only [order_eq_canonical g hwf p hp root hr, order_eq_canonical g hwf _ hok root hr]
  · intro hac
    have hfun := (process_functional F g hwf p hp buf root hr hac r hr1).1
    rw [(process_buffers F g r.proc r.buf root r2 hr2).1]
    apply foldl_invoke_fixed
    intro v hv
    have hv' : v ∈ order g r.proc root := hord2 ▸ hv
    exact hfun v ((order_mem g hwf r.proc hok root hr v).mp hv')


theorem proc_empty_ok : Proc.empty.Ok := rfl

/-! ### a call that unwinds (a user node panics), then reuse of the processor -/

/-- **C09, "repeated process calls on the same processor" after a call that unwound.**  If a user
    node panics during a call and the caller keeps the processor, the unwound call had invoked a
    prefix of the ordinary call's invocations (each with the ordinary inputs), and EVERY later call on
    that processor — any output node, any buffer contents — invokes exactly the nodes, with exactly the
    inputs, and leaves exactly the buffers that a call on a fresh processor would. -/
theorem process_after_unwound_call {β : Type} (F : Nat → List β → β) (g : PG) (hwf : g.WF) (p : Proc) (hp : p.Ok)
    (buf : Nat → β) (root k : Nat) (hr : root < g.bound) (hl : g.live root = true) :
    ∃ ra b r, processAbort F g p buf root k = some (ra, b) ∧ process F g p buf root = some r ∧
      ra.log <+: r.log ∧ (b = true → ra.log.getLast? = some (k, inputsOf g k)) ∧ (b = false → ra.log = r.log) ∧
      ∀ (buf' : Nat → β) (root' : Nat), root' < g.bound →
        ∀ r2 r2', process F g ra.proc buf' root' = some r2 → process F g Proc.empty buf' root' = some r2' →
          r2.log = r2'.log ∧ r2.buf = r2'.buf := by
  obtain ⟨r, hr1, _, _, hok, _⟩ := process_spec F g hwf p hp buf root hr hl
  have hpe := process_eq F g p buf root hr hl
  rw [hr1] at hpe
  simp only [Option.some.injEq, order] at hpe
  unfold processAbort
  simp only [hr, hl, decide_true, Bool.and_self, if_true]
  generalize run ⟨g.inc⟩ (resetMoveTo g p root) = s at hpe ⊢
  have hlog : r.log = s.out.map (fun n => (n, inputsOf g n)) := by rw [hpe]
  have hproc : r.proc = ⟨s.stack, s.disc, s.fin⟩ := by rw [hpe]
  have hok' : (⟨s.stack, s.disc, s.fin⟩ : Proc).Ok := hproc ▸ hok
  have later : ∀ (buf' : Nat → β) (root' : Nat), root' < g.bound →
      ∀ r2 r2', process F g ⟨s.stack, s.disc, s.fin⟩ buf' root' = some r2 → process F g Proc.empty buf' root' = some r2' →
        r2.log = r2'.log ∧ r2.buf = r2'.buf := fun buf' root' hr' r2 r2' h2 h2' =>
    process_independent_of_processor F g hwf _ _ hok' proc_empty_ok buf' root' hr' r2 r2' h2 h2'
  by_cases hlt : (s.out.takeWhile (fun n => n != k)).length < s.out.length
  · rw [if_pos hlt]
    refine ⟨_, true, r, rfl, hr1, ?_, ?_, ?_, later⟩
    · -- prefix
      rw [hlog]
      have hsplit := List.takeWhile_append_dropWhile (p := fun n => n != k) (l := s.out)
      have hdne : s.out.dropWhile (fun n => n != k) ≠ [] := by
        intro h
        have := congrArg List.length hsplit
        rw [h] at this; simp at this; omega
      obtain ⟨d, ds, hd⟩ := List.exists_cons_of_ne_nil hdne
      have hdk : d = k := by
        have := List.head_dropWhile_not (p := fun n => n != k) (l := s.out) hdne
        simp only [hd, List.head_cons] at this
        simpa using this
      refine ⟨ds.map (fun n => (n, inputsOf g n)), ?_⟩
      conv => rhs; rw [← hsplit, hd, hdk]
      simp [List.map_append]
    · intro _; simp
    · intro h; cases h
  · rw [if_neg hlt]
    refine ⟨_, false, r, rfl, hr1, ?_, ?_, ?_, later⟩
    · rw [hlog]; exact List.prefix_refl _
    · intro h; cases h
    · intro _; rw [hlog]

/-- documented panic: "**Panics** if there is no node for the given index" -/
theorem process_missing_node {β : Type} (F : Nat → List β → β) (g : PG) (p : Proc) (buf : Nat → β) (root : Nat)
    (h : ¬ (root < g.bound ∧ g.live root = true)) : process F g p buf root = none := by
  unfold process
  split
  · rename_i hc; simp at hc; exact absurd hc h
  · rfl


/-! ### sources / sinks -/

/-- **C09, sources.** "The source/sink enumeration helpers return exactly the existing nodes that have
    no incoming … edges" (each once). -/
theorem sources_spec (g : PG) :
    (∀ n, n ∈ sources g ↔ (n < g.bound ∧ g.live n = true) ∧ g.inc n = []) ∧ (sources g).Nodup := by
  constructor
  · intro n; simp [sources, List.mem_filter, mem_nodeIdentifiers]
  · exact List.Nodup.sublist List.filter_sublist (nodup_nodeIdentifiers g)

/-- **C09, sinks.** "… / no outgoing edges" (each once). -/
theorem sinks_spec (g : PG) :
    (∀ n, n ∈ sinks g ↔ (n < g.bound ∧ g.live n = true) ∧ g.outg n = []) ∧ (sinks g).Nodup := by
  constructor
  · intro n; simp [sinks, List.mem_filter, mem_nodeIdentifiers]
  · exact List.Nodup.sublist List.filter_sublist (nodup_nodeIdentifiers g)

/-- stable graph a→b→c after `remove_node(a)`: slot 0 vacant, node bound 3, node count 2 -/
def gVacant : PG :=
  { bound := 3, live := fun n => n == 1 || n == 2,
    inc := fun n => if n == 2 then [1] else [], outg := fun n => if n == 1 then [2] else [] }

/-- COUNTER-WITNESS for the code as it was BEFORE fix commit 7d0940f (index scan `0..node_count()`):
    on `gVacant` the old scan reports the vacant slot 0 as a source and as the only sink and misses
    the live sink 2, whereas the current enumeration is right. -/
theorem old_index_scan_wrong :
    sourcesOldIndexScan gVacant = [0, 1] ∧ gVacant.live 0 = false ∧
    sinksOldIndexScan gVacant = [0] ∧ 2 ∉ sinksOldIndexScan gVacant ∧
    sources gVacant = [1] ∧ sinks gVacant = [2] := by
  decide

/-! ### non-vacuity: every hypothesis instantiated on concrete graphs -/

/-- 5 nodes: 1→0, 2→0 twice (parallel), 1⇄3 (cycle), 2→2 (self-loop), 0→4 (4 is not upstream of 0) -/
def gEx : PG :=
  { bound := 5, live := fun _ => true,
    inc := fun n => [[1, 2, 2], [3], [2], [1], [0]].getD n [],
    outg := fun n => [[4], [0, 3], [0, 0, 2], [1], []].getD n [] }

theorem gEx_wf : gEx.WF := by
  intro n m hm
  rcases n with _ | _ | _ | _ | _ | n <;> simp [gEx] at hm ⊢ <;> omega

/-- the cyclic example satisfies the hypotheses of the coverage theorem; node 3 (on the cycle) and the
    self-looping node 2 are invoked, node 4 is not, and node 0 gets one input per parallel edge -/
example : ∃ r, process (fun _ (l : List Nat) => l.sum) gEx Proc.empty (fun _ => 1) 0 = some r ∧
    3 ∈ invoked r ∧ 2 ∈ invoked r ∧ 4 ∉ invoked r ∧ (invoked r).Nodup ∧ inputsOf gEx 0 = [1, 2, 2] ∧
    inputsOf gEx 2 = [] := by
  obtain ⟨r, h, hmem, hnd, _, _⟩ :=
    process_spec (fun _ (l : List Nat) => l.sum) gEx gEx_wf Proc.empty proc_empty_ok (fun _ => 1) 0 (by decide) rfl
  refine ⟨r, h, ?_, ?_, ?_, hnd, by decide, by decide⟩
  · exact (hmem 3).mpr (.cons (b := 1) (by decide) (.cons (b := 0) (by decide) .refl))
  · exact (hmem 2).mpr (.cons (b := 0) (by decide) .refl)
  · intro h4
    have h4' := (hmem 4).mp h4
    -- 4 has no outgoing edge: it occurs in no incoming list
    have : ∀ n, PathTo gEx 0 n → n ≠ 4 := by
      intro n hn
      induction hn with
      | refl => decide
      | @cons a b hab _ _ =>
        intro e; subst e
        rcases b with _ | _ | _ | _ | _ | b <;> simp [gEx] at hab
    exact this 4 h4' rfl

/-- diamond with a shared sub-expression and a parallel edge; output node 1:
    4→2, 4→3, 2→1, 3→1 twice; 5→4; 1→0 (node 0 is downstream of the output node, not upstream) -/
def gDag : PG :=
  { bound := 6, live := fun _ => true,
    inc := fun n => [[1], [2, 3, 3], [4], [4], [5], []].getD n [],
    outg := fun n => [[], [0], [1], [1, 1], [2, 3], [4]].getD n [] }

theorem gDag_wf : gDag.WF := by
  intro n m hm
  rcases n with _ | _ | _ | _ | _ | _ | n <;> simp [gDag] at hm ⊢ <;> omega

theorem pathTo_le (g : PG) (hlt : ∀ n, ∀ m ∈ g.inc n, n < m) (a b : Nat) (h : PathTo g a b) : a ≤ b := by
  induction h with
  | refl => exact Nat.le_refl _
  | cons hab _ ih => exact Nat.le_of_lt (Nat.lt_of_le_of_lt ih (hlt _ _ hab))

theorem gDag_acyclic : UpstreamAcyclic gDag 1 := by
  have hlt : ∀ n, ∀ m ∈ gDag.inc n, n < m := by
    intro n m hm
    rcases n with _ | _ | _ | _ | _ | _ | n <;> simp [gDag] at hm <;> omega
  rintro v _ ⟨b, hvb, hb⟩
  have h1 := hlt b v hvb
  have h2 := pathTo_le gDag hlt v b hb
  omega

/-- the acyclic example satisfies the hypotheses of the order / functional-evaluation theorems: with
    `F = 1 + sum of inputs` the output node ends with 1 + 3 + 3 + 3 and node 0 keeps its old content -/
example : ∃ r, process (fun _ (l : List Nat) => 1 + l.sum) gDag Proc.empty (fun _ => 7) 1 = some r ∧
    r.buf 5 = 1 ∧ r.buf 4 = 2 ∧ r.buf 2 = 3 ∧ r.buf 3 = 3 ∧ r.buf 1 = 10 ∧ r.buf 0 = 7 := by
  obtain ⟨r, h, hmem, _, _, _⟩ :=
    process_spec (fun _ (l : List Nat) => 1 + l.sum) gDag gDag_wf Proc.empty proc_empty_ok (fun _ => 7) 1 (by decide) rfl
  obtain ⟨hf, hn⟩ := process_functional (fun _ (l : List Nat) => 1 + l.sum) gDag gDag_wf Proc.empty proc_empty_ok
    (fun _ => 7) 1 (by decide) gDag_acyclic r h
  have p1 : PathTo gDag 1 1 := .refl
  have p2 : PathTo gDag 1 2 := .cons (b := 1) (by decide) p1
  have p3 : PathTo gDag 1 3 := .cons (b := 1) (by decide) p1
  have p4 : PathTo gDag 1 4 := .cons (b := 2) (by decide) p2
  have p5 : PathTo gDag 1 5 := .cons (b := 4) (by decide) p4
  have e5 : r.buf 5 = 1 := by rw [hf 5 p5]; rfl
  have e4 : r.buf 4 = 2 := by rw [hf 4 p4]; simp [inputsOf, gDag, e5]
  have e2 : r.buf 2 = 3 := by rw [hf 2 p2]; simp [inputsOf, gDag, e4]
  have e3 : r.buf 3 = 3 := by rw [hf 3 p3]; simp [inputsOf, gDag, e4]
  have e1 : r.buf 1 = 10 := by rw [hf 1 p1]; simp [inputsOf, gDag, e2, e3]
  refine ⟨r, h, e5, e4, e2, e3, e1, ?_⟩
  apply hn 0
  intro h0
  have : ∀ n, PathTo gDag 1 n → n ≠ 0 := by
    intro n hn
    induction hn with
    | refl => decide
    | @cons a b hab _ _ =>
      intro e; subst e
      rcases b with _ | _ | _ | _ | _ | _ | b <;> simp [gDag] at hab
  exact this 0 h0 rfl

/-- the second-call theorem is applicable to the acyclic example -/
example : ∃ r r2, process (fun _ (l : List Nat) => 1 + l.sum) gDag Proc.empty (fun _ => 7) 1 = some r ∧
    process (fun _ (l : List Nat) => 1 + l.sum) gDag r.proc r.buf 1 = some r2 ∧ r2.log = r.log ∧ r2.buf = r.buf := by
  obtain ⟨r, r2, h1, h2, hl, hb⟩ := process_twice (fun _ (l : List Nat) => 1 + l.sum) gDag gDag_wf Proc.empty
    proc_empty_ok (fun _ => 7) 1 (by decide) rfl
  exact ⟨r, r2, h1, h2, hl, hb gDag_acyclic⟩

/-- the unwound-call theorem is applicable to the acyclic example: node 3 fails while the output node 1
    is processed; whatever is processed afterwards on the same processor equals a fresh processor's run -/
example : ∃ ra b, processAbort (fun _ (l : List Nat) => 1 + l.sum) gDag Proc.empty (fun _ => 7) 1 3 = some (ra, b) ∧
    ∀ r2 r2', process (fun _ (l : List Nat) => 1 + l.sum) gDag ra.proc (fun _ => 9) 0 = some r2 →
      process (fun _ (l : List Nat) => 1 + l.sum) gDag Proc.empty (fun _ => 9) 0 = some r2' → r2.log = r2'.log ∧ r2.buf = r2'.buf := by
  obtain ⟨ra, b, _, h1, _, _, _, _, hlater⟩ := process_after_unwound_call (fun _ (l : List Nat) => 1 + l.sum) gDag gDag_wf
    Proc.empty proc_empty_ok (fun _ => 7) 1 3 (by decide) rfl
  exact ⟨ra, b, h1, fun r2 r2' h2 h2' => hlater (fun _ => 9) 0 (by decide) r2 r2' h2 h2'⟩

end Dasp.Props.C09
