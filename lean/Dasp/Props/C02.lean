import Dasp.Gen.ConvFloatThm
/-!
# C02 — float ↔ integer sample conversion is exact scaling, truncating, within [-1, 1]

Property text (properties.jsonl, C02): converting any integer-format sample to f32 or f64
yields its signed amplitude divided by 2^(bits−1), correctly rounded to the float format:
always within [−1.0, 1.0], order-preserving, equilibrium to 0.0, and exact whenever the
integer width fits the float mantissa.  Converting any float in the documented domain
[−1.0, 1.0) to an integer format yields that float times 2^(bits−1) truncated toward zero
(re-offset for unsigned formats), which is always in range, order-preserving, maps 0.0 to
equilibrium and −1.0 to the minimum, and exactly inverts the integer-to-float conversion
wherever that was exact.  f32 to f64 is exact and f64 to f32 is the correctly rounded value.

`Dasp.Gen.i2fTable / f2iTable / f2fTable` are the float-involving bodies of `conv.rs` as
*regenerated from /repo on every run*; their meaning is the executable soft-float of
`Machine/FP.lean` + `Machine/FConv.lean` (one rounding per IEEE operation, `as` casts
truncating and saturating), which is validated bit-for-bit against the compiled functions
on every run.  `rv F q` is round-to-nearest-even of the positive rational `q` on the grid of
format `F` (`Lemmas/Round.lean`: `rne_spec`, `rv_onGrid`, `rv_err`).
-/
namespace Dasp.Props.C02
open Dasp Dasp.Gen

/-- side conditions shared by both float formats -/
theorem fmt_facts (p : FFmt) (k : ℕ) (hk : k ≤ 63) :
    1 ≤ p.fmt.prec ∧ p.fmt.emin ≤ 0 ∧ p.fmt.emin ≤ -(k : ℤ) := by
  cases p <;> simp [FFmt.fmt, Dasp.f32, Dasp.f64] <;> omega

theorem bits_le (s : Fmt) : s.bits - 1 ≤ 63 := by cases s <;> simp

theorem amp_bound (s : Fmt) (v : ℤ) (h : s.inRange v) :
    -(2 : ℤ) ^ (s.bits - 1) ≤ v - s.off ∧ v - s.off ≤ 2 ^ (s.bits - 1) - 1 := by
  cases s <;> simp [Fmt.inRange] at * <;> omega

theorem amp_abs (s : Fmt) (v : ℤ) (h : s.inRange v) : |v - s.off| ≤ 2 ^ (s.bits - 1) := by
  have := amp_bound s v h
  have h2 : (0 : ℤ) < 2 ^ (s.bits - 1) := by positivity
  rw [abs_le]; constructor <;> omega

/-! ### integer → float -/

/-- **int→float main theorem**: for each of the 24 (integer format, float format) pairs and
    every in-range value, the code computes the signed amplitude divided by 2^(bits−1),
    correctly rounded (one round-to-nearest-even), `+0.0` at equilibrium. -/
theorem i2f_spec (s : Fmt) (p : FFmt) (v : ℤ) (h : s.inRange v) :
    (i2fTable s p).i2fVal v = specI2F p.fmt (v - s.off) (s.bits - 1) :=
  i2f_table_spec s p v h

/-- always within [−1.0, 1.0] -/
theorem i2f_range (s : Fmt) (p : FFmt) (v : ℤ) (h : s.inRange v) :
    -1 ≤ fpVal ((i2fTable s p).i2fVal v) ∧ fpVal ((i2fTable s p).i2fVal v) ≤ 1 := by
  rw [i2f_spec s p v h]
  obtain ⟨hp, he, _⟩ := fmt_facts p (s.bits - 1) (bits_le s)
  exact specI2F_range p.fmt hp he _ _ (amp_abs s v h)

/-- order-preserving -/
theorem i2f_mono (s : Fmt) (p : FFmt) (a b : ℤ) (ha : s.inRange a) (hb : s.inRange b) (h : a ≤ b) :
    fpVal ((i2fTable s p).i2fVal a) ≤ fpVal ((i2fTable s p).i2fVal b) := by
  rw [i2f_spec s p a ha, i2f_spec s p b hb]
  exact specI2F_mono p.fmt (fmt_facts p 0 (by omega)).1 _ _ _ (by omega)

/-- equilibrium maps to `+0.0` -/
theorem i2f_equilibrium (s : Fmt) (p : FFmt) : (i2fTable s p).i2fVal s.off = .fin false 0 := by
  rw [i2f_spec s p s.off (by cases s <;> simp [Fmt.inRange])]; simp [specI2F]

/-- exact whenever the integer width fits the float mantissa -/
theorem i2f_exact (s : Fmt) (p : FFmt) (hfit : s.bits ≤ p.fmt.prec) (v : ℤ) (h : s.inRange v) :
    fpVal ((i2fTable s p).i2fVal v) = ((v - s.off : ℤ) : ℚ) / 2 ^ (s.bits - 1) := by
  rw [i2f_spec s p v h]
  obtain ⟨hp, _, hk⟩ := fmt_facts p (s.bits - 1) (bits_le s)
  have hb1 : 1 ≤ s.bits := by cases s <;> simp
  exact specI2F_exact_val p.fmt hp _ _ (amp_abs s v h) (by omega) hk

/-! ### float → integer, on the documented domain −1.0 ≤ x < 1.0 -/

/-- **float→int main theorem**: for every representable `x = (−1)^n · q` of the source float
    format with −1 ≤ x < 1 (subnormals and −0.0 included) and each of the 12 integer formats:
    the code yields `trunc(x · 2^(bits−1))` re-offset for unsigned formats, and that is in range. -/
theorem f2i_spec (p : FFmt) (d : Fmt) (n : Bool) (q : ℚ) (hd : InDomain p.fmt n q) :
    (f2iTable p d).f2iVal (.fin n q) = truncQ (sval n q * 2 ^ (d.bits - 1)) + d.off ∧
    d.inRange ((f2iTable p d).f2iVal (.fin n q)) := by
  obtain ⟨h1, h2⟩ := f2i_table_spec p d n q hd
  exact ⟨h1, by rw [h1]; exact h2⟩

/-- order-preserving -/
theorem f2i_mono' (p : FFmt) (d : Fmt) (n m : Bool) (q r : ℚ) (hq : InDomain p.fmt n q) (hr : InDomain p.fmt m r)
    (h : sval n q ≤ sval m r) : (f2iTable p d).f2iVal (.fin n q) ≤ (f2iTable p d).f2iVal (.fin m r) := by
  rw [(f2i_spec p d n q hq).1, (f2i_spec p d m r hr).1]
  have := f2i_mono (d.bits - 1) h
  omega

/-- ±0.0 maps to equilibrium -/
theorem f2i_zero' (p : FFmt) (d : Fmt) (n : Bool) : (f2iTable p d).f2iVal (.fin n 0) = d.off := by
  rw [(f2i_spec p d n 0 ⟨Or.inl rfl, by cases n <;> simp⟩).1, f2i_zero]; simp

theorem one_onGrid (p : FFmt) : onGrid p.fmt 1 := by
  have h := onGrid_int_scaled p.fmt (fmt_facts p 0 (by omega)).1 (m := 1) (by norm_num) (by
    have : (1 : ℤ) ≤ 2 ^ (p.fmt.prec - 1) := by exact_mod_cast Nat.one_le_two_pow
    exact this) 0 (by cases p <;> simp [Dasp.f32, Dasp.f64])
  simpa [pow2_zero] using h

/-- −1.0 maps to the minimum -/
theorem f2i_neg_one' (p : FFmt) (d : Fmt) : (f2iTable p d).f2iVal (.fin true 1) = d.lo := by
  rw [(f2i_spec p d true 1 ⟨Or.inr ⟨by norm_num, one_onGrid p⟩, by simp⟩).1, f2i_neg_one]
  cases d <;> simp

/-- float→int exactly inverts int→float wherever the latter was exact (bits ≤ mantissa) -/
theorem f2i_inverts_i2f (s : Fmt) (p : FFmt) (hfit : s.bits ≤ p.fmt.prec) (v : ℤ) (h : s.inRange v) :
    (f2iTable p s).f2iVal ((i2fTable s p).i2fVal v) = v := by
  rw [i2f_spec s p v h]
  obtain ⟨hp, _, hk⟩ := fmt_facts p (s.bits - 1) (bits_le s)
  have hb1 : 1 ≤ s.bits := by cases s <;> simp
  obtain ⟨hlo, hhi⟩ := amp_bound s v h
  obtain ⟨n, q, he, hd, ht⟩ := f2i_inverts_exact p.fmt hp (v - s.off) (s.bits - 1) hlo hhi (by omega) hk
  rw [he, (f2i_spec p s n q hd).1, ht]; omega

/-! ### float ↔ float -/

/-- f32 → f64 is exact on every finite f32 value (inf ↦ inf, NaN ↦ NaN by definition of `cvt`) -/
theorem f32_to_f64_exact (n : Bool) (q : ℚ) (hq : q = 0 ∨ (0 < q ∧ onGrid Dasp.f32 q ∧ q < pow2 128)) :
    (f2fTable .f32 .f64).f2fVal (.fin n q) = .fin n q := by
  rw [f2f_table_spec]; exact cvt_f64_exact n q hq

/-- f64 → f32 is the correctly rounded value: round-to-nearest-even onto the f32 grid (within
    half an f32 ulp, representable), overflowing to ±inf only when the rounded magnitude
    reaches 2^128; zeros keep their sign -/
theorem f64_to_f32_rounded (n : Bool) (q : ℚ) (hpos : 0 < q) :
    (f2fTable .f64 .f32).f2fVal (.fin n q) = (if rv Dasp.f32 q < pow2 128 then .fin n (rv Dasp.f32 q) else .inf n)
    ∧ onGrid Dasp.f32 (rv Dasp.f32 q) ∧ |rv Dasp.f32 q - q| ≤ pow2 (gridExp Dasp.f32 q) / 2 := by
  rw [f2f_table_spec]; exact cvt_f32_spec n q hpos

theorem f64_to_f32_zero (n : Bool) : (f2fTable .f64 .f32).f2fVal (.fin n 0) = .fin n 0 := by
  rw [f2f_table_spec]; simp [cvt]

/-! ### non-vacuity -/
example : Fmt.inRange .i16 (-12345) := by simp [Fmt.inRange]
example : InDomain Dasp.f32 true 1 := ⟨Or.inr ⟨by norm_num, one_onGrid .f32⟩, by simp⟩
example : InDomain Dasp.f64 false 0 := ⟨Or.inl rfl, by simp⟩
/-- 3/4 is an in-domain f32 value and converts to 96 as i8 and 224 as u8 -/
example : InDomain Dasp.f32 false (3/4) ∧ truncQ (sval false (3/4) * 2 ^ 7) = 96 := by
  refine ⟨⟨Or.inr ⟨by norm_num, ?_⟩, by norm_num⟩, ?_⟩
  · have h := onGrid_int_scaled Dasp.f32 (by norm_num [Dasp.f32]) (m := 3) (by norm_num) (by norm_num [Dasp.f32]) 2 (by norm_num [Dasp.f32])
    have e : ((3 : ℤ) : ℚ) / pow2 ((2 : ℕ) : ℤ) = 3 / 4 := by rw [pow2_nat]; norm_num
    rwa [e] at h
  · have : sval false (3/4) * (2 : ℚ) ^ 7 = ((96 : ℤ) : ℚ) := by norm_num [sval]
    rw [this, truncQ_int]

end Dasp.Props.C02
