import Dasp.Props.C01
import Dasp.Props.C02
import Dasp.Model.Sample
/-!
# C03 — sample and frame amplitude arithmetic obeys its identities, channel by channel

Property text (properties.jsonl, C03): for every sample format and value, offsetting by zero
returns the sample unchanged, scaling by 0.0 returns the format's equilibrium, scaling by
1.0 returns the same sample (exactly when the format fits its float companion's mantissa,
otherwise within that float precision), and in general offset and scale equal native
addition/multiplication performed on the sample's signed / normalised-float conversion and
converted back, so unsigned formats are re-centred rather than treated as raw integers.
For frames of every channel count from 1 to 32, each frame operation is exactly the
per-channel application of the corresponding sample operation in channel order.  A bare
sample used as a frame behaves as the 1-channel frame of that sample.

The sample-level model composes the conversion bodies and the `impl_sample!` table, both
regenerated from /repo on every run.  Frame theorems hold for every channel count `n`.
-/
namespace Dasp.Props.C03
open Dasp Dasp.Gen Dasp.Model

/-! ### the regenerated `impl_sample!` table -/

/-- the associated `Signed` format is signed and at least as wide (it is the same width except
    for U24 → i32 and U48 → i64) -/
theorem signedOf_facts (s : Fmt) : (signedOf s).off = 0 ∧ s.bits ≤ (signedOf s).bits := by
  cases s <;> simp [signedOf]

/-- `EQUILIBRIUM` of every integer format is its half-range offset -/
theorem equilibrium_eq (s : Fmt) : equilibrium s = s.off := by cases s <;> rfl

/-- which formats fit their float companion's mantissa: 8/16/24-bit in f32, 48-bit in f64 -/
theorem fits_iff (s : Fmt) : s.bits ≤ (floatOf s).fmt.prec ↔ s.bits ≠ 32 ∧ s.bits ≠ 64 := by
  cases s <;> simp [floatOf, FFmt.fmt, Dasp.f32, Dasp.f64]

theorem convI_spec (s d : Fmt) (v : Int) (h : s.inRange v) :
    convI s d v = (if s = d then v else specConv s d v) ∧ d.inRange (convI s d v) := by
  unfold convI
  by_cases hsd : s = d
  · subst hsd; simp [h]
  · have := C01.conv_spec s d hsd v h
    simp only [hsd, if_false]
    refine ⟨this.2.2, ?_⟩
    have h2 := C01.conv_inRange s d hsd v h
    exact h2

/-! ### `add_amp` -/

/-- offset equals native addition on the signed conversion, converted back -/
theorem addAmp_spec (s : Fmt) (v a : Int) (_hv : s.inRange v)
    (hr : (signedOf s).inRange (convI s (signedOf s) v + a)) :
    addAmpI s v a = convI (signedOf s) s (convI s (signedOf s) v + a) ∧ s.inRange (addAmpI s v a) := by
  unfold addAmpI; exact ⟨rfl, (convI_spec _ s _ hr).2⟩

/-- … which re-centres unsigned formats: in amplitude terms the result is `v + ⌊a / 2^(signed bits − bits)⌋`
    (plain `v + a` for every format whose `Signed` companion has the same width) -/
theorem addAmp_value (s : Fmt) (v a : Int) (hv : s.inRange v)
    (hr : (signedOf s).inRange (convI s (signedOf s) v + a)) :
    addAmpI s v a = v + a / 2 ^ ((signedOf s).bits - s.bits) := by
  have h1 := (convI_spec s (signedOf s) v hv).1
  have h2 := (convI_spec (signedOf s) s _ hr).1
  unfold addAmpI
  rw [h2]; rw [h1] at hr ⊢
  cases s <;> simp [signedOf, specConv, Fmt.inRange] at * <;> omega

/-- offsetting by zero returns the sample unchanged -/
theorem addAmp_zero (s : Fmt) (v : Int) (hv : s.inRange v) : addAmpI s v 0 = v := by
  have hr : (signedOf s).inRange (convI s (signedOf s) v + 0) := by
    rw [Int.add_zero]; exact (convI_spec s (signedOf s) v hv).2
  rw [addAmp_value s v 0 hv hr]; simp

/-! ### `mul_amp` -/

theorem toFloat_fin (s : Fmt) (v : Int) (hv : s.inRange v) :
    ∃ n q, toFloatI s v = .fin n q ∧ 0 ≤ q := by
  unfold toFloatI; rw [C02.i2f_spec s _ v hv]; unfold specI2F
  split
  · exact ⟨false, 0, rfl, le_refl _⟩
  · exact ⟨_, _, rfl, rv_nonneg _ (div_nonneg (abs_nonneg _) (le_of_lt (pow2_pos _)))⟩

/-- scaling by ±0.0 returns the format's equilibrium -/
theorem mulAmp_zero (s : Fmt) (v : Int) (hv : s.inRange v) (n : Bool) :
    mulAmpI s v (.fin n 0) = equilibrium s := by
  obtain ⟨m, q, hq, _⟩ := toFloat_fin s v hv
  unfold mulAmpI; rw [hq, equilibrium_eq]
  have : ∃ b, mul (floatOf s).fmt (.fin m q) (.fin n 0) = .fin b 0 := by
    simp only [mul, mul_zero, neg_zero]
    split <;> simp [round_zero]
  obtain ⟨b, hb⟩ := this
  rw [hb]; exact C02.f2i_zero' _ _ _

/-- scaling by 1.0 returns the same sample exactly whenever the format fits its float
    companion's mantissa (all formats except the 32- and 64-bit ones, see `fits_iff`) -/
theorem mulAmp_one (s : Fmt) (hfit : s.bits ≤ (floatOf s).fmt.prec) (v : Int) (hv : s.inRange v) :
    mulAmpI s v (.fin false 1) = v := by
  have hinv := C02.f2i_inverts_i2f s (floatOf s) hfit v hv
  unfold mulAmpI toFloatI
  obtain ⟨hp, _, hk⟩ := C02.fmt_facts (floatOf s) (s.bits - 1) (C02.bits_le s)
  have hb1 : 1 ≤ s.bits := by cases s <;> simp
  obtain ⟨hlo, hhi⟩ := C02.amp_bound s v hv
  obtain ⟨n, q, he, hd, _⟩ := f2i_inverts_exact (floatOf s).fmt hp (v - s.off) (s.bits - 1) hlo hhi (by omega) hk
  have hi := C02.i2f_spec s (floatOf s) v hv
  rw [hi] at hinv ⊢
  rw [he] at hinv ⊢
  have hrep : q = 0 ∨ (0 < q ∧ onGrid (floatOf s).fmt q ∧ q < pow2 ((floatOf s).fmt.emax + 1)) := by
    rcases hd.1 with h0 | ⟨hpos, hg⟩
    · exact Or.inl h0
    · refine Or.inr ⟨hpos, hg, ?_⟩
      have hq1 : q ≤ 1 := by have := hd.2; cases n <;> simp at this <;> linarith
      have : (1 : ℚ) < pow2 ((floatOf s).fmt.emax + 1) := by
        rw [← pow2_zero]; apply pow2_lt; cases s <;> simp [floatOf, FFmt.fmt, Dasp.f32, Dasp.f64]
      linarith
  rw [mul_one_rep _ n q hrep]; exact hinv

/-- scaling by 1.0 on the formats that do NOT fit their float companion's mantissa (i32/u32 in f32,
    i64/u64 in f64): the result is in range and within the float precision, `2^(bits − prec)`, of the
    sample (2^8 for the 32-bit formats, 2^11 for the 64-bit ones) — the top values saturate -/
theorem mulAmp_one_approx (s : Fmt) (hbig : s.bits = 32 ∨ s.bits = 64) (v : Int) (hv : s.inRange v) :
    s.inRange (mulAmpI s v (.fin false 1)) ∧
    |mulAmpI s v (.fin false 1) - v| ≤ 2 ^ (s.bits - (floatOf s).fmt.prec) := by
  have hi := C02.i2f_spec s (floatOf s) v hv
  cases s <;> simp at hbig
  · -- i32 via f32
    obtain ⟨r, hr, h1, h2, h3⟩ := i2f_mul1_f2i_near Dasp.f32 (by norm_num [Dasp.f32]) v 31 .i32
      (by norm_num [Dasp.f32]) (by norm_num [Dasp.f32]) (by norm_num [Dasp.f32]) (by norm_num [Dasp.f32])
      (by norm_num) (by norm_num) (by simp [Fmt.inRange] at hv; omega) (by simp [Fmt.inRange] at hv; omega)
    have he : mulAmpI .i32 v (.fin false 1) = r := by
      simp only [mulAmpI, toFloatI, floatOf, f2iTable, f32_to_i32, FConv.f2iVal, val, FFmt.fmt] at hi ⊢
      rw [hi]; simpa using hr
    rw [he]; simp [Fmt.inRange, floatOf, FFmt.fmt, Dasp.f32] at h1 h2 h3 ⊢
    exact ⟨⟨h1, h2⟩, h3⟩
  · -- i64 via f64
    obtain ⟨r, hr, h1, h2, h3⟩ := i2f_mul1_f2i_near Dasp.f64 (by norm_num [Dasp.f64]) v 63 .i64
      (by norm_num [Dasp.f64]) (by norm_num [Dasp.f64]) (by norm_num [Dasp.f64]) (by norm_num [Dasp.f64])
      (by norm_num) (by norm_num) (by simp [Fmt.inRange] at hv; omega) (by simp [Fmt.inRange] at hv; omega)
    have he : mulAmpI .i64 v (.fin false 1) = r := by
      simp only [mulAmpI, toFloatI, floatOf, f2iTable, f64_to_i64, FConv.f2iVal, val, FFmt.fmt] at hi ⊢
      rw [hi]; simpa using hr
    rw [he]; simp [Fmt.inRange, floatOf, FFmt.fmt, Dasp.f64] at h1 h2 h3 ⊢
    exact ⟨⟨h1, h2⟩, h3⟩
  · -- u32 via i32 and f32
    obtain ⟨r, hr, h1, h2, h3⟩ := i2f_mul1_f2i_near Dasp.f32 (by norm_num [Dasp.f32]) (v - 2147483648) 31 .i32
      (by norm_num [Dasp.f32]) (by norm_num [Dasp.f32]) (by norm_num [Dasp.f32]) (by norm_num [Dasp.f32])
      (by norm_num) (by norm_num) (by simp [Fmt.inRange] at hv; omega) (by simp [Fmt.inRange] at hv; omega)
    have hrr : Fmt.inRange .i32 r := by simp [Fmt.inRange] at h1 h2 ⊢; exact ⟨h1, h2⟩
    have hc := (i32_to_u32_spec r hrr).2.2
    have he : mulAmpI .u32 v (.fin false 1) = r + 2147483648 := by
      simp only [mulAmpI, toFloatI, floatOf, f2iTable, f32_to_u32, f32_to_i32, FConv.f2iVal, val, FFmt.fmt] at hi ⊢
      rw [hi]
      have : toInt ITy.i32 (mul Dasp.f32 (mul Dasp.f32 (specI2F Dasp.f32 (v - Fmt.u32.off) (Fmt.u32.bits - 1)) (FP.fin false 1)) (FP.fin false (2 ^ 31))) = r := by
        simpa using hr
      rw [this, hc]; simp [specConv]
    rw [he]; simp [Fmt.inRange, floatOf, FFmt.fmt, Dasp.f32] at h1 h2 h3 ⊢
    refine ⟨⟨by omega, by omega⟩, ?_⟩
    have e : r + 2147483648 - v = r - (v - 2147483648) := by ring
    rw [e]; exact h3
  · -- u64 via i64 and f64
    obtain ⟨r, hr, h1, h2, h3⟩ := i2f_mul1_f2i_near Dasp.f64 (by norm_num [Dasp.f64]) (v - 9223372036854775808) 63 .i64
      (by norm_num [Dasp.f64]) (by norm_num [Dasp.f64]) (by norm_num [Dasp.f64]) (by norm_num [Dasp.f64])
      (by norm_num) (by norm_num) (by simp [Fmt.inRange] at hv; omega) (by simp [Fmt.inRange] at hv; omega)
    have hrr : Fmt.inRange .i64 r := by simp [Fmt.inRange] at h1 h2 ⊢; exact ⟨h1, h2⟩
    have hc := (i64_to_u64_spec r hrr).2.2
    have he : mulAmpI .u64 v (.fin false 1) = r + 9223372036854775808 := by
      simp only [mulAmpI, toFloatI, floatOf, f2iTable, f64_to_u64, f64_to_i64, FConv.f2iVal, val, FFmt.fmt] at hi ⊢
      rw [hi]
      have : toInt ITy.i64 (mul Dasp.f64 (mul Dasp.f64 (specI2F Dasp.f64 (v - Fmt.u64.off) (Fmt.u64.bits - 1)) (FP.fin false 1)) (FP.fin false (2 ^ 63))) = r := by
        simpa using hr
      rw [this, hc]; simp [specConv]
    rw [he]; simp [Fmt.inRange, floatOf, FFmt.fmt, Dasp.f64] at h1 h2 h3 ⊢
    refine ⟨⟨by omega, by omega⟩, ?_⟩
    have e : r + 9223372036854775808 - v = r - (v - 9223372036854775808) := by ring
    rw [e]; exact h3

/-- scale equals native multiplication on the normalised-float conversion, converted back
    (unfolding of the model, stated so the composition is visible) -/
theorem mulAmp_def (s : Fmt) (v : Int) (amp : FP) :
    mulAmpI s v amp = (f2iTable (floatOf s) s).f2iVal (mul (floatOf s).fmt ((i2fTable s (floatOf s)).i2fVal v) amp) := rfl

/-! ### frames of any channel count `n` -/

theorem fromFn_length {α} (n : Nat) (f : Nat → α) : (fromFn n f).length = n := by simp [fromFn]

/-- `from_fn` fills channel `i` with `f i`, in channel order -/
theorem fromFn_get {α} (n : Nat) (f : Nat → α) (i : Nat) (h : i < n) : (fromFn n f)[i]? = some (f i) := by
  simp [fromFn, h]

/-- every unchecked channel access of `map`/`zip_map` is in bounds: the default is never observed -/
theorem chan_inbounds {α} (d : α) (fr : List α) (i : Nat) (h : i < fr.length) : chan d fr i = fr[i] := by
  simp [chan, h]

/-- `map` is exactly the per-channel application in channel order -/
theorem fmap_eq {α β} (d : α) (n : Nat) (fr : List α) (f : α → β) (h : fr.length = n) : fmap d n fr f = fr.map f := by
  subst h
  apply List.ext_getElem (by simp [fmap, fromFn])
  intro i h1 h2
  have hi : i < fr.length := by simpa using h2
  simp [fmap, fromFn, chan, hi]

/-- `zip_map` is exactly the per-channel application in channel order -/
theorem fzipMap_eq {α β γ} (da : α) (db : β) (n : Nat) (a : List α) (b : List β) (f : α → β → γ)
    (ha : a.length = n) (hb : b.length = n) : fzipMap da db n a b f = List.zipWith f a b := by
  subst ha
  apply List.ext_getElem (by simp [fzipMap, fromFn, hb])
  intro i h1 h2
  have hi : i < a.length := by simp [List.length_zipWith] at h2; omega
  have hj : i < b.length := by omega
  simp [fzipMap, fromFn, chan, hi, hj]

theorem offsetAmp_eq {α σ} (d : α) (n : Nat) (fr : List α) (addAmp : α → σ → α) (a : σ) (h : fr.length = n) :
    offsetAmp d n fr addAmp a = fr.map (fun s => addAmp s a) := fmap_eq d n fr _ h
theorem scaleAmp_eq {α φ} (d : α) (n : Nat) (fr : List α) (mulAmp : α → φ → α) (a : φ) (h : fr.length = n) :
    scaleAmp d n fr mulAmp a = fr.map (fun s => mulAmp s a) := fmap_eq d n fr _ h
theorem addAmpFr_eq {α σ} (d : α) (ds : σ) (n : Nat) (fr : List α) (o : List σ) (addAmp : α → σ → α)
    (h : fr.length = n) (ho : o.length = n) : addAmpFr d ds n fr o addAmp = List.zipWith addAmp fr o :=
  fzipMap_eq d ds n fr o _ h ho
theorem mulAmpFr_eq {α φ} (d : α) (df : φ) (n : Nat) (fr : List α) (o : List φ) (mulAmp : α → φ → α)
    (h : fr.length = n) (ho : o.length = n) : mulAmpFr d df n fr o mulAmp = List.zipWith mulAmp fr o :=
  fzipMap_eq d df n fr o _ h ho
theorem convFrame_eq {α β} (d : α) (n : Nat) (fr : List α) (conv : α → β) (h : fr.length = n) :
    convFrame d n fr conv = fr.map conv := fmap_eq d n fr _ h
theorem equilibriumFrame_get {α} (n : Nat) (eq : α) (i : Nat) (h : i < n) : (equilibriumFrame n eq)[i]? = some eq := by
  simp [equilibriumFrame, h]

/-- construction from a sample iterator: takes exactly the first `n` samples in order and
    leaves the rest; if fewer than `n` remain it yields `None` and has drained the iterator -/
theorem fromSamples_spec {α} (n : Nat) (xs : List α) :
    fromSamples n xs = if n ≤ xs.length then (some (xs.take n), xs.drop n) else (none, []) := by
  induction n generalizing xs with
  | zero => simp [fromSamples]
  | succ n ih =>
    cases xs with
    | nil => simp [fromSamples]
    | cons x xs =>
      by_cases hle : n ≤ xs.length
      · simp [fromSamples, ih xs, hle]
      · simp [fromSamples, ih xs, hle]

/-- channel iteration yields the channels in order, `channel i` indexes them -/
theorem channelsFrom_eq {α} (fr : List α) (fuel i : Nat) (h : fr.length < fuel + i) :
    channelsFrom fr fuel i = fr.drop i := by
  induction fuel generalizing i with
  | zero => simp [channelsFrom]; omega
  | succ f ih =>
    simp only [channelsFrom, channel]
    by_cases hi : i < fr.length
    · simp only [List.getElem?_eq_getElem hi]
      rw [ih (i + 1) (by omega)]
      exact (List.drop_eq_getElem_cons hi).symm
    · simp [List.getElem?_eq_none (by omega : fr.length ≤ i)]; omega

theorem channels_eq {α} (fr : List α) : channels fr = fr := by
  unfold channels; rw [channelsFrom_eq fr _ 0 (by omega)]; simp

/-- a bare sample used as a frame is the 1-channel frame: every operation above at `n = 1` on `[s]` -/
theorem mono_map {α β} (d : α) (s : α) (f : α → β) : fmap d 1 [s] f = [f s] := by
  simp [fmap_eq d 1 [s] f rfl]

/-! ### non-vacuity -/
example : addAmpI .u8 192 (-128) = 64 := by
  rw [addAmp_value .u8 192 (-128) (by simp [Fmt.inRange]) (by
    show Fmt.inRange .i8 (convI .u8 .i8 192 + -128)
    rw [(convI_spec .u8 .i8 192 (by simp [Fmt.inRange])).1]; simp [specConv, Fmt.inRange])]
  simp [signedOf]
example : Fmt.inRange .u24 100 ∧ Fmt.bits .u24 ≤ (floatOf .u24).fmt.prec := by
  simp [Fmt.inRange, floatOf, FFmt.fmt, Dasp.f32]
example : fromSamples 2 [1, 2, 3] = (some [1, 2], [3]) := by rw [fromSamples_spec]; simp
example : fromSamples 4 [1, 2, 3] = ((none : Option (List Nat)), []) := by rw [fromSamples_spec]; simp

end Dasp.Props.C03
