import Dasp.Lemmas.Osc
import Dasp.Lemmas.OscFP
import Dasp.Lemmas.SimplexRounding
import Dasp.Lemmas.RoundRel
/-!
# C17 — oscillators and noise sources keep phase and amplitude in range at any rate

Property text (properties.jsonl, C17): *For any positive sample rate and any finite non-negative
frequency, constant or varying per frame, the phase starts at 0 and advances by frequency/rate
per frame wrapped into [0, 1), and sine, saw, square, noise and simplex-noise outputs always lie
within [-1, 1], with sine = sin(2*pi*phase), saw = 1 - 2*phase and square = +1 on the first
half-cycle and -1 on the second. Noise output is a pure function of the seed and the frame index
(clones and restarts reproduce it), and a variable-frequency oscillator consumes exactly one
frequency frame per output frame.*  Quantifier: every rate > 0, every finite non-negative
frequency sequence (including frequencies above the rate), every seed, arbitrarily long runs.

The model `Dasp.Osc` (`Model/Osc.lean`) transcribes `Phase`, `ConstHz`/`Hz`, `Sine`/`Saw`/`Square`,
`Noise`, `NoiseSimplex` of `dasp_signal/src/lib.rs` ONCE, over an arithmetic structure; all literal
data (hash primes, shift, mask, divisor, 256-entry PERM table, gradient masks, 0.395, 2^16) is
`Dasp.Gen.Osc`, regenerated from the source on every run.

* **Theorems below marked (exact)** are about the instance `ratArith sinO`: exact rational
  arithmetic, `x % w` = `x − w·trunc(x/w)`, `sin` an arbitrary function `sinO` about which only
  `|sinO x| ≤ 1` is assumed where needed.  They hold for runs of ANY length (induction over `run`).
* **Theorems marked (any arithmetic)** hold for every instance, in particular for `floatArith`, the
  native-f64 instance that the driver executes bit-for-bit against the compiled code: the integer
  noise hash, the seed schedule, the pull counts.
* **Theorems marked (f64)** (`fp_…`) are about the SAME model at its third instance `fpArith sinO`, the
  executable soft-float of `Machine/FP.lean` (one round-to-nearest-even per `+ * /`, exact `%`): they say what
  the f64 code computes *after rounding*.  That instance is also executed by the driver (stream `fp`) and
  agrees bit-for-bit with the compiled code.  Proved there: the f64 phase stays finite in [0,1) for runs of any
  length whenever every quotient hz/rate is finite (≤ 2^1023 − 2^52) and non-negative; f64 saw ∈ [−1,1]; f64 square
  = ±1.  NOT proved in f64 (measured on every run by the harness' native range oracles over 10^5–10^6-frame runs,
  labelled tests in props/C17.json): f64 sine ∈ [−1,1] (libm), f64 noise (exact by inspection: m < 2^31 and m/2^30 are dyadic — validated bit-for-bit).  The known finding
* **Rounded arithmetic** (`simplex_value_bound_rounded`, `softfloat_absrnd`): the float value of `simplex_noise_1d` is
  within `531·e` of the exact one for any rounding that moves values of magnitude ≤ 32 by at most `e` (error propagated
  through all 17 operations, `Lemmas/SimplexRounding.lean`), hence in [−1, 1]; binary64's rounding is proved to qualify.
  (It was a measurement before; the harness still checks every frame of its runs.)
  `C17-step-overflow` (hz/rate = +inf ⇒ NaN) lies outside the exact model by construction (a
  rational quotient is always finite); it is re-confirmed on the real code by a probe on every run.
-/
namespace Dasp.Props.C17
open Dasp Dasp.Osc Dasp.Gen

variable (sinO : Rat → Rat)

/-! ### the phase -/

/-- (any arithmetic) *"the phase starts at 0"*: `signal::phase(step)` is `Phase { next: 0.0 }`, and the first
    frame yielded is that 0 -/
theorem phase_starts_at_zero (src : StepSrc Rat) :
    (phase (ratArith sinO) src).next = 0 ∧ (nextPhase (ratArith sinO) (phase (ratArith sinO) src)).1 = 0 := by
  constructor <;> (show ((0 : Nat) : Rat) = 0) <;> simp

/-- (exact) *"advances by frequency/rate per frame wrapped into [0, 1)"*, one step: the oscillator yields the
    current phase and stores `frac (phase + step)` where `step` is what the step source hands out … -/
theorem phase_step (p : Phase Rat) (h0 : 0 ≤ p.next) (hs : SrcOK p.src) :
    (nextPhase (ratArith sinO) p).1 = p.next ∧
    (nextPhase (ratArith sinO) p).2.next = Int.fract (p.next + (p.src.step (ratArith sinO)).1) := by
  rw [nextPhase_eq]
  refine ⟨rfl, ?_⟩
  show (nextPhaseWrappedTo (ratArith sinO) p 1).2.next = _
  rw [nextPhaseWrappedTo_next, ratRem_one (add_nonneg h0 (step_ok sinO hs).1)]

/-- … and that step is `hz / rate`: computed once for `ConstHz`, from ONE freshly pulled frame for `Hz` -/
theorem step_is_hz_over_rate (rate hz : Rat) (fs : List Rat) (n : Nat) :
    ((constHz (ratArith sinO) rate hz).step (ratArith sinO)).1 = hz / rate ∧
    ((StepSrc.hz rate (hz :: fs) n).step (ratArith sinO)) = (hz / rate, .hz rate fs (n + 1)) :=
  ⟨rfl, rfl⟩

/-- (exact) **phase invariant, runs of any length**: for rate > 0 and non-negative frequencies (`SrcOK`), every
    phase yielded by `n` calls of `Phase::next` lies in [0, 1), for every `n`. -/
theorem phase_in_unit_interval (src : StepSrc Rat) (hs : SrcOK src) (n : Nat) :
    ∀ ph ∈ (run (nextPhase (ratArith sinO)) n (phase (ratArith sinO) src)).1, 0 ≤ ph ∧ ph < 1 := by
  intro ph hph
  rw [nextPhase_eq] at hph
  obtain ⟨q, h0, h1, e⟩ := (run_oscStep sinO one_pos id n _ (phase_inv sinO one_pos hs)).1 ph hph
  exact e ▸ ⟨h0, h1⟩

/-- (exact) **closed form**: frame `k` of the phase signal is `frac (Σ_{i<k} step_i)` — `frac (k·hz/rate)` for a
    constant frequency, `frac (Σ_{i<k} hz_i / rate)` for a per-frame frequency. -/
theorem phase_closed_form (src : StepSrc Rat) (hs : SrcOK src) (n : Nat) :
    (run (nextPhase (ratArith sinO)) n (phase (ratArith sinO) src)).1 =
      (List.range n).map (fun k => Int.fract (stepSum src k)) := by
  rw [nextPhase_eq]
  have h := run_oscStep_closed sinO id n (phase (ratArith sinO) src)
    (by show (0 : Rat) ≤ ((0 : Nat) : Rat); simp) (by show ((0 : Nat) : Rat) < 1; simp) hs
  rw [h]
  apply List.map_congr_left
  intro k _
  show Int.fract (((0 : Nat) : Rat) + stepSum src k) = _
  simp

theorem stepSum_const (rate hz : Rat) (k : Nat) :
    stepSum (constHz (ratArith sinO) rate hz) k = k * (hz / rate) := rfl
theorem stepSum_var (rate : Rat) (fs : List Rat) (k : Nat) :
    stepSum (varHz rate fs) k = ((fs.take k).map (· / rate)).sum := rfl

/-! ### the waveforms -/

/-- (exact) *"saw = 1 − 2·phase"* and it lies in (−1, 1] for a phase in [0, 1) -/
theorem saw_spec (ph : Rat) (h0 : 0 ≤ ph) (h1 : ph < 1) :
    sawWave (ratArith sinO) ph = 1 - 2 * ph ∧ -1 < sawWave (ratArith sinO) ph ∧ sawWave (ratArith sinO) ph ≤ 1 := by
  rw [sawWave_eq]; exact ⟨rfl, by linarith, by linarith⟩

/-- (exact) *"square = +1 on the first half-cycle and −1 on the second"* -/
theorem square_spec (ph : Rat) :
    (ph < 1 / 2 → squareWave (ratArith sinO) ph = 1) ∧ (1 / 2 ≤ ph → squareWave (ratArith sinO) ph = -1) := by
  rw [squareWave_eq]
  exact ⟨fun h => if_pos h, fun h => if_neg (not_lt.mpr h)⟩

/-- (exact, sine oracle) *"sine = sin(2·pi·phase)"* — with the f64 constant `PI * 2.0` — and within [−1, 1]
    **assuming** `|sinO| ≤ 1` (libm's `sin` is an opaque parameter of the model) -/
theorem sine_spec (hsin : ∀ x, |sinO x| ≤ 1) (ph : Rat) :
    sineWave (ratArith sinO) ph = sinO ((884279719003555 / 140737488355328 : Rat) * ph) ∧
    -1 ≤ sineWave (ratArith sinO) ph ∧ sineWave (ratArith sinO) ph ≤ 1 := by
  have := abs_le.mp (hsin ((884279719003555 / 140737488355328 : Rat) * ph))
  exact ⟨rfl, this.1, this.2⟩

/-- (exact) **every frame of a sine / saw / square run of any length** is the waveform of a phase in [0,1), hence
    within [−1, 1] (sine: under the oracle hypothesis), for every rate > 0 and non-negative frequency sequence. -/
theorem oscillators_in_range (hsin : ∀ x, |sinO x| ≤ 1) (src : StepSrc Rat) (hs : SrcOK src) (n : Nat) :
    (∀ y ∈ (run (sineNext (ratArith sinO)) n (phase (ratArith sinO) src)).1, -1 ≤ y ∧ y ≤ 1) ∧
    (∀ y ∈ (run (sawNext (ratArith sinO)) n (phase (ratArith sinO) src)).1, -1 < y ∧ y ≤ 1) ∧
    (∀ y ∈ (run (squareNext (ratArith sinO)) n (phase (ratArith sinO) src)).1, y = 1 ∨ y = -1) := by
  have inv := phase_inv sinO one_pos hs
  refine ⟨fun y hy => ?_, fun y hy => ?_, fun y hy => ?_⟩
  · rw [sineNext_eq] at hy
    obtain ⟨q, _, _, e⟩ := (run_oscStep sinO one_pos _ n _ inv).1 y hy
    exact e ▸ (sine_spec sinO hsin q).2
  · rw [sawNext_eq] at hy
    obtain ⟨q, h0, h1, e⟩ := (run_oscStep sinO one_pos _ n _ inv).1 y hy
    exact e ▸ (saw_spec sinO q h0 h1).2
  · rw [squareNext_eq] at hy
    obtain ⟨q, _, _, e⟩ := (run_oscStep sinO one_pos _ n _ inv).1 y hy
    rw [e]
    rcases lt_or_ge q (1 / 2) with h | h
    · exact Or.inl ((square_spec sinO q).1 h)
    · exact Or.inr ((square_spec sinO q).2 h)

/-- (exact) the waveform/phase relation along a whole run: frame `k` of sine / saw / square is the waveform of
    `frac (Σ_{i<k} step_i)` -/
theorem oscillators_closed_form (src : StepSrc Rat) (hs : SrcOK src) (n : Nat) :
    (run (sineNext (ratArith sinO)) n (phase (ratArith sinO) src)).1 =
      (List.range n).map (fun k => sinO ((884279719003555 / 140737488355328 : Rat) * Int.fract (stepSum src k))) ∧
    (run (sawNext (ratArith sinO)) n (phase (ratArith sinO) src)).1 =
      (List.range n).map (fun k => 1 - 2 * Int.fract (stepSum src k)) ∧
    (run (squareNext (ratArith sinO)) n (phase (ratArith sinO) src)).1 =
      (List.range n).map (fun k => if Int.fract (stepSum src k) < 1 / 2 then 1 else -1) := by
  have h0 : (0 : Rat) ≤ (phase (ratArith sinO) src).next := by show (0 : Rat) ≤ ((0 : Nat) : Rat); simp
  have h1 : (phase (ratArith sinO) src).next < 1 := by show ((0 : Nat) : Rat) < 1; simp
  have z : ∀ k, (phase (ratArith sinO) src).next + stepSum (phase (ratArith sinO) src).src k = stepSum src k := by
    intro k; show ((0 : Nat) : Rat) + stepSum src k = _; simp
  refine ⟨?_, ?_, ?_⟩
  · rw [sineNext_eq, run_oscStep_closed sinO _ n _ h0 h1 hs]
    apply List.map_congr_left; intro k _; rw [z]; rfl
  · rw [sawNext_eq, run_oscStep_closed sinO _ n _ h0 h1 hs]
    apply List.map_congr_left; intro k _; rw [z, sawWave_eq]
  · rw [squareNext_eq, run_oscStep_closed sinO _ n _ h0 h1 hs]
    apply List.map_congr_left; intro k _; rw [z, squareWave_eq]

/-! ### one frequency frame per output frame -/

/-- (any arithmetic — native f64 included) *"a variable-frequency oscillator consumes exactly one frequency frame
    per output frame"*: after `n` frames of phase / sine / saw / square / simplex noise driven by `rate.hz(signal)`,
    the frequency signal has been pulled exactly `n` times and exactly its first `n` frames are gone. -/
theorem one_frequency_frame_per_output {α : Type} (A : Arith α) (rate : α) (fs : List α) (n : Nat) :
    ∀ f ∈ [nextPhase A, sineNext A, sawNext A, squareNext A, simplexNext A],
      (run f n (phase A (varHz rate fs))).1.length = n ∧
      (run f n (phase A (varHz rate fs))).2.src.pulled = n ∧
      (run f n (phase A (varHz rate fs))).2.src.remaining = fs.drop n := by
  intro f hf
  have h1 : OneStep A f := by
    simp only [List.mem_cons, List.mem_nil_iff, or_false] at hf
    rcases hf with rfl | rfl | rfl | rfl | rfl
    exacts [oneStep_phase A, oneStep_sine A, oneStep_saw A, oneStep_square A, oneStep_simplex A]
  obtain ⟨a, _, c, d⟩ := run_pulls A f h1 n (phase A (varHz rate fs)) trivial
  refine ⟨a, ?_, d⟩
  rw [c]; show 0 + n = n; omega

/-! ### noise -/

/-- (any arithmetic) the integer hash is a 31-bit value: `… & 0x7fffffff` -/
theorem noise_hash_31_bits (seed : Nat) : noiseHash seed < 2 ^ 31 := noiseHash_lt seed

/-- (exact) noise output is `1 − m / 2^30` with `0 ≤ m < 2^31`, hence in (−1, 1], **for every seed** -/
theorem noise_in_range (seed : Nat) :
    noise1 (ratArith sinO) seed = 1 - (noiseHash seed : Rat) / 2 ^ 30 ∧
    -1 < noise1 (ratArith sinO) seed ∧ noise1 (ratArith sinO) seed ≤ 1 := by
  refine ⟨?_, noise1_range sinO seed⟩
  rw [noise1_eq]; norm_num

/-- (any arithmetic — native f64 included) *"Noise output is a pure function of the seed and the frame index"*:
    frame `i` of `signal::noise(seed)` is `noise_1((seed + i) mod 2^64)` — the seed increment wraps, it never
    traps — for runs of any length, every u64 seed. -/
theorem noise_pure (A : Arith α) (seed n : Nat) :
    (run (noiseNext A) n (noise seed)).1 = (List.range n).map (fun i => noise1 A ((seed % M64 + i) % M64)) :=
  (run_noise A n (seed % M64) (Nat.mod_lt _ (by unfold M64; omega))).1

/-- (any arithmetic) *"(clones and restarts reproduce it)"*: the generator's whole state after `k` frames is the
    value `noise (seed + k)`, so a clone taken there — or a fresh `noise(seed + k)` — yields exactly the remaining
    frames, and a fresh `noise(seed)` yields the same sequence again (the model is a function of `seed` alone). -/
theorem noise_restart (A : Arith α) (seed k m : Nat) :
    (run (noiseNext A) k (noise seed)).2 = noise (seed + k) ∧
    (run (noiseNext A) (k + m) (noise seed)).1 =
      (run (noiseNext A) k (noise seed)).1 ++ (run (noiseNext A) m (noise (seed + k))).1 := by
  have hlt : seed % M64 < M64 := Nat.mod_lt _ (by unfold M64; omega)
  have hst : (run (noiseNext A) k (noise seed)).2 = noise (seed + k) := by
    rw [show noise seed = ⟨seed % M64⟩ from rfl, (run_noise A k _ hlt).2]
    have e : (seed % M64 + k) % M64 = (seed + k) % M64 := by unfold M64; omega
    rw [e]; rfl
  refine ⟨hst, ?_⟩
  rw [noise_pure, noise_pure, noise_pure, List.range_add, List.map_append, List.map_map]
  have e : ∀ i, ((seed + k) % M64 + i) % M64 = (seed % M64 + (k + i)) % M64 := by intro i; unfold M64; omega
  simp only [e]
  rfl

/-! ### simplex noise -/

/-- (generated data) the PERM table read from the source has 256 entries, all bytes; the gradient of any hash
    is one of ±1 … ±8 -/
theorem perm_table_ok : Osc.perm.length = 256 ∧ (∀ v ∈ Osc.perm, v < 256) ∧ ∀ i, permHash i < 256 :=
  ⟨perm_length, perm_lt, permHash_lt⟩

/-- (exact) `|simplex_noise_1d(x)| ≤ 0.99984375 < 1` for every x in [0, 2^16) — via the polynomial bound
    `Dasp.Simplex.simplex_bound` (Lemmas/Simplex.lean), the model's corner polynomial and `|grad| ≤ 8`. -/
theorem simplex_value_bound (x : Rat) (h0 : 0 ≤ x) (h1 : x < 65536) :
    |simplexNoise1d (ratArith sinO) x| ≤ 99984375 / 100000000 ∧ (99984375 / 100000000 : Rat) < 1 :=
  ⟨simplexNoise1d_bound sinO h0 h1, by norm_num⟩

/-- (exact) **every frame of a simplex-noise run of any length** is within [−0.99984375, 0.99984375] ⊂ [−1, 1]:
    the phase handed to `simplex_noise_1d` is wrapped at 2^16, for every rate > 0 and non-negative frequencies.
    `simplex_in_range_partial`: exact arithmetic for whole runs; the f64 slack is the subject of
    `simplex_value_bound_rounded` below (per value, for every phase in [0, 2^16), which is where
    `fp_nextPhaseWrappedTo_inv` keeps the f64 phase). -/
theorem simplex_in_range_partial (src : StepSrc Rat) (hs : SrcOK src) (n : Nat) :
    ∀ y ∈ (run (simplexNext (ratArith sinO)) n (phase (ratArith sinO) src)).1, -1 < y ∧ y < 1 := by
  intro y hy
  rw [simplexNext_eq] at hy
  obtain ⟨q, h0, h1, e⟩ := (run_oscStep sinO (by norm_num : (0 : Rat) < 65536) _ n _
    (phase_inv sinO (by norm_num) hs)).1 y hy
  have := abs_le.mp (simplexNoise1d_bound sinO h0 h1)
  rw [e]; constructor <;> linarith [this.1, this.2]

/-- (rounded arithmetic) **the float value of `simplex_noise_1d` lies in [−1, 1]**: in the arithmetic in which every
    `+ − ×` and the literal `0.395` are followed by one rounding that moves values of magnitude ≤ 32 by at most `e`
    (`AbsRnd`; small integers exact), the SAME `simplexNoise1d` differs from its exact value by at most `531·e`
    (`simplex_rounded_close`: the error is propagated through all 17 operations), hence stays within [−1, 1] as soon
    as `531·e ≤ 1.5625·10^−4` — for binary64, `e = 33·2^−53` (`softfloat_absrnd`), a margin of ten orders of magnitude -/
theorem simplex_value_bound_rounded {rnd : Rat → Rat} {e : Rat} (ok : AbsRnd rnd e)
    (hint : ∀ n : Nat, n ≤ 8 → rnd (n : Rat) = (n : Rat)) (he : 531 * e ≤ 15625 / 100000000)
    (x : Rat) (h0 : 0 ≤ x) (h1 : x < 65536) :
    |simplexNoise1d (rndRatArith rnd sinO) x| ≤ 1 := by
  have hc := simplex_rounded_close sinO ok hint h0 h1
  have hb := simplexNoise1d_bound sinO h0 h1
  have h1' := abs_le.mp hc; have h2' := abs_le.mp hb
  rw [abs_le]; constructor <;> linarith

/-- the rounding of the executable binary64 soft-float satisfies the hypotheses of `simplex_value_bound_rounded`:
    one rounding moves a value of magnitude ≤ 32 by at most `33·2^−53`, and the integers 0..8 are exact -/
theorem softfloat_absrnd :
    AbsRnd (rs Dasp.f64) (33 * Dasp.pow2 (-53)) ∧ (∀ n : Nat, n ≤ 8 → rs Dasp.f64 (n : Rat) = (n : Rat)) ∧
    531 * (33 * Dasp.pow2 (-53)) ≤ (15625 / 100000000 : Rat) := by
  have hp53 : Dasp.pow2 (-53) = 1 / 9007199254740992 := by simp [Dasp.pow2]
  have hη : Dasp.pow2 (Dasp.f64.emin - 1) ≤ Dasp.pow2 (-53) := Dasp.pow2_mono (by decide)
  refine ⟨⟨by norm_num [hp53], by norm_num [hp53], ?_⟩, ?_, by norm_num [hp53]⟩
  · intro y hy
    have := Dasp.rs_err Dasp.f64 y
    have hu : Dasp.pow2 (-((Dasp.f64.prec : Nat) : Int)) = Dasp.pow2 (-53) := rfl
    rw [hu] at this
    have h32 : Dasp.pow2 (-53) * |y| ≤ Dasp.pow2 (-53) * 32 := mul_le_mul_of_nonneg_left hy (le_of_lt (Dasp.pow2_pos _))
    linarith
  · intro n hn
    rcases Nat.eq_zero_or_pos n with h | h
    · subst h; simp [Dasp.rs]
    · have hr := round_nat false n h (le_trans hn (by norm_num))
      have := Dasp.round_toRat_eq_rs Dasp.f64 false (n : Rat) (n : Rat) (by rw [hr]; simp [Dasp.FP.toRat?])
      exact this.symm

/-! ### what the f64 code computes (soft-float instance, validated bit-for-bit by the `fp` stream) -/

section fp
variable (sinF : FP → FP)

/-- (f64) **float phase invariant, runs of any length**: if every quotient `hz / rate` the step source computes is a
    finite non-negative f64 (`FpSrcOK`: sign +, value ≤ 2^1023 − 2^52 — i.e. anything but the known finding
    `C17-step-overflow` and the very top binade), every phase the f64 code yields is finite and in [0, 1): the
    rounded sum `phase + step` cannot overflow and `% 1.0` is exact. -/
theorem fp_phase_in_unit_interval (src : StepSrc FP) (hs : FpSrcOK (fpArith sinF) src) (k : Nat) :
    ∀ y ∈ (run (nextPhase (fpArith sinF)) k (phase (fpArith sinF) src)).1,
      ∃ (n : Bool) (a : Rat), y = .fin n a ∧ 0 ≤ a ∧ a < 1 ∧ (a = 0 ∨ n = false) := by
  intro y hy
  obtain ⟨n, a, h0, h1, hz, e⟩ := (fp_run_oscStep sinF Osc.phaseWrap (by decide) (by decide) id k _
    (fp_phase_inv sinF Osc.phaseWrap (by decide) hs)).1 y hy
  exact ⟨n, a, e, h0, by simpa [Osc.phaseWrap] using h1, hz⟩

/-- (f64) the wrap in isolation: `(phase + step) % w` is finite in [0, w), or NaN exactly when the rounded sum is +inf -/
theorem fp_wrap (a b : Rat) (ha : 0 ≤ a) (hb : 0 ≤ b) (w : Nat) (hw : 0 < w) (hw2 : w ≤ 2 ^ 52) :
    (∃ n q, (fpArith sinF).rem ((fpArith sinF).add (.fin false a) (.fin false b)) ((fpArith sinF).ofNat w) = .fin n q ∧
        0 ≤ q ∧ q < w) ∨
    ((fpArith sinF).add (.fin false a) (.fin false b) = .inf false ∧
      (fpArith sinF).rem ((fpArith sinF).add (.fin false a) (.fin false b)) ((fpArith sinF).ofNat w) = .nan) := by
  rcases fp_wrap_range sinF a b false false ha hb (Or.inr rfl) (Or.inr rfl) w hw hw2 with ⟨n, q, e, q0, q1, _⟩ | h
  · exact Or.inl ⟨n, q, e, q0, q1⟩
  · exact Or.inr h

/-- (f64) **every frame of a float saw / square run of any length** is finite and within [−1, 1] (square: exactly ±1),
    under the same finiteness hypothesis on hz/rate.  (Rounding: `1 − 2·phase` is NOT always exact in f64 — e.g.
    phase = 2^-60 — but rounding is monotone and ±1 are representable.) -/
theorem fp_saw_square_in_range (src : StepSrc FP) (hs : FpSrcOK (fpArith sinF) src) (k : Nat) :
    (∀ y ∈ (run (sawNext (fpArith sinF)) k (phase (fpArith sinF) src)).1, ∃ m q, y = .fin m q ∧ 0 ≤ q ∧ q ≤ 1) ∧
    (∀ y ∈ (run (squareNext (fpArith sinF)) k (phase (fpArith sinF) src)).1, y = .fin false 1 ∨ y = .fin true 1) := by
  have inv := fp_phase_inv sinF Osc.phaseWrap (by decide) hs
  constructor
  · intro y hy
    obtain ⟨n, a, h0, h1, hz, e⟩ := (fp_run_oscStep sinF Osc.phaseWrap (by decide) (by decide) (sawWave (fpArith sinF)) k _ inv).1 y hy
    rw [e]
    exact fp_saw_range sinF n a h0 (by simpa [Osc.phaseWrap] using h1) hz
  · intro y hy
    obtain ⟨n, a, _, _, _, e⟩ := (fp_run_oscStep sinF Osc.phaseWrap (by decide) (by decide) (squareWave (fpArith sinF)) k _ inv).1 y hy
    rw [e]
    exact fp_square_values sinF _

/-- non-vacuity (f64): a constant step of 1/4 (e.g. rate 4, hz 1: `div` is exact) satisfies the hypothesis -/
example : FpSrcOK (fpArith sinF) (.const (.fin false (1/4))) := by
  refine ⟨false, 1/4, rfl, by norm_num, Or.inr rfl, ?_⟩
  have h1 : pow2 1023 = 2 * pow2 1022 := by rw [show (1023 : Int) = 1022 + 1 from rfl, pow2_succ]
  have h2 : pow2 52 ≤ pow2 1022 := pow2_mono (by decide)
  have h3 : (1 : Rat) ≤ pow2 52 := by rw [← pow2_zero]; exact pow2_mono (by decide)
  linarith [pow2_pos 1022]

end fp

/-! ### non-vacuity: the hypotheses are satisfiable on non-trivial states and the statements have content -/

/-- a constant 440 Hz at 44.1 kHz and a three-frame frequency list with a frequency above the rate are in domain -/
example : SrcOK (constHz (ratArith sinO) 44100 440) ∧ SrcOK (varHz 4 [1, 6, 0]) :=
  ⟨constHz_ok sinO (by norm_num) (by norm_num), varHz_ok (by norm_num) (by intro f hf; simp at hf; rcases hf with rfl | rfl | rfl <;> norm_num)⟩

/-- rate 4, hz 1 (the doc example): phases 0, 1/4, 1/2, 3/4, 0 — the wrap is exercised -/
example : (run (nextPhase (ratArith sinO)) 5 (phase (ratArith sinO) (constHz (ratArith sinO) 4 1))).1 = [0, 1/4, 1/2, 3/4, 0] := by
  rw [phase_closed_form sinO _ (constHz_ok sinO (by norm_num) (by norm_num))]
  simp only [stepSum_const, List.range, List.range.loop, List.map]
  have e : ∀ q : Rat, ∀ z : Int, (z : Rat) ≤ q → q < z + 1 → Int.fract q = q - z := by
    intro q z a b; rw [Int.fract, Int.floor_eq_iff.mpr ⟨a, b⟩]
  rw [e (((0 : Nat) : Rat) * (1 / 4)) 0 (by norm_num) (by norm_num), e (((1 : Nat) : Rat) * (1 / 4)) 0 (by norm_num) (by norm_num),
    e (((2 : Nat) : Rat) * (1 / 4)) 0 (by norm_num) (by norm_num), e (((3 : Nat) : Rat) * (1 / 4)) 0 (by norm_num) (by norm_num),
    e (((4 : Nat) : Rat) * (1 / 4)) 1 (by norm_num) (by norm_num)]
  norm_num

/-- saw and square take both signs / both values: saw(1/4) = 1/2, saw(3/4) = −1/2, square(1/4) = 1, square(1/2) = −1 -/
example : sawWave (ratArith sinO) (1/4) = 1/2 ∧ sawWave (ratArith sinO) (3/4) = -1/2 ∧
    squareWave (ratArith sinO) (1/4) = 1 ∧ squareWave (ratArith sinO) (1/2) = -1 := by
  refine ⟨by rw [sawWave_eq]; norm_num, by rw [sawWave_eq]; norm_num, ?_, ?_⟩
  · exact (square_spec sinO (1/4)).1 (by norm_num)
  · exact (square_spec sinO (1/2)).2 (by norm_num)

/-- the sine hypothesis is satisfiable (e.g. by the zero function, or any bounded oracle) -/
example : ∃ s : Rat → Rat, (∀ x, |s x| ≤ 1) ∧ s 1 ≠ 0 := ⟨fun _ => 1, fun _ => by norm_num, by norm_num⟩

/-- the noise hash is not constant and the seed wraps: hash(0) = 1376312589 & 0x7fffffff, and the frame after seed
    2^64 − 1 is the frame of seed 0 -/
example : noiseHash 0 = 1376312589 ∧ noiseHash 1 ≠ noiseHash 0 ∧
    (run (noiseNext (ratArith sinO)) 2 (noise (M64 - 1))).1 = [noise1 (ratArith sinO) (M64 - 1), noise1 (ratArith sinO) 0] := by
  refine ⟨by decide, by decide, ?_⟩
  rw [noise_pure]; rfl

/-- the simplex bound is attained: at x = 156.5 the two corner gradients are −8 and +8
    (PERM[156] = 223, PERM[157] = 183) and the value is exactly −0.99984375 -/
example : simplexNoise1d (ratArith sinO) (313/2) = -(99984375 / 100000000) := by
  have hf : (ratArith sinO).toI64 ((ratArith sinO).floor (313/2)) = 156 := by
    rw [toI64_floor sinO (by norm_num) (by norm_num)]
    exact Int.floor_eq_iff.mpr ⟨by norm_num, by norm_num⟩
  unfold simplexNoise1d
  simp only [hf]
  have p0 : permHash 156 = 223 := by decide
  have p1 : permHash (156 + 1) = 183 := by decide
  have a0 : (223 &&& 15 &&& 7 : Nat) = 7 := by decide
  have a1 : (223 &&& 15 &&& 8 : Nat) = 8 := by decide
  have b0 : (183 &&& 15 &&& 7 : Nat) = 7 := by decide
  have b1 : (183 &&& 15 &&& 8 : Nat) = 0 := by decide
  rw [p0, p1]
  norm_num [grad, ratArith, Osc.gradMask, Osc.gradMag, Osc.gradSign, Osc.scaleNum, Osc.scaleExp, a0, a1, b0, b1]

end Dasp.Props.C17
