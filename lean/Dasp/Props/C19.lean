import Dasp.Lemmas.Envelope
import Dasp.Lemmas.EnvRounding
import Mathlib.Analysis.Complex.Exponential
import Mathlib.Tactic.NormNum
/-!
# C19 — Rectifiers and envelope follower: |x| and one-pole smoothing without overshoot

Property text (properties.jsonl, C19): *For every frame format and every sample whose negated
amplitude is representable, full-wave rectification yields the absolute signed amplitude about
equilibrium, and positive / negative half-wave rectification yield the sample limited to the upper
/ lower side of equilibrium, per channel. For any input history and any attack and release times
>= 0, each envelope output equals the detected value plus gain x (previous envelope - detected
value), with gain exp(-1/frames) (0 for zero frames) chosen as attack when the detected value
exceeds the previous envelope and release otherwise; hence it always lies between the previous
envelope and the detected value, equals the detected value when the time is 0, and converges
monotonically for constant input. Changing attack or release mid-stream affects only subsequent
frames.*

`Dasp.Peak` / `Dasp.Envelope` (Model/Peak.lean, Model/Envelope.lean) transcribe `dasp_peak/src/lib.rs`
and `dasp_envelope/src/detect/mod.rs` once, generically over the arithmetic class `Dasp.Arith`;
`driver_c19` runs them at the machine's binary32 / binary64 (gains in binary32, `powf` = the same
libm) against the compiled crates on every run; the theorems are about the same definitions at an
arbitrary linearly ordered field `K` (exact arithmetic, `gain.to_sample()` the identity) and, for the
integer rectifiers, over `Int`.  `exp` enters only through its range (`calcGain_in_unit_interval`),
instantiated at `Real.exp` in `real_gain`.  "Between" is proved twice: in exact arithmetic
(`env_step_between`) and in ROUNDED arithmetic (section 2b: every operation followed by a monotone,
idempotent, zero-fixing rounding — proved of the soft-float's rounding for every format): the float
envelope never passes the detected value and never passes `fl(d + fl(l − d))`, which is the previous
envelope up to the two roundings in it (`overshoot_bound`).  On the machine floats the same is
checked by the harness on every output (exactly for every gain < 1 − 2^−20, with a labelled
one-ulp tolerance above — the `e*` of the theorem).
-/
set_option linter.unusedSectionVars false
set_option linter.dupNamespace false

namespace Dasp.Props.C19
open Dasp Dasp.Exact Dasp.Peak Dasp.Envelope

variable {K : Type} [Field K] [LinearOrder K] [IsStrictOrderedRing K]

/-! ## 1. Rectifiers -/

/-- *"every sample whose negated amplitude is representable, full-wave rectification yields the
    absolute signed amplitude about equilibrium"*, integer formats (u8, i8, i16, u16 instances of
    `IFmt`; any width): with or without overflow checks, if the signed amplitude `s − EQUILIBRIUM`
    is not `MIN` of the signed format the result is `|s − EQUILIBRIUM|` (and no panic). -/
theorem full_wave_int (f : IFmt) (checked : Bool) (s : Int) (h : s - f.eq ≠ f.smin) :
    fullWaveI f checked s = some |s - f.eq| := fullWaveI_abs f checked s h

/-- *"positive / negative half-wave rectification yield the sample limited to the upper / lower side
    of equilibrium"*, integer formats, compared in the native format (unsigned included) -/
theorem half_waves_int (f : IFmt) (s : Int) :
    positiveHalfWaveI f s = max s f.eq ∧ negativeHalfWaveI f s = min s f.eq :=
  ⟨positiveHalfWaveI_max f s, negativeHalfWaveI_min f s⟩

/-- float formats (every value has a negation): `|s|`, `max s 0`, `min s 0` -/
theorem rectifiers_float (s : K) :
    fullWaveF s = |s| ∧ positiveHalfWaveF s = max s 0 ∧ negativeHalfWaveF s = min s 0 :=
  ⟨fullWaveF_abs s, positiveHalfWaveF_max s, negativeHalfWaveF_min s⟩

/-- *"per channel"*: the rectifiers are `frame.map(closure)`; channel `c` of the result is the
    closure applied to channel `c` of the frame -/
theorem rectifier_per_channel (frame : List K) (c : Nat) (h : c < frame.length) :
    (detectPeak fullWaveF () frame).2[c]? = some |frame[c]| ∧
    (detectPeak positiveHalfWaveF () frame).2[c]? = some (max frame[c] 0) ∧
    (detectPeak negativeHalfWaveF () frame).2[c]? = some (min frame[c] 0) := by
  simp [detectPeak, h, fullWaveF_abs, positiveHalfWaveF_max, negativeHalfWaveF_min]

/-! ## 2. One envelope step -/

/-- *"each envelope output equals the detected value plus gain x (previous envelope - detected
    value), with gain … chosen as attack when the detected value exceeds the previous envelope and
    release otherwise"* -/
theorem env_step_formula (attack release l d : K) :
    envSample id attack release l d = d + (if l < d then attack else release) * (l - d) :=
  envSample_eq attack release l d

/-- *"hence it always lies between the previous envelope and the detected value"* (gains in [0,1]) -/
theorem env_step_between (attack release l d : K) (ha : 0 ≤ attack ∧ attack ≤ 1) (hr : 0 ≤ release ∧ release ≤ 1) :
    min l d ≤ envSample id attack release l d ∧ envSample id attack release l d ≤ max l d := by
  rw [envSample_eq]
  unfold gainOf
  split
  · exact between_of_gain attack l d ha.1 ha.2
  · exact between_of_gain release l d hr.1 hr.2

/-- *"equals the detected value when the time is 0"*: `calc_gain(0) = 0`, and with gain 0 the output
    is the detected value -/
theorem env_step_zero_time (expO : K → K) (other l d : K) :
    calcGain expO (0 : K) = 0 ∧
    (l < d → envSample id (calcGain expO 0) other l d = d) ∧
    (¬ l < d → envSample id other (calcGain expO 0) l d = d) := by
  have h0 : calcGain expO (0 : K) = 0 := by simp [calcGain, Arith.beq, Arith.zero]
  refine ⟨h0, fun h => ?_, fun h => ?_⟩ <;> rw [envSample_eq, h0] <;> simp [gainOf, h]


/-! ## 2b. The envelope step in rounded (floating-point) arithmetic -/

open Dasp.Envelope.Rounding Dasp.Rms.Rounding in
/-- *"hence it always lies between the previous envelope and the detected value"*, in floating
    point: for ANY rounding that is monotone, idempotent and fixes 0 (IEEE round-to-nearest-even is;
    `softfloat_env_rounding`), a representable detected value `d`, any previous envelope `l` and gains
    in `[0, 1]`, the computed envelope `fl(d + fl(fl(l − d)·g))` lies between `d` and
    `e* = fl(d + fl(l − d))` — it NEVER passes the detected value, and on the side of the previous
    envelope it is bounded by the float recomputation of `l` from `d` and the rounded difference -/
theorem env_step_between_rounded {rnd : K → K} (ok : RndMono rnd) (attack release l d : K) (hd : rnd d = d)
    (ha : 0 ≤ attack ∧ attack ≤ 1) (hr : 0 ≤ release ∧ release ≤ 1) :
    (d ≤ l → d ≤ envR rnd attack release l d ∧ envR rnd attack release l d ≤ eStar rnd l d) ∧
    (l ≤ d → eStar rnd l d ≤ envR rnd attack release l d ∧ envR rnd attack release l d ≤ d) :=
  envR_between ok attack release l d hd ha hr

open Dasp.Envelope.Rounding Dasp.Rms.Rounding in
/-- `e*` is the previous envelope up to the two roundings in it: with relative error `u` and absolute
    (underflow) error `η` per rounding, `|e* − l| ≤ (1+u)(u·|l − d| + η) + u·|l| + η` — one ulp of the
    larger of the two -/
theorem env_overshoot_bound {rnd : K → K} {u η : K} (ok : RndOK rnd u η) (l d : K) :
    |eStar rnd l d - l| ≤ (1 + u) * (u * |l - d| + η) + u * |l| + η :=
  overshoot_bound ok l d

open Dasp.Envelope.Rounding in
/-- *"equals the detected value when the time is 0"* — exactly, in floating point too: with gain 0
    the computed envelope is the (representable) detected value itself -/
theorem env_step_zero_time_rounded {rnd : K → K} (ok : RndMono rnd) (l d other : K) (hd : rnd d = d) :
    (l < d → envR rnd 0 other l d = d) ∧ (¬ l < d → envR rnd other 0 l d = d) :=
  envR_zero_gain ok l d hd other

/-- the hypotheses are what IEEE rounding provides: the rounding of the executable soft-float is
    monotone, fixes 0 and is idempotent, for every format with at least one significand bit -/
theorem softfloat_env_rounding (F : Fmt2) (hp : 1 ≤ F.prec) : Dasp.Envelope.Rounding.RndMono (rs F) :=
  softfloat_rounding_mono F hp

/-- *"gain exp(-1/frames) (0 for zero frames)"* lies in `[0, 1)` for every time `≥ 0`, assuming of
    the exponential only `0 ≤ exp y < 1` for `y < 0` -/
theorem calcGain_in_unit_interval (expO : K → K) (h : ∀ y, y < 0 → 0 ≤ expO y ∧ expO y < 1) (frames : K)
    (hn : 0 ≤ frames) : 0 ≤ calcGain expO frames ∧ calcGain expO frames < 1 :=
  calcGain_range expO h frames hn

/-- with the real exponential: the gain is `exp(−1/frames)` for `frames > 0`, `0` for `0`, and the
    range assumption holds -/
theorem real_gain (frames : ℝ) :
    (0 < frames → calcGain Real.exp frames = Real.exp (-1 / frames)) ∧ calcGain Real.exp (0 : ℝ) = 0 ∧
    (∀ y : ℝ, y < 0 → 0 ≤ Real.exp y ∧ Real.exp y < 1) := by
  refine ⟨fun h => ?_, ?_, fun y hy => ⟨le_of_lt (Real.exp_pos y), Real.exp_lt_one_iff.mpr hy⟩⟩
  · simp [calcGain, Arith.beq, Arith.zero, Arith.div, Arith.neg, Arith.one, ne_of_gt h]
  · simp [calcGain, Arith.beq, Arith.zero]

/-! ## 3. Constant input: geometric, monotone convergence -/

/-- *"converges monotonically for constant input"*: while the detected value stays `d`, after `k`
    frames `env_k − d = g^k · (env_0 − d)` with `g` the gain selected at the first frame (attack if
    `env_0 < d`, release otherwise) — the envelope never crosses `d`, so the selection never flips -/
theorem constant_input_geometric (attack release d l0 : K) (ha : 0 ≤ attack) (hr : 0 ≤ release) (k : Nat) :
    iter attack release d k l0 - d = (if l0 < d then attack else release) ^ k * (l0 - d) :=
  iter_sub attack release d l0 ha hr k

/-- `|env_k − d| = g^k · |env_0 − d|`, and the distance never grows when the gains are ≤ 1 -/
theorem constant_input_monotone (attack release d l0 : K) (ha : 0 ≤ attack ∧ attack ≤ 1)
    (hr : 0 ≤ release ∧ release ≤ 1) (k : Nat) :
    |iter attack release d k l0 - d| = (if l0 < d then attack else release) ^ k * |l0 - d| ∧
    |iter attack release d (k + 1) l0 - d| ≤ |iter attack release d k l0 - d| := by
  have hg0 : 0 ≤ (if l0 < d then attack else release) := by split <;> [exact ha.1; exact hr.1]
  have hg1 : (if l0 < d then attack else release) ≤ 1 := by split <;> [exact ha.2; exact hr.2]
  have e := fun j => iter_sub attack release d l0 ha.1 hr.1 j
  unfold gainOf at e
  constructor
  · rw [e k, abs_mul, abs_of_nonneg (pow_nonneg hg0 k)]
  · rw [e k, e (k + 1), abs_mul, abs_mul, abs_of_nonneg (pow_nonneg hg0 _), abs_of_nonneg (pow_nonneg hg0 _), pow_succ]
    have : 0 ≤ (if l0 < d then attack else release) ^ k * |l0 - d| := mul_nonneg (pow_nonneg hg0 k) (abs_nonneg _)
    nlinarith

/-! ## 4. The detector over frames, histories, mid-stream changes -/

variable {δ φ : Type}

/-- `Detector::next` on frames, whatever the detector (`Peak` with any rectifier, `Rms`): per channel
    the formula above, from the previous output frame; the new state is the output frame; the gains
    are untouched -/
theorem detector_next (detect : δ → φ → δ × List K) (D : Detector K K δ) (f : φ) :
    (D.next id detect f).2 =
      List.zipWith (fun l d => d + (if l < d then D.attackGain else D.releaseGain) * (l - d)) D.lastEnv (detect D.det f).2 ∧
    (D.next id detect f).1.lastEnv = (D.next id detect f).2 ∧
    (D.next id detect f).1.attackGain = D.attackGain ∧ (D.next id detect f).1.releaseGain = D.releaseGain :=
  let h := Detector.next_out detect D f
  ⟨h.1, h.2.1, h.2.2.1, h.2.2.2.1⟩

/-- *"Changing attack or release mid-stream affects only subsequent frames"* (any arithmetic, floats
    included): (a) the outputs of a history are the same whatever operations follow it — in
    particular a later `set_attack_frames` / `set_release_frames`; (b) the setters change nothing but
    their own gain: the envelope state and the detector are untouched. -/
theorem later_changes_do_not_affect_earlier_outputs {γ α : Type} [Arith γ] [Arith α] (expO : γ → γ) (ofGain : γ → α)
    (detect : δ → φ → δ × List α) (D : Detector γ α δ) (before after : List (Op γ φ)) :
    ((D.run expO ofGain detect (before ++ after)).2).take before.length = (D.run expO ofGain detect before).2 := by
  rw [Detector.run_append, List.take_left' (Detector.run_length expO ofGain detect before D)]

theorem setters_touch_only_their_gain {γ α : Type} [Arith γ] [Arith α] (expO : γ → γ) (D : Detector γ α δ) (x : γ) :
    (D.setAttack expO x).lastEnv = D.lastEnv ∧ (D.setAttack expO x).releaseGain = D.releaseGain ∧
    (D.setAttack expO x).attackGain = calcGain expO x ∧
    (D.setRelease expO x).lastEnv = D.lastEnv ∧ (D.setRelease expO x).attackGain = D.attackGain ∧
    (D.setRelease expO x).releaseGain = calcGain expO x := by
  simp [Detector.setAttack, Detector.setRelease]

/-- the RMS detector plugs `Rms::next` (C11) in as the detected value -/
theorem rms_detector_uses_rms_next (sqrt : K → K) (D : Detector K K (Rms.Rms K)) (f : List K) :
    (D.next id (detectRms sqrt) f).2 =
      List.zipWith (fun l d => d + (if l < d then D.attackGain else D.releaseGain) * (l - d)) D.lastEnv (D.det.next sqrt f).2 :=
  (detector_next (detectRms sqrt) D f).1

/-! ## Non-vacuity -/

/-- u8 sample 3 (amplitude −125): full wave 125; 0 (amplitude −128 = MIN of i8) is excluded by the hypothesis -/
example : fullWaveI .u8 true 3 = some 125 := by decide
example : (3 : Int) - IFmt.u8.eq ≠ IFmt.u8.smin := by decide
example : (0 : Int) - IFmt.u8.eq = IFmt.u8.smin := by decide
example : fullWaveI .u8 true 0 = none ∧ fullWaveI .u8 false 0 = some (-128) := by decide
example : positiveHalfWaveI .u8 100 = 128 ∧ negativeHalfWaveI .u8 100 = 100 ∧ positiveHalfWaveI .i16 (-5) = 0 := by decide

/-- attack 1/2, release 1/4, previous envelope 0, detected 1: rises half way (attack branch) -/
example : envSample id (1/2 : ℚ) (1/4) 0 1 = 1/2 := by
  rw [env_step_formula]; norm_num
/-- falling: previous 1, detected 0: release branch, 1/4 -/
example : envSample id (1/2 : ℚ) (1/4) 1 0 = 1/4 := by
  rw [env_step_formula]; norm_num
/-- constant input 1 from 0 with attack 1/2: after 3 frames 7/8 -/
example : iter (1/2 : ℚ) (1/4) 1 3 0 = 7/8 := by
  have := constant_input_geometric (1/2 : ℚ) (1/4) 1 0 (by norm_num) (by norm_num) 3
  norm_num at this; linarith
/-- the gain hypotheses are satisfiable -/
example : (0 : ℚ) ≤ 1/2 ∧ (1/2 : ℚ) ≤ 1 := by norm_num

/-- the rounded-arithmetic theorem on binary32: previous envelope fl(1/3), detected value 0 (representable),
    release gain 1/4: the computed envelope lies in [0, e*] -/
example :
    0 ≤ Dasp.Envelope.Rounding.envR (rs f32) (1/2) (1/4) (rs f32 (1/3)) 0 ∧
    Dasp.Envelope.Rounding.envR (rs f32) (1/2) (1/4) (rs f32 (1/3)) 0
      ≤ Dasp.Envelope.Rounding.eStar (rs f32) (rs f32 (1/3)) 0 :=
  (env_step_between_rounded (softfloat_env_rounding f32 (by decide)) (1/2) (1/4) (rs f32 (1/3)) 0 (rs_zero f32)
    (by norm_num) (by norm_num)).1 (rs_nonneg f32 (by norm_num))

end Dasp.Props.C19
