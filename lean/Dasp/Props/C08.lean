import Dasp.Lemmas.Converter
import Dasp.Lemmas.EnvRounding
/-! # C08 — Rate converter positions and consumes source frames exactly by the rate ratio

Property text (properties.jsonl, C08): "With playback ratio r_k in effect for output k (constant, or
changed before every frame as mul_hz does), output n is the interpolator evaluated at source position
P_n = r_0 + ... + r_(n-1): the converter has pulled exactly floor(P_n) source frames beyond the
interpolator's priming, never skipping or re-reading one; the floor interpolator yields the source frame
at floor(P_n), and the linear interpolator yields the straight-line blend of the frames at floor(P_n) and
floor(P_n)+1 at fraction P_n - floor(P_n), never outside the interval spanned by those two frames (up to
float rounding), with the source treated as equilibrium beyond its end. A ratio of exactly 1 reproduces
the source unchanged. The converter reports exhaustion exactly when the source is exhausted and producing
the next output would need a further source frame, so for a constant ratio r a finite source yields
ceil((R+1)/r) output frames, or one more, where R is the number of frames the source still held after the
interpolator was primed."

Model: `Dasp/Model/Converter.lean` (`advance`/`next`/`isExhausted`/`mulHzNext`/`run`/`countUntil`
transcribe interpolate.rs:122-143, signal lib.rs:2228-2232, 2334-2339; `floorInterp`, `linearInterp`
transcribe floor.rs / linear.rs), executed by `driver_c08` at native `f64` against the real code.
The theorems below are about the SAME definitions at the exact-arithmetic instance `ratArith`:
`interpolation_value` follows the recurrence of the code over ℚ. For the f64 accumulator of the real code
this is the statement about "P_n" whenever all partial sums are representable (dyadic ratios — there the
harness's integer oracle demands exactly `⌊P_n⌋` pulls); for other ratios the f64 accumulator is the same
recurrence with one rounding per `+=`/`-=`, tied to the code by bit-exact correspondence, not by theorem.

Conventions. The source is `frames` followed by equilibrium `eq` forever; `srcAt eq frames i` is its
`i`-th frame. "Priming" = the `p0` source frames pulled before the converter was constructed
(`Floor::new(source.next())`: `p0 = 1`, `Linear::new(source.next(), source.next())`: `p0 = 2`), `ist0` the
interpolator state built from them. `posAt rs n = rs[0] + … + rs[n-1] = P_n`. `run … rs c` sets ratio
`rs[k]` immediately before output `k` (what `MulHz::next` does; a constant ratio is `List.replicate n r`).
`feed ip ist0 (pulled eq frames p0 m)` is the interpolator after `next_source_frame` has been called with
exactly the source frames number `p0, p0+1, …, p0+m-1`, in that order.

Domain limit (documented, not a theorem): for `interpolation_value ≥ 2^53` the f64 loop of the real code
cannot make progress; the model's fuel reports `diverge` there. Over ℚ the fuel `⌊iv⌋` always suffices
(`diverged = false` below). -/
namespace Dasp.Conv

variable {S I : Type} (sn cs : Rat → Rat) (pi : Rat)

local notation "AR" => ratArith sn cs pi

/-- **Position theorem** ("output n is the interpolator evaluated at source position P_n …: the converter
    has pulled exactly floor(P_n) source frames beyond the interpolator's priming"; "reports exhaustion
    exactly when the source is exhausted and producing the next output would need a further source frame").
    For EVERY interpolator, every source, every priming, every list of ratios `> 0` and every output index
    `n`: output `n` exists and
    * after it the source has been pulled `p0 + ⌊P_n⌋` times in total;
    * its frame is the interpolator — fed with exactly the frames `p0 … p0+⌊P_n⌋-1`, in order — evaluated
      at `interpolation_value = P_n − ⌊P_n⌋`;
    * the advance loop terminated within its fuel;
    * `is_exhausted()` just before it was true iff `n ≥ 1`, the source was exhausted by the pulls made so
      far (`p0 + ⌊P_(n-1)⌋ ≥ length`) and output `n` needs a further frame (`⌊P_(n-1)⌋ < ⌊P_n⌋`). -/
theorem converter_position (ip : Interp Rat S I) (eq : List S) (frames : List (List S)) (p0 : Nat) (ist0 : I)
    (ratio0 : Rat) (rs : List Rat) (hrs : ∀ r ∈ rs, 0 < r) (n : Nat) (hn : n < rs.length) :
    ∃ o, (run AR ip eq rs ⟨⟨frames, p0⟩, ist0, 0, ratio0⟩).1[n]? = some o ∧
      o.pulls = p0 + ⌊posAt rs n⌋.toNat ∧
      o.frame = ip.eval (feed ip ist0 (pulled eq frames p0 ⌊posAt rs n⌋.toNat)) (posAt rs n - ⌊posAt rs n⌋) ∧
      o.diverged = false ∧
      (o.exhBefore = true ↔
        1 ≤ n ∧ frames.length ≤ p0 + ⌊posAt rs (n - 1)⌋.toNat ∧ ⌊posAt rs (n - 1)⌋ < ⌊posAt rs n⌋) := by
  have hrs' : ∀ r ∈ rs, 0 ≤ r := fun r hr => le_of_lt (hrs r hr)
  have h1 := run_spec sn cs pi ip eq frames p0 ist0 rs hrs' _ 0 0 (Tracks.init ip eq frames p0 ist0 ratio0)
  have h2 := specRun_getElem? ip eq frames p0 ist0 rs 0 0 n hn
  rw [h1, h2]
  refine ⟨_, rfl, ?_, ?_, rfl, ?_⟩
  · simp [obsAt]
  · simp [obsAt]
  · simp only [obsAt, zero_add, Bool.and_eq_true, decide_eq_true_eq]
    cases n with
    | zero => simp [posAt]
    | succ m =>
      simp only [Nat.add_one_ne_zero, if_false, Nat.add_sub_cancel]
      have h0 := posAt_nonneg rs hrs' m
      have hc := floor_toNat_cast (posAt rs m) h0
      rw [hc]
      constructor
      · rintro ⟨a, b⟩
        refine ⟨by omega, a, ?_⟩
        have : ((⌊posAt rs m⌋ + 1 : Int) : Rat) ≤ posAt rs (m + 1) := by push_cast; linarith
        have := Int.le_floor.mpr this
        omega
      · rintro ⟨_, a, b⟩
        refine ⟨a, ?_⟩
        have : ⌊posAt rs m⌋ + 1 ≤ ⌊posAt rs (m + 1)⌋ := by omega
        have := Int.le_floor.mp this
        push_cast at this; linarith

/-- **What is left behind** (`source()`, `source_mut()`, `into_source()`): after ANY number of outputs at any
    ratios `> 0` the source the converter holds — and hands back — is the original source advanced by exactly
    the frames pulled so far, `p0 + ⌊P_(m-1)⌋` (the pulls for position `P_m` are made by the *next* output,
    none in advance, none given back), so the next frame it yields is source frame `p0 + ⌊P_(m-1)⌋`. -/
theorem into_source_continues (ip : Interp Rat S I) (eq : List S) (frames : List (List S)) (p0 : Nat) (ist0 : I)
    (ratio0 : Rat) (rs : List Rat) (hrs : ∀ r ∈ rs, 0 < r) :
    let left := (run AR ip eq rs ⟨⟨frames, p0⟩, ist0, 0, ratio0⟩).2.src
    let pulled := if rs = [] then 0 else ⌊posAt rs (rs.length - 1)⌋.toNat
    left = ⟨frames, p0 + pulled⟩ ∧ (left.next eq).1 = srcAt eq frames (p0 + pulled) := by
  have hrs' : ∀ r ∈ rs, 0 ≤ r := fun r hr => le_of_lt (hrs r hr)
  have h := run_final sn cs pi ip eq frames p0 ist0 rs hrs' _ 0 0 (Tracks.init ip eq frames p0 ist0 ratio0)
  have e : (run AR ip eq rs ⟨⟨frames, p0⟩, ist0, 0, ratio0⟩).2.src
      = ⟨frames, p0 + (if rs = [] then 0 else ⌊posAt rs (rs.length - 1)⌋.toNat)⟩ := by
    have h1 := h.frames_eq
    have h2 := h.pos_eq
    simp only [zero_add] at h2
    generalize (run AR ip eq rs ⟨⟨frames, p0⟩, ist0, 0, ratio0⟩).2.src = x at h1 h2 ⊢
    cases x; simp_all
  intro left pulled
  refine ⟨e, ?_⟩
  show (Src.next eq (run AR ip eq rs ⟨⟨frames, p0⟩, ist0, 0, ratio0⟩).2.src).1 = _
  rw [e]; rfl

/-- ("never skipping or re-reading one") the frames the interpolator was fed up to output `n` are the
    source frames at positions `p0, p0+1, …` — the `j`-th one fed is source frame `p0 + j`: in source
    order, each exactly once. (Together with `converter_position`: exactly `⌊P_n⌋` of them.) -/
theorem fed_in_order_each_once (eq : List S) (frames : List (List S)) (p0 m j : Nat) (h : j < m) :
    (pulled eq frames p0 m).length = m ∧
    (pulled eq frames p0 m)[j]'(by rw [pulled_length]; exact h) = srcAt eq frames (p0 + j) :=
  ⟨pulled_length eq frames p0 m, pulled_getElem eq frames p0 m j h⟩

/-- ("with the source treated as equilibrium beyond its end") -/
theorem source_beyond_end (eq : List S) (frames : List (List S)) (i : Nat) (h : frames.length ≤ i) :
    srcAt eq frames i = eq := by
  simp [srcAt, List.getD, List.getElem?_eq_none h]

/-- ("the floor interpolator yields the source frame at floor(P_n)") `Floor::new(source.next())` on a
    fresh source, any ratios `> 0`: output `n` is source frame number `⌊P_n⌋`, whatever the sample
    format (frames are moved untouched). -/
theorem floor_output (eq : List S) (frames : List (List S)) (ratio0 : Rat) (rs : List Rat)
    (hrs : ∀ r ∈ rs, 0 < r) (n : Nat) (hn : n < rs.length) :
    ∃ o, (run AR (floorInterp Rat S) eq rs ⟨⟨frames, 1⟩, srcAt eq frames 0, 0, ratio0⟩).1[n]? = some o ∧
      o.frame = srcAt eq frames ⌊posAt rs n⌋.toNat ∧ o.pulls = 1 + ⌊posAt rs n⌋.toNat := by
  obtain ⟨o, h1, h2, h3, _⟩ := converter_position sn cs pi (floorInterp Rat S) eq frames 1 (srcAt eq frames 0)
    ratio0 rs hrs n hn
  refine ⟨o, h1, ?_, h2⟩
  have := feed_floor eq frames 0 ⌊posAt rs n⌋.toNat
  simp only [zero_add] at this
  rw [h3, this]; rfl

/-- ("the linear interpolator yields the straight-line blend of the frames at floor(P_n) and floor(P_n)+1
    at fraction P_n - floor(P_n)") `Linear::new(source.next(), source.next())` on a fresh source, any
    ratios `> 0`, any sample codec: output `n` is, channel by channel,
    `((r_f − l_f)·x + l_f).to_sample()` with `l`, `r` the source frames `⌊P_n⌋`, `⌊P_n⌋+1` and
    `x = P_n − ⌊P_n⌋ ∈ [0,1)`. -/
theorem linear_output (C : Codec Rat S) (eq : List S) (frames : List (List S)) (ratio0 : Rat) (rs : List Rat)
    (hrs : ∀ r ∈ rs, 0 < r) (n : Nat) (hn : n < rs.length) :
    ∃ o, (run AR (linearInterp AR C) eq rs
        ⟨⟨frames, 2⟩, (srcAt eq frames 0, srcAt eq frames 1), 0, ratio0⟩).1[n]? = some o ∧
      o.frame = List.zipWith (fun l r => C.ofF ((C.toF r - C.toF l) * (posAt rs n - ⌊posAt rs n⌋) + C.toF l))
        (srcAt eq frames ⌊posAt rs n⌋.toNat) (srcAt eq frames (⌊posAt rs n⌋.toNat + 1)) ∧
      0 ≤ posAt rs n - ⌊posAt rs n⌋ ∧ posAt rs n - ⌊posAt rs n⌋ < 1 ∧
      o.pulls = 2 + ⌊posAt rs n⌋.toNat := by
  obtain ⟨o, h1, h2, h3, _⟩ := converter_position sn cs pi (linearInterp AR C) eq frames 2
    (srcAt eq frames 0, srcAt eq frames 1) ratio0 rs hrs n hn
  refine ⟨o, h1, ?_, by linarith [Int.floor_le (posAt rs n)], by linarith [Int.lt_floor_add_one (posAt rs n)], h2⟩
  rw [h3]
  have := feed_linear AR C eq frames 0 ⌊posAt rs n⌋.toNat
  simp only [zero_add] at this
  rw [this]
  rfl

/-- ("never outside the interval spanned by those two frames") f64-style frames in exact arithmetic
    (identity codec): the blend `(r − l)·x + l` with `0 ≤ x ≤ 1` equals `l + (r − l)·x` and lies between
    `l` and `r`. The f64 computation of the real code rounds `r − l`, the product and the sum once each;
    that deviation is what "up to float rounding" allows, and is measured by the harness. -/
theorem linear_blend_between (l r x : Rat) (h0 : 0 ≤ x) (h1 : x ≤ 1) :
    (idCodec Rat).ofF (((idCodec Rat).toF r - (idCodec Rat).toF l) * x + (idCodec Rat).toF l) = l + (r - l) * x ∧
    min l r ≤ l + (r - l) * x ∧ l + (r - l) * x ≤ max l r := by
  refine ⟨by simp [idCodec]; ring, ?_, ?_⟩
  · rcases le_total l r with h | h
    · rw [min_eq_left h]; nlinarith
    · rw [min_eq_right h]; nlinarith
  · rcases le_total l r with h | h
    · rw [max_eq_right h]; nlinarith
    · rw [max_eq_left h]; nlinarith

/-- ("never outside the interval spanned by those two frames (up to float rounding)") the blend as the f64 code
    computes it — `fl(fl(fl(r − l)·x) + l)`, one rounding after each of the three operations — for ANY rounding that
    is monotone, idempotent and fixes 0 (round-to-nearest-even is: `Dasp.softfloat_rounding_mono`), a representable left
    sample `l` and `0 ≤ x ≤ 1`: the result never passes `l`, and on the side of `r` never passes `fl(fl(r − l) + l)`,
    the float recomputation of `r` itself (equal to `r` up to the two roundings in it, `Dasp.Envelope.Rounding.overshoot_bound`) -/
theorem linear_blend_between_rounded {rnd : Rat → Rat} (ok : Dasp.Envelope.Rounding.RndMono rnd) (l r x : Rat)
    (hl : rnd l = l) (h0 : 0 ≤ x) (h1 : x ≤ 1) :
    (l ≤ r → l ≤ rnd (rnd (rnd (r - l) * x) + l) ∧ rnd (rnd (rnd (r - l) * x) + l) ≤ rnd (rnd (r - l) + l)) ∧
    (r ≤ l → rnd (rnd (r - l) + l) ≤ rnd (rnd (rnd (r - l) * x) + l) ∧ rnd (rnd (rnd (r - l) * x) + l) ≤ l) := by
  have h := Dasp.Envelope.Rounding.envR_between ok x x r l hl ⟨h0, h1⟩ ⟨h0, h1⟩
  rw [Dasp.Envelope.Rounding.envR_eq] at h
  simp only [ite_self, Dasp.Envelope.Rounding.eStar, ← sub_eq_add_neg] at h
  have e1 : l + rnd (rnd (r - l) * x) = rnd (rnd (r - l) * x) + l := add_comm _ _
  have e2 : l + rnd (r - l) = rnd (r - l) + l := add_comm _ _
  rw [e1, e2] at h
  exact h

/-- the same for `i16` frames (conversion to f64 = `/ 32768`, back = truncating saturating cast): the
    converted blend is an `i16` between the two samples — here with no rounding allowance at all. -/
theorem linear_blend_between_i16 (l r : Int) (hl : -32768 ≤ l ∧ l ≤ 32767) (hr : -32768 ≤ r ∧ r ≤ 32767)
    (x : Rat) (h0 : 0 ≤ x) (h1 : x ≤ 1) :
    min l r ≤ i16CodecRat.ofF ((i16CodecRat.toF r - i16CodecRat.toF l) * x + i16CodecRat.toF l) ∧
    i16CodecRat.ofF ((i16CodecRat.toF r - i16CodecRat.toF l) * x + i16CodecRat.toF l) ≤ max l r := by
  have rl := i16_roundtrip l hl.1 hl.2
  have rr := i16_roundtrip r hr.1 hr.2
  set a := i16CodecRat.toF l with ha
  set b := i16CodecRat.toF r with hb
  rcases le_total l r with h | h
  · have hab : a ≤ b := by
      simp only [ha, hb, i16CodecRat]
      have : (l : Rat) ≤ (r : Rat) := by exact_mod_cast h
      linarith
    have lo := i16_ofF_mono (show a ≤ (b - a) * x + a by nlinarith)
    have hi := i16_ofF_mono (show (b - a) * x + a ≤ b by nlinarith)
    rw [rl] at lo; rw [rr] at hi
    rw [min_eq_left h, max_eq_right h]; exact ⟨lo, hi⟩
  · have hab : b ≤ a := by
      simp only [ha, hb, i16CodecRat]
      have : (r : Rat) ≤ (l : Rat) := by exact_mod_cast h
      linarith
    have lo := i16_ofF_mono (show b ≤ (b - a) * x + a by nlinarith)
    have hi := i16_ofF_mono (show (b - a) * x + a ≤ a by nlinarith)
    rw [rr] at lo; rw [rl] at hi
    rw [min_eq_right h, max_eq_left h]; exact ⟨lo, hi⟩

theorem posAt_replicate_one (m n : Nat) (h : n ≤ m) : posAt (List.replicate m (1 : Rat)) n = n := by
  simp [posAt, List.take_replicate, Nat.min_eq_left h]

/-- ("A ratio of exactly 1 reproduces the source unchanged") floor interpolator: output `n` is source
    frame `n` (equilibrium past the end), one pull per output. -/
theorem ratio_one_floor (eq : List S) (frames : List (List S)) (ratio0 : Rat) (m n : Nat) (hn : n < m) :
    ∃ o, (run AR (floorInterp Rat S) eq (List.replicate m 1)
        ⟨⟨frames, 1⟩, srcAt eq frames 0, 0, ratio0⟩).1[n]? = some o ∧
      o.frame = srcAt eq frames n ∧ o.pulls = 1 + n := by
  obtain ⟨o, h1, h2, h3⟩ := floor_output sn cs pi eq frames ratio0 (List.replicate m 1)
    (by intro r hr; rw [List.eq_of_mem_replicate hr]; norm_num) n (by simpa using hn)
  rw [posAt_replicate_one m n (le_of_lt hn)] at h2 h3
  simp only [Int.floor_natCast, Int.toNat_natCast] at h2 h3
  exact ⟨o, h1, h2, h3⟩

/-- ("A ratio of exactly 1 reproduces the source unchanged") linear interpolator, any sample format whose
    conversion to f64 and back is the identity on the samples that occur (`f64`: always; `i16`: always,
    `i16_roundtrip`; in f64 arithmetic every format of at most 53 bits): output `n` is source frame `n`,
    provided the two neighbouring frames have the same number of channels (they always do in Rust). -/
theorem ratio_one_linear (C : Codec Rat S) (hC : ∀ v, C.ofF (C.toF v) = v)
    (eq : List S) (frames : List (List S)) (ratio0 : Rat) (m n : Nat) (hn : n < m)
    (hch : (srcAt eq frames n).length ≤ (srcAt eq frames (n + 1)).length) :
    ∃ o, (run AR (linearInterp AR C) eq (List.replicate m 1)
        ⟨⟨frames, 2⟩, (srcAt eq frames 0, srcAt eq frames 1), 0, ratio0⟩).1[n]? = some o ∧
      o.frame = srcAt eq frames n := by
  obtain ⟨o, h1, h2, _⟩ := linear_output sn cs pi C eq frames ratio0 (List.replicate m 1)
    (by intro r hr; rw [List.eq_of_mem_replicate hr]; norm_num) n (by simpa using hn)
  refine ⟨o, h1, ?_⟩
  rw [h2, posAt_replicate_one m n (le_of_lt hn)]
  simp only [Int.floor_natCast, Int.toNat_natCast, Int.cast_natCast, sub_self, mul_zero, zero_add, hC]
  generalize srcAt eq frames n = l at hch
  generalize srcAt eq frames (n + 1) = r at hch
  induction l generalizing r with
  | nil => simp
  | cons a l ih =>
    cases r with
    | nil => simp at hch
    | cons b r => simp only [List.zipWith_cons_cons]; rw [ih r (by simpa using hch)]

/-- ("so for a constant ratio r a finite source yields ceil((R+1)/r) output frames, or one more, where R is
    the number of frames the source still held after the interpolator was primed") any interpolator, any
    priming `p0`, constant ratio `r > 0`, `R = frames.length − p0`: `until_exhausted().count()` is
    `⌈(R+1)/r⌉` or `⌈(R+1)/r⌉ + 1` (fuel only has to allow that many outputs). -/
theorem until_exhausted_count (ip : Interp Rat S I) (eq : List S) (frames : List (List S)) (p0 : Nat) (ist0 : I)
    (r : Rat) (hr : 0 < r) (fuel : Nat) (hfuel : ⌈((frames.length - p0 : Nat) + 1 : Rat) / r⌉₊ + 1 ≤ fuel) :
    countUntil AR ip eq fuel ⟨⟨frames, p0⟩, ist0, 0, r⟩ = ⌈((frames.length - p0 : Nat) + 1 : Rat) / r⌉₊ ∨
    countUntil AR ip eq fuel ⟨⟨frames, p0⟩, ist0, 0, r⟩ = ⌈((frames.length - p0 : Nat) + 1 : Rat) / r⌉₊ + 1 := by
  obtain ⟨hno, hyes⟩ := count_bounds r hr (frames.length - p0)
  have key := fun n => isExhausted_iter_iff sn cs pi ip eq frames p0 ist0 r (le_of_lt hr) n
  have notexh : ∀ n, ¬ Exh r (frames.length - p0) n →
      isExhausted AR (iter AR ip eq n ⟨⟨frames, p0⟩, ist0, 0, r⟩) = false := by
    intro n hn
    cases hb : isExhausted AR (iter AR ip eq n ⟨⟨frames, p0⟩, ist0, 0, r⟩) with
    | false => rfl
    | true => exact absurd ((key n).mp hb) hn
  by_cases hc : Exh r (frames.length - p0) ⌈((frames.length - p0 : Nat) + 1 : Rat) / r⌉₊
  · left
    exact countUntil_eq AR ip eq fuel _ _ (by omega) (fun j hj => notexh j (hno j hj)) ((key _).mpr hc)
  · right
    have hc1 := hyes.resolve_left hc
    refine countUntil_eq AR ip eq fuel _ _ (by omega) (fun j hj => ?_) ((key _).mpr hc1)
    rcases Nat.lt_succ_iff_lt_or_eq.mp hj with h | h
    · exact notexh j (hno j h)
    · rw [h]; exact notexh _ hc

/-- which of the two counts: for a ratio `r ≤ 1` (up-sampling or unity) it is always exactly `⌈(R+1)/r⌉` -/
theorem until_exhausted_count_le_one (ip : Interp Rat S I) (eq : List S) (frames : List (List S)) (p0 : Nat)
    (ist0 : I) (r : Rat) (hr : 0 < r) (hr1 : r ≤ 1) (fuel : Nat)
    (hfuel : ⌈((frames.length - p0 : Nat) + 1 : Rat) / r⌉₊ ≤ fuel) :
    countUntil AR ip eq fuel ⟨⟨frames, p0⟩, ist0, 0, r⟩ = ⌈((frames.length - p0 : Nat) + 1 : Rat) / r⌉₊ := by
  obtain ⟨hno, _⟩ := count_bounds r hr (frames.length - p0)
  have key := fun n => isExhausted_iter_iff sn cs pi ip eq frames p0 ist0 r (le_of_lt hr) n
  refine countUntil_eq AR ip eq fuel _ _ hfuel (fun j hj => ?_)
    ((key _).mpr (exh_at_ceil_of_le_one r hr hr1 (frames.length - p0)))
  cases hb : isExhausted AR (iter AR ip eq j ⟨⟨frames, p0⟩, ist0, 0, r⟩) with
  | false => rfl
  | true => exact absurd ((key j).mp hb) (hno j hj)

/-- the exhaustion condition in the property's words, constant ratio: `is_exhausted()` after `n` outputs
    holds iff `n ≥ 1`, the `R` remaining source frames have all been pulled (`R ≤ ⌊(n−1)r⌋`) and the next
    output needs a further one (`⌊(n−1)r⌋ < ⌊n r⌋`). -/
theorem is_exhausted_constant_ratio (ip : Interp Rat S I) (eq : List S) (frames : List (List S)) (p0 : Nat)
    (ist0 : I) (r : Rat) (hr : 0 < r) (n : Nat) :
    isExhausted AR (iter AR ip eq n ⟨⟨frames, p0⟩, ist0, 0, r⟩) = true ↔
      1 ≤ n ∧ ((frames.length - p0 : Nat) : Int) ≤ ⌊((n : Rat) - 1) * r⌋ ∧ ⌊((n : Rat) - 1) * r⌋ < ⌊(n : Rat) * r⌋ :=
  isExhausted_iter_iff sn cs pi ip eq frames p0 ist0 r (le_of_lt hr) n

/-- the ratio constructors/setters: `from_hz_to_hz(s, t)` = `scale_playback_hz(s / t)`,
    `scale_sample_hz(x)` = `scale_playback_hz(1 / x)`; construction succeeds exactly for a ratio `> 0`
    and starts at position 0 -/
theorem constructors (src : Src S) (ist : I) (a b x : Rat) :
    fromHzToHz AR src ist a b = scalePlaybackHz AR src ist (a / b) ∧
    scaleSampleHz AR src ist x = scalePlaybackHz AR src ist (1 / x) ∧
    (0 < x → scalePlaybackHz AR src ist x = some ⟨src, ist, 0, x⟩) ∧
    (¬ 0 < x → scalePlaybackHz AR src ist x = none) := by
  refine ⟨rfl, rfl, ?_, ?_⟩ <;> intro h <;> simp [scalePlaybackHz, h]

/-! ## Non-vacuity: the hypotheses instantiated on concrete, non-trivial runs -/

/-- ratios 3/4, 3/2, 5/2 (`mul_hz`-style): P_3 = 19/4, so output 3 of the floor converter is source frame 4
    (five pulls in all) out of a 6-frame source -/
example : ∃ o, (run (ratArith id id 3) (floorInterp Rat Rat) [0] [3/4, 3/2, 5/2, 1]
      ⟨⟨[[(10 : Rat)], [11], [12], [13], [14], [15]], 1⟩, [(10 : Rat)], 0, 1⟩).1[3]? = some o ∧
    o.frame = [(14 : Rat)] ∧ o.pulls = 5 := by
  obtain ⟨o, h1, h2, h3⟩ := floor_output id id 3 [0] [[(10 : Rat)], [11], [12], [13], [14], [15]] 1 [3/4, 3/2, 5/2, 1]
    (by intro r hr; simp at hr; rcases hr with h | h | h | h <;> rw [h] <;> norm_num) 3 (by simp)
  have hp : posAt [3/4, 3/2, 5/2, 1] 3 = 19/4 := by norm_num [posAt]
  have hf : ⌊(19/4 : Rat)⌋ = 4 := by rw [Int.floor_eq_iff]; norm_num
  rw [hp, hf] at h2 h3
  exact ⟨o, h1, by simpa [srcAt] using h2, by simpa using h3⟩

/-- 3 frames left after priming a floor interpolator, ratio 3/4: ⌈4 / (3/4)⌉ = 6 outputs or 7 -/
example : countUntil (ratArith id id 3) (floorInterp Rat Rat) [0] 100 ⟨⟨[[1], [2], [3], [4]], 1⟩, [1], 0, 3/4⟩ = 6 ∨
    countUntil (ratArith id id 3) (floorInterp Rat Rat) [0] 100 ⟨⟨[[1], [2], [3], [4]], 1⟩, [1], 0, 3/4⟩ = 7 := by
  have hc : ⌈(((4 - 1 : Nat) : Rat) + 1) / (3/4)⌉₊ = 6 := by
    rw [Nat.ceil_eq_iff (by norm_num)]; norm_num
  have := until_exhausted_count id id 3 (floorInterp Rat Rat) [0] [[1], [2], [3], [4]] 1 [1] (3/4) (by norm_num) 100
    (by simp only [List.length_cons, List.length_nil]; rw [hc]; norm_num)
  simp only [List.length_cons, List.length_nil] at this
  rw [hc] at this
  exact this

/-- i16 samples −300 and 200 blended at x = 1/3 stay between them -/
example : min (-300 : Int) 200 ≤ i16CodecRat.ofF ((i16CodecRat.toF 200 - i16CodecRat.toF (-300)) * (1/3) + i16CodecRat.toF (-300)) ∧
    i16CodecRat.ofF ((i16CodecRat.toF 200 - i16CodecRat.toF (-300)) * (1/3) + i16CodecRat.toF (-300)) ≤ max (-300 : Int) 200 :=
  linear_blend_between_i16 (-300) 200 (by norm_num) (by norm_num) (1/3) (by norm_num) (by norm_num)

end Dasp.Conv
