import Dasp.Lemmas.Fork
/-!
# C12 — Fork gives both branches the identical stream under every pull interleaving

Property text (properties.jsonl, C12): *For any order in which the two branches of a forked
signal are pulled, as long as neither branch gets ahead of the other by more than the ring
buffer's capacity, each branch observes exactly the source's frames in order with none
lost, duplicated or reordered, the source is pulled exactly once per distinct frame, and
each branch's pending count equals the number of frames it lags behind.  This holds for
by-reference and reference-counted branches, any capacity >= 1, and when the fork is
re-split after earlier use.*

Model: `Dasp/Model/Fork.lean` (transcription of dasp_signal/src/lib.rs:671-685, 1085-1232;
the ring buffer is the ideal capacity-bounded FIFO queue, cf. C06).  `f : Nat → α` is the
source stream (`Src.at`: the given frames, then equilibrium), `Cur = (a, b)` the number of
frames branch A / branch B has received, `Inv f cap s c` the invariant

* the source has been pulled exactly `max a b` times,
* the queue holds exactly `f (min a b) … f (max a b - 1)`, oldest first,
* the flag names the lagging branch whenever the cursors differ (queue empty when level).

`Admissible cap c ops`: after every entry of the schedule the lead is `≤ cap`.
Only property theorems and non-vacuity examples live in this file.
-/
namespace Dasp.Props.C12
open Dasp.Fork Dasp.SrcQueue

variable {α : Type}

/-- a freshly built fork (`signal.fork(ring_buffer)`, lib.rs:671-685) satisfies the invariant
    with both cursors at 0, for every capacity -/
theorem fresh_fork_inv (src : Src α) (cap : Nat) (h0 : src.pos = 0) :
    Inv src.at cap (init src cap) ⟨0, 0⟩ := inv_init src cap h0

/-- *"each branch observes exactly the source's frames in order"*, one step of branch A: from
    any state satisfying the invariant (i.e. left behind by any earlier admissible use), if A's
    lead stays within the capacity, `next` returns the frame at A's cursor, advances only A's
    cursor and re-establishes the invariant (incl. the hand-over when the queue was waiting
    for A and ran dry, capacity 1, lead = capacity exactly) -/
theorem nextA_spec (f : Nat → α) (cap : Nat) (s : St α) (a b : Nat)
    (hi : Inv f cap s ⟨a, b⟩) (hlead : a + 1 - b ≤ cap) :
    (nextA s).1 = f a ∧ Inv f cap (nextA s).2 ⟨a + 1, b⟩ :=
  next_me f cap s true a b hi hlead

/-- the mirror image for branch B -/
theorem nextB_spec (f : Nat → α) (cap : Nat) (s : St α) (a b : Nat)
    (hi : Inv f cap s ⟨a, b⟩) (hlead : b + 1 - a ≤ cap) :
    (nextB s).1 = f b ∧ Inv f cap (nextB s).2 ⟨a, b + 1⟩ := by
  have h := next_me f cap s false b a ((invMe_swap f cap s true a b).2 hi) hlead
  exact ⟨h.1, (invMe_swap f cap _ true a (b + 1)).1 h.2⟩

/-- *"the source is pulled exactly once per distinct frame"*: in every invariant state the pull
    counter equals the number of distinct frames handed out so far, `max a b` -/
theorem pulls_eq_distinct (f : Nat → α) (cap : Nat) (s : St α) (c : Cur) (hi : Inv f cap s c) :
    s.src.pos = max c.a c.b := hi.pos_eq

/-- the queue is exactly the frames between the two cursors (none lost, none duplicated) -/
theorem queue_eq_between (f : Nat → α) (cap : Nat) (s : St α) (c : Cur) (hi : Inv f cap s c) :
    s.q = (List.range' (min c.a c.b) (max c.a c.b - min c.a c.b)).map f := hi.q_eq

/-- *"each branch's pending count equals the number of frames it lags behind"*
    (`pending_frames`, lib.rs:1203-1226: the queue length if the flag names this branch, else 0) -/
theorem pending_eq_lag (f : Nat → α) (cap : Nat) (s : St α) (c : Cur) (hi : Inv f cap s c) :
    pendingFrames s true = c.b - c.a ∧ pendingFrames s false = c.a - c.b :=
  ⟨pending_me f cap s true c.a c.b hi,
   pending_me f cap s false c.b c.a ((invMe_swap f cap s true c.a c.b).2 hi)⟩

/-- **C12 main theorem** — *"for any order in which the two branches are pulled, as long as
    neither branch gets ahead of the other by more than the ring buffer's capacity"*: for every
    capacity, every finite schedule of A-pulls, B-pulls and re-splits (`by_ref` again /
    `by_rc`) that keeps the lead ≤ cap, started in any state satisfying the invariant (a fresh
    fork or whatever earlier admissible use left behind), everything observable — the frame
    returned by every `next`, `pending_frames` of both branches and the source's pull count
    after every step — is what the two-cursor specification says, and the invariant holds
    again at the end (so the statement composes over further use) -/
theorem schedule_refines_spec (f : Nat → α) (cap : Nat) (ops : List Op) (s : St α) (c : Cur)
    (hi : Inv f cap s c) (hadm : Admissible cap c ops) :
    trace s ops = specTrace f c ops ∧ Inv f cap (run s ops) (c.run ops) :=
  trace_spec f cap ops s c hi hadm

/-- the same from a freshly built fork -/
theorem fresh_fork_refines_spec (src : Src α) (cap : Nat) (h0 : src.pos = 0) (ops : List Op)
    (hadm : Admissible cap ⟨0, 0⟩ ops) :
    trace (init src cap) ops = specTrace src.at ⟨0, 0⟩ ops :=
  (trace_spec src.at cap ops _ _ (inv_init src cap h0) hadm).1

/-- *"each branch observes exactly the source's frames in order with none lost, duplicated
    or reordered"*: the frames handed to branch `me` over the whole schedule are the
    consecutive source frames starting at its cursor, as many as it pulled -/
theorem branch_sees_source_in_order (f : Nat → α) (cap : Nat) (ops : List Op) (s : St α) (c : Cur)
    (hi : Inv f cap s c) (hadm : Admissible cap c ops) (me : Bool) :
    logOf me ops (trace s ops) = (List.range' (c.of me) (pullsOf me ops)).map f := by
  rw [(trace_spec f cap ops s c hi hadm).1]; exact logOf_spec f me ops c

/-- both branches see the identical stream: on a fresh fork, whichever branch has pulled
    fewer frames has seen a prefix of what the other has seen -/
theorem branches_identical (src : Src α) (cap : Nat) (h0 : src.pos = 0) (ops : List Op)
    (hadm : Admissible cap ⟨0, 0⟩ ops) :
    logOf true ops (trace (init src cap) ops) = (List.range (pullsOf true ops)).map src.at ∧
    logOf false ops (trace (init src cap) ops) = (List.range (pullsOf false ops)).map src.at := by
  have hA := branch_sees_source_in_order src.at cap ops _ _ (inv_init src cap h0) hadm true
  have hB := branch_sees_source_in_order src.at cap ops _ _ (inv_init src cap h0) hadm false
  simp only [Cur.of] at hA hB
  rw [hA, hB]; simp [List.range_eq_range']

/-- *"the source is pulled exactly once per distinct frame"* over a whole schedule: the pull
    count at the end is the larger of the two numbers of frames received -/
theorem schedule_pulls (f : Nat → α) (cap : Nat) (ops : List Op) (s : St α) (c : Cur)
    (hi : Inv f cap s c) (hadm : Admissible cap c ops) :
    (run s ops).src.pos = max (c.a + pullsOf true ops) (c.b + pullsOf false ops) := by
  have h := (trace_spec f cap ops s c hi hadm).2.pos_eq
  have hA := cur_run_of true ops c
  have hB := cur_run_of false ops c
  simp [Cur.of] at hA hB
  rw [h, hA, hB]

/-- *"by-reference and reference-counted branches … when the fork is re-split after earlier
    use"*: `by_ref` and `by_rc` only create handles to the shared state (lib.rs:1115-1141) -/
theorem resplit_is_identity (s : St α) : byRef s = s ∧ byRc s = s := ⟨rfl, rfl⟩

/-- dropping the handles and splitting again anywhere in a schedule changes neither the state
    reached nor anything the pulls observe -/
theorem resplit_transparent (ops : List Op) (s : St α) :
    run s ops = run s (ops.filter Op.isPull) ∧
    (trace s ops).filter (fun o => o.frame.isSome) = trace s (ops.filter Op.isPull) :=
  ⟨run_erase_resplit ops s, trace_erase_resplit ops s⟩

/-- *"reference-counted branches"*, lifetime events: dropping one branch's handle does not
    touch the shared state (no `Drop` impl; `next` never looks at the reference count) -/
theorem drop_is_identity (s : St α) (me : Bool) : dropBranch s me = s := rfl

/-- after one branch is dropped (or simply never pulled again) the survivor still receives
    every source frame in order, none lost or duplicated: first the frames the other branch
    had queued for it, then fresh ones — from any invariant state, for any number of pulls,
    with no bound on how far it runs ahead of the branch that is gone (branch A) -/
theorem survivorA_sees_source (f : Nat → α) (cap : Nat) (s : St α) (c : Cur) (hi : Inv f cap s c) (n : Nat) :
    (solo s true n).1 = (List.range' c.a n).map f :=
  solo_of_invMe f cap true n s c.a c.b hi

/-- the same for branch B as the survivor -/
theorem survivorB_sees_source (f : Nat → α) (cap : Nat) (s : St α) (c : Cur) (hi : Inv f cap s c) (n : Nat) :
    (solo s false n).1 = (List.range' c.b n).map f :=
  solo_of_invMe f cap false n s c.b c.a ((invMe_swap f cap s true c.a c.b).2 hi)

/-- *"any capacity >= 1"*: with one slot the two branches can still alternate forever, in
    either order, from any level position -/
theorem alternation_admissible (cap : Nat) (h : 1 ≤ cap) (n : Nat) (first : Bool) :
    Admissible cap ⟨n, n⟩ [.pull first, .pull (!first)] := by
  cases first <;> simp [Admissible, Cur.step, Cur.lead] <;> omega

/-! ### non-vacuity: every hypothesis instantiated on concrete, non-trivial runs -/

private def src5 : Src Int := { frames := [10, 20, 30, 40, 50], eq := 0, pos := 0 }
private def A : Op := .pull true
private def B : Op := .pull false
private def view (o : Obs Int) : Option Int × Nat × Nat × Nat := (o.frame, o.pendA, o.pendB, o.pulls)

/-- capacity 2: A runs ahead to lead = cap exactly, B drains the queue (hand-over), overtakes
    to lead = cap on the other side, re-split by reference and later by `Rc`, running past the
    end of the source into equilibrium; the schedule is admissible -/
example : Admissible 2 ⟨0, 0⟩ [A, A, B, B, B, B, .resplitRef, A, A, .resplitRc, A, B, B] := by
  simp [Admissible, Cur.step, Cur.lead, A, B]

example : (trace (init src5 2) [A, A, B, B, B, B, .resplitRef, A, A, .resplitRc, A, B, B]).map view =
    [(some 10, 0, 1, 1), (some 20, 0, 2, 2), (some 10, 0, 1, 2), (some 20, 0, 0, 2),
     (some 30, 1, 0, 3), (some 40, 2, 0, 4), (none, 2, 0, 4), (some 30, 1, 0, 4), (some 40, 0, 0, 4),
     (none, 0, 0, 4), (some 50, 0, 1, 5), (some 50, 0, 0, 5), (some 0, 1, 0, 6)] := by decide

/-- the invariant is satisfiable in a state where the branches are apart and B leads -/
example : Inv src5.at 2 (run (init src5 2) [A, A, B, B, B, B]) ⟨2, 4⟩ :=
  (schedule_refines_spec src5.at 2 [A, A, B, B, B, B] _ _ (fresh_fork_inv src5 2 rfl)
    (by simp [Admissible, Cur.step, Cur.lead, A, B])).2

/-- capacity 1 -/
example : (trace (init src5 1) [B, A, A, B, B, A]).map view =
    [(some 10, 1, 0, 1), (some 10, 0, 0, 1), (some 20, 0, 1, 2), (some 20, 0, 0, 2),
     (some 30, 1, 0, 3), (some 30, 0, 0, 3)] := by decide

/-- the side condition is needed (and the model keeps the code's behaviour outside it): with
    capacity 1, letting A lead by 2 overwrites frame 10 and B never sees it -/
example : (trace (init src5 1) [A, A, B]).map view =
    [(some 10, 0, 1, 1), (some 20, 0, 1, 2), (some 20, 0, 0, 2)] := by decide

/-- capacity 2, by `Rc`: A gets two ahead and is dropped; B, the survivor, first receives the
    two queued frames, then fresh ones, running arbitrarily far past the branch that is gone -/
example : (trace (init src5 2) [.resplitRc, A, A, .drop true, B, B, B, B, B, B]).map view =
    [(none, 0, 0, 0), (some 10, 0, 1, 1), (some 20, 0, 2, 2), (none, 0, 2, 2), (some 10, 0, 1, 2),
     (some 20, 0, 0, 2), (some 30, 1, 0, 3), (some 40, 2, 0, 4), (some 50, 2, 0, 5), (some 0, 2, 0, 6)] := by decide

example : (solo (run (init src5 2) [A, A]) false 6).1 = [10, 20, 30, 40, 50, 0] := by decide

example : ¬ Admissible 1 ⟨0, 0⟩ [A, A, B] := by simp [Admissible, Cur.step, Cur.lead, A]

end Dasp.Props.C12
