import Dasp.Lemmas.Signal
/-!
# C04 — Signal adaptors are pointwise, lock-step, one source frame per output frame

Property text (properties.jsonl, C04): for any source signals, the n-th frame yielded by map,
zip_map, add_amp, mul_amp, scale_amp, offset_amp, their per-channel variants, clip_amp and inspect
equals the corresponding frame operation applied to the n-th frame(s) of the source(s) (clip_amp
limits each channel's signed amplitude to [-t, t]), and delay(k) yields k equilibrium frames
followed by the source unchanged.  Every call to next pulls exactly one frame from each underlying
source (none while a delay is still emitting its leading silence), so borrowed signals resume
exactly where an adaptor left off.  Consequently any nesting of these adaptors equals the
composition of their pointwise functions.

`Dasp.Signal.next` is the hand transcription of the `Signal::next` implementations
(`Model/Signal.lean`, validated against the real code by the `adapt`/`exhaust` streams); `run o j`
is `j` successive calls.  The frame-level functions (`Ops`) and the user closures are arbitrary.
All theorems are for expressions of arbitrary depth (structural induction in `Lemmas/Signal.lean`).
Only property theorems and their non-vacuity examples live in this file.
-/
namespace Dasp.Props.C04
open Dasp.Signal
variable {α : Type}

/-- **C04 main theorem** — "the n-th frame yielded … equals the corresponding frame operation
    applied to the n-th frame(s) of the source(s)": the first `j` calls of `next` on a freshly built
    expression of any shape return `den s 0, …, den s (j-1)`, where `den` is *defined* by the
    pointwise equations below (`den_map` … `den_delay_after`). -/
theorem outputs_pointwise (o : Ops α) (s : Sig α) (j : Nat) :
    (run o j s.init).1 = (List.range j).map (s.den o) := by
  rw [run_outputs]; congr 1; funext i; exact init_den o s i

/-- the same from any reachable (indeed any) run-time state, e.g. a tree that has already been
    running, or one whose sources are partly consumed -/
theorem outputs_pointwise_from (o : Ops α) (t : St α) (j : Nat) :
    (run o j t).1 = (List.range j).map (t.den o) := run_outputs o j t

/-! the pointwise equations, adaptor by adaptor (`n`-th output = frame operation of the `n`-th input(s)) -/

theorem den_map (o : Ops α) (m : List α → List α) (s : Sig α) (n : Nat) :
    (Sig.map m s).den o n = m (s.den o n) := rfl
theorem den_zipMap (o : Ops α) (m : List α → List α → List α) (a b : Sig α) (n : Nat) :
    (Sig.zipMap m a b).den o n = m (a.den o n) (b.den o n) := rfl
theorem den_addAmp (o : Ops α) (a b : Sig α) (n : Nat) :
    (Sig.addAmp a b).den o n = o.addAmp (a.den o n) (b.den o n) := rfl
theorem den_mulAmp (o : Ops α) (a b : Sig α) (n : Nat) :
    (Sig.mulAmp a b).den o n = o.mulAmp (a.den o n) (b.den o n) := rfl
theorem den_scaleAmp (o : Ops α) (k : α) (s : Sig α) (n : Nat) :
    (Sig.scaleAmp k s).den o n = o.scaleAmp (s.den o n) k := rfl
theorem den_offsetAmp (o : Ops α) (k : α) (s : Sig α) (n : Nat) :
    (Sig.offsetAmp k s).den o n = o.offsetAmp (s.den o n) k := rfl
theorem den_scaleAmpPerChannel (o : Ops α) (fr : List α) (s : Sig α) (n : Nat) :
    (Sig.scaleAmpPerChannel fr s).den o n = o.mulAmp (s.den o n) fr := rfl
theorem den_offsetAmpPerChannel (o : Ops α) (fr : List α) (s : Sig α) (n : Nat) :
    (Sig.offsetAmpPerChannel fr s).den o n = o.addAmp (s.den o n) fr := rfl
/-- clip_amp applies the clip closure to every channel -/
theorem den_clipAmp (o : Ops α) (t : α) (s : Sig α) (n : Nat) :
    (Sig.clipAmp t s).den o n = (s.den o n).map (o.clipSample t) := rfl
theorem den_inspect (o : Ops α) (s : Sig α) (n : Nat) : (Sig.inspect s).den o n = s.den o n := rfl
theorem den_byRef (o : Ops α) (s : Sig α) (n : Nat) : (Sig.byRef s).den o n = s.den o n := rfl

/-- "delay(k) yields k equilibrium frames …" -/
theorem den_delay_silence (o : Ops α) (k : Nat) (s : Sig α) (n : Nat) (h : n < k) :
    (Sig.delay k s).den o n = o.eq := by simp [Sig.den, h]
/-- "… followed by the source unchanged" -/
theorem den_delay_after (o : Ops α) (k : Nat) (s : Sig α) (n : Nat) :
    (Sig.delay k s).den o (k + n) = s.den o n := by
  show (if k + n < k then _ else _) = _
  rw [if_neg (by omega)]; congr 1; omega

/-- "clip_amp limits each channel's signed amplitude to [-t, t]" for the closure of
    `ClipAmp::next` on a signed integer format (`to_sample` is the identity there):
    `if s > t { t } else if s < -t { -t } else { s }`; amplitudes already inside are unchanged -/
theorem clipInt_range (t s : Int) (ht : 0 ≤ t) :
    -t ≤ clipInt t s ∧ clipInt t s ≤ t ∧ (-t ≤ s → s ≤ t → clipInt t s = s) := by
  unfold clipInt; split <;> (try split) <;> omega

/-- the inspect closure has been shown exactly the frames that were yielded, in order -/
theorem inspect_log (o : Ops α) (s : Sig α) (j : Nat) :
    (run o j (Sig.inspect s).init).2.logs.head? = some ((run o j (Sig.inspect s).init).1) := by
  rw [run_logs, outputs_pointwise]
  simp [Sig.init, St.logsAfter, Sig.den, init_den]

/-- general form: every inspect closure anywhere in a tree has seen exactly the frames its own
    source yielded (`St.logsAfter`: `j - k` of them under a `delay k`) -/
theorem inspect_logs_from (o : Ops α) (t : St α) (j : Nat) : (run o j t).2.logs = t.logsAfter o j :=
  run_logs o j t

/-- **one pull per output** — "every call to next pulls exactly one frame from each underlying
    source (none while a delay is still emitting its leading silence)": after `j` calls every own
    source of the expression has received exactly `Sig.pullsAfter s j` calls of `next`, which is
    `j` for every source, with `j` replaced by `j - k` (0 while `j ≤ k`) underneath each `delay k`
    (equations `pulls_source` … `pulls_delay`). -/
theorem pulls_exact (o : Ops α) (s : Sig α) (j : Nat) :
    (run o j s.init).2.pulls = s.pullsAfter j := by
  rw [run_pulls, init_pullsAfter]

theorem pulls_exact_from (o : Ops α) (t : St α) (j : Nat) : (run o j t).2.pulls = t.pullsAfter j :=
  run_pulls o j t

theorem pulls_fromIter (fs : List (List α)) (j : Nat) : (Sig.fromIter fs).pullsAfter j = [j] := rfl
theorem pulls_fromSamples (n : Nat) (ss : List α) (j : Nat) : (Sig.fromSamples n ss).pullsAfter j = [j] := rfl
theorem pulls_gen (f : Nat → List α) (j : Nat) : (Sig.gen f).pullsAfter j = [j] := rfl
theorem pulls_equilibrium (j : Nat) : (Sig.equilibrium : Sig α).pullsAfter j = [j] := rfl
theorem pulls_map (m : List α → List α) (s : Sig α) (j : Nat) : (Sig.map m s).pullsAfter j = s.pullsAfter j := rfl
theorem pulls_zipMap (m : List α → List α → List α) (a b : Sig α) (j : Nat) :
    (Sig.zipMap m a b).pullsAfter j = a.pullsAfter j ++ b.pullsAfter j := rfl
/-- none while the delay is still silent: the source sees only the calls after the first `k` -/
theorem pulls_delay (k : Nat) (s : Sig α) (j : Nat) : (Sig.delay k s).pullsAfter j = s.pullsAfter (j - k) := rfl

/-- an expression without `delay` … -/
def NoDelay : Sig α → Prop
  | .delay _ _ => False
  | .map _ s | .scaleAmp _ s | .offsetAmp _ s | .scaleAmpPerChannel _ s | .offsetAmpPerChannel _ s
  | .clipAmp _ s | .inspect s | .byRef s => NoDelay s
  | .zipMap _ a b | .addAmp a b | .mulAmp a b => NoDelay a ∧ NoDelay b
  | _ => True

/-- … pulls *every* source exactly once per call: after `j` calls each counter reads `j` -/
theorem pulls_lockstep (o : Ops α) (s : Sig α) (h : NoDelay s) (j : Nat) :
    ∀ p ∈ (run o j s.init).2.pulls, p = j := by
  rw [pulls_exact]
  induction s with
  | delay k s ih => exact absurd h (by simp [NoDelay])
  | zipMap m a b iha ihb =>
    intro p hp; rcases List.mem_append.mp hp with h' | h'
    · exact iha h.1 p h'
    · exact ihb h.2 p h'
  | addAmp a b iha ihb =>
    intro p hp; rcases List.mem_append.mp hp with h' | h'
    · exact iha h.1 p h'
    · exact ihb h.2 p h'
  | mulAmp a b iha ihb =>
    intro p hp; rcases List.mem_append.mp hp with h' | h'
    · exact iha h.1 p h'
    · exact ihb h.2 p h'
  | fromIter fs => intro p hp; simpa [Sig.pullsAfter] using hp
  | fromSamples n ss => intro p hp; simpa [Sig.pullsAfter] using hp
  | equilibrium => intro p hp; simpa [Sig.pullsAfter] using hp
  | gen f => intro p hp; simpa [Sig.pullsAfter] using hp
  | byRef s ih => intro p hp; simp [Sig.pullsAfter] at hp
  | map m s ih => exact ih h
  | scaleAmp k s ih => exact ih h
  | offsetAmp k s ih => exact ih h
  | scaleAmpPerChannel fr s ih => exact ih h
  | offsetAmpPerChannel fr s ih => exact ih h
  | clipAmp t s ih => exact ih h
  | inspect s ih => exact ih h

/-- **borrowed signals resume exactly where an adaptor left off** — whatever tree `t` of adaptors
    has been run for `j` calls, every signal it borrowed through `&mut` is handed back in exactly
    the state reached by calling `next` on it directly as many times as calls reached it
    (`St.borrowsAfter`: `j` times, `j - k` under a `delay k`). -/
theorem byRef_handback (o : Ops α) (t : St α) (j : Nat) : (run o j t).2.borrows = t.borrowsAfter o j :=
  run_borrows o j t

/-- instance: a stack of one-source adaptors over `&mut s`, run `j` times, leaves `s` exactly `j` steps advanced -/
theorem byRef_handback_stack (o : Ops α) (us : List (Un α)) (s : St α) (j : Nat) :
    (run o j (us.foldr St.un (.byRef s))).2.borrows = [(run o j s).2] := by
  rw [byRef_handback]
  induction us with
  | nil => rfl
  | cons u us ih => simpa [St.borrowsAfter] using ih

/-- instance: `a.by_ref().zip_map(other, m)` (or add_amp / mul_amp) leaves `a` exactly `j` steps advanced -/
theorem byRef_handback_bin (o : Ops α) (b : Bin α) (s other : St α) (hother : other.borrows = []) (j : Nat) :
    (run o j (.bin b (.byRef s) other)).2.borrows = [(run o j s).2] := by
  rw [byRef_handback]; simp [St.borrowsAfter, borrowsAfter_nil o other hother]

/-- under `delay k` the borrowed signal is untouched during the silence and then advances one step per call -/
theorem byRef_handback_delay (o : Ops α) (k : Nat) (s : St α) (j : Nat) :
    (run o j (.delay k (.byRef s))).2.borrows = [(run o (j - k) s).2] := by
  rw [byRef_handback]; rfl

/-- **nesting = composition** — "any nesting of these adaptors equals the composition of their
    pointwise functions": a stack of one-source adaptors yields, frame by frame, the composition of
    their frame functions applied to the source's frame … -/
theorem stack_composition (o : Ops α) (us : List (Un α)) (t : St α) (j : Nat) :
    (run o j (us.foldr St.un t)).1 =
      (List.range j).map fun n => us.foldr (fun u f => u.apply o f) (t.den o n) := by
  rw [run_outputs]; congr 1; funext n
  induction us with
  | nil => rfl
  | cons u us ih => simp [St.den, ih]

/-- … and two-source adaptors compose the same way (instance of `outputs_pointwise`): e.g.
    `a.map(f).add_amp(b.scale_amp(k)).clip_amp(t)` -/
theorem nesting_example (o : Ops α) (f : List α → List α) (k t : α) (a b : Sig α) (n : Nat) :
    (Sig.clipAmp t (Sig.addAmp (Sig.map f a) (Sig.scaleAmp k b))).den o n =
      (o.addAmp (f (a.den o n)) (o.scaleAmp (b.den o n) k)).map (o.clipSample t) := rfl

/-! ### non-vacuity: concrete trees (integer stereo frames, the driver's `intOps`-style operations) -/

/-- plain integer frame operations, n = 2 channels -/
def iops : Ops Int where
  eq := [0, 0]
  addAmp := List.zipWith (· + ·)
  mulAmp := List.zipWith (· * ·)
  scaleAmp f k := f.map (· * k)
  offsetAmp f k := f.map (· + k)
  clipSample := clipInt

/-- `delay 1 (clip_amp 4 (add_amp (from_iter [[1,2],[3,9]]) (from_samples [10,20,30,40,50]).offset_amp(-20)))` -/
def ex1 : Sig Int :=
  .delay 1 (.clipAmp 4 (.addAmp (.fromIter [[1, 2], [3, 9]]) (.offsetAmp (-20) (.fromSamples 2 [10, 20, 30, 40, 50]))))

example : (run iops 4 ex1.init).1 = [[0, 0], [-4, 2], [4, 4], [-4, -4]] := by decide
example : (List.range 4).map (ex1.den iops) = [[0, 0], [-4, 2], [4, 4], [-4, -4]] := by decide
example : (run iops 4 ex1.init).2.pulls = [3, 3] := by decide
example : ex1.pullsAfter 4 = [3, 3] := by decide
example : (run iops 3 (Sig.inspect (.fromIter [[1, 2], [3, 9]])).init).2.logs = [[[1, 2], [3, 9], [0, 0]]] := by decide
/-- by-ref hand-back: two steps through `scale_amp(3)` over `&mut s`, then `s` continues with its third frame -/
example : ((run iops 2 (.un (.scaleAmp 3) (.byRef (St.ofIter [[1, 2], [3, 4], [5, 6]])))).2.borrows.map fun s => (next iops s).1) = [[5, 6]] := by decide
example : clipInt 4 9 = 4 ∧ clipInt 4 (-9) = -4 ∧ clipInt 4 3 = 3 := by decide
example : NoDelay (Sig.zipMap (fun x _ => x) (.map id (.fromIter [[1, 2]])) (.gen fun i => [i, i]) : Sig Nat) := by simp [NoDelay]

end Dasp.Props.C04
