import Dasp.Gen.AllocVocab
import Dasp.Model.Alloc
import Dasp.Props.C13
import Dasp.Props.C09
/-!
# C07 — no heap allocation in steady state (level: other / partial)

Property text (properties.jsonl, C07): once constructed, no operation of the sample, frame,
borrowed-slice, ring-buffer, peak, RMS, envelope, interpolation, window and signal APIs
allocates, reallocates or frees heap memory; the only exceptions are the documented or
inherently owning ones: the bus (whose backlog nevertheless stops growing once its outputs
are pulled in step), reference-counted fork branches at creation, boxed-slice conversions,
and user-supplied heap-backed storage, which is never resized.  Graph processing with the
stock nodes allocates nothing once a processor has processed a graph of that size once.

A theorem cannot observe an allocator.  What *is* logic is stated and proved here; the
allocation counts themselves are measured by the allocator-instrumented harness against the
modelled effect (`Model/Alloc.lean`) — that part is exploration and the evidence says so.

(a) lexical: every occurrence of the allocating vocabulary (`Vec`, `Box`, `Rc`, `vec!`,
    `.collect`, `to_vec`, `alloc::`, … — translator/alloc_allow.json) in the source files of
    the allocation-free crates, *as scanned from /repo on this run*, lies in an item of the
    committed allow-list (type aliases, `Slice` impls for user storage, `bus.rs`, `by_rc`,
    the `boxed` modules).  A temporary `Vec` introduced in an adaptor breaks this obligation.
(b) growable containers: the bus backlog never exceeds the largest lag of a live output, so
    lock-step pulling keeps it bounded; a repeated `process` call performs the identical traversal.
(c) the modelled steady-state allocation effect of every catalogue family is zero.
-/
namespace Dasp.Props.C07
open Dasp Dasp.Gen.Alloc Dasp.Model.Alloc

/-- (a) every occurrence of the allocating vocabulary is covered by the allow-list -/
theorem vocab_covered : occurrences.all covered = true := by decide

/-- the scan is not vacuous: it found the known occurrences (ring-buffer storage impls, `Rc`, bus, boxed) -/
example : 40 ≤ occurrences.length ∧ 30 ≤ filesScanned := by decide

section bus
variable {α : Type}
open Dasp.Bus

/-- (b) the bus backlog holds at most as many frames as the slowest live output lags behind:
    if every live output is within `L` frames of the source position, the backlog has at most
    `L` frames — so outputs pulled in step (lag ≤ 1 between pulls) keep it from growing, and it
    is empty when none is live. -/
theorem bus_backlog_bounded_by_max_lag (src : Nat → α) (s : St α) (hi : Inv src s) (L : Nat)
    (hlag : ∀ k c, cursor s k = some c → s.pos - c ≤ L) : backlogLen s ≤ L := by
  obtain ⟨_, hlen, hle, _, hatt, hnone⟩ := Dasp.Bus.backlog_is_exactly_what_the_slowest_needs src s hi
  rw [hlen]
  by_cases hex : ∃ k c, cursor s k = some c
  · obtain ⟨k, hk⟩ := hatt hex
    exact hlag k _ hk
  · have : ∀ k, cursor s k = none := by
      intro k
      cases h : cursor s k with
      | none => rfl
      | some c => exact absurd ⟨k, c, h⟩ hex
    rw [hnone this]; omega
end bus

/-- (b) graph processor: a second `process` call on the same graph and processor performs exactly
    the same traversal (same nodes, same inputs, same order), so every container whose size is a
    function of the traversal (DFS stack, visit maps, input list) needs no more capacity than the
    first call established (`Vec`/`FixedBitSet` never shrink: assumed, see trusted base) -/
theorem graph_second_call_same_traversal {β : Type} (F : Nat → List β → β) (g : Dasp.Graph.PG)
    (hwf : g.WF) (p : Dasp.Graph.Proc) (hp : p.Ok) (buf : Nat → β) (root : Nat)
    (hr : root < g.bound) (hl : g.live root = true) :
    ∃ r r2, Dasp.Graph.process F g p buf root = some r ∧
      Dasp.Graph.process F g r.proc r.buf root = some r2 ∧ r2.log = r.log := by
  obtain ⟨r, r2, h1, h2, h3, _⟩ := Dasp.Props.C09.process_twice F g hwf p hp buf root hr hl
  exact ⟨r, r2, h1, h2, h3⟩

/-- (c) every steady-state family of the catalogue has modelled allocation effect zero -/
theorem catalogue_effect_zero : steadyFamilies.all (fun f => effectOf f == some Effect.none) = true := by
  decide

/-- the documented owning case: a failed boxed conversion frees exactly once, allocates nothing -/
example : effectOf "slice.boxed_failed_conversion_releases" = some ⟨0, 0, 1⟩ := by decide
example : effectOf "not-in-catalogue" = none := by decide

end Dasp.Props.C07
