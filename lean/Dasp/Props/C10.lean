import Dasp.Lemmas.Slice
/-!
# C10 — sample<->frame slice views are lossless, in-place and total; slice ops are safe

Property text (properties.jsonl, C10): for every channel count N from 1 to 32 and every slice
length L, viewing interleaved samples as N-channel frames succeeds if and only if N divides L,
yields L/N frames whose channel c of frame i is sample i*N+c in the very same memory, and
viewing frames as samples is its exact inverse, for shared, mutable and boxed slices alike;
boxed conversions reuse the allocation and a failed boxed conversion releases it.  The in-place
slice operations (equilibrium, map, zip-map, write, add, add with per-channel gain) equal the
element-wise frame operation and refuse a length mismatch by panicking before modifying
anything.

The model (`Dasp/Model/Slice.lean`) is hand-written from `dasp_slice/src/frame/fixed_size_array.rs`
and `dasp_slice/src/lib.rs` and tied to the code by the correspondence streams `view`, `boxed`,
`ops` (N = 1..32, all six sample formats).  The shared and the mutable conversions are the same
arithmetic on (pointer, length), so one `toFrameSlice`/`toSampleSlice` covers both; `FView.set`
is the write through a mutable view.  Theorems are for every `n ≥ 1` (hence for 1..32).
-/
namespace Dasp.Props.C10
open Dasp.Slice

/-! ### "succeeds if and only if N divides L" -/

theorem view_succeeds_iff (n : Nat) (s : SView) : (toFrameSlice n s).isSome ↔ n ∣ s.len := by
  unfold toFrameSlice
  by_cases h : s.len % n = 0
  · simp [h, Nat.dvd_of_mod_eq_zero h]
  · have : ¬ n ∣ s.len := fun hd => h (Nat.mod_eq_zero_of_dvd hd)
    simp [h, this]

/-! ### "yields L/N frames … in the very same memory" (same data pointer: view identity) -/

theorem view_some (n : Nat) (s : SView) (hd : n ∣ s.len) :
    toFrameSlice n s = some ⟨s.base, s.len / n, n⟩ := by
  unfold toFrameSlice; simp [Nat.mod_eq_zero_of_dvd hd]

theorem view_none (n : Nat) (s : SView) (hd : ¬ n ∣ s.len) : toFrameSlice n s = none := by
  have := view_succeeds_iff n s
  cases h : toFrameSlice n s with
  | none => rfl
  | some f => rw [h] at this; exact absurd (this.1 rfl) hd

theorem view_shape (n : Nat) (s : SView) (f : FView) (h : toFrameSlice n s = some f) :
    f.frames = s.len / n ∧ f.base = s.base ∧ f.n = n ∧ n ∣ s.len := by
  have hd : n ∣ s.len := (view_succeeds_iff n s).1 (by rw [h]; rfl)
  rw [view_some n s hd] at h; cases h; exact ⟨rfl, rfl, rfl, hd⟩

/-! ### "channel c of frame i is sample i*N+c" -/

/-- every channel of every frame is the stated sample, and that sample index is inside the slice -/
theorem channel_formula {α} (mem : List α) (n : Nat) (s : SView) (f : FView) (h : toFrameSlice n s = some f)
    (i ch : Nat) (hi : i < f.frames) (hc : ch < n) :
    i * n + ch < s.len ∧ f.get mem i ch = s.get mem (i * n + ch) := by
  obtain ⟨hf, hb, hn, hd⟩ := view_shape n s f h
  have hlt : i * n + ch < s.len := idx_lt hd (hf ▸ hi) hc
  refine ⟨hlt, ?_⟩
  unfold FView.get SView.get
  rw [hn, hb, if_pos ⟨hi, hc⟩, if_pos hlt, Nat.add_assoc]

/-- conversely every sample of the slice is a channel of a frame of the view: nothing is lost -/
theorem sample_is_channel {α} (mem : List α) (n : Nat) (hn : 0 < n) (s : SView) (f : FView)
    (h : toFrameSlice n s = some f) (j : Nat) (hj : j < s.len) :
    j / n < f.frames ∧ j % n < n ∧ s.get mem j = f.get mem (j / n) (j % n) := by
  obtain ⟨hf, _, _, hd⟩ := view_shape n s f h
  have h1 : j / n < f.frames := by rw [hf]; exact Nat.div_lt_div_of_lt_of_dvd hd hj
  have h2 : j % n < n := Nat.mod_lt j hn
  refine ⟨h1, h2, ?_⟩
  rw [(channel_formula mem n s f h (j / n) (j % n) h1 h2).2, div_mod_idx]

/-- a write through the mutable frame view lands at sample `i*N+c` of the very same memory … -/
theorem write_through {α} (mem : List α) (n : Nat) (s : SView) (f : FView) (h : toFrameSlice n s = some f)
    (i ch : Nat) (hi : i < f.frames) (hc : ch < n) (v : α) :
    f.set mem i ch v = mem.set (s.base + (i * n + ch)) v := by
  obtain ⟨_, hb, hn, _⟩ := view_shape n s f h
  unfold FView.set
  rw [hn, hb, if_pos ⟨hi, hc⟩, Nat.add_assoc]

/-- … so the sample slice reads the new value there and every other position is unchanged -/
theorem write_through_read {α} (mem : List α) (n : Nat) (s : SView) (f : FView) (h : toFrameSlice n s = some f)
    (i ch : Nat) (hi : i < f.frames) (hc : ch < n) (v : α) (hmem : s.base + s.len ≤ mem.length) :
    s.get (f.set mem i ch v) (i * n + ch) = some v ∧
    ∀ k, k ≠ s.base + (i * n + ch) → (f.set mem i ch v)[k]? = mem[k]? := by
  have hlt := (channel_formula mem n s f h i ch hi hc).1
  rw [write_through mem n s f h i ch hi hc v]
  constructor
  · unfold SView.get; rw [if_pos hlt]
    simp only [List.getElem?_set_self' ]
    have : s.base + (i * n + ch) < mem.length := by omega
    simp [this]
  · intro k hk
    exact List.getElem?_set_ne (Ne.symm hk)

/-! ### "viewing frames as samples is its exact inverse" -/

theorem roundtrip_samples (n : Nat) (s : SView) (f : FView) (h : toFrameSlice n s = some f) :
    toSampleSlice f = s := by
  obtain ⟨hf, hb, hn, hd⟩ := view_shape n s f h
  unfold toSampleSlice
  rw [hf, hb, hn, Nat.div_mul_cancel hd]

theorem roundtrip_frames (f : FView) (hn : 0 < f.n) : toFrameSlice f.n (toSampleSlice f) = some f := by
  have hd : f.n ∣ (toSampleSlice f).len := ⟨f.frames, by unfold toSampleSlice; exact Nat.mul_comm _ _⟩
  rw [view_some _ _ hd]
  unfold toSampleSlice
  simp [Nat.mul_div_cancel _ hn]

/-- frames → samples always succeeds, has `F*N` samples, the same data pointer -/
theorem samples_of_frames (f : FView) : toSampleSlice f = ⟨f.base, f.frames * f.n⟩ := rfl

/-! ### boxed slices: "boxed conversions reuse the allocation and a failed boxed conversion releases it" -/

/-- success: same pointer and `L/N` frames as the borrowed view; the resulting box owns the
    *original* allocation; the set of live allocations is untouched (nothing freed) and no
    allocation id was handed out (no new allocation) -/
theorem boxed_success (n : Nat) (h : Heap) (b : SBox) (hd : n ∣ b.view.len) :
    fromBoxedSampleSlice n h b =
      (⟨h.live, b.id :: h.owned.erase b.id, h.next⟩, some ⟨b.id, ⟨b.view.base, b.view.len / n, n⟩⟩) := by
  have hm : b.view.len % n = 0 := Nat.mod_eq_zero_of_dvd hd
  have hv := view_some n ⟨b.view.base, b.view.len⟩ hd
  simp only at hv
  simp [fromBoxedSampleSlice, hm, hv, Heap.forget, Heap.fromRaw]

/-- … and the ownership relation is exactly what it was: nothing orphaned, nothing doubly owned -/
theorem boxed_success_ownership (n : Nat) (h : Heap) (b : SBox) (hd : n ∣ b.view.len) (hown : b.id ∈ h.owned) :
    (fromBoxedSampleSlice n h b).1.owned.Perm h.owned ∧
    (fromBoxedSampleSlice n h b).1.orphans = h.orphans := by
  rw [boxed_success n h b hd]
  have hp : (b.id :: h.owned.erase b.id).Perm h.owned := (List.perm_cons_erase hown).symm
  refine ⟨hp, ?_⟩
  unfold Heap.orphans Heap.liveIds
  apply List.filter_congr
  intro i _
  have : (b.id :: h.owned.erase b.id).contains i = h.owned.contains i := by
    rw [Bool.eq_iff_iff]; simp only [List.contains_iff_mem]; exact hp.mem_iff
  rw [this]

/-- failure: `None`, and the allocation is released — it is no longer live, no allocation id was
    handed out, and no orphan (live but un-owned allocation) is created -/
theorem boxed_failure (n : Nat) (h : Heap) (b : SBox) (hd : ¬ n ∣ b.view.len) :
    fromBoxedSampleSlice n h b = (h.drop b.id, none) ∧
    b.id ∉ (h.drop b.id).liveIds ∧ (h.drop b.id).next = h.next ∧
    (∀ i ∈ (h.drop b.id).orphans, i ∈ h.orphans) := by
  have hm : ¬ b.view.len % n = 0 := fun hz => hd (Nat.dvd_of_mod_eq_zero hz)
  refine ⟨by simp [fromBoxedSampleSlice, hm], ?_, rfl, ?_⟩
  · simp [Heap.drop, Heap.liveIds]
  · intro i hi
    simp only [Heap.orphans, Heap.liveIds, Heap.drop, List.mem_filter, List.mem_map, Bool.not_eq_true',
      bne_iff_ne, ne_eq] at hi ⊢
    obtain ⟨⟨p, ⟨hp, hne⟩, rfl⟩, hno⟩ := hi
    refine ⟨⟨p, hp, rfl⟩, ?_⟩
    rw [Bool.eq_false_iff] at hno ⊢
    intro hc
    apply hno
    simp only [List.contains_iff_mem] at hc ⊢
    exact (List.mem_erase_of_ne hne).2 hc

/-- boxed frames → boxed samples: always succeeds, same pointer, `F*N` samples, same allocation,
    live set and id counter untouched -/
theorem boxed_to_samples (h : Heap) (b : FBox) :
    fromBoxedFrameSlice h b = (⟨h.live, b.id :: h.owned.erase b.id, h.next⟩, ⟨b.id, toSampleSlice b.view⟩) := rfl

/-- boxed round trip: samples → frames → samples gives back the same box (pointer, length, allocation) -/
theorem boxed_roundtrip (n : Nat) (h : Heap) (b : SBox) (hd : n ∣ b.view.len) :
    ∀ fb, (fromBoxedSampleSlice n h b).2 = some fb →
      (fromBoxedFrameSlice (fromBoxedSampleSlice n h b).1 fb).2 = ⟨b.id, b.view⟩ := by
  intro fb hfb
  rw [boxed_success n h b hd] at hfb ⊢
  cases hfb
  simp only [fromBoxedFrameSlice, Nat.div_mul_cancel hd]

/-- HISTORICAL counter-witness (code before fix commit 335aea4, `fromBoxedSampleSliceOld`): the box
    was forgotten before the divisibility test, so a failed conversion of 3 samples to 2-channel
    frames left allocation 0 live with no owner (a leak of all its 12 bytes) -/
theorem old_failed_conversion_leaks :
    let h0 := (Heap.empty.alloc 12).1
    (fromBoxedSampleSliceOld 2 h0 ⟨0, ⟨0, 3⟩⟩).2.isNone = true ∧
    (fromBoxedSampleSliceOld 2 h0 ⟨0, ⟨0, 3⟩⟩).1.orphans = [0] ∧
    (fromBoxedSampleSliceOld 2 h0 ⟨0, ⟨0, 3⟩⟩).1.liveBytes = 12 ∧
    (fromBoxedSampleSlice 2 h0 ⟨0, ⟨0, 3⟩⟩).1.orphans = [] ∧
    (fromBoxedSampleSlice 2 h0 ⟨0, ⟨0, 3⟩⟩).1.liveBytes = 0 := by decide

/-! ### the in-place operations "equal the element-wise frame operation and refuse a length
    mismatch by panicking before modifying anything" -/

/-- `map_in_place` applies the function to every frame, in order, once -/
theorem map_elementwise {F} (a : List F) (m : F → F) :
    mapInPlace a m = a.map m ∧ (mapInPlace a m).length = a.length := ⟨rfl, by simp [mapInPlace]⟩

theorem equilibrium_elementwise {F} (a : List F) (eq : F) : equilibrium a eq = List.replicate a.length eq := by
  simp [equilibrium, mapInPlace, List.map_const']

/-- `zip_map_in_place`: on equal lengths the element-wise `zip_map` of the two slices (and the
    unchecked loop never indexes outside either slice: the result is not `ub`); on a length
    mismatch a panic with the destination exactly as it was -/
theorem zipMap_elementwise {FA FB} (a : List FA) (b : List FB) (f : FA → FB → FA) :
    zipMapInPlace a b f = if a.length = b.length then .ok (List.zipWith f a b) else .panic a := by
  unfold zipMapInPlace
  by_cases h : a.length = b.length
  · have := zipLoop_spec f a b [] [] h rfl
    simp only [List.nil_append, List.length_nil] at this
    have h2 : zipMapInPlaceUnchecked a b f = .ok (List.zipWith f a b) := by
      simp only [zipMapInPlaceUnchecked, this]
    simp [h, h2]
  · simp [h]

theorem write_elementwise {F} (a b : List F) :
    write a b = if a.length = b.length then .ok b else .panic a := by
  unfold write; rw [zipMap_elementwise]
  by_cases h : a.length = b.length
  · simp [h, zipWith_snd a b h]
  · simp [h]

theorem add_elementwise {FA FB} (addAmp : FA → FB → FA) (a : List FA) (b : List FB) :
    addInPlace addAmp a b = if a.length = b.length then .ok (List.zipWith addAmp a b) else .panic a := by
  unfold addInPlace; exact zipMap_elementwise a b _

theorem addAmp_elementwise {FA FB A} (addAmp : FA → FB → FA) (mulAmp : FB → A → FB) (a : List FA) (b : List FB) (amp : A) :
    addInPlaceWithAmpPerChannel addAmp mulAmp a b amp =
      if a.length = b.length then .ok (List.zipWith (fun x y => addAmp x (mulAmp y amp)) a b) else .panic a := by
  unfold addInPlaceWithAmpPerChannel; exact zipMap_elementwise a b _

/-- why the assertion matters: the unchecked loop alone, with a shorter `b`, reads out of bounds -/
theorem unchecked_without_assert_is_ub :
    (match zipMapInPlaceUnchecked [1, 2] [10] (fun (x y : Nat) => x + y) with | .ub => true | _ => false) = true := by
  decide

/-! ### non-vacuity -/

example : toFrameSlice 3 ⟨5, 12⟩ = some ⟨5, 4, 3⟩ := by decide
example : toFrameSlice 3 ⟨5, 13⟩ = none := by decide
example : toFrameSlice 32 ⟨0, 0⟩ = some ⟨0, 0, 32⟩ := by decide
example : (⟨1, 2, 2⟩ : FView).get [9, 1, 2, 3, 4, 9] 1 0 = some 3 := by decide
example : (⟨1, 2, 2⟩ : FView).set [9, 1, 2, 3, 4, 9] 1 0 77 = [9, 1, 2, 77, 4, 9] := by decide
example : (3 : Nat) ∣ (⟨0, ⟨0, 6⟩⟩ : SBox).view.len ∧ (0 : Nat) ∈ (Heap.empty.alloc 24).1.owned := by decide
example : (fromBoxedSampleSlice 3 (Heap.empty.alloc 24).1 ⟨0, ⟨0, 6⟩⟩).1.orphans = [] := by decide
example : (match zipMapInPlace [1, 2, 3] [10, 20, 30] (fun (x y : Nat) => 3 * x + y) with
    | .ok r => r == [13, 26, 39] | _ => false) = true := by decide
example : (match zipMapInPlace [1, 2, 3] [10, 20] (fun (x y : Nat) => 3 * x + y) with
    | .panic r => r == [1, 2, 3] | _ => false) = true := by decide

end Dasp.Props.C10
