import Dasp.Lemmas.Nodes
/-!
# C16 — built-in graph nodes compute their documented mixing, routing, delay functions

Property text (properties.jsonl, C16): For any number of inputs and of buffers per input, the sum node
writes to each output channel the sample-wise sum of that channel over all inputs that have it, the
sum-buffers node writes to every output buffer the sum of all buffers of all inputs, and the pass node
copies the buffers of a single input unchanged onto the corresponding outputs, leaving surplus outputs
untouched.  The delay node delays each channel by exactly the length of that channel's ring buffer, in
samples, continuously across successive process calls; a signal node writes successive frames of its
signal de-interleaved into the per-channel buffers, one buffer length per call.  Boxed, borrowed,
closure, function-pointer and nested-graph nodes behave exactly like the node or graph they wrap.

Model: `Dasp/Model/Nodes.lean` (transcribed loops of node/*.rs over `List (List α)` buffers of `LEN = 64`
samples, generic in the sample type: the driver runs the same definitions on `Float32`).  Sums are
stated as left folds starting from `0` in input order — exactly the sequence of `f32` additions the
code performs — so the theorems hold verbatim for floating point (no associativity is used).
The forwarding wrappers (`&mut T`, `Box<T>`, `BoxedNode(Send)`, `dyn Fn/FnMut`, `fn`) have no model
counterpart: they are validated by the correspondence stream only (every wrapper × every node kind).
-/
namespace Dasp.Props.C16
open Dasp.Nodes Dasp.Graph

variable {α : Type}

/-! ### Sum -/

/-- **C16, sum.** "the sum node writes to each output channel the sample-wise sum of that channel over
    all inputs that have it" — for every input count (none ⇒ silence), every combination of channel
    counts: output channel `c`, sample `i` = `((0 + x₁) + x₂) + …` over the channel-`c` buffers of the
    inputs that have a channel `c`, in input order; the number of output buffers is unchanged. -/
theorem sum_spec [Add α] [Zero α] (inputs : List (Bufs α)) (output : Bufs α)
    (hin : ∀ inp ∈ inputs, BufsOk inp) :
    (sum inputs output).length = output.length ∧
    ∀ c, c < output.length → ∃ row, (sum inputs output)[c]? = some row ∧ row.length = LEN ∧
      ∀ i, i < LEN → row[i]? = some (mixAt i (chan c inputs)) := by
  refine ⟨by simp [sum], ?_⟩
  intro c hc
  obtain ⟨h1, h2⟩ := foldl_addInPlace (chan c inputs) silent silent_length (chan_ok c inputs hin)
  refine ⟨(chan c inputs).foldl addInPlace silent, ?_, h1, ?_⟩
  · simp [sum, List.getElem?_map, List.getElem?_range, hc]
    exact foldl_chan c inputs silent
  · intro i hi; exact h2 i 0 hi (silent_get i hi)

/-- no inputs (or no input with that channel) ⇒ silence -/
theorem sum_silence [Add α] [Zero α] (inputs : List (Bufs α)) (output : Bufs α) (c : Nat) (hc : c < output.length)
    (h : chan c inputs = []) : (sum inputs output)[c]? = some silent := by
  simp [sum, List.getElem?_map, List.getElem?_range, hc]
  have := foldl_chan c inputs (silent : Buf α)
  rw [h] at this; exact this

/-! ### SumBuffers -/

/-- **C16, sum-buffers.** "the sum-buffers node writes to every output buffer the sum of all buffers of
    all inputs": every output buffer, sample `i` = left fold of `+` from `0` over all buffers of all
    inputs (input by input, buffer by buffer). -/
theorem sumBuffers_spec [Add α] [Zero α] (inputs : List (Bufs α)) (output : Bufs α)
    (hin : ∀ inp ∈ inputs, BufsOk inp) :
    (sumBuffers inputs output).length = output.length ∧
    ∀ c, c < output.length → ∃ row, (sumBuffers inputs output)[c]? = some row ∧ row.length = LEN ∧
      ∀ i, i < LEN → row[i]? = some (mixAt i inputs.flatten) := by
  have hfl : inputs.foldl (fun out inp => inp.foldl addInPlace out) (silent : Buf α) = inputs.flatten.foldl addInPlace silent := by
    rw [List.foldl_flatten]
  have hall : ∀ b ∈ inputs.flatten, b.length = LEN := by
    intro b hb
    obtain ⟨inp, hinp, hb'⟩ := List.mem_flatten.mp hb
    exact hin inp hinp b hb'
  obtain ⟨h1, h2⟩ := foldl_addInPlace inputs.flatten silent silent_length hall
  cases output with
  | nil => exact ⟨rfl, fun c hc => by simp at hc⟩
  | cons o rest =>
    refine ⟨by simp [sumBuffers], ?_⟩
    intro c _
    refine ⟨inputs.flatten.foldl addInPlace silent, ?_, h1, fun i hi => h2 i 0 hi (silent_get i hi)⟩
    cases c with
    | zero => simp [sumBuffers, hfl]
    | succ c =>
      have hc' : c < rest.length := by simpa using ‹c + 1 < (o :: rest).length›
      simp [sumBuffers, hfl, List.getElem?_map, hc']

/-! ### Pass -/

/-- **C16, pass.** "the pass node copies the buffers of a single input unchanged onto the corresponding
    outputs, leaving surplus outputs untouched": with no input nothing changes; otherwise output `c` is
    the FIRST input's buffer `c` for `c < min(outputs, its buffers)`, every other output is untouched. -/
theorem pass_spec (inputs : List (Bufs α)) (output : Bufs α) :
    (pass inputs output).length = output.length ∧
    (inputs = [] → pass inputs output = output) ∧
    ∀ first rest, inputs = first :: rest →
      (∀ c, c < output.length → c < first.length → (pass inputs output)[c]? = first[c]?) ∧
      (∀ c, first.length ≤ c → (pass inputs output)[c]? = output[c]?) := by
  cases inputs with
  | nil => exact ⟨rfl, fun _ => rfl, fun _ _ h => by simp at h⟩
  | cons f r =>
    refine ⟨by simp [pass, zipCopy_length], fun h => by simp at h, ?_⟩
    intro first rest h
    simp at h; obtain ⟨rfl, rfl⟩ := h
    exact ⟨fun c h1 h2 => zipCopy_lt output f c h1 h2, fun c h2 => zipCopy_ge output f c h2⟩

/-! ### Delay -/

/-- consecutive `process` calls as seen by ONE channel of a delay node: block `j` is that channel's
    input buffer in call `j`, the result lists the channel's output buffer of every call -/
def delayStream (r : Ring α) : List (Buf α) → Option (Ring α × List (Buf α))
  | [] => some (r, [])
  | b :: bs =>
    match pushAll r b with
    | none => none
    | some (r', o) =>
      match delayStream r' bs with
      | none => none
      | some (r'', os) => some (r'', o :: os)

/-- **C16, delay.** "The delay node delays each channel by exactly the length of that channel's ring
    buffer, in samples, continuously across successive process calls": over any number of consecutive
    calls the concatenated output of the channel is `initial ring content ++ concatenated input`,
    truncated to the number of samples fed — and every call's output block has its input block's length. -/
theorem delayStream_spec (blocks : List (Buf α)) : ∀ (r : Ring α), r.Ok →
    ∃ r' outs, delayStream r blocks = some (r', outs) ∧ r'.Ok ∧ r'.data.length = r.data.length ∧
      outs.flatten = (r.content ++ blocks.flatten).take blocks.flatten.length ∧
      outs.map List.length = blocks.map List.length ∧
      r'.content = (r.content ++ blocks.flatten).drop blocks.flatten.length := by
  induction blocks with
  | nil => intro r h; exact ⟨r, [], rfl, h, rfl, by simp, rfl, by simp⟩
  | cons b bs ih =>
    intro r h
    obtain ⟨r1, o, hp, hok1, hlen1, ho, hc1⟩ := pushAll_spec b r h
    obtain ⟨r2, os, hp2, hok2, hlen2, hos, hlens, hc2⟩ := ih r1 hok1
    have hble : b.length ≤ (r.content ++ b).length := by simp
    have holen : o.length = b.length := by rw [ho, List.length_take]; omega
    have hsplit : r.content ++ b = o ++ r1.content := by rw [ho, hc1, List.take_append_drop]
    have hwhole : r.content ++ (b ++ bs.flatten) = o ++ (r1.content ++ bs.flatten) := by
      rw [← List.append_assoc, hsplit, List.append_assoc]
    refine ⟨r2, o :: os, by simp [delayStream, hp, hp2], hok2, by omega, ?_, by simp [holen, hlens], ?_⟩
    · simp only [List.flatten_cons, List.length_append]
      rw [hwhole, ← holen, take_add_append, hos]
    · simp only [List.flatten_cons, List.length_append]
      rw [hwhole, ← holen, drop_add_append, hc2]

/-- **k-th push**: sample `k` of the output stream is the initial content while `k < N` and the input
    sample fed `N` pushes earlier afterwards (`N` = ring length) -/
theorem delay_kth (r : Ring α) (h : r.Ok) (xs : Buf α) (k : Nat) (hk : k < xs.length) :
    ∃ r' outs, pushAll r xs = some (r', outs) ∧
      outs[k]? = if k < r.data.length then r.content[k]? else xs[k - r.data.length]? := by
  obtain ⟨r', outs, hp, _, _, ho, _⟩ := pushAll_spec xs r h
  refine ⟨r', outs, hp, ?_⟩
  rw [ho, List.getElem?_take, if_pos hk, List.getElem?_append, content_length r h]

/-- the delay node applies `pushAll` channel-wise to the FIRST input, as far as rings, input buffers and
    outputs all reach; further rings and outputs are untouched; no input ⇒ nothing happens -/
theorem delayChans_spec : ∀ (rings : List (Ring α)) (ins outs : Bufs α), (∀ r ∈ rings, r.Ok) →
    ∃ rs' os', delayChans rings ins outs = some (rs', os') ∧ rs'.length = rings.length ∧
      os'.length = outs.length ∧ (∀ r ∈ rs', r.Ok) ∧
      ∀ c,
        (c < rings.length → c < ins.length → c < outs.length →
          ∃ r b r' o, rings[c]? = some r ∧ ins[c]? = some b ∧ pushAll r b = some (r', o) ∧
            rs'[c]? = some r' ∧ os'[c]? = some o) ∧
        ((rings.length ≤ c ∨ ins.length ≤ c ∨ outs.length ≤ c) → rs'[c]? = rings[c]? ∧ os'[c]? = outs[c]?) := by
  intro rings ins outs
  fun_induction delayChans rings ins outs with
  | case1 r rs b bs o os hp =>
    intro hok
    exfalso
    obtain ⟨_, _, hp', _⟩ := pushAll_spec b r (hok r (by simp))
    rw [hp] at hp'; simp at hp'
  | case2 r rs b bs o os r' o' hp hrec ih =>
    intro hok
    exfalso
    obtain ⟨_, _, hr, _⟩ := ih (fun x hx => hok x (by simp [hx]))
    rw [hrec] at hr; simp at hr
  | case3 r rs b bs o os r' o' hp rs' os' hrec ih =>
    intro hok
    obtain ⟨rs2, os2, hr, hl1, hl2, hok2, hc⟩ := ih (fun x hx => hok x (by simp [hx]))
    rw [hrec] at hr; simp at hr; obtain ⟨rfl, rfl⟩ := hr
    obtain ⟨r1, o1, hp1, hok1, _, _, _⟩ := pushAll_spec b r (hok r (by simp))
    rw [hp] at hp1; simp at hp1; obtain ⟨rfl, rfl⟩ := hp1
    refine ⟨r' :: rs', o' :: os', rfl, by simp [hl1], by simp [hl2], ?_, ?_⟩
    · intro x hx; simp at hx; rcases hx with rfl | hx
      · exact hok1
      · exact hok2 x hx
    · intro c
      cases c with
      | zero => exact ⟨fun _ _ _ => ⟨r, b, r', o', by simp, by simp, hp, by simp, by simp⟩, fun h => by simp at h⟩
      | succ c =>
        obtain ⟨hc1, hc2⟩ := hc c
        refine ⟨fun h1 h2 h3 => ?_, fun h => ?_⟩
        · simpa using hc1 (by simpa using h1) (by simpa using h2) (by simpa using h3)
        · simpa using hc2 (by simpa using h)
  | case4 rs ins os hne =>
    intro hok
    refine ⟨rs, os, rfl, rfl, rfl, hok, ?_⟩
    intro c
    refine ⟨fun h1 h2 h3 => ?_, fun _ => ⟨rfl, rfl⟩⟩
    exfalso
    cases rs with
    | nil => simp at h1
    | cons r rs =>
      cases ins with
      | nil => simp at h2
      | cons b bs =>
        cases os with
        | nil => simp at h3
        | cons o os => exact hne r rs b bs o os rfl rfl rfl

theorem delay_no_input (rings : List (Ring α)) (output : Bufs α) : delay rings [] output = some (rings, output) := rfl

theorem delay_first_input (rings : List (Ring α)) (first : Bufs α) (rest : List (Bufs α)) (output : Bufs α) :
    delay rings (first :: rest) output = delayChans rings first output := rfl

/-! ### Signal node -/

/-- **C16, signal node.** "a signal node writes successive frames of its signal de-interleaved into the
    per-channel buffers, one buffer length per call": a call at position `pos` writes sample `ix` of
    channel `ch < min(CHANNELS, outputs)` := channel `ch` of frame `pos + ix`, leaves surplus outputs
    untouched and advances the signal by exactly `LEN` frames. -/
theorem signalNode_spec [Zero α] (s : Sig α) (output : Bufs α) (hf : ∀ k, (s.frame k).length = s.channels) :
    (signalNode s output).1.pos = s.pos + LEN ∧ (signalNode s output).1.frame = s.frame ∧
    (signalNode s output).1.channels = s.channels ∧
    (signalNode s output).2.length = output.length ∧
    (∀ ch, ch < s.channels → ch < output.length →
      ∃ row, (signalNode s output).2[ch]? = some row ∧ row.length = LEN ∧
        ∀ ix, ix < LEN → row[ix]? = (s.frame (s.pos + ix))[ch]?) ∧
    (∀ ch, min s.channels output.length ≤ ch → (signalNode s output).2[ch]? = output[ch]?) := by
  refine ⟨rfl, rfl, rfl, ?_, ?_, ?_⟩
  · simp [signalNode]; omega
  · intro ch h1 h2
    have hm : ch < min s.channels output.length := by omega
    refine ⟨(List.range LEN).map fun ix => (s.frame (s.pos + ix)).getD ch 0, ?_, by simp, ?_⟩
    · simp only [signalNode]
      rw [List.getElem?_append_left (by simpa using hm)]
      simp [List.getElem?_map, List.getElem?_range, hm]
    · intro ix hix
      have hlt : ch < (s.frame (s.pos + ix)).length := by rw [hf]; exact h1
      simp [List.getElem?_map, List.getElem?_range, hix, List.getD, List.getElem?_eq_getElem hlt]
  · intro ch hch
    simp only [signalNode]
    rw [List.getElem?_append_right (by simpa using hch)]
    simp only [List.length_map, List.length_range, List.getElem?_drop]
    congr 1; omega

/-- `j` consecutive calls -/
def signalRun [Zero α] (s : Sig α) (output : Bufs α) : Nat → Sig α × Bufs α
  | 0 => (s, output)
  | j + 1 => signalNode (signalRun s output j).1 (signalRun s output j).2

/-- … "one buffer length per call": after `j` calls the signal stands at frame `pos₀ + 64·j`, so call
    number `j` (counting from 0) writes frames `64·j … 64·j + 63` of what remained of the signal -/
theorem signalRun_pos [Zero α] (s : Sig α) (output : Bufs α) (j : Nat) :
    (signalRun s output j).1.pos = s.pos + LEN * j ∧ (signalRun s output j).1.frame = s.frame ∧
    (signalRun s output j).1.channels = s.channels ∧ (signalRun s output j).2.length = output.length := by
  induction j with
  | zero => exact ⟨rfl, rfl, rfl, rfl⟩
  | succ j ih =>
    obtain ⟨h1, h2, h3, h4⟩ := ih
    refine ⟨?_, ?_, ?_, ?_⟩
    · show (signalRun s output j).1.pos + LEN = _; rw [h1, Nat.mul_succ]; omega
    · exact h2
    · exact h3
    · simp only [signalRun, signalNode, List.length_append, List.length_map, List.length_range, List.length_drop]
      rw [h3, h4]; omega

/-! ### GraphNode -/

/-- **C16, nested graph.** "nested-graph nodes behave exactly like the … graph they wrap": when the
    designated inner input nodes exist the node is copy-in ∘ `process` (the C09 model) ∘ copy-out —
    outer output `c` is the inner output node's buffer `c` as far as both reach, the rest untouched. -/
theorem graphNode_spec (nodeFn : Nat → List (Bufs α) → Bufs α → Bufs α) (g : PG) (p : Proc)
    (buf : Nat → Bufs α) (inputNodes : List Nat) (outputNode : Nat) (inputs : List (Bufs α)) (output : Bufs α)
    (hex : ∀ e ∈ inputs.zip inputNodes, e.2 < g.bound ∧ g.live e.2 = true) :
    graphNode nodeFn g p buf inputNodes outputNode inputs output =
      (process (fun n ins => nodeFn n ins (copyIn inputs inputNodes buf n)) g p (copyIn inputs inputNodes buf) outputNode).map
        (fun r => { proc := r.proc, buf := r.buf, output := zipCopy output (r.buf outputNode) }) := by
  have hall : ((inputs.zip inputNodes).all fun e => decide (e.2 < g.bound) && g.live e.2) = true := by
    rw [List.all_eq_true]; intro e he; have := hex e he; simp [this.1, this.2]
  unfold graphNode
  rw [if_pos hall]
  dsimp only
  split <;> simp_all

/-- copy-in touches only the designated input nodes that actually receive an input -/
theorem copyIn_other (inputs : List (Bufs α)) (inputNodes : List Nat) (buf : Nat → Bufs α) (m : Nat)
    (h : ∀ e ∈ inputs.zip inputNodes, e.2 ≠ m) : copyIn inputs inputNodes buf m = buf m := by
  unfold copyIn
  generalize inputs.zip inputNodes = l at h
  induction l generalizing buf with
  | nil => rfl
  | cons e l ih =>
    simp only [List.foldl_cons]
    rw [ih _ (fun x hx => h x (by simp [hx]))]
    have : m ≠ e.2 := fun c => h e (by simp) c.symm
    simp [this]

/-! ### non-vacuity (samples in `Int`, buffers of 64 samples) -/

def constBuf (v : Int) : Buf Int := List.replicate LEN v

/-- two inputs with 2 and 1 buffers into 3 outputs: channel 0 gets both, channel 1 only the first input,
    channel 2 is silenced; sum-buffers adds all three buffers; pass copies two channels, keeps the third -/
example :
    sum [[constBuf 1, constBuf 10], [constBuf 100]] [constBuf 7, constBuf 7, constBuf 7]
      = [constBuf 101, constBuf 10, constBuf 0] ∧
    sumBuffers [[constBuf 1, constBuf 10], [constBuf 100]] [constBuf 7, constBuf 7]
      = [constBuf 111, constBuf 111] ∧
    pass [[constBuf 1, constBuf 10], [constBuf 100]] [constBuf 7, constBuf 7, constBuf 7]
      = [constBuf 1, constBuf 10, constBuf 7] ∧
    (∀ inp ∈ [[constBuf 1, constBuf 10], [constBuf 100]], BufsOk inp) := by
  refine ⟨by decide, by decide, by decide, ?_⟩
  intro inp h b hb
  simp at h
  rcases h with rfl | rfl <;> simp at hb <;> (try rcases hb with rfl | rfl) <;> simp [constBuf, *]

/-- a ring of length 3 starting in the middle of its storage: content is read oldest-first, and two
    consecutive blocks come out delayed by exactly 3 samples, continuously -/
example : (⟨1, [30, 10, 20]⟩ : Ring Int).Ok ∧ (⟨1, [30, 10, 20]⟩ : Ring Int).content = [10, 20, 30] ∧
    (delayStream (⟨1, [30, 10, 20]⟩ : Ring Int) [[1, 2], [3, 4, 5]]).map (·.2) = some [[10, 20], [30, 1, 2]] := by
  refine ⟨by unfold Ring.Ok; decide, by decide, by decide⟩

/-- a 2-channel signal into 3 outputs: two buffers written de-interleaved, the third untouched -/
example : let s : Sig Int := ⟨2, fun k => [k, -k], 0⟩
    (∀ k, (s.frame k).length = s.channels) ∧
    ((signalRun s [constBuf 7, constBuf 7, constBuf 7] 2).2[0]?.bind (·[5]?)) = some 69 ∧
    ((signalRun s [constBuf 7, constBuf 7, constBuf 7] 2).2[1]?.bind (·[5]?)) = some (-69) ∧
    ((signalRun s [constBuf 7, constBuf 7, constBuf 7] 2).2[2]?) = some (constBuf 7) := by
  refine ⟨fun _ => rfl, by decide, by decide, by decide⟩

end Dasp.Props.C16
