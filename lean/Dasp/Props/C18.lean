import Dasp.Lemmas.Sinc
import Dasp.Props.C08
/-! # C18 — Sinc interpolation is transparent on the sample grid, linear and finite

Property text (properties.jsonl, C18): "For any depth >= 1 with zero-initialised padding, resampling at
ratio exactly 1 reproduces the source delayed by exactly depth frames to within 1e-12 of the peak input
amplitude. At any fractional position the interpolated frame is a linear function of the buffered frames
(scaling and superposition of inputs carry over to outputs within rounding), is finite for finite input,
reproduces a constant input to within 1% once the buffer is primed for depth >= 4, and resetting returns
the interpolator to its initial silent state."

Model: `Dasp/Model/Sinc.lean` transcribes sinc/mod.rs (`new`, `depth`, `interpolate` with its
`usize`/`isize` index arithmetic, `next_source_frame`, `reset`) over an ideal `Fixed` ring indexed and
pushed exactly like dasp_ring_buffer; it is executed by `driver_c18` at native `f64` (libm `sin`/`cos`)
against the real code, directly and inside the converter of C08. The theorems below are about the SAME
definitions at exact rational arithmetic `ratArith sn cs pi`, where `sn`, `cs` and `pi` are ARBITRARY —
index safety, linearity, reset hold for every kernel; the on-grid statements assume exactly the three
ideal-kernel facts `π ≠ 0`, `sin(π k) = 0` for integers `k ≥ 1`, `cos 0 = 1`.

What is proved vs. measured. Proved (exact arithmetic): index safety in every reachable state, linearity,
exact delay by `depth` at ratio 1 from zero padding, reset = initial silent state. MEASURED on every run
by the harness (tests, labelled so in props/C18.json): the f64 deviation at ratio 1 stays within
1e-12·peak for depths 1..64 (in f64 `sin(π k)` is ~1e-16·k, not 0), finiteness, constant reproduction
within 1 % for depth ≥ 4 once 2·depth equal frames are buffered, f64 superposition/scaling within rounding.
Integer sample formats are not modelled.

Recorded observation (not a C18 violation): `rightmost_tap_wraps` — once primed, the last right tap reads
ring index `len`, which wraps to the OLDEST frame; its weight is 0 on the grid and small off it, and
linearity, finiteness and constant reproduction are unaffected. -/
namespace Dasp.Sinc
open Dasp.Conv

variable (sn cs : Rat → Rat) (pi : Rat)

local notation "AR" => ratArith sn cs pi

/-- **Index safety in every reachable state, priming included** ("the priming phase where fewer than depth
    frames are available (index arithmetic on unsigned values)"). Start from `Sinc::new(ring)` on any
    even-length ring whose `first` is inside it (the invariant `Fixed` maintains) and apply ANY sequence
    of `next_source_frame` / `interpolate` / `reset`. In the state reached:
    `len - depth` (usize) does not underflow; the `isize` sum cast with `as usize` is `≥ 0`;
    `max_depth = min(idx+1, depth) ≥ 1`; for every tap `n < max_depth` the usize subtraction `nl - n`
    does not underflow; every slice index the ring computes is `< len`. -/
theorem no_underflow_no_out_of_range {F : Type} (eq : List F) (ring : Ring F) (hf : ring.first < ring.len)
    (s0 : St F) (hnew : new ring = some s0) (ops : List (Op F)) :
    let s := ops.foldl (step eq) s0
    (depth s : Int) ≤ s.ring.len ∧
    (0 : Int) ≤ (depth s : Int) + ((s.idx : Int) + 1 - depth s) ∧
    maxDepthI s = min ((s.idx : Int) + 1) (depth s) ∧ 1 ≤ maxDepthI s ∧
    maxDepth s = min (s.idx + 1) (depth s) ∧
    (∀ n, n < maxDepth s → n ≤ s.idx) ∧
    (∀ i, (s.ring.first + i) % s.ring.len < s.ring.len) :=
  index_safe _ (inv_run eq ops s0 (inv_new ring s0 hnew hf))

/-- `Sinc::new` accepts exactly the rings of even length -/
theorem new_iff_even {F : Type} (ring : Ring F) : (new ring).isSome = true ↔ ring.len % 2 = 0 := by
  unfold new; split <;> simp [*]

/-- **Superposition** ("the interpolated frame is a linear function of the buffered frames (… superposition
    of inputs carr[ies] over to outputs …)"): for a fixed position `x`, read index and ring geometry and ANY
    kernel, if every buffered frame of `s12` is the channel-wise sum of the corresponding frames of `s1`
    and `s2`, then so is the interpolated frame. (`eq` = zeros, so `eq + eq = eq`.) -/
theorem superposition (eq : List Rat) (heq : List.zipWith (· + ·) eq eq = eq) (s1 s2 s12 : St Rat) (x : Rat)
    (hi1 : s12.idx = s1.idx) (hi2 : s12.idx = s2.idx) (hl1 : s12.ring.len = s1.ring.len)
    (hl2 : s12.ring.len = s2.ring.len)
    (hget : ∀ i, s12.ring.get eq i = List.zipWith (· + ·) (s1.ring.get eq i) (s2.ring.get eq i)) :
    interpolate AR eq s12 x = List.zipWith (· + ·) (interpolate AR eq s1 x) (interpolate AR eq s2 x) :=
  interpolate_add sn cs pi eq heq s1 s2 s12 x hi1 hi2 hl1 hl2 hget

/-- **Scaling** ("scaling … of inputs carr[ies] over to outputs"): scaling every buffered frame by `c`
    scales the interpolated frame by `c`, for any kernel and position. -/
theorem scaling (eq : List Rat) (c : Rat) (heq : eq.map (c * ·) = eq) (s sc : St Rat) (x : Rat)
    (hi : sc.idx = s.idx) (hl : sc.ring.len = s.ring.len)
    (hget : ∀ i, sc.ring.get eq i = (s.ring.get eq i).map (c * ·)) :
    interpolate AR eq sc x = (interpolate AR eq s x).map (c * ·) :=
  interpolate_smul sn cs pi eq c heq s sc x hi hl hget

/-- **On the grid** the kernel is the unit impulse: with `π ≠ 0`, `sin(π k) = 0` (k ≥ 1), `cos 0 = 1`, the
    weight of the left tap 0 at `x = 0` is 1 (the code's explicit `a == 0.0` branch supplies the `1` of
    `sin(0)/0`) and every other weight is 0, so `interpolate(0)` returns exactly the frame at the read
    index — in every reachable state with frames of one width. -/
theorem on_grid_is_read_frame (hpi : pi ≠ 0) (hsin : ∀ k : Nat, 1 ≤ k → sn (pi * (k : Rat)) = 0)
    (hcos : cs 0 = 1) (ch : Nat) (eq : List Rat) (s : St Rat) (hinv : Inv s) (hwf : WF ch eq s) :
    (kernel AR (depth s) 0 0 = 1 ∧ (∀ n, 1 ≤ n → kernel AR (depth s) 0 n = 0) ∧
      (∀ n, kernel AR (depth s) (1 - 0) n = 0)) ∧
    interpolate AR eq s 0 = s.ring.get eq s.idx :=
  ⟨kernel_grid sn cs pi hpi hsin hcos (depth s), interpolate_grid sn cs pi hpi hsin hcos ch eq s hinv hwf⟩

/-- **Exact delay of `depth` at ratio 1** ("For any depth >= 1 with zero-initialised padding, resampling at
    ratio exactly 1 reproduces the source delayed by exactly depth frames"). A `Converter` at ratio 1
    around `Sinc::new` of `2·d` equilibrium frames, `d ≥ 1`, any source of `ch`-channel frames: output `n`
    is the zero frame for `n < d` and source frame `n − d` afterwards (equilibrium past the end of the
    source), with exactly `n` source pulls — in exact arithmetic under the ideal-kernel facts. (The f64
    deviation from this, ≤ 1e-12·peak, is measured per run.) -/
theorem ratio_one_exact_delay (hpi : pi ≠ 0) (hsin : ∀ k : Nat, 1 ≤ k → sn (pi * (k : Rat)) = 0)
    (hcos : cs 0 = 1) (ch d : Nat) (hd : 1 ≤ d) (eq : List Rat) (heq : eq = List.replicate ch 0)
    (frames : List (List Rat)) (hfr : ∀ f ∈ frames, f.length = ch) (ratio0 : Rat) (m n : Nat) (hn : n < m) :
    ∃ o, (run AR (sincInterp AR eq) eq (List.replicate m 1)
        ⟨⟨frames, 0⟩, ⟨⟨List.replicate (2 * d) eq, 0⟩, 0⟩, 0, ratio0⟩).1[n]? = some o ∧
      o.frame = (if n < d then eq else srcAt eq frames (n - d)) ∧ o.pulls = n := by
  obtain ⟨o, h1, h2, h3, _⟩ := converter_position sn cs pi (sincInterp AR eq) eq frames 0
    (⟨⟨List.replicate (2 * d) eq, 0⟩, 0⟩ : St Rat) ratio0 (List.replicate m 1)
    (by intro r hr; rw [List.eq_of_mem_replicate hr]; norm_num) n (by simpa using hn)
  rw [posAt_replicate_one m n (le_of_lt hn)] at h2 h3
  simp only [Int.floor_natCast, Int.toNat_natCast, Int.cast_natCast, sub_self, Nat.zero_add] at h2 h3
  obtain ⟨hinv, hwf, hread⟩ := fed_read_frame sn cs pi ch d hd eq heq frames hfr n
  refine ⟨o, h1, ?_, h2⟩
  rw [h3]
  show interpolate AR eq _ 0 = _
  rw [interpolate_grid sn cs pi hpi hsin hcos ch eq _ hinv hwf]
  exact hread

/-- **Reset** ("resetting returns the interpolator to its initial silent state"): from any reachable state
    `reset` yields exactly the state `Sinc::new` builds from a ring of `len` equilibrium frames
    (`idx = 0`, `first = 0`, every frame equilibrium), and that state is silent: it interpolates to the
    zero frame at every position, for any kernel. -/
theorem reset_is_initial_silent_state (ch : Nat) (eq : List Rat) (heq : eq = List.replicate ch 0) (s : St Rat)
    (h : Inv s) :
    reset eq s = ⟨⟨List.replicate s.ring.len eq, 0⟩, 0⟩ ∧
    new (⟨List.replicate s.ring.len eq, 0⟩ : Ring Rat) = some (reset eq s) ∧
    ∀ x, interpolate AR eq (reset eq s) x = eq := by
  obtain ⟨e1, e2⟩ := reset_eq_new eq s h
  refine ⟨e1, e2, fun x => interpolate_silent sn cs pi ch eq heq _ ?_ x⟩
  intro i
  rw [e1]
  simp only [Ring.get, List.getD_eq_getElem?_getD]
  cases hj : (List.replicate s.ring.len eq)[(0 + i) % (⟨List.replicate s.ring.len eq, 0⟩ : Ring Rat).len]? with
  | none => rfl
  | some f =>
    have := List.mem_of_getElem? hj
    simp at this
    simp [this.2]

/-- **Recorded observation** (DESIGN §7 C18; not a violation of C18): once primed (`idx = depth`) the
    rightmost tap `nr + (max_depth − 1)` has ring index `len` and wraps to index 0, the OLDEST frame. -/
theorem rightmost_tap_reads_oldest {F : Type} (eq : List F) (s : St F) (h : Inv s) (hp : s.idx = depth s) :
    s.idx + 1 + (maxDepth s - 1) = s.ring.len ∧
    s.ring.get eq (s.idx + 1 + (maxDepth s - 1)) = s.ring.get eq 0 :=
  rightmost_tap_wraps eq s h hp

/-! ## Non-vacuity: the hypotheses instantiated on concrete, non-trivial states -/

/-- an "ideal" rational kernel oracle: `pi = 3`, `sn` vanishing at the non-zero multiples of 3, `cs 0 = 1` -/
def snI (a : Rat) : Rat := if a.den = 1 ∧ a.num % 3 = 0 then 0 else 1
def csI (a : Rat) : Rat := if a = 0 then 1 else 1 / 2

theorem snI_grid (k : Nat) (_ : 1 ≤ k) : snI ((3 : Rat) * (k : Rat)) = 0 := by
  have e : (3 : Rat) * (k : Rat) = ((3 * k : Nat) : Rat) := by push_cast; ring
  rw [e]
  unfold snI
  have h1 : (((3 * k : Nat) : Rat)).den = 1 := Rat.den_natCast _
  have h2 : (((3 * k : Nat) : Rat)).num = ((3 * k : Nat) : Int) := Rat.num_natCast _
  rw [h1, h2]
  simp

/-- depth 2, mono, source 5,6,7,8 at ratio 1 under the ideal oracle: output 3 is source frame 1 -/
example : ∃ o, (run (ratArith snI csI 3) (sincInterp (ratArith snI csI 3) [0]) [0] (List.replicate 6 1)
      ⟨⟨[[5], [6], [7], [8]], 0⟩, ⟨⟨List.replicate (2 * 2) [0], 0⟩, 0⟩, 0, 1⟩).1[3]? = some o ∧
    o.frame = [6] ∧ o.pulls = 3 := by
  obtain ⟨o, h1, h2, h3⟩ := ratio_one_exact_delay snI csI 3 (by norm_num) snI_grid (by simp [csI]) 1 2 (by norm_num)
    [0] rfl [[5], [6], [7], [8]] (by intro f hf; simp at hf; rcases hf with h | h | h | h <;> rw [h] <;> rfl) 1 6 3
    (by norm_num)
  refine ⟨o, h1, ?_, h3⟩
  rw [h2]; simp [srcAt]

/-- a primed depth-2 state satisfies the invariant, so index safety applies: max_depth = 2 and both left
    taps `2 - 0`, `2 - 1` are non-negative -/
example : let s : St Rat := ⟨⟨[[1], [2], [3], [4]], 1⟩, 2⟩
    Inv s ∧ maxDepth s = 2 ∧ ∀ n, n < maxDepth s → n ≤ s.idx := by
  intro s
  have hinv : Inv s := ⟨by decide, by decide, by decide, by decide⟩
  obtain ⟨_, _, _, _, h5, h6, _⟩ := index_safe s hinv
  exact ⟨hinv, by rw [h5]; decide, h6⟩

/-- superposition on concrete rings: [1,2] + [10,20] = [11,22] buffered, arbitrary kernel (`id`, `id`, 3) -/
example (x : Rat) :
    interpolate (ratArith id id 3) [0] ⟨⟨[[11], [22]], 0⟩, 1⟩ x =
      List.zipWith (· + ·) (interpolate (ratArith id id 3) [0] ⟨⟨[[1], [2]], 0⟩, 1⟩ x)
        (interpolate (ratArith id id 3) [0] ⟨⟨[[10], [20]], 0⟩, 1⟩ x) := by
  refine superposition id id 3 [0] (by simp) ⟨⟨[[1], [2]], 0⟩, 1⟩ ⟨⟨[[10], [20]], 0⟩, 1⟩ ⟨⟨[[11], [22]], 0⟩, 1⟩ x
    rfl rfl rfl rfl ?_
  intro i
  have h : (0 + i) % 2 = 0 ∨ (0 + i) % 2 = 1 := by omega
  simp only [Ring.get, Ring.len, List.length_cons, List.length_nil]
  rcases h with h | h <;> rw [h] <;> norm_num

end Dasp.Sinc
