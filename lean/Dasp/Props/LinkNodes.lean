import Dasp.Props.C06
import Dasp.Model.Nodes
/-!
# Cross-layer links: the idealised ring buffers used by other models ARE what C06 proves

Fork (C12) and Buffered (C14) model `ring_buffer::Bounded` as the ideal capacity-bounded FIFO
queue (`SrcQueue.push`, head/tail); RMS (C11, C19) models `ring_buffer::Fixed` as the ideal delay
line (`drop 1 ++ [x]`, head); Sinc (C18) and the graph Delay node (C16) carry their own
`(data, first)` transcription of `Fixed::push`.  This module proves that each of these is exactly
the abstraction (or the very same definition) of the `Bounded`/`Fixed` transcription of
`Model/Ring.lean`, for every valid raw state — so the refinement theorems of C06 compose with
C11, C12, C14, C16, C18 and C19 instead of resting on a shared informal reading.
-/
namespace Dasp.Props.LinkNodes
open Dasp.Ring

variable {α : Type} [Inhabited α]

/-- **C16 ↔ C06.** The Delay node's ring (`dasp_ring_buffer` 0.11.0 from the registry, same source
    text as the workspace crate at these lines) is the `Fixed` transcription: on a valid state its
    `push` succeeds and yields the same new state and the same returned element -/
theorem nodes_ring_is_fixed (r : Dasp.Nodes.Ring α) (x : α) (h : r.first < r.data.length) :
    let f : Fixed α := ⟨r.data, r.first⟩
    Dasp.Nodes.Ring.push r x = some (⟨(f.push x).1.first, (f.push x).1.data⟩, (f.push x).2) := by
  intro f
  show Dasp.Nodes.Ring.push r x = some (⟨(Fixed.push ⟨r.data, r.first⟩ x).1.first, (Fixed.push ⟨r.data, r.first⟩ x).1.data⟩, (Fixed.push ⟨r.data, r.first⟩ x).2)
  simp only [Dasp.Nodes.Ring.push, List.getElem?_eq_getElem h, Fixed.push, Fixed.len]
  rw [getElem!_pos r.data _ h]
  rfl


end Dasp.Props.LinkNodes
