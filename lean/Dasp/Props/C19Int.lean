import Mathlib.Data.Rat.Floor
import Mathlib.Tactic.Linarith
/-!
# C19 — the envelope step on INTEGER sample formats

`Detector::next` on an integer format computes `d + to_int(fl(to_float(l - d) * gain))`: the difference is taken in
the integer format, scaled in the format's float type, converted back by truncation toward zero and added to the
detected value.  `intEnv d p = d + trunc p` is that last step for the scaled difference `p`.

* `int_env_between`: whenever the scaled difference lies between 0 and the exact difference `l - d` (which is what
  the rounded-arithmetic lemmas of `Props/C19.lean` give when `l - d` is exactly representable in the float type and
  `0 ≤ gain ≤ 1`: rounding is monotone and fixes representable values), the integer output lies between the previous
  envelope and the detected value.
* `int_env_overshoot_witness`: the hypothesis is needed — the concrete values of the known finding
  `C19-wide-int-difference-rounding` (i32 through binary32: `l - d = 2^30 + 65` rounds to `2^30 + 128` before the
  scaling by a gain that rounds to 1) give an output above the previous envelope.
-/
namespace Dasp.Props.C19Int

/-- float -> integer conversion of the signed amplitude: truncation toward zero -/
def trunc (q : ℚ) : ℤ := if 0 ≤ q then ⌊q⌋ else ⌈q⌉

/-- `d.add_amp(p.to_sample())` -/
def intEnv (d : ℤ) (p : ℚ) : ℤ := d + trunc p

theorem trunc_between_nonneg {q : ℚ} {n : ℤ} (h0 : 0 ≤ q) (h1 : q ≤ n) : 0 ≤ trunc q ∧ trunc q ≤ n := by
  unfold trunc; rw [if_pos h0]
  refine ⟨Int.floor_nonneg.mpr h0, ?_⟩
  have : (⌊q⌋ : ℚ) ≤ n := le_trans (Int.floor_le q) h1
  exact_mod_cast this

theorem trunc_between_nonpos {q : ℚ} {n : ℤ} (h0 : q ≤ 0) (h1 : (n : ℚ) ≤ q) : n ≤ trunc q ∧ trunc q ≤ 0 := by
  unfold trunc
  by_cases hq : 0 ≤ q
  · have : q = 0 := le_antisymm h0 hq
    subst this
    rw [if_pos (le_refl _)]
    have hn : n ≤ 0 := by exact_mod_cast h1
    simp [hn]
  · rw [if_neg hq]
    refine ⟨?_, ?_⟩
    · have : (n : ℚ) ≤ ⌈q⌉ := le_trans h1 (Int.le_ceil q)
      exact_mod_cast this
    · exact Int.ceil_le.mpr (by simpa using h0)

/-- *"hence it always lies between the previous envelope and the detected value"* on an integer format, given that the
    scaled difference lies between 0 and the exact difference -/
theorem int_env_between (l d : ℤ) (p : ℚ)
    (h : (0 ≤ p ∧ p ≤ ((l - d : ℤ) : ℚ)) ∨ (((l - d : ℤ) : ℚ) ≤ p ∧ p ≤ 0)) :
    min l d ≤ intEnv d p ∧ intEnv d p ≤ max l d := by
  unfold intEnv
  rcases h with ⟨h0, h1⟩ | ⟨h1, h0⟩
  · obtain ⟨a, b⟩ := trunc_between_nonneg h0 h1
    constructor
    · exact le_trans (min_le_right l d) (by linarith)
    · exact le_trans (by linarith) (le_max_left l d)
  · obtain ⟨a, b⟩ := trunc_between_nonpos h0 h1
    constructor
    · exact le_trans (min_le_left l d) (by linarith)
    · exact le_trans (by linarith) (le_max_right l d)

/-- time 0 (gain 0, scaled difference 0): the output is the detected value -/
theorem int_env_zero_gain (d : ℤ) : intEnv d 0 = d := by simp [intEnv, trunc]

/-- previous = detected: the output is the detected value whatever the gain -/
theorem int_env_fixed_point (d : ℤ) (g : ℚ) : intEnv d ((((d - d : ℤ)) : ℚ) * g) = d := by simp [intEnv, trunc]

/-- the hypotheses of `int_env_between` are satisfiable: l = 100, d = 40, gain 1/4 -/
example : min (100 : ℤ) 40 ≤ intEnv 40 (((100 - 40 : ℤ) : ℚ) * (1/4)) ∧ intEnv 40 (((100 - 40 : ℤ) : ℚ) * (1/4)) ≤ max 100 40 :=
  int_env_between 100 40 _ (Or.inl (by norm_num))

/-- the known finding: the difference 2^30 + 65 rounded to binary32 is 2^30 + 128; scaled by a gain that rounds to 1
    the output 0 + (2^30 + 128) exceeds the previous envelope 2^30 + 65 -/
theorem int_env_overshoot_witness :
    ¬ (intEnv 0 ((2 ^ 30 + 128 : ℤ) : ℚ) ≤ max (2 ^ 30 + 65) 0) := by
  have : intEnv 0 ((2 ^ 30 + 128 : ℤ) : ℚ) = 2 ^ 30 + 128 := by
    unfold intEnv trunc; rw [if_pos (by positivity)]; simp
  rw [this]; norm_num

end Dasp.Props.C19Int
