import Dasp.Lemmas.Rms
import Dasp.Lemmas.SqrtTrick
import Dasp.Lemmas.RmsRounding
import Dasp.Lemmas.RoundRel
import Mathlib.Analysis.Real.Sqrt
import Mathlib.Tactic.NormNum
/-!
# C11 — Windowed RMS equals the true RMS of the last N frames in every configuration

Property text (properties.jsonl, C11): *After any sequence of input frames and resets, the RMS
detector's output for each channel equals the square root of the mean of the squares of the most
recent N frames (a zero-initialised window counting as preceding silence) to within a rigorous
floating-point error bound, is never negative or NaN for finite input, and a reset restores the
all-zero state. This holds for float and integer frame formats, every window length and channel
count, through the signal adaptor as well, and in both the std build and the no_std build (where
the square root may be an approximation, within 7% relative error plus a negligible absolute term
at zero).*

`Dasp.Rms` (Model/Rms.lean) transcribes `dasp_rms/src/lib.rs` once, generically over the
arithmetic class `Dasp.Arith`; `driver_c11` runs it at the machine's binary32 / binary64 against the
compiled crate (std and no_std builds) on every run, the theorems below are about the *same*
definitions at an arbitrary linearly ordered field `K` (`ℚ`, `ℝ`), i.e. in exact arithmetic.
`hist ch ops` = per channel, the inputs since the last reset after the history `ops`;
`meanSq n l` = (sum of the last `n` entries of `0,…,0 (n times), l₀², l₁², …`) / n.

What is proved here and what is only measured:
* exact arithmetic, every history / N ≥ 1 / channel count: PROVED (sections 1-4);
* the no_std square root, every positive normal f32 / f64 bit pattern, constants read from
  ops.rs on this run: PROVED (section 5);
* "never negative": the clamp makes the running sum non-negative in ANY arithmetic: PROVED
  (`running_sum_never_negative`);
* *"to within a rigorous floating-point error bound"*: PROVED in section 6 for the standard model of
  rounded arithmetic (every operation = the exact one followed by a rounding `rnd` with
  `|rnd x − x| ≤ u·|x| + η`), for the very same `Chan.nextSquared`: after `k` frames since the last
  reset the returned mean square is within `δ + u·B + η + (1+u)·E_{k+1}/N` of the exact mean, with
  `E_{k+1} ≤ 2(k+1)(u(3N+4)B + 3η)` while `6u(k+1) ≤ 1`; the rounding of the executable soft-float
  (`Machine/FP.round`, = IEEE binary32/binary64 as validated bit-for-bit on every run) is proved to
  satisfy the hypothesis with `u = 2^−prec`, `η = 2^(emin−1)`, absent overflow.  What stays MEASURED:
  that no operation overflows for the inputs at hand (NaN-freedom; known finding for huge inputs),
  and — as a cross-check of the theorem's hypotheses against the hardware — the harness compares
  every output's deviation with an explicit bound formula on every run.
-/
set_option linter.unusedSectionVars false
set_option linter.dupNamespace false
set_option linter.unusedSimpArgs false

namespace Dasp.Props.C11
open Dasp Dasp.Exact Dasp.Rms

variable {K : Type} [Field K] [LinearOrder K] [IsStrictOrderedRing K]

/-! ## 1. The invariant: `square_sum` = sum of the window, so the clamp never fires -/

/-- *"After any sequence of input frames and resets"*: the state reached from the zero-initialised
    detector by ANY history is the specified one — every channel's window holds exactly the last `n`
    squares (zero-padded) of that channel's inputs since the last reset, and `square_sum` is exactly
    their sum. -/
theorem state_after_history {n : Nat} (hn : 1 ≤ n) (ch : Nat) (sqrt : K → K) (ops : List (Op K)) :
    ((Rms.init ch n : Rms K).run sqrt ops).1 = Rms.spec n (hist ch ops) := by
  rw [Rms.init_eq, Rms.run_spec hn]; rfl

/-- the invariant in plain terms: in every reachable state, for every channel, the running sum equals
    the sum of the window, the window has length `n` and holds no negative entry -/
theorem square_sum_eq_window_sum {n : Nat} (hn : 1 ≤ n) (ch : Nat) (sqrt : K → K) (ops : List (Op K)) :
    ∀ c ∈ ((Rms.init ch n : Rms K).run sqrt ops).1.chans,
      c.sum = c.window.sum ∧ c.window.length = n ∧ ∀ y ∈ c.window, 0 ≤ y := by
  rw [state_after_history hn]
  intro c hc
  simp only [Rms.spec, List.mem_map] at hc
  obtain ⟨l, _, rfl⟩ := hc
  exact ⟨rfl, specWindow_length n l, specWindow_nonneg n l⟩

/-! ## 2. The outputs -/

/-- *"the RMS detector's output for each channel equals … the mean of the squares of the most recent
    N frames (a zero-initialised window counting as preceding silence)"*: after any history, the
    frame returned by `next_squared(f)` holds, per channel, the mean of the squares of the last `n`
    inputs of that channel (this one included); the clamp at zero did not alter it. -/
theorem next_squared_is_mean {n : Nat} (hn : 1 ≤ n) (ch : Nat) (sqrt : K → K) (ops : List (Op K)) (f : List K) :
    (((Rms.init ch n : Rms K).run sqrt ops).1.nextSquared f).2
      = List.zipWith (fun l x => meanSq n (l ++ [x])) (hist ch ops) f := by
  rw [state_after_history hn, Rms.nextSquared_spec hn]

/-- `next` returns the square root (whatever function the build uses for it) of exactly that mean -/
theorem next_is_sqrt_of_mean {n : Nat} (hn : 1 ≤ n) (ch : Nat) (sqrt : K → K) (ops : List (Op K)) (f : List K) :
    (((Rms.init ch n : Rms K).run sqrt ops).1.next sqrt f).2
      = List.zipWith (fun l x => sqrt (meanSq n (l ++ [x]))) (hist ch ops) f := by
  rw [state_after_history hn, Rms.next_spec hn]

/-- `current` likewise, without a new frame -/
theorem current_is_sqrt_of_mean {n : Nat} (hn : 1 ≤ n) (ch : Nat) (sqrt : K → K) (ops : List (Op K)) :
    ((Rms.init ch n : Rms K).run sqrt ops).1.current sqrt = (hist ch ops).map fun l => sqrt (meanSq n l) := by
  rw [state_after_history hn, Rms.current_spec]

/-- *"for each channel"*: channel `c` of the output depends on channel `c` of the inputs only -/
theorem per_channel {n : Nat} (hn : 1 ≤ n) (ch : Nat) (sqrt : K → K) (ops : List (Op K)) (f : List K) (c : Nat)
    (h1 : c < (hist ch ops).length) (h2 : c < f.length) :
    (((Rms.init ch n : Rms K).run sqrt ops).1.next sqrt f).2[c]? = some (sqrt (meanSq n ((hist ch ops)[c] ++ [f[c]]))) := by
  rw [next_is_sqrt_of_mean hn]
  simp [List.getElem?_zipWith, h1, h2]

/-- the zero padding is silent: the mean is (the sum of the squares of the last `min n len`
    inputs) / n -/
theorem mean_is_mean_of_last_n (n : Nat) (l : List K) :
    meanSq n l = ((lastN n l).map fun x => x * x).sum / n := by
  rw [meanSq, specWindow_sum]

/-- with an exact square root — over the reals — the output IS the true RMS: non-negative, and its
    square is the mean of the last `n` squares -/
theorem real_rms_is_true_rms {n : Nat} (hn : 1 ≤ n) (ch : Nat) (ops : List (Op ℝ)) (f : List ℝ) :
    (((Rms.init ch n : Rms ℝ).run Real.sqrt ops).1.next Real.sqrt f).2
      = List.zipWith (fun l x => Real.sqrt (((lastN n (l ++ [x])).map fun y => y * y).sum / n)) (hist ch ops) f
    ∧ ∀ o ∈ (((Rms.init ch n : Rms ℝ).run Real.sqrt ops).1.next Real.sqrt f).2, 0 ≤ o := by
  constructor
  · rw [next_is_sqrt_of_mean hn]; simp only [mean_is_mean_of_last_n]
  · rw [next_is_sqrt_of_mean hn]
    intro o ho
    obtain ⟨i, hi, rfl⟩ := List.mem_iff_getElem.mp ho
    rw [List.getElem_zipWith]; exact Real.sqrt_nonneg _

/-- for any square-root function that is exact on the value at hand (e.g. over `ℚ` when the mean is a
    perfect square): output² = mean -/
theorem next_sq_eq_mean {n : Nat} (hn : 1 ≤ n) (sqrt : K → K) (l : List K) (x : K)
    (hs : sqrt (meanSq n (l ++ [x])) * sqrt (meanSq n (l ++ [x])) = meanSq n (l ++ [x])) :
    let o := ((Chan.spec n l).next sqrt x).2
    o * o = meanSq n (l ++ [x]) := by
  simp only [Chan.next_spec hn]; exact hs

/-- the mean of squares is never negative (so an exact root exists over `ℝ`) -/
theorem mean_nonneg (n : Nat) (l : List K) : 0 ≤ meanSq n l :=
  div_nonneg (List.sum_nonneg (specWindow_nonneg n l)) (Nat.cast_nonneg n)

/-! ## 3. Reset -/

/-- *"a reset restores the all-zero state"*: after any history of well-formed frames, `reset` gives
    back exactly the state `Rms::new` built over the zero-initialised ring buffer -/
theorem reset_restores_initial_state {n : Nat} (hn : 1 ≤ n) (ch : Nat) (sqrt : K → K) (ops : List (Op K))
    (hw : ∀ op ∈ ops, op.WF ch) :
    ((Rms.init ch n : Rms K).run sqrt ops).1.reset = Rms.init ch n := by
  rw [state_after_history hn, Rms.reset_spec, Rms.init_eq]
  have hl : (hist ch ops).length = ch := hist_length ops hw _ (by simp)
  congr 1
  rw [List.map_const', hl]

/-- `window_frames` is `n` in every reachable state (the window never changes length) -/
theorem window_frames_const {n : Nat} (hn : 1 ≤ n) (ch : Nat) (hch : 1 ≤ ch) (sqrt : K → K) (ops : List (Op K))
    (hw : ∀ op ∈ ops, op.WF ch) :
    ((Rms.init ch n : Rms K).run sqrt ops).1.windowFrames = n := by
  rw [state_after_history hn]
  have hl : (hist ch ops).length = ch := hist_length ops hw _ (by simp)
  match h : hist ch ops with
  | [] => rw [h] at hl; simp at hl; omega
  | l :: ls => simp [Rms.windowFrames, Rms.spec, Chan.windowFrames_spec]

/-- what the detector HOLDS after any history (`rms.clone().into_parts()`): per channel, the window is exactly the
    last `n` squares (zero-padded, oldest first) of that channel's inputs since the last reset, and `square_sum` their sum -/
theorem parts_after_history {n : Nat} (hn : 1 ≤ n) (ch : Nat) (hch : 1 ≤ ch) (sqrt : K → K) (ops : List (Op K))
    (hw : ∀ op ∈ ops, op.WF ch) :
    (((Rms.init ch n : Rms K).run sqrt ops).1.step sqrt .parts).2 =
      .parts ((List.range n).map fun i => (hist ch ops).map fun l => (specWindow n l).getD i 0)
             ((hist ch ops).map fun l => (specWindow n l).sum) := by
  have hwf := window_frames_const hn ch hch sqrt ops hw
  simp only [Rms.step, hwf]
  rw [state_after_history hn]
  simp [Rms.spec, Chan.spec, Arith.zero, Function.comp_def]

/-! ## 4. Any arithmetic (floats included): the clamp; the signal adaptor -/

/-- *"is never negative"*, the part that holds in ANY arithmetic, the machine floats included: after
    `next_squared` the running sum is not `< 0` (only `0 < 0 = false` is used).  -/
theorem running_sum_never_negative {α : Type} [Arith α] (h0 : Arith.lt (Arith.zero : α) Arith.zero = false)
    (c : Chan α) (s : α) : Arith.lt (c.nextSquared s).1.sum Arith.zero = false :=
  Chan.sum_not_neg h0 c s

/-- *"through the signal adaptor as well"* (any arithmetic): `k` outputs of `signal.rms(ring)` are the
    detector's outputs on the first `k` source frames; exactly one source frame is pulled per output -/
theorem adaptor_is_detector_on_source {α : Type} [Arith α] (sqrt : α → α) (k : Nat) (a : Adaptor α)
    (hk : k ≤ a.src.length) :
    (Adaptor.take sqrt k a).2 = (Rms.feed sqrt a.rms (a.src.take k)).2 ∧
    (Adaptor.take sqrt k a).1.pulls = a.pulls + k :=
  ⟨(Adaptor.take_eq_feed sqrt k a hk).1, (Adaptor.take_eq_feed sqrt k a hk).2.2.1⟩

/-! ## 5. The no_std square root (dasp_sample/src/ops.rs), constants regenerated from the source -/

open Dasp.SqrtTrick

/-- *"in … the no_std build (where the square root may be an approximation, within 7% relative
    error …)"*, f32: for EVERY positive normal binary32 `x` (exponent field 1..254, any mantissa) the
    bit trick returns a positive normal `a` with `0.93²·x ≤ a² ≤ 1.07²·x`, i.e. `0.93·√x ≤ a ≤ 1.07·√x`
    (sharper: `(1−3·2^−24)·x ≤ a² ≤ 1.125·x`, so `a/√x ∈ [0.9999999, 1.0607]`); the `u32` addition
    does not overflow (no panic in builds with overflow checks). -/
theorem nostd_sqrt_f32_within_7_percent (E M : ℕ) (hE1 : 1 ≤ E) (hE2 : E ≤ 254) (hM : M < 2 ^ 23) :
    let r := approx32 (E * 2 ^ 23 + M)
    let x := normVal 23 127 E M
    let a := normVal 23 127 (r / 2 ^ 23) (r % 2 ^ 23)
    E * 2 ^ 23 + M + Gen.Sqrt.bias32 < 2 ^ 32 ∧ 1 ≤ r / 2 ^ 23 ∧ r / 2 ^ 23 ≤ 254 ∧
    (93/100) ^ 2 * x ≤ a ^ 2 ∧ a ^ 2 ≤ (107/100) ^ 2 * x ∧ (1 - 3 / 2 ^ 24) * x ≤ a ^ 2 ∧ a ^ 2 ≤ (9/8) * x := by
  intro r x a
  obtain ⟨h0, h1, h2, h3, h4⟩ := approx32_bound E M hE1 hE2 hM
  have hx : 0 ≤ x := le_of_lt (normVal_pos _ _ _ _)
  obtain ⟨s1, s2⟩ := seven_percent (a ^ 2) x (3 / 2 ^ 24) hx (by norm_num) h3 h4
  exact ⟨h0, h1, h2, s1, s2, h3, h4⟩

/-- the same for f64 (exponent field 1..2046, bias 1023, 52 mantissa bits).  With the f32 bias in the
    f64 function (the defect fixed in 5eee3f8) this theorem does not check. -/
theorem nostd_sqrt_f64_within_7_percent (E M : ℕ) (hE1 : 1 ≤ E) (hE2 : E ≤ 2046) (hM : M < 2 ^ 52) :
    let r := approx64 (E * 2 ^ 52 + M)
    let x := normVal 52 1023 E M
    let a := normVal 52 1023 (r / 2 ^ 52) (r % 2 ^ 52)
    E * 2 ^ 52 + M + Gen.Sqrt.bias64 < 2 ^ 64 ∧ 1 ≤ r / 2 ^ 52 ∧ r / 2 ^ 52 ≤ 2046 ∧
    (93/100) ^ 2 * x ≤ a ^ 2 ∧ a ^ 2 ≤ (107/100) ^ 2 * x ∧ (1 - 3 / 2 ^ 53) * x ≤ a ^ 2 ∧ a ^ 2 ≤ (9/8) * x := by
  intro r x a
  obtain ⟨h0, h1, h2, h3, h4⟩ := approx64_bound E M hE1 hE2 hM
  have hx : 0 ≤ x := le_of_lt (normVal_pos _ _ _ _)
  obtain ⟨s1, s2⟩ := seven_percent (a ^ 2) x (3 / 2 ^ 53) hx (by norm_num) h3 h4
  exact ⟨h0, h1, h2, s1, s2, h3, h4⟩

/-- the 7 % statement about the root itself, over `ℝ`: `|a − √x| ≤ 0.07·√x` follows from the bound on
    the squares for any `a ≥ 0`, `x ≥ 0` -/
theorem root_within_7_percent_of_squares (a x : ℝ) (ha : 0 ≤ a) (hx : 0 ≤ x)
    (h1 : (93/100) ^ 2 * x ≤ a ^ 2) (h2 : a ^ 2 ≤ (107/100) ^ 2 * x) :
    |a - Real.sqrt x| ≤ (7/100) * Real.sqrt x := by
  have hs := Real.sqrt_nonneg x
  have hxx : Real.sqrt x ^ 2 = x := Real.sq_sqrt hx
  rw [abs_le]
  constructor
  · by_contra h
    have h := not_le.mp h
    have : a < (93/100) * Real.sqrt x := by linarith
    have : a ^ 2 < ((93/100) * Real.sqrt x) ^ 2 := by
      apply sq_lt_sq' <;> nlinarith
    nlinarith
  · by_contra h
    have h := not_le.mp h
    have h' : (107/100) * Real.sqrt x < a := by linarith
    have : ((107/100) * Real.sqrt x) ^ 2 < a ^ 2 := by
      apply sq_lt_sq' <;> nlinarith
    nlinarith

/-- *"plus a negligible absolute term at zero"*: `sqrt(+0.0)` is the pattern `BIAS >> 1`, i.e.
    `1.5·2^−64 ≈ 8.1e−20` (f32) and `1.5·2^−512 ≈ 1.1e−154` (f64) -/
theorem nostd_sqrt_at_zero : approx32 0 = 0x1fc00000 ∧ approx64 0 = 0x1ff8000000000000 := by
  constructor <;> simp [approx32, approx64, approxBits, Gen.Sqrt.bias32, Gen.Sqrt.shift32, Gen.Sqrt.bias64, Gen.Sqrt.shift64, Nat.shiftRight_eq_div_pow]


/-! ## 6. Rounded arithmetic: the rigorous floating-point error bound

`Rounding.rndArith rnd` is the arithmetic in which every operation of `Model/Rms.lean` is the exact
one followed by `rnd`; `Rounding.nextSqR rnd` is `Chan.nextSquared` in that arithmetic and
`Rounding.feedR rnd c xs` the state after the inputs `xs`.  `N ≤ 2^24` is assumed in that
`window.len() as f32` is taken to be exact. -/

open Dasp.Rms.Rounding

/-- the bound on the computed squares and on their distance from the true squares that follows
    from a bound `M` on the true squares -/
theorem square_bounds {rnd : K → K} {u η M : K} (ok : RndOK rnd u η) (x : K) (hM : x * x ≤ M) :
    rnd (x * x) ≤ (1 + u) * M + η ∧ |rnd (x * x) - x * x| ≤ u * M + η := by
  have h := ok.err (x * x)
  have h0 : 0 ≤ x * x := mul_self_nonneg x
  rw [abs_of_nonneg h0] at h
  have hu : u * (x * x) ≤ u * M := mul_le_mul_of_nonneg_left hM ok.u0
  have h' := abs_le.mp h
  refine ⟨by linarith, le_trans h (by linarith)⟩

/-- *"After any sequence of input frames"* (rounded arithmetic): after ANY `k` inputs whose squares
    are at most `M`, the running sum the code holds differs from the sum of the squares in its window
    by at most `E_k`, the window has length `N`, and every stored square is within `u·M + η` of the
    true square. -/
theorem rounded_running_sum_drift {n : Nat} (hn : 1 ≤ n) {rnd : K → K} {u η M : K} (ok : RndOK rnd u η)
    (hM0 : 0 ≤ M) (xs : List K) (hM : ∀ x ∈ xs, x * x ≤ M) :
    let B := (1 + u) * M + η
    let c := feedR rnd (@Chan.init K (rndArith rnd) n) xs
    |c.sum - c.window.sum| ≤ errBound u (stepC n u η B) xs.length ∧ c.window.length = n ∧
    List.Forall₂ (fun a b => |a - b| ≤ u * M + η) c.window (specWindow n xs) := by
  intro B c
  have hB : 0 ≤ B := by have := ok.u0; have := ok.η0; positivity
  have hδ : 0 ≤ u * M + η := by have := ok.u0; have := ok.η0; positivity
  have := RInv.feed hn ok hB hδ xs (fun x hx => square_bounds ok x (hM x hx))
  exact ⟨this.sum, this.len, this.close⟩

/-- *"equals … the mean of the squares of the most recent N frames … to within a rigorous
    floating-point error bound"*: after any `k` inputs since the last reset, the value `next_squared`
    returns for the next input is within
    `(u·M + η) + u·B + η + (1+u)·E_{k+1}/N` of the exact mean of the squares of the last `N` inputs,
    `B = (1+u)·M + η`, `E` the drift recurrence `E_{j+1} = (1+3u)·E_j + u(3N+4)B + 3η`. -/
theorem rounded_next_squared_error_bound {n : Nat} (hn : 1 ≤ n) {rnd : K → K} {u η M : K} (ok : RndOK rnd u η)
    (hM0 : 0 ≤ M) (xs : List K) (x : K) (hM : ∀ y ∈ xs ++ [x], y * y ≤ M) :
    let B := (1 + u) * M + η
    |(nextSqR rnd (feedR rnd (@Chan.init K (rndArith rnd) n) xs) x).2 - meanSq n (xs ++ [x])|
      ≤ (u * M + η) + u * B + η + (1 + u) * errBound u (stepC n u η B) (xs.length + 1) / n := by
  intro B
  have hB : 0 ≤ B := by have := ok.u0; have := ok.η0; positivity
  have hδ : 0 ≤ u * M + η := by have := ok.u0; have := ok.η0; positivity
  have hC : 0 ≤ stepC n u η B := by have := ok.u0; have := ok.η0; unfold stepC; positivity
  have hinv := RInv.feed hn ok hB hδ xs (fun y hy => square_bounds ok y (hM y (by simp [hy])))
  obtain ⟨h1, h2⟩ := square_bounds ok x (hM x (by simp))
  exact out_close hn ok hB (errBound_nonneg ok.u0 hC _) hδ hinv x h1 h2

/-- the same bound in closed form, linear in the number of frames since the last reset, for
    histories with `6·u·(k+1) ≤ 1` (k < 2.7·10^6 frames in f32, < 1.5·10^15 in f64):
    `|out − mean| ≤ (u·M + η) + u·B + η + (1+u)·2(k+1)(u(3N+4)B + 3η)/N` -/
theorem rounded_next_squared_error_bound_linear {n : Nat} (hn : 1 ≤ n) {rnd : K → K} {u η M : K}
    (ok : RndOK rnd u η) (hM0 : 0 ≤ M) (xs : List K) (x : K) (hM : ∀ y ∈ xs ++ [x], y * y ≤ M)
    (hk : 6 * u * ((xs.length + 1 : Nat) : K) ≤ 1) :
    let B := (1 + u) * M + η
    |(nextSqR rnd (feedR rnd (@Chan.init K (rndArith rnd) n) xs) x).2 - meanSq n (xs ++ [x])|
      ≤ (u * M + η) + u * B + η + (1 + u) * (2 * ((xs.length + 1 : Nat) : K) * stepC n u η B) / n := by
  intro B
  have hB : 0 ≤ B := by have := ok.u0; have := ok.η0; positivity
  have hC : 0 ≤ stepC n u η B := by have := ok.u0; have := ok.η0; unfold stepC; positivity
  have h1 := rounded_next_squared_error_bound hn ok hM0 xs x hM
  have h2 := errBound_linear ok.u0 hC (xs.length + 1) hk
  have hnK : (0 : K) < n := by exact_mod_cast (show 0 < n by omega)
  have hu := ok.u0
  have h3 : (1 + u) * errBound u (stepC n u η B) (xs.length + 1) / n
      ≤ (1 + u) * (2 * ((xs.length + 1 : Nat) : K) * stepC n u η B) / n := by
    apply div_le_div_of_nonneg_right _ (le_of_lt hnK)
    exact mul_le_mul_of_nonneg_left h2 (by linarith)
  exact le_trans h1 (by linarith)

/-- *"and resets"*: a reset from any state whose window has its length `N` leads to the initial
    state also in rounded arithmetic, so the drift bound restarts from zero: the bounds above count
    the frames since the last reset -/
theorem rounded_reset_restarts {n : Nat} (rnd : K → K) (c : Chan K) (h : c.window.length = n) (xs : List K) :
    feedR rnd (@Chan.reset K (rndArith rnd) c) xs = feedR rnd (@Chan.init K (rndArith rnd) n) xs := by
  rw [reset_eq_init rnd c h]

/-- the hypothesis is what IEEE rounding provides: the rounding function of the executable
    soft-float (`Machine/FP.round` returns exactly `rs F x` whenever it returns a finite value,
    `round_toRat_eq_rs`) satisfies `RndOK` with `u = 2^−prec`, `η = 2^(emin−1)` — binary32:
    `u = 2^−24`, `η = 2^−150`; binary64: `u = 2^−53`, `η = 2^−1075` -/
theorem softfloat_rounding_ok (F : Fmt2) (hp : 0 < F.prec) :
    RndOK (rs F) (pow2 (-(F.prec : Int))) (pow2 (F.emin - 1)) where
  u0 := le_of_lt (pow2_pos _)
  u1 := by
    have : pow2 (-(F.prec : Int)) ≤ pow2 0 := pow2_mono (by omega)
    simpa [pow2] using this
  η0 := le_of_lt (pow2_pos _)
  err := rs_err F
  nonneg := fun _ hx => rs_nonneg F hx

/-- the value of a finite soft-float result IS `rs` of the exact result (no overflow), so the
    analysis above is about the numbers `Machine/FP.add/mul/div` produce -/
theorem softfloat_value_is_rs (F : Fmt2) (neg : Bool) (x v : ℚ) (h : (round F neg x).toRat? = some v) :
    v = rs F x := round_toRat_eq_rs F neg x v h

/-- binary32 instance of the error bound, window 4, squares ≤ 1, 3 frames of history:
    every hypothesis is satisfiable and the bound is a concrete small number -/
example : RndOK (rs f32) (pow2 (-24)) (pow2 (-150)) := softfloat_rounding_ok f32 (by decide)

example :
    let u : ℚ := pow2 (-(f32.prec : Int)); let η : ℚ := pow2 (f32.emin - 1); let B := (1 + u) * 1 + η
    |(nextSqR (rs f32) (feedR (rs f32) (@Chan.init ℚ (rndArith (rs f32)) 4) [1/2, -1/3]) (1/5)).2
        - meanSq 4 ([1/2, -1/3] ++ [1/5])|
      ≤ (u * 1 + η) + u * B + η + (1 + u) * errBound u (stepC 4 u η B) (([1/2, -1/3] : List ℚ).length + 1) / (4 : ℕ) :=
  rounded_next_squared_error_bound (n := 4) (by norm_num) (softfloat_rounding_ok f32 (by decide)) (M := 1)
    (by norm_num) [1/2, -1/3] (1/5)
    (by intro y hy; simp at hy; rcases hy with rfl | rfl | rfl <;> norm_num)

/-! ## Non-vacuity: every hypothesis instantiated on concrete non-trivial data -/

/-- a square root on `ℚ` that is exact on perfect squares -/
def sqrtQ (q : ℚ) : ℚ := (Nat.sqrt q.num.toNat : ℚ) / (Nat.sqrt q.den : ℚ)

/-- window of 2 frames, mono: the history `1, reset, 1, 7` — the window has turned over and been
    reset; the mean of the last two squares is (1 + 49)/2 = 25 -/
example : meanSq 2 ([1, 7] : List ℚ) = 25 := by
  norm_num [meanSq, specWindow, lastN]

example : hist 1 ([.next [1], .reset, .next [1]] : List (Op ℚ)) = [[1]] := by
  simp [hist, histStep, pushFrame]

example :
    (((Rms.init 1 2 : Rms ℚ).run sqrtQ [.next [1], .reset, .next [1]]).1.nextSquared [7]).2 = [25] := by
  rw [next_squared_is_mean (by norm_num)]
  norm_num [hist, histStep, pushFrame, meanSq, specWindow, lastN, List.replicate]

/-- two channels, window 3, four frames (the first one has left the window) -/
example :
    (((Rms.init 2 3 : Rms ℚ).run sqrtQ [.next [5, 1], .next [1, 2], .nextSquared [1, 2]]).1.nextSquared [1, 1]).2 = [1, 3] := by
  rw [next_squared_is_mean (by norm_num)]
  norm_num [hist, histStep, pushFrame, meanSq, specWindow, lastN, List.replicate]

/-- the well-formedness hypothesis of `reset_restores_initial_state` is satisfiable -/
example : ∀ op ∈ ([.next [5, 1], .reset, .current, .nextSquared [1, 2]] : List (Op ℚ)), op.WF 2 := by
  intro op h; simp at h; rcases h with rfl | rfl | rfl | rfl <;> simp [Op.WF]

/-- the bit-trick theorem at x = 4.0f32 (E = 129, M = 0): the result is exactly 2.0 (E' = 128, M' = 0) -/
example : approx32 (129 * 2 ^ 23 + 0) = 128 * 2 ^ 23 := by
  simp [approx32, approxBits, Gen.Sqrt.bias32, Gen.Sqrt.shift32, Nat.shiftRight_eq_div_pow]

/-- … and at x = 4.0f64 (E = 1025): exactly 2.0 (E' = 1024) — fails with the f32 bias -/
example : approx64 (1025 * 2 ^ 52 + 0) = 1024 * 2 ^ 52 := by
  simp [approx64, approxBits, Gen.Sqrt.bias64, Gen.Sqrt.shift64, Nat.shiftRight_eq_div_pow]

/-- the adaptor hypothesis `k ≤ src.length` on a concrete adaptor -/
example : (2 : Nat) ≤ (⟨[[1], [7], [3]], 1, Rms.init 1 2, 0⟩ : Adaptor ℚ).src.length := by decide

end Dasp.Props.C11
