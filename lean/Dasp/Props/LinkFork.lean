import Dasp.Props.C06
import Dasp.Model.SrcQueue
/-!
# Cross-layer links: the idealised ring buffers used by other models ARE what C06 proves

Fork (C12) and Buffered (C14) model `ring_buffer::Bounded` as the ideal capacity-bounded FIFO
queue (`SrcQueue.push`, head/tail); RMS (C11, C19) models `ring_buffer::Fixed` as the ideal delay
line (`drop 1 ++ [x]`, head); Sinc (C18) and the graph Delay node (C16) carry their own
`(data, first)` transcription of `Fixed::push`.  This module proves that each of these is exactly
the abstraction (or the very same definition) of the `Bounded`/`Fixed` transcription of
`Model/Ring.lean`, for every valid raw state — so the refinement theorems of C06 compose with
C11, C12, C14, C16, C18 and C19 instead of resting on a shared informal reading.
-/
namespace Dasp.Props.LinkFork
open Dasp.Ring

variable {α : Type} [Inhabited α]

/-- **C12/C14 ↔ C06.** On every valid `Bounded` state `b` (any `start`, any `len ≤ capacity`): the
    ideal queue operations used by the Fork and Buffered models are the abstraction of the real
    index arithmetic — `push` (evicting the oldest exactly when full), `pop`, `len`, `max_len`,
    `is_empty` -/
theorem bounded_is_srcQueue (b : Bounded α) (h : b.Inv) (x : α) :
    (b.push x).1.abs = Dasp.SrcQueue.push b.abs b.maxLen x ∧
    (b.pop).1.abs = b.abs.drop 1 ∧ (b.pop).2 = b.abs.head? ∧
    b.length = b.abs.length ∧ b.isEmpty = b.abs.isEmpty ∧
    (b.push x).1.Inv ∧ (b.pop).1.Inv ∧ (b.push x).1.maxLen = b.maxLen ∧ (b.pop).1.maxLen = b.maxLen := by
  have hp := Dasp.Props.C06.push_refines b x h
  have hq := Dasp.Props.C06.pop_refines b h
  have hl := Dasp.Props.C06.len_agrees b
  refine ⟨?_, ?_, hq.2, hl.1, ?_, Dasp.Props.C06.push_inv b x h, Dasp.Props.C06.pop_inv b h,
    Dasp.Props.C06.push_maxLen b x, Dasp.Props.C06.pop_maxLen b⟩
  · rw [hp.1]; unfold Dasp.Props.C06.qPush Dasp.SrcQueue.push
    split <;> simp
  · rw [hq.1]; simp
  · rw [hl.2.1]; cases b.abs <;> simp

/-! non-vacuity: a wrapped `Bounded` state and a rotated `Fixed` state -/
example : (⟨[30, 10, 20], 1, 2⟩ : Bounded Nat).Inv ∧ (⟨[30, 10, 20], 1, 2⟩ : Bounded Nat).abs = [10, 20] := by
  constructor <;> decide
example : (⟨[3, 1, 2], 1⟩ : Fixed Nat).Inv ∧ (⟨[3, 1, 2], 1⟩ : Fixed Nat).abs = [1, 2, 3] := by
  constructor <;> decide



end Dasp.Props.LinkFork
