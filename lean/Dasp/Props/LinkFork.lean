import Dasp.Props.C06
import Dasp.Model.SrcQueue
import Dasp.Model.OverBounded
/-!
# Cross-layer links: the idealised ring buffers used by other models ARE what C06 proves

Fork (C12) and Buffered (C14) model `ring_buffer::Bounded` as the ideal capacity-bounded FIFO
queue (`SrcQueue.push`, head/tail); RMS (C11, C19) models `ring_buffer::Fixed` as the ideal delay
line (`drop 1 ++ [x]`, head); Sinc (C18) and the graph Delay node (C16) carry their own
`(data, first)` transcription of `Fixed::push`.  This module proves that each of these is exactly
the abstraction (or the very same definition) of the `Bounded`/`Fixed` transcription of
`Model/Ring.lean`, for every valid raw state — so the refinement theorems of C06 compose with
C11, C12, C14, C16, C18 and C19 instead of resting on a shared informal reading.
-/
namespace Dasp.Props.LinkFork
open Dasp.Ring

variable {α : Type} [Inhabited α]

/-- **C12/C14 ↔ C06.** On every valid `Bounded` state `b` (any `start`, any `len ≤ capacity`): the
    ideal queue operations used by the Fork and Buffered models are the abstraction of the real
    index arithmetic — `push` (evicting the oldest exactly when full), `pop`, `len`, `max_len`,
    `is_empty` -/
theorem bounded_is_srcQueue (b : Bounded α) (h : b.Inv) (x : α) :
    (b.push x).1.abs = Dasp.SrcQueue.push b.abs b.maxLen x ∧
    (b.pop).1.abs = b.abs.drop 1 ∧ (b.pop).2 = b.abs.head? ∧
    b.length = b.abs.length ∧ b.isEmpty = b.abs.isEmpty ∧
    (b.push x).1.Inv ∧ (b.pop).1.Inv ∧ (b.push x).1.maxLen = b.maxLen ∧ (b.pop).1.maxLen = b.maxLen := by
  have hp := Dasp.Props.C06.push_refines b x h
  have hq := Dasp.Props.C06.pop_refines b h
  have hl := Dasp.Props.C06.len_agrees b
  refine ⟨?_, ?_, hq.2, hl.1, ?_, Dasp.Props.C06.push_inv b x h, Dasp.Props.C06.pop_inv b h,
    Dasp.Props.C06.push_maxLen b x, Dasp.Props.C06.pop_maxLen b⟩
  · rw [hp.1]; unfold Dasp.Props.C06.qPush Dasp.SrcQueue.push
    split <;> simp
  · rw [hq.1]; simp
  · rw [hl.2.1]; cases b.abs <;> simp

/-! non-vacuity: a wrapped `Bounded` state and a rotated `Fixed` state -/
example : (⟨[30, 10, 20], 1, 2⟩ : Bounded Nat).Inv ∧ (⟨[30, 10, 20], 1, 2⟩ : Bounded Nat).abs = [10, 20] := by
  constructor <;> decide
example : (⟨[3, 1, 2], 1⟩ : Fixed Nat).Inv ∧ (⟨[3, 1, 2], 1⟩ : Fixed Nat).abs = [1, 2, 3] := by
  constructor <;> decide




/-! ## Simulation: Fork and Buffered over the concrete `Bounded` state refine the abstract models -/
section sim
open Dasp.OverBounded Dasp.SrcQueue

/-- what `pop` does in terms of the abstraction, in match-friendly form -/
theorem pop_cases (b : Bounded α) (h : b.Inv) :
    (b.abs = [] ∧ (b.pop).2 = none) ∨ (∃ x r, b.abs = x :: r ∧ (b.pop).2 = some x ∧ (b.pop).1.abs = r) := by
  have hq := Dasp.Props.C06.pop_refines b h
  cases hb : b.abs with
  | nil => left; exact ⟨rfl, by rw [hq.2, hb]; rfl⟩
  | cons x r => right; exact ⟨x, r, rfl, by rw [hq.2, hb]; rfl, by rw [hq.1, hb]; rfl⟩

theorem forkB_pull_sim (s : ForkB α) (h : s.b.Inv) :
    (ForkB.pull s).1 = (Dasp.Fork.pull s.abs).1 ∧ (ForkB.pull s).2.abs = (Dasp.Fork.pull s.abs).2 ∧ (ForkB.pull s).2.b.Inv := by
  have hl := bounded_is_srcQueue s.b h (s.src.next).1
  refine ⟨rfl, ?_, hl.2.2.2.2.2.1⟩
  simp only [ForkB.pull, Dasp.Fork.pull, ForkB.abs, hl.1, hl.2.2.2.2.2.2.2.1]

/-- **C12 over the real ring-buffer state.** One `next` of either branch on the concrete state
    returns the same frame as on the abstract state and commutes with the abstraction, for every
    backing slice, `start` offset and queue content satisfying `from_raw_parts`' assertion -/
theorem forkB_next_sim (s : ForkB α) (h : s.b.Inv) (me : Bool) :
    (ForkB.next s me).1 = (Dasp.Fork.next s.abs me).1 ∧ (ForkB.next s me).2.abs = (Dasp.Fork.next s.abs me).2 ∧
    (ForkB.next s me).2.b.Inv := by
  unfold ForkB.next Dasp.Fork.next
  by_cases hp : s.pending = me
  · have habs : s.abs.pending = me := hp
    simp only [hp, habs, if_true]
    rcases pop_cases s.b h with ⟨he, hn⟩ | ⟨x, r, he, hs, hr⟩
    · have hq : s.abs.q = [] := he
      rcases hpop : s.b.pop with ⟨b', o⟩
      rw [hpop] at hn; simp only at hn; subst hn
      simp only [hq]
      have e : ({ s with pending := !me } : ForkB α).abs = ⟨s.abs.src, [], s.abs.cap, !me⟩ := by
        simp [ForkB.abs, he]
      rw [← e]
      exact forkB_pull_sim { s with pending := !me } h
    · have hq : s.abs.q = x :: r := he
      rcases hpop : s.b.pop with ⟨b', o⟩
      rw [hpop] at hs hr; simp only at hs hr; subst hs
      simp only [hq]
      refine ⟨by first | rfl | trivial, ?_, ?_⟩
      · simp only [ForkB.abs, hr]
        have := (bounded_is_srcQueue s.b h x).2.2.2.2.2.2.2.2
        rw [hpop] at this; simp only at this; rw [this]
      · have := Dasp.Props.C06.pop_inv s.b h; rw [hpop] at this; exact this
  · have habs : ¬ s.abs.pending = me := hp
    simp only [hp, habs, if_false]
    exact forkB_pull_sim s h

theorem forkB_pending_sim (s : ForkB α) (me : Bool) :
    ForkB.pendingFrames s me = Dasp.Fork.pendingFrames s.abs me := by
  unfold ForkB.pendingFrames Dasp.Fork.pendingFrames
  by_cases hp : s.pending = me
  · have hp' : s.abs.pending = me := hp
    rw [if_pos hp, if_pos hp', (Dasp.Props.C06.len_agrees s.b).1]; rfl
  · have hp' : ¬ s.abs.pending = me := hp
    rw [if_neg hp, if_neg hp']

theorem forkB_step_sim (s : ForkB α) (h : s.b.Inv) (o : Dasp.Fork.Op) :
    (ForkB.step s o).1 = (Dasp.Fork.step s.abs o).1 ∧ (ForkB.step s o).2.abs = (Dasp.Fork.step s.abs o).2 ∧
    (ForkB.step s o).2.b.Inv := by
  cases o with
  | pull me =>
    obtain ⟨h1, h2, h3⟩ := forkB_next_sim s h me
    refine ⟨?_, h2, h3⟩
    have h4 : (ForkB.next s me).2.src = (Dasp.Fork.next s.abs me).2.src := congrArg Dasp.Fork.St.src h2
    simp only [ForkB.step, Dasp.Fork.step, Dasp.Fork.look, forkB_pending_sim, h1, h2, h4]
  | resplitRef => exact ⟨by simp [ForkB.step, Dasp.Fork.step, Dasp.Fork.look, Dasp.Fork.byRef, forkB_pending_sim]; rfl, rfl, h⟩
  | resplitRc => exact ⟨by simp [ForkB.step, Dasp.Fork.step, Dasp.Fork.look, Dasp.Fork.byRc, forkB_pending_sim]; rfl, rfl, h⟩
  | drop me => exact ⟨by simp [ForkB.step, Dasp.Fork.step, Dasp.Fork.look, Dasp.Fork.dropBranch, forkB_pending_sim]; rfl, rfl, h⟩

/-- **every observation of every schedule** (frames, both pending counts, pull counter) is the same
    on the concrete ring-buffer state as on the abstract queue: C12's theorems transfer verbatim -/
theorem forkB_trace_sim (ops : List Dasp.Fork.Op) (s : ForkB α) (h : s.b.Inv) :
    ForkB.trace s ops = Dasp.Fork.trace s.abs ops := by
  induction ops generalizing s with
  | nil => rfl
  | cons o r ih =>
    obtain ⟨h1, h2, h3⟩ := forkB_step_sim s h o
    simp only [ForkB.trace, Dasp.Fork.trace, h1, ih _ h3, h2]

/-! ### Buffered -/

theorem bufB_pullPush_sim (s : BufB α) (h : s.b.Inv) :
    (BufB.pullPush s).abs = Dasp.Buffered.pullPush s.abs ∧ (BufB.pullPush s).b.Inv ∧ (BufB.pullPush s).b.maxLen = s.b.maxLen := by
  have hl := bounded_is_srcQueue s.b h (s.src.next).1
  refine ⟨?_, hl.2.2.2.2.2.1, hl.2.2.2.2.2.2.2.1⟩
  simp only [BufB.pullPush, Dasp.Buffered.pullPush, BufB.abs, hl.1, hl.2.2.2.2.2.2.2.1]

theorem bufB_fill_sim (n : Nat) (s : BufB α) (h : s.b.Inv) :
    (BufB.fill n s).abs = Dasp.Buffered.fill n s.abs ∧ (BufB.fill n s).b.Inv ∧ (BufB.fill n s).b.maxLen = s.b.maxLen := by
  induction n generalizing s with
  | zero => exact ⟨rfl, h, rfl⟩
  | succ n ih =>
    obtain ⟨h1, h2, h3⟩ := bufB_pullPush_sim s h
    obtain ⟨i1, i2, i3⟩ := ih (BufB.pullPush s) h2
    exact ⟨by simp only [BufB.fill, Dasp.Buffered.fill, i1, h1], i2, by simp only [BufB.fill]; rw [i3, h3]⟩

theorem bufB_refill_sim (s : BufB α) (h : s.b.Inv) :
    (BufB.refill s).abs = Dasp.Buffered.refill s.abs ∧ (BufB.refill s).b.Inv ∧ (BufB.refill s).b.maxLen = s.b.maxLen :=
  bufB_fill_sim s.b.maxLen s h

/-- pop on the concrete state, in terms of the abstract queue -/
theorem bufB_pop_sim (s : BufB α) (h : s.b.Inv) :
    (s.abs.q = [] ∧ (s.b.pop).2 = none) ∨
    (∃ x r, s.abs.q = x :: r ∧ (s.b.pop).2 = some x ∧ ({ s with b := (s.b.pop).1 } : BufB α).abs = { s.abs with q := r } ∧ (s.b.pop).1.Inv) := by
  rcases pop_cases s.b h with ⟨he, hn⟩ | ⟨x, r, he, hs, hr⟩
  · left; exact ⟨he, hn⟩
  · right
    refine ⟨x, r, he, hs, ?_, Dasp.Props.C06.pop_inv s.b h⟩
    simp only [BufB.abs, hr, Dasp.Props.C06.pop_maxLen]

/-- **C14 over the real ring-buffer state**: `Buffered::next` -/
theorem bufB_next_sim (s : BufB α) (h : s.b.Inv) :
    (BufB.next s).1 = (Dasp.Buffered.next s.abs).1 ∧ (BufB.next s).2.abs = (Dasp.Buffered.next s.abs).2 ∧ (BufB.next s).2.b.Inv := by
  unfold BufB.next Dasp.Buffered.next
  rcases bufB_pop_sim s h with ⟨he, hn⟩ | ⟨x, r, he, hs, ha, hi⟩
  · rcases hpop : s.b.pop with ⟨b', o⟩
    rw [hpop] at hn; simp only at hn; subst hn
    simp only [he]
    obtain ⟨r1, r2, _⟩ := bufB_refill_sim s h
    rcases bufB_pop_sim (BufB.refill s) r2 with ⟨he2, hn2⟩ | ⟨x, r, he2, hs2, ha2, hi2⟩
    · rcases hpop2 : (BufB.refill s).b.pop with ⟨b2, o2⟩
      rw [hpop2] at hn2; simp only at hn2; subst hn2
      rw [r1] at he2
      simp only [he2]
      exact ⟨by first | rfl | trivial, r1, r2⟩
    · rcases hpop2 : (BufB.refill s).b.pop with ⟨b2, o2⟩
      rw [hpop2] at hs2 ha2 hi2; simp only at hs2 ha2 hi2; subst hs2
      rw [r1] at he2 ha2
      simp only [he2]
      exact ⟨by first | rfl | trivial, ha2, hi2⟩
  · rcases hpop : s.b.pop with ⟨b', o⟩
    rw [hpop] at hs ha hi; simp only at hs ha hi; subst hs
    simp only [he]
    exact ⟨by first | rfl | trivial, ha, hi⟩

theorem bufB_beginFrames_sim (s : BufB α) (h : s.b.Inv) :
    (BufB.beginFrames s).abs = Dasp.Buffered.beginFrames s.abs ∧ (BufB.beginFrames s).b.Inv := by
  have hl : s.b.length = s.abs.q.length := (Dasp.Props.C06.len_agrees s.b).1
  unfold BufB.beginFrames Dasp.Buffered.beginFrames
  rw [hl]
  split
  · exact ⟨(bufB_refill_sim s h).1, (bufB_refill_sim s h).2.1⟩
  · exact ⟨rfl, h⟩

theorem bufB_iterNext_sim (s : BufB α) (h : s.b.Inv) :
    (BufB.iterNext s).1 = (Dasp.Buffered.iterNext s.abs).1 ∧ (BufB.iterNext s).2.abs = (Dasp.Buffered.iterNext s.abs).2 ∧
    (BufB.iterNext s).2.b.Inv := by
  unfold BufB.iterNext Dasp.Buffered.iterNext
  rcases bufB_pop_sim s h with ⟨he, hn⟩ | ⟨x, r, he, hs, ha, hi⟩
  · rcases hpop : s.b.pop with ⟨b', o⟩
    rw [hpop] at hn; simp only at hn; subst hn
    simp only [he]; exact ⟨by first | rfl | trivial, by first | rfl | trivial, h⟩
  · rcases hpop : s.b.pop with ⟨b', o⟩
    rw [hpop] at hs ha hi; simp only at hs ha hi; subst hs
    simp only [he]; exact ⟨by first | rfl | trivial, ha, hi⟩

/-- `is_exhausted` agrees: so C14's exhaustion and padding theorems transfer to every `start` offset -/
theorem bufB_isExhausted_sim (s : BufB α) : BufB.isExhausted s = Dasp.Buffered.isExhausted s.abs := by
  simp [BufB.isExhausted, Dasp.Buffered.isExhausted, BufB.abs, (Dasp.Props.C06.len_agrees s.b).1]

theorem bufB_iterN_sim (k : Nat) (s : BufB α) (h : s.b.Inv) :
    (BufB.iterN k s).1 = (Dasp.Buffered.iterN k s.abs).1 ∧ (BufB.iterN k s).2.abs = (Dasp.Buffered.iterN k s.abs).2 ∧
    (BufB.iterN k s).2.b.Inv := by
  induction k generalizing s with
  | zero => exact ⟨rfl, rfl, h⟩
  | succ k ih =>
    obtain ⟨h1, h2, h3⟩ := bufB_iterNext_sim s h
    obtain ⟨i1, i2, i3⟩ := ih (BufB.iterNext s).2 h3
    simp only [BufB.iterN, Dasp.Buffered.iterN, h1, i1, i2, h2]
    exact ⟨trivial, trivial, by simpa [BufB.iterN] using i3⟩

theorem bufB_untilExhausted_sim (fuel : Nat) (s : BufB α) (h : s.b.Inv) :
    (BufB.untilExhausted fuel s).1 = (Dasp.Buffered.untilExhausted fuel s.abs).1 ∧
    (BufB.untilExhausted fuel s).2.abs = (Dasp.Buffered.untilExhausted fuel s.abs).2 ∧
    (BufB.untilExhausted fuel s).2.b.Inv := by
  induction fuel generalizing s with
  | zero => exact ⟨rfl, rfl, h⟩
  | succ f ih =>
    simp only [BufB.untilExhausted, Dasp.Buffered.untilExhausted, bufB_isExhausted_sim]
    split
    · exact ⟨rfl, rfl, h⟩
    · obtain ⟨h1, h2, h3⟩ := bufB_next_sim s h
      obtain ⟨i1, i2, i3⟩ := ih (BufB.next s).2 h3
      simp only [h1, i1, i2, h2]
      exact ⟨trivial, trivial, i3⟩

theorem bufB_exec_sim (s : BufB α) (h : s.b.Inv) (o : Dasp.Buffered.Op) :
    (BufB.exec s o).1 = (Dasp.Buffered.exec s.abs o).1 ∧ (BufB.exec s o).2.abs = (Dasp.Buffered.exec s.abs o).2 ∧
    (BufB.exec s o).2.b.Inv := by
  have hl : ∀ t : BufB α, t.b.length = t.abs.q.length := fun t => (Dasp.Props.C06.len_agrees t.b).1
  cases o with
  | next =>
    obtain ⟨h1, h2, h3⟩ := bufB_next_sim s h
    simp only [BufB.exec, Dasp.Buffered.exec, h1, h2]; exact ⟨trivial, trivial, h3⟩
  | frames k =>
    obtain ⟨b1, b2⟩ := bufB_beginFrames_sim s h
    have := bufB_iterN_sim k _ b2
    simp only [BufB.exec, Dasp.Buffered.exec, ← b1]; exact this
  | drain =>
    obtain ⟨b1, b2⟩ := bufB_beginFrames_sim s h
    have := bufB_iterN_sim (BufB.beginFrames s).b.length _ b2
    simp only [BufB.exec, Dasp.Buffered.exec, ← b1, ← hl]; exact this
  | untilExhausted =>
    have hf : BufB.ueFuel s = Dasp.Buffered.ueFuel s.abs := by
      simp only [BufB.ueFuel, Dasp.Buffered.ueFuel, hl]; rfl
    obtain ⟨u1, u2, u3⟩ := bufB_untilExhausted_sim (BufB.ueFuel s) s h
    simp only [BufB.exec, Dasp.Buffered.exec, ← hf, u1, u2]; exact ⟨trivial, trivial, u3⟩
  | look => exact ⟨rfl, rfl, h⟩

/-- **C14 over the real ring-buffer state, every observation of every operation sequence**: outputs,
    pull counter and `is_exhausted` are those of the abstract model — for any backing slice, any
    pre-filled content and any internal `start` offset (the part of C14's statement that
    `Props/C14.lean` alone delegated to C06) -/
theorem bufB_trace_sim (ops : List Dasp.Buffered.Op) (s : BufB α) (h : s.b.Inv) :
    BufB.trace s ops = Dasp.Buffered.trace s.abs ops := by
  induction ops generalizing s with
  | nil => rfl
  | cons o r ih =>
    obtain ⟨h1, h2, h3⟩ := bufB_exec_sim s h o
    have hsrc : (BufB.exec s o).2.src = (Dasp.Buffered.exec s.abs o).2.src := congrArg Dasp.Buffered.St.src h2
    have hstep : (BufB.step s o).1 = (Dasp.Buffered.step s.abs o).1 := by
      simp only [BufB.step, Dasp.Buffered.step, Dasp.Buffered.look, h1, hsrc, bufB_isExhausted_sim, h2]
    have hst2 : (BufB.step s o).2.abs = (Dasp.Buffered.step s.abs o).2 := h2
    simp only [BufB.trace, Dasp.Buffered.trace, hstep]
    rw [ih (BufB.step s o).2 h3, hst2]

end sim

/-- non-vacuity: a wrapped, partly filled ring buffer state under a fork -/
example : (⟨⟨[1, 2, 3], 7, 0⟩, ⟨[30, 10, 20], 1, 2⟩, true⟩ : Dasp.OverBounded.ForkB Nat).b.Inv ∧
    (Dasp.OverBounded.ForkB.next ⟨⟨[1, 2, 3], 7, 0⟩, ⟨[30, 10, 20], 1, 2⟩, true⟩ true).1 = 10 := by
  constructor <;> decide

end Dasp.Props.LinkFork
