import Dasp.Lemmas.Bus
/-! # C13 — Bus feeds every output a gap-free stream and retains only what laggards need

Property text (properties.jsonl, C13): "For any interleaving of attaching outputs, pulling from outputs
and dropping outputs, each output observes exactly the contiguous run of source frames that begins with
the first frame nobody had pulled when it was attached, in order, without loss or duplication, and its
pending count equals the number of frames already pulled from the source that it has not yet received.
The source is pulled exactly once per distinct frame, and the bus's internal backlog always holds exactly
the pulled frames that the slowest live output has not yet received, so it is empty whenever all live
outputs have caught up or none remain."

Model: `Dasp/Model/Bus.lean` (`send`, `nextFrame`, `pendingFrames`, `dropOutput` transcribe bus.rs;
executed by `driver_c13` against the real code). `src i` is the frame the source yields on its `i`-th
pull and `St.pos` counts the pulls, so the pulled frames are exactly `src 0 … src (pos-1)`, each pulled
once. Specification `Abs`: every live output `k` has an absolute cursor `cur k` (set to `P` by `send`);
`next k` returns `src (cur k)` and advances only `cur k`; `P` grows exactly when `cur k = P`.
`cursor s k = base s + frames_read[k]` with `base s = pos − backlog length` is the concrete cursor.

All statements are for an arbitrary frame type `α` and an arbitrary source `src : Nat → α`.
The only side condition is `next_key` not wrapping: fewer than 2^64 operations (bus.rs:143 uses
`wrapping_add`; after 2^64 `send`s a key could be re-issued while still live). -/
namespace Dasp.Bus

variable {α : Type}

/-! ## Every finite sequence of send / next(i) / drop(i) -/

/-- **Main refinement theorem** ("for any interleaving of attaching outputs, pulling from outputs and
    dropping outputs"). For every finite operation sequence from the freshly created bus, the model of
    the code and the cursor specification agree on whether the sequence is executable at all (operations
    on outputs that are not live are the only failures), on every returned value (keys, frames) and, after
    every operation, on the pull count `P` and every live output's cursor; and every intermediate state
    satisfies the backlog invariant `Inv` (whose content is spelled out by the theorems below). -/
theorem bus_refines_cursor_spec (src : Nat → α) (ops : List Op) (hlen : ops.length < usizeMod) :
    (run src (init : St α) ops).map (List.map fun r => (r.1, absOf r.2)) = Abs.run src Abs.init ops ∧
    ∀ tr, run src (init : St α) ops = some tr → ∀ r ∈ tr, Inv src r.2 := by
  have h := run_refines src ops (init : St α) (inv_init src) fresh_init (by simpa [init] using hlen)
  have e : absOf (init : St α) = Abs.init := by
    apply Abs.eq_of <;> simp [absOf, init, Abs.init, cursor, lookup]
  rw [e] at h; exact h

/-- The same from *every* state satisfying the invariant (not only the initial one): the invariant is
    inductive, so it holds after every finite history, and the refinement continues from there. -/
theorem bus_refines_cursor_spec_from (src : Nat → α) (s : St α) (hi : Inv src s) (hf : Fresh s)
    (ops : List Op) (hlen : s.nextKey + ops.length < usizeMod) :
    (run src s ops).map (List.map fun r => (r.1, absOf r.2)) = Abs.run src (absOf s) ops ∧
    ∀ tr, run src s ops = some tr → ∀ r ∈ tr, Inv src r.2 :=
  run_refines src ops s hi hf hlen

/-- **Sentence 1, trace form** ("each output observes exactly the contiguous run of source frames that
    begins with the first frame nobody had pulled when it was attached, in order, without loss or
    duplication"). Attach an output in ANY state satisfying the invariant (every reachable state does)
    and continue with ANY operation sequence `post` that the bus can execute: the frames this output's
    `next` calls return, in order, are exactly `src P, src (P+1), …, src (P+n−1)` where `P` is the number
    of frames pulled from the source at the moment of `send` and `n` the number of `next` calls on it in
    `post` (however they interleave with other outputs' operations, sends and drops). -/
theorem output_observes_contiguous_run (src : Nat → α) (s : St α) (hi : Inv src s) (hf : Fresh s)
    (post : List Op) (hn : s.nextKey + (post.length + 1) < usizeMod)
    (tr : List (Ret α × St α)) (h : run src s (.send :: post) = some tr) :
    ∃ s' tr', tr = (.key s.nextKey, s') :: tr' ∧
      received s.nextKey post tr' =
        (List.range' s.pos (post.count (.next s.nextKey))).map src := by
  obtain ⟨href, _⟩ := run_refines src (.send :: post) s hi hf (by simpa using hn)
  rw [h] at href
  simp only [Option.map] at href
  -- the run starts with a `send`, so the handle is alive
  have hh : s.handle = true := by
    cases hb : s.handle with
    | true => rfl
    | false => simp [run, step, hb] at h
  -- shape of the concrete run
  simp only [run, step, hh, if_true] at h
  cases hr : run src (send s).2 post with
  | none => simp [hr] at h
  | some tr' =>
    simp only [hr, Option.some.injEq] at h
    subst h
    refine ⟨(send s).2, tr', rfl, ?_⟩
    -- the abstract run from the state right after `send`
    simp only [Abs.run, Abs.step, absOf, hh, if_true] at href
    have hmod : (s.nextKey + 1) % usizeMod = s.nextKey + 1 := Nat.mod_eq_of_lt (by omega)
    generalize hra : Abs.run src _ post = ar at href
    cases ar with
    | none => simp at href
    | some atr =>
      simp only [Option.some.injEq, List.map_cons, List.cons.injEq] at href
      obtain ⟨_, htl⟩ := href
      obtain ⟨i1, _⟩ := Abs.received_run src s.nextKey post _ atr hra
        (by simp only [hmod]; omega) (by simp only [hmod]; omega)
      have := i1 s.pos (by simp)
      rw [← htl] at this
      exact (received_map absOf s.nextKey post tr').symm.trans this

/-! ## The three operations, from every state satisfying the invariant -/

/-- "begins with the first frame nobody had pulled when it was attached": `send` registers the new output
    with cursor `P` (= number of frames pulled so far), touches no other cursor, pulls nothing and leaves
    the backlog as it is. -/
theorem send_attaches_at_P (src : Nat → α) (s : St α) (hi : Inv src s) (hf : Fresh s) :
    (send s).1 = s.nextKey ∧ cursor (send s).2 s.nextKey = some s.pos ∧
    (∀ k', k' ≠ s.nextKey → cursor (send s).2 k' = cursor s k') ∧
    (send s).2.pos = s.pos ∧ (send s).2.buf = s.buf ∧ Inv src (send s).2 := by
  obtain ⟨h1, h2, h3, h4, h5, _, _, h7⟩ := send_spec src s hi (absent_of_fresh hf)
  exact ⟨h1, h2, h3, h4, h5, h7⟩

/-- "each output observes exactly the contiguous run … in order, without loss or duplication" and "the
    source is pulled exactly once per distinct frame": `next` on a live output with cursor `c` returns
    `src c`, advances that cursor to `c + 1` and no other, and pulls the source exactly when `c = P`
    (then `P` becomes `P + 1` and the frame pulled is `src P`, never an earlier index again);
    on all four code paths (backlog / pull × pop-front / keep) the invariant is re-established. -/
theorem next_returns_cursor_frame (src : Nat → α) (s : St α) (hi : Inv src s) (k c : Nat)
    (hc : cursor s k = some c) :
    ∃ s', nextFrame src s k = some (src c, s') ∧
      cursor s' k = some (c + 1) ∧ (∀ k', k' ≠ k → cursor s' k' = cursor s k') ∧
      c ≤ s.pos ∧ s'.pos = (if c = s.pos then s.pos + 1 else s.pos) ∧ Inv src s' := by
  cases hl : lookup k s.reads with
  | none => simp [cursor, hl] at hc
  | some fr =>
    have hc' : c = base s + fr := by simp [cursor, hl] at hc; omega
    obtain ⟨frame, s', e, hframe, h1, h2, h3, _, _, _, h6⟩ := nextFrame_spec src s k fr hi hl
    have hb := (cursor_bounds hi hc).2
    subst hc'; subst hframe
    refine ⟨s', e, h1, h2, hb, ?_, h6⟩
    rw [h3]; split <;> omega

/-- dropping a live output removes its cursor only, pulls nothing, and re-establishes the invariant
    (in particular the backlog is trimmed to what the remaining outputs still need, see
    `backlog_is_exactly_what_the_slowest_needs`). -/
theorem drop_removes_only_its_cursor (src : Nat → α) (s : St α) (hi : Inv src s) (k c : Nat)
    (hc : cursor s k = some c) :
    ∃ s', dropOutput s k = some s' ∧ cursor s' k = none ∧
      (∀ k', k' ≠ k → cursor s' k' = cursor s k') ∧ s'.pos = s.pos ∧ Inv src s' := by
  cases hl : lookup k s.reads with
  | none => simp [cursor, hl] at hc
  | some fr =>
    obtain ⟨s', e, h1, h2, h3, _, _, _, h6⟩ := dropOutput_spec src s k fr hi hl
    exact ⟨s', e, h1, h2, h3, h6⟩

/-- Dropping the `Bus` HANDLE while outputs are alive (the handle has no `Drop` impl, the shared node lives
    on in the outputs' `Rc`s): no cursor, no pull count, no backlog frame changes and the invariant is kept;
    `nextFrame`, `pendingFrames` and `dropOutput` never read the flag, so every theorem of this file about them
    applies unchanged to outputs that outlive the handle (and `bus_refines_cursor_spec` covers `dropBus` at
    any point of a sequence: only `send` needs the handle). -/
theorem handle_drop_changes_nothing (src : Nat → α) (s : St α) (hi : Inv src s) :
    (∀ k, cursor (dropBus s) k = cursor s k) ∧ (dropBus s).pos = s.pos ∧ (dropBus s).buf = s.buf ∧
    (∀ k, pendingFrames (dropBus s) k = pendingFrames s k) ∧
    (∀ k, (nextFrame src (dropBus s) k).map (fun r => (r.1, r.2.pos, r.2.buf, r.2.reads)) =
          (nextFrame src s k).map (fun r => (r.1, r.2.pos, r.2.buf, r.2.reads))) ∧
    Inv src (dropBus s) := by
  refine ⟨fun _ => rfl, rfl, rfl, fun _ => rfl, ?_, ⟨hi.len_le, hi.buf_eq, hi.fr_le, hi.nodup, hi.minimal⟩⟩
  intro k
  unfold nextFrame dropBus
  cases lookup k s.reads with
  | none => rfl
  | some fr => simp only; split <;> rfl

/-! ## What the invariant says (holds in every reachable state by the theorems above) -/

/-- "its pending count equals the number of frames already pulled from the source that it has not yet
    received": `pending_frames` of a live output with cursor `c` is `P − c` (and `c ≤ P`). -/
theorem pending_is_pulled_minus_received (src : Nat → α) (s : St α) (hi : Inv src s) (k c : Nat)
    (hc : cursor s k = some c) : pendingFrames s k = some (s.pos - c) ∧ c ≤ s.pos := by
  cases hl : lookup k s.reads with
  | none => simp [cursor, hl] at hc
  | some fr =>
    have hc' : c = base s + fr := by simp [cursor, hl] at hc; omega
    have h1 := hi.fr_le _ (lookup_mem hl); have h2 := hi.len_le
    subst hc'
    simp only [pendingFrames, hl, Option.map, base]
    exact ⟨by congr 1; omega, by omega⟩

/-- "the bus's internal backlog always holds exactly the pulled frames that the slowest live output has
    not yet received": the backlog is `src[base .. P)`, its length is `P − base`, and `base` is the
    minimum of the live cursors (a lower bound of all of them and attained by one) — or `P` when no
    output is live. -/
theorem backlog_is_exactly_what_the_slowest_needs (src : Nat → α) (s : St α) (hi : Inv src s) :
    s.buf = (List.range' (base s) (s.pos - base s)).map src ∧
    backlogLen s = s.pos - base s ∧ base s ≤ s.pos ∧
    (∀ k c, cursor s k = some c → base s ≤ c) ∧
    ((∃ k c, cursor s k = some c) → ∃ k, cursor s k = some (base s)) ∧
    ((∀ k, cursor s k = none) → base s = s.pos) := by
  have hl := hi.len_le
  have e : s.pos - base s = s.buf.length := by unfold base; omega
  refine ⟨by rw [e]; exact hi.buf_eq, by simp [backlogLen, e], by unfold base; omega,
    fun k c h => (cursor_bounds hi h).1, ?_, ?_⟩
  · rintro ⟨k, c, h⟩
    apply base_attained hi
    intro hr; simp [cursor, hr, lookup] at h
  · intro h
    have hr := reads_nil_of_no_cursor h
    rcases hi.minimal with hb | ⟨p, hp, _⟩
    · simp [base, hb]
    · rw [hr] at hp; simp at hp

/-- "so it is empty whenever all live outputs have caught up or none remain" (the hypothesis is vacuous
    when no output is live). -/
theorem backlog_empty_when_all_caught_up (src : Nat → α) (s : St α) (hi : Inv src s)
    (h : ∀ k c, cursor s k = some c → c = s.pos) : s.buf = [] ∧ backlogLen s = 0 := by
  have hb : s.buf = [] := by
    rcases hi.minimal with hb | ⟨p, hp, hp0⟩
    · exact hb
    · have hl : lookup p.1 s.reads = some p.2 := lookup_of_mem_nodup hi.nodup hp
      have := h p.1 (base s + p.2) (by simp [cursor, hl])
      have := hi.len_le
      apply List.eq_nil_of_length_eq_zero
      unfold base at *; omega
  exact ⟨hb, by simp [backlogLen, hb]⟩

/-- EXTENSION beyond C13's literal statement (C05's exhaustion applied to bus outputs): in every state
    satisfying the invariant, `Output::is_exhausted` of a live output with cursor `c` is
    "`c = P` and the source reports exhaustion" — it depends on THIS output's position only, not on what
    other outputs still have pending. (`srcDone p` = the source's `is_exhausted()` after `p` pulls.) -/
theorem exhausted_iff_received_all_and_source_done (src : Nat → α) (srcDone : Nat → Bool) (s : St α)
    (hi : Inv src s) (k c : Nat) (hc : cursor s k = some c) :
    isExhausted srcDone s k = some (decide (c = s.pos) && srcDone s.pos) := by
  obtain ⟨hp, hle⟩ := pending_is_pulled_minus_received src s hi k c hc
  simp only [isExhausted, hp, Option.map]
  congr 1
  by_cases h : c = s.pos
  · subst h; simp
  · have : s.pos - c ≠ 0 := by omega
    simp [h, this]

/-- the guard `frames_read < num_frames` (bus.rs:184) puts the only backlog index access in range, so
    the totalised `getD` of the model never uses its default -/
theorem backlog_access_in_range (s : St α) (fr : Nat) (d : α) (h : fr < s.buf.length) :
    s.buf.getD fr d = s.buf[fr] := by
  simp [List.getD, List.getElem?_eq_getElem h]

/-! ## Non-vacuity: the hypotheses hold on concrete, non-trivial states -/

/-- a reachable state with two live outputs at different cursors and a non-empty backlog:
    send, send, next 0 ×3, next 1, send (attach while others lag), next 2 -/
def exOps : List Op := [.send, .send, .next 0, .next 0, .next 0, .next 1, .send, .next 2]

/-- the run succeeds; final state: P = 4, backlog = src[1..4), cursors 0 ↦ 3, 1 ↦ 1, 2 ↦ 4 -/
example : (run (fun i => 100 + i) (init : St Nat) exOps).map (List.map fun r => (r.1, r.2.pos, r.2.buf)) =
    some [(.key 0, 0, []), (.key 1, 0, []), (.frame 100, 1, [100]), (.frame 101, 2, [100, 101]),
          (.frame 102, 3, [100, 101, 102]), (.frame 100, 3, [101, 102]), (.key 2, 3, [101, 102]),
          (.frame 103, 4, [101, 102, 103])] := by decide

def exState : St Nat := ⟨4, [101, 102, 103], [(0, 2), (1, 0), (2, 3)], 3, true⟩

example : Inv (fun i => 100 + i) exState :=
  ⟨by decide, by decide, by decide, by decide, Or.inr ⟨(1, 0), by decide, rfl⟩⟩
example : Fresh exState := by unfold Fresh exState; decide
example : cursor exState 0 = some 3 ∧ cursor exState 1 = some 1 ∧ cursor exState 2 = some 4 ∧
    cursor exState 7 = none ∧ base exState = 1 := by decide
-- next on the slowest output pops the front; on the fastest it pulls the source
example : (nextFrame (fun i => 100 + i) exState 1).map (fun r => (r.1, r.2.pos, r.2.buf)) = some (101, 4, [102, 103]) := by decide
example : (nextFrame (fun i => 100 + i) exState 2).map (fun r => (r.1, r.2.pos, r.2.buf)) = some (104, 5, [101, 102, 103, 104]) := by decide
-- dropping the slowest trims two frames at once; dropping everything empties the backlog
example : (dropOutput exState 1).map (fun s => (s.buf, s.reads)) = some ([103], [(0, 0), (2, 1)]) := by decide
example : (((dropOutput exState 1).bind (dropOutput · 0)).bind (dropOutput · 2)).map (·.buf) = some [] := by decide
-- the "caught up" hypothesis is satisfiable with live outputs: after send, send, next 0, next 1
example : (run (fun i => i) (init : St Nat) [.send, .send, .next 0, .next 1]).map
    (fun tr => tr.map fun r => (r.2.pos, r.2.buf, cursor r.2 0, cursor r.2 1)) =
    some [(0, [], some 0, none), (0, [], some 0, some 0), (1, [0], some 1, some 0), (1, [], some 1, some 1)] := by decide
-- `received`: in the example run output 0 got 100,101,102, output 1 got 100, output 2 (attached at P = 3) got 103
example : (run (fun i => 100 + i) (init : St Nat) exOps).map (fun tr => (received 0 exOps tr, received 1 exOps tr, received 2 exOps tr)) =
    some ([100, 101, 102], [100], [103]) := by decide
-- the Bus handle dropped with two live outputs: they keep their streams (output 1 still gets 100, 101)
example : (run (fun i => 100 + i) (init : St Nat) [.send, .send, .dropBus, .next 0, .next 0, .next 1, .next 1]).map
    (List.map fun r => (r.1, r.2.pos)) =
    some [(.key 0, 0), (.key 1, 0), (.unit, 0), (.frame 100, 1), (.frame 101, 2), (.frame 100, 2), (.frame 101, 2)] := by decide
-- … and `send` is what is no longer possible
example : run (fun i => i) (init : St Nat) [.send, .dropBus, .send] = none := by decide
-- finite source of 3 frames, output 1 lags: the leading output 0 is exhausted after 3 frames although 1 is not;
-- until_exhausted over output 1 then yields exactly the three frames
example : (runX (fun i => if i < 3 then 100 + i else 0) (fun p => decide (3 ≤ p)) 10 (init : St Nat)
      [.op .send, .op .send, .op (.next 0), .op (.next 0), .op (.next 0)]).map
      (fun tr => tr.getLast?.map fun r => (isExhausted (fun p => decide (3 ≤ p)) r.2 0, isExhausted (fun p => decide (3 ≤ p)) r.2 1)) =
    some (some (some true, some false)) := by decide
example : (untilExhausted (fun i => if i < 3 then 100 + i else 0) (fun p => decide (3 ≤ p)) 10
      (⟨3, [100, 101, 102], [(0, 3), (1, 0)], 2, true⟩ : St Nat) 1).map (·.1) = some [100, 101, 102] := by decide
-- operations on an output that is not live are the (only) failing ones
example : run (fun i => i) (init : St Nat) [.send, .drop 0, .next 0] = none := by decide

end Dasp.Bus
