import Dasp.Lemmas.Signal
/-!
# C05 — Finite signals end exactly once: exhaustion is exact, contagious, then silent

Property text (properties.jsonl, C05): a signal built from an iterator of frames, or of
interleaved samples, yields exactly the iterator's complete frames in order (a trailing incomplete
frame is dropped), reports exhaustion exactly when none remain, and yields equilibrium frames
forever after.  Exhaustion propagates through every adaptor: a combining adaptor is exhausted as
soon as any input is, a delay stays live while emitting its leading silence, so `until_exhausted`
and `lift` over length-preserving adaptors yield exactly as many frames as the shortest source and
then stop for good.  `take(n)` yields exactly n frames, and interleaved-sample output yields exactly
frames x channels samples in channel order before returning None.

Model: `Model/Signal.lean` (hand transcription of dasp_signal/src/lib.rs, validated against the
real code by the `exhaust` stream); `Sig.len` is the length the property speaks of (`none` =
infinite; `min` over the inputs of a combining adaptor; `+ k` under `delay k`; `ss.length / n` for
`n`-channel frames cut from `ss`).  All theorems hold for expressions of arbitrary depth.
Only property theorems and their non-vacuity examples live in this file.
-/
namespace Dasp.Props.C05
open Dasp.Signal
variable {α : Type}

/-! ### the iterator-backed sources -/

/-- "a signal built from an iterator of frames … yields exactly the iterator's … frames in order …
    and yields equilibrium frames forever after": the first `j` calls return `fs[0], fs[1], …` and
    `EQUILIBRIUM` from index `fs.length` on, for every `j` (so also arbitrarily far past the end) -/
theorem fromIter_outputs (o : Ops α) (fs : List (List α)) (j : Nat) :
    (run o j (Sig.fromIter fs).init).1 = (List.range j).map fun i => fs.getD i o.eq := by
  rw [run_outputs]; congr 1; funext i; exact ofIter_den o fs i

/-- "… reports exhaustion exactly when none remain": after `j` calls `is_exhausted` is true iff all
    `fs.length` frames have been yielded (the look-ahead slot decides without consuming) -/
theorem fromIter_exhausted (o : Ops α) (fs : List (List α)) (j : Nat) :
    isExhausted (run o j (Sig.fromIter fs).init).2 = true ↔ fs.length ≤ j := by
  rw [run_exhausted]; simp [Sig.init, ofIter_len]

/-- the source never calls `Iterator::next` again after the iterator has returned `None`: the
    iterator holds `fs.length` items, so its `(fs.length + 1)`-th call is the one returning `None`,
    and no state reachable by any number of `next` calls has made more calls than that
    (constructor's look-ahead included).  A non-fused iterator can therefore not leak items. -/
theorem fromIter_calls (o : Ops α) (fs : List (List α)) (j c : Nat)
    (h : (run o j (Sig.fromIter fs).init).2.calls = [c]) : c ≤ fs.length + 1 :=
  single_calls_le _ c _ h (by rw [run_callCap]; exact ofIter_callCap fs)

/-- "… or of interleaved samples, yields exactly the iterator's complete frames in order (a trailing
    incomplete frame is dropped)": the outputs are the frames `chunks n ss`, then equilibrium … -/
theorem fromSamples_outputs (o : Ops α) (n : Nat) (ss : List α) (j : Nat) :
    (run o j (Sig.fromSamples n ss).init).1 = (List.range j).map fun i => (chunks n ss).getD i o.eq := by
  rw [run_outputs]; congr 1; funext i; exact ofSamples_den o n ss i

/-- … where `chunks n ss` are exactly the complete frames: there are `ss.length / n` of them, each
    has `n` samples, and concatenated they are the sample stream minus the incomplete tail -/
theorem chunks_spec (n : Nat) (ss : List α) :
    (chunks n ss).length = ss.length / n ∧ (∀ f ∈ chunks n ss, f.length = n) ∧
      (chunks n ss).flatten = ss.take (ss.length / n * n) :=
  ⟨chunks_length n ss, chunks_mem_length n ss, chunks_flatten n ss⟩

theorem fromSamples_exhausted (o : Ops α) (n : Nat) (ss : List α) (j : Nat) :
    isExhausted (run o j (Sig.fromSamples n ss).init).2 = true ↔ ss.length / n ≤ j := by
  rw [run_exhausted]; simp [Sig.init, ofSamples_len]

/-- the sample iterator is never called again after its `None` (it holds `ss.length` samples) -/
theorem fromSamples_calls (o : Ops α) (n : Nat) (ss : List α) (j c : Nat)
    (h : (run o j (Sig.fromSamples n ss).init).2.calls = [c]) : c ≤ ss.length + 1 :=
  single_calls_le _ c _ h (by rw [run_callCap]; exact ofSamples_callCap n ss)

/-- "yields equilibrium frames forever after", as a statement about the denotation -/
theorem fromIter_silent (o : Ops α) (fs : List (List α)) (i : Nat) (h : fs.length ≤ i) :
    (Sig.fromIter fs).den o i = o.eq := by
  simp [Sig.den, List.getD, List.getElem?_eq_none h]

theorem fromSamples_silent (o : Ops α) (n : Nat) (ss : List α) (i : Nat) (h : ss.length / n ≤ i) :
    (Sig.fromSamples n ss).den o i = o.eq := by
  simp [Sig.den, List.getD, List.getElem?_eq_none (chunks_length n ss ▸ h)]

/-! ### propagation through adaptors -/

/-- **exhaustion is exact** — for every expression: after `j` calls `is_exhausted` holds iff the
    expression's length is finite and `≤ j`.  (Sources without an end — `equilibrium`, `gen` —
    inherit the default `false`; every adaptor forwards or ORs.) -/
theorem exhausted_exact (o : Ops α) (s : Sig α) (j : Nat) :
    isExhausted (run o j s.init).2 = true ↔ ∃ l, s.len = some l ∧ l ≤ j := by
  rw [run_exhausted, init_len]

/-- the same from an arbitrary run-time state (`St.len` = meaningful frames left) -/
theorem exhausted_exact_from (o : Ops α) (t : St α) (j : Nat) :
    isExhausted (run o j t).2 = true ↔ ∃ l, t.len = some l ∧ l ≤ j := run_exhausted o j t

/-- the output of every expression, before and after its end, is its denotation: past the end the
    sources contribute equilibrium frames (`fromIter_silent`) and the adaptors keep applying their
    frame functions — no other effect of the end exists -/
theorem outputs_past_end (o : Ops α) (s : Sig α) (j : Nat) :
    (run o j s.init).1 = (List.range j).map (s.den o) := by
  rw [run_outputs]; congr 1; funext i; exact init_den o s i

/-- "a combining adaptor is exhausted as soon as any input is" (zip_map; add_amp and mul_amp below) -/
theorem zipMap_contagious (o : Ops α) (m : List α → List α → List α) (a b : Sig α) (j : Nat) :
    isExhausted (run o j (Sig.zipMap m a b).init).2 = true ↔
      isExhausted (run o j a.init).2 = true ∨ isExhausted (run o j b.init).2 = true := by
  simp only [exhausted_exact, Sig.len]
  cases a.len <;> cases b.len <;> simp [minLen] <;> omega

theorem addAmp_contagious (o : Ops α) (a b : Sig α) (j : Nat) :
    isExhausted (run o j (Sig.addAmp a b).init).2 = true ↔
      isExhausted (run o j a.init).2 = true ∨ isExhausted (run o j b.init).2 = true := by
  simp only [exhausted_exact, Sig.len]
  cases a.len <;> cases b.len <;> simp [minLen] <;> omega

theorem mulAmp_contagious (o : Ops α) (a b : Sig α) (j : Nat) :
    isExhausted (run o j (Sig.mulAmp a b).init).2 = true ↔
      isExhausted (run o j a.init).2 = true ∨ isExhausted (run o j b.init).2 = true := by
  simp only [exhausted_exact, Sig.len]
  cases a.len <;> cases b.len <;> simp [minLen] <;> omega

/-- length of a combining adaptor = the shorter input -/
theorem len_zipMap (m : List α → List α → List α) (a b : Sig α) : (Sig.zipMap m a b).len = minLen a.len b.len := rfl

/-- the one-source adaptors are length-preserving (they forward `is_exhausted`) -/
theorem len_preserved (m : List α → List α) (k t : α) (fr : List α) (s : Sig α) :
    (Sig.map m s).len = s.len ∧ (Sig.scaleAmp k s).len = s.len ∧ (Sig.offsetAmp k s).len = s.len ∧
    (Sig.scaleAmpPerChannel fr s).len = s.len ∧ (Sig.offsetAmpPerChannel fr s).len = s.len ∧
    (Sig.clipAmp t s).len = s.len ∧ (Sig.inspect s).len = s.len ∧ (Sig.byRef s).len = s.len :=
  ⟨rfl, rfl, rfl, rfl, rfl, rfl, rfl, rfl⟩

/-- "a delay stays live while emitting its leading silence" — even over an already exhausted source … -/
theorem delay_live (o : Ops α) (k : Nat) (s : Sig α) (j : Nat) (h : j < k) :
    isExhausted (run o j (Sig.delay k s).init).2 = false := by
  cases hx : isExhausted (run o j (Sig.delay k s).init).2 with
  | false => rfl
  | true =>
    obtain ⟨l, hl, hle⟩ := (exhausted_exact o _ j).mp hx
    simp only [Sig.len] at hl
    cases hs : s.len with
    | none => simp [hs] at hl
    | some l' => simp [hs] at hl; omega

/-- … and afterwards it is exhausted exactly when its source is (the silence shifts the end by `k`) -/
theorem delay_after (o : Ops α) (k : Nat) (s : Sig α) (j : Nat) :
    isExhausted (run o (k + j) (Sig.delay k s).init).2 = true ↔ isExhausted (run o j s.init).2 = true := by
  simp only [exhausted_exact, Sig.len]
  cases s.len with
  | none => simp
  | some l => simp; omega

/-! ### consumers -/

/-- "`until_exhausted` … yield[s] exactly as many frames as the shortest source and then stop[s] for
    good": the `i`-th call of the iterator returns `Some(den s i)` while `i < len s` and `None` for
    every later call (for all `m`, i.e. however long one keeps calling); an infinite expression
    never stops.  `len s` is the minimum over the sources by `len_zipMap` / `len_preserved`. -/
theorem untilExhausted_exact (o : Ops α) (s : Sig α) (m : Nat) :
    (runOpt (untilNext o) m s.init).1 =
      (List.range m).map fun i => if live s.len i then some (s.den o i) else none := by
  rw [(until_run o m s.init).1, init_len]; congr 1; funext i; rw [init_den]

/-- … and it has pulled exactly `min (len s) m` frames from the signal -/
theorem untilExhausted_state (o : Ops α) (s : Sig α) (m : Nat) :
    (runOpt (untilNext o) m s.init).2 = (run o (match s.len with | none => m | some l => min l m) s.init).2 := by
  have h := (until_run o m s.init).2
  rw [init_len] at h; exact h

/-- from any state, e.g. `by_ref().until_exhausted()` on a signal that has been running -/
theorem untilExhausted_exact_from (o : Ops α) (t : St α) (m : Nat) :
    (runOpt (untilNext o) m t).1 = (List.range m).map fun i => if live t.len i then some (t.den o i) else none :=
  (until_run o m t).1

/-- `lift(iter, f)` = `f(from_iter(iter)).until_exhausted()`: with a stack of length-preserving
    adaptors it yields exactly `fs.length` frames — the composition of the frame functions applied to
    the iterator's frames — and then `None` for good -/
theorem lift_exact (o : Ops α) (fs : List (List α)) (us : List (Un α)) (m : Nat) :
    (runOpt (untilNext o) m (lift fs fun src => us.foldr St.un src)).1 =
      (List.range m).map fun i =>
        if i < fs.length then some (us.foldr (fun u f => u.apply o f) (fs.getD i o.eq)) else none := by
  rw [lift, (until_run o m _).1, stack_len, ofIter_len]
  apply List.map_congr_left; intro i _
  simp [live, stack_den, ofIter_den]

/-- `lift` with a combining adaptor: as many frames as the shorter of the iterator and the other signal -/
theorem lift_zip_len (fs : List (List α)) (b : Bin α) (other : St α) :
    (lift fs fun src => St.bin b src other).len = minLen (some fs.length) other.len := by
  simp [lift, St.len, ofIter_len]

/-- "`take(n)` yields exactly n frames": calls `0 … n-1` return the signal's next `n` frames
    (whether or not the signal is exhausted), every later call `None`; the signal has been pulled
    `min n m` times -/
theorem take_exact (o : Ops α) (s : Sig α) (n m : Nat) :
    (runOpt (TakeSt.next o) m ⟨n, s.init⟩).1 = (List.range m).map (fun i => if i < n then some (s.den o i) else none)
    ∧ (runOpt (TakeSt.next o) m ⟨n, s.init⟩).2 = ⟨n - m, (run o (min n m) s.init).2⟩ := by
  refine ⟨?_, (take_run o m n s.init).2⟩
  rw [(take_run o m n s.init).1]; congr 1; funext i; rw [init_den]

/-- "interleaved-sample output yields exactly frames x channels samples in channel order before
    returning None": for a finite expression of `l` frames (each with at least one channel — Rust
    frames have 1..32), call `i` of `next_sample` returns the `i`-th entry of the frames
    `den s 0, …, den s (l-1)` laid end to end and `None` from then on, however often it is called.
    (The code re-tests `is_exhausted` only when it needs a new frame, so `None` is final.) -/
theorem interleaved_exact (o : Ops α) (s : Sig α) (l : Nat) (hl : s.len = some l)
    (hne : ∀ i, i < l → s.den o i ≠ []) (m : Nat) :
    (runOpt (ILSt.nextSample o) m ⟨none, s.init⟩).1 =
      (List.range m).map fun i => (((List.range l).map (s.den o)).flatten)[i]? := by
  rw [il_run o m ⟨none, s.init⟩ l (by rw [init_len]; exact hl) (by intro i hi; rw [init_den]; exact hne i hi)]
  have e : St.den o s.init = s.den o := funext (init_den o s)
  simp [ILSt.flat, e]

/-- with `n`-channel frames that is exactly `l * n` samples -/
theorem interleaved_count (o : Ops α) (s : Sig α) (l n : Nat) (hn : ∀ i, i < l → (s.den o i).length = n) :
    (((List.range l).map (s.den o)).flatten).length = l * n := by
  induction l with
  | zero => simp
  | succ l ih =>
    rw [List.range_succ, List.map_append, List.flatten_append, List.length_append,
      ih (fun i hi => hn i (Nat.lt_succ_of_lt hi))]
    simp [hn l (Nat.lt_succ_self l), Nat.succ_mul]

/-! ### non-vacuity: concrete trees -/

def iops : Ops Int where
  eq := [0, 0]
  addAmp := List.zipWith (· + ·)
  mulAmp := List.zipWith (· * ·)
  scaleAmp f k := f.map (· * k)
  offsetAmp f k := f.map (· + k)
  clipSample := clipInt

/-- 5 samples in 2-channel frames: 2 complete frames, the 5th sample is dropped -/
def src5 : Sig Int := .fromSamples 2 [10, 20, 30, 40, 50]
/-- `delay 1 (add_amp (from_iter 3 frames) (5 samples / 2 channels))`: length 1 + min 3 2 = 3 -/
def ex1 : Sig Int := .delay 1 (.addAmp (.fromIter [[1, 2], [3, 4], [5, 6]]) src5)

example : chunks 2 [10, 20, 30, 40, 50] = [[10, 20], [30, 40]] := by decide
example : (run iops 4 src5.init).1 = [[10, 20], [30, 40], [0, 0], [0, 0]] := by decide
example : (List.range 5).map (fun j => isExhausted (run iops j src5.init).2) = [false, false, true, true, true] := by decide
example : (run iops 4 src5.init).2.calls = [6] := by decide       -- 5 samples + the one `None`, never more
example : (run iops 9 (Sig.fromIter [[1, 2], [3, 4]]).init).2.calls = [3] := by decide
example : ex1.len = some 3 := by decide
example : (List.range 6).map (fun j => isExhausted (run iops j ex1.init).2) = [false, false, false, true, true, true] := by decide
/-- a delay over an empty source is live during its silence -/
example : (List.range 4).map (fun j => isExhausted (run iops j (Sig.delay 2 (.fromIter ([] : List (List Int)))).init).2) = [false, false, true, true] := by decide
example : (runOpt (untilNext iops) 5 ex1.init).1 = [some [0, 0], some [11, 22], some [33, 44], none, none] := by decide
example : (runOpt (untilNext iops) 4 (lift [[1, 2], [3, 4]] fun src => .un (.offsetAmp 1) src)).1 = [some [2, 3], some [4, 5], none, none] := by decide
example : (runOpt (TakeSt.next iops) 4 ⟨2, src5.init⟩).1 = [some [10, 20], some [30, 40], none, none] := by decide
example : (runOpt (TakeSt.next iops) 4 ⟨3, src5.init⟩).1 = [some [10, 20], some [30, 40], some [0, 0], none] := by decide
example : (runOpt (ILSt.nextSample iops) 6 ⟨none, src5.init⟩).1 = [some 10, some 20, some 30, some 40, none, none] := by decide
example : src5.len = some 2 ∧ ∀ i, i < 2 → src5.den iops i ≠ [] := by decide

end Dasp.Props.C05
