import Dasp.Gen.ConvTable
/-!
# C01 — integer sample formats convert by exact power-of-two amplitude rescaling

Property text (properties.jsonl, C01): converting a sample between any two of the twelve
integer formats yields exactly the input's signed amplitude (value minus half-range for
unsigned formats) multiplied by 2^(target bits − source bits), rounded toward negative
infinity when narrowing.  Hence widening is lossless and undone by narrowing back,
equilibrium maps to equilibrium and each extreme to the matching extreme, order is
preserved, and every result is a valid in-range value of the target format.  Converting
through any intermediate format at least as wide as the narrower endpoint gives the same
result as converting directly.

`Dasp.Gen.table s d` is the body of `conv::<s>::to_<d>` as *regenerated from
/repo/dasp_sample/src/conv.rs on every run*; `specConv` is the specification above.
Only property theorems and their non-vacuity examples live in this file.
-/
namespace Dasp.Props.C01
open Dasp Dasp.Gen

/-- the code, as computed in a build without overflow checks -/
def conv (s d : Fmt) (v : Int) : Int := val v (table s d)

/-- **C01 main theorem.** For all 132 ordered pairs and every in-range value: no overflow
    panic in checked builds (`ok`), every unchecked 24/48-bit constructor receives an in-range
    value (`valid`), and the value is the specified rescaling. -/
theorem conv_spec (s d : Fmt) (hsd : s ≠ d) (v : Int) (hv : s.inRange v) :
    ok v (table s d) ∧ valid v (table s d) ∧ conv s d v = specConv s d v :=
  table_spec s d hsd v hv

/-! ### consequences, proved about the specification and transferred by `conv_spec` -/

theorem spec_inRange (s d : Fmt) (v : Int) (hv : s.inRange v) : d.inRange (specConv s d v) := by
  cases s <;> cases d <;> simp [specConv, Fmt.inRange] at * <;> omega

/-- every result is a valid in-range value of the target format -/
theorem conv_inRange (s d : Fmt) (hsd : s ≠ d) (v : Int) (hv : s.inRange v) : d.inRange (conv s d v) := by
  rw [(conv_spec s d hsd v hv).2.2]; exact spec_inRange s d v hv

theorem spec_roundtrip (s d : Fmt) (h : s.bits ≤ d.bits) (v : Int) :
    specConv d s (specConv s d v) = v := by
  cases s <;> cases d <;> simp [specConv] at * <;> omega

/-- widening is lossless and undone by narrowing back -/
theorem conv_roundtrip (s d : Fmt) (hsd : s ≠ d) (h : s.bits ≤ d.bits) (v : Int) (hv : s.inRange v) :
    conv d s (conv s d v) = v := by
  have h1 := (conv_spec s d hsd v hv).2.2
  have h2 := (conv_spec d s (Ne.symm hsd) (conv s d v) (conv_inRange s d hsd v hv)).2.2
  rw [h2, h1]; exact spec_roundtrip s d h v

theorem spec_equilibrium (s d : Fmt) : specConv s d s.off = d.off := by
  cases s <;> cases d <;> simp [specConv]

/-- equilibrium maps to equilibrium -/
theorem conv_equilibrium (s d : Fmt) (hsd : s ≠ d) : conv s d s.off = d.off := by
  rw [(conv_spec s d hsd s.off (by cases s <;> simp [Fmt.inRange])).2.2]; exact spec_equilibrium s d

theorem spec_min (s d : Fmt) : specConv s d s.lo = d.lo := by
  cases s <;> cases d <;> simp [specConv]

/-- the minimum maps to the minimum -/
theorem conv_min (s d : Fmt) (hsd : s ≠ d) : conv s d s.lo = d.lo := by
  rw [(conv_spec s d hsd s.lo (by cases s <;> simp [Fmt.inRange])).2.2]; exact spec_min s d

/-- the maximum maps to the maximum when narrowing, and to the largest value with zero
    low-order bits (`MAX_d − (2^(bd−bs) − 1)`) when widening — what "matching extreme" means
    for a shift -/
theorem spec_max (s d : Fmt) :
    specConv s d s.hi = if d.bits ≤ s.bits then d.hi else d.hi - (2 ^ (d.bits - s.bits) - 1) := by
  cases s <;> cases d <;> simp [specConv]

theorem conv_max (s d : Fmt) (hsd : s ≠ d) :
    conv s d s.hi = if d.bits ≤ s.bits then d.hi else d.hi - (2 ^ (d.bits - s.bits) - 1) := by
  rw [(conv_spec s d hsd s.hi (by cases s <;> simp [Fmt.inRange])).2.2]; exact spec_max s d

theorem spec_mono (s d : Fmt) (a b : Int) (h : a ≤ b) : specConv s d a ≤ specConv s d b := by
  cases s <;> cases d <;> simp [specConv] <;> omega

/-- order is preserved -/
theorem conv_mono (s d : Fmt) (hsd : s ≠ d) (a b : Int) (ha : s.inRange a) (hb : s.inRange b) (h : a ≤ b) :
    conv s d a ≤ conv s d b := by
  rw [(conv_spec s d hsd a ha).2.2, (conv_spec s d hsd b hb).2.2]; exact spec_mono s d a b h

/-- widening is strictly monotone (lossless) -/
theorem spec_strictMono_of_widening (s d : Fmt) (hw : s.bits ≤ d.bits) (a b : Int) (h : a < b) :
    specConv s d a < specConv s d b := by
  cases s <;> cases d <;> simp [specConv] at * <;> omega

theorem spec_via (s m d : Fmt) (hm : min s.bits d.bits ≤ m.bits) (v : Int) :
    specConv m d (specConv s m v) = specConv s d v := by
  cases s <;> cases m <;> cases d <;> simp [specConv] at * <;> omega

/-- converting through any intermediate format at least as wide as the narrower endpoint
    gives the same result as converting directly -/
theorem conv_via (s m d : Fmt) (hsm : s ≠ m) (hmd : m ≠ d) (hsd : s ≠ d)
    (hm : min s.bits d.bits ≤ m.bits) (v : Int) (hv : s.inRange v) :
    conv m d (conv s m v) = conv s d v := by
  have h1 := (conv_spec s m hsm v hv).2.2
  have h2 := (conv_spec m d hmd (conv s m v) (conv_inRange s m hsm v hv)).2.2
  rw [h2, h1, (conv_spec s d hsd v hv).2.2]; exact spec_via s m d hm v

/-! ### non-vacuity: the hypotheses are met by non-trivial values, and the spec is the
    intended function on concrete points (these are tests of the *statement*) -/
example : Fmt.inRange .i16 (-12345) ∧ Fmt.i16 ≠ Fmt.u8 := by simp [Fmt.inRange]
example : specConv .i16 .u8 (-12345) = 79 := by decide
example : specConv .u8 .i16 79 = -12544 := by decide
example : specConv .i64 .u24 (-1) = 8388607 := by decide
example : conv .i16 .u8 (-12345) = 79 := by
  rw [(conv_spec .i16 .u8 (by decide) (-12345) (by simp [Fmt.inRange])).2.2]; decide

end Dasp.Props.C01
