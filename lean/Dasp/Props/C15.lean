import Dasp.Lemmas.Types
/-!
# C15 — custom-width integer sample types never silently leave their range

Property text (properties.jsonl, C15): for the 11-, 20-, 24- and 48-bit signed and unsigned
sample types, checked construction succeeds exactly for in-range values, conversion from the
backing integer wraps modulo 2^bits into range, the widening From impls preserve the numeric
value, and ordering/equality coincide with numeric order.  Addition, subtraction and
multiplication of in-range values, and negation of signed ones, produce the result wrapped
modulo 2^bits into range in builds without debug assertions and panic on overflow in builds
with them; in neither build do they return a value outside [MIN, MAX].

`Dasp.Gen.Types.macroDef` holds the bodies of `new_sample_type!` / `impl_neg!` / `impl_from!`
and `Dasp.Gen.Types.all` the eight instantiations, both *regenerated from
/repo/dasp_sample/src/types.rs on every run*; their meaning is `Dasp/Machine/TypesSem.lean`
(`opRun … dbg … = none` is a panic; `dbg = true` is the build with debug assertions, in which
— stated assumption — backing-type overflow checks are on as well).  `wrapT ts v` is the
specification "v wrapped modulo TOTAL into [MIN, MAX]".  Only property theorems and their
non-vacuity examples live in this file; the generic lemmas are in `Lemmas/Types.lean`.
-/
namespace Dasp.Props.C15
open Dasp Dasp.Types Dasp.Gen.Types

/-! ### the eight generated records satisfy the side conditions of the generic lemmas -/

/-- exactly the eight types of the property, in this order -/
theorem all_eq : all = [I11, I20, I24, I48, U11, U20, U24, U48] := rfl

theorem mem_all : I11 ∈ all ∧ I20 ∈ all ∧ I24 ∈ all ∧ I48 ∈ all ∧ U11 ∈ all ∧ U20 ∈ all ∧ U24 ∈ all ∧ U48 ∈ all := by
  simp [all]

/-- TOTAL = MAX − MIN + 1 > 0, TOTAL ∣ 2^repbits, 0 in range, the range and the exact results of
    `+`, `−`, unary `−` on in-range operands fit the backing type, EQUILIBRIUM in range -/
theorem wf_all : ∀ ts ∈ all, WF ts := by decide

/-- every entry of every `from:` list names a source whose whole range fits the target -/
theorem wfFrom_all : ∀ ts ∈ all, wfFromB all ts = true := by decide

/-- the constants are those of the property: TOTAL = 2^bits, signed range [−2^(bits−1), 2^(bits−1)−1],
    unsigned range [0, 2^bits − 1] (so `wrapT` is "wrapped modulo 2^bits into range") -/
theorem constants :
    (I11.total = 2 ^ 11 ∧ I11.min = -2 ^ 10 ∧ I11.max = 2 ^ 10 - 1) ∧
    (I20.total = 2 ^ 20 ∧ I20.min = -2 ^ 19 ∧ I20.max = 2 ^ 19 - 1) ∧
    (I24.total = 2 ^ 24 ∧ I24.min = -2 ^ 23 ∧ I24.max = 2 ^ 23 - 1) ∧
    (I48.total = 2 ^ 48 ∧ I48.min = -2 ^ 47 ∧ I48.max = 2 ^ 47 - 1) ∧
    (U11.total = 2 ^ 11 ∧ U11.min = 0 ∧ U11.max = 2 ^ 11 - 1) ∧
    (U20.total = 2 ^ 20 ∧ U20.min = 0 ∧ U20.max = 2 ^ 20 - 1) ∧
    (U24.total = 2 ^ 24 ∧ U24.min = 0 ∧ U24.max = 2 ^ 24 - 1) ∧
    (U48.total = 2 ^ 48 ∧ U48.min = 0 ∧ U48.max = 2 ^ 48 - 1) := by decide

/-- `Neg` exists for the signed 11/24/48-bit types and for U11 (types.rs `impl_neg!` lines) -/
theorem neg_impls : all.map (·.hasNeg) = [true, false, true, true, true, false, false, false] := by decide

/-! ### "checked construction succeeds exactly for in-range values" -/

theorem new_iff (ts : TypeSpec) (v r : Int) :
    newRun ts macroDef v = some r ↔ (ts.min ≤ v ∧ v ≤ ts.max) ∧ r = v := by
  rw [(new_spec ts v).1]
  by_cases h : ts.inRange v
  · rw [if_pos h]; unfold TypeSpec.inRange at h; simp [h, eq_comm]
  · rw [if_neg h]; unfold TypeSpec.inRange at h; simp [h]

theorem new_none_iff (ts : TypeSpec) (v : Int) :
    newRun ts macroDef v = none ↔ ¬ (ts.min ≤ v ∧ v ≤ ts.max) := by
  rw [(new_spec ts v).1]
  by_cases h : ts.inRange v
  · rw [if_pos h]; unfold TypeSpec.inRange at h; simp [h]
  · rw [if_neg h]; unfold TypeSpec.inRange at h; simp [h]

/-! ### "conversion from the backing integer wraps modulo 2^bits into range"
    (and the two `while` loops terminate, without overflow, in both builds) -/

theorem from_wraps (ts : TypeSpec) (hts : ts ∈ all) (dbg : Bool) (v : Int) (hv : ts.rep.inRange v) :
    fromRun ts macroDef dbg v = some (wrapT ts v) ∧ ts.inRange (wrapT ts v) ∧
    (∃ k : Int, wrapT ts v = v + k * ts.total) ∧ (ts.inRange v → wrapT ts v = v) :=
  ⟨fromRun_spec ts (wf_all ts hts) dbg v hv.1 hv.2, wrapT_inRange ts (wf_all ts hts) v, wrapT_congr ts v,
   wrapT_id ts (wf_all ts hts) v⟩

/-! ### "the widening From impls preserve the numeric value" -/

/-- `impl From<p> for T`, `p` a primitive in T's `from:` list -/
theorem widening_prim (ts : TypeSpec) (hts : ts ∈ all) (p : ITy) (hp : p ∈ ts.fromPrims) (dbg : Bool)
    (v : Int) (hv : p.inRange v) :
    opRun ts macroDef dbg ⟨0, v, 0⟩ macroDef.fromPrim = some v ∧ ts.inRange v := by
  have hm : macroDef.fromPrim = .mk (.asRep .other0) := rfl
  obtain ⟨_, _, hlo, hhi, _⟩ := wf_all ts hts
  have hf := wfFrom_all ts hts
  simp only [wfFromB, Bool.and_eq_true, List.all_eq_true, decide_eq_true_eq] at hf
  have hr := hf.1 p hp
  unfold ITy.inRange at hv
  have hw : ts.rep.wrap v = v := wrap_id _ _ (by omega) (by omega)
  refine ⟨?_, by unfold TypeSpec.inRange; omega⟩
  cases dbg <;> simp [opRun, opOk, opVal, okB, valB, valE, okE, hm, hw]

/-- `impl From<U> for T`, `{U:URep}` a custom type in T's `from:` list, for an in-range `U` -/
theorem widening_custom (ts : TypeSpec) (hts : ts ∈ all) (i : Nat) (urep : ITy) (hi : (i, urep) ∈ ts.fromCustom)
    (src : TypeSpec) (hsrc : all[i]? = some src) (dbg : Bool) (v : Int) (hv : src.inRange v) :
    src.rep = urep ∧ opRun ts macroDef dbg ⟨0, v, 0⟩ macroDef.fromCustom = some v ∧ ts.inRange v := by
  have hm : macroDef.fromCustom = .mk (.asRep .other0) := rfl
  obtain ⟨_, _, hlo, hhi, _⟩ := wf_all ts hts
  have hf := wfFrom_all ts hts
  simp only [wfFromB, Bool.and_eq_true, List.all_eq_true, decide_eq_true_eq] at hf
  have hr := hf.2 (i, urep) hi
  simp only [hsrc, Bool.and_eq_true, decide_eq_true_eq] at hr
  unfold TypeSpec.inRange at hv
  have hw : ts.rep.wrap v = v := wrap_id _ _ (by omega) (by omega)
  refine ⟨hr.1.1, ?_, by unfold TypeSpec.inRange; omega⟩
  cases dbg <;> simp [opRun, opOk, opVal, okB, valB, valE, okE, hm, hw]

/-! ### "ordering/equality coincide with numeric order"
    (`#[derive(PartialEq, Eq, PartialOrd, Ord)]` on the single-field struct: *modelled* as the
    comparison of the field; the derive list and the single field are checked by the translator,
    the behaviour by the correspondence stream) -/

theorem ord_derived : ∀ ts ∈ all, ts.ordDerived = true := by decide

theorem cmp_numeric (a b : Int) :
    (cmpT a b = .lt ↔ a < b) ∧ (cmpT a b = .eq ↔ a = b) ∧ (cmpT a b = .gt ↔ b < a) ∧ (eqT a b = true ↔ a = b) := by
  unfold cmpT eqT
  refine ⟨?_, ?_, ?_, by simp⟩
  · simp [compare, compareOfLessAndEq]; split <;> simp_all <;> omega
  · simp [compare, compareOfLessAndEq]; split <;> simp_all <;> omega
  · simp [compare, compareOfLessAndEq]; split <;> simp_all <;> omega

/-! ### add / sub / mul / neg on in-range operands

release (`dbg = false`): the exact result wrapped modulo TOTAL into range;
debug (`dbg = true`): the exact result if it is in range, otherwise a panic. -/

theorem add_spec (ts : TypeSpec) (hts : ts ∈ all) (a b : Int) (ha : ts.inRange a) (hb : ts.inRange b) :
    opRun ts macroDef false ⟨a, b, 0⟩ macroDef.add = some (wrapT ts (a + b)) ∧
    opRun ts macroDef true ⟨a, b, 0⟩ macroDef.add = (if ts.inRange (a + b) then some (a + b) else none) := by
  have hm : macroDef.add = .ifDebug (.newExpect (.add .self0 .other0)) (.wrapOnce (.mk (.add .self0 .other0))) := rfl
  have wf := wf_all ts hts
  have hwf := wf
  obtain ⟨htot, hpos, hlo, hhi, h5, h6, h7, h8, h9, h10, h11, h12, h13, h14, h15⟩ := hwf
  unfold TypeSpec.inRange at ha hb
  rw [hm, opRun_ifDebug, opRun_ifDebug]
  exact ⟨wrapOnce_release ts wf _ _ (a + b) rfl (by omega) (by omega) (by omega) (by omega),
         newExpect_debug ts wf _ _ (a + b) rfl (by simp [okE, valE])⟩

theorem sub_spec (ts : TypeSpec) (hts : ts ∈ all) (a b : Int) (ha : ts.inRange a) (hb : ts.inRange b) :
    opRun ts macroDef false ⟨a, b, 0⟩ macroDef.sub = some (wrapT ts (a - b)) ∧
    opRun ts macroDef true ⟨a, b, 0⟩ macroDef.sub = (if ts.inRange (a - b) then some (a - b) else none) := by
  have hm : macroDef.sub = .ifDebug (.newExpect (.sub .self0 .other0)) (.wrapOnce (.mk (.sub .self0 .other0))) := rfl
  have wf := wf_all ts hts
  have hwf := wf
  obtain ⟨htot, hpos, hlo, hhi, h5, h6, h7, h8, h9, h10, h11, h12, h13, h14, h15⟩ := hwf
  unfold TypeSpec.inRange at ha hb
  rw [hm, opRun_ifDebug, opRun_ifDebug]
  exact ⟨wrapOnce_release ts wf _ _ (a - b) rfl (by omega) (by omega) (by omega) (by omega),
         newExpect_debug ts wf _ _ (a - b) rfl (by simp [okE, valE])⟩

/-- for `mul` the product may wrap around in the backing type first (release); that is
    harmless because TOTAL ∣ 2^repbits (`wrapT_repwrap`), and the full `wrap_overflow` loops
    bring any backing-type value into range -/
theorem mul_spec (ts : TypeSpec) (hts : ts ∈ all) (a b : Int) :
    opRun ts macroDef false ⟨a, b, 0⟩ macroDef.mul = some (wrapT ts (a * b)) ∧
    opRun ts macroDef true ⟨a, b, 0⟩ macroDef.mul = (if ts.inRange (a * b) then some (a * b) else none) := by
  have hm : macroDef.mul = .ifDebug (.newExpect (.mul .self0 .other0)) (.fromRep (.mul .self0 .other0)) := rfl
  have wf := wf_all ts hts
  rw [hm, opRun_ifDebug, opRun_ifDebug]
  exact ⟨fromRep_release ts wf _ _ (a * b) rfl, newExpect_debug ts wf _ _ (a * b) rfl (by simp [okE, valE])⟩

/-- `Neg` (`impl_neg!`), for every type that has it — signed or not -/
theorem neg_spec (ts : TypeSpec) (hts : ts ∈ all) (a : Int) (ha : ts.inRange a) :
    opRun ts macroDef false ⟨a, 0, 0⟩ macroDef.neg = some (wrapT ts (-a)) ∧
    opRun ts macroDef true ⟨a, 0, 0⟩ macroDef.neg = (if ts.inRange (-a) then some (-a) else none) := by
  have hm : macroDef.neg = .ifDebug (.newExpect (.neg .self0)) (.wrapOnce (.mk (.neg .self0))) := rfl
  have wf := wf_all ts hts
  have hwf := wf
  obtain ⟨htot, hpos, hlo, hhi, h5, h6, h7, h8, h9, h10, h11, h12, h13, h14, h15⟩ := hwf
  unfold TypeSpec.inRange at ha
  rw [hm, opRun_ifDebug, opRun_ifDebug]
  exact ⟨wrapOnce_release ts wf _ _ (-a) rfl (by omega) (by omega) (by omega) (by omega),
         newExpect_debug ts wf _ _ (-a) rfl (by simp [okE, valE])⟩

/-- negation of the signed types: −MIN is the one overflow (wraps to MIN / panics), every other
    in-range value is negated exactly in both builds -/
theorem neg_signed (ts : TypeSpec) (hts : ts ∈ all) (hs : ts.min = -ts.max - 1) (a : Int) (ha : ts.inRange a) :
    (a ≠ ts.min → ∀ dbg, opRun ts macroDef dbg ⟨a, 0, 0⟩ macroDef.neg = some (-a)) ∧
    (a = ts.min → opRun ts macroDef false ⟨a, 0, 0⟩ macroDef.neg = some ts.min ∧
                  opRun ts macroDef true ⟨a, 0, 0⟩ macroDef.neg = none) := by
  have wf := wf_all ts hts
  have h := neg_spec ts hts a ha
  have hwf := wf
  obtain ⟨htot, hpos, _⟩ := hwf
  unfold TypeSpec.inRange at ha
  constructor
  · intro hne dbg
    have hin : ts.inRange (-a) := by unfold TypeSpec.inRange; omega
    cases dbg
    · rw [h.1, wrapT_id ts wf _ hin]
    · rw [h.2, if_pos hin]
  · intro he
    have hout : ¬ ts.inRange (-a) := by unfold TypeSpec.inRange; omega
    refine ⟨?_, by rw [h.2, if_neg hout]⟩
    rw [h.1]; congr 1
    exact (wrapT_unique ts wf (-a) ts.min (-1) (by unfold TypeSpec.inRange; omega) (by omega)).symm

/-- what `Neg` does on U11 (the one unsigned type with `impl_neg!`; the property's wrap/panic clause
    only speaks of signed negation): release: 0 ↦ 0, v ↦ 2048 − v; debug: panics unless v = 0 -/
theorem neg_U11 (a : Int) (ha : U11.inRange a) :
    opRun U11 macroDef false ⟨a, 0, 0⟩ macroDef.neg = some (if a = 0 then 0 else 2048 - a) ∧
    opRun U11 macroDef true ⟨a, 0, 0⟩ macroDef.neg = (if a = 0 then some 0 else none) := by
  have h := neg_spec U11 mem_all.2.2.2.2.1 a ha
  have wf : WF U11 := wf_all U11 mem_all.2.2.2.2.1
  have hc : U11.min = 0 ∧ U11.max = 2047 ∧ U11.total = 2048 := by decide
  unfold TypeSpec.inRange at ha
  rw [h.1, h.2]
  by_cases h0 : a = 0
  · subst h0; simp only [if_true]
    exact ⟨by decide, by decide⟩
  · simp only [h0, if_false]
    constructor
    · congr 1
      exact (wrapT_unique U11 wf (-a) (2048 - a) 1 (by unfold TypeSpec.inRange; omega) (by rw [hc.2.2]; ring)).symm
    · rw [if_neg (by unfold TypeSpec.inRange; omega)]

/-! ### "in neither build do they return a value outside [MIN, MAX]" -/

theorem never_out_of_range (ts : TypeSpec) (hts : ts ∈ all) (dbg : Bool) (a b : Int)
    (ha : ts.inRange a) (hb : ts.inRange b) (r : Int) :
    (opRun ts macroDef dbg ⟨a, b, 0⟩ macroDef.add = some r → ts.inRange r) ∧
    (opRun ts macroDef dbg ⟨a, b, 0⟩ macroDef.sub = some r → ts.inRange r) ∧
    (opRun ts macroDef dbg ⟨a, b, 0⟩ macroDef.mul = some r → ts.inRange r) ∧
    (opRun ts macroDef dbg ⟨a, 0, 0⟩ macroDef.neg = some r → ts.inRange r) := by
  have wf := wf_all ts hts
  have key : ∀ (e : Int) (o : Option Int),
      (dbg = false → o = some (wrapT ts e)) → (dbg = true → o = if ts.inRange e then some e else none) →
      o = some r → ts.inRange r := by
    intro e o h1 h2 ho
    cases dbg
    · rw [h1 rfl] at ho; cases ho; exact wrapT_inRange ts wf e
    · rw [h2 rfl] at ho
      by_cases h : ts.inRange e
      · rw [if_pos h] at ho; cases ho; exact h
      · rw [if_neg h] at ho; cases ho
  refine ⟨key (a + b) _ ?_ ?_, key (a - b) _ ?_ ?_, key (a * b) _ ?_ ?_, key (-a) _ ?_ ?_⟩
  all_goals intro hd; subst hd
  · exact (add_spec ts hts a b ha hb).1
  · exact (add_spec ts hts a b ha hb).2
  · exact (sub_spec ts hts a b ha hb).1
  · exact (sub_spec ts hts a b ha hb).2
  · exact (mul_spec ts hts a b).1
  · exact (mul_spec ts hts a b).2
  · exact (neg_spec ts hts a ha).1
  · exact (neg_spec ts hts a ha).2

/-! ### historical counter-witnesses (the behaviour before the `fix:` commit 53a6bcd)

The old `impl_neg!` body was `$T(-self.0)` in both builds, i.e. `Body.mk (.neg .self0)`. -/

/-- OLD `Neg`: `-I24::MIN` returned 8 388 608 > MAX, in both builds -/
theorem old_neg_leaves_range_I24 (dbg : Bool) :
    I24.inRange I24.min ∧ opRun I24 macroDef dbg ⟨I24.min, 0, 0⟩ (.mk (.neg .self0)) = some 8388608 ∧
    ¬ I24.inRange 8388608 := by
  cases dbg <;> decide

/-- OLD `Neg`: `-I11::MIN` returned 1024 > MAX, `-U11(5)` returned −5 < MIN -/
theorem old_neg_leaves_range_11 (dbg : Bool) :
    opRun I11 macroDef dbg ⟨I11.min, 0, 0⟩ (.mk (.neg .self0)) = some 1024 ∧ ¬ I11.inRange 1024 ∧
    opRun U11 macroDef dbg ⟨5, 0, 0⟩ (.mk (.neg .self0)) = some (-5) ∧ ¬ U11.inRange (-5) := by
  cases dbg <;> decide

/-! ### non-vacuity: concrete non-trivial instances of every hypothesis, and the specification
    is the intended function on concrete points (tests of the *statements*) -/

example : I24.inRange 8388607 ∧ I24.inRange (-5) ∧ I24.rep.inRange 2147483647 := by decide
example : wrapT I24 (8388607 + 1) = -8388608 := by decide
example : wrapT I11 (1023 * 1023) = 1 := by decide
example : wrapT U48 (-1) = 281474976710655 := by decide
example : opRun I11 macroDef false ⟨1023, 1023, 0⟩ macroDef.mul = some 1 := by
  rw [(mul_spec I11 mem_all.1 1023 1023).1]; decide
example : opRun I11 macroDef true ⟨1023, 1023, 0⟩ macroDef.mul = none := by
  rw [(mul_spec I11 mem_all.1 1023 1023).2]; decide
example : opRun I48 macroDef true ⟨140737488355327, -140737488355328, 0⟩ macroDef.add = some (-1) := by
  rw [(add_spec I48 mem_all.2.2.2.1 _ _ (by decide) (by decide)).2]; decide
example : fromRun I11 macroDef true 32767 = some (-1) := by
  rw [(from_wraps I11 mem_all.1 true 32767 (by decide)).1]; decide
example : newRun U20 macroDef 1048575 = some 1048575 ∧ newRun U20 macroDef 1048576 = none := by
  constructor
  · rw [new_iff]; decide
  · rw [new_none_iff]; decide
example : (.i16 : ITy) ∈ I20.fromPrims ∧ (0, ITy.i16) ∈ I20.fromCustom ∧ all[0]? = some I11 :=
  ⟨by decide, by decide, rfl⟩
example : opRun I24 macroDef false ⟨I24.min, 0, 0⟩ macroDef.neg = some I24.min :=
  ((neg_signed I24 mem_all.2.2.1 (by decide) I24.min (by decide)).2 rfl).1

end Dasp.Props.C15
