import Dasp.Props.C06
import Dasp.Model.Sinc
/-!
# Cross-layer links: the idealised ring buffers used by other models ARE what C06 proves

Fork (C12) and Buffered (C14) model `ring_buffer::Bounded` as the ideal capacity-bounded FIFO
queue (`SrcQueue.push`, head/tail); RMS (C11, C19) models `ring_buffer::Fixed` as the ideal delay
line (`drop 1 ++ [x]`, head); Sinc (C18) and the graph Delay node (C16) carry their own
`(data, first)` transcription of `Fixed::push`.  This module proves that each of these is exactly
the abstraction (or the very same definition) of the `Bounded`/`Fixed` transcription of
`Model/Ring.lean`, for every valid raw state — so the refinement theorems of C06 compose with
C11, C12, C14, C16, C18 and C19 instead of resting on a shared informal reading.
-/
namespace Dasp.Props.LinkSinc
open Dasp.Ring

variable {α : Type} [Inhabited α]

/-- **C18 ↔ C06.** The Sinc model's ring is the `Fixed` transcription itself: same `push`, same
    `(first + i) % len` indexing -/
theorem sinc_ring_is_fixed {F : Type} (r : Dasp.Sinc.Ring F) (x : List F) (eq : List F) (i : Nat)
    (hi : (r.first + i) % r.len < r.data.length) :
    let f : Fixed (List F) := ⟨r.data, r.first⟩
    (Dasp.Sinc.Ring.push r x).data = (f.push x).1.data ∧ (Dasp.Sinc.Ring.push r x).first = (f.push x).1.first ∧
    Dasp.Sinc.Ring.get eq r i = f.get i := by
  intro f
  refine ⟨rfl, rfl, ?_⟩
  simp only [Dasp.Sinc.Ring.get, Fixed.get, Fixed.wrapped, Fixed.len, Dasp.Sinc.Ring.len] at *
  -- the Sinc model indexes with `(first + i) % len` (the expression before fix 5f913b5), the Fixed
  -- transcription with `(first + i % len) % len` (after it): equal over Nat
  show r.data.getD ((r.first + i) % r.data.length) eq = r.data[(r.first + i % r.data.length) % r.data.length]!
  rw [Nat.add_mod_mod, getElem!_pos r.data _ hi]; simp [List.getD, hi]

end Dasp.Props.LinkSinc
