import Dasp.Lemmas.Buffered
/-!
# C14 — Buffered signals are a transparent prefetch of the source

Property text (properties.jsonl, C14): *For any ring-buffer capacity, any pre-filled content
and any internal start offset, a buffered signal yields the pre-filled frames first and then
exactly the source's frames in order, whether consumed frame by frame or in batches, pulling
exactly one buffer's worth of source frames each time it runs empty and none otherwise.  It
reports exhaustion only when the source is exhausted and every buffered frame has been
delivered, so draining it to exhaustion yields the source's frames followed by fewer than one
buffer of equilibrium padding.*

Model: `Dasp/Model/Buffered.lean` (transcription of dasp_signal/src/lib.rs:775-784,
2426-2515, 2328-2340; the ring buffer is the ideal capacity-bounded FIFO queue — independence
of the internal start offset is C06's theorem about `Bounded`, and is exercised on the real
code by the harness).  `future s i` is the `i`-th frame still owed in state `s` (buffered
frames, then the source from its current position, then equilibrium); for a freshly built
buffered signal it is `(prefill ++ source).getD i equilibrium` (`future_fresh`).
`Delivers s out s'` (Lemmas/Buffered.lean): `out` is exactly the next `out.length` frames of
`future s`, `future s'` is `future s` shifted by that many, the source position moved by a
whole number of buffers, and `out.length + buffered' = buffered + pulled` (nothing lost).
Only property theorems and non-vacuity examples live in this file.
-/
namespace Dasp.Props.C14
open Dasp.Buffered Dasp.SrcQueue

variable {α : Type}

/-- *"yields the pre-filled frames first and then exactly the source's frames in order"*: what
    a freshly built `signal.buffered(ring_buffer)` owes is pre-fill ++ source ++ equilibrium… -/
theorem future_fresh (src : Src α) (prefill : List α) (cap : Nat) (h0 : src.pos = 0) (i : Nat) :
    future (init src prefill cap) i = (prefill ++ src.frames).getD i src.eq :=
  future_init src prefill cap h0 i

/-- *"consumed frame by frame"*: `Buffered::next` returns the next owed frame and leaves the rest
    owed, in every state (any pre-fill, any source position) and for every capacity ≥ 1 -/
theorem next_transparent (s : St α) (hc : 1 ≤ s.cap) :
    (next s).1 = future s 0 ∧ ∀ i, future (next s).2 i = future s (i + 1) := by
  have h := next_delivers s hc
  refine ⟨?_, h.fut⟩
  have := h.out_eq
  simpa [List.range_succ] using this

/-- the loop in `Buffered::next` terminates: after a refill the pop succeeds (the model's
    totalising last arm is unreachable for capacity ≥ 1) -/
theorem next_refill_pop_succeeds (s : St α) (hq : s.q = []) (hc : 1 ≤ s.cap) : (refill s).q ≠ [] :=
  refill_nonempty s hq hc

/-- *"or in batches"* (partially or fully drained): `next_frames()` followed by `k` steps of the
    returned iterator yields the first `k` frames buffered after the (possible) refill, then
    `None`s — the iterator never refills — and whatever was not yielded stays buffered -/
theorem next_frames_shape (s : St α) (k : Nat) :
    exec s (.frames k) =
      (((beginFrames s).q.take k).map some ++ List.replicate (k - (beginFrames s).q.length) none,
       { beginFrames s with q := (beginFrames s).q.drop k }) :=
  iterN_spec k (beginFrames s)

/-- *"in batches"*, the batch advanced with `Iterator::nth` (what `skip` / `step_by` use):
    `next_frames().nth(k)` — `k+1` iterator steps of which the client sees the last — hands out the
    frame `k` places into the buffer (after the possible refill) if there is one and `None` otherwise,
    and consumes exactly the frames up to and including it: nothing further is lost or duplicated
    (the state is the one `next_frames_shape` gives for `k+1` steps, so `interleaving_transparent`
    applies to it as to any other operation) -/
theorem nth_is_last_of_frames (s : St α) (k : Nat) :
    (nthView (step s (.frames (k + 1))).1).out = [(beginFrames s).q[k]?] ∧
    (step s (.frames (k + 1))).2 = { beginFrames s with q := (beginFrames s).q.drop (k + 1) } := by
  have h := next_frames_shape s (k + 1)
  simp only [step, nthView, look, h, true_and, and_true]
  congr 1
  generalize (beginFrames s).q = q
  by_cases hk : k < q.length
  · have hr : k + 1 - q.length = 0 := by omega
    rw [hr, List.replicate_zero, List.append_nil, List.getLast?_map, List.getLast?_take]
    simp [hk, List.getElem?_eq_getElem hk]
  · have hk' : q.length ≤ k := Nat.le_of_not_lt hk
    obtain ⟨m, hm⟩ : ∃ m, k + 1 - q.length = m + 1 := ⟨k - q.length, by omega⟩
    rw [hm, List.replicate_succ', ← List.append_assoc, List.getLast?_concat]
    simp [List.getElem?_eq_none hk']

/-- `next_frames().collect()` yields the whole buffer and leaves it empty -/
theorem next_frames_collect (s : St α) :
    exec s .drain = ((beginFrames s).q.map some, { beginFrames s with q := [] }) := by
  show iterN (beginFrames s).q.length (beginFrames s) = _
  rw [iterN_spec]; simp

/-- **C14 main theorem** — *"whether consumed frame by frame or in batches"*: for every capacity
    ≥ 1, every state (any pre-fill) and every finite interleaving of `next()`, `next_frames()`
    with `k` iterator steps (partial drain, or beyond the end), `next_frames().collect()`,
    `until_exhausted()` and plain observation: the concatenation of everything yielded is
    exactly the next frames owed, in order, none lost or duplicated; what is owed afterwards
    is the rest; the source was pulled in whole buffers only; and every pulled frame is either
    delivered or still buffered -/
theorem interleaving_transparent (ops : List Op) (s : St α) (hc : 1 ≤ s.cap) :
    Delivers s (delivered (trace s ops)) (run s ops) :=
  trace_delivers ops s hc

/-- the same spelled out for a freshly built buffered signal: the `i`-th frame delivered by any
    interleaving is the `i`-th element of pre-fill ++ source, equilibrium beyond -/
theorem fresh_interleaving_output (src : Src α) (prefill : List α) (cap : Nat) (hc : 1 ≤ cap)
    (h0 : src.pos = 0) (ops : List Op) :
    delivered (trace (init src prefill cap) ops) =
      (List.range (delivered (trace (init src prefill cap) ops)).length).map
        (fun i => (prefill ++ src.frames).getD i src.eq) := by
  have h := (trace_delivers ops (init src prefill cap) hc).out_eq
  rw [h]
  simp only [List.length_map, List.length_range]
  apply List.map_congr_left
  intro i _
  exact future_init src prefill cap h0 i

/-- *"pulling exactly one buffer's worth of source frames each time it runs empty and none
    otherwise"*, per call: `next()` -/
theorem next_pulls_one_buffer_iff_empty (s : St α) :
    (next s).2.src.pos = if s.q = [] then s.src.pos + s.cap else s.src.pos := next_pulls s

/-- … `next_frames()` (even if the returned iterator is dropped undrained) -/
theorem next_frames_pulls_one_buffer_iff_empty (s : St α) :
    (beginFrames s).src.pos = if s.q = [] then s.src.pos + s.cap else s.src.pos := beginFrames_pulls s

/-- … and the draining iterator never pulls -/
theorem iterator_never_pulls (k : Nat) (s : St α) : (iterN k s).2.src = s.src := by
  rw [iterN_spec]

/-- over any interleaving the pull log is a sequence of whole buffers, and pulled = delivered +
    still buffered − initially buffered (so nothing is pulled that is not needed to refill an
    empty buffer, and nothing pulled is dropped) -/
theorem pulls_are_whole_buffers (ops : List Op) (s : St α) (hc : 1 ≤ s.cap) :
    (∃ k, (run s ops).src.pos = s.src.pos + k * s.cap) ∧
    (delivered (trace s ops)).length + (run s ops).q.length
      = s.q.length + ((run s ops).src.pos - s.src.pos) :=
  ⟨(trace_delivers ops s hc).bursts, (trace_delivers ops s hc).conserve⟩

/-- *"It reports exhaustion only when the source is exhausted and every buffered frame has been
    delivered"* (`is_exhausted`, lib.rs:2501-2503) -/
theorem is_exhausted_iff (s : St α) :
    isExhausted s = true ↔ s.q = [] ∧ s.src.isExhausted = true := by
  rw [isExhausted_iff]; simp [Src.isExhausted]

/-- … and then nothing but equilibrium is owed any more -/
theorem exhausted_only_equilibrium_left (s : St α) (h : isExhausted s = true) (i : Nat) :
    future s i = s.src.eq := exhausted_future s h i

/-- *"so draining it to exhaustion yields …"*, from any state: `until_exhausted` stops by itself
    (the fuel `ueFuel` the model passes suffices), yields exactly the next `need s` owed frames —
    everything buffered plus the remaining source rounded up to whole buffers — and ends exhausted -/
theorem until_exhausted_general (s : St α) (hc : 1 ≤ s.cap) :
    (untilExhausted (ueFuel s) s).1 = (List.range (need s)).map (future s) ∧
    isExhausted (untilExhausted (ueFuel s) s).2 = true := by
  obtain ⟨h1, h2⟩ := untilExhausted_count (ueFuel s) s hc (ueFuel_enough s hc)
  have h := (untilExhausted_delivers (ueFuel s) s hc).out_eq
  rw [h1] at h
  exact ⟨h, h2⟩

/-- *"draining it to exhaustion yields the source's frames followed by fewer than one buffer of
    equilibrium padding"*: for a freshly built buffered signal the output is
    pre-fill ++ source ++ padding with exactly `(cap − |source| mod cap) mod cap < cap`
    equilibrium frames (0 when the source is empty or a multiple of the capacity, whatever the
    pre-fill) -/
theorem until_exhausted_fresh (src : Src α) (prefill : List α) (cap : Nat) (hc : 1 ≤ cap)
    (h0 : src.pos = 0) :
    (untilExhausted (ueFuel (init src prefill cap)) (init src prefill cap)).1
      = prefill ++ src.frames ++ List.replicate ((cap - src.frames.length % cap) % cap) src.eq ∧
    (cap - src.frames.length % cap) % cap < cap ∧
    isExhausted (untilExhausted (ueFuel (init src prefill cap)) (init src prefill cap)).2 = true := by
  obtain ⟨h1, h2⟩ := until_exhausted_general (init src prefill cap) hc
  obtain ⟨p1, p2, p3⟩ := roundUp_props src.frames.length cap hc
  have hpad := pad_formula src.frames.length cap (roundUp src.frames.length cap - src.frames.length) hc
    (by omega) (by rw [Nat.add_sub_cancel' p1]; exact p3)
  refine ⟨?_, Nat.mod_lt _ (by omega), h2⟩
  rw [h1, ← hpad]
  have hneed : need (init src prefill cap) =
      (prefill ++ src.frames).length + (roundUp src.frames.length cap - src.frames.length) := by
    simp only [need, init, h0, Nat.sub_zero, List.length_append]; omega
  rw [hneed, ← map_getD_range]
  apply List.map_congr_left
  intro i _
  exact future_init src prefill cap h0 i

/-! ### non-vacuity: every hypothesis instantiated on concrete, non-trivial runs -/

private def src5 : Src Int := { frames := [1, 2, 3, 4, 5], eq := 0, pos := 0 }
private def view (o : Obs Int) : List (Option Int) × Nat × Bool := (o.out, o.pulls, o.exhausted)

/-- capacity 2, one pre-filled frame, 5-frame source (not a multiple of 2): frame by frame, a
    partially drained batch, a fully drained batch, drain to exhaustion (one padding frame),
    and a `next` after exhaustion (pulls one more buffer of equilibrium) -/
example : (trace (init src5 [99] 2) [.look, .next, .next, .frames 1, .next, .drain, .untilExhausted, .look, .next]).map view =
    [([], 0, false), ([some 99], 0, false), ([some 1], 2, false), ([some 2], 2, false), ([some 3], 4, false),
     ([some 4], 4, false), ([some 5, some 0], 6, true), ([], 6, true), ([some 0], 8, false)] := by decide

/-- a batch asked for more than is buffered yields `None`s without refilling; an undrained
    batch on an empty buffer still pulls one buffer's worth -/
example : (trace (init src5 [] 3) [.frames 5, .frames 0, .next]).map view =
    [([some 1, some 2, some 3, none, none], 3, false), ([], 6, false), ([some 4], 6, false)] := by decide

/-- capacity 1 and an empty source: exhausted at once, `until_exhausted` yields just the pre-fill -/
example : (trace (init ({ frames := [], eq := 0, pos := 0 } : Src Int) [7] 1) [.look, .untilExhausted]).map view =
    [([], 0, false), ([some 7], 0, true)] := by decide

example : (untilExhausted (ueFuel (init src5 [99] 2)) (init src5 [99] 2)).1 = [99, 1, 2, 3, 4, 5, 0] := by decide

end Dasp.Props.C14
