import Dasp.Lemmas.Window
import Dasp.Lemmas.EnvRounding
import Dasp.Lemmas.RsNat
/-! # C20 — Windowing yields the documented window shape and chunk schedule

Property text (properties.jsonl, C20): "The Hann window at phase p equals 0.5*(1 - cos(2*pi*p)), lying in
[0, 1], symmetric about p = 0.5 where it is 1 and 0 at both ends, the rectangle window is 1 everywhere,
and a window of n >= 2 frames samples the phases i/(n-1) for i = 0..n-1. A windower over L frames with bin
size b >= 2 and hop h >= 1 yields exactly floor((L-b)/h)+1 chunks when L >= b and none otherwise, the first
b frames of chunk k being frames k*h .. k*h+b-1 each scaled by the window value for its position. The
windower's size hint is consistent with the number of chunks it actually yields."

What is THEOREM here and what is MEASURED:
* theorem — everything about the `Windower` schedule, chunk contents and `size_hint` (exact list/integer
  code, arbitrary frame type); the window shape and the sampled phases in EXACT arithmetic
  (`ratArith twoPi cos` with `cos`/`2π` arbitrary: each theorem states the one fact about `cos` it needs);
  `Windowed` = source frame × window value with `mul_amp` and the f64→float conversion as parameters.
* measured (correspondence run, `harness/src/bin/c20.rs`, notes in `evidence/C20.json`) — that the same
  definitions instantiated at native binary64 (`floatArith`) reproduce the real code bit for bit
  (incl. libm `cos`), the deviation of the accumulated f64 phases from `i/(n-1)`, of Hann from its
  closed form, and the float symmetry `hann(p) ≈ hann(1−p)`.

The SAME definitions (`hann`, `windowPhases`, `windowed`, …) are used at both instances. -/
namespace Dasp.Window

variable {α : Type}

/-! ## Window shape (exact arithmetic; `c` stands for `cos`, `t` for `2π`) -/

/-- "The Hann window at phase p equals 0.5*(1 - cos(2*pi*p))" — the definition the driver runs,
    unfolded at the exact instance -/
theorem hann_formula (t : Rat) (c : Rat → Rat) (p : Rat) :
    hann (ratArith t c) p = 1 / 2 * (1 - c (p * t)) := rfl

/-- … and at the native instance it is literally the expression of hann/mod.rs:24-26 -/
example (p : Float) : hann floatArith p = 0.5 * (1.0 - Float.cos (p * Float.ofBits 0x401921FB54442D18)) := rfl

/-- "lying in [0, 1]" — assuming only `|cos| ≤ 1` at the point evaluated -/
theorem hann_range (t : Rat) (c : Rat → Rat) (p : Rat) (hc : -1 ≤ c (p * t) ∧ c (p * t) ≤ 1) :
    0 ≤ hann (ratArith t c) p ∧ hann (ratArith t c) p ≤ 1 := by
  rw [hann_formula]; constructor <;> linarith [hc.1, hc.2]


/-! ### the Hann value in rounded (floating-point) arithmetic -/

/-- the window arithmetic with every `− ×` followed by a rounding `rnd` (the literals 0.5, 1.0 are exact) -/
def rndWinArith (rnd : Rat → Rat) (t : Rat) (c : Rat → Rat) : Arith Rat :=
  { ratArith t c with
    add := fun a b => rnd (a + b), sub := fun a b => rnd (a - b), mul := fun a b => rnd (a * b), div := fun a b => rnd (a / b) }

/-- "lying in [0, 1]" IN FLOATING POINT: for any rounding that is monotone and leaves 0, 1 and 2 unchanged
    (round-to-nearest-even does), and a cosine routine whose result at the point evaluated lies in [−1, 1],
    the computed `0.5 * (1.0 - cos(phase * 2π))` lies in [0, 1] — the two roundings cannot push it out -/
theorem hann_range_rounded (rnd : Rat → Rat) (hmono : ∀ x y, x ≤ y → rnd x ≤ rnd y)
    (h0 : rnd 0 = 0) (h1 : rnd 1 = 1) (h2 : rnd 2 = 2) (t : Rat) (c : Rat → Rat) (p : Rat)
    (hc : -1 ≤ c (rnd (p * t)) ∧ c (rnd (p * t)) ≤ 1) :
    0 ≤ hann (rndWinArith rnd t c) p ∧ hann (rndWinArith rnd t c) p ≤ 1 := by
  show 0 ≤ rnd (1 / 2 * rnd (1 - c (rnd (p * t)))) ∧ rnd (1 / 2 * rnd (1 - c (rnd (p * t)))) ≤ 1
  have a0 : 0 ≤ rnd (1 - c (rnd (p * t))) := by
    have := hmono 0 (1 - c (rnd (p * t))) (by linarith [hc.2]); rwa [h0] at this
  have a2 : rnd (1 - c (rnd (p * t))) ≤ 2 := by
    have := hmono (1 - c (rnd (p * t))) 2 (by linarith [hc.1]); rwa [h2] at this
  constructor
  · have := hmono 0 (1 / 2 * rnd (1 - c (rnd (p * t)))) (by linarith); rwa [h0] at this
  · have := hmono (1 / 2 * rnd (1 - c (rnd (p * t)))) 1 (by linarith); rwa [h1] at this

/-- … and binary64's round-to-nearest-even (the rounding of the executable soft-float) is such a rounding -/
theorem hann_range_f64 (t : Rat) (c : Rat → Rat) (p : Rat)
    (hc : -1 ≤ c (Dasp.rs Dasp.f64 (p * t)) ∧ c (Dasp.rs Dasp.f64 (p * t)) ≤ 1) :
    0 ≤ hann (rndWinArith (Dasp.rs Dasp.f64) t c) p ∧ hann (rndWinArith (Dasp.rs Dasp.f64) t c) p ≤ 1 := by
  have hn : ∀ n : Nat, 0 < n → n ≤ 2 → Dasp.rs Dasp.f64 (n : Rat) = (n : Rat) :=
    fun n h hn => Dasp.rs_f64_nat n h (le_trans hn (by norm_num))
  exact hann_range_rounded _ (fun _ _ h => Dasp.rs_mono Dasp.f64 (by decide) h) (Dasp.rs_zero Dasp.f64)
    (by simpa using hn 1 (by norm_num) (by norm_num)) (by simpa using hn 2 (by norm_num) (by norm_num)) t c p hc

/-- "0 at both ends": wherever the cosine is 1 (p = 0 and p = 1 for the true cosine) -/
theorem hann_zero_where_cos_one (t : Rat) (c : Rat → Rat) (p : Rat) (hc : c (p * t) = 1) :
    hann (ratArith t c) p = 0 := by
  rw [hann_formula, hc]; norm_num

/-- p = 0 in particular, for any `cos` with `cos 0 = 1` -/
theorem hann_zero_at_zero (t : Rat) (c : Rat → Rat) (hc : c 0 = 1) : hann (ratArith t c) 0 = 0 :=
  hann_zero_where_cos_one t c 0 (by simpa using hc)

/-- "p = 0.5 where it is 1": wherever the cosine is −1 (2π·½ = π for the true cosine) -/
theorem hann_one_where_cos_neg_one (t : Rat) (c : Rat → Rat) (p : Rat) (hc : c (p * t) = -1) :
    hann (ratArith t c) p = 1 := by
  rw [hann_formula, hc]; norm_num

/-- "symmetric about p = 0.5" — from `cos(2π(1−p)) = cos(2πp)`, an explicit hypothesis (it is a fact
    about the real cosine; for libm's f64 `cos` the deviation is measured, ≤ 6e-16 on the grid) -/
theorem hann_symmetric (t : Rat) (c : Rat → Rat) (p : Rat) (hc : c ((1 - p) * t) = c (p * t)) :
    hann (ratArith t c) (1 - p) = hann (ratArith t c) p := by
  rw [hann_formula, hann_formula, hc]

/-- "the rectangle window is 1 everywhere" (any arithmetic, any phase) -/
theorem rectangle_is_one {F : Type} (A : Arith F) (p : F) : rectangle A p = A.one := rfl

/-! ## Phases sampled by a `Window` of n ≥ 2 frames (exact arithmetic) -/

/-- "a window of n >= 2 frames samples the phases i/(n-1) for i = 0..n-1": the phase stepped by
    `1/(n−1)` and wrapped modulo 1 yields, as its `i`-th value, `(i mod (n−1))/(n−1)` — for any number
    of items, i.e. also beyond the window. -/
theorem windowPhases_exact (t : Rat) (c : Rat → Rat) (n : Nat) (hn : 2 ≤ n) (cnt : Nat) :
    windowPhases (ratArith t c) n cnt =
      (List.range cnt).map (fun i => ((i % (n - 1) : Nat) : Rat) / ((n - 1 : Nat) : Rat)) := by
  have hd : 1 ≤ n - 1 := by omega
  have hstart : newWindow (ratArith t c) n = ⟨1 / ((n - 1 : Nat) : Rat), ((0 : Nat) : Rat) / ((n - 1 : Nat) : Rat)⟩ := by
    simp only [newWindow, rat_div, rat_sub, rat_ofNat, rat_one, rat_zero]
    have : ((n - 1 : Nat) : Rat) = (n : Rat) - 1 := by
      rw [Nat.cast_sub (by omega)]; simp
    rw [this]; simp
  unfold windowPhases
  rw [hstart, phasesFrom_rat t c (n - 1) hd cnt 0 (by omega)]
  simp

/-- the `n` phases of the window itself: `i/(n−1)` for `i = 0..n−2`, and the end point `i = n−1`
    (phase 1) is sampled as its representative `0` modulo 1 — exactly what the code does
    (`(next + step) % 1.0`, signal lib.rs:1927). Under `cos(2π·1) = cos(2π·0)` the Hann value there is the
    one at phase 1 (`hann_end_point`). -/
theorem window_samples_i_over_n_minus_1 (t : Rat) (c : Rat → Rat) (n : Nat) (hn : 2 ≤ n) :
    windowPhases (ratArith t c) n n =
      (List.range n).map (fun i => if i < n - 1 then (i : Rat) / ((n : Rat) - 1) else 0) := by
  rw [windowPhases_exact t c n hn n]
  apply List.map_congr_left
  intro i hi
  have hi' : i < n := List.mem_range.mp hi
  have hcast : ((n - 1 : Nat) : Rat) = (n : Rat) - 1 := by rw [Nat.cast_sub (by omega)]; simp
  split
  · rename_i h; rw [Nat.mod_eq_of_lt h, hcast]
  · have e : i = n - 1 := by omega
    rw [e, Nat.mod_self]; simp

/-- the wrapped end point carries the window value of phase 1 -/
theorem hann_end_point (t : Rat) (c : Rat → Rat) (hc : c (1 * t) = c (0 * t)) :
    hann (ratArith t c) 0 = hann (ratArith t c) 1 := by
  rw [hann_formula, hann_formula, hc]

/-! ## `Windowed`: each source frame times the window value for its position -/

/-- `Windowed` (window/mod.rs:181-186) pairs the `j`-th source frame with the `j`-th value of a fresh
    `Window::new(len)` and applies `mul_amp` channel by channel — for every arithmetic (exact or native),
    window kind, `mul_amp` and f64→float conversion. -/
theorem windowed_is_frame_times_window {F S Amp : Type} (A : Arith F) (k : Kind) (toAmp : F → Amp)
    (mulAmp : S → Amp → S) (chunk : List (List S)) :
    windowed A k toAmp mulAmp chunk =
      List.zipWith (fun frame p => frame.map fun s => mulAmp s (toAmp (window A k p)))
        chunk (windowPhases A chunk.length chunk.length) := by
  simp [windowed, windowValues, List.zipWith_map_right]

/-- in exact arithmetic, for a chunk of n ≥ 2 frames: frame `j` is scaled by the window function at
    `j/(n−1)` (`j < n−1`), the last one at the wrapped end point 0 ≡ 1 -/
theorem windowed_frame_exact {S Amp : Type} (t : Rat) (c : Rat → Rat) (k : Kind) (toAmp : Rat → Amp)
    (mulAmp : S → Amp → S) (chunk : List (List S)) (hn : 2 ≤ chunk.length) (j : Nat) (hj : j < chunk.length) :
    (windowed (ratArith t c) k toAmp mulAmp chunk)[j]? =
      some (chunk[j].map fun s => mulAmp s (toAmp (window (ratArith t c) k
        (if j < chunk.length - 1 then (j : Rat) / ((chunk.length : Rat) - 1) else 0)))) := by
  rw [windowed_is_frame_times_window, window_samples_i_over_n_minus_1 t c _ hn]
  simp [List.getElem?_zipWith, List.getElem?_eq_getElem hj, List.getElem?_range hj]

/-! ## The chunk schedule of `Windower` (any frame type; every state, hence every reachable state) -/

/-- "yields exactly floor((L-b)/h)+1 chunks when L >= b and none otherwise, … chunk k being frames
    k*h .. k*h+b-1": the chunks still to come from ANY windower state with `hop ≥ 1`, `bin ≥ 1` are the
    slices `frames[k·hop .. k·hop+bin)` for `k < count`, `count = (L−b)/h + 1` if `L ≥ b` else 0
    (`L` = remaining frames). The code needs only `bin ≥ 1` for this; the property asks `b ≥ 2`. -/
theorem chunks_spec (w : Windower α) (hh : 1 ≤ w.hop) (hb : 1 ≤ w.bin) :
    chunks w = (List.range (count w.bin w.hop w.frames.length)).map
      (fun k => (w.frames.drop (k * w.hop)).take w.bin) :=
  chunksFuel_spec _ w hh hb (by omega)

theorem chunk_count (w : Windower α) (hh : 1 ≤ w.hop) (hb : 1 ≤ w.bin) :
    (chunks w).length =
      if w.bin ≤ w.frames.length then (w.frames.length - w.bin) / w.hop + 1 else 0 := by
  rw [chunks_spec w hh hb]; simp [count]

/-- chunk `k` is complete (`bin` frames) and its `j`-th frame is input frame `k·hop + j`, which exists -/
theorem chunk_contents (w : Windower α) (hh : 1 ≤ w.hop) (hb : 1 ≤ w.bin) (k : Nat)
    (hk : k < (chunks w).length) :
    ∃ ch, (chunks w)[k]? = some ch ∧ ch.length = w.bin ∧
      ∀ j, j < w.bin → k * w.hop + j < w.frames.length ∧ ch[j]? = w.frames[k * w.hop + j]? := by
  rw [chunks_spec w hh hb] at hk ⊢
  simp only [List.length_map, List.length_range] at hk
  have hle := count_mul_le hk
  refine ⟨(w.frames.drop (k * w.hop)).take w.bin, by simp [List.getElem?_range hk], ?_, ?_⟩
  · simp only [List.length_take, List.length_drop]; omega
  · intro j hj
    refine ⟨by omega, ?_⟩
    simp [hj, List.getElem?_drop]

/-- "the first b frames of chunk k being frames k*h .. k*h+b-1 each scaled by the window value for its
    position" — schedule and `Windowed` combined, in exact arithmetic, `b ≥ 2`: channel by channel,
    output frame `j` of chunk `k` is `mul_amp(frames[k·h+j], W(j/(b−1)))` (last position: `W(0) = W(1 mod 1)`). -/
theorem windower_chunk_frame {S Amp : Type} (t : Rat) (c : Rat → Rat) (kind : Kind) (toAmp : Rat → Amp)
    (mulAmp : S → Amp → S) (w : Windower (List S)) (hh : 1 ≤ w.hop) (hb : 2 ≤ w.bin)
    (k : Nat) (hk : k < (chunks w).length) (j : Nat) (hj : j < w.bin) :
    ∃ ch src, (chunks w)[k]? = some ch ∧ w.frames[k * w.hop + j]? = some src ∧
      (windowed (ratArith t c) kind toAmp mulAmp ch)[j]? =
        some (src.map fun s => mulAmp s (toAmp (window (ratArith t c) kind
          (if j < w.bin - 1 then (j : Rat) / ((w.bin : Rat) - 1) else 0)))) := by
  obtain ⟨ch, h1, h2, h3⟩ := chunk_contents w hh (by omega) k hk
  obtain ⟨hlt, hel⟩ := h3 j hj
  refine ⟨ch, w.frames[k * w.hop + j], h1, List.getElem?_eq_getElem hlt, ?_⟩
  have hjc : j < ch.length := by omega
  rw [windowed_frame_exact t c kind toAmp mulAmp ch (by omega) j hjc, h2]
  have : ch[j] = w.frames[k * w.hop + j] := by
    rw [List.getElem?_eq_getElem hjc, List.getElem?_eq_getElem hlt] at hel
    exact Option.some.inj hel
  rw [this]

/-! ## `size_hint` (as the code is now) -/

/-- "The windower's size hint is consistent with the number of chunks it actually yields": in every
    state with `hop ≥ 1`, `bin ≥ 1` — `next` never changes `bin`/`hop` (`next_keeps_bin_hop`), so in every
    state reachable from such a windower — the hint is exact: lower = upper = chunks still to come. -/
theorem sizeHint_exact (w : Windower α) (hh : 1 ≤ w.hop) (hb : 1 ≤ w.bin) :
    sizeHint w = ((chunks w).length, some (chunks w).length) := by
  rw [chunk_count w hh hb]
  unfold sizeHint
  split
  · simp [show w.hop ≠ 0 by omega]
  · rfl

/-- lower ≤ chunks-yet-to-come ≤ upper (the form `Iterator::size_hint` promises) -/
theorem sizeHint_brackets (w : Windower α) (hh : 1 ≤ w.hop) (hb : 1 ≤ w.bin) :
    (sizeHint w).1 ≤ (chunks w).length ∧ ∀ u, (sizeHint w).2 = some u → (chunks w).length ≤ u := by
  rw [sizeHint_exact w hh hb]
  exact ⟨Nat.le_refl _, fun u h => by simp at h; omega⟩

theorem next_keeps_bin_hop (w w' : Windower α) (ch : List α) (h : next w = some (ch, w')) :
    w'.bin = w.bin ∧ w'.hop = w.hop := by
  unfold next at h
  split at h
  · simp only [Option.some.injEq, Prod.mk.injEq] at h
    obtain ⟨_, rfl⟩ := h; exact ⟨rfl, rfl⟩
  · simp at h

/-- the observation sequence the driver prints (`iterate`) contains exactly the chunks of `chunks`,
    each preceded by the `sizeHint` of the state it was taken from -/
theorem iterate_yields_chunks (w : Windower α) :
    (iterate (w.frames.length + 1) w).filterMap (·.2) = chunks w :=
  iterate_chunks _ w

/-- HISTORICAL counter-witness (before fix commit 0af427c "Windower::size_hint counts the chunk that
    starts at the current position"): the OLD hint's upper bound was strictly below the number of chunks
    whenever at least one chunk remained — the property violation found in round 0. Not about the
    current code; `sizeHintOld` is used nowhere else. -/
theorem old_sizeHint_one_short (w : Windower α) (hh : 1 ≤ w.hop) (hb : 1 ≤ w.bin)
    (hle : w.bin ≤ w.frames.length) :
    ∃ u, (sizeHintOld w).2 = some u ∧ u < (chunks w).length := by
  rw [chunk_count w hh hb]
  unfold sizeHintOld
  simp only [hle, if_true, show w.hop ≠ 0 by omega, if_false]
  split
  · exact ⟨_, rfl, Nat.lt_succ_self _⟩
  · exact ⟨0, rfl, Nat.succ_pos _⟩

/-- the witness replayed on the real code in round 0: L = 8, bin = 2, hop = 1 → 7 chunks, old hint 6,
    current hint 7 -/
example : (chunks (⟨2, 1, List.range 8⟩ : Windower Nat)).length = 7 ∧
    sizeHintOld (⟨2, 1, List.range 8⟩ : Windower Nat) = (6, some 6) ∧
    sizeHint (⟨2, 1, List.range 8⟩ : Windower Nat) = (7, some 7) := by decide

/-! ## Outside the property's domain (what the code does for b = 0, b = 1, h = 0) -/

/-- `bin = 1` follows the same schedule (`chunks_spec` needs only `bin ≥ 1`); its `Window::new(1)` has
    step `1/0` but only the first phase, 0, is used. `bin = 0`: `next` never returns `None` — an infinite
    iterator of empty chunks (while `size_hint` reports a finite count: out of domain, not claimed). -/
theorem bin_zero_never_ends (w : Windower α) (hb : w.bin = 0) : ∃ w', next w = some ([], w') := by
  unfold next; simp [hb]

/-- `hop = 0` with a chunk available: the same chunk forever (`size_hint` = `(usize::MAX, None)`) -/
theorem hop_zero_repeats (w : Windower α) (hh : w.hop = 0) (hle : w.bin ≤ w.frames.length) :
    next w = some (w.frames.take w.bin, w) ∧ sizeHint w = (usizeMax, none) := by
  constructor
  · unfold next
    simp only [hle, if_true, hh]
    cases w with
    | mk b h f => cases f <;> simp_all
  · unfold sizeHint; simp [hle, hh]

/-! ## Non-vacuity -/

-- L = 11, b = 4, h = 3: (11−4)/3+1 = 3 chunks at offsets 0, 3, 6; the last hop is partial (frame 10 unused)
example : chunks (⟨4, 3, List.range 11⟩ : Windower Nat) = [[0, 1, 2, 3], [3, 4, 5, 6], [6, 7, 8, 9]] := by decide
example : (iterate 12 (⟨4, 3, List.range 11⟩ : Windower Nat)).map (·.1) =
    [(3, some 3), (2, some 2), (1, some 1), (0, some 0)] := by decide
-- L == b: one chunk; L < b: none; h > L: one chunk
example : chunks (⟨3, 1, [7, 8, 9]⟩ : Windower Nat) = [[7, 8, 9]] ∧ chunks (⟨4, 1, [7, 8, 9]⟩ : Windower Nat) = [] ∧
    chunks (⟨2, 50, [7, 8, 9]⟩ : Windower Nat) = [[7, 8]] := by decide
-- exact phases of a 5-frame window: 0, 1/4, 1/2, 3/4 and the wrapped end point 0; the 6th item is 1/4 again
example : windowPhases (ratArith 0 id) 5 6 = [0, 1/4, 1/2, 3/4, 0, 1/4] := by
  rw [windowPhases_exact 0 id 5 (by omega) 6]; norm_num [List.range, List.range.loop]
-- the cosine hypotheses are satisfiable together, non-trivially: a "triangle cosine" of period 1 in
-- turns (t = 1): c(x) = 1 − 4·|frac(x) − ... | is overkill; the piecewise-linear c below has c 0 = 1,
-- c (1/2) = −1, |c| ≤ 1 on [0,1] and c (1 − p) = c p there
def triCos (x : Rat) : Rat := if x ≤ 1 / 2 then 1 - 4 * x else 4 * x - 3
example : triCos 0 = 1 ∧ triCos (1 / 2) = -1 ∧ triCos (1 * 1) = triCos (0 * 1) := by
  unfold triCos; norm_num
example : hann (ratArith 1 triCos) 0 = 0 ∧ hann (ratArith 1 triCos) (1 / 2) = 1 ∧
    hann (ratArith 1 triCos) (1 / 4) = 1 / 2 ∧ hann (ratArith 1 triCos) (3 / 4) = hann (ratArith 1 triCos) (1 / 4) := by
  simp only [hann_formula]; unfold triCos; norm_num
-- Windowed with an exact "mul_amp" (plain multiplication): a 3-frame stereo chunk under the triangle-cosine Hann
example : windowed (ratArith 1 triCos) .hann id (fun (s a : Rat) => s * a) [[2, 4], [6, 8], [10, 12]] =
    [[0, 0], [6, 8], [0, 0]] := by
  have hl : ([[2, 4], [6, 8], [10, 12]] : List (List Rat)).length = 3 := rfl
  rw [windowed_is_frame_times_window, hl, window_samples_i_over_n_minus_1 1 triCos 3 (by omega)]
  simp [window, hann_formula, triCos, List.range, List.range.loop]; norm_num

end Dasp.Window
