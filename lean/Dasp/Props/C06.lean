import Dasp.Lemmas.Ring
/-! # C06 (first cut, being extended) -/
namespace Dasp.Props.C06
open Dasp.Ring
variable {α : Type} [Inhabited α]

theorem pop_inv (b : Bounded α) (h : b.Inv) : (b.pop).1.Inv := by
  unfold Bounded.pop Bounded.Inv Bounded.nextStart Bounded.maxLen at *
  split <;> simp_all <;> (try split) <;> omega

theorem push_inv (b : Bounded α) (x : α) (h : b.Inv) : (b.push x).1.Inv := by
  unfold Bounded.push Bounded.Inv Bounded.nextStart Bounded.maxLen at *
  split <;> simp_all <;> (try split) <;> omega

theorem get_abs (b : Bounded α) (i : Nat) : b.get i = b.abs[i]? := by
  unfold Bounded.get Bounded.abs window Bounded.maxLen
  by_cases h : i ≥ b.len
  · simp [h]
  · have h' : i < b.len := by omega
    simp [h, h']

end Dasp.Props.C06
