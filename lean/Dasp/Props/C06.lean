import Dasp.Lemmas.Ring
/-!
# C06 — Bounded and Fixed ring buffers behave exactly as FIFO queues and delay lines

Property text (properties.jsonl, C06): *Starting from any valid state over any capacity, every
sequence of operations on a bounded ring buffer (push, pop, drain, indexed read/write,
iteration, slice views) returns exactly what an ideal capacity-bounded queue returns: push
appends and, only when full, evicts and returns the oldest element, pop removes the oldest,
and index i, iteration and the two slices concatenated present the live elements oldest-first
with len, is_empty, is_full and max_len in agreement.  A fixed ring buffer of length N >= 1
keeps length N under any history of push, set_first, indexed access and iteration: each push
returns the element at index 0 and makes the pushed element the newest at index N-1, so a push
returns exactly the value pushed N pushes earlier (or the initial content), indexing wraps
modulo N, and plain, looping and mutable iteration and the slice pair all agree on
oldest-first order.  No operation of either buffer reads or writes outside the backing slice
or exposes a slot that holds no live element.*

`Dasp.Ring.Bounded` / `Dasp.Ring.Fixed` (Model/Ring.lean) transcribe
`/repo/dasp_ring_buffer/src/lib.rs`; the same definitions are executed by `driver_c06` against
the compiled crate on every run.  `Inv` is exactly what `from_raw_parts` asserts, so "for every
`b` with `b.Inv`" is "from any valid state"; histories of any length follow by induction over
the operation list (`run_refines`, `Fixed.run_refines`).  `abs` = the live elements oldest
first.  Only property theorems and non-vacuity examples live in this file.

Indices are `Nat`, so the statements hold for *every* index: `Bounded.get i = none` for all
`i ≥ len` however large (`no_dead_slot_exposed`; the code tests `index >= len` before any
addition), and `Fixed.get i = abs[i % N]` for all `i` (`Fixed.get_abs`).  Since fix commit 5f913b5
`Fixed::get/get_mut` reduce the index modulo `len` *before* adding `first`, so the machine sum is
`< 2 * len` and cannot overflow `usize` (`Fixed.wrapped_sum_small`); the expression used before
that commit, evaluated in wrapping 64-bit arithmetic, selects the wrong slot
(`Fixed.wrappedOld64_wrong_slot`).
-/
set_option linter.unusedSectionVars false
set_option linter.unusedSimpArgs false

namespace Dasp.Props.C06
open Dasp.Ring

variable {α : Type} [Inhabited α]

/-! ## The ideal capacity-bounded FIFO queue (the specification, three lines per operation) -/

/-- push appends and, only when full, evicts and returns the oldest element -/
def qPush (cap : Nat) (q : List α) (x : α) : List α × Option α :=
  if q.length = cap then (q.tail ++ [x], q.head?) else (q ++ [x], none)

/-- forget what is representation and not content: the slice pair is read concatenated,
    raw parts only through the length -/
def norm : Obs α → Obs α
  | .pair a b => .list (a ++ b)
  | .raw _ l => .nat l
  | o => o

/-- one operation on the ideal queue `q` of capacity `cap`: new queue and result -/
def qStep (cap : Nat) (q : List α) : BOp α → List α × Obs α
  | .push x => ((qPush cap q x).1, .opt (qPush cap q x).2)
  | .pop => (q.tail, .opt q.head?)
  | .get i => (q, .opt q[i]?)
  | .getMut i x => (q.set i x, .opt q[i]?)
  | .index i => (q, match q[i]? with | some v => .opt (some v) | none => .panic)
  | .indexMut i x => (q.set i x, match q[i]? with | some v => .opt (some v) | none => .panic)
  | .len => (q, .nat q.length)
  | .isEmpty => (q, .bool (q.length == 0))
  | .isFull => (q, .bool (q.length == cap))
  | .maxLen => (q, .nat cap)
  | .iter => (q, .list q)
  | .slices => (q, .list q)
  | .iterMut xs => (xs.take q.length ++ q.drop xs.length, .list q)
  | .slicesMut xs => (xs.take q.length ++ q.drop xs.length, .list q)
  | .drain k => (q.drop k, .list (q.take k))
  | .extend xs => (xs.foldl (fun q x => (qPush cap q x).1) q, .unit)
  | .reparts => (q, .nat q.length)

/-- a whole history on the ideal queue -/
def qRun (cap : Nat) (q : List α) (ops : List (BOp α)) : List α × List (Obs α) :=
  ops.foldl (fun acc op => ((qStep cap acc.1 op).1, acc.2 ++ [(qStep cap acc.1 op).2])) (q, [])

/-! ## Bounded: basic facts about the abstraction -/

theorem abs_length (b : Bounded α) : b.abs.length = b.len := by simp [Bounded.abs]

/-- *"len, is_empty, is_full and max_len in agreement"* -/
theorem len_agrees (b : Bounded α) :
    b.length = b.abs.length ∧ b.isEmpty = (b.abs.length == 0) ∧
    b.isFull = (b.abs.length == b.maxLen) := by
  simp [Bounded.length, Bounded.isEmpty, Bounded.isFull, abs_length]

/-- in a valid state the queue never holds more than the capacity -/
theorem abs_le_cap (b : Bounded α) (h : b.Inv) : b.abs.length ≤ b.maxLen := by
  rw [abs_length]; exact h.2

/-- *"index i … present[s] the live elements oldest-first"*; beyond the live elements `get`
    is `none`, i.e. no slot without a live element is exposed -/
theorem get_abs (b : Bounded α) (i : Nat) : b.get i = b.abs[i]? := by
  unfold Bounded.get Bounded.abs Bounded.maxLen
  rw [window_getElem?]
  by_cases h : i ≥ b.len
  · simp [h, Nat.not_lt.mpr h]
  · simp [h, Nat.lt_of_not_ge h]

/-- **Counter-witness kept from round 0.** With the index expression used before fix commit
    8b21f98 (`index % max_len`, ignoring `start`) the refinement is false: in the valid state
    data=[4,2,3], start=1, len=3 (what pushes 1,2,3,4 into capacity 3 produce) the queue is
    [2,3,4] but the old `get(0)` returns 4. -/
theorem getOld_breaks_refinement :
    ∃ b : Bounded Nat, b.Inv ∧ b.abs = [2, 3, 4] ∧ b.getOld 0 = some 4 ∧ b.getOld 0 ≠ b.abs[0]? :=
  ⟨⟨[4, 2, 3], 1, 3⟩, by decide, by decide, by decide, by decide⟩

/-- the old expression also exposed a slot holding no live element: start=1, len=1 -/
theorem getOld_exposes_dead_slot :
    ∃ b : Bounded Nat, b.Inv ∧ b.abs = [2] ∧ b.getOld 0 = some 99 :=
  ⟨⟨[99, 2, 98], 1, 1⟩, by decide, by decide, by decide⟩

/-! ## Bounded: every operation preserves the invariant and refines the ideal queue -/

theorem push_maxLen (b : Bounded α) (x : α) : (b.push x).1.maxLen = b.maxLen := by
  unfold Bounded.push Bounded.maxLen; split <;> simp

theorem push_inv (b : Bounded α) (x : α) (h : b.Inv) : (b.push x).1.Inv := by
  unfold Bounded.push Bounded.Inv Bounded.nextStart Bounded.maxLen at *
  split <;> simp_all <;> (try split) <;> omega

/-- *"push appends and, only when full, evicts and returns the oldest element"* -/
theorem push_refines (b : Bounded α) (x : α) (h : b.Inv) :
    (b.push x).1.abs = (qPush b.maxLen b.abs x).1 ∧ (b.push x).2 = (qPush b.maxLen b.abs x).2 := by
  obtain ⟨hs, hl⟩ := h
  unfold Bounded.maxLen at hs hl
  unfold Bounded.push qPush
  rw [abs_length]
  by_cases hf : b.len = b.maxLen
  · have hf' : b.len = b.data.length := hf
    simp only [hf, if_true]
    constructor
    · simp only [Bounded.abs, Bounded.nextStart, Bounded.maxLen, List.length_set]
      have := window_rotate_push b.data b.start x hs
      rw [hf']; simpa [nextSlot] using this
    · rw [Bounded.abs, window_head? _ _ _ hs (by omega)]
  · simp only [hf, if_false, and_true]
    simp only [Bounded.abs, Bounded.maxLen]
    exact window_push b.data b.start b.len x hs (by unfold Bounded.maxLen at hf; omega)

theorem pop_maxLen (b : Bounded α) : (b.pop).1.maxLen = b.maxLen := by
  unfold Bounded.pop Bounded.maxLen; split <;> simp

theorem pop_inv (b : Bounded α) (h : b.Inv) : (b.pop).1.Inv := by
  unfold Bounded.pop Bounded.Inv Bounded.nextStart Bounded.maxLen at *
  split <;> simp_all <;> (try split) <;> omega

/-- *"pop removes the oldest"* (and returns it; `none` exactly when empty), wrap case included -/
theorem pop_refines (b : Bounded α) (h : b.Inv) :
    (b.pop).1.abs = b.abs.tail ∧ (b.pop).2 = b.abs.head? := by
  obtain ⟨hs, hl⟩ := h
  unfold Bounded.maxLen at hs hl
  unfold Bounded.pop
  by_cases h0 : b.len = 0
  · simp [h0, Bounded.abs, window]
  · simp only [h0, if_false]
    obtain ⟨m, hm⟩ : ∃ m, b.len = m + 1 := ⟨b.len - 1, by omega⟩
    have := window_succ b.data b.start m hs
    constructor
    · simp only [Bounded.abs, Bounded.nextStart, Bounded.maxLen, hm, this, List.tail_cons]
      simp
    · simp only [Bounded.abs, hm, this, List.head?_cons]

theorem getMutSet_inv (b : Bounded α) (i : Nat) (x : α) (h : b.Inv) : (b.getMutSet i x).1.Inv := by
  unfold Bounded.getMutSet Bounded.Inv Bounded.maxLen at *
  split <;> simp_all

theorem getMutSet_maxLen (b : Bounded α) (i : Nat) (x : α) : (b.getMutSet i x).1.maxLen = b.maxLen := by
  unfold Bounded.getMutSet Bounded.maxLen; split <;> simp

/-- *"indexed … write"*: the reference returned by `get_mut(i)` is position `i` of the queue —
    writing through it changes that element and nothing else; out of range nothing is exposed -/
theorem getMutSet_refines (b : Bounded α) (i : Nat) (x : α) (h : b.Inv) :
    (b.getMutSet i x).1.abs = b.abs.set i x ∧ (b.getMutSet i x).2 = b.abs[i]? := by
  obtain ⟨hs, hl⟩ := h
  unfold Bounded.maxLen at hs hl
  have hg := get_abs b i
  unfold Bounded.get at hg
  unfold Bounded.getMutSet
  by_cases hi : i ≥ b.len
  · simp only [hi, if_true] at hg ⊢
    refine ⟨?_, hg⟩
    rw [List.set_eq_of_length_le (by rw [abs_length]; exact hi)]
  · simp only [hi, if_false] at hg ⊢
    refine ⟨?_, hg⟩
    simp only [Bounded.abs, Bounded.maxLen, List.length_set]
    exact window_set_at b.data b.start b.len i x hs hl (by omega)

/-- *"the two slices concatenated present the live elements oldest-first"* -/
theorem slices_abs (b : Bounded α) (h : b.Inv) : b.slices.1 ++ b.slices.2 = b.abs := by
  obtain ⟨hs, hl⟩ := h
  unfold Bounded.maxLen at hs hl
  unfold Bounded.slices Bounded.abs
  simp only [List.length_drop]
  by_cases hw : b.data.length - b.start ≤ b.len
  · simp only [hw, if_true]
    exact (window_split_wrap b.data b.start b.len hs hl hw).symm
  · simp only [hw, if_false, List.take_zero, List.append_nil]
    exact (window_split_contig b.data b.start b.len (by omega)).symm

/-- *"iteration … present[s] the live elements oldest-first"* -/
theorem iter_abs (b : Bounded α) (h : b.Inv) : b.iter = b.abs := slices_abs b h

/-- the mutable slices of `slices_mut`/`iter_mut` are, in order, the slots of live elements 0,1,…
    (same split as `slices`) -/
theorem mutPos_slots (b : Bounded α) (h : b.Inv) :
    b.mutPos.1 ++ b.mutPos.2 = (List.range' 0 b.len).map fun i => (b.start + i) % b.data.length := by
  obtain ⟨hs, hl⟩ := h
  unfold Bounded.maxLen at hs hl
  unfold Bounded.mutPos
  apply List.ext_getElem?
  intro i
  by_cases hw : b.data.length - b.start ≤ b.len
  · simp only [hw, if_true, List.getElem?_append, List.length_range', List.getElem?_map,
      List.getElem?_range']
    by_cases h1 : i < b.data.length - b.start
    · have : i < b.len := by omega
      simp [h1, this, Nat.mod_eq_of_lt (show b.start + i < b.data.length by omega)]
    · by_cases h2 : i < b.len
      · have h3 : i - (b.data.length - b.start) < b.len - (b.data.length - b.start) := by omega
        have e : (b.start + i) % b.data.length = i - (b.data.length - b.start) := by
          rw [add_mod_wrap hs (by omega)]; split <;> omega
        simp [h1, h2, h3, e]
      · have h3 : ¬ i - (b.data.length - b.start) < b.len - (b.data.length - b.start) := by omega
        simp [h1, h2, h3]
  · simp only [hw, if_false, List.append_nil, List.getElem?_map, List.getElem?_range']
    by_cases h2 : i < b.len
    · simp [h2, Nat.mod_eq_of_lt (show b.start + i < b.data.length by omega)]
    · simp [h2]

/-- the mutable pair exposes the same elements as `slices` -/
theorem mutPos_read (b : Bounded α) (h : b.Inv) :
    (b.mutPos.1 ++ b.mutPos.2).map (fun p => b.data[p]!) = b.abs := by
  rw [mutPos_slots b h]
  simp [Bounded.abs, window, List.range_eq_range']

theorem mutWrite_inv (b : Bounded α) (xs : List α) (h : b.Inv) :
    (b.mutWrite xs).Inv ∧ (b.mutWrite xs).maxLen = b.maxLen := by
  have hl : ∀ (ps : List Nat) (xs : List α) (d : List α), (writeAt d ps xs).length = d.length := by
    intro ps
    induction ps with
    | nil => intro xs d; cases xs <;> rfl
    | cons p ps ih =>
      intro xs d
      cases xs with
      | nil => rfl
      | cons x xs => simp [writeAt, ih]
  constructor
  · unfold Bounded.mutWrite Bounded.Inv Bounded.maxLen at *
    simpa only [hl] using h
  · unfold Bounded.mutWrite Bounded.maxLen
    simp only [hl]

/-- *"indexed read/write, iteration, slice views"*, mutable flavour: writing `xs` through
    `iter_mut()` / `slices_mut()` overwrites the oldest `|xs|` live elements, in order, and
    touches nothing else of the queue -/
theorem mutWrite_refines (b : Bounded α) (xs : List α) (h : b.Inv) :
    (b.mutWrite xs).abs = xs.take b.abs.length ++ b.abs.drop xs.length := by
  have hl := (mutWrite_inv b xs h).2
  obtain ⟨hs, hn⟩ := h
  unfold Bounded.maxLen at hs hn hl
  have hp := mutPos_slots b ⟨hs, hn⟩
  rw [← overwrite_zero]
  unfold Bounded.abs Bounded.mutWrite
  simp only [hp]
  exact window_writeAt b.data b.start b.len b.len 0 xs hs hn (by omega)

theorem drainTake_spec (k : Nat) (b : Bounded α) (h : b.Inv) :
    (Bounded.drainTake k b).1.Inv ∧ (Bounded.drainTake k b).1.maxLen = b.maxLen ∧
    (Bounded.drainTake k b).1.abs = b.abs.drop k ∧ (Bounded.drainTake k b).2 = b.abs.take k := by
  induction k generalizing b with
  | zero => simp [Bounded.drainTake, h]
  | succ k ih =>
    have hp := pop_refines b h
    have hi := pop_inv b h
    have hm := pop_maxLen b
    unfold Bounded.drainTake
    rcases hpop : b.pop with ⟨b', o⟩
    rw [hpop] at hp hi hm
    simp only at hp hi hm
    cases o with
    | none =>
      have he : b.abs = [] := by
        cases hq : b.abs with
        | nil => rfl
        | cons a l => rw [hq] at hp; simp at hp
      simp only
      refine ⟨hi, hm, ?_, ?_⟩
      · rw [hp.1, he]; simp
      · rw [he]; simp
    | some v =>
      obtain ⟨i1, i2, i3, i4⟩ := ih b' hi
      simp only
      cases hq : b.abs with
      | nil => rw [hq] at hp; simp at hp
      | cons a l =>
        rw [hq] at hp
        simp only [List.tail_cons, List.head?_cons, Option.some.injEq] at hp
        refine ⟨i1, by rw [i2, hm], ?_, ?_⟩
        · rw [i3, hp.1]; simp
        · rw [i4, hp.1, hp.2]; simp

/-- *"drain"*: yields the oldest `min k len` elements in order and removes exactly those -/
theorem drain_refines (k : Nat) (b : Bounded α) (h : b.Inv) :
    (Bounded.drainTake k b).1.abs = b.abs.drop k ∧ (Bounded.drainTake k b).2 = b.abs.take k :=
  ⟨(drainTake_spec k b h).2.2.1, (drainTake_spec k b h).2.2.2⟩

/-- every sum the `Bounded` code forms in `usize` before reducing it modulo the capacity —
    `start + index` for a live index (`get`, `get_mut`, `Index`), `start + len` (`push`, `slices`) and
    `start + 1` (`pop`, the evicting `push`) — is below `2 * capacity`, hence cannot overflow `usize` for
    any slice of non-zero-sized elements (a slice has at most `isize::MAX` bytes: `2 * capacity ≤ usize::MAX`) -/
theorem bounded_sums_small (b : Bounded α) (h : b.Inv) (i : Nat) (hi : i < b.len) :
    b.start + i < 2 * b.maxLen ∧ b.start + b.len < 2 * b.maxLen ∧ b.start + 1 < 2 * b.maxLen := by
  unfold Bounded.Inv at h; omega

/-- *"drain"* advanced with `Iterator::nth` (what `skip` / `step_by` call): `rb.drain().nth(k)` —
    `k+1` steps of the draining iterator, of which the client sees the last — hands out the element at
    index `k` of the ideal queue (`None` if there is none) and removes exactly the elements up to and
    including it -/
theorem drain_nth_refines (k : Nat) (b : Bounded α) (h : b.Inv) :
    (Bounded.drainTake (k + 1) b).2[k]? = b.abs[k]? ∧ (Bounded.drainTake (k + 1) b).1.abs = b.abs.drop (k + 1) := by
  obtain ⟨h1, h2⟩ := drain_refines (k + 1) b h
  refine ⟨?_, h1⟩
  rw [h2, List.getElem?_take]
  simp

theorem extend_spec (xs : List α) (b : Bounded α) (h : b.Inv) :
    (b.extend xs).Inv ∧ (b.extend xs).maxLen = b.maxLen ∧
    (b.extend xs).abs = xs.foldl (fun q x => (qPush b.maxLen q x).1) b.abs := by
  induction xs generalizing b with
  | nil => simp [Bounded.extend, h]
  | cons x xs ih =>
    obtain ⟨i1, i2, i3⟩ := ih (b.push x).1 (push_inv b x h)
    simp only [Bounded.extend, List.foldl_cons] at i1 i2 i3 ⊢
    refine ⟨i1, by rw [i2, push_maxLen], ?_⟩
    rw [i3, push_maxLen, (push_refines b x h).1]

/-- `into_raw_parts` followed by `from_raw_parts` accepts every reachable state unchanged
    (the assertion at lib.rs:786-787 is exactly `Inv`) -/
theorem fromRawParts_iff (s l : Nat) (d : List α) :
    (∃ b, Bounded.fromRawParts s l d = some b) ↔ (⟨d, s, l⟩ : Bounded α).Inv := by
  unfold Bounded.fromRawParts Bounded.Inv Bounded.maxLen
  by_cases h1 : s < d.length <;> by_cases h2 : l ≤ d.length <;> simp [h1, h2]

theorem reparts_id (b : Bounded α) (h : b.Inv) : Bounded.fromRawParts b.start b.len b.data = some b := by
  unfold Bounded.fromRawParts
  unfold Bounded.Inv Bounded.maxLen at h
  simp [h.1, h.2]

/-- every buffer a safe constructor returns is in a valid state, holding what the
    constructor's documentation says (`from_full`: all of `data`; `From`: nothing) -/
theorem constructors_valid (d : List α) (s l : Nat) (b : Bounded α) :
    (Bounded.fromRawParts s l d = some b → b.Inv ∧ b = ⟨d, s, l⟩) ∧
    (Bounded.fromFull d = some b → b.Inv ∧ b.abs = d) ∧
    (Bounded.fromEmpty d = some b → b.Inv ∧ b.abs = []) := by
  refine ⟨?_, ?_, ?_⟩
  · intro hb
    unfold Bounded.fromRawParts at hb
    by_cases h1 : s < d.length <;> by_cases h2 : l ≤ d.length <;> simp [h1, h2] at hb
    subst hb; exact ⟨⟨h1, h2⟩, rfl⟩
  · intro hb
    unfold Bounded.fromFull Bounded.fromRawParts at hb
    by_cases h1 : 0 < d.length <;> simp [h1] at hb
    subst hb
    refine ⟨⟨h1, Nat.le_refl _⟩, ?_⟩
    have := slices_abs (⟨d, 0, d.length⟩ : Bounded α) ⟨h1, Nat.le_refl _⟩
    simp [Bounded.slices] at this
    exact this.symm
  · intro hb
    unfold Bounded.fromEmpty Bounded.fromRawParts at hb
    by_cases h1 : 0 < d.length <;> simp [h1] at hb
    subst hb
    exact ⟨⟨h1, Nat.zero_le _⟩, by simp [Bounded.abs, window]⟩

/-- **C06, Bounded, one step from every valid state.** Every public operation keeps the state
    valid, keeps the capacity, and returns exactly what the ideal capacity-bounded queue returns
    while transforming the live elements exactly as the ideal queue is transformed. -/
theorem step_refines (b : Bounded α) (h : b.Inv) (op : BOp α) :
    (b.step op).1.Inv ∧ (b.step op).1.maxLen = b.maxLen ∧
    (b.step op).1.abs = (qStep b.maxLen b.abs op).1 ∧
    norm (b.step op).2 = (qStep b.maxLen b.abs op).2 := by
  cases op with
  | push x =>
    exact ⟨push_inv b x h, push_maxLen b x, (push_refines b x h).1, by simp [Bounded.step, qStep, norm, (push_refines b x h).2]⟩
  | pop =>
    exact ⟨pop_inv b h, pop_maxLen b, (pop_refines b h).1, by simp [Bounded.step, qStep, norm, (pop_refines b h).2]⟩
  | get i => simp [Bounded.step, qStep, norm, h, get_abs]
  | getMut i x =>
    exact ⟨getMutSet_inv b i x h, getMutSet_maxLen b i x, (getMutSet_refines b i x h).1,
      by simp [Bounded.step, qStep, norm, (getMutSet_refines b i x h).2]⟩
  | index i =>
    refine ⟨h, rfl, rfl, ?_⟩
    simp only [Bounded.step, qStep, get_abs]
    cases b.abs[i]? <;> rfl
  | indexMut i x =>
    have h1 := getMutSet_inv b i x h
    have h2 := getMutSet_maxLen b i x
    have h3 := getMutSet_refines b i x h
    simp only [Bounded.step, qStep]
    rcases hg : b.getMutSet i x with ⟨b', o⟩
    rw [hg] at h1 h2 h3
    simp only at h1 h2 h3
    cases o with
    | some v => exact ⟨h1, h2, h3.1, by rw [← h3.2]; rfl⟩
    | none =>
      refine ⟨h, rfl, ?_, by rw [← h3.2]; rfl⟩
      simp only
      rw [List.set_eq_of_length_le]
      exact Nat.le_of_not_lt fun hlt => by simp [List.getElem?_eq_getElem hlt] at h3
  | len => simp [Bounded.step, qStep, norm, h, (len_agrees b).1]
  | isEmpty => simp [Bounded.step, qStep, norm, h, (len_agrees b).2.1]
  | isFull => simp [Bounded.step, qStep, norm, h, (len_agrees b).2.2]
  | maxLen => simp [Bounded.step, qStep, norm, h]
  | iter => simp [Bounded.step, qStep, norm, h, iter_abs b h]
  | slices => simp [Bounded.step, qStep, norm, h, slices_abs b h]
  | iterMut xs =>
    exact ⟨(mutWrite_inv b xs h).1, (mutWrite_inv b xs h).2, mutWrite_refines b xs h,
      by simp [Bounded.step, qStep, norm, iter_abs b h]⟩
  | slicesMut xs =>
    exact ⟨(mutWrite_inv b xs h).1, (mutWrite_inv b xs h).2, mutWrite_refines b xs h,
      by simp [Bounded.step, qStep, norm, slices_abs b h]⟩
  | drain k =>
    obtain ⟨i1, i2, i3, i4⟩ := drainTake_spec k b h
    exact ⟨i1, i2, i3, by simp [Bounded.step, qStep, norm, i4]⟩
  | extend xs =>
    obtain ⟨i1, i2, i3⟩ := extend_spec xs b h
    exact ⟨i1, i2, i3, rfl⟩
  | reparts =>
    simp [Bounded.step, qStep, norm, reparts_id b h, h, abs_length]

/-- **C06, Bounded, every history.** *"Starting from any valid state over any capacity, every
    sequence of operations … returns exactly what an ideal capacity-bounded queue returns."*
    By induction over the operation list: the final state is valid, has the same capacity,
    holds the ideal queue's content, and every observation along the way is the ideal one. -/
theorem run_refines (ops : List (BOp α)) (b : Bounded α) (h : b.Inv) :
    (b.run ops).1.Inv ∧ (b.run ops).1.maxLen = b.maxLen ∧
    (b.run ops).1.abs = (qRun b.maxLen b.abs ops).1 ∧
    (b.run ops).2.map norm = (qRun b.maxLen b.abs ops).2 := by
  suffices H : ∀ (ops : List (BOp α)) (b0 : Bounded α) (o1 o2 : List (Obs α)), b0.Inv →
      o1.map norm = o2 →
      let r := ops.foldl (fun acc op => ((acc.1.step op).1, acc.2 ++ [(acc.1.step op).2])) (b0, o1)
      let q := ops.foldl (fun acc op => ((qStep b0.maxLen acc.1 op).1, acc.2 ++ [(qStep b0.maxLen acc.1 op).2])) (b0.abs, o2)
      r.1.Inv ∧ r.1.maxLen = b0.maxLen ∧ r.1.abs = q.1 ∧ r.2.map norm = q.2 from
    H ops b [] [] h rfl
  intro ops
  induction ops with
  | nil => intro b0 o1 o2 h0 ho; exact ⟨h0, rfl, rfl, ho⟩
  | cons op ops ih =>
    intro b0 o1 o2 h0 ho
    obtain ⟨s1, s2, s3, s4⟩ := step_refines b0 h0 op
    have := ih (b0.step op).1 (o1 ++ [(b0.step op).2]) (o2 ++ [(qStep b0.maxLen b0.abs op).2]) s1
      (by simp [ho, s4])
    simp only [List.foldl_cons]
    rw [s2, s3] at this
    exact this

theorem getAcc_lt (b : Bounded α) (h : b.Inv) (j : Nat) : ∀ i ∈ b.getAcc j, i < b.data.length := by
  intro i hi
  unfold Bounded.getAcc at hi
  split at hi
  · simp at hi
  · simp only [List.mem_singleton] at hi; subst hi
    exact Nat.mod_lt _ (by have := h.1; unfold Bounded.maxLen at *; omega)

theorem pushAcc_lt (b : Bounded α) (h : b.Inv) : ∀ i ∈ b.pushAcc, i < b.data.length := by
  intro i hi
  unfold Bounded.pushAcc at hi
  split at hi <;> simp only [List.mem_singleton] at hi <;> subst hi
  · exact h.1
  · exact Nat.mod_lt _ (by have := h.1; unfold Bounded.maxLen at *; omega)

theorem popAcc_lt (b : Bounded α) (h : b.Inv) : ∀ i ∈ b.popAcc, i < b.data.length := by
  intro i hi
  unfold Bounded.popAcc at hi
  split at hi
  · simp at hi
  · simp only [List.mem_singleton] at hi; subst hi; exact h.1

theorem drainAcc_lt (k : Nat) (b : Bounded α) (h : b.Inv) : ∀ i ∈ Bounded.drainAcc k b, i < b.data.length := by
  induction k generalizing b with
  | zero => simp [Bounded.drainAcc]
  | succ k ih =>
    intro i hi
    unfold Bounded.drainAcc at hi
    have hi' := pop_inv b h
    have hm := pop_maxLen b
    rcases hp : b.pop with ⟨b', o⟩
    rw [hp] at hi hi' hm
    cases o with
    | none => exact popAcc_lt b h i hi
    | some v =>
      simp only [List.mem_append] at hi
      rcases hi with hi | hi
      · exact popAcc_lt b h i hi
      · have := ih b' hi' i hi
        unfold Bounded.maxLen at hm; simp only at hm; omega

theorem extendAcc_lt (xs : List α) (b : Bounded α) (h : b.Inv) : ∀ i ∈ b.extendAcc xs, i < b.data.length := by
  induction xs generalizing b with
  | nil => simp [Bounded.extendAcc]
  | cons x xs ih =>
    intro i hi
    simp only [Bounded.extendAcc, List.mem_append] at hi
    rcases hi with hi | hi
    · exact pushAcc_lt b h i hi
    · have := ih (b.push x).1 (push_inv b x h) i hi
      have hm := push_maxLen b x
      unfold Bounded.maxLen at hm; omega

/-- *"No operation … reads or writes outside the backing slice"*: in every valid state every
    slot index an operation dereferences without a bounds check (`get_unchecked[_mut]` in push,
    pop, get, get_mut, and through them Index, IndexMut, drain, extend) is inside the slice -/
theorem accesses_in_bounds (b : Bounded α) (h : b.Inv) (op : BOp α) :
    ∀ i ∈ b.stepAcc op, i < b.data.length := by
  cases op with
  | push x => exact pushAcc_lt b h
  | pop => exact popAcc_lt b h
  | get j => exact getAcc_lt b h j
  | getMut j x => exact getAcc_lt b h j
  | index j => exact getAcc_lt b h j
  | indexMut j x => exact getAcc_lt b h j
  | drain k => exact drainAcc_lt k b h
  | extend xs => exact extendAcc_lt xs b h
  | _ => simp [Bounded.stepAcc]

/-- …and every range Rust checks while building the slices (`split_at(start)`, `&end[..end_len]`,
    `&start[..len]`) is inside its slice, so `slices`/`slices_mut`/`iter`/`iter_mut` never panic -/
theorem slice_checks_pass (b : Bounded α) (h : b.Inv) (op : BOp α) :
    ∀ p ∈ b.stepChecks op, p.1 ≤ p.2 := by
  obtain ⟨hs, hl⟩ := h
  unfold Bounded.maxLen at hs hl
  have : ∀ p ∈ b.sliceChecks, p.1 ≤ p.2 := by
    intro p hp
    unfold Bounded.sliceChecks at hp
    simp only [List.mem_cons] at hp
    rcases hp with rfl | hp
    · simp; omega
    · split at hp
      · simp only [List.mem_singleton] at hp; subst hp; simp; omega
      · simp only [List.mem_cons, List.mem_singleton, List.not_mem_nil, or_false] at hp
        rcases hp with rfl | rfl <;> simp <;> omega
  cases op <;> simp only [Bounded.stepChecks] <;> first | exact this | (intro p hp; cases hp)

/-- the `&mut` references handed out by `slices_mut`/`iter_mut` point into the backing slice, at
    slots of live elements only -/
theorem mutPos_in_bounds (b : Bounded α) (h : b.Inv) :
    ∀ p ∈ b.mutPos.1 ++ b.mutPos.2, p < b.data.length := by
  rw [mutPos_slots b h]
  intro p hp
  simp only [List.mem_map] at hp
  obtain ⟨i, _, rfl⟩ := hp
  exact Nat.mod_lt _ (by have := h.1; unfold Bounded.maxLen at *; omega)

/-- along every history from a valid state, every unchecked access of every next call is in bounds
    and every checked slice range passes -/
theorem run_accesses_in_bounds (ops : List (BOp α)) (op : BOp α) (b : Bounded α) (h : b.Inv) :
    (∀ i ∈ (b.run ops).1.stepAcc op, i < (b.run ops).1.data.length) ∧
    (∀ p ∈ (b.run ops).1.stepChecks op, p.1 ≤ p.2) :=
  ⟨accesses_in_bounds _ (run_refines ops b h).1 op, slice_checks_pass _ (run_refines ops b h).1 op⟩

/-- *"…or exposes a slot that holds no live element"*: whatever an operation returns comes from
    the ideal queue's content alone (`step_refines`), and reads never reach a dead slot:
    `get i` beyond `len` is `none`, `Index` panics -/
theorem no_dead_slot_exposed (b : Bounded α) (i : Nat) (hi : b.len ≤ i) :
    b.get i = none ∧ (b.step (.index i)).2 = .panic ∧ (b.step (.indexMut i default)).2 = .panic ∧
    (b.getMutSet i default).1 = b := by
  have hg : b.get i = none := by simp [Bounded.get, hi]
  simp [Bounded.step, hg, Bounded.getMutSet, hi]

/-! ## Fixed: the ideal N-slot delay line -/

/-- rotate left by `k ≤ length` -/
def rotl (l : List α) (k : Nat) : List α := l.drop k ++ l.take k

/-- one operation on the ideal delay line: `l` = its `n` elements oldest first; `first` is carried
    only because `set_first` takes an absolute slot index (taken modulo `n`) and `into_raw_parts`
    shows it -/
def dStep (n : Nat) (l : List α) (first : Nat) : FOp α → (List α × Nat) × Obs α
  | .push x => ((l.tail ++ [x], nextSlot n first), .opt l.head?)
  | .get i => ((l, first), .opt l[i % n]?)
  | .getMut i x => ((l.set (i % n) x, first), .opt l[i % n]?)
  | .setFirst j => ((rotl l ((j % n + n - first) % n), j % n), .unit)
  | .len => ((l, first), .nat n)
  | .iter => ((l, first), .list l)
  | .iterLoop m => ((l, first), .list ((List.range m).map fun k => l[k % n]!))
  | .iterMut xs => ((xs.take n ++ l.drop xs.length, first), .list l)
  | .slices => ((l, first), .list l)
  | .slicesMut xs => ((xs.take n ++ l.drop xs.length, first), .list l)
  | .extend xs => (xs.foldl (fun s x => (s.1.tail ++ [x], nextSlot n s.2)) (l, first), .unit)
  | .reparts => ((l, first), .nat first)

def dRun (n : Nat) (l : List α) (first : Nat) (ops : List (FOp α)) : (List α × Nat) × List (Obs α) :=
  ops.foldl (fun acc op => ((dStep n acc.1.1 acc.1.2 op).1, acc.2 ++ [(dStep n acc.1.1 acc.1.2 op).2])) ((l, first), [])

namespace Fixed

/-- *"keeps length N"*: the abstraction always has exactly `len` elements, and `N ≥ 1` -/
theorem abs_length (f : Fixed α) : f.abs.length = f.len := by simp [Fixed.abs]

theorem len_pos (f : Fixed α) (h : f.Inv) : 1 ≤ f.len := by unfold Fixed.Inv at h; omega

/-- *"indexing wraps modulo N"*: `get i` is element `i % N` of the oldest-first order -/
theorem get_abs (f : Fixed α) (h : f.Inv) (i : Nat) : some (f.get i) = f.abs[i % f.len]? := by
  unfold Fixed.Inv Fixed.len at h
  unfold Fixed.get Fixed.wrapped Fixed.abs Fixed.len
  rw [window_getElem?]
  simp only [Nat.mod_lt _ (show 0 < f.data.length by omega), if_true]

/-- the sum the code forms in `usize` for ANY index is below `2 * len`: no overflow for any slice
    (a slice has at most `isize::MAX` bytes, so `2 * len ≤ usize::MAX`) -/
theorem wrapped_sum_small (f : Fixed α) (h : f.Inv) (i : Nat) : f.first + i % f.len < 2 * f.len := by
  have := Nat.mod_lt i (show 0 < f.len by unfold Fixed.Inv at h; omega)
  unfold Fixed.Inv at h; omega

/-- **Historical counter-witness (code before fix commit 5f913b5).** `(first + index) % len` evaluated
    in wrapping 64-bit arithmetic: in the valid state first = 1, N = 3 the index 2^64 − 1 selects
    backing slot 0, while element `index mod N` (= element 0 of the oldest-first order) lives in slot 1,
    which is what the current expression selects. -/
theorem wrappedOld64_wrong_slot :
    ∃ f : Fixed Nat, f.Inv ∧ f.wrappedOld64 (2 ^ 64 - 1) = 0 ∧ f.wrapped (2 ^ 64 - 1) = 1 ∧
      f.abs[(2 ^ 64 - 1) % f.len]? = some f.data[1]! ∧ f.data[f.wrappedOld64 (2 ^ 64 - 1)]! ≠ f.data[1]! :=
  ⟨⟨[11, 12, 13], 1⟩, by decide, by decide, by decide, by decide, by decide⟩

theorem push_len (f : Fixed α) (x : α) : (f.push x).1.len = f.len := by simp [Fixed.push, Fixed.len]

theorem push_inv (f : Fixed α) (x : α) (h : f.Inv) : (f.push x).1.Inv := by
  unfold Fixed.push Fixed.Inv Fixed.len at *
  simp only [List.length_set]
  split <;> omega

theorem push_first (f : Fixed α) (x : α) (h : f.Inv) : (f.push x).1.first = nextSlot f.len f.first := by
  unfold Fixed.Inv Fixed.len at h
  unfold Fixed.push nextSlot Fixed.len
  simp only
  by_cases h1 : f.first + 1 = f.data.length
  · simp [h1]
  · have : ¬ f.first + 1 ≥ f.data.length := by omega
    simp [h1, this]

/-- *"each push returns the element at index 0 and makes the pushed element the newest at index
    N-1"*: the result is `abs[0]`, the new order is the old one without its head, `x` appended -/
theorem push_refines (f : Fixed α) (x : α) (h : f.Inv) :
    (f.push x).1.abs = f.abs.tail ++ [x] ∧ some (f.push x).2 = f.abs.head? := by
  have hf := push_first f x h
  unfold Fixed.Inv Fixed.len at h
  constructor
  · unfold Fixed.abs
    rw [hf]
    simp only [Fixed.push, Fixed.len, List.length_set]
    exact window_rotate_push f.data f.first x h
  · unfold Fixed.abs Fixed.len
    rw [window_head? _ _ _ h (by omega)]
    rfl

/-- the pushed element is the newest, at index N-1 -/
theorem push_newest (f : Fixed α) (x : α) (h : f.Inv) : (f.push x).1.abs[f.len - 1]? = some x := by
  rw [(push_refines f x h).1]
  have h1 := abs_length f
  have h2 := len_pos f h
  have h3 : f.abs.tail.length = f.len - 1 := by simp [h1]
  rw [List.getElem?_append_right (by omega), h3]
  simp

/-- *"each push returns the element at index 0"*, literally: what `push` returns is what `get(0)`
    (= `rb[0]`) returned just before -/
theorem push_returns_index0 (f : Fixed α) (x : α) (h : f.Inv) : (f.push x).2 = f.get 0 := by
  unfold Fixed.Inv Fixed.len at h
  simp [Fixed.push, Fixed.get, Fixed.wrapped, Fixed.len, Nat.mod_eq_of_lt h]

/-- *"…and makes the pushed element the newest at index N-1"*, literally: `get(N-1)` after the push -/
theorem push_index_last (f : Fixed α) (x : α) (h : f.Inv) : (f.push x).1.get (f.len - 1) = x := by
  have h1 := get_abs (f.push x).1 (push_inv f x h) (f.len - 1)
  have h2 := push_newest f x h
  have h3 := len_pos f h
  rw [push_len, Nat.mod_eq_of_lt (by omega), h2] at h1
  exact Option.some.inj h1

theorem getMutSet_refines (f : Fixed α) (i : Nat) (x : α) (h : f.Inv) :
    (f.getMutSet i x).1.Inv ∧ (f.getMutSet i x).1.len = f.len ∧ (f.getMutSet i x).1.first = f.first ∧
    (f.getMutSet i x).1.abs = f.abs.set (i % f.len) x ∧ some (f.getMutSet i x).2 = f.abs[i % f.len]? := by
  have hg := get_abs f h i
  unfold Fixed.Inv Fixed.len at h
  refine ⟨by simpa [Fixed.getMutSet, Fixed.Inv, Fixed.len] using h, by simp [Fixed.getMutSet, Fixed.len], rfl, ?_, hg⟩
  unfold Fixed.getMutSet Fixed.wrapped Fixed.abs Fixed.len
  simp only [List.length_set]
  have hlt : i % f.data.length < f.data.length := Nat.mod_lt _ (by omega)
  exact window_set_at f.data f.first f.data.length (i % f.data.length) x h (Nat.le_refl _) hlt

/-- *"the slice pair … agree[s] on oldest-first order"* -/
theorem slices_abs (f : Fixed α) (h : f.Inv) : f.slices.1 ++ f.slices.2 = f.abs := by
  unfold Fixed.Inv Fixed.len at h
  unfold Fixed.slices Fixed.abs Fixed.len
  have := window_split_wrap f.data f.first f.data.length h (Nat.le_refl _) (by omega)
  rw [this, List.take_take]
  have e : min (f.data.length - (f.data.length - f.first)) f.first = f.first := by omega
  rw [e]

/-- *"looping … iteration"*: item `k` of `iter_loop` is element `k % N` of the oldest-first order,
    for every `k` (a prefix of any length of the infinite cycle) -/
theorem iterLoop_abs (f : Fixed α) (h : f.Inv) (m : Nat) :
    f.iterLoop m = (List.range m).map fun k => f.abs[k % f.len]! := by
  unfold Fixed.Inv Fixed.len at h
  unfold Fixed.iterLoop
  have hne : ¬ f.len = 0 := by unfold Fixed.len; omega
  simp only [hne, if_false]
  apply List.map_congr_left
  intro k _
  have hk : k % f.len < f.len := Nat.mod_lt _ (by unfold Fixed.len; omega)
  have := window_getElem? f.data f.first f.len (k % f.len)
  simp only [hk, if_true] at this
  have e : f.abs[k % f.len]! = f.data[(f.first + k % f.len) % f.data.length]! := by
    unfold Fixed.abs
    rw [getElem!_def, this]
  rw [e]
  unfold Fixed.len
  rw [Nat.add_mod_mod]

/-- *"plain … iteration"* yields exactly the `N` elements oldest first -/
theorem iter_abs (f : Fixed α) (h : f.Inv) : f.iter = f.abs := by
  unfold Fixed.Inv Fixed.len at h
  have hne : ¬ f.data.length = 0 := by omega
  simp only [Fixed.iter, Fixed.iterLoop, Fixed.abs, window, Fixed.len, hne, if_false]

/-- the chain `iter_mut` walks (the mutable slice pair) is the same order -/
theorem iterChain_abs (f : Fixed α) (h : f.Inv) : f.iterChain = f.abs := slices_abs f h

theorem mutPos_slots (f : Fixed α) (h : f.Inv) :
    f.mutPos.1 ++ f.mutPos.2 = (List.range' 0 f.len).map fun i => (f.first + i) % f.data.length := by
  have := Dasp.Props.C06.mutPos_slots (⟨f.data, f.first, f.data.length⟩ : Bounded α) ⟨h, Nat.le_refl _⟩
  have e : f.data.length - (f.data.length - f.first) = f.first := by
    unfold Fixed.Inv Fixed.len at h; omega
  simpa [Bounded.mutPos, Fixed.mutPos, Fixed.len, e] using this

theorem writeAt_length (ps : List Nat) (xs : List α) (d : List α) : (writeAt d ps xs).length = d.length := by
  induction ps generalizing xs d with
  | nil => cases xs <;> rfl
  | cons p ps ih =>
    cases xs with
    | nil => rfl
    | cons x xs => simp [writeAt, ih]

/-- *"mutable iteration"*: writing `xs` through `iter_mut()`/`slices_mut()` overwrites the oldest
    `|xs|` elements in order; length and `first` unchanged -/
theorem mutWrite_refines (f : Fixed α) (xs : List α) (h : f.Inv) :
    (f.mutWrite xs).Inv ∧ (f.mutWrite xs).len = f.len ∧ (f.mutWrite xs).first = f.first ∧
    (f.mutWrite xs).abs = xs.take f.len ++ f.abs.drop xs.length := by
  have hp := mutPos_slots f h
  have hlen : (f.mutWrite xs).len = f.len := by simp [Fixed.mutWrite, Fixed.len, writeAt_length]
  refine ⟨by unfold Fixed.Inv at *; rw [hlen]; exact h, hlen, rfl, ?_⟩
  unfold Fixed.Inv Fixed.len at h
  have := overwrite_zero f.abs xs
  rw [abs_length] at this
  rw [← this]
  unfold Fixed.abs
  rw [hlen]
  unfold Fixed.mutWrite Fixed.len
  simp only [hp, writeAt_length]
  exact window_writeAt f.data f.first f.data.length f.data.length 0 xs h (Nat.le_refl _) (by omega)

theorem rot_back {s t n : Nat} (hs : s < n) (ht : t < n) : (s + (t + n - s) % n) % n = t := by
  by_cases hc : t + n - s < n
  · rw [Nat.mod_eq_of_lt hc]
    have e : s + (t + n - s) = t + n := by omega
    rw [e, Nat.add_mod_right, Nat.mod_eq_of_lt ht]
  · have e : (t + n - s) % n = t - s := by
      rw [Nat.mod_eq_sub_mod (by omega), Nat.mod_eq_of_lt (by omega)]; omega
    rw [e]
    have e2 : s + (t - s) = t := by omega
    rw [e2, Nat.mod_eq_of_lt ht]

omit [Inhabited α] in
theorem rotl_getElem? (l : List α) (k i : Nat) (hk : k ≤ l.length) (hi : i < l.length) :
    (rotl l k)[i]? = l[(k + i) % l.length]? := by
  unfold rotl
  rw [List.getElem?_append, List.getElem?_drop, List.getElem?_take]
  simp only [List.length_drop]
  by_cases h1 : i < l.length - k
  · simp [h1, Nat.mod_eq_of_lt (show k + i < l.length by omega)]
  · have h2 : i - (l.length - k) < k := by omega
    have e : (k + i) % l.length = i - (l.length - k) := by
      rw [Nat.mod_eq_sub_mod (by omega), Nat.mod_eq_of_lt (by omega)]; omega
    simp [h1, h2, e]

/-- *"set_first"*: moves the read position to slot `j % N`; length stays `N` and the new order is
    the old one rotated (no element is lost or duplicated) -/
theorem setFirst_refines (f : Fixed α) (j : Nat) (h : f.Inv) :
    (f.setFirst j).Inv ∧ (f.setFirst j).len = f.len ∧ (f.setFirst j).first = j % f.len ∧
    (f.setFirst j).abs = rotl f.abs ((j % f.len + f.len - f.first) % f.len) := by
  unfold Fixed.Inv Fixed.len at h
  have hN : 0 < f.data.length := by omega
  refine ⟨Nat.mod_lt _ hN, rfl, rfl, ?_⟩
  apply List.ext_getElem?
  intro i
  unfold Fixed.setFirst Fixed.abs Fixed.len
  simp only
  by_cases hi : i < f.data.length
  · rw [rotl_getElem? _ _ _ (by simp; exact Nat.le_of_lt (Nat.mod_lt _ hN)) (by simpa using hi)]
    rw [window_getElem?, window_getElem?]
    simp only [window_length, hi, if_true, Nat.mod_lt _ hN]
    congr 2
    -- (first + (k + i) % N) % N = (j % N + i) % N  with  k = (j % N + N - first) % N
    have hj : j % f.data.length < f.data.length := Nat.mod_lt _ hN
    have hk := rot_back h hj
    rw [Nat.add_mod_mod, ← Nat.add_assoc, Nat.add_mod (f.first + _) i, hk, Nat.add_mod_mod]
  · have h1 : (window f.data (j % f.data.length) f.data.length).length ≤ i := by simp; omega
    have h2 : (rotl (window f.data f.first f.data.length) ((j % f.data.length + f.data.length - f.first) % f.data.length)).length ≤ i := by
      simp [rotl]; omega
    rw [List.getElem?_eq_none h1, List.getElem?_eq_none h2]

theorem extend_spec (xs : List α) (f : Fixed α) (h : f.Inv) :
    (f.extend xs).Inv ∧ (f.extend xs).len = f.len ∧
    ((f.extend xs).abs, (f.extend xs).first) =
      xs.foldl (fun s x => (s.1.tail ++ [x], nextSlot f.len s.2)) (f.abs, f.first) := by
  induction xs generalizing f with
  | nil => simp [Fixed.extend, h]
  | cons x xs ih =>
    obtain ⟨i1, i2, i3⟩ := ih (f.push x).1 (push_inv f x h)
    simp only [Fixed.extend, List.foldl_cons] at i1 i2 i3 ⊢
    refine ⟨i1, by rw [i2, push_len], ?_⟩
    rw [i3, push_len, (push_refines f x h).1, push_first f x h]

theorem reparts_id (f : Fixed α) (h : f.Inv) : Fixed.fromRawParts f.first f.data = some f := by
  unfold Fixed.fromRawParts
  unfold Fixed.Inv Fixed.len at h
  simp [h]

/-- `from_raw_parts` accepts exactly the valid states; in particular it rejects empty storage -/
theorem fromRawParts_iff (s : Nat) (d : List α) :
    (∃ f, Fixed.fromRawParts s d = some f) ↔ (⟨d, s⟩ : Fixed α).Inv ∧ 1 ≤ d.length := by
  unfold Fixed.fromRawParts Fixed.Inv Fixed.len
  by_cases h1 : s < d.length <;> simp [h1]
  omega

/-- **C06, Fixed, one step from every valid state**: validity and the length `N` are kept, and the
    result and the new oldest-first order are those of the ideal delay line -/
theorem step_refines (f : Fixed α) (h : f.Inv) (op : FOp α) :
    (f.step op).1.Inv ∧ (f.step op).1.len = f.len ∧
    ((f.step op).1.abs, (f.step op).1.first) = (dStep f.len f.abs f.first op).1 ∧
    norm (f.step op).2 = (dStep f.len f.abs f.first op).2 := by
  cases op with
  | push x =>
    refine ⟨push_inv f x h, push_len f x, ?_, ?_⟩
    · simp [Fixed.step, dStep, (push_refines f x h).1, push_first f x h]
    · simp [Fixed.step, dStep, norm, (push_refines f x h).2]
  | get i => simp [Fixed.step, dStep, norm, h, get_abs f h i]
  | getMut i x =>
    obtain ⟨i1, i2, i3, i4, i5⟩ := getMutSet_refines f i x h
    exact ⟨i1, i2, by simp [Fixed.step, dStep, i3, i4], by simp [Fixed.step, dStep, norm, i5]⟩
  | setFirst j =>
    obtain ⟨i1, i2, i3, i4⟩ := setFirst_refines f j h
    exact ⟨i1, i2, by simp [Fixed.step, dStep, i3, i4], rfl⟩
  | len => simp [Fixed.step, dStep, norm, h]
  | iter => simp [Fixed.step, dStep, norm, h, iter_abs f h]
  | iterLoop m => simp [Fixed.step, dStep, norm, h, iterLoop_abs f h m]
  | iterMut xs =>
    obtain ⟨i1, i2, i3, i4⟩ := mutWrite_refines f xs h
    exact ⟨i1, i2, by simp [Fixed.step, dStep, i3, i4], by simp [Fixed.step, dStep, norm, iterChain_abs f h]⟩
  | slices => simp [Fixed.step, dStep, norm, h, slices_abs f h]
  | slicesMut xs =>
    obtain ⟨i1, i2, i3, i4⟩ := mutWrite_refines f xs h
    exact ⟨i1, i2, by simp [Fixed.step, dStep, i3, i4], by simp [Fixed.step, dStep, norm, slices_abs f h]⟩
  | extend xs =>
    obtain ⟨i1, i2, i3⟩ := extend_spec xs f h
    exact ⟨i1, i2, i3, rfl⟩
  | reparts => simp [Fixed.step, dStep, norm, reparts_id f h, h]

/-- **C06, Fixed, every history.** *"A fixed ring buffer of length N >= 1 keeps length N under any
    history of push, set_first, indexed access and iteration"* and every observation along any
    history is the ideal delay line's. -/
theorem run_refines (ops : List (FOp α)) (f : Fixed α) (h : f.Inv) :
    (f.run ops).1.Inv ∧ (f.run ops).1.len = f.len ∧
    ((f.run ops).1.abs, (f.run ops).1.first) = (dRun f.len f.abs f.first ops).1 ∧
    (f.run ops).2.map norm = (dRun f.len f.abs f.first ops).2 := by
  suffices H : ∀ (ops : List (FOp α)) (f0 : Fixed α) (o1 o2 : List (Obs α)), f0.Inv →
      o1.map norm = o2 →
      let r := ops.foldl (fun acc op => ((acc.1.step op).1, acc.2 ++ [(acc.1.step op).2])) (f0, o1)
      let q := ops.foldl (fun acc op => ((dStep f0.len acc.1.1 acc.1.2 op).1, acc.2 ++ [(dStep f0.len acc.1.1 acc.1.2 op).2])) ((f0.abs, f0.first), o2)
      r.1.Inv ∧ r.1.len = f0.len ∧ (r.1.abs, r.1.first) = q.1 ∧ r.2.map norm = q.2 from
    H ops f [] [] h rfl
  intro ops
  induction ops with
  | nil => intro f0 o1 o2 h0 ho; exact ⟨h0, rfl, rfl, ho⟩
  | cons op ops ih =>
    intro f0 o1 o2 h0 ho
    obtain ⟨s1, s2, s3, s4⟩ := step_refines f0 h0 op
    have := ih (f0.step op).1 (o1 ++ [(f0.step op).2]) (o2 ++ [(dStep f0.len f0.abs f0.first op).2]) s1
      (by simp [ho, s4])
    simp only [List.foldl_cons]
    rw [s2, s3] at this
    exact this

/-- results of pushing `xs` one after the other -/
def pushAll (f : Fixed α) : List α → Fixed α × List α
  | [] => (f, [])
  | x :: xs => ((pushAll (f.push x).1 xs).1, (f.push x).2 :: (pushAll (f.push x).1 xs).2)

/-- the delay line as a whole: pushing `xs` returns the first `|xs|` elements of `abs ++ xs` and
    leaves the last `N` -/
theorem pushAll_spec (xs : List α) (f : Fixed α) (h : f.Inv) :
    (pushAll f xs).1.Inv ∧ (pushAll f xs).2 = (f.abs ++ xs).take xs.length ∧
    (pushAll f xs).1.abs = (f.abs ++ xs).drop xs.length := by
  induction xs generalizing f with
  | nil => simp [pushAll, h]
  | cons x xs ih =>
    obtain ⟨i1, i2, i3⟩ := ih (f.push x).1 (push_inv f x h)
    obtain ⟨p1, p2⟩ := push_refines f x h
    have hpos : f.abs ≠ [] := by
      intro e; have := abs_length f; have := len_pos f h; rw [e] at *; simp at *; omega
    obtain ⟨a, l, hal⟩ := List.exists_cons_of_ne_nil hpos
    rw [hal] at p1 p2
    simp only [List.tail_cons, List.head?_cons, Option.some.injEq] at p1 p2
    simp only [pushAll]
    refine ⟨i1, ?_, ?_⟩
    · rw [i2, p1, p2, hal]; simp
    · rw [i3, p1, hal]; simp

/-- *"so a push returns exactly the value pushed N pushes earlier (or the initial content)"*, for
    an arbitrary push number `k` (0-based) from an arbitrary valid state: the `k`-th push returns
    initial element `k` while `k < N`, afterwards the value pushed `N` pushes earlier -/
theorem kth_push_returns (xs : List α) (f : Fixed α) (h : f.Inv) (k : Nat) (hk : k < xs.length) :
    (pushAll f xs).2[k]? = if k < f.len then f.abs[k]? else xs[k - f.len]? := by
  rw [(pushAll_spec xs f h).2.1, List.getElem?_take, List.getElem?_append, abs_length]
  simp [hk]

/-- all slot indices `Fixed` dereferences (unchecked in `push`, checked in `get`/`get_mut`) are
    inside the slice, and `split_at(first)` is in range -/
theorem accesses_in_bounds (f : Fixed α) (h : f.Inv) (op : FOp α) :
    (∀ i ∈ f.stepAcc op, i < f.data.length) ∧ (∀ p ∈ f.stepChecks op, p.1 ≤ p.2) := by
  constructor
  · cases op with
    | push x => simpa [Fixed.stepAcc, Fixed.Inv, Fixed.len] using h
    | get j => simp only [Fixed.stepAcc, Fixed.wrapped, List.mem_singleton]; intro i hi; subst hi; exact Nat.mod_lt _ (by unfold Fixed.Inv at h; omega)
    | getMut j x => simp only [Fixed.stepAcc, Fixed.wrapped, List.mem_singleton]; intro i hi; subst hi; exact Nat.mod_lt _ (by unfold Fixed.Inv at h; omega)
    | extend xs =>
      simp only [Fixed.stepAcc]
      induction xs generalizing f with
      | nil => simp [Fixed.extendAcc]
      | cons x xs ih =>
        intro i hi
        simp only [Fixed.extendAcc, List.mem_cons] at hi
        rcases hi with rfl | hi
        · exact h
        · have := ih (f.push x).1 (push_inv f x h) i hi
          have hm := push_len f x
          unfold Fixed.len at hm; omega
    | _ => simp [Fixed.stepAcc]
  · have hle : f.first ≤ f.len := Nat.le_of_lt h
    cases op <;> simp [Fixed.stepChecks] <;> exact hle

end Fixed

/-! ## Non-vacuity: every hypothesis is satisfiable on a concrete, wrapped, non-trivial state -/

/-- a valid Bounded state whose live window wraps (start = 2 of 3, two live elements) -/
example : (⟨[20, 99, 10], 2, 2⟩ : Bounded Nat).Inv ∧ (⟨[20, 99, 10], 2, 2⟩ : Bounded Nat).abs = [10, 20] := by
  decide

/-- a history through every kind of operation from that wrapped state, computed by the model;
    `run_refines` applies to it (its hypothesis `Inv` holds by the example above) -/
example :
    ((⟨[20, 99, 10], 2, 2⟩ : Bounded Nat).run
      [.slices, .push 30, .push 40, .get 0, .pop, .getMut 1 7, .slices, .iter, .isFull, .drain 1, .len, .index 5]).2
    = [.pair [10] [20], .opt none, .opt (some 10), .opt (some 20), .opt (some 20), .opt (some 40), .pair [30, 7] [],
       .list [30, 7], .bool false, .list [30], .nat 1, .panic] := by
  decide

example :
    (qRun 3 [10, 20]
      [.slices, .push 30, .push 40, .get 0, .pop, .getMut 1 7, .slices, .iter, .isFull, .drain 1, .len, .index (5 : Nat)]).2
    = [.list [10, 20], .opt none, .opt (some 10), .opt (some 20), .opt (some 20), .opt (some 40), .list [30, 7],
       .list [30, 7], .bool false, .list [30], .nat 1, (.panic : Obs Nat)] := by
  decide

/-- a valid Fixed state with first ≠ 0; more than N pushes: each returns what entered N pushes earlier -/
example : (⟨[3, 1, 2], 1⟩ : Fixed Nat).Inv ∧ (⟨[3, 1, 2], 1⟩ : Fixed Nat).abs = [1, 2, 3] ∧
    (Fixed.pushAll (⟨[3, 1, 2], 1⟩ : Fixed Nat) [4, 5, 6, 7, 8]).2 = [1, 2, 3, 4, 5] ∧
    (Fixed.pushAll (⟨[3, 1, 2], 1⟩ : Fixed Nat) [4, 5, 6, 7, 8]).1.abs = [6, 7, 8] := by
  decide

example :
    ((⟨[3, 1, 2], 1⟩ : Fixed Nat).run [.get 4, .setFirst 5, .slices, .iter, .iterLoop 5, .push 9, .getMut 3 0, .iter]).2
    = [.opt (some 2), .unit, .pair [2] [3, 1], .list [2, 3, 1], .list [2, 3, 1, 2, 3], .opt (some 2),
       .opt (some 3), .list [0, 1, 9]] := by
  decide

end Dasp.Props.C06
