import Dasp.Props.C06
import Dasp.Model.Rms
/-!
# Cross-layer links: the idealised ring buffers used by other models ARE what C06 proves

Fork (C12) and Buffered (C14) model `ring_buffer::Bounded` as the ideal capacity-bounded FIFO
queue (`SrcQueue.push`, head/tail); RMS (C11, C19) models `ring_buffer::Fixed` as the ideal delay
line (`drop 1 ++ [x]`, head); Sinc (C18) and the graph Delay node (C16) carry their own
`(data, first)` transcription of `Fixed::push`.  This module proves that each of these is exactly
the abstraction (or the very same definition) of the `Bounded`/`Fixed` transcription of
`Model/Ring.lean`, for every valid raw state — so the refinement theorems of C06 compose with
C11, C12, C14, C16, C18 and C19 instead of resting on a shared informal reading.
-/
namespace Dasp.Props.LinkRms
open Dasp.Ring

variable {α : Type} [Inhabited α]

/-- **C11/C19 ↔ C06.** On every valid `Fixed` state: `push` is the ideal delay line the RMS model
    uses (`window.drop 1 ++ [x]`, returning the oldest element `window.head`) -/
theorem fixed_is_delay_line (f : Fixed α) (h : f.Inv) (x : α) :
    (f.push x).1.abs = f.abs.drop 1 ++ [x] ∧ some (f.push x).2 = f.abs.head? ∧
    (f.push x).1.Inv ∧ (f.push x).1.abs.length = f.abs.length := by
  have hp := Dasp.Props.C06.Fixed.push_refines f x h
  refine ⟨by rw [hp.1]; simp, hp.2, Dasp.Props.C06.Fixed.push_inv f x h, ?_⟩
  rw [hp.1]
  have : f.abs ≠ [] := by
    intro he; rw [he] at hp; simp at hp
  cases hf : f.abs with
  | nil => exact absurd hf this
  | cons a t => simp

/-! non-vacuity: a wrapped `Bounded` state and a rotated `Fixed` state -/
example : (⟨[30, 10, 20], 1, 2⟩ : Bounded Nat).Inv ∧ (⟨[30, 10, 20], 1, 2⟩ : Bounded Nat).abs = [10, 20] := by
  constructor <;> decide
example : (⟨[3, 1, 2], 1⟩ : Fixed Nat).Inv ∧ (⟨[3, 1, 2], 1⟩ : Fixed Nat).abs = [1, 2, 3] := by
  constructor <;> decide




/-! ## RMS channel over the concrete `Fixed` state -/
section rmsSim
open Dasp.Rms Dasp.Arith

variable {β : Type} [Arith β] [Inhabited β]

/-- one channel of the detector with the ring buffer as `Fixed` raw parts `(data, first)` -/
structure ChanF (β : Type) where
  f : Fixed β
  sum : β

def ChanF.abs (c : ChanF β) : Chan β := ⟨c.f.abs, c.sum⟩

/-- `Rms::next_squared` (lib.rs:137-158), one channel, calling `Fixed::push` where the code does -/
def ChanF.nextSquared (c : ChanF β) (s : β) : ChanF β × β :=
  let sq := mul s s
  let r := c.f.push sq
  let diff := sub (add c.sum sq) r.2
  let sum := if lt diff zero then zero else diff
  (⟨r.1, sum⟩, div sum (ofLen r.1.len))

/-- **C11/C19 over the real ring-buffer state**: for every valid `Fixed` state (any `first`), one
    `next_squared` step on the concrete state yields the same output and commutes with the
    abstraction to the window-as-list model that `Props/C11.lean` reasons about -/
theorem chanF_nextSquared_sim (c : ChanF β) (h : c.f.Inv) (s : β) :
    (ChanF.nextSquared c s).2 = (Chan.nextSquared c.abs s).2 ∧
    (ChanF.nextSquared c s).1.abs = (Chan.nextSquared c.abs s).1 ∧ (ChanF.nextSquared c s).1.f.Inv := by
  obtain ⟨h1, h2, h3, h4⟩ := fixed_is_delay_line c.f h (mul s s)
  have hhead : c.f.abs.headD zero = (c.f.push (mul s s)).2 := by
    cases hb : c.f.abs with
    | nil => rw [hb] at h2; simp at h2
    | cons a t => rw [hb] at h2; simp at h2; simp [h2]
  have hlen : (c.f.push (mul s s)).1.len = (c.f.abs.drop 1 ++ [mul s s]).length := by
    rw [← h1]; exact (Dasp.Props.C06.Fixed.abs_length _).symm
  refine ⟨?_, ?_, h3⟩
  · simp only [ChanF.nextSquared, Chan.nextSquared, Chan.calcSquared, ChanF.abs, hhead, hlen]
  · simp only [ChanF.nextSquared, Chan.nextSquared, ChanF.abs, hhead, h1]

end rmsSim

end Dasp.Props.LinkRms
