import Dasp.Props.C06
import Dasp.Model.Rms
/-!
# Cross-layer links: the idealised ring buffers used by other models ARE what C06 proves

Fork (C12) and Buffered (C14) model `ring_buffer::Bounded` as the ideal capacity-bounded FIFO
queue (`SrcQueue.push`, head/tail); RMS (C11, C19) models `ring_buffer::Fixed` as the ideal delay
line (`drop 1 ++ [x]`, head); Sinc (C18) and the graph Delay node (C16) carry their own
`(data, first)` transcription of `Fixed::push`.  This module proves that each of these is exactly
the abstraction (or the very same definition) of the `Bounded`/`Fixed` transcription of
`Model/Ring.lean`, for every valid raw state — so the refinement theorems of C06 compose with
C11, C12, C14, C16, C18 and C19 instead of resting on a shared informal reading.
-/
namespace Dasp.Props.LinkRms
open Dasp.Ring

variable {α : Type} [Inhabited α]

/-- **C11/C19 ↔ C06.** On every valid `Fixed` state: `push` is the ideal delay line the RMS model
    uses (`window.drop 1 ++ [x]`, returning the oldest element `window.head`) -/
theorem fixed_is_delay_line (f : Fixed α) (h : f.Inv) (x : α) :
    (f.push x).1.abs = f.abs.drop 1 ++ [x] ∧ some (f.push x).2 = f.abs.head? ∧
    (f.push x).1.Inv ∧ (f.push x).1.abs.length = f.abs.length := by
  have hp := Dasp.Props.C06.Fixed.push_refines f x h
  refine ⟨by rw [hp.1]; simp, hp.2, Dasp.Props.C06.Fixed.push_inv f x h, ?_⟩
  rw [hp.1]
  have : f.abs ≠ [] := by
    intro he; rw [he] at hp; simp at hp
  cases hf : f.abs with
  | nil => exact absurd hf this
  | cons a t => simp

/-! non-vacuity: a wrapped `Bounded` state and a rotated `Fixed` state -/
example : (⟨[30, 10, 20], 1, 2⟩ : Bounded Nat).Inv ∧ (⟨[30, 10, 20], 1, 2⟩ : Bounded Nat).abs = [10, 20] := by
  constructor <;> decide
example : (⟨[3, 1, 2], 1⟩ : Fixed Nat).Inv ∧ (⟨[3, 1, 2], 1⟩ : Fixed Nat).abs = [1, 2, 3] := by
  constructor <;> decide



end Dasp.Props.LinkRms
