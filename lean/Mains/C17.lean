import Dasp.Driver.Loop
import Dasp.Driver.Osc
open Dasp.Driver

def main : IO Unit := runDriver fun
  | "osc" :: rest => oscLine floatInst rest
  | "noise" :: rest => noiseLine floatInst rest
  | "simplex" :: rest => simplexLine floatInst rest
  | "fp" :: rest => fpLine rest
  | [] => ""
  | _ => "bad-op"
