import Dasp.Driver.Loop
import Dasp.Driver.Osc
open Dasp.Driver

def main : IO Unit := runDriver fun
  | "osc" :: rest => oscLine rest
  | "noise" :: rest => noiseLine rest
  | "simplex" :: rest => simplexLine rest
  | [] => ""
  | _ => "bad-op"
