import Dasp.Driver.Loop
import Dasp.Driver.Alloc
open Dasp.Driver

def main : IO Unit := runDriver fun
  | "alloc" :: rest => allocLine rest
  | [] => ""
  | _ => "bad-op"
