import Dasp.Driver.Loop
import Dasp.Driver.Graph
open Dasp.Driver

def main : IO Unit := runDriver fun
  | "proc" :: rest => procLine rest
  | [] => ""
  | _ => "bad-op"
