import Dasp.Driver.Loop
import Dasp.Driver.Signal
open Dasp.Driver

def main : IO Unit := runDriver fun
  | "adapt" :: rest => sigLine rest
  | "exhaust" :: rest => sigLine rest
  | [] => ""
  | _ => "bad-op"
