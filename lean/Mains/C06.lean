import Dasp.Driver.Loop
import Dasp.Driver.Ring
open Dasp.Driver

def main : IO Unit := runDriver fun
  | "bounded" :: rest => boundedLine rest
  | "fixed" :: rest => fixedLine rest
  | [] => ""
  | _ => "bad-op"
