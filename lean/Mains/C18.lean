import Dasp.Driver.Loop
import Dasp.Driver.Sinc
open Dasp.Driver

def main : IO Unit := runDriver fun
  | "sinc" :: rest => Sn.sincLine rest
  | "sconv" :: rest => Sn.sconvLine rest
  | [] => ""
  | _ => "bad-op"
