import Dasp.Driver.Loop
import Dasp.Driver.Conv
open Dasp.Driver

def main : IO Unit := runDriver fun
  | "conv" :: rest => convLine rest
  | [] => ""
  | _ => "bad-op"
