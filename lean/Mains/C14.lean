import Dasp.Driver.Loop
import Dasp.Driver.Buffered
open Dasp.Driver

def main : IO Unit := runDriver fun
  | "buf" :: rest => bufLine rest
  | [] => ""
  | _ => "bad-op"
