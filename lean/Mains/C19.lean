import Dasp.Driver.Loop
import Dasp.Driver.Envelope
open Dasp.Driver

def main : IO Unit := runDriver fun
  | "rect" :: rest => rectLine rest
  | "env" :: rest => envLine false rest
  | "envsig" :: rest => envLine true rest
  | [] => ""
  | _ => "bad-op"
