import Dasp.Driver.Loop
import Dasp.Driver.Bus
open Dasp.Driver

def main : IO Unit := runDriver fun
  | "bus" :: rest => busLine rest
  | [] => ""
  | _ => "bad-op"
