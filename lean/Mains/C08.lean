import Dasp.Driver.Loop
import Dasp.Driver.Converter
open Dasp.Driver

def main : IO Unit := runDriver fun
  | "conv" :: rest => Cv.convLine rest
  | [] => ""
  | _ => "bad-op"
