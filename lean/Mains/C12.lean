import Dasp.Driver.Loop
import Dasp.Driver.Fork
open Dasp.Driver

def main : IO Unit := runDriver fun
  | "fork" :: rest => forkLine rest
  | [] => ""
  | _ => "bad-op"
