import Dasp.Driver.Loop
import Dasp.Driver.Sample
open Dasp.Driver

def main : IO Unit := runDriver fun
  | "addamp" :: rest => sampleLine "addamp" rest
  | "mulamp" :: rest => sampleLine "mulamp" rest
  | "fr" :: rest => frameLine rest
  | "fromfn" :: rest => genericFrameLine "fromfn" rest
  | "fromsamples" :: rest => genericFrameLine "fromsamples" rest
  | "zipmap" :: rest => genericFrameLine "zipmap" rest
  | "map" :: rest => genericFrameLine "map" rest
  | [] => ""
  | _ => "bad-op"
