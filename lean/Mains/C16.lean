import Dasp.Driver.Loop
import Dasp.Driver.Nodes
open Dasp.Driver

def main : IO Unit := runDriver fun
  | "node" :: rest => nodeLine rest
  | [] => ""
  | _ => "bad-op"
