import Dasp.Driver.Loop
import Dasp.Driver.Rms
open Dasp.Driver

def main : IO Unit := runDriver fun
  | "rms" :: rest => rmsLine rest
  | "rms_nostd" :: rest => rmsLine rest
  | "sig" :: rest => sigLine rest
  | "sqrt" :: rest => sqrtLine rest
  | "sqrt_nostd" :: rest => sqrtLine rest
  | [] => ""
  | _ => "bad-op"
