import Dasp.Driver.Loop
import Dasp.Driver.Window
open Dasp.Driver

def main : IO Unit := runDriver fun
  | "fn" :: rest => Win.fnLine rest
  | "win" :: rest => Win.winLine rest
  | "wdr" :: rest => Win.wdrLine rest
  | [] => ""
  | _ => "bad-op"
