import Dasp.Driver.Loop
open Dasp.Driver

-- stub: replaced when property C20 is wired in
def main : IO Unit := runDriver fun
  | [] => ""
  | _ => "bad-op"
