import Dasp.Driver.Loop
import Dasp.Driver.Types
open Dasp.Driver

def main : IO Unit := runDriver fun
  | "ty" :: rest => tyLine rest
  | [] => ""
  | _ => "bad-op"
