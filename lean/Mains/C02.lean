import Dasp.Driver.Loop
import Dasp.Driver.ConvFloat
open Dasp.Driver

def main : IO Unit := runDriver fun
  | "i2f" :: rest => i2fLine rest
  | "f2i" :: rest => f2iLine rest
  | "f2f" :: rest => f2fLine rest
  | [] => ""
  | _ => "bad-op"
