import Dasp.Driver.Loop
import Dasp.Driver.Slice
open Dasp.Driver

def main : IO Unit := runDriver fun
  | "view" :: rest => viewLine rest
  | "fview" :: rest => fviewLine rest
  | "box" :: rest => boxLine rest
  | "fbox" :: rest => fboxLine rest
  | "ops" :: rest => opsLine rest
  | [] => ""
  | _ => "bad-op"
