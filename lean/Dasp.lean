-- Root of the library: every property module (append one line per property).
import Dasp.Props.C01
import Dasp.Props.C06
import Dasp.Props.C12
import Dasp.Props.C13
import Dasp.Props.C09
import Dasp.Props.C14
import Dasp.Props.C20
import Dasp.Props.C04
import Dasp.Props.C05
import Dasp.Props.C16
import Dasp.Props.C17
import Dasp.Props.C11
import Dasp.Props.C19
import Dasp.Props.C15
import Dasp.Props.C10
import Dasp.Props.C08
import Dasp.Props.C18
