import re, sys
src = open('/repo/dasp_sample/src/conv.rs').read()
src_nc = re.sub(r'//[^\n]*', '', src)
blocks = re.findall(r'conversions!\((\w+),\s*(\w+)\s*\{(.*?)\n\}\);', src_nc, re.S)
TOK = re.compile(r'\s*(?:(\d[\d_]*\.\d[\d_]*|\d[\d_]*)|([A-Za-z_][A-Za-z_0-9]*)|(::|<<|>>|[-+*/<>(){}.,]))')
def tokenize(s):
    pos=0; out=[]; s=s.strip()
    while pos < len(s):
        m=TOK.match(s,pos)
        if not m: raise Exception("tok fail at %r"%s[pos:pos+20])
        pos=m.end()
        if m.group(1): out.append(('num',m.group(1).replace('_','')))
        elif m.group(2): out.append(('id',m.group(2)))
        else: out.append(('op',m.group(3)))
    return out
class P:
    def __init__(s,toks): s.t=toks; s.i=0
    def peek(s): return s.t[s.i] if s.i<len(s.t) else ('eof','')
    def eat(s,k=None,v=None):
        t=s.peek()
        if (k and t[0]!=k) or (v and t[1]!=v): raise Exception("expected %s %s got %s at %d"%(k,v,t,s.i))
        s.i+=1; return t
    def expr(s): return s.cmp()
    def cmp(s):
        a=s.shift()
        while s.peek() in (('op','<'),('op','>')):
            op=s.eat()[1]; b=s.shift(); a=('cmp',op,a,b)
        return a
    def shift(s):
        a=s.add()
        while s.peek() in (('op','<<'),('op','>>')):
            op=s.eat()[1]; b=s.add(); a=('shift',op,a,b)
        return a
    def add(s):
        a=s.mul()
        while s.peek() in (('op','+'),('op','-')):
            op=s.eat()[1]; b=s.mul(); a=('arith',op,a,b)
        return a
    def mul(s):
        a=s.cast()
        while s.peek() in (('op','*'),('op','/')):
            op=s.eat()[1]; b=s.cast(); a=('arith',op,a,b)
        return a
    def cast(s):
        a=s.unary()
        while s.peek()==('id','as'):
            s.eat(); t=s.eat('id')[1]; a=('as',t,a)
        return a
    def unary(s):
        if s.peek()==('op','-'):
            s.eat(); return ('neg',s.unary())
        return s.postfix()
    def postfix(s):
        a=s.atom()
        while s.peek()==('op','.'):
            s.eat(); m=s.eat('id')[1]; s.eat('op','('); s.eat('op',')'); a=('method',m,a)
        return a
    def atom(s):
        t=s.peek()
        if t==('op','('):
            s.eat(); e=s.expr(); s.eat('op',')'); return e
        if t==('id','if'):
            s.eat(); c=s.expr(); s.eat('op','{'); a=s.expr(); s.eat('op','}'); s.eat('id','else'); s.eat('op','{'); b=s.expr(); s.eat('op','}'); return ('if',c,a,b)
        if t[0]=='num': s.eat(); return ('lit',t[1])
        if t[0]=='id':
            path=[s.eat()[1]]
            while s.peek()==('op','::'):
                s.eat(); path.append(s.eat('id')[1])
            if s.peek()==('op','('):
                s.eat(); arg=s.expr(); s.eat('op',')'); return ('call',path,arg)
            return ('var',path)
        raise Exception("atom? %s"%(t,))
REP={'i8':'i8','i16':'i16','I24':'i32','i32':'i32','I48':'i64','i64':'i64','u8':'u8','u16':'u16','U24':'i32','u32':'u32','U48':'i64','u64':'u64'}
MOD={'i8':'i8','i16':'i16','I24':'i24','i32':'i32','I48':'i48','i64':'i64','u8':'u8','u16':'u16','U24':'u24','u32':'u32','U48':'u48','u64':'u64'}
INTS=list(REP.keys())
funcs={}
for ty,mod,body in blocks:
    toks=tokenize(body); p=P(toks)
    while p.peek()[0]!='eof':
        v=p.eat('id')[1]; fn=p.eat('id')[1]; p.eat('op','{'); e=p.expr(); p.eat('op','}')
        funcs[(mod,fn)]=(ty,e)
# typed translation: returns (lean_string, machine type or None for untyped literal or ('custom',T))
def tr(e, srcty, mod):
    k=e[0]
    if k=='var':
        assert e[1]==['s']; 
        if srcty in ('I24','U24','I48','U48'): return ('.var', ('custom',srcty))
        return ('.var', srcty)
    if k=='lit': return ('(.lit %s)'%e[1], None)
    if k=='method':
        assert e[1]=='inner'; a,t=tr(e[2],srcty,mod); assert t[0]=='custom'; return (a, REP[t[1]])
    if k=='as':
        a,t=tr(e[2],srcty,mod); assert t is not None and not isinstance(t,tuple)
        return ('(.cast .%s %s)'%(e[1],a), e[1])
    if k in('arith','shift'):
        a,ta=tr(e[2],srcty,mod); b,tb=tr(e[3],srcty,mod)
        if k=='shift':
            assert tb is None; kk=e[3][1]
            return ('(.%s .%s %s %s)'%('shl' if e[1]=='<<' else 'shr', ta, a, kk), ta)
        t = ta if ta is not None else tb
        assert t is not None and (ta is None or tb is None or ta==tb), (e,ta,tb)
        op={'+':'add','-':'sub'}[e[1]]
        return ('(.%s .%s %s %s)'%(op,t,a,b), t)
    if k=='cmp':
        raise Exception('cmp outside if')
    if k=='if':
        c=e[1]; assert c[0]=='cmp' and c[1]=='<'
        a,ta=tr(c[2],srcty,mod); b,tb=tr(c[3],srcty,mod)
        x,tx=tr(e[2],srcty,mod); y,ty_=tr(e[3],srcty,mod); assert tx==ty_
        return ('(.ifLt %s %s %s %s)'%(a,b,x,y), tx)
    if k=='call':
        path=e[1]
        if path[-1]=='new_unchecked':
            a,t=tr(e[2],srcty,mod); T=path[0]; assert t==REP[T],(t,T)
            return ('(.newUnchecked .%s %s)'%(MOD[T],a), ('custom',T))
        # sibling or super:: call
        if path[0]=='super': m=path[1]; fn=path[2]
        else: m=mod; fn=path[0]
        a,t=tr(e[2],srcty,mod)
        callee_ty, callee = funcs[(m,fn)]
        dst = fn[3:]
        dstT = {v:k for k,v in MOD.items()}[dst]
        rt = ('custom',dstT) if dstT in ('I24','U24','I48','U48') else dstT
        return ('(.call %s_%s %s)'%(m,fn,a), rt)
    raise Exception(k)
out=['import Proto.Int','namespace Proto.Gen','open Proto']
order=[]
done=set()
def emit(key):
    if key in done: return
    ty,e=funcs[key]
    # emit callees first
    def deps(e):
        if isinstance(e,tuple):
            if e[0]=='call' and e[1][-1]!='new_unchecked':
                p=e[1]; k2=(p[1],p[2]) if p[0]=='super' else (key[0],p[0]); emit(k2)
            for c in e[1:]:
                if isinstance(c,(tuple,list)): deps(c)
    deps(e)
    s,_=tr(e,ty,key[0])
    out.append('def %s_%s : Expr := %s'%(key[0],key[1],s)); done.add(key)
intmods=[MOD[t] for t in INTS]
for (m,fn) in funcs:
    if m in intmods and fn[3:] in intmods: emit((m,fn))
out.append('def table : Fmt → Fmt → Expr')
for s in intmods:
    for d in intmods:
        if s!=d: out.append('  | .%s, .%s => %s_to_%s'%(s,d,s,d))
out.append('  | _, _ => .var')
out.append('end Proto.Gen')
open('/tmp/scratch/Proto/Proto/Gen.lean','w').write('\n'.join(out)+'\n')
print(len(done),'int->int functions emitted')

# ---- theorem file
def callees(key, acc):
    ty,e=funcs[key]
    def deps(e):
        if isinstance(e,tuple):
            if e[0]=='call' and e[1][-1]!='new_unchecked':
                p=e[1]; k2=(p[1],p[2]) if p[0]=='super' else (key[0],p[0])
                if k2 not in acc: acc.append(k2); callees(k2,acc)
            for c in e[1:]:
                if isinstance(c,(tuple,list)): deps(c)
    deps(e); return acc
th=['import Proto.Gen','namespace Proto.Gen','open Proto','''
macro "conv_tac" : tactic => `(tactic|
  (simp only [Fmt.inRange, Fmt.lo, Fmt.hi] at *
   simp [val, ok, specConv, ITy.inRange, Fmt.inRange, ITy.wrap]
   (try (repeat' constructor)) <;> (intros; (try split) <;> omega)))
''']
for s in intmods:
    for d in intmods:
        if s==d: continue
        key=(s,'to_'+d)
        names=' '.join('%s_%s'%k for k in [key]+callees(key,[]))
        th.append('theorem %s_to_%s_spec (v : Int) (h : Fmt.inRange .%s v) : ok v %s_to_%s ∧ val v %s_to_%s = specConv .%s .%s v := by\n  unfold %s; conv_tac'%(s,d,s,s,d,s,d,s,d,names))
th.append('end Proto.Gen')
open('/tmp/scratch/Proto/Proto/Thm.lean','w').write('\n'.join(th)+'\n')
