#!/usr/bin/env python3
"""Regenerates MANIFEST.json from props/*.json (one file per claimed property)."""
import json, glob, os
V = os.path.dirname(os.path.abspath(__file__))
props = [json.loads(l) for l in open(os.path.join(V, 'properties.jsonl'))]
cfgs = {}
for f in sorted(glob.glob(os.path.join(V, 'props', 'C*.json'))):
    c = json.load(open(f)); cfgs[c['id']] = c
claimed = [p['id'] for p in props if p['id'] in cfgs and cfgs[p['id']].get('claimed', True)]
na = []
for p in props:
    if p['id'] not in claimed:
        reason = cfgs.get(p['id'], {}).get('not_applicable_reason') or 'not claimed yet: model/proofs/correspondence for this property are still being built in this round (see DESIGN.md build log); nothing about the technique rules it out'
        na.append(dict(property_id=p['id'], reason=reason))
checks = []
for pid in claimed:
    c = cfgs[pid]; m = c['manifest']
    checks.append(dict(property_id=pid, quick_cmd='./check %s --tier quick' % pid, thorough_cmd='./check %s --tier thorough' % pid,
                       evidence_file='evidence/%s.json' % pid, replay_cmd_template='./check %s --replay {path}' % pid,
                       engine='lean-proof',
                       level_claimed=dict(category=c.get('level', 'proof'), text=m['text'], design_ref=m.get('design_ref', 'DESIGN.md §7 ' + pid)),
                       level_note=m['note'], technique=m['technique']))
man = dict(version=1, setup_cmd='./setup.sh',
  hooks=dict(guard='rustaudio_dasp_verif',
             enable='RUSTFLAGS="--cfg rustaudio_dasp_verif" (set in /verif/harness/.cargo/config.toml for the harness build, which compiles /repo\'s crates as path dependencies)',
             baseline_off_cmd='cd /repo && cargo test --workspace --no-fail-fast --offline',
             source_commits=['b13923d'], add_only=True),
  engines=[
   dict(name='lean-proof', path='lean/', serves_properties=claimed, kind_free_text='Lean 4 theorems about a model of the code (lake build + kernel, axiom audit via Lean.collectAxioms, leanchecker in the thorough tier)'),
   dict(name='translator', path='translator/', serves_properties=[p for p in claimed if cfgs[p].get('translators')], kind_free_text='regenerates the Lean model of expression-level code from /repo\'s source on every run'),
   dict(name='correspondence', path='harness/', serves_properties=[p for p in claimed if cfgs[p].get('streams')], kind_free_text='Rust harness calling the real code in-process vs the Lean driver executing the model\'s definitions on the same request lines; independent property oracles on the implementation'),
   dict(name='orchestrator', path='check', serves_properties=claimed, kind_free_text='python3 script running the steps, writing evidence, replays and the exit code')],
  checks=checks, not_applicable=na,
  notes='Technique family: machine-checked proof in Lean 4. Fix commits and known findings: known_findings.json. See DESIGN.md.')
json.dump(man, open(os.path.join(V, 'MANIFEST.json'), 'w'), indent=1)
print('claimed:', claimed)
