#!/bin/sh
# False-alarm soak: every claimed check, many seeds, unchanged tree. Prints only non-zero exits.
# usage: ./soak.sh <first-seed> <last-seed> [tier]   (evidence files are rewritten; re-run seed 1 afterwards)
cd "$(dirname "$0")"
tier=${3:-quick}
for s in $(seq $1 $2); do
  for p in $(python3 -c "import json; print(' '.join(c['property_id'] for c in json.load(open('MANIFEST.json'))['checks']))"); do
    out=$(VERIF_SEED=$s ./check $p --tier $tier 2>&1); rc=$?
    if [ $rc -ne 0 ]; then echo "seed=$s $p rc=$rc $(echo "$out" | grep -E 'VIOLATION|CHECK-ERROR' | head -2)"; fi
  done
  echo "seed $s done $(date +%H:%M)"
done
