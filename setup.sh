#!/bin/sh
# Build the verification framework from files on disk only (offline).
# Every ./check run rebuilds what it needs from /repo's working tree anyway; this warms the caches.
cd "$(dirname "$0")"
export CARGO_NET_OFFLINE=true
export CARGO_TARGET_DIR="$(pwd)/.build/cargo"
mkdir -p .build evidence replays
for t in translator/gen_*.py; do python3 "$t" || echo "setup: translator $t failed"; done
fail=0
(cd lean && lake build Dasp.Machine.Int Dasp.Machine.FP) || fail=1
for p in props/C*.json; do
  id=$(basename "$p" .json); lc=$(echo "$id" | tr 'A-Z' 'a-z')
  (cd lean && lake build "Dasp.Props.$id" 2>&1 | tail -3) || echo "setup: lake build Dasp.Props.$id failed"
  if grep -q "driver_$lc" lean/lakefile.toml; then (cd lean && lake build "driver_$lc" 2>&1 | tail -1) || echo "setup: driver_$lc failed"; fi
  if [ -f "harness/src/bin/$lc.rs" ]; then
    (cd harness && cargo build --offline --release --bin "$lc" 2>&1 | tail -1) || echo "setup: harness $lc (release) failed"
  fi
done
[ $fail = 0 ] && echo "setup ok"
exit $fail
