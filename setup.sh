#!/bin/sh
# Build the verification framework from files on disk only (offline).
set -e
cd "$(dirname "$0")"
export CARGO_NET_OFFLINE=true
mkdir -p .build evidence replays
for t in translator/gen_*.py; do python3 "$t"; done
(cd lean && lake build Dasp driver)
(cd harness && cargo build --offline --release && cargo build --offline)
echo "setup ok"
