#!/bin/sh
# Runs every claimed check (quick tier by default) and prints a one-line summary each.
cd "$(dirname "$0")"
tier=${1:-quick}
for p in $(python3 -c "import json; print(' '.join(c['property_id'] for c in json.load(open('MANIFEST.json'))['checks']))"); do
  start=$(date +%s)
  out=$(./check $p --tier $tier 2>&1); rc=$?
  end=$(date +%s)
  echo "$p rc=$rc $((end-start))s $(echo "$out" | grep -E 'VIOLATION|KNOWN-FINDING|CHECK-ERROR|held' | tr '\n' ' ' | cut -c1-200)"
done
