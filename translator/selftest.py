#!/usr/bin/env python3
"""Small behaviour-preserving source edits must keep every translator at 0 errors (and, with --lean, keep the
generated theorems provable). Usage: selftest.py [--lean]"""
import os, sys, shutil, subprocess, json, re
HERE=os.path.dirname(os.path.abspath(__file__))
REPO='/repo'; TMP='/verif/.build/selftest/repo'; TR=os.environ.get('SELFTEST_TR', HERE); LEAN='/verif/lean'
GENOUT='/verif/.build/selftest/gen'   # without --lean the generated files go to a scratch directory (a check may be running)
EDITS = {
 'conv-hex-literal': [('dasp_sample/src/conv.rs', '(s + 127 + 1) as u8', '(s + 0x7F + 1) as u8')],
 'conv-typed-float-literal': [('dasp_sample/src/conv.rs', 's as f32 / 128.0', 's as f32 / 128.0f32')],
 'conv-block-comment': [('dasp_sample/src/conv.rs', 's as f32 / 128.0', 's as f32 /* scale */ / 128.0')],
 'conv-let': [('dasp_sample/src/conv.rs', '    s to_u8 {\n        if s < 0 {', '    s to_u8 {\n        let neg = s;\n        if neg < 0 {', 1)],
 'conv-shift-literal': [('dasp_sample/src/conv.rs', '8_388_608.0', '(1u32 << 23) as f32', 1)],
 'conv-recip': [('dasp_sample/src/conv.rs', 's as f64 / 32_768.0', 's as f64 * (1.0 / 32_768.0)')],
 'types-shift-args': [('dasp_sample/src/types.rs', 'total: 16_777_216', 'total: 1 << 24')],
 'types-comment': [('dasp_sample/src/types.rs', 'fn wrap_overflow_once(self) -> Self {', 'fn wrap_overflow_once(self) -> Self { /* one period at most */')],
 'ops-decimal-bias': [('dasp_sample/src/ops.rs', '0x3f80_0000', '1_065_353_216')],
 'ops-div2': [('dasp_sample/src/ops.rs', '0x3f80_0000) >> 1', '0x3f80_0000) / 2')],
 'ops-isnan-or-early-return': [('dasp_sample/src/ops.rs', '''        if x >= 0.0 {
            f32::from_bits((x.to_bits() + 0x3f80_0000) >> 1)
        } else {
            f32::NAN
        }''', '''        if x.is_nan() || x < 0.0 { return f32::NAN; }
        let halved = (x.to_bits() + 0x3f80_0000) >> 1;
        f32::from_bits(halved)''')],
 'ops-inline-attr': [('dasp_sample/src/ops.rs', 'pub fn sqrt(x: f32) -> f32 {\n        if', '#[inline]\n    pub fn sqrt(x: f32) -> f32 {\n        if')],
 'osc-float-suffix': [('dasp_signal/src/lib.rs', '0.395 * (n0 + n1)', '0.395f64 * (n0 + n1)')],
 'osc-hex-prime': [('dasp_signal/src/lib.rs', 'const PRIME_1: u64 = 15_731;', 'const PRIME_1: u64 = 0x3D73;')],
 'osc-inline-attr': [('dasp_signal/src/lib.rs', 'fn noise_1(seed: u64) -> f64 {', '#[inline]\n        fn noise_1(seed: u64) -> f64 {')],
 'osc-rename-temp-saw-order': [('dasp_signal/src/lib.rs', 'phase * -2.0 + 1.0', '1.0_f64 - 2.0 * phase'),
                               ('dasp_signal/src/lib.rs', 'let x = (seed << 13) ^ seed;\n            1.0 - (x\n                .wrapping_mul(\n                    x.wrapping_mul(x)', 'let mixed = seed ^ (seed << 13u32);\n            1.0 - (mixed\n                .wrapping_mul(\n                    mixed.wrapping_mul(mixed)')],
 'osc-tau-and-wrapped-rename': [('dasp_signal/src/lib.rs', 'const PI_2: f64 = core::f64::consts::PI * 2.0;', 'const PI_2: f64 = core::f64::consts::TAU;'),
                                ('dasp_signal/src/lib.rs', 'let phase = self.next;\n        self.next = (self.next + self.step.step()) % rem;\n        phase', 'let current = self.next;\n        let advanced = current + self.step.step();\n        self.next = advanced % rem;\n        current')],
 'osc-comment': [('dasp_signal/src/lib.rs', 'let x = (seed << 13) ^ seed;', 'let x = (seed << 13) ^ seed; /* scramble */')],
 'osc-match-bool-and-zero-arm': [('dasp_signal/src/lib.rs', """        let phase = self.phase.next_phase();
        if phase < 0.5 {
            1.0
        } else {
            -1.0
        }""", """        match self.phase.next_phase() < 0.5 {
            true => 1.0,
            false => -1.0,
        }"""),
     ('dasp_signal/src/lib.rs', """                let mut grad = 1.0 + (h & 7) as f64;
                // Set a random sign for the gradient.
                if (h & 8) != 0 {
                    grad = -grad;
                }""", """                let magnitude = 1.0 + (h & 7) as f64;
                let grad = match h & 8 {
                    0 => magnitude,
                    _ => -magnitude,
                };"""),
     ('dasp_signal/src/lib.rs', 'PERM[(i as u8) as usize]', 'PERM[(i & 0xFF) as usize]')],
 'osc-noise-linear-chain-assoc-helper': [('dasp_signal/src/lib.rs', """            1.0 - (x
                .wrapping_mul(
                    x.wrapping_mul(x)
                        .wrapping_mul(PRIME_1)
                        .wrapping_add(PRIME_2),
                )
                .wrapping_add(PRIME_3)
                & 0x7fffffff) as f64
                / 1_073_741_824.0""", """            const MASK_31_BITS: u64 = (1 << 31) - 1;
            const TWO_POW_THIRTY: f64 = (1u64 << 30) as f64;
            let hashed = x.wrapping_mul(x).wrapping_mul(PRIME_1).wrapping_add(PRIME_2).wrapping_mul(x).wrapping_add(PRIME_3);
            1.0 - (hashed & MASK_31_BITS) as f64 / TWO_POW_THIRTY""")],
 'types-eq-as-shift': [('dasp_sample/src/types.rs', 'eq: 8_388_608,', 'eq: 1 << 23,')],
 'sample-table-comment': [('dasp_sample/src/lib.rs', 'impl_sample! {', 'impl_sample! { /* table */', 1)],
}
# edits that CHANGE behaviour: the translators must refuse them (or translate them faithfully so that a proof breaks)
REJECT = {
 'ops-guard-lets-nan-through': [('dasp_sample/src/ops.rs', '''        if x >= 0.0 {
            f32::from_bits((x.to_bits() + 0x3f80_0000) >> 1)
        } else {
            f32::NAN
        }''', '''        if x < 0.0 { return f32::NAN; }
        f32::from_bits((x.to_bits() + 0x3f80_0000) >> 1)''')],
 'osc-returns-new-phase': [('dasp_signal/src/lib.rs', 'self.next = (self.next + self.step.step()) % rem;\n        phase', 'self.next = (self.next + self.step.step()) % rem;\n        self.next')],
 'osc-no-wrap': [('dasp_signal/src/lib.rs', 'self.next = (self.next + self.step.step()) % rem;', 'self.next = self.next + self.step.step();')],
 'osc-simplex-corner': [('dasp_signal/src/lib.rs', 'let x1 = x0 - 1.0;', 'let x1 = x0 + 1.0;')],
 'osc-simplex-square-once': [('dasp_signal/src/lib.rs', 't1 *= t1;', 't1 *= t0;')],
 'osc-noise-add-for-mul': [('dasp_signal/src/lib.rs', 'x.wrapping_mul(x)\n', 'x.wrapping_add(x)\n')],
 'osc-match-arms-swapped': [('dasp_signal/src/lib.rs', """                if (h & 8) != 0 {
                    grad = -grad;
                }""", """                grad = match h & 8 {
                    0 => -grad,
                    _ => grad,
                };""")],
 'osc-match-bool-swapped': [('dasp_signal/src/lib.rs', """        if phase < 0.5 {
            1.0
        } else {
            -1.0
        }""", """        match phase < 0.5 {
            false => 1.0,
            true => -1.0,
        }""")],
 'osc-hash-low-7-bits': [('dasp_signal/src/lib.rs', 'PERM[(i as u8) as usize]', 'PERM[(i & 0x7F) as usize]')],
 'osc-noise-chain-wrong-order': [('dasp_signal/src/lib.rs', """.wrapping_mul(PRIME_1)
                        .wrapping_add(PRIME_2),""", """.wrapping_add(PRIME_2)
                        .wrapping_mul(PRIME_1),""")],
 'types-eq-plus-one': [('dasp_sample/src/types.rs', 'eq: 8_388_608,', 'eq: 8_388_608 + 1,')],
 'ops-guard-strict': [('dasp_sample/src/ops.rs', 'if x >= 0.0 {\n            f32::from_bits', 'if x > 0.0 {\n            f32::from_bits')],
}
NEEDS_LEAN = {'types-eq-plus-one'}
def run(cmd, env=None):
    e=dict(os.environ); e.update(env or {})
    p=subprocess.run(cmd, shell=True, stdout=subprocess.PIPE, stderr=subprocess.STDOUT, text=True, env=e)
    return p.returncode, p.stdout
lean = '--lean' in sys.argv
bad=0
for name, edits in list(EDITS.items()) + list(REJECT.items()):
    shutil.rmtree(TMP, ignore_errors=True)
    for d in ('dasp_sample/src','dasp_signal/src','dasp_frame/src','dasp_ring_buffer/src','dasp_slice/src','dasp_peak/src','dasp_rms/src','dasp_envelope/src','dasp_interpolate/src','dasp_window/src','dasp_graph/src'):
        shutil.copytree(os.path.join(REPO,d), os.path.join(TMP,d))
    ok=True
    for ed in edits:
        f,old,new=ed[0],ed[1],ed[2]; cnt=ed[3] if len(ed)>3 else None
        p=os.path.join(TMP,f); s=open(p).read()
        if old not in s: print(name,'EDIT NOT APPLICABLE:',old[:50]); ok=False; continue
        s=s.replace(old,new,cnt) if cnt else s.replace(old,new)
        open(p,'w').write(s)
    if not ok: bad+=1; continue
    errs=[]
    for t in sorted(os.listdir(TR)):
        if not t.startswith('gen_') or not t.endswith('.py'): continue
        rc,out=run('python3 %s/%s%s'%(TR,t,'' if lean else ' '+GENOUT), {'VERIF_REPO':TMP})
        last=out.strip().split('\n')[-1] if out.strip() else ''
        m=re.search(r'(\d+) (?:errors|uncovered)', last)
        if rc!=0 or not m or int(m.group(1))!=0: errs.append('%s: %s'%(t,last[:150]))
    if lean and not errs:
        rc,out=run('cd %s && lake build Dasp.Gen.ConvTable Dasp.Gen.ConvFloatThm Dasp.Props.C03 Dasp.Props.C11 Dasp.Props.C15 Dasp.Props.C17 2>&1 | grep -E "^error" | head -3'%LEAN)
        if out.strip(): errs.append('lean: '+out.strip()[:300])
    if name in REJECT and not lean and name in NEEDS_LEAN:
        print(name, 'skipped (refused only by a proof: run with --lean)'); continue
    if name in REJECT:
        print(name, 'OK (refused: %s)' % errs[0][:110] if errs else 'FAIL: a behaviour-changing edit was accepted'); bad += 0 if errs else 1
        continue
    print(name, 'OK' if not errs else 'FAIL '+' | '.join(errs)); bad+= 1 if errs else 0
print('failures:',bad)
