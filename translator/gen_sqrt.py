#!/usr/bin/env python3
"""Translator: /repo/dasp_sample/src/ops.rs  ->  lean/Dasp/Gen/Sqrt.lean (+ Gen/sqrt_manifest.json)

Reads the two `sqrt` functions of each of `pub mod f32` / `pub mod f64`:

  #[cfg(not(feature = "std"))]  pub fn sqrt(x: fN) -> fN {
      if x >= 0.0 { fN::from_bits((x.to_bits() + <BIAS>) >> <SHIFT>) } else { fN::NAN }
  }
  #[cfg(feature = "std")]       pub fn sqrt(x: fN) -> fN { x.sqrt() }

and emits the constants BIAS / SHIFT (decimal literals, so that `omega` sees numerals) read from
the source on this run.  The *meaning* of the shape lives in Lean (`Model/SqrtTrick.lean`:
`approxBits`).  Any other shape is a translation error (manifest "errors"): the constants are
emitted as 0, so the bit-trick theorems of `Props/C11.lean` stop checking — a broken obligation,
never silently skipped.
"""
import re, sys, json, os
sys.path.insert(0, os.path.dirname(os.path.abspath(__file__)))
from rustexpr import TranslationError, tokenize, P, subst, fold

REPO = os.environ.get('VERIF_REPO', '/repo')
OUT = sys.argv[1] if len(sys.argv) > 1 else os.path.join(os.path.dirname(os.path.abspath(__file__)), '..', 'lean', 'Dasp', 'Gen')
src_path = os.path.join(REPO, 'dasp_sample/src/ops.rs')
src = open(src_path).read()
from rustexpr import blank_comments
nc = blank_comments(src)

errors = []
consts = {}
info = {}

def line_of(pos):
    return nc.count('\n', 0, pos) + 1

def mod_body(name):
    m = re.search(r'pub\s+mod\s+%s\s*\{' % name, nc)
    if not m:
        return None, 0
    i = m.end(); depth = 1
    while i < len(nc) and depth:
        if nc[i] == '{': depth += 1
        elif nc[i] == '}': depth -= 1
        i += 1
    return nc[m.end():i - 1], m.end()

NOSTD = r'if\s+x\s*>=\s*0\.0\s*\{\s*%(t)s::from_bits\(\s*\(\s*x\.to_bits\(\)\s*\+\s*(0x[0-9a-fA-F_]+|[0-9_]+)\s*\)\s*>>\s*([0-9]+)\s*\)\s*\}\s*else\s*\{\s*%(t)s::NAN\s*\}'
FN = re.compile(r'#\[cfg\((not\()?feature\s*=\s*"std"\)?\)\]\s*(?:#\[[^\]]*\]\s*)*pub\s+fn\s+sqrt\s*\(\s*x\s*:\s*(f32|f64)\s*\)\s*->\s*(f32|f64)\s*\{')
CONST = re.compile(r'const\s+([A-Za-z_][A-Za-z_0-9]*)\s*:\s*[iu](?:8|16|32|64|size)\s*=\s*([^;]*);')

def module_consts(body):
    """integer `const NAME: T = <constant expression>;` items of the module, evaluated in order"""
    env = {}
    for m in CONST.finditer(body):
        try:
            e = P(tokenize(m.group(2))).expr()
            for n, v in env.items(): e = subst(e, n, v)
            e = fold(e)
            if e[0] == 'lit' and '.' not in e[1]: env[m.group(1)] = ('lit', e[1], None)
        except TranslationError:
            pass
    return env

def nostd_shape(fb, t, env):
    """(bias, shift) if the body is, up to `let`s, early return, operand order, constant spelling and `/ 2^k`
    for `>> k` on the unsigned pattern:  if x >= 0.0 { T::from_bits((x.to_bits() + BIAS) >> SHIFT) } else { T::NAN }"""
    e = P(tokenize(fb)).stmts()
    for n, v in env.items(): e = subst(e, n, v)
    e = fold(e)
    X = ('var', ['x'])
    # the guard as a decision tree over the four classes of a float (NaN, < 0, +-0, > 0): whatever mixture of
    # `x >= 0.0`, `x < 0.0`, `x.is_nan()`, `x != x`, `!`, `||`, `&&`, early returns it is written with, NaN and negative
    # inputs must reach `T::NAN` and zero and positive inputs one and the same bit-pattern expression
    def zero_lit(v): return v[0] == 'lit' and '.' in v[1] and float(v[1]) == 0.0
    def truth(c, cls):
        nan, neg, zero, pos = (cls == 'nan'), (cls == 'neg'), (cls == 'zero'), (cls == 'pos')
        if c[0] == 'method' and c[1] == 'is_nan' and c[2] == X and c[3] == []: return nan
        if c[0] == 'cmp':
            op, l, r = c[1], c[2], c[3]
            if l == X and r == X: return {'==': not nan, '!=': nan, '<=': not nan, '>=': not nan, '<': False, '>': False}[op]
            if r == X and zero_lit(l): op, l, r = {'<': '>', '>': '<', '<=': '>=', '>=': '<=', '==': '==', '!=': '!='}[op], r, l
            if l == X and zero_lit(r):
                return {'>=': zero or pos, '>': pos, '<=': neg or zero, '<': neg, '==': zero, '!=': not zero}[op]
        raise TranslationError('guard condition not understood: %r' % (c,))
    def leaf(t_, cls):
        while t_[0] == 'if': t_ = t_[2] if truth(t_[1], cls) else t_[3]
        return t_
    if e[0] != 'if': raise TranslationError('no guard (`x >= 0.0` or an equivalent)')
    for cls in ('nan', 'neg'):
        if leaf(e, cls) != ('var', [t, 'NAN']): raise TranslationError('a %s input does not reach %s::NAN' % ({'nan': 'NaN', 'neg': 'negative'}[cls], t))
    if leaf(e, 'zero') != leaf(e, 'pos'): raise TranslationError('zero and positive inputs take different expressions')
    e = ('if', None, leaf(e, 'pos'), None)
    a = e[2]
    if not (a[0] == 'call' and a[1] == [t, 'from_bits']): raise TranslationError('result is not %s::from_bits(..)' % t)
    b = a[2]
    if b[0] == 'shift' and b[1] == '>>' and b[3][0] == 'lit': k = int(b[3][1])
    elif b[0] == 'arith' and b[1] == '/' and b[3][0] == 'lit' and int(b[3][1]) > 0 and int(b[3][1]) & (int(b[3][1]) - 1) == 0: k = int(b[3][1]).bit_length() - 1
    else: raise TranslationError('bit pattern is not `(..) >> K` (or `/ 2^K`)')
    sm = b[2]
    bits = ('method', 'to_bits', X, [])
    if not (sm[0] == 'arith' and sm[1] == '+'): raise TranslationError('shifted operand is not a sum')
    if sm[2] == bits and sm[3][0] == 'lit': c = int(sm[3][1])
    elif sm[3] == bits and sm[2][0] == 'lit': c = int(sm[2][1])
    else: raise TranslationError('sum is not `x.to_bits() + BIAS`')
    return c, k


for t, bits in (('f32', 32), ('f64', 64)):
    body, off = mod_body(t)
    consts['bias%d' % bits] = 0; consts['shift%d' % bits] = 0; consts['stdIsIeee%d' % bits] = False
    if body is None:
        errors.append(dict(function=t + '::sqrt', line=0, error='module `pub mod %s` not found in ops.rs' % t, text=''))
        continue
    seen = set()
    for m in FN.finditer(body):
        nostd = m.group(1) is not None
        i = m.end(); depth = 1
        while i < len(body) and depth:
            if body[i] == '{': depth += 1
            elif body[i] == '}': depth -= 1
            i += 1
        fb = body[m.end():i - 1].strip()
        ln = line_of(off + m.start())
        kind = 'nostd' if nostd else 'std'
        seen.add(kind)
        text = ' '.join(fb.split())
        if m.group(2) != t or m.group(3) != t:
            errors.append(dict(function='%s::sqrt (%s)' % (t, kind), line=ln, error='signature is not fn(%s) -> %s' % (t, t), text=text)); continue
        if nostd:
            try:
                c, k = nostd_shape(fb, t, module_consts(body))
            except (TranslationError, ValueError, IndexError) as ex:
                errors.append(dict(function='%s::sqrt (no_std)' % t, line=ln, error='unrecognised shape: %s (expected `if x >= 0.0 { T::from_bits((x.to_bits() + C) >> K) } else { T::NAN }` up to lets / early return / operand order / constant spelling)' % ex, text=text)); continue
            consts['bias%d' % bits] = c; consts['shift%d' % bits] = k
            info['%s::sqrt (no_std)' % t] = dict(line=ln, bias=hex(c), shift=k, text=text)
        else:
            if not re.fullmatch(r'x\s*\.\s*sqrt\s*\(\s*\)', fb):
                errors.append(dict(function='%s::sqrt (std)' % t, line=ln, error='unrecognised shape (expected `x.sqrt()`)', text=text)); continue
            consts['stdIsIeee%d' % bits] = True
            info['%s::sqrt (std)' % t] = dict(line=ln, text=text)
    for kind in ('nostd', 'std'):
        if kind not in seen:
            errors.append(dict(function='%s::sqrt (%s)' % (t, kind), line=0, error='function not found in ops.rs', text=''))

os.makedirs(OUT, exist_ok=True)
L = ['/-! GENERATED by translator/gen_sqrt.py from %s — do not edit.' % 'dasp_sample/src/ops.rs',
     '    Constants of the no_std exponent-halving square root `T::from_bits((x.to_bits() + bias) >> shift)`. -/',
     'namespace Dasp.Gen.Sqrt', '']
for bits in (32, 64):
    t = 'f%d' % bits
    i = info.get('%s::sqrt (no_std)' % t)
    L.append('/-- `%s` (ops.rs:%s) -/' % (i['text'] if i else 'UNTRANSLATABLE: see sqrt_manifest.json', i['line'] if i else '?'))
    L.append('def bias%d : Nat := %d' % (bits, consts['bias%d' % bits]))
    L.append('def shift%d : Nat := %d' % (bits, consts['shift%d' % bits]))
    L.append('/-- the std build calls the IEEE `%s::sqrt` -/' % t)
    L.append('def stdIsIeee%d : Bool := %s' % (bits, 'true' if consts['stdIsIeee%d' % bits] else 'false'))
    L.append('')
L.append('end Dasp.Gen.Sqrt')
new = '\n'.join(L) + '\n'
p = os.path.join(OUT, 'Sqrt.lean')
if not os.path.exists(p) or open(p).read() != new:      # keep the mtime when nothing changed
    open(p, 'w').write(new)
json.dump(dict(source=src_path, n_int=4, n_float=0, functions=info, errors=errors,
               constants=dict((k, (hex(v) if isinstance(v, int) and not isinstance(v, bool) else v)) for k, v in consts.items())),
          open(os.path.join(OUT, 'sqrt_manifest.json'), 'w'), indent=1)
print('gen_sqrt: bias32=%#x shift32=%d bias64=%#x shift64=%d, %d errors' % (consts['bias32'], consts['shift32'], consts['bias64'], consts['shift64'], len(errors)))
