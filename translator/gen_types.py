#!/usr/bin/env python3
"""Translator: /repo/dasp_sample/src/types.rs  ->  lean/Dasp/Gen/Types.lean

Parses, on every run,

  * the body of `macro_rules! new_sample_type` (the constants block, the derive list of the
    struct, `new`, `wrap_overflow_once`, `wrap_overflow`, `From<$Rep>`, `Add`, `Sub`, `Mul`),
    `macro_rules! impl_neg` and the two arms of `macro_rules! impl_from`, with a small
    recursive-descent parser for the statement/expression subset they are written in
    (`if / else if / else`, `while c { self.0 -= e; }`, `cfg!(debug_assertions)`, `$T(e)`,
    `$T::new(e).expect(..)`, `$T::from(e)`, `.wrap_overflow_once()`, `.wrap_overflow()`,
    `+ - *`, unary minus, the six comparisons, `|| &&`, `as $Rep`, `None`, `Some(..)`), and
  * the `new_sample_type!(T: Rep, eq:, min:, max:, total:, from: ...)` instantiations and the
    `impl_neg!(T)` lines of each module,

and emits

  Gen/Types.lean            `macroDef : MacroDef` (operator bodies as terms of the language of
                            Dasp/Machine/TypesSem.lean), one `TypeSpec` per type, `all`
  Gen/types_manifest.json   function -> source line/text, instantiations, translation errors

The *meaning* of the terms lives in Lean (Dasp/Machine/TypesSem.lean).  Anything that cannot
be parsed or does not have one of the recognised shapes is reported in
types_manifest.json["errors"] and its definition is emitted as a placeholder that makes the
theorems fail -- a broken obligation, never silently skipped.
"""
import re, sys, json, os
import sys as _sys, os as _os
_sys.path.insert(0, _os.path.dirname(_os.path.abspath(__file__)))
from rustexpr import blank_comments as rx_blank, TranslationError as rx_TranslationError, tokenize as rx_tokenize, P as rx_P, fold as rx_fold

REPO = os.environ.get('VERIF_REPO', '/repo')
OUT = sys.argv[1] if len(sys.argv) > 1 else os.path.join(os.path.dirname(__file__), '..', 'lean', 'Dasp', 'Gen')
src_path = os.path.join(REPO, 'dasp_sample/src/types.rs')
src = open(src_path).read()
src_nc = rx_blank(src)   # offsets and lines survive

errors = []
functions = {}

class TranslationError(Exception):
    pass

def line_of(off):
    return src_nc.count('\n', 0, off) + 1

def err(name, off, msg, text=''):
    errors.append(dict(function=name, line=line_of(off) if off is not None else 0, error=msg, text=' '.join(text.split())[:200]))

def match_brace(s, i, open_='{', close='}'):
    """s[i] is the opening bracket; returns the index just past the matching close"""
    depth = 0; j = i
    while j < len(s):
        if s[j] == open_: depth += 1
        elif s[j] == close:
            depth -= 1
            if depth == 0: return j + 1
        j += 1
    raise TranslationError('unbalanced %s' % open_)

# --------------------------------------------------------------------------- tokenizer / parser
TOK = re.compile(r'\s*(?:(\d[\d_]*)|("(?:[^"\\]|\\.)*")|(\$?[A-Za-z_][A-Za-z_0-9]*)|(::|\|\||&&|<=|>=|==|!=|-=|\+=|->|[-+*/<>(){}.,;=!]))')

def tokenize(s):
    pos = 0; out = []; s = s.rstrip()
    while pos < len(s):
        m = TOK.match(s, pos)
        if not m:
            if s[pos:].strip() == '': break
            raise TranslationError('cannot tokenize at %r' % s[pos:pos + 20])
        pos = m.end()
        if m.group(1): out.append(('num', m.group(1).replace('_', '')))
        elif m.group(2): out.append(('str', m.group(2)))
        elif m.group(3): out.append(('id', m.group(3)))
        else: out.append(('op', m.group(4)))
    return out

class P:
    def __init__(s, toks): s.t = toks; s.i = 0
    def peek(s, k=0): return s.t[s.i + k] if s.i + k < len(s.t) else ('eof', '')
    def eat(s, k=None, v=None):
        t = s.peek()
        if (k and t[0] != k) or (v and t[1] != v): raise TranslationError('expected %s %s, got %s' % (k or '', v or '', t))
        s.i += 1; return t
    def at(s, k, v): return s.peek() == (k, v)
    # block := '{' (stmt)* expr? '}'   -> ('block', [stmts], expr|None)
    def block(s):
        s.eat('op', '{'); stmts = []; tail = None
        while not s.at('op', '}'):
            if s.at('id', 'while'):
                s.eat(); c = s.expr(nostruct=True); b = s.block(); stmts.append(('while', c, b)); continue
            e = s.expr()
            if s.peek()[0] == 'op' and s.peek()[1] in ('-=', '+=', '='):
                op = s.eat()[1]; r = s.expr(); s.eat('op', ';'); stmts.append(('assign', op, e, r)); continue
            if s.at('op', ';'): s.eat(); stmts.append(('expr', e)); continue
            tail = e
            if not s.at('op', '}'): raise TranslationError('expected } after tail expression, got %s' % (s.peek(),))
        s.eat('op', '}')
        return ('block', stmts, tail)
    def expr(s, nostruct=False): return s.orx()
    def orx(s):
        a = s.andx()
        while s.at('op', '||'): s.eat(); a = ('or', a, s.andx())
        return a
    def andx(s):
        a = s.cmp()
        while s.at('op', '&&'): s.eat(); a = ('and', a, s.cmp())
        return a
    def cmp(s):
        a = s.add()
        if s.peek()[0] == 'op' and s.peek()[1] in ('<', '>', '<=', '>=', '==', '!='):
            op = s.eat()[1]; a = ('cmp', op, a, s.add())
        return a
    def add(s):
        a = s.mul()
        while s.peek()[0] == 'op' and s.peek()[1] in ('+', '-'):
            op = s.eat()[1]; a = ('arith', op, a, s.mul())
        return a
    def mul(s):
        a = s.cast()
        while s.peek()[0] == 'op' and s.peek()[1] in ('*', '/'):
            op = s.eat()[1]; a = ('arith', op, a, s.cast())
        return a
    def cast(s):
        a = s.unary()
        while s.at('id', 'as'): s.eat(); a = ('as', s.eat('id')[1], a)
        return a
    def unary(s):
        if s.at('op', '-'): s.eat(); return ('neg', s.unary())
        if s.at('op', '!'): s.eat(); return ('not', s.unary())
        return s.postfix()
    def args(s):
        s.eat('op', '('); out = []
        while not s.at('op', ')'):
            out.append(s.expr())
            if s.at('op', ','): s.eat()
        s.eat('op', ')'); return out
    def postfix(s):
        a = s.atom()
        while s.at('op', '.'):
            s.eat(); t = s.peek()
            if t[0] == 'num': s.eat(); a = ('field', t[1], a)
            else:
                m = s.eat('id')[1]; a = ('method', m, a, s.args())
        return a
    def atom(s):
        t = s.peek()
        if t == ('op', '('): s.eat(); e = s.expr(); s.eat('op', ')'); return e
        if t == ('op', '{'): return s.block()
        if t == ('id', 'if'):
            s.eat(); c = s.expr(nostruct=True); a = s.block(); s.eat('id', 'else')
            b = s.atom() if s.at('id', 'if') else s.block()
            return ('if', c, a, b)
        if t[0] == 'num': s.eat(); return ('lit', int(t[1]))
        if t[0] == 'str': s.eat(); return ('str', t[1])
        if t[0] == 'id':
            path = [s.eat()[1]]
            while s.at('op', '::'): s.eat(); path.append(s.eat('id')[1])
            if s.at('op', '!'):    # macro call, e.g. cfg!(debug_assertions)
                s.eat(); a = s.args(); return ('macro', path, a)
            if s.at('op', '('): return ('call', path, s.args())
            return ('path', path)
        raise TranslationError('unexpected token %s' % (t,))

def parse_block(text):
    p = P(tokenize(text)); b = p.block()
    if p.peek()[0] != 'eof': raise TranslationError('trailing tokens %s' % (p.peek(),))
    return b

def simp_block(e):
    """a block with no statements is its tail expression"""
    while isinstance(e, tuple) and e[0] == 'block' and not e[1] and e[2] is not None: e = e[2]
    return e

# --------------------------------------------------------------------------- AST -> Lean terms
CMPS = {'<': 'lt', '<=': 'le', '>': 'gt', '>=': 'ge', '==': 'eq', '!=': 'ne'}
CONSTS = {'MAX_REP': '.maxRep', 'MIN_REP': '.minRep', 'TOTAL': '.total'}
SELF_TYPES = ('$T', 'Self')

def texpr(e, vars_):
    """`$Rep`-typed expression. vars_: parameter name -> ('rep', slot) | ('self',) | ('other', kind)"""
    e = simp_block(e); k = e[0]
    if k == 'lit': return '(.lit %d)' % e[1]
    if k == 'neg':
        if e[1][0] == 'lit': return '(.lit (%d))' % (-e[1][1])
        return '(.neg %s)' % texpr(e[1], vars_)
    if k == 'arith':
        if e[1] == '/': raise TranslationError('division is not part of the translated subset')
        return '(.%s %s %s)' % ({'+': 'add', '-': 'sub', '*': 'mul'}[e[1]], texpr(e[2], vars_), texpr(e[3], vars_))
    if k == 'as':
        if e[1] != '$Rep': raise TranslationError('cast to %s (only `as $Rep` is recognised)' % e[1])
        return '(.asRep %s)' % texpr(e[2], vars_)
    if k == 'field':
        if e[1] == '0' and e[2][0] == 'path' and len(e[2][1]) == 1:
            v = vars_.get(e[2][1][0])
            if v == ('self',): return '.self0'
            if v == ('otherSelf',): return '.other0'
        raise TranslationError('unrecognised field access')
    if k == 'method':
        if e[1] == 'inner' and not e[3] and e[2][0] == 'path' and len(e[2][1]) == 1:
            v = vars_.get(e[2][1][0])
            if v == ('self',): return '.self0'
            if v in (('otherSelf',), ('otherCustom',)): return '.other0'
        if e[1] in ('wrapping_add', 'wrapping_sub', 'wrapping_mul'):
            raise TranslationError('%s is not part of the translated subset' % e[1])
        raise TranslationError('unrecognised method .%s() in a $Rep expression' % e[1])
    if k == 'path' and len(e[1]) == 1:
        n = e[1][0]
        if n in CONSTS: return CONSTS[n]
        v = vars_.get(n)
        if v == ('rep',): return '.val'
        if v == ('otherPrim',): return '.other0'
        raise TranslationError('unknown name %s in a $Rep expression' % n)
    raise TranslationError('unsupported $Rep expression node %s' % k)

def cond(e, vars_):
    e = simp_block(e); k = e[0]
    if k == 'or': return '(.or %s %s)' % (cond(e[1], vars_), cond(e[2], vars_))
    if k == 'and': return '(.and %s %s)' % (cond(e[1], vars_), cond(e[2], vars_))
    if k == 'cmp': return '(.cmp .%s %s %s)' % (CMPS[e[1]], texpr(e[2], vars_), texpr(e[3], vars_))
    raise TranslationError('unsupported condition node %s' % k)

def is_cfg_debug(e):
    return e[0] == 'macro' and e[1] == ['cfg'] and len(e[2]) == 1 and e[2][0] == ('path', ['debug_assertions'])

def body0(e, vars_):
    e = simp_block(e); k = e[0]
    if k == 'call' and len(e[1]) == 1 and e[1][0] in SELF_TYPES and len(e[2]) == 1: return '(.mk %s)' % texpr(e[2][0], vars_)
    if k == 'path' and e[1] == ['self'] and vars_.get('self') == ('self',): return '.self_'
    if k == 'if': return '(.ite %s %s %s)' % (cond(e[1], vars_), body0(e[2], vars_), body0(e[3], vars_))
    raise TranslationError('unsupported node %s in a call-free $T body' % k)

def obody(e, vars_):
    e = simp_block(e); k = e[0]
    if k == 'path' and e[1] == ['None']: return '.none'
    if k == 'call' and e[1] == ['Some'] and len(e[2]) == 1: return '(.some %s)' % body0(e[2][0], vars_)
    if k == 'if': return '(.ite %s %s %s)' % (cond(e[1], vars_), obody(e[2], vars_), obody(e[3], vars_))
    raise TranslationError('unsupported node %s in an Option<$T> body' % k)

def body(e, vars_):
    e = simp_block(e); k = e[0]
    if k == 'call' and len(e[1]) == 1 and e[1][0] in SELF_TYPES and len(e[2]) == 1: return '(.mk %s)' % texpr(e[2][0], vars_)
    if k == 'call' and len(e[1]) == 2 and e[1][0] in SELF_TYPES and e[1][1] == 'from' and len(e[2]) == 1:
        return '(.fromRep %s)' % texpr(e[2][0], vars_)
    if k == 'method' and e[1] in ('expect', 'unwrap'):
        r = e[2]
        if r[0] == 'call' and len(r[1]) == 2 and r[1][0] in SELF_TYPES and r[1][1] == 'new' and len(r[2]) == 1:
            return '(.newExpect %s)' % texpr(r[2][0], vars_)
        raise TranslationError('.%s() on something other than $T::new(..)' % e[1])
    if k == 'method' and e[1] == 'wrap_overflow_once' and not e[3]: return '(.wrapOnce %s)' % body(e[2], vars_)
    if k == 'method' and e[1] == 'wrap_overflow' and not e[3]: return '(.wrapFull %s)' % body(e[2], vars_)
    if k == 'if':
        if is_cfg_debug(e[1]): return '(.ifDebug %s %s)' % (body(e[2], vars_), body(e[3], vars_))
        if e[1][0] == 'not' and is_cfg_debug(e[1][1]): return '(.ifDebug %s %s)' % (body(e[3], vars_), body(e[2], vars_))
        raise TranslationError('`if` on something other than cfg!(debug_assertions) in an operator body')
    raise TranslationError('unsupported node %s in a $T body' % k)

def stmts(e, vars_):
    """`while c { self.0 -= e; }`* followed by `self`"""
    if e[0] != 'block': raise TranslationError('expected a block')
    out = []
    for st in e[1]:
        if st[0] != 'while': raise TranslationError('statement other than `while` in wrap_overflow')
        c, b = st[1], st[2]
        if b[2] is not None or len(b[1]) != 1 or b[1][0][0] != 'assign' or b[1][0][1] not in ('-=', '+='):
            raise TranslationError('loop body is not a single `self.0 -= e;` / `self.0 += e;`')
        _, op, lhs, rhs = b[1][0]
        if texpr(lhs, vars_) != '.self0': raise TranslationError('loop assigns to something other than self.0')
        out.append('.while%s %s %s' % ('Sub' if op == '-=' else 'Add', cond(c, vars_), texpr(rhs, vars_)))
    if e[2] is None or simp_block(e[2]) != ('path', ['self']): raise TranslationError('wrap_overflow does not end in `self`')
    return '[' + ', '.join(out) + ']'

# --------------------------------------------------------------------------- locate the macros
def macro_text(name):
    m = re.search(r'macro_rules!\s+%s\s*\{' % name, src_nc)
    if not m: raise TranslationError('macro_rules! %s not found' % name)
    end = match_brace(src_nc, m.end() - 1)
    return m.end(), src_nc[m.end():end - 1]

def find_fn(text, base, ctx_re, fn):
    """find `fn <fn>(params) -> ret { body }` after the first match of ctx_re (an impl header) in text"""
    start = 0
    if ctx_re:
        m = re.search(ctx_re, text)
        if not m: raise TranslationError('impl block %s not found' % ctx_re)
        b0 = text.index('{', m.end() - 1) if text[m.end() - 1] != '{' else m.end() - 1
        b1 = match_brace(text, b0)
        sub, start = text[b0:b1], b0
    else:
        sub = text
    m = re.search(r'fn\s+%s\s*\(([^)]*)\)\s*(?:->\s*([^{]+?))?\s*\{' % fn, sub)
    if not m: raise TranslationError('fn %s not found' % fn)
    b0 = m.end() - 1; b1 = match_brace(sub, b0)
    return dict(params=m.group(1).strip(), ret=(m.group(2) or '').strip(), body=sub[b0:b1], off=base + start + m.start(), )

def params_of(p):
    out = []
    for part in [x.strip() for x in p.split(',') if x.strip()]:
        part = re.sub(r'^mut\s+', '', part)
        if part == 'self': out.append(('self', None))
        else:
            n, t = [x.strip() for x in part.split(':', 1)]
            out.append((re.sub(r'^mut\s+', '', n), t))
    return out

defs = {}
PLACE = {'newBody': '.none', 'wrapOnce': '.self_', 'wrapFull': '[]', 'fromRep': '(.mk (.lit 0))', 'add': '(.mk (.lit 0))',
         'sub': '(.mk (.lit 0))', 'mul': '(.mk (.lit 0))', 'neg': '(.mk (.lit 0))', 'fromPrim': '(.mk (.lit 0))', 'fromCustom': '(.mk (.lit 0))'}

def translate(field, text, base, ctx, fn, kind, expect_params):
    try:
        f = find_fn(text, base, ctx, fn)
        functions[field] = dict(line=line_of(f['off']), text=' '.join(f['body'].split())[:400])
        ps = params_of(f['params'])
        if [t for _, t in ps] != [t for _, t in expect_params]:
            raise TranslationError('parameters of %s are (%s), expected types %s' % (fn, f['params'], [t for _, t in expect_params]))
        vars_ = {}
        for (n, _), (role, _) in zip(ps, expect_params): vars_[n] = (role,)
        ast = parse_block(f['body'])
        if kind == 'obody': defs[field] = obody(ast, vars_)
        elif kind == 'body0': defs[field] = body0(ast, vars_)
        elif kind == 'stmts': defs[field] = stmts(ast, vars_)
        else: defs[field] = body(ast, vars_)
    except (TranslationError, ValueError, IndexError) as ex:
        err(field, functions.get(field, {}).get('line') and None, '%s: %s' % (fn, ex), functions.get(field, {}).get('text', ''))
        if field in functions: errors[-1]['line'] = functions[field]['line']
        defs[field] = PLACE[field] + ' /- UNTRANSLATABLE: see types_manifest.json -/'

try:
    nbase, ntext = macro_text('new_sample_type')
except TranslationError as ex:
    err('new_sample_type', None, str(ex)); nbase, ntext = 0, ''

# private `const NAME: $Rep = $MIN | $MAX | $TOTAL;` (any names), also through one level of aliasing
CONSTS.clear()
_cdefs = dict((m.group(1), m.group(2)) for m in re.finditer(r'(?<!pub )const\s+(\w+)\s*:\s*\$Rep\s*=\s*(\$?\w+)\s*;', ntext))
_roles = {'$MIN': '.minRep', '$MAX': '.maxRep', '$TOTAL': '.total'}
for _n, _v in _cdefs.items():
    if _v in _roles: CONSTS[_n] = _roles[_v]
for _n, _v in _cdefs.items():
    if _v in CONSTS and _n not in CONSTS: CONSTS[_n] = CONSTS[_v]

translate('newBody', ntext, nbase, r'impl\s+\$T\s*\{', 'new', 'obody', [('rep', '$Rep')])
translate('wrapOnce', ntext, nbase, r'impl\s+\$T\s*\{', 'wrap_overflow_once', 'body0', [('self', None)])
translate('wrapFull', ntext, nbase, r'impl\s+\$T\s*\{', 'wrap_overflow', 'stmts', [('self', None)])
translate('fromRep', ntext, nbase, r'impl\s+From<\$Rep>\s+for\s+\$T\s*\{', 'from', 'body', [('rep', '$Rep')])
for op, tr in (('add', 'Add'), ('sub', 'Sub'), ('mul', 'Mul')):
    translate(op, ntext, nbase, r'impl\s+::core::ops::%s<\$T>\s+for\s+\$T\s*\{' % tr, op, 'body', [('self', None), ('otherSelf', 'Self')])

# the accessor and unchecked constructor must be the trivial ones the model assumes (whatever the parameter is called)
for fn in ('inner', 'new_unchecked'):
    try:
        f = find_fn(ntext, nbase, r'impl\s+\$T\s*\{', fn)
        got = ' '.join(f['body'].split())
        functions[fn] = dict(line=line_of(f['off']), text=got)
        ps = params_of(f['params'])
        want = '{ self.0 }' if fn == 'inner' else '{ $T(%s) }' % (ps[0][0] if ps else 's')
        if got != want: err(fn, f['off'], 'body of %s is %s, the model assumes %s' % (fn, got, want), got)
    except TranslationError as ex:
        err(fn, None, str(ex))

# constants block: the exported MIN / MAX / EQUILIBRIUM must be $T of the macro's min / max / eq arguments (directly
# or through private $Rep constants, whatever those are called)
flat = ' '.join(ntext.split())
for name, role in (('MIN', '.minRep'), ('MAX', '.maxRep')):
    m = re.search(r'pub const %s\s*:\s*\$T\s*=\s*\$T\(\s*(\$?\w+)\s*\)\s*;' % name, flat)
    if not m or not (m.group(1) == {'MIN': '$MIN', 'MAX': '$MAX'}[name] or CONSTS.get(m.group(1)) == role):
        err('constants', nbase, 'exported constant %s is not $T(<the macro\'s %s argument>)' % (name, name.lower()))
if not re.search(r'pub const EQUILIBRIUM\s*:\s*\$T\s*=\s*\$T\(\s*\$EQ\s*\)\s*;', flat): err('constants', nbase, 'exported constant EQUILIBRIUM is not $T($EQ)')
for role in ('.minRep', '.maxRep', '.total'):
    if role not in CONSTS.values(): err('constants', nbase, 'no private $Rep constant bound to the macro argument for %s' % role)
ms = re.search(r'#\[derive\(([^)]*)\)\]\s*pub struct \$T\(\$Rep\);', ntext)
ord_derived = False
if not ms:
    err('struct', nbase, 'struct declaration `#[derive(..)] pub struct $T($Rep);` not found')
else:
    ders = [d.strip() for d in ms.group(1).split(',')]
    ord_derived = all(d in ders for d in ('PartialEq', 'Eq', 'PartialOrd', 'Ord'))
    functions['struct'] = dict(line=line_of(nbase + ms.start()), text=' '.join(ms.group(0).split()))
    if not ord_derived: err('struct', nbase + ms.start(), 'PartialEq/Eq/PartialOrd/Ord are not all derived: comparison is not the derived single-field one', ms.group(0))
mh = re.search(r'\(\$T:ident: \$Rep:ident, eq: \$EQ:expr, min: \$MIN:expr, max: \$MAX:expr, total: \$TOTAL:expr, from: \$\(\$rest:tt\)\*\)', ntext)
if not mh: err('new_sample_type', nbase, 'macro header (T: Rep, eq, min, max, total, from) not recognised')
if not re.search(r'impl_froms!\(\$T: \$Rep, \$\(\$rest\)\*\);', ntext): err('new_sample_type', nbase, '`impl_froms!($T: $Rep, $($rest)*);` not found')

try:
    gbase, gtext = macro_text('impl_neg')
    translate('neg', gtext, gbase, r'impl\s+::core::ops::Neg\s+for\s+\$T\s*\{', 'neg', 'body', [('self', None)])
except TranslationError as ex:
    err('neg', None, str(ex)); defs['neg'] = PLACE['neg']

try:
    fbase, ftext = macro_text('impl_from')
    arms = list(re.finditer(r'\(\$T:ident: \$Rep:ident from (\{\$U:ident : \$URep:ty\}|\$U:ident)\)\s*=>\s*\{', ftext))
    got = {}
    for a in arms:
        b0 = a.end() - 1; b1 = match_brace(ftext, b0)
        got['fromCustom' if a.group(1).startswith('{') else 'fromPrim'] = (ftext[b0:b1], fbase + b0)
    for field, role in (('fromPrim', 'otherPrim'), ('fromCustom', 'otherCustom')):
        if field not in got:
            err(field, fbase, 'impl_from! arm not found'); defs[field] = PLACE[field]; continue
        translate(field, got[field][0], got[field][1], r'impl\s+From<\$U>\s+for\s+\$T\s*\{', 'from', 'body', [(role, '$U')])
except TranslationError as ex:
    err('impl_from', None, str(ex)); defs.setdefault('fromPrim', PLACE['fromPrim']); defs.setdefault('fromCustom', PLACE['fromCustom'])

# impl_froms!: must dispatch each list element to impl_from! unchanged
try:
    sbase, stext = macro_text('impl_froms')
    sflat = ' '.join(stext.split())
    for want in ('impl_from!($T: $Rep from {$U: $URep});', 'impl_from!($T: $Rep from $U);', 'impl_froms!($T: $Rep, $($rest)*);'):
        if want not in sflat: err('impl_froms', sbase, 'expected `%s` in impl_froms!' % want)
except TranslationError as ex:
    err('impl_froms', None, str(ex))

# --------------------------------------------------------------------------- instantiations
PRIMS = ('i8', 'i16', 'i32', 'i64', 'u8', 'u16', 'u32', 'u64')
EXPECTED = ['I11', 'I20', 'I24', 'I48', 'U11', 'U20', 'U24', 'U48']
insts = []
tail = src_nc[(nbase + len(ntext)):]
tail_off = nbase + len(ntext)
for m in re.finditer(r'pub mod (\w+)\s*\{', tail):
    b0 = m.end() - 1; b1 = match_brace(tail, b0); modtext = tail[b0:b1]
    for mi in re.finditer(r'new_sample_type!\(', modtext):
        a0 = mi.end() - 1; a1 = match_brace(modtext, a0, '(', ')'); argt = modtext[a0 + 1:a1 - 1]
        off = tail_off + b0 + mi.start()
        mm = re.match(r'\s*(\w+)\s*:\s*(\w+)\s*,\s*eq:\s*([^,]+),\s*min:\s*([^,]+),\s*max:\s*([^,]+),\s*total:\s*([^,]+),\s*from:(.*)$', argt, re.S)
        if not mm:
            err('instantiation in mod ' + m.group(1), off, 'arguments not recognised', argt); continue
        T, rep = mm.group(1), mm.group(2)
        try:
            # integer constant expressions: a literal's spelling (`8_388_608`, `0x80_0000`, `1 << 23`, `(1 << 24) - 1`) is not semantics
            nums = []
            for i in (3, 4, 5, 6):
                ce = rx_fold(rx_P(rx_tokenize(mm.group(i))).expr())
                if ce[0] != 'lit' or '.' in ce[1]: raise ValueError(mm.group(i))
                nums.append(int(ce[1]))
        except (ValueError, rx_TranslationError):
            err(T, off, 'eq/min/max/total are not integer constant expressions', argt); continue
        if rep not in PRIMS: err(T, off, 'backing type %s is not a primitive integer' % rep, argt); continue
        fp, fc = [], []
        for item in [x.strip() for x in mm.group(7).split(',') if x.strip()]:
            mc = re.match(r'^\{\s*(\w+)\s*:\s*(\w+)\s*\}$', item)
            if mc: fc.append((mc.group(1), mc.group(2)))
            elif item in PRIMS: fp.append(item)
            else: err(T, off, 'unrecognised `from:` entry %r' % item, argt)
        has_neg = bool(re.search(r'impl_neg!\(\s*%s\s*\)' % T, modtext))
        for other in re.findall(r'impl_neg!\(\s*(\w+)\s*\)', modtext):
            if other != T: err(T, off, 'impl_neg!(%s) inside the module of %s' % (other, T))
        insts.append(dict(name=T, rep=rep, eq=nums[0], min=nums[1], max=nums[2], total=nums[3], from_prims=fp, from_custom=fc,
                          has_neg=has_neg, line=line_of(off), mod=m.group(1)))
names = [i['name'] for i in insts]
for T in EXPECTED:
    if T not in names: err(T, None, 'instantiation of %s not found in types.rs' % T)
# order: the expected ones first in the fixed order, then any extra
insts.sort(key=lambda i: (EXPECTED.index(i['name']) if i['name'] in EXPECTED else 99, i['name']))
names = [i['name'] for i in insts]
if len(set(names)) != len(names): err('instantiations', None, 'a type is instantiated twice: %s' % names)

def lean_int(v): return str(v) if v >= 0 else '(%d)' % v

os.makedirs(OUT, exist_ok=True)
HEADER = '-- GENERATED by translator/gen_types.py from %s -- do not edit\n' % src_path
out = [HEADER, 'import Dasp.Machine.TypesSem', 'namespace Dasp.Gen.Types', 'open Dasp Dasp.Types', '']
out.append('/-- the function bodies of `new_sample_type!`, `impl_neg!`, `impl_from!` (types.rs) -/')
out.append('def macroDef : MacroDef where')
for field in ('newBody', 'wrapOnce', 'wrapFull', 'fromRep', 'add', 'sub', 'mul', 'neg', 'fromPrim', 'fromCustom'):
    ln = functions.get(field, {}).get('line', 0)
    out.append('  -- types.rs:%s  %s' % (ln, functions.get(field, {}).get('text', '').replace('\n', ' ')[:160]))
    out.append('  %s := %s' % (field, defs[field]))
out.append('')
for i in insts:
    fcs = []
    for (u, urep) in i['from_custom']:
        if u not in names:
            err(i['name'], None, '`from:` entry {%s:%s} names an unknown custom type' % (u, urep)); continue
        if urep not in PRIMS:
            err(i['name'], None, '`from:` entry {%s:%s}: %s is not a primitive' % (u, urep, urep)); continue
        fcs.append('(%d, .%s)' % (names.index(u), urep))
    out.append('/-- types.rs:%d  `new_sample_type!(%s: %s, ..)` in `mod %s`%s -/' % (i['line'], i['name'], i['rep'], i['mod'], ' + `impl_neg!`' if i['has_neg'] else ''))
    out.append('def %s : TypeSpec where' % i['name'])
    out.append('  name := "%s"\n  rep := .%s\n  eq := %s\n  min := %s\n  max := %s\n  total := %s' % (i['name'], i['rep'], lean_int(i['eq']), lean_int(i['min']), lean_int(i['max']), lean_int(i['total'])))
    out.append('  hasNeg := %s' % ('true' if i['has_neg'] else 'false'))
    out.append('  fromPrims := [%s]' % ', '.join('.' + p for p in i['from_prims']))
    out.append('  fromCustom := [%s]' % ', '.join(fcs))
    out.append('  ordDerived := %s' % ('true' if ord_derived else 'false'))
    out.append('')
# the eight expected types are always defined so that Props/C15.lean elaborates far enough to
# report *which* obligation broke; a missing one is a degenerate record (its WF check fails)
for T in EXPECTED:
    if T not in names:
        out.append('def %s : TypeSpec := ⟨"%s", .i8, 0, 0, 0, 0, false, [], [], false⟩ /- MISSING -/' % (T, T))
out.append('/-- every instantiated custom type, in the order the `fromCustom` indices refer to -/')
out.append('def all : List TypeSpec := [%s]' % ', '.join(names))
out.append('')
out.append('end Dasp.Gen.Types')
open(os.path.join(OUT, 'Types.lean'), 'w').write('\n'.join(out) + '\n')

json.dump(dict(source=src_path, n_types=len(insts), n_functions=len([f for f in PLACE if f in defs]), errors=errors,
               functions=functions, instantiations=insts, terms=defs),
          open(os.path.join(OUT, 'types_manifest.json'), 'w'), indent=1)
print('gen_types: %d types, %d macro functions, %d errors' % (len(insts), len(defs), len(errors)))
