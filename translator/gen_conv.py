#!/usr/bin/env python3
"""Translator: /repo/dasp_sample/src/conv.rs  ->  lean/Dasp/Gen/Conv*.lean

Parses every `conversions!(T, mod { s to_x { body } ... })` block with a small
recursive-descent parser for the Rust expression subset the bodies are written in
(precedence: unary/`as` > `* /` > `+ -` > `<< >>` > comparisons), does the local type
inference for literals, and emits

  Gen/Conv.lean            one `def <src>_to_<dst> : Expr` per int->int function (132),
                           one `def <src>_to_<dst> : FConv` per float-involving function (50)
  Gen/ConvThm_<src>.lean   one spec theorem per int->int function of that source format
  Gen/ConvTable.lean       `table : Fmt -> Fmt -> Expr` and `table_spec`
  Gen/ConvFloatThm.lean    shape obligations of the float conversions
  Gen/conv_manifest.json   function -> source line, theorem name, translation errors

The *meaning* of the AST lives in Lean (Dasp/Machine/Int.lean, Dasp/Machine/FConv.lean).
A body that cannot be parsed or typed is reported in conv_manifest.json["errors"]; its
definition is emitted as a placeholder and its theorem fails -- a broken obligation, never
silently skipped.
"""
import re, sys, json, os
sys.path.insert(0, os.path.dirname(os.path.abspath(__file__)))
from rustexpr import TOK, TranslationError, tokenize, P, subst, fold, blank_comments

REPO = os.environ.get('VERIF_REPO', '/repo')
OUT = sys.argv[1] if len(sys.argv) > 1 else os.path.join(os.path.dirname(__file__), '..', 'lean', 'Dasp', 'Gen')

src_path = os.path.join(REPO, 'dasp_sample/src/conv.rs')
src = open(src_path).read()

def strip_comments(s):
    # keep newlines so that line numbers survive
    return blank_comments(s)

src_nc = strip_comments(src)

REP = {'i8': 'i8', 'i16': 'i16', 'I24': 'i32', 'i32': 'i32', 'I48': 'i64', 'i64': 'i64',
       'u8': 'u8', 'u16': 'u16', 'U24': 'i32', 'u32': 'u32', 'U48': 'i64', 'u64': 'u64'}
MOD = {'i8': 'i8', 'i16': 'i16', 'I24': 'i24', 'i32': 'i32', 'I48': 'i48', 'i64': 'i64',
       'u8': 'u8', 'u16': 'u16', 'U24': 'u24', 'u32': 'u32', 'U48': 'u48', 'u64': 'u64',
       'f32': 'f32', 'f64': 'f64'}
UNMOD = {v: k for k, v in MOD.items()}
CUSTOM = ('I24', 'U24', 'I48', 'U48')
INTS = list(REP.keys())
PRIMS = ('i8', 'i16', 'i32', 'i64', 'u8', 'u16', 'u32', 'u64')
FLOATS = ('f32', 'f64')
BITS = {'i8': 8, 'u8': 8, 'i16': 16, 'u16': 16, 'i24': 24, 'u24': 24, 'i32': 32, 'u32': 32,
        'i48': 48, 'u48': 48, 'i64': 64, 'u64': 64}

# ---- locate blocks with line numbers
funcs = {}      # (mod, fn) -> dict(ty, ast|None, line, err)
order = []
for m in re.finditer(r'conversions!\((\w+),\s*(\w+)\s*\{(.*?)\n\}\);', src_nc, re.S):
    ty, mod, body = m.group(1), m.group(2), m.group(3)
    body_off = m.start(3)
    # split into `s to_x { ... }` items by brace matching
    i = 0
    while True:
        mm = re.compile(r'\s*(\w+)\s+(to_\w+)\s*\{').match(body, i)
        if not mm: break
        depth = 1; j = mm.end()
        while depth:
            c = body[j]
            if c == '{': depth += 1
            elif c == '}': depth -= 1
            j += 1
        text = body[mm.end():j - 1]
        line = src_nc.count('\n', 0, body_off + mm.start(2)) + 1
        var, fn = mm.group(1), mm.group(2)
        rec = dict(ty=ty, var=var, line=line, ast=None, err=None, text=' '.join(text.split()))
        try:
            p = P(tokenize(text)); e = p.stmts()
            if p.peek()[0] != 'eof': raise TranslationError("trailing tokens %s" % (p.peek(),))
            rec['ast'] = fold(e)
        except TranslationError as ex:
            rec['err'] = str(ex)
        funcs[(mod, fn)] = rec; order.append((mod, fn))
        i = j
    if body[i:].strip():
        funcs[(mod, '__trailing__')] = dict(ty=ty, var='s', line=0, ast=None, err='unparsed text in block: %r' % body[i:].strip()[:60], text='')

def callee_key(path, mod):
    if path[0] == 'super' and len(path) == 3: return (path[1], path[2])
    if len(path) == 1: return (mod, path[0])
    if len(path) == 2 and path[0] in MOD.values(): return (path[0], path[1])
    raise TranslationError("unknown callee %s" % '::'.join(path))

CMPS = {'<': 'lt', '<=': 'le', '>': 'gt', '>=': 'ge', '==': 'eq', '!=': 'ne'}

def tr(e, srcty, mod, var):
    """typed translation of an integer-valued expression: returns (lean, type) where type is a
    primitive name, None (untyped literal) or ('custom', T)."""
    k = e[0]
    if k == 'var':
        if e[1] != [var]: raise TranslationError("unknown variable %s" % '::'.join(e[1]))
        if srcty in FLOATS: raise TranslationError("float variable in integer expression")
        if srcty in CUSTOM: return ('.var', ('custom', srcty))
        return ('.var', srcty)
    if k == 'lit':
        if '.' in e[1]: raise TranslationError("float literal in integer expression")
        return ('(.lit (%d))' % int(e[1]), e[2])
    if k == 'neg':
        a, t = tr(e[1], srcty, mod, var)
        if e[1][0] == 'lit': return ('(.lit (%d))' % (-int(e[1][1])), t)
        if t is None or isinstance(t, tuple): raise TranslationError("cannot type unary minus")
        return ('(.neg .%s %s)' % (t, a), t)
    if k == 'method':
        m = e[1]
        if m == 'inner' and not e[3]:
            a, t = tr(e[2], srcty, mod, var)
            if not (isinstance(t, tuple) and t[0] == 'custom'): raise TranslationError(".inner() on non-custom type")
            return (a, REP[t[1]])
        if m in ('wrapping_add', 'wrapping_sub', 'wrapping_mul') and len(e[3]) == 1:
            a, ta = tr(e[2], srcty, mod, var); b, tb = tr(e[3][0], srcty, mod, var)
            t = ta if ta is not None else tb
            if t is None or isinstance(t, tuple) or (ta is not None and tb is not None and ta != tb):
                raise TranslationError("cannot type %s" % m)
            return ('(.w%s .%s %s %s)' % (m[9:], t, a, b), t)
        raise TranslationError("unsupported method .%s()" % m)
    if k == 'as':
        a, t = tr(e[2], srcty, mod, var)
        if e[1] not in PRIMS: raise TranslationError("cast to non-primitive %s" % e[1])
        if isinstance(t, tuple): raise TranslationError("cast of custom type without .inner()")
        if t is None: return ('(.cast .%s %s)' % (e[1], a), e[1])
        return ('(.cast .%s %s)' % (e[1], a), e[1])
    if k == 'shift':
        a, ta = tr(e[2], srcty, mod, var)
        if e[3][0] != 'lit': raise TranslationError("non-literal shift amount")
        if ta is None or isinstance(ta, tuple): raise TranslationError("cannot type shift operand")
        return ('(.%s .%s %s %d)' % ('shl' if e[1] == '<<' else 'shr', ta, a, int(e[3][1])), ta)
    if k == 'arith':
        a, ta = tr(e[2], srcty, mod, var); b, tb = tr(e[3], srcty, mod, var)
        t = ta if ta is not None else tb
        if t is None or isinstance(t, tuple) or (ta is not None and tb is not None and ta != tb):
            raise TranslationError("cannot type arithmetic %s (%s, %s)" % (e[1], ta, tb))
        if e[1] == '/': raise TranslationError("integer division not supported")
        op = {'+': 'add', '-': 'sub', '*': 'mul'}[e[1]]
        return ('(.%s .%s %s %s)' % (op, t, a, b), t)
    if k == 'bit':
        a, ta = tr(e[2], srcty, mod, var); b, tb = tr(e[3], srcty, mod, var)
        la, lb = e[2][0] == 'lit', e[3][0] == 'lit'
        if la == lb: raise TranslationError("bit operation needs exactly one literal operand")
        x, tx, m = (a, ta, int(e[3][1])) if lb else (b, tb, int(e[2][1]))
        if tx is None or isinstance(tx, tuple): raise TranslationError("cannot type bit operation")
        bits = BITS[tx]; signed = tx.startswith('i')
        if e[1] == '^':
            top = -(1 << (bits - 1)) if signed else (1 << (bits - 1))
            if m != top: raise TranslationError("xor with a mask other than the sign bit")
            return ('(.xorTop .%s %s)' % (tx, x), tx)
        if e[1] == '&':
            if signed or m < 0 or (m & (m + 1)) != 0 or m.bit_length() > bits: raise TranslationError("`&` supported only with a low-bits mask 2^k-1 on an unsigned operand")
            return ('(.andLow .%s %s %d)' % (tx, x, m.bit_length()), tx)
        raise TranslationError("bit operation %s not supported" % e[1])
    if k == 'cmp':
        raise TranslationError('comparison outside if')
    if k == 'if':
        c = e[1]
        if c[0] != 'cmp': raise TranslationError("if condition is not a comparison")
        a, ta = tr(c[2], srcty, mod, var); b, tb = tr(c[3], srcty, mod, var)
        x, tx = tr(e[2], srcty, mod, var); y, ty_ = tr(e[3], srcty, mod, var)
        if tx != ty_: raise TranslationError("if branches have different types")
        return ('(.ite .%s %s %s %s %s)' % (CMPS[c[1]], a, b, x, y), tx)
    if k == 'call':
        path = e[1]
        if path[-1] == 'new_unchecked' and len(path) == 2 and path[0] in CUSTOM:
            a, t = tr(e[2], srcty, mod, var); T = path[0]
            if t is None: t = REP[T]
            if t != REP[T]: raise TranslationError("new_unchecked argument has type %s, expected %s" % (t, REP[T]))
            return ('(.newUnchecked .%s %s)' % (MOD[T], a), ('custom', T))
        key = callee_key(path, mod)
        if key not in funcs: raise TranslationError("unknown callee %s_%s" % key)
        if key[0] in FLOATS or key[1][3:] in FLOATS: raise TranslationError("float callee in integer expression")
        a, t = tr(e[2], srcty, mod, var)
        want = UNMOD[key[0]]
        got = t[1] if isinstance(t, tuple) else t
        if got is not None and got != want: raise TranslationError("argument of %s_%s has type %s" % (key[0], key[1], got))
        dstT = UNMOD[key[1][3:]]
        rt = ('custom', dstT) if dstT in CUSTOM else dstT
        return ('(.call %s_%s %s)' % (key[0], key[1], a), rt)
    raise TranslationError("unsupported node %s" % k)

def deps_of(key):
    out = []
    def walk(e):
        if isinstance(e, tuple):
            if e[0] == 'call' and e[1][-1] != 'new_unchecked':
                try: out.append(callee_key(e[1], key[0]))
                except TranslationError: pass
            for c in e[1:]:
                if isinstance(c, (tuple, list)): walk(c)
        elif isinstance(e, list):
            for c in e: walk(c)
    if funcs[key]['ast'] is not None: walk(funcs[key]['ast'])
    return out

def all_callees(key, acc=None):
    acc = [] if acc is None else acc
    for k2 in deps_of(key):
        if k2 in funcs and k2 not in acc:
            acc.append(k2); all_callees(k2, acc)
    return acc

intmods = [MOD[t] for t in INTS]
errors = []
defs = {}
for key in order:
    mod, fn = key
    dst = fn[3:]
    rec = funcs[key]
    if mod in intmods and dst in intmods:
        try:
            if rec['err']: raise TranslationError(rec['err'])
            s, t = tr(rec['ast'], rec['ty'], mod, rec['var'])
            want = UNMOD[dst]
            got = t[1] if isinstance(t, tuple) else t
            if got != want: raise TranslationError("body has type %s, expected %s" % (got, want))
            defs[key] = s
        except (TranslationError, KeyError, ValueError) as ex:
            errors.append(dict(function='%s_%s' % key, line=rec['line'], error=str(ex), text=rec['text']))
            defs[key] = '(.lit 0) /- UNTRANSLATABLE: see conv_manifest.json -/'

# ---- float conversions: recognised shapes only
def pow2_of(lit):
    """literal like 128.0 -> exponent k with 2^k == value, else None"""
    try:
        v = int(lit.split('.')[0]);
        if '.' in lit and int(lit.split('.')[1] or '0') != 0: return None
    except ValueError:
        return None
    if v <= 0 or v & (v - 1): return None
    return v.bit_length() - 1

def fconst(e):
    """exponent k if the constant float expression `e` evaluates EXACTLY to 2^k in IEEE arithmetic (every
    intermediate is a power of two within the normal range of f32, so each operation is exact); else None.
    Recognised: float literals that are powers of two, `<integer constant> as fN`, products and quotients."""
    k = e[0]
    if k == 'lit':
        if '.' in e[1]: return pow2_of(e[1])
        return None
    if k == 'as' and e[1] in FLOATS:
        a = e[2]
        if a[0] == 'lit' and '.' not in a[1]:
            v = int(a[1])
            if v > 0 and v & (v - 1) == 0: return v.bit_length() - 1
            return None
        return fconst(a)
    if k == 'arith' and e[1] in ('*', '/'):
        a, b = fconst(e[2]), fconst(e[3])
        if a is None or b is None: return None
        r = a + b if e[1] == '*' else a - b
        return r if -120 <= r <= 120 else None
    return None

fshape = {}
def tr_float(key):
    """returns lean text of an FConv value; records the recognised shape in fshape[key]"""
    mod, fn = key; dst = fn[3:]; rec = funcs[key]
    if rec['err']: raise TranslationError(rec['err'])
    e = rec['ast']; var = rec['var']
    if mod in FLOATS and dst in FLOATS:
        # `s as f64` / `s as f32`
        if e[0] == 'as' and e[1] == dst and e[2] == ('var', [var]):
            fshape[key] = ('f2f',)
            return '(.f2f .%s .%s)' % (mod, dst)
        raise TranslationError("unrecognised float->float shape")
    if dst in FLOATS:
        # int -> float:  PRE as fN / LIT     or   super::iX::to_fN(to_iX(s))
        if e[0] == 'arith' and e[1] in ('/', '*'):
            # `(PRE as fN) / C`, `(PRE as fN) * C`, `C * (PRE as fN)` with C an exact constant power of two
            x, c = e[2], e[3]
            if e[1] == '*' and fconst(x) is not None and fconst(c) is None: x, c = c, x
            kc = fconst(c)
            if kc is None: raise TranslationError("scale factor is not an exact constant power of two")
            if not (x[0] == 'as' and x[1] == dst): raise TranslationError("scaled operand is not `<integer expression> as %s`" % dst)
            pre, t = tr(x[2], rec['ty'], mod, var)
            if t is None or isinstance(t, tuple): raise TranslationError("cast operand not primitive")
            k = kc if e[1] == '/' else -kc
            if k < 0: raise TranslationError("int->float scale factor is > 1")
            ctor = 'i2f' if e[1] == '/' else 'i2fm'
            fshape[key] = ('i2f', k, t, pre, ctor)
            return '(.%s %s .%s .%s %d)' % (ctor, pre, t, dst, k)
        if e[0] == 'call':
            k1 = callee_key(e[1], mod)
            if k1[1] != 'to_' + dst: raise TranslationError("outer call is not to_%s" % dst)
            inner = e[2]
            pre, t = tr(inner, rec['ty'], mod, var)
            got = t[1] if isinstance(t, tuple) else t
            if got != UNMOD[k1[0]]: raise TranslationError("inner type mismatch")
            if not (inner[0] == 'call' and inner[2] == ('var', [var])): raise TranslationError("inner expression is not a single conversion call on the argument")
            k0 = callee_key(inner[1], mod)
            fshape[key] = ('viaInt', k0, k1)
            return '(.viaInt %s %s_%s)' % (pre, k1[0], k1[1])
        raise TranslationError("unrecognised int->float shape")
    if mod in FLOATS:
        # float -> int: (s * LIT) as T  | T::new_unchecked((s*LIT) as R) | super::iX::to_uX(to_iX(s))
        def core(e):
            if e[0] == 'as' and e[2][0] == 'arith' and e[2][1] == '*':
                x, c = e[2][2], e[2][3]
                if c == ('var', [var]): x, c = c, x       # multiplication of floats is commutative, bit for bit
                if x != ('var', [var]): return None
                k = fconst(c)
                if k is None or k < 0: raise TranslationError("multiplier is not an exact constant power of two >= 1")
                if e[1] not in PRIMS: raise TranslationError("cast to non-primitive")
                return k, e[1]
            return None
        c = core(e)
        if c:
            fshape[key] = ('f2i', c[0], c[1], None)
            return '(.f2i .%s %d .%s .var)' % (mod, c[0], c[1])
        if e[0] == 'call' and e[1][-1] == 'new_unchecked' and len(e[1]) == 2 and e[1][0] in CUSTOM:
            c = core(e[2])
            if c is None: raise TranslationError("unrecognised new_unchecked argument")
            if c[1] != REP[e[1][0]]: raise TranslationError("new_unchecked argument type")
            fshape[key] = ('f2i', c[0], c[1], MOD[e[1][0]])
            return '(.f2i .%s %d .%s (.newUnchecked .%s .var))' % (mod, c[0], c[1], MOD[e[1][0]])
        if e[0] == 'call':
            k1 = callee_key(e[1], mod)
            inner = e[2]
            if inner[0] != 'call' or inner[2] != ('var', [var]): raise TranslationError("unrecognised float->unsigned shape")
            k2 = callee_key(inner[1], mod)
            if k2[0] != mod or k1[0] != k2[1][3:]: raise TranslationError("call chain does not compose")
            if k1[1] != 'to_' + dst: raise TranslationError("outer call is not to_%s" % dst)
            fshape[key] = ('thenInt', k2, k1)
            return '(.thenInt %s_%s %s_%s)' % (k2[0], k2[1], k1[0], k1[1])
        raise TranslationError("unrecognised float->int shape")
    raise TranslationError("not a float conversion")

fdefs = {}
for key in order:
    mod, fn = key; dst = fn[3:]
    if fn == '__trailing__': continue
    if mod in FLOATS or dst in FLOATS:
        try:
            fdefs[key] = tr_float(key)
        except (TranslationError, KeyError, ValueError) as ex:
            errors.append(dict(function='%s_%s' % key, line=funcs[key]['line'], error=str(ex), text=funcs[key]['text']))
            fdefs[key] = '.bad /- UNTRANSLATABLE -/'
for key, rec in funcs.items():
    if key[1] == '__trailing__':
        errors.append(dict(function='%s block' % key[0], line=0, error=rec['err'], text=''))

# expected coverage: 12*11 int->int, 12*2 int->float, 2*12 float->int, 2 float->float
missing = []
for s in intmods:
    for d in intmods + ['f32', 'f64']:
        if s != d and (s, 'to_' + d) not in funcs: missing.append('%s_to_%s' % (s, d))
for s in FLOATS:
    for d in intmods + list(FLOATS):
        if s != d and (s, 'to_' + d) not in funcs: missing.append('%s_to_%s' % (s, d))
for mname in missing:
    errors.append(dict(function=mname, line=0, error='conversion function not found in conv.rs', text=''))

os.makedirs(OUT, exist_ok=True)
HEADER = '-- GENERATED by translator/gen_conv.py from %s -- do not edit\n' % src_path

# ---- Conv.lean
out = [HEADER, 'import Dasp.Machine.Int', 'import Dasp.Machine.FConv', 'namespace Dasp.Gen', 'open Dasp', '']
emitted = set()
def emit(key):
    if key in emitted or key not in defs: return
    emitted.add(key)
    for k2 in deps_of(key): emit(k2)
    out.append('def %s_%s : Expr := %s' % (key[0], key[1], defs[key]))
for key in order: emit(key)
out.append('')
out.append('/-- the 132 integer<->integer conversion functions, by (source, target) format -/')
out.append('def table : Fmt → Fmt → Expr')
for s in intmods:
    for d in intmods:
        if s != d:
            out.append('  | .%s, .%s => %s' % (s, d, ('%s_to_%s' % (s, d)) if (s, 'to_' + d) in defs else '(.lit 0)'))
out.append('  | _, _ => .var')
out.append('')
# float defs: callee int functions must precede; all int defs are above
femitted = set()
def femit(key):
    if key in femitted or key not in fdefs: return
    femitted.add(key)
    for k2 in deps_of(key):
        if k2 in fdefs: femit(k2)
    out.append('def %s_%s : FConv := %s' % (key[0], key[1], fdefs[key]))
for key in order: femit(key)
out.append('')
out.append('/-- integer format -> float format conversions -/')
out.append('def i2fTable : Fmt → FFmt → FConv')
for s in intmods:
    for d in FLOATS:
        out.append('  | .%s, .%s => %s' % (s, d, ('%s_to_%s' % (s, d)) if (s, 'to_' + d) in fdefs else '.bad'))
out.append('/-- float format -> integer format conversions -/')
out.append('def f2iTable : FFmt → Fmt → FConv')
for s in FLOATS:
    for d in intmods:
        out.append('  | .%s, .%s => %s' % (s, d, ('%s_to_%s' % (s, d)) if (s, 'to_' + d) in fdefs else '.bad'))
out.append('def f2fTable : FFmt → FFmt → FConv')
out.append('  | .f32, .f64 => %s' % ('f32_to_f64' if ('f32', 'to_f64') in fdefs else '.bad'))
out.append('  | .f64, .f32 => %s' % ('f64_to_f32' if ('f64', 'to_f32') in fdefs else '.bad'))
out.append('  | a, _ => .f2f a a')
out.append('end Dasp.Gen')
open(os.path.join(OUT, 'Conv.lean'), 'w').write('\n'.join(out) + '\n')

# ---- per-source theorem modules
theorems = {}
for s in intmods:
    th = [HEADER, 'import Dasp.Gen.Conv', 'import Dasp.Machine.ConvTac', 'namespace Dasp.Gen', 'open Dasp', '']
    for d in intmods:
        if s == d: continue
        key = (s, 'to_' + d)
        if key not in defs: continue
        names = ' '.join('%s_%s' % k for k in [key] + all_callees(key))
        th.append('/-- conv.rs:%d  `%s` -/' % (funcs[key]['line'], funcs[key]['text'].replace('/-', '/ -').replace('-/', '- /')))
        th.append('theorem %s_to_%s_spec (v : Int) (h : Fmt.inRange .%s v) :\n    ok v %s_to_%s ∧ valid v %s_to_%s ∧ val v %s_to_%s = specConv .%s .%s v := by\n  unfold %s; conv_tac' % (s, d, s, s, d, s, d, s, d, s, d, names))
        theorems['%s_to_%s_spec' % (s, d)] = dict(module='Dasp.Gen.ConvThm_%s' % s, line=funcs[key]['line'], function='%s::to_%s' % (s, d))
    th.append('end Dasp.Gen')
    open(os.path.join(OUT, 'ConvThm_%s.lean' % s), 'w').write('\n'.join(th) + '\n')

# ---- table theorem
tb = [HEADER] + ['import Dasp.Gen.ConvThm_%s' % s for s in intmods] + ['namespace Dasp.Gen', 'open Dasp', '']
tb.append('/-- every one of the 132 generated conversion functions meets the specification on every\n    in-range input, in both build modes (`ok`: no overflow panic; `valid`: unchecked\n    constructors receive in-range values; `val`: the value computed) -/')
tb.append('theorem table_spec : ∀ (s d : Fmt), s ≠ d → ∀ (v : Int), s.inRange v →\n    ok v (table s d) ∧ valid v (table s d) ∧ val v (table s d) = specConv s d v')
for s in intmods:
    for d in intmods:
        if s != d: tb.append('  | .%s, .%s, _, v, h => %s_to_%s_spec v h' % (s, d, s, d))
        else: tb.append('  | .%s, .%s, hsd, _, _ => absurd rfl hsd' % (s, d))
tb.append('end Dasp.Gen')
open(os.path.join(OUT, 'ConvTable.lean'), 'w').write('\n'.join(tb) + '\n')

# ---- float conversion theorems (shape obligations closed by the generic lemmas of Lemmas/FloatConv.lean)
OFFL = {f: (0 if f.startswith('i') else 2 ** (BITS[f] - 1)) for f in BITS}
def amp(f, v='v'): return v if OFFL[f] == 0 else '(%s - %d)' % (v, OFFL[f])
NN = 'norm_num [Dasp.f32, Dasp.f64]'
ft = [HEADER] + ['import Dasp.Gen.ConvThm_%s' % s for s in intmods] + ['import Dasp.Lemmas.FloatConv', 'import Dasp.Machine.ConvTac', 'namespace Dasp.Gen', 'open Dasp', '']
fthm = {}
def emit_i2f(key):
    if key in fthm or key not in fshape: return
    s, d = key[0], key[1][3:]
    sh = fshape[key]
    name = '%s_to_%s_spec' % (s, d)
    stmt = ('/-- conv.rs:%d -/\n' % funcs[key]['line']) + 'theorem %s (v : Int) (h : Fmt.inRange .%s v) :\n    %s_to_%s.i2fVal v = specI2F Dasp.%s %s %d' % (name, s, s, d, d, amp(s), BITS[s] - 1)
    if sh[0] == 'i2f':
        k = sh[1]; pre = sh[3]; ctor = sh[4]
        if k != BITS[s] - 1:
            errors.append(dict(function='%s_to_%s' % (s, d), line=funcs[key]['line'], error='divisor is 2^%d, expected 2^%d' % (k, BITS[s] - 1), text=funcs[key]['text']))
        lemma = 'i2f_shape' if ctor == 'i2f' else 'i2fm_shape'
        if pre == '.var' and OFFL[s] == 0:
            ft.append(stmt + ' := by\n'
                  + '  unfold %s_to_%s; simp only [FConv.i2fVal, val, FFmt.fmt]\n' % (s, d)
                  + '  simp only [Fmt.inRange, Fmt.lo, Fmt.hi] at h\n'
                  + '  exact %s _ (by %s) v %d (by %s) (by %s) (by rw [abs_le]; norm_num; omega)' % (lemma, NN, k, NN, NN))
        else:
            # a general integer pre-expression: it must compute the signed amplitude without overflow
            callees = ' '.join('%s_%s' % k2 for k2 in all_callees(key))
            ft.append('/-- conv.rs:%d: the integer expression under the cast computes the signed amplitude, without overflow -/\n' % funcs[key]['line']
                  + 'theorem %s_to_%s_pre (v : Int) (h : Fmt.inRange .%s v) :\n    ok v %s ∧ val v %s = %s := by\n' % (s, d, s, pre, pre, amp(s))
                  + ('  unfold %s\n' % callees if callees else '')
                  + '  conv_tac')
            ft.append(stmt + ' := by\n'
                  + '  have hp := (%s_to_%s_pre v h).2\n' % (s, d)
                  + '  unfold %s_to_%s; simp only [FConv.i2fVal, FFmt.fmt]; rw [hp]\n' % (s, d)
                  + '  simp only [Fmt.inRange, Fmt.lo, Fmt.hi] at h\n'
                  + '  exact %s _ (by %s) %s %d (by %s) (by %s) (by rw [abs_le]; norm_num; omega)' % (lemma, NN, amp(s), k, NN, NN))
    elif sh[0] == 'viaInt':
        k0, k1 = sh[1], sh[2]
        emit_i2f(k1)
        m = k1[0]
        delta = OFFL[s] - OFFL[m]
        inner_arg = '(v - %d)' % delta if delta else 'v'
        ft.append(stmt + ' := by\n'
                  + '  have hc := (%s_%s_spec v h).2.2\n' % (k0[0], k0[1])
                  + '  have hs : specConv .%s .%s v = %s := by simp [specConv]\n' % (k0[0], k0[1][3:], inner_arg)
                  + '  unfold %s_to_%s; simp only [FConv.i2fVal, val]\n' % (s, d)
                  + '  rw [hc, hs]\n'
                  + '  have hr : Fmt.inRange .%s %s := by simp only [Fmt.inRange, Fmt.lo, Fmt.hi] at h ⊢; omega\n' % (m, inner_arg)
                  + '  have := %s_%s_spec %s hr\n' % (k1[0], k1[1], inner_arg)
                  + '  simpa using this')
    else:
        return
    fthm[key] = name
def emit_f2i(key):
    if key in fthm or key not in fshape: return
    s, d = key[0], key[1][3:]
    sh = fshape[key]
    name = '%s_to_%s_spec' % (s, d)
    k = BITS[d] - 1
    res = 'truncQ (sval n q * 2 ^ %d)' % k + ('' if OFFL[d] == 0 else ' + %d' % OFFL[d])
    stmt = ('/-- conv.rs:%d -/\n' % funcs[key]['line']) + 'theorem %s (n : Bool) (q : ℚ) (hd : InDomain Dasp.%s n q) :\n    %s_to_%s.f2iVal (.fin n q) = %s ∧ Fmt.inRange .%s (%s)' % (name, s, s, d, res, d, res)
    if sh[0] == 'f2i':
        if sh[1] != k:
            errors.append(dict(function='%s_to_%s' % (s, d), line=funcs[key]['line'], error='multiplier is 2^%d, expected 2^%d' % (sh[1], k), text=funcs[key]['text']))
        ft.append(stmt + ' := by\n'
                  + '  have hsh := f2i_shape Dasp.%s n q %d .%s hd (by %s) (by norm_num) (by norm_num)\n' % (s, sh[1], sh[2], NN)
                  + '  unfold %s_to_%s; simp only [FConv.f2iVal, val, FFmt.fmt]\n' % (s, d)
                  + '  refine ⟨hsh.1, ?_⟩\n'
                  + '  have h1 := hsh.2.1; have h2 := hsh.2.2\n'
                  + '  norm_num at h1 h2\n'
                  + '  simp only [Fmt.inRange, Fmt.lo, Fmt.hi]; omega')
    elif sh[0] == 'thenInt':
        k2, k1 = sh[1], sh[2]
        emit_f2i(k2)
        m = k2[1][3:]
        ft.append(stmt + ' := by\n'
                  + '  obtain ⟨hv, hr⟩ := %s_%s_spec n q hd\n' % (k2[0], k2[1])
                  + '  have hc := (%s_%s_spec _ hr).2.2\n' % (k1[0], k1[1])
                  + '  have hs : ∀ x : Int, specConv .%s .%s x = x + %d := by intro x; simp [specConv]\n' % (k1[0], k1[1][3:], OFFL[d] - OFFL[m])
                  + '  unfold %s_to_%s; simp only [FConv.f2iVal]\n' % (s, d)
                  + '  rw [hv, hc, hs]\n'
                  + '  refine ⟨rfl, ?_⟩\n'
                  + '  simp only [Fmt.inRange, Fmt.lo, Fmt.hi] at hr ⊢; omega')
    else:
        return
    fthm[key] = name
for key in order:
    if key[1][3:] in FLOATS and key[0] in intmods: emit_i2f(key)
for key in order:
    if key[0] in FLOATS and key[1][3:] in intmods: emit_f2i(key)
ft.append('')
ft.append('/-- every integer→float conversion is the correctly rounded amplitude / 2^(bits−1) -/')
ft.append('theorem i2f_table_spec : ∀ (s : Fmt) (p : FFmt) (v : Int), s.inRange v →\n    (i2fTable s p).i2fVal v = specI2F p.fmt (v - s.off) (s.bits - 1)')
for s in intmods:
    for d in FLOATS:
        if (s, 'to_' + d) in fthm: ft.append('  | .%s, .%s, v, h => by simpa [i2fTable] using %s_to_%s_spec v h' % (s, d, s, d))
        else: ft.append('  | .%s, .%s, v, h => by fail "untranslated %s_to_%s"' % (s, d, s, d))
ft.append('')
ft.append('/-- every float→integer conversion truncates x·2^(bits−1) toward zero and re-offsets, in range, on the documented domain -/')
ft.append('theorem f2i_table_spec : ∀ (p : FFmt) (d : Fmt) (n : Bool) (q : ℚ), InDomain p.fmt n q →\n    (f2iTable p d).f2iVal (.fin n q) = truncQ (sval n q * 2 ^ (d.bits - 1)) + d.off ∧\n    d.inRange (truncQ (sval n q * 2 ^ (d.bits - 1)) + d.off)')
for s in FLOATS:
    for d in intmods:
        if (s, 'to_' + d) in fthm: ft.append('  | .%s, .%s, n, q, hd => by simpa [f2iTable] using %s_to_%s_spec n q hd' % (s, d, s, d))
        else: ft.append('  | .%s, .%s, n, q, hd => by fail "untranslated %s_to_%s"' % (s, d, s, d))
ft.append('')
ff_names = ''.join(', %s_to_%s' % k for k in [('f32', 'f64'), ('f64', 'f32')] if (k[0], 'to_' + k[1]) in fshape)
ft.append('theorem f2f_table_spec (a b : FFmt) (x : FP) : (f2fTable a b).f2fVal x = cvt b x := by\n  cases a <;> cases b <;> simp [f2fTable, FConv.f2fVal%s]' % ff_names)
ft.append('end Dasp.Gen')
open(os.path.join(OUT, 'ConvFloatThm.lean'), 'w').write('\n'.join(ft) + '\n')
for key, name in fthm.items():
    theorems[name] = dict(module='Dasp.Gen.ConvFloatThm', line=funcs[key]['line'], function='%s::%s' % key)

json.dump(dict(source=src_path, n_int=len(defs), n_float=len(fdefs), errors=errors, theorems=theorems,
               functions={'%s_%s' % k: dict(line=funcs[k]['line'], text=funcs[k]['text']) for k in order if k[1] != '__trailing__'}),
          open(os.path.join(OUT, 'conv_manifest.json'), 'w'), indent=1)
print('gen_conv: %d int->int, %d float conversions, %d errors' % (len(defs), len(fdefs), len(errors)))
