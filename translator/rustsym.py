#!/usr/bin/env python3
"""Symbolic execution of straight-line Rust method bodies and shape unification (used by gen_osc.py).

A body made of `const` / `let [mut]` bindings, (compound) assignments to locals and to `self.<field>`, statement-`if`s
that only assign, early `return`s and a final expression is executed symbolically: every binding is evaluated in
terms of the function's INITIAL values (parameters `$0, $1, ..`, `self.<field>`), so the outcome is
        (result expression, {assigned field or local: expression})
independent of how the body names its temporaries, in which order it declares constants, how it spells literals
(`0x3d73`, `15_731u64`, `0x1_0000 as f64`) or whether an intermediate value is bound by a `let` at all.  Calls and
method calls stay opaque nodes (`self.step.step()`, `ops::f64::floor(x)`, `noise_1(..)`).

`unify(pattern, actual)` compares two such outcomes up to the laws that hold bit for bit in the arithmetic of the
code: `+`, `*`, `&`, `|`, `^`, `==`, `!=` are commutative (IEEE addition and multiplication included; nothing is
re-associated), `a < b` is `b > a`.  Pattern variables `K_<name>` match one numeric literal (or its negation) and are
returned as bindings: the constants the Lean model is instantiated with.
"""
import re
from rustexpr import TOK, TranslationError, tokenize, P, fold, mk_if, blank_comments  # noqa: F401

ATTR = re.compile(r'#\s*\[[^\]]*\]')

def strip_attrs(s):
    return ATTR.sub(lambda m: ' ' * len(m.group(0)), s)


class PS(P):
    """P with `%`, field access, indexing, n-ary calls, paths with generics-free segments and struct literals"""
    def __init__(s, toks):
        super().__init__(toks); s.no_struct = 0
    def mul(s):
        a = s.cast()
        while s.peekv() in (('op', '*'), ('op', '/'), ('op', '%')):
            op = s.eat()[1]; b = s.cast(); a = ('arith', op, a, b)
        return a
    def unary(s):
        if s.peekv() == ('op', '&'):
            s.eat()
            if s.peekv() == ('id', 'mut'): s.eat()
            return s.unary()                         # a reference to a pure value is the value
        return super().unary()
    def args(s):
        s.eat('op', '(')
        out = []
        while s.peekv() != ('op', ')'):
            out.append(s.expr())
            if s.peekv() == ('op', ','): s.eat()
        s.eat('op', ')')
        return out
    def postfix(s):
        a = s.atom()
        while True:
            if s.peekv() == ('op', '.'):
                s.eat()
                if s.peek()[0] == 'num':             # tuple field
                    a = ('field', a, s.eat()[1]); continue
                m = s.eat('id')[1]
                if s.peekv() == ('op', '('): a = ('method', m, a, s.args())
                else: a = ('field', a, m)
            elif s.peekv() == ('op', '['):
                s.eat(); i = s.expr(); s.eat('op', ']'); a = ('index', a, i)
            else:
                return a
    def ifexpr(s):
        s.eat('id', 'if')
        s.no_struct += 1; c = s.expr(); s.no_struct -= 1
        a = s.block()
        if s.peekv() != ('id', 'else'): raise TranslationError('`if` without `else` used as a value')
        s.eat('id', 'else')
        b = s.ifexpr() if s.peekv() == ('id', 'if') else s.block()
        return mk_if(c, a, b)
    def matchexpr(s):
        """`match c { true => a, false => b }` is `if c { a } else { b }`; `match n { 0 => a, 3..=5 => b, _ => c }` is a
        chain of decisions on equalities / ranges tried in order (the scrutinee must be pure if it is compared twice)"""
        s.eat('id', 'match'); s.no_struct += 1; scrut = s.expr(); s.no_struct -= 1; s.eat('op', '{')
        arms = []
        while s.peekv() != ('op', '}'):
            if s.peekv() in (('id', 'true'), ('id', 'false')): pats = [s.eat()[1]]
            else: pats = s.pattern()
            s.eat('op', '=>'); body = s.expr()
            if s.peekv() == ('op', ','): s.eat()
            arms.append((pats, body))
        s.eat('op', '}')
        if any(p[0] in ('true', 'false') for p, _ in arms):
            if len(arms) != 2 or arms[0][0] not in (['true'], ['false']) or arms[1][0] not in (['true'], ['false'], [None]) or arms[0][0] == arms[1][0]:
                raise TranslationError('match on a bool that is not `true => .., false => ..`')
            first_true = arms[0][0] == ['true']
            return mk_if(scrut, arms[0][1], arms[1][1]) if first_true else mk_if(scrut, arms[1][1], arms[0][1])
        if not arms or arms[-1][0] != [None]: raise TranslationError('match without a final `_` arm')
        tests = sum(len(p) for p, _ in arms[:-1])
        if tests > 1 and impure(scrut): raise TranslationError('match with several arms on a scrutinee with effects')
        e = arms[-1][1]
        for pats, body in reversed(arms[:-1]):
            if None in pats: raise TranslationError('`_` arm before the last arm')
            for (lo, hi) in reversed(pats):
                if lo == hi: e = ('if', ('cmp', '==', scrut, ('lit', str(lo), None)), body, e)
                else:
                    inner = ('if', ('cmp', '<=', scrut, ('lit', str(hi), None)), body, e)
                    e = ('if', ('cmp', '>=', scrut, ('lit', str(lo), None)), inner, e)
        return e
    def block(s):
        s.eat('op', '{'); r = run_block(s, {}, None); s.eat('op', '}')
        if r[1]: raise TranslationError('a block used as a value assigns to outer state')
        return r[0]
    def atom(s):
        t = s.peek()
        if t[0] == 'id' and t[1] not in ('if', 'match'):
            path = [s.eat()[1]]
            while s.peekv() == ('op', '::'):
                s.eat(); path.append(s.eat('id')[1])
            if s.peekv() == ('op', '('):
                a = s.args()
                return ('call', path, a[0]) if len(a) == 1 else ('calln', path, a)
            if s.peekv() == ('op', '{') and not s.no_struct and path[-1][:1].isupper():
                s.eat(); fields = []
                while s.peekv() != ('op', '}'):
                    f = s.eat('id')[1]
                    if s.peekv() == ('op', ':'): s.eat(); v = s.expr()
                    else: v = ('var', [f])
                    fields.append((f, v))
                    if s.peekv() == ('op', ','): s.eat()
                s.eat('op', '}')
                return ('struct', path, sorted(fields))
            return ('var', path)
        if (t[0], t[1]) == ('op', '('):
            s.eat(); s.no_struct, keep = 0, s.no_struct
            e = s.expr(); s.no_struct = keep; s.eat('op', ')'); return e
        return super().atom()


def dotted(e):
    """`self.a.b` -> 'self.a.b' (None if the expression is not a chain of fields on a plain variable)"""
    if e[0] == 'var' and len(e[1]) == 1: return e[1][0]
    if e[0] == 'field':
        b = dotted(e[1])
        return None if b is None else b + '.' + e[2]
    return None


def ev(e, env):
    """the expression with every bound name replaced by its value in terms of the initial state"""
    if isinstance(e, tuple):
        d = dotted(e) if e[0] in ('var', 'field') else None
        if d is not None and d in env: return env[d]
        return tuple(ev(c, env) if isinstance(c, (tuple, list)) else c for c in e)
    if isinstance(e, list): return [ev(c, env) if isinstance(c, (tuple, list)) else c for c in e]
    return e


def skip_item(s):
    """skip a nested `fn` item (signature and brace-matched body)"""
    while s.peekv() != ('op', '{'):
        if s.peek()[0] == 'eof': raise TranslationError('nested fn without a body')
        s.eat()
    depth = 0
    while True:
        t = s.eat()
        if (t[0], t[1]) == ('op', '{'): depth += 1
        elif (t[0], t[1]) == ('op', '}'):
            depth -= 1
            if depth == 0: return
        elif t[0] == 'eof': raise TranslationError('unbalanced braces')


def skip_type(s):
    """skip a type up to the `=` of a binding; True if it is an array type (the constant is then a table, left symbolic)"""
    arr = s.peekv() == ('op', '[')
    depth = 0
    while True:
        t = s.peek()
        if t[0] == 'eof': raise TranslationError('binding without `=`')
        if (t[0], t[1]) == ('op', '=') and depth == 0: return arr
        if t[1] in ('[', '(', '<'): depth += 1
        if t[1] in (']', ')', '>'): depth -= 1
        s.eat()


ASSIGN = {'=': None, '+=': '+', '-=': '-', '*=': '*', '/=': '/', '%=': '%'}

def run_block(s, env, state):
    """statements up to the closing brace (not consumed) -> (value or None, assigned {name: expr}); `env` is extended in
    place for `let`s of this block and, for names already visible, `state` records the assignment"""
    env = dict(env); assigned = {}
    def assign(name, val):
        env[name] = val; assigned[name] = val
    while True:
        t = s.peek()
        if t[0] == 'eof' or (t[0], t[1]) == ('op', '}'):
            return None, dict(assigned)
        if (t[0], t[1]) == ('op', ';'): s.eat(); continue
        if (t[0], t[1]) == ('id', 'fn') or ((t[0], t[1]) == ('id', 'pub') and s.t[s.i + 1][:2] == ('id', 'fn')):
            skip_item(s); continue
        if (t[0], t[1]) in (('id', 'let'), ('id', 'const')):
            s.eat()
            if s.peekv() == ('id', 'mut'): s.eat()
            name = s.eat('id')[1]; arr = False
            if s.peekv() == ('op', ':'): s.eat(); arr = skip_type(s)
            s.eat('op', '=')
            if arr:                                   # a table: stays a symbolic name
                depth = 0
                while not (s.peekv() == ('op', ';') and depth == 0):
                    v = s.eat()[1]
                    if v in ('[', '(', '{'): depth += 1
                    if v in (']', ')', '}'): depth -= 1
                s.eat('op', ';'); continue
            e = ev(s.expr(), env); s.eat('op', ';')
            env[name] = e; LOCALS.add(name)
            continue
        if (t[0], t[1]) == ('id', 'return'):
            s.eat(); e = ev(s.expr(), env)
            if s.peekv() == ('op', ';'): s.eat()
            return e, strip_locals(assigned)
        if (t[0], t[1]) == ('id', 'if'):
            save = s.i
            s.eat(); s.no_struct += 1; c = ev(s.expr(), env); s.no_struct -= 1
            s.eat('op', '{'); v1, a1 = run_block(s, env, True); s.eat('op', '}')
            v2, a2 = None, {}
            has_else = s.peekv() == ('id', 'else')
            if has_else:
                s.eat()
                if s.peekv() == ('id', 'if'): raise TranslationError('else-if chains of statements are not handled')
                s.eat('op', '{'); v2, a2 = run_block(s, env, True); s.eat('op', '}')
            if v1 is None and v2 is None:            # a statement: merge what the branches assigned
                for k in sorted(set(a1) | set(a2)):
                    old = env.get(k, name_expr(k))
                    assign(k, mk_if(c, a1.get(k, old), a2.get(k, old)))
                continue
            if v1 is not None and v2 is None and not has_else:
                # `if c { return a; } rest`  (early return)
                rest, ar = run_block(s, env, state)
                if rest is None: raise TranslationError('early return without a value after it')
                keys = sorted(set(a1) | set(ar))
                merged = {k: mk_if(c, a1.get(k, env.get(k, name_expr(k))), ar.get(k, env.get(k, name_expr(k)))) for k in keys}
                assigned.update(merged)
                return mk_if(c, v1, rest), strip_locals(assigned)
            if v1 is not None and v2 is not None:
                keys = sorted(set(a1) | set(a2))
                for k in keys:
                    old = env.get(k, name_expr(k)); assign(k, mk_if(c, a1.get(k, old), a2.get(k, old)))
                val = mk_if(c, v1, v2)
                if s.peekv() == ('op', ';'): s.eat(); continue
                return val, strip_locals(assigned)
            s.i = save
            raise TranslationError('`if` whose branches are neither all values nor all assignments')
        # assignment or the final expression
        save = s.i
        e = s.expr()
        op = s.peek()
        if op[0] == 'op' and op[1] in ASSIGN:
            name = dotted(e)
            if name is None: raise TranslationError('assignment to something that is not a variable or field: %r' % (e,))
            s.eat(); rhs = ev(s.expr(), env); s.eat('op', ';')
            if ASSIGN[op[1]]: rhs = ('arith', ASSIGN[op[1]], env.get(name, name_expr(name)), rhs)
            assign(name, rhs)
            continue
        e = ev(e, env)
        if s.peekv() == ('op', ';'):
            s.eat(); EFFECTS.append(e); continue      # an expression statement (a call made for its effect)
        return e, strip_locals(assigned)


LOCALS = set()
EFFECTS = []

def name_expr(k):
    parts = k.split('.')
    e = ('var', [parts[0]])
    for p in parts[1:]: e = ('field', e, p)
    return e

def strip_locals(assigned):
    return dict(assigned)


def exec_inlined(text, params, texts):
    """exec_fn with pure helper calls inlined (helpers looked up in `texts`)"""
    val, st, eff = exec_fn(text, params)
    return (nfold(inline_calls(val, texts)) if val is not None else None,
            {k: nfold(inline_calls(v, texts)) for k, v in st.items()}, [nfold(inline_calls(x, texts)) for x in eff])


def exec_fn(text, params):
    """text of a fn body (without the outer braces), parameter names -> (result, state) with parameters renamed $0.."""
    global LOCALS, EFFECTS
    LOCALS = set(); EFFECTS = []
    s = PS(tokenize(strip_attrs(text)))
    env = {p: ('var', ['$%d' % i]) for i, p in enumerate(params)}
    val, assigned = run_block(s, env, None)
    if s.peek()[0] != 'eof': raise TranslationError('trailing tokens after the body: %r' % (s.peek(),))
    # assignments to parameters / locals are not part of the outcome
    state = {k: nfold(v) for k, v in assigned.items() if k.startswith('self.')}
    return (nfold(val) if val is not None else None), state, [nfold(e) for e in EFFECTS]


def floatish(e):
    """evidently a floating-point value: a float literal, a cast to f32/f64, or built from one by negation / arithmetic"""
    if not isinstance(e, tuple): return False
    if e[0] == 'lit': return '.' in e[1]
    if e[0] == 'as': return e[1] in ('f32', 'f64')
    if e[0] == 'neg': return floatish(e[1])
    if e[0] == 'arith': return floatish(e[2]) or floatish(e[3])
    if e[0] == 'var': return e[1][-1] in ('PI', 'TAU') and 'consts' in e[1]
    return False

def nfold(e):
    """constant folding below every kind of node, and three identities that hold bit for bit in IEEE arithmetic
    (round-to-nearest is symmetric in sign): a - b = a + (-b), -(a * b) = a * (-b), TAU = PI * 2.0"""
    if isinstance(e, list): return [nfold(c) if isinstance(c, (tuple, list)) else c for c in e]
    if not isinstance(e, tuple): return e
    e = tuple(nfold(c) if isinstance(c, (tuple, list)) else c for c in e)
    if e[0] == 'var' and len(e[1]) >= 2 and e[1][-1] == 'TAU' and e[1][-2] == 'consts' and 'f64' in e[1]:
        return ('arith', '*', ('var', e[1][:-1] + ['PI']), ('lit', '2.0', None))
    if e[0] == 'arith' and e[1] == '-' and (floatish(e[2]) or floatish(e[3])):
        return ('arith', '+', e[2], nfold(('neg', e[3])))
    if e[0] == 'neg' and e[1][0] == 'neg' and floatish(e[1][1]): return e[1][1]
    if e[0] == 'neg' and e[1][0] == 'arith' and e[1][1] == '*' and floatish(e[1]):
        a, b = e[1][2], e[1][3]
        if lit_value(a) is not None and lit_value(b) is None: a, b = b, a       # move the sign onto the literal factor
        return ('arith', '*', a, nfold(('neg', b)))
    if e[0] == 'if' and e[1][0] == 'cmp' and e[1][1] == '!=':
        return ('if', ('cmp', '==', e[1][2], e[1][3]), e[3], e[2])          # `!=` is the exact negation of `==` (also for NaN)
    if e[0] == 'as' and e[1] in ('usize', 'u64', 'u32', 'u16', 'i64', 'i32', 'i16') and e[2][0] == 'as' and e[2][1] == 'u8' and not floatish(e[2][2]):
        # an integer truncated to its low byte and widened again (`(i as u8) as usize`) is `(i & 0xFF) as usize`
        return ('as', e[1], ('bit', '&', e[2][2], ('lit', '255', None)))
    return fold(e) if e[0] in ('arith', 'shift', 'bit', 'neg', 'as') else e


def subst_params(e, args):
    if isinstance(e, tuple):
        if e[0] == 'var' and len(e[1]) == 1 and e[1][0].startswith('$'): return args[int(e[1][0][1:])]
        return tuple(subst_params(c, args) if isinstance(c, (tuple, list)) else c for c in e)
    if isinstance(e, list): return [subst_params(c, args) if isinstance(c, (tuple, list)) else c for c in e]
    return e


def inline_calls(e, texts, depth=0):
    """calls of free functions that are defined exactly once in `texts` (searched in order) and whose body is pure
    (no assignment to state, no effect statement) are replaced by their value: where a helper's boundary lies is
    not behaviour"""
    if isinstance(e, list): return [inline_calls(c, texts, depth) if isinstance(c, (tuple, list)) else c for c in e]
    if not isinstance(e, tuple): return e
    e = tuple(inline_calls(c, texts, depth) if isinstance(c, (tuple, list)) else c for c in e)
    if e[0] in ('call', 'calln') and (len(e[1]) == 1 or (len(e[1]) == 2 and e[1][0] == 'Self')) and depth < 8:
        name = e[1][-1]; args = [e[2]] if e[0] == 'call' else list(e[2])
        if any(impure(a) for a in args): return e           # an argument with an effect must stay evaluated once
        for t in texts:
            defs = re.findall(r'\bfn\s+%s\b' % re.escape(name), t)
            if len(defs) != 1: continue
            f = find_fn(t, name)
            if f is None or len(f[0]) != len(args): return e
            saved = (set(LOCALS), list(EFFECTS))
            try:
                val, st, eff = exec_fn(f[2], f[0])
            except TranslationError:
                return e
            finally:
                restore_globals(saved)
            if val is None or st or eff: return e
            return inline_calls(nfold(subst_params(val, args)), texts, depth + 1)
    return e


PURE_METHODS = {'wrapping_mul', 'wrapping_add', 'wrapping_sub', 'wrapping_neg', 'abs', 'to_bits'}
PURE_CALLS = {('ops', 'f64', 'floor'), ('ops', 'f32', 'floor'), ('f64', 'from_bits'), ('f32', 'from_bits')}

def impure(e):
    if isinstance(e, list): return any(impure(c) for c in e if isinstance(c, (tuple, list)))
    if not isinstance(e, tuple): return False
    if e[0] == 'method' and e[1] not in PURE_METHODS: return True
    if e[0] in ('call', 'calln') and tuple(e[1]) not in PURE_CALLS: return True
    return any(impure(c) for c in e if isinstance(c, (tuple, list)))


def restore_globals(saved):
    global LOCALS, EFFECTS
    LOCALS, EFFECTS = saved


# ------------------------------------------------------------------------------------------ literals and folding

def lit_value(e):
    """('int', n, text) / ('float', value, decimal text) for a literal, its negation, or an integer literal cast to a float"""
    neg = False
    while e[0] == 'neg': neg = not neg; e = e[1]
    if e[0] == 'as' and e[1] in ('f64', 'f32') and e[2][0] == 'lit' and '.' not in e[2][1]:
        n = int(e[2][1])
        if abs(n) >= 2 ** 53: return None
        return ('float', float(-n if neg else n), ('-' if neg else '') + str(n) + '.0')
    if e[0] != 'lit': return None
    if '.' in e[1] or 'e' in e[1].lower():
        return ('float', -float(e[1]) if neg else float(e[1]), ('-' if neg else '') + e[1])
    return ('int', -int(e[1]) if neg else int(e[1]), ('-' if neg else '') + e[1])


COMM = {('arith', '+'), ('arith', '*'), ('bit', '&'), ('bit', '|'), ('bit', '^'), ('cmp', '=='), ('cmp', '!=')}
MIRROR = {'<': '>', '>': '<', '<=': '>=', '>=': '<='}

def unify(p, a, b):
    """bindings extended so that pattern `p` equals `a` up to commutativity / mirrored comparisons, or None"""
    if isinstance(p, tuple) and p[0] == 'var' and len(p[1]) == 1 and p[1][0].startswith('K_'):
        v = lit_value(a)
        if v is None: return None
        k = p[1][0][2:]
        if k in b: return b if b[k][:2] == v[:2] else None
        nb = dict(b); nb[k] = v; return nb
    pv, av = (lit_value(p) if isinstance(p, tuple) else None), (lit_value(a) if isinstance(a, tuple) else None)
    if pv is not None and av is not None:
        return b if pv[:2] == av[:2] else None
    if isinstance(p, tuple) and isinstance(a, tuple):
        if len(p) != len(a) or p[0] != a[0]:
            return None
        if p[0] in ('arith', 'bit', 'cmp') and (p[0], p[1]) in COMM and a[1] == p[1]:
            for x, y in ((a[2], a[3]), (a[3], a[2])):
                b1 = unify(p[2], x, b)
                if b1 is not None:
                    b2 = unify(p[3], y, b1)
                    if b2 is not None: return b2
            return None
        if p[0] == 'method' and p[1] in ('wrapping_mul', 'wrapping_add') and a[1] == p[1] and len(p[3]) == 1 and len(a[3]) == 1 \
                and not impure(a[2]) and not impure(a[3][0]):
            for x, y in ((a[2], a[3][0]), (a[3][0], a[2])):      # receiver and argument of a commutative operation
                b1 = unify(p[2], x, b)
                if b1 is not None:
                    b2 = unify(p[3][0], y, b1)
                    if b2 is not None: return b2
            return None
        if p[0] == 'cmp' and p[1] in MIRROR and a[1] == MIRROR[p[1]]:
            b1 = unify(p[2], a[3], b)
            return None if b1 is None else unify(p[3], a[2], b1)
        for x, y in zip(p, a):
            b = unify(x, y, b)
            if b is None: return None
        return b
    if isinstance(p, list) and isinstance(a, list):
        if len(p) != len(a): return None
        for x, y in zip(p, a):
            b = unify(x, y, b)
            if b is None: return None
        return b
    return b if p == a else None


def narrow(p, a):
    """the smallest pair of corresponding subterms that fails to unify (for the error message)"""
    while isinstance(p, tuple) and isinstance(a, tuple) and len(p) == len(a) and p[0] == a[0]:
        if p[0] in ('arith', 'bit', 'cmp') and p[1] != a[1]: break
        pairs = list(zip(p, a))
        if p[0] in ('arith', 'bit', 'cmp') and (p[0], p[1]) in COMM and unify(p[2], a[2], {}) is None and unify(p[2], a[3], {}) is not None:
            pairs = [(p[2], a[3]), (p[3], a[2])]
        bad = [(x, y) for x, y in pairs if isinstance(x, (tuple, list)) and unify(x, y, {}) is None]
        if len(bad) != 1: break
        p, a = bad[0]
        if isinstance(p, list):
            if not (isinstance(a, list) and len(a) == len(p)): break
            bad = [(x, y) for x, y in zip(p, a) if unify(x, y, {}) is None]
            if len(bad) != 1: break
            p, a = bad[0]
    return p, a

def brief(e, n=260):
    t = show(e)
    return t if len(t) <= n else t[:n] + ' ...'

def unify_outcome(pat, act):
    """(result, state, effects) of the expected text against the actual one"""
    b = {}
    (pr, ps, pe), (ar, as_, ae) = pat, act
    if (pr is None) != (ar is None): return None, 'one of the two yields a value, the other does not'
    if pr is not None:
        b = unify(pr, ar, b)
        if b is None:
            x, y = narrow(pr, ar)
            return None, 'the value differs: expected %s got %s' % (brief(x), brief(y))
    if set(ps) != set(as_): return None, 'assigned state differs: expected %s got %s' % (sorted(ps), sorted(as_))
    for k in sorted(ps):
        b = unify(ps[k], as_[k], b)
        if b is None:
            x, y = narrow(ps[k], as_[k])
            return None, 'the new value of %s differs: expected %s got %s' % (k, brief(x), brief(y))
    if len(pe) != len(ae): return None, 'different number of effect statements'
    for x, y in zip(pe, ae):
        b = unify(x, y, b)
        if b is None: return None, 'an effect statement differs'
    return b, None


def show(e):
    if isinstance(e, tuple):
        k = e[0]
        if k == 'lit': return e[1]
        if k == 'var': return '::'.join(e[1])
        if k == 'neg': return '-' + show(e[1])
        if k == 'not': return '!' + show(e[1])
        if k in ('arith', 'bit', 'cmp', 'shift'): return '(%s %s %s)' % (show(e[2]), e[1], show(e[3]))
        if k == 'as': return '(%s as %s)' % (show(e[2]), e[1])
        if k == 'call': return '%s(%s)' % ('::'.join(e[1]), show(e[2]))
        if k == 'calln': return '%s(%s)' % ('::'.join(e[1]), ', '.join(show(x) for x in e[2]))
        if k == 'method': return '%s.%s(%s)' % (show(e[2]), e[1], ', '.join(show(x) for x in e[3]))
        if k == 'field': return '%s.%s' % (show(e[1]), e[2])
        if k == 'index': return '%s[%s]' % (show(e[1]), show(e[2]))
        if k == 'if': return 'if %s { %s } else { %s }' % (show(e[1]), show(e[2]), show(e[3]))
        if k == 'struct': return '%s { %s }' % ('::'.join(e[1]), ', '.join('%s: %s' % (f, show(v)) for f, v in e[2]))
    return repr(e)


SIG = r'(?:pub\s+)?fn\s+%s\s*(?:<[^>]*>)?\s*\(([^)]*)\)\s*(?:->\s*([^{]+?))?\s*(?:where[^{]*)?\{'

def find_fn(txt, name):
    """(params, return type, body text) of `fn name` in `txt` (first occurrence), or None"""
    m = re.search(SIG % re.escape(name), txt)
    if not m: return None
    i = m.end() - 1; depth = 0; j = i
    while j < len(txt):
        if txt[j] == '{': depth += 1
        elif txt[j] == '}':
            depth -= 1
            if depth == 0: break
        j += 1
    params = []
    for p in m.group(1).split(','):
        p = p.strip()
        if not p: continue
        if p in ('self', '&self', '&mut self', 'mut self'): continue
        params.append(re.sub(r'^mut\s+', '', p.split(':')[0].strip()))
    return params, (m.group(2) or '').strip(), txt[i + 1:j], m.start()
