#!/usr/bin/env python3
"""Shared by the translators: tokenizer and recursive-descent parser for the Rust expression subset the
translated function bodies are written in (precedence: unary/`as` > `* /` > `+ -` > `<< >>` > `&` > `^` > `|` >
comparisons; `if/else`, `match` on integer ranges, `let` bindings and early `return` inside an `if` are desugared —
the bodies are pure), substitution, and constant folding of integer literal expressions."""
import re

def blank_comments(src):
    """line comments and (nested) block comments replaced by spaces; newlines, offsets and string literals survive"""
    out = []; i = 0; n = len(src); depth = 0; in_str = False
    while i < n:
        c = src[i]
        if depth == 0 and not in_str and c == '"':
            in_str = True; out.append(c); i += 1; continue
        if in_str:
            out.append(c)
            if c == '\\' and i + 1 < n: out.append(src[i + 1]); i += 2; continue
            if c == '"': in_str = False
            i += 1; continue
        if src.startswith('/*', i): depth += 1; out.append('  '); i += 2; continue
        if depth and src.startswith('*/', i): depth -= 1; out.append('  '); i += 2; continue
        if depth: out.append('\n' if c == '\n' else ' '); i += 1; continue
        if src.startswith('//', i):
            while i < n and src[i] != '\n': out.append(' '); i += 1
            continue
        out.append(c); i += 1
    return ''.join(out)

TOK = re.compile(r'\s*(?:(0x[0-9a-fA-F_]+(?:[iu](?:8|16|32|64))?|0b[01_]+(?:[iu](?:8|16|32|64))?|0o[0-7_]+(?:[iu](?:8|16|32|64))?|\d[\d_]*\.\d[\d_]*(?:f32|f64)?|\d[\d_]*(?:f32|f64|[iu](?:8|16|32|64))?)|([A-Za-z_][A-Za-z_0-9]*)|(::|<<|>>|<=|>=|==|!=|=>|\|\||&&|\+=|-=|\*=|/=|%=|\.\.=|\.\.|[-+*/%<>(){}\[\].,;=!^&|:]))')

class TranslationError(Exception):
    pass

def tokenize(s):
    pos = 0; out = []; s = s.rstrip()
    while pos < len(s):
        m = TOK.match(s, pos)
        if not m:
            if s[pos:].strip() == '': break
            raise TranslationError("cannot tokenize at %r" % s[pos:pos + 20])
        pos = m.end()
        if m.group(1):
            t = m.group(1).replace('_', '')
            suffix = None
            if t[:2] in ('0x', '0b', '0o'):
                ms = re.match(r'^(0[xbo][0-9a-fA-F]+?)([iu](?:8|16|32|64))?$', t)
                t, suffix = ms.group(1), ms.group(2)
                t = str(int(t, 0))          # integer literals travel in decimal
            else:
                ms = re.match(r'^(.*?)(f32|f64|[iu](?:8|16|32|64))$', t)
                if ms: t, suffix = ms.group(1), ms.group(2)
                if suffix in ('f32', 'f64') and '.' not in t: t = t + '.0'
            out.append(('num', t, suffix))
        elif m.group(2): out.append(('id', m.group(2)))
        else: out.append(('op', m.group(3)))
    return out

class P:
    def __init__(s, toks): s.t = toks; s.i = 0
    def peek(s): return s.t[s.i] if s.i < len(s.t) else ('eof', '')
    def peekv(s):
        t = s.peek(); return (t[0], t[1])
    def eat(s, k=None, v=None):
        t = s.peek()
        if (k and t[0] != k) or (v and t[1] != v):
            raise TranslationError("expected %s %s got %s" % (k, v, t))
        s.i += 1; return t
    def expr(s): return s.lor()
    def lor(s):
        a = s.land()
        while s.peekv() == ('op', '||'):
            s.eat(); b = s.land(); a = ('or', a, b)
        return a
    def land(s):
        a = s.cmp()
        while s.peekv() == ('op', '&&'):
            s.eat(); b = s.cmp(); a = ('and', a, b)
        return a
    def cmp(s):
        a = s.bitor()
        while s.peekv() in (('op', '<'), ('op', '>'), ('op', '<='), ('op', '>='), ('op', '=='), ('op', '!=')):
            op = s.eat()[1]; b = s.bitor(); a = ('cmp', op, a, b)
        return a
    def bitor(s):
        a = s.bitxor()
        while s.peekv() == ('op', '|'):
            s.eat(); b = s.bitxor(); a = ('bit', '|', a, b)
        return a
    def bitxor(s):
        a = s.bitand()
        while s.peekv() == ('op', '^'):
            s.eat(); b = s.bitand(); a = ('bit', '^', a, b)
        return a
    def bitand(s):
        a = s.shift()
        while s.peekv() == ('op', '&'):
            s.eat(); b = s.shift(); a = ('bit', '&', a, b)
        return a
    def shift(s):
        a = s.add()
        while s.peekv() in (('op', '<<'), ('op', '>>')):
            op = s.eat()[1]; b = s.add(); a = ('shift', op, a, b)
        return a
    def add(s):
        a = s.mul()
        while s.peekv() in (('op', '+'), ('op', '-')):
            op = s.eat()[1]; b = s.mul(); a = ('arith', op, a, b)
        return a
    def mul(s):
        a = s.cast()
        while s.peekv() in (('op', '*'), ('op', '/')):
            op = s.eat()[1]; b = s.cast(); a = ('arith', op, a, b)
        return a
    def cast(s):
        a = s.unary()
        while s.peekv() == ('id', 'as'):
            s.eat(); t = s.eat('id')[1]; a = ('as', t, a)
        return a
    def unary(s):
        if s.peekv() == ('op', '-'):
            s.eat(); return ('neg', s.unary())
        if s.peekv() == ('op', '!'):
            s.eat(); return ('not', s.unary())
        return s.postfix()
    def postfix(s):
        a = s.atom()
        while s.peekv() == ('op', '.'):
            s.eat(); m = s.eat('id')[1]; s.eat('op', '(')
            args = []
            while s.peekv() != ('op', ')'):
                args.append(s.expr())
                if s.peekv() == ('op', ','): s.eat()
            s.eat('op', ')'); a = ('method', m, a, args)
        return a
    def stmts(s):
        # `let x = e;`* then the value expression (bodies are pure: a `let` is substituted)
        if s.peekv() == ('id', 'let'):
            s.eat(); name = s.eat('id')[1]
            if s.peekv() == ('op', ':'):
                s.eat(); s.eat('id')
            s.eat('op', '='); e1 = s.expr(); s.eat('op', ';')
            body = s.stmts()
            return subst(body, name, e1)
        if s.peekv() == ('id', 'return'):
            s.eat(); e = s.expr()
            if s.peekv() == ('op', ';'): s.eat()
            return e
        if s.peekv() == ('id', 'if'):
            # `if c { return a; } rest`  ==  `if c { a } else { rest }`   (early return; bodies are pure)
            save = s.i
            s.eat(); c = s.expr()
            if s.peekv() == ('op', '{') and s.t[s.i + 1][:2] == ('id', 'return'):
                a = s.block()
                if s.peekv() != ('id', 'else'):
                    if s.peekv() == ('op', ';'): s.eat()
                    rest = s.stmts()
                    return mk_if(c, a, rest)
            s.i = save
        return s.expr()
    def block(s):
        s.eat('op', '{'); e = s.stmts(); s.eat('op', '}'); return e
    def pat_lit(s):
        neg = False
        if s.peekv() == ('op', '-'): s.eat(); neg = True
        t = s.eat('num')
        if '.' in t[1]: raise TranslationError("float pattern")
        return -int(t[1]) if neg else int(t[1])
    def pattern(s):
        # `_` | lit | lit..=lit | lit..lit, alternatives with `|`; returns list of (lo, hi) inclusive or None for `_`
        alts = []
        while True:
            if s.peekv() == ('id', '_'):
                s.eat(); alts.append(None)
            else:
                lo = s.pat_lit(); hi = lo
                if s.peekv() == ('op', '..='): s.eat(); hi = s.pat_lit()
                elif s.peekv() == ('op', '..'): s.eat(); hi = s.pat_lit() - 1
                alts.append((lo, hi))
            if s.peekv() == ('op', '|'): s.eat(); continue
            return alts
    def matchexpr(s):
        s.eat('id', 'match'); scrut = s.shift(); s.eat('op', '{')
        arms = []
        while s.peekv() != ('op', '}'):
            pats = s.pattern(); s.eat('op', '=>')
            body = s.expr()
            if s.peekv() == ('op', ','): s.eat()
            arms.append((pats, body))
        s.eat('op', '}')
        # desugar into nested ifs (arms are tried in order; the last arm must be the catch-all)
        if not arms or None not in arms[-1][0]: raise TranslationError("match without a final `_` arm")
        e = arms[-1][1]
        for pats, body in reversed(arms[:-1]):
            if None in pats: raise TranslationError("`_` arm before the last arm")
            for (lo, hi) in reversed(pats):
                inner = ('if', ('cmp', '<=', scrut, ('lit', str(hi), None)), body, e)
                e = ('if', ('cmp', '>=', scrut, ('lit', str(lo), None)), inner, e)
        return e
    def ifexpr(s):
        s.eat('id', 'if'); c = s.expr(); a = s.block(); s.eat('id', 'else')
        if s.peekv() == ('id', 'if'): b = s.ifexpr()
        else: b = s.block()
        return mk_if(c, a, b)
    def atom(s):
        t = s.peek()
        if (t[0], t[1]) == ('op', '('):
            s.eat(); e = s.expr(); s.eat('op', ')'); return e
        if (t[0], t[1]) == ('op', '{'):
            return s.block()
        if (t[0], t[1]) == ('id', 'if'):
            return s.ifexpr()
        if (t[0], t[1]) == ('id', 'match'):
            return s.matchexpr()
        if t[0] == 'num': s.eat(); return ('lit', t[1], t[2])
        if t[0] == 'id':
            path = [s.eat()[1]]
            while s.peekv() == ('op', '::'):
                s.eat(); path.append(s.eat('id')[1])
            if s.peekv() == ('op', '('):
                s.eat(); arg = s.expr(); s.eat('op', ')'); return ('call', path, arg)
            return ('var', path)
        raise TranslationError("unexpected token %s" % (t,))

def mk_if(c, a, b):
    # `if !c { a } else { b }` is `if c { b } else { a }` (NOT `c` with the comparison negated: `!(x >= 0.0)` holds for NaN)
    if c[0] == 'not': return mk_if(c[1], b, a)
    # short-circuit connectives as nested decisions (conditions are pure)
    if c[0] == 'or': return mk_if(c[1], a, mk_if(c[2], a, b))
    if c[0] == 'and': return mk_if(c[1], mk_if(c[2], a, b), b)
    return ('if', c, a, b)

def subst(e, name, by):
    if isinstance(e, tuple):
        if e[0] == 'var' and e[1] == [name]: return by
        return tuple(subst(c, name, by) if isinstance(c, (tuple, list)) else c for c in e)
    if isinstance(e, list): return [subst(c, name, by) if isinstance(c, (tuple, list)) else c for c in e]
    return e

def fold(e):
    """constant folding of integer literal expressions (`1 << 23`, `0x7FFF + 1`, `(1 << 31) - 1`): a
    literal's spelling is not semantics.  The result keeps a type suffix if one operand carried one."""
    if not isinstance(e, tuple): return e
    k = e[0]
    if k in ('lit', 'var'): return e
    if k == 'call': return ('call', e[1], fold(e[2]))
    if k == 'method': return ('method', e[1], fold(e[2]), [fold(a) for a in e[3]])
    if k == 'as': return ('as', e[1], fold(e[2]))
    if k == 'neg':
        a = fold(e[1])
        if a[0] == 'lit' and '.' not in a[1]: return ('lit', str(-int(a[1])), a[2])
        return ('neg', a)
    if k in ('arith', 'shift', 'bit', 'cmp'):
        a, b = fold(e[2]), fold(e[3])
        if k != 'cmp' and a[0] == 'lit' and b[0] == 'lit' and '.' not in a[1] and '.' not in b[1] and not (k == 'arith' and e[1] == '/'):
            x, y = int(a[1]), int(b[1])
            sfx = a[2] if a[2] else (b[2] if k != 'shift' else None)
            if a[2] and b[2] and a[2] != b[2] and k != 'shift': return (k, e[1], a, b)
            v = {'+': x + y, '-': x - y, '*': x * y, '<<': x << y if 0 <= y < 128 else None, '>>': x >> y if 0 <= y < 128 else None,
                 '^': x ^ y, '&': x & y, '|': x | y}[e[1]]
            if v is not None: return ('lit', str(v), sfx)
        return (k, e[1], a, b)
    if k == 'if': return ('if', fold(e[1]), fold(e[2]), fold(e[3]))
    if k == 'not': return ('not', fold(e[1]))
    return e

