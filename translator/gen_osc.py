#!/usr/bin/env python3
"""Translator: /repo/dasp_signal/src/lib.rs  ->  lean/Dasp/Gen/Osc.lean  (+ Gen/osc_manifest.json)

Reads, on every run, the literal data of the oscillator / noise generators (property C17):

  * `fn noise_1`: the three `const PRIME_n: u64`, the seed shift of `(seed << K) ^ seed`, the
    mask `& 0x7fffffff` and the divisor `/ 1_073_741_824.0`; the shape of the expression
    (wrapping_mul / wrapping_add chain, `1.0 - (...) as f64 / D`) and the seed increment
    `self.seed = self.seed.wrapping_add(1)` are recognised literally (whitespace-insensitive);
  * `NoiseSimplex::next_sample`: `const TWO_POW_SIXTEEN: f64`, the 256-entry `const PERM: [u8; 256]`,
    the gradient masks (`hash & 0x0F`, `h & 7`, `h & 8`) and the final scale `0.395 * (n0 + n1)`;
  * `Sine::next`: `const PI_2: f64 = core::f64::consts::PI * 2.0` (emitted as the f64 bit pattern
    of that constant expression), `Saw::next`: `phase * -2.0 + 1.0`, `Square::next`:
    `if phase < 0.5 { 1.0 } else { -1.0 }`, `Phase::next_phase`: `next_phase_wrapped_to(1.0)`.

The *meaning* (how these constants are combined) lives in lean/Dasp/Model/Osc.lean, which is
hand-transcribed and validated bit-for-bit by the correspondence streams; this translator ties
the literal data to the current source text.  A pattern that is not found is reported in
osc_manifest.json["errors"] (a broken obligation) and its definition is emitted as a
placeholder value that makes the theorems / the correspondence fail.
"""
import re, sys, json, os, struct
from fractions import Fraction

REPO = os.environ.get('VERIF_REPO', '/repo')
OUT = sys.argv[1] if len(sys.argv) > 1 else os.path.join(os.path.dirname(__file__), '..', 'lean', 'Dasp', 'Gen')
src_path = os.path.join(REPO, 'dasp_signal/src/lib.rs')
src = open(src_path).read()
# comments blanked, offsets and line numbers survive
sys.path.insert(0, os.path.dirname(os.path.abspath(__file__)))
from rustexpr import blank_comments
src_nc = blank_comments(src)

errors = []
found = {}

def line_of(pos):
    return src_nc.count('\n', 0, pos) + 1

def err(name, msg, line=0, text=''):
    errors.append(dict(function=name, line=line, error=msg, text=text))

def region(name, start_pat, end_pat=None, within=None):
    """text span starting at start_pat up to the matching close of its first `{` (brace matched)"""
    base, txt = (0, src_nc) if within is None else within
    m = re.search(start_pat, txt)
    if not m:
        err(name, 'pattern not found: %s' % start_pat); return None
    i = txt.find('{', m.end() - 1 if txt[m.end() - 1] == '{' else m.end())
    if i < 0:
        err(name, 'no body after %s' % start_pat); return None
    depth = 0; j = i
    while j < len(txt):
        if txt[j] == '{': depth += 1
        elif txt[j] == '}':
            depth -= 1
            if depth == 0: break
        j += 1
    return (base + m.start(), txt[m.start():j + 1])

def squash(s):
    return re.sub(r'\s+', '', s)

def num_int(tok):
    t = tok.replace('_', '')
    t = re.sub(r'(u64|i64|u8|usize|u32|i32)$', '', t)
    return int(t, 16) if t.lower().startswith('0x') else int(t)

def float_lit(tok):
    """decimal float literal -> (mantissa, exp10) with value = mantissa / 10^exp10, exactly"""
    t = tok.replace('_', '')
    t = re.sub(r'_?f64$', '', t)
    m = re.fullmatch(r'(\d+)\.(\d*)', t)
    if not m: raise ValueError('not a plain decimal float literal: %r' % tok)
    frac = m.group(2).rstrip('0')
    return int(m.group(1) + frac), len(frac)

def need(name, reg, pat, what, flags=0):
    """search `pat` in the whitespace-squashed region; record a broken obligation if absent"""
    if reg is None:
        return None
    base, txt = reg
    m = re.search(pat, squash(txt), flags)
    if not m:
        err(name, 'expected %s' % what, line_of(base), ' '.join(txt.split())[:400])
        return None
    return m

# ------------------------------------------------------------------ shape recognition (semantic, see rustsym.py)
from rustsym import exec_inlined, unify_outcome, find_fn, TranslationError as SymError, strip_attrs
SRC_NA = strip_attrs(src_nc)

def match_fn(name, reg, fn_name, pat_params, pat_text, what, helpers=''):
    """bindings of the K_ holes if `fn fn_name` inside `reg` (or, failing that, a function of that name defined once
    anywhere in the file), executed symbolically with its pure helpers inlined, has the outcome of `pat_text`
    (whose own helpers, with holes, are given in `helpers`)"""
    if reg is None: return None
    base, txt = reg
    txt = strip_attrs(txt)
    f = find_fn(txt, fn_name)
    if f is None and len(re.findall(r'\bfn\s+%s\b' % fn_name, SRC_NA)) == 1:
        base, f = 0, find_fn(SRC_NA, fn_name)
    if f is None:
        err(name, 'fn %s not found' % fn_name, line_of(base)); return None
    params, ret, body, off = f
    ln = line_of(base + off)
    text = ' '.join(body.split())[:500]
    if len(params) != len(pat_params):
        err(name, 'fn %s takes %d parameters, expected %d' % (fn_name, len(params), len(pat_params)), ln, text); return None
    try:
        act = exec_inlined(body, params, [txt, SRC_NA])
    except (SymError, ValueError, IndexError) as ex:
        err(name, 'cannot read the body of %s: %s (expected %s)' % (fn_name, ex, what), ln, text); return None
    pat = exec_inlined(pat_text, pat_params, [helpers])
    bnd, why = unify_outcome(pat, act)
    if bnd is None:
        err(name, 'expected %s (up to naming of temporaries, constant spelling, operand order of + * & ^): %s' % (what, why), ln, text); return None
    return bnd

def kint(bnd, k, name):
    if bnd is None: return 0
    v = bnd[k]
    if v[0] != 'int' or v[1] < 0:
        err(name, 'constant %s is not a non-negative integer literal: %s' % (k, v[2])); return 0
    return v[1]

def kfloat_int(bnd, k, name):
    """an integer-valued float literal"""
    if bnd is None: return 0
    v = bnd[k]
    if v[0] != 'float' or v[1] != int(v[1]) or v[1] < 0:
        err(name, 'constant %s is not an integer-valued float literal: %s' % (k, v[2])); return 0
    return int(v[1])

def kfloat_dec(bnd, k, name):
    if bnd is None: return (0, 0)
    v = bnd[k]
    if v[0] != 'float' or v[1] < 0:
        err(name, 'constant %s is not a non-negative float literal: %s' % (k, v[2])); return (0, 0)
    try: return float_lit(v[2])
    except ValueError as ex:
        err(name, str(ex)); return (0, 0)

# ------------------------------------------------------------------ Noise
noise_impl = region('Noise::next_sample', r'impl\s+Noise\s*\{')
vals = {}
NOISE_1 = ('fn noise_1(seed: u64) -> f64 { let x = (seed << K_seedShift) ^ seed; '
           '1.0 - (x.wrapping_mul(x.wrapping_mul(x).wrapping_mul(K_prime1).wrapping_add(K_prime2)).wrapping_add(K_prime3) & K_noiseMask) as f64 / K_noiseDiv }')
bn = match_fn('Noise::next_sample', noise_impl, 'next_sample', [],
    'let noise = noise_1(self.seed); self.seed = self.seed.wrapping_add(K_seedInc); noise',
    '`fn noise_1(seed) { let x = (seed << K) ^ seed; 1.0 - (x.wrapping_mul(x.wrapping_mul(x).wrapping_mul(PRIME_1).wrapping_add(PRIME_2)).wrapping_add(PRIME_3) & MASK) as f64 / DIV }` '
    'and `let noise = noise_1(self.seed); self.seed = self.seed.wrapping_add(1); noise`', helpers=NOISE_1)
for k in ('prime1', 'prime2', 'prime3', 'seedShift', 'noiseMask', 'seedInc'): vals[k] = kint(bn, k, 'Noise::next_sample')
vals['noiseDiv'] = kfloat_int(bn, 'noiseDiv', 'Noise::next_sample')

# ------------------------------------------------------------------ NoiseSimplex
simplex_impl = region('NoiseSimplex::next_sample', r'impl<S>\s*NoiseSimplex<S>\s*where\s*S\s*:\s*Step\s*,?\s*\{')
bn = match_fn('NoiseSimplex::next_sample', simplex_impl, 'next_sample', [],
    'simplex_noise_1d(self.phase.next_phase_wrapped_to(K_simplexWrap))',
    '`let phase = self.phase.next_phase_wrapped_to(TWO_POW_SIXTEEN); ... simplex_noise_1d(phase)`')
vals['simplexWrap'] = kfloat_int(bn, 'simplexWrap', 'NoiseSimplex::next_sample')
perm = []
m = need('simplex_noise_1d.PERM', (0, src_nc), r'constPERM:\[u8;(0x[0-9a-fA-F_]+|[0-9_]+)\]=\[([0-9a-fA-Fxu_,]*)\];', '`const PERM: [u8; 256] = [ ... ];`')
if m:
    n = num_int(m.group(1))
    perm = [num_int(t) for t in m.group(2).split(',') if t != '']
    if n != 256 or len(perm) != n:
        err('simplex_noise_1d.PERM', 'table has %d entries, declared %d, expected 256' % (len(perm), n), line_of(simplex_impl[0]))
    if any(p > 255 for p in perm):
        err('simplex_noise_1d.PERM', 'entry does not fit u8', line_of(simplex_impl[0]))
SIMPLEX_HELPERS = ('fn hash(i: i64) -> u8 { PERM[(i as u8) as usize] } '
    'fn grad(hash: i64, x: f64) -> f64 { let h = hash & K_gradMask; let mut grad = 1.0 + (h & K_gradMag) as f64; if (h & K_gradSign) != 0 { grad = -grad; } grad * x }')
bn = match_fn('simplex_noise_1d', simplex_impl, 'simplex_noise_1d', ['x'],
    'let i0 = ops::f64::floor(x) as i64; let i1 = i0 + 1; let x0 = x - i0 as f64; let x1 = x0 - 1.0; '
    'let mut t0 = 1.0 - x0 * x0; t0 *= t0; let n0 = t0 * t0 * grad(hash(i0) as i64, x0); '
    'let mut t1 = 1.0 - x1 * x1; t1 *= t1; let n1 = t1 * t1 * grad(hash(i1) as i64, x1); K_scale * (n0 + n1)',
    'simplex_noise_1d: corners i0 = floor(x), i1 = i0 + 1, distances x0, x1, t = (1 - d^2)^2, n = t^2 * grad(hash(i), d) with '
    '`hash(i) = PERM[(i as u8) as usize]`, `grad(hash, x) = { let h = hash & 0x0F; let mut grad = 1.0 + (h & 7) as f64; if (h & 8) != 0 { grad = -grad; } grad * x }`, result `<scale> * (n0 + n1)`',
    helpers=SIMPLEX_HELPERS)
vals['gradMask'], vals['gradMag'], vals['gradSign'] = (kint(bn, k, 'simplex_noise_1d') for k in ('gradMask', 'gradMag', 'gradSign'))
vals['scaleNum'], vals['scaleExp'] = kfloat_dec(bn, 'scale', 'simplex_noise_1d')

# ------------------------------------------------------------------ Phase / Sine / Saw / Square
ph = region('Phase::next_phase', r'impl<S>\s*Phase<S>\s*where\s*S\s*:\s*Step\s*,?\s*\{')
match_fn('Phase::next_phase_wrapped_to', ph, 'next_phase_wrapped_to', ['rem'],
    'let phase = self.next; self.next = (self.next + self.step.step()) % rem; phase',
    '`let phase = self.next; self.next = (self.next + self.step.step()) % rem; phase`')
bn = match_fn('Phase::next_phase', ph, 'next_phase', [], 'self.next_phase_wrapped_to(K_phaseWrap)', '`self.next_phase_wrapped_to(1.0)`')
vals['phaseWrap'] = kfloat_int(bn, 'phaseWrap', 'Phase::next_phase')
sine = region('Sine::next', r'impl<S>\s*Signal\s+for\s+Sine<S>')
bn = match_fn('Sine::next', sine, 'next', [], 'ops::f64::sin((core::f64::consts::PI * K_sineMul) * self.phase.next_phase())',
    '`const PI_2: f64 = core::f64::consts::PI * 2.0; let phase = self.phase.next_phase(); ops::f64::sin(PI_2 * phase)`')
PI_F64 = 3.14159265358979323846264338327950288   # core::f64::consts::PI (nearest f64)
vals['twoPiBits'] = 0
if bn is not None and bn['sineMul'][0] == 'float':
    k = PI_F64 * bn['sineMul'][1]        # one f64 multiplication, as rustc's const evaluation does (commutative)
    vals['twoPiBits'] = struct.unpack('<Q', struct.pack('<d', k))[0]
elif bn is not None: err('Sine::next', 'the factor of PI is not a float literal')
saw = region('Saw::next', r'impl<S>\s*Signal\s+for\s+Saw<S>')
bn = match_fn('Saw::next', saw, 'next', [], 'self.phase.next_phase() * -K_sawMul + K_sawAdd', '`phase * -2.0 + 1.0`')
vals['sawMul'], vals['sawAdd'] = kfloat_int(bn, 'sawMul', 'Saw::next'), kfloat_int(bn, 'sawAdd', 'Saw::next')
sq = region('Square::next', r'impl<S>\s*Signal\s+for\s+Square<S>')
bn = match_fn('Square::next', sq, 'next', [], 'if self.phase.next_phase() < K_thr { 1.0 } else { -1.0 }', '`if phase < 0.5 { 1.0 } else { -1.0 }`')
vals['squareThrNum'], vals['squareThrExp'] = kfloat_dec(bn, 'thr', 'Square::next')
# step = hz / rate
rate_impl = region('Rate::const_hz', r'impl\s+Rate\s*\{')
match_fn('Rate::const_hz', rate_impl, 'const_hz', ['hz'], 'ConstHz { step: hz / self.hz }', '`ConstHz { step: hz / self.hz }`')
hzstep = region('Hz::step', r'impl<S>\s*Step\s+for\s+Hz<S>')
match_fn('Hz::step', hzstep, 'step', [], 'self.hz.next() / self.rate.hz', '`let hz = self.hz.next(); hz / self.rate.hz`')
need('phase()', (0, src_nc), r'Phase\{step:step,next:0\.0(?:_?f64)?,?\}', '`Phase { step: step, next: 0.0 }`')

# ------------------------------------------------------------------ emit
os.makedirs(OUT, exist_ok=True)
L = []
L.append('/-! GENERATED by translator/gen_osc.py from %s — do not edit. -/' % 'dasp_signal/src/lib.rs')
L.append('namespace Dasp.Gen.Osc')
L.append('')
for k, doc in (('prime1', 'noise_1: PRIME_1'), ('prime2', 'noise_1: PRIME_2'), ('prime3', 'noise_1: PRIME_3'),
               ('seedShift', 'noise_1: `(seed << K) ^ seed`'), ('noiseMask', 'noise_1: `& MASK`'),
               ('noiseDiv', 'noise_1: `/ DIV` (integer-valued float literal)'), ('seedInc', 'Noise::next_sample: `self.seed.wrapping_add(INC)`'),
               ('simplexWrap', 'NoiseSimplex: TWO_POW_SIXTEEN'), ('gradMask', 'grad: `hash & M`'), ('gradMag', 'grad: `h & M`'),
               ('gradSign', 'grad: `(h & M) != 0`'), ('scaleNum', 'simplex scale literal = scaleNum / 10^scaleExp'), ('scaleExp', ''),
               ('phaseWrap', 'Phase::next_phase: next_phase_wrapped_to(W)'), ('twoPiBits', 'f64 bit pattern of `core::f64::consts::PI * 2.0`'),
               ('sawMul', 'Saw: `phase * -M + A`'), ('sawAdd', ''), ('squareThrNum', 'Square: `phase < T`, T = num / 10^exp'), ('squareThrExp', '')):
    if doc: L.append('/-- %s -/' % doc)
    L.append('def %s : Nat := %d' % (k, vals[k]))
L.append('')
L.append('/-- simplex_noise_1d: `const PERM: [u8; 256]` -/')
L.append('def perm : List Nat := [')
for i in range(0, len(perm), 16):
    L.append('  ' + ', '.join(str(p) for p in perm[i:i + 16]) + (',' if i + 16 < len(perm) else ''))
L.append(']')
L.append('')
L.append('end Dasp.Gen.Osc')
open(os.path.join(OUT, 'Osc.lean'), 'w').write('\n'.join(L) + '\n')
json.dump(dict(source=src_path, constants=vals, perm_len=len(perm), n_int=len(vals) + len(perm), n_float=0, errors=errors),
          open(os.path.join(OUT, 'osc_manifest.json'), 'w'), indent=1)
print('gen_osc: %d constants, PERM[%d], %d errors' % (len(vals), len(perm), len(errors)))
