#!/usr/bin/env python3
"""Translator: /repo/dasp_signal/src/lib.rs  ->  lean/Dasp/Gen/Osc.lean  (+ Gen/osc_manifest.json)

Reads, on every run, the literal data of the oscillator / noise generators (property C17):

  * `fn noise_1`: the three `const PRIME_n: u64`, the seed shift of `(seed << K) ^ seed`, the
    mask `& 0x7fffffff` and the divisor `/ 1_073_741_824.0`; the shape of the expression
    (wrapping_mul / wrapping_add chain, `1.0 - (...) as f64 / D`) and the seed increment
    `self.seed = self.seed.wrapping_add(1)` are recognised literally (whitespace-insensitive);
  * `NoiseSimplex::next_sample`: `const TWO_POW_SIXTEEN: f64`, the 256-entry `const PERM: [u8; 256]`,
    the gradient masks (`hash & 0x0F`, `h & 7`, `h & 8`) and the final scale `0.395 * (n0 + n1)`;
  * `Sine::next`: `const PI_2: f64 = core::f64::consts::PI * 2.0` (emitted as the f64 bit pattern
    of that constant expression), `Saw::next`: `phase * -2.0 + 1.0`, `Square::next`:
    `if phase < 0.5 { 1.0 } else { -1.0 }`, `Phase::next_phase`: `next_phase_wrapped_to(1.0)`.

The *meaning* (how these constants are combined) lives in lean/Dasp/Model/Osc.lean, which is
hand-transcribed and validated bit-for-bit by the correspondence streams; this translator ties
the literal data to the current source text.  A pattern that is not found is reported in
osc_manifest.json["errors"] (a broken obligation) and its definition is emitted as a
placeholder value that makes the theorems / the correspondence fail.
"""
import re, sys, json, os, struct
from fractions import Fraction

REPO = os.environ.get('VERIF_REPO', '/repo')
OUT = sys.argv[1] if len(sys.argv) > 1 else os.path.join(os.path.dirname(__file__), '..', 'lean', 'Dasp', 'Gen')
src_path = os.path.join(REPO, 'dasp_signal/src/lib.rs')
src = open(src_path).read()
# comments blanked, offsets and line numbers survive
sys.path.insert(0, os.path.dirname(os.path.abspath(__file__)))
from rustexpr import blank_comments
src_nc = blank_comments(src)

errors = []
found = {}

def line_of(pos):
    return src_nc.count('\n', 0, pos) + 1

def err(name, msg, line=0, text=''):
    errors.append(dict(function=name, line=line, error=msg, text=text))

def region(name, start_pat, end_pat=None, within=None):
    """text span starting at start_pat up to the matching close of its first `{` (brace matched)"""
    base, txt = (0, src_nc) if within is None else within
    m = re.search(start_pat, txt)
    if not m:
        err(name, 'pattern not found: %s' % start_pat); return None
    i = txt.find('{', m.end() - 1 if txt[m.end() - 1] == '{' else m.end())
    if i < 0:
        err(name, 'no body after %s' % start_pat); return None
    depth = 0; j = i
    while j < len(txt):
        if txt[j] == '{': depth += 1
        elif txt[j] == '}':
            depth -= 1
            if depth == 0: break
        j += 1
    return (base + m.start(), txt[m.start():j + 1])

def squash(s):
    return re.sub(r'\s+', '', s)

def num_int(tok):
    t = tok.replace('_', '')
    t = re.sub(r'(u64|i64|u8|usize|u32|i32)$', '', t)
    return int(t, 16) if t.lower().startswith('0x') else int(t)

def float_lit(tok):
    """decimal float literal -> (mantissa, exp10) with value = mantissa / 10^exp10, exactly"""
    t = tok.replace('_', '')
    t = re.sub(r'_?f64$', '', t)
    m = re.fullmatch(r'(\d+)\.(\d*)', t)
    if not m: raise ValueError('not a plain decimal float literal: %r' % tok)
    frac = m.group(2).rstrip('0')
    return int(m.group(1) + frac), len(frac)

def need(name, reg, pat, what, flags=0):
    """search `pat` in the whitespace-squashed region; record a broken obligation if absent"""
    if reg is None:
        return None
    base, txt = reg
    m = re.search(pat, squash(txt), flags)
    if not m:
        err(name, 'expected %s' % what, line_of(base), ' '.join(txt.split())[:400])
        return None
    return m

# ------------------------------------------------------------------ Noise
noise_impl = region('Noise::next_sample', r'impl\s+Noise\s*\{')
noise1 = region('noise_1', r'fn\s+noise_1\s*\(\s*seed\s*:\s*u64\s*\)\s*->\s*f64\s*\{', within=noise_impl) if noise_impl else None
vals = {}
for k in (1, 2, 3):
    m = need('noise_1.PRIME_%d' % k, noise1, r'constPRIME_%d:u64=(0x[0-9a-fA-F_]+|[0-9_]+)(?:u64)?;' % k, '`const PRIME_%d: u64 = <int>;`' % k)
    vals['prime%d' % k] = num_int(m.group(1)) if m else 0
m = need('noise_1.x', noise1, r'letx=\(seed<<(0x[0-9a-fA-F_]+|[0-9_]+)\)\^seed;', '`let x = (seed << K) ^ seed;`')
vals['seedShift'] = num_int(m.group(1)) if m else 0
m = need('noise_1.expr', noise1,
         r';1\.0(?:_?f64)?-\(x\.wrapping_mul\(x\.wrapping_mul\(x\)\.wrapping_mul\(PRIME_1\)\.wrapping_add\(PRIME_2\),?\)\.wrapping_add\(PRIME_3\)&(0x[0-9a-fA-F_]+|[0-9_]+)\)asf64/([0-9_]+\.[0-9_]*(?:_?f64)?)\}$',
         '`1.0 - (x.wrapping_mul(x.wrapping_mul(x).wrapping_mul(PRIME_1).wrapping_add(PRIME_2)).wrapping_add(PRIME_3) & MASK) as f64 / DIV`')
if m:
    vals['noiseMask'] = num_int(m.group(1))
    mm, ee = float_lit(m.group(2))
    if ee != 0: err('noise_1.expr', 'divisor %s is not an integer-valued literal' % m.group(2), line_of(noise1[0]))
    vals['noiseDiv'] = mm if ee == 0 else 0
else:
    vals['noiseMask'] = 0; vals['noiseDiv'] = 0
m = need('Noise::next_sample.step', noise_impl,
         r'letnoise=noise_1\(self\.seed\);self\.seed=self\.seed\.wrapping_add\((0x[0-9a-fA-F_]+|[0-9_]+)(?:u64)?\);noise\}',
         '`let noise = noise_1(self.seed); self.seed = self.seed.wrapping_add(1); noise`')
vals['seedInc'] = num_int(m.group(1)) if m else 0

# ------------------------------------------------------------------ NoiseSimplex
simplex_impl = region('NoiseSimplex::next_sample', r'impl<S>\s*NoiseSimplex<S>\s*where\s*S\s*:\s*Step\s*,?\s*\{')
m = need('NoiseSimplex.TWO_POW_SIXTEEN', simplex_impl, r'constTWO_POW_SIXTEEN:f64=([0-9_]+\.[0-9_]*(?:_?f64)?);', '`const TWO_POW_SIXTEEN: f64 = <float>;`')
vals['simplexWrap'] = 0
if m:
    mm, ee = float_lit(m.group(1))
    if ee != 0: err('NoiseSimplex.TWO_POW_SIXTEEN', 'not integer-valued', line_of(simplex_impl[0]))
    else: vals['simplexWrap'] = mm
need('NoiseSimplex.phase', simplex_impl, r'letphase=self\.phase\.next_phase_wrapped_to\(TWO_POW_SIXTEEN\);', '`let phase = self.phase.next_phase_wrapped_to(TWO_POW_SIXTEEN);`')
perm = []
m = need('simplex_noise_1d.PERM', simplex_impl, r'constPERM:\[u8;(0x[0-9a-fA-F_]+|[0-9_]+)\]=\[([0-9a-fA-Fxu_,]*)\];', '`const PERM: [u8; 256] = [ ... ];`')
if m:
    n = num_int(m.group(1))
    perm = [num_int(t) for t in m.group(2).split(',') if t != '']
    if n != 256 or len(perm) != n:
        err('simplex_noise_1d.PERM', 'table has %d entries, declared %d, expected 256' % (len(perm), n), line_of(simplex_impl[0]))
    if any(p > 255 for p in perm):
        err('simplex_noise_1d.PERM', 'entry does not fit u8', line_of(simplex_impl[0]))
need('simplex_noise_1d.hash', simplex_impl, r'fnhash\(i:i64\)->u8\{PERM\[\(iasu8\)asusize\]\}', '`fn hash(i: i64) -> u8 { PERM[(i as u8) as usize] }`')
m = need('simplex_noise_1d.grad', simplex_impl,
         r'fngrad\(hash:i64,x:f64\)->f64\{leth=hash&(0x[0-9a-fA-F_]+|[0-9_]+);letmutgrad=1\.0\+\(h&(0x[0-9a-fA-F_]+|[0-9_]+)\)asf64;if\(h&(0x[0-9a-fA-F_]+|[0-9_]+)\)!=0\{grad=-grad;\}grad\*x\}',
         '`fn grad(hash, x) { let h = hash & 0x0F; let mut grad = 1.0 + (h & 7) as f64; if (h & 8) != 0 { grad = -grad; } grad * x }`')
vals['gradMask'], vals['gradMag'], vals['gradSign'] = (num_int(m.group(1)), num_int(m.group(2)), num_int(m.group(3))) if m else (0, 0, 0)
need('simplex_noise_1d.body', simplex_impl,
     r'leti0=ops::f64::floor\(x\)asi64;leti1=i0\+1;letx0=x-i0asf64;letx1=x0-1\.0;'
     r'letmutt0=1\.0-x0\*x0;t0\*=t0;letn0=t0\*t0\*grad\(hash\(i0\)asi64,x0\);'
     r'letmutt1=1\.0-x1\*x1;t1\*=t1;letn1=t1\*t1\*grad\(hash\(i1\)asi64,x1\);',
     'the corner/contribution statements of simplex_noise_1d (i0, i1, x0, x1, t0, n0, t1, n1)')
m = need('simplex_noise_1d.scale', simplex_impl, r';([0-9_]+\.[0-9_]*(?:_?f64)?)\*\(n0\+n1\)\}', '`<scale> * (n0 + n1)` as the result')
vals['scaleNum'], vals['scaleExp'] = float_lit(m.group(1)) if m else (0, 0)

# ------------------------------------------------------------------ Phase / Sine / Saw / Square
ph = region('Phase::next_phase', r'impl<S>\s*Phase<S>\s*where\s*S\s*:\s*Step\s*,?\s*\{')
need('Phase::next_phase_wrapped_to', ph, r'pubfnnext_phase_wrapped_to\(&mutself,rem:f64\)->f64\{letphase=self\.next;self\.next=\(self\.next\+self\.step\.step\(\)\)%rem;phase\}',
     '`let phase = self.next; self.next = (self.next + self.step.step()) % rem; phase`')
m = need('Phase::next_phase', ph, r'pubfnnext_phase\(&mutself\)->f64\{self\.next_phase_wrapped_to\(([0-9_]+\.[0-9_]*(?:_?f64)?)\)\}', '`self.next_phase_wrapped_to(1.0)`')
vals['phaseWrap'] = 0
if m:
    mm, ee = float_lit(m.group(1))
    if ee != 0: err('Phase::next_phase', 'wrap value not integer-valued', line_of(ph[0]))
    else: vals['phaseWrap'] = mm
sine = region('Sine::next', r'impl<S>\s*Signal\s+for\s+Sine<S>')
m = need('Sine::next', sine, r'constPI_2:f64=core::f64::consts::PI\*([0-9_]+\.[0-9_]*(?:_?f64)?);letphase=self\.phase\.next_phase\(\);ops::f64::sin\(PI_2\*phase\)\}',
         '`const PI_2: f64 = core::f64::consts::PI * 2.0; ... ops::f64::sin(PI_2 * phase)`')
PI_F64 = 3.14159265358979323846264338327950288   # core::f64::consts::PI (nearest f64)
vals['twoPiBits'] = 0
if m:
    mm, ee = float_lit(m.group(1))
    k = PI_F64 * (mm / 10 ** ee)        # one f64 multiplication, as rustc's const evaluation does
    vals['twoPiBits'] = struct.unpack('<Q', struct.pack('<d', k))[0]
saw = region('Saw::next', r'impl<S>\s*Signal\s+for\s+Saw<S>')
m = need('Saw::next', saw, r'letphase=self\.phase\.next_phase\(\);phase\*-([0-9_]+\.[0-9_]*(?:_?f64)?)\+([0-9_]+\.[0-9_]*(?:_?f64)?)\}\}$', '`phase * -2.0 + 1.0`')
vals['sawMul'], vals['sawAdd'] = 0, 0
if m:
    a, ea = float_lit(m.group(1)); b, eb = float_lit(m.group(2))
    if ea or eb: err('Saw::next', 'non-integer constants', line_of(saw[0]))
    else: vals['sawMul'], vals['sawAdd'] = a, b
sq = region('Square::next', r'impl<S>\s*Signal\s+for\s+Square<S>')
m = need('Square::next', sq, r'letphase=self\.phase\.next_phase\(\);ifphase<([0-9_]+\.[0-9_]*(?:_?f64)?)\{1\.0(?:_?f64)?\}else\{-1\.0(?:_?f64)?\}\}\}$', '`if phase < 0.5 { 1.0 } else { -1.0 }`')
vals['squareThrNum'], vals['squareThrExp'] = float_lit(m.group(1)) if m else (0, 0)
# step = hz / rate
need('Rate::const_hz', (0, src_nc), r'pubfnconst_hz\(self,hz:f64\)->ConstHz\{ConstHz\{step:hz/self\.hz\}\}', '`ConstHz { step: hz / self.hz }`')
hzstep = region('Hz::step', r'impl<S>\s*Step\s+for\s+Hz<S>')
need('Hz::step', hzstep, r'fnstep\(&mutself\)->f64\{lethz=self\.hz\.next\(\);hz/self\.rate\.hz\}', '`let hz = self.hz.next(); hz / self.rate.hz`')
need('phase()', (0, src_nc), r'Phase\{step:step,next:0\.0,?\}', '`Phase { step: step, next: 0.0 }`')

# ------------------------------------------------------------------ emit
os.makedirs(OUT, exist_ok=True)
L = []
L.append('/-! GENERATED by translator/gen_osc.py from %s — do not edit. -/' % 'dasp_signal/src/lib.rs')
L.append('namespace Dasp.Gen.Osc')
L.append('')
for k, doc in (('prime1', 'noise_1: PRIME_1'), ('prime2', 'noise_1: PRIME_2'), ('prime3', 'noise_1: PRIME_3'),
               ('seedShift', 'noise_1: `(seed << K) ^ seed`'), ('noiseMask', 'noise_1: `& MASK`'),
               ('noiseDiv', 'noise_1: `/ DIV` (integer-valued float literal)'), ('seedInc', 'Noise::next_sample: `self.seed.wrapping_add(INC)`'),
               ('simplexWrap', 'NoiseSimplex: TWO_POW_SIXTEEN'), ('gradMask', 'grad: `hash & M`'), ('gradMag', 'grad: `h & M`'),
               ('gradSign', 'grad: `(h & M) != 0`'), ('scaleNum', 'simplex scale literal = scaleNum / 10^scaleExp'), ('scaleExp', ''),
               ('phaseWrap', 'Phase::next_phase: next_phase_wrapped_to(W)'), ('twoPiBits', 'f64 bit pattern of `core::f64::consts::PI * 2.0`'),
               ('sawMul', 'Saw: `phase * -M + A`'), ('sawAdd', ''), ('squareThrNum', 'Square: `phase < T`, T = num / 10^exp'), ('squareThrExp', '')):
    if doc: L.append('/-- %s -/' % doc)
    L.append('def %s : Nat := %d' % (k, vals[k]))
L.append('')
L.append('/-- simplex_noise_1d: `const PERM: [u8; 256]` -/')
L.append('def perm : List Nat := [')
for i in range(0, len(perm), 16):
    L.append('  ' + ', '.join(str(p) for p in perm[i:i + 16]) + (',' if i + 16 < len(perm) else ''))
L.append(']')
L.append('')
L.append('end Dasp.Gen.Osc')
open(os.path.join(OUT, 'Osc.lean'), 'w').write('\n'.join(L) + '\n')
json.dump(dict(source=src_path, constants=vals, perm_len=len(perm), n_int=len(vals) + len(perm), n_float=0, errors=errors),
          open(os.path.join(OUT, 'osc_manifest.json'), 'w'), indent=1)
print('gen_osc: %d constants, PERM[%d], %d errors' % (len(vals), len(perm), len(errors)))
